/-
  C10 — one-shot results depend only on the arguments, never on earlier calls.
  ONLY property theorems (and their non-vacuity examples) live here; helper lemmas are in Proofs/Lemmas
  (History: the generic induction over the operation list; ObjectsSound / StreamSound: the per-kind facts; Fields: the
  `fields%` elaborator).

  Shape, for every object kind X of Model.Objects (a `Machine`: configuration `cfg`, scratch fields, `next`/`out` of every
  public operation, erroring ones included):
    X_cfg_preserved          no operation changes the configuration (beyond an explicit setkey/setrate: `reconf`)
    X_result_depends_on_cfg  a one-shot call returns the same on ALL states sharing the configuration — for every kind but
                             AES / the modes over AES / Salsa20-ChaCha this quantifies over arbitrary scratch states
                             (havoc), so a call that raised half-way and left scratch state half-written is covered;
                             the three exceptions keep a cache BY DESIGN and assume the cache invariant, which
                             X_inv_preserved shows every operation (also an erroring one) maintains
    X_history_independent    the corollary, by the ONE generic induction `history_independent` over the operation list:
                             probe after any history = probe on a fresh, equally configured object
  `interleaved_history_independent` extends every instance to interleavings with a sibling instance or a module-level
  singleton.  The state-field inventory obligations at the end tie the scratch fields of the state structures to the
  attributes the AST of the live source assigns (Model.Gen.ObjectsG).

  Kinds that genuinely have call-to-call state by design: none of those the property lists.  Recorded exceptions:
  the AES key-schedule memo and the Salsa20/ChaCha input block (configuration and scratch in one attribute) — harmless
  under their invariants; `Nullpadding` used as the padding class of ECB/CBC — `dec` strips `pad.padcnt` bits, a number only
  the last `enc` knows: `mode_nullpadding_dec_depends_on_history` is the kernel-checked counter-example (known finding).
  Skein keeps the chaining value `G` (overwritten by the `_initstate()` every `__call__` starts with); Threefish has no
  scratch attribute at all (its key-schedule word lists are constructor-only configuration).
-/
import Model.Objects
import Model.Gen.ObjectsG
import Proofs.Lemmas.History
import Proofs.Lemmas.ObjectsSound
import Proofs.Lemmas.StreamSound
import Proofs.Lemmas.SalsaEnd
import Proofs.Lemmas.Fields
namespace Proofs.C10
open Model Model.Objects Proofs.Lemmas.History Proofs.Lemmas.ObjectsSound Proofs.Lemmas.StreamSound Proofs.Lemmas.Fields
open Model.Gen

/-! ## 1. The generic corollary (one induction over the operation list) -/

/-- for ANY machine with the per-kind facts: the result of a probe after any history of well-formed operations — with
    other options, erroring, re-configuring — equals its result on a fresh object with the (re-)configured configuration -/
theorem history_independent_generic (M : Machine) (Adm : M.Cfg → Prop) (Valid : M.Op → Prop) (Inv : M.State → Prop)
    (h : Sound M Adm Valid Inv) (c : M.Cfg) (hc : Adm c) (ops : List M.Op) (hv : ∀ op ∈ ops, Valid op) (p : M.Op)
    (hp : M.probe p = true) (hvp : Valid p) : M.after c ops p = M.fresh c ops p :=
  history_independent h c hc ops hv p hp hvp

/-- interleaved calls on a sibling instance / a module-level singleton (any second sound machine `N`): the probe on the
    first object still returns what it returns on a fresh object -/
theorem interleaved_history_independent (M N : Machine) {A : M.Cfg → Prop} {B : N.Cfg → Prop} {V : M.Op → Prop} {W : N.Op → Prop}
    {I : M.State → Prop} {J : N.State → Prop} (hM : Sound M A V I) (hN : Sound N B W J)
    (c : M.Cfg) (d : N.Cfg) (hc : A c) (hd : B d) (ops : List (M.Op ⊕ N.Op)) (hv : ∀ op ∈ ops, pairValid V W op)
    (p : M.Op) (hp : M.probe p = true) (hvp : V p) :
    (Machine.pair M N).after (c, d) ops (.inl p) = M.out (M.init ((Machine.pair M N).reconfAll (c, d) ops).1) p :=
  history_independent (pair_sound hM hN) (c, d) ⟨hc, hd⟩ ops hv (.inl p) hp hvp

/-- the per-kind facts, for every kind at once (used by the driver-independent instantiations below) -/
theorem all_kinds_sound (lcap : Nat → Nat) :
    Sound HashO.machine Any Any Havoc ∧ Sound KeccakO.machine Any Any Havoc ∧ Sound Md6O.machine Any Any Havoc ∧
    Sound BlakeO.machine Any Any Havoc ∧ Sound Blake2O.machine Any Any Havoc ∧ Sound HmacO.machine Any Any Havoc ∧
    Sound (TlshO.machine lcap) Any Any Havoc ∧ Sound NilsimsaO.machine Any Any Havoc ∧
    Sound AesO.machine Any Any AesO.Coherent ∧ Sound PureCipher.machine Any Any Havoc ∧
    Sound ModeO.machine ModeAdm Any ModeO.Coherent ∧ Sound StreamO.machine StreamAdm StreamValid StreamInv ∧
    Sound SkeinO.machine Any Any Havoc ∧ Sound ThreefishO.machine Any Any Havoc :=
  ⟨hash_sound, keccak_sound, md6_sound, blake_sound, blake2_sound, hmac_sound, tlsh_sound lcap, nilsimsa_sound, aes_sound,
   pure_sound, mode_sound, stream_sound, skein_sound, threefish_sound⟩

/-! ## 2. Per kind -/

/-! ### MD4 / MD5 / SHA-0 / SHA-1 / SHA-2 objects (any `HashCore`) -/

/-- no operation of the alphabet — erroring ones included — changes the configuration -/
theorem hash_cfg_preserved (s : HashO.State) (op : HashO.Op) :
    HashO.machine.cfg (HashO.machine.next s op) = HashO.machine.reconf (HashO.machine.cfg s) op := hash_sound.cfg_preserved s op

/-- a one-shot call returns the same on ALL states with the same configuration (any scratch state, reachable or not) -/
theorem hash_result_depends_on_cfg (s s' : HashO.State) (a : HashO.Op) (ha : HashO.machine.probe a = true) (h : HashO.machine.cfg s = HashO.machine.cfg s') :
    HashO.machine.out s a = HashO.machine.out s' a := hash_sound.result_depends_on_cfg s s' a ha trivial trivial trivial trivial h

/-- after ANY history the probe returns what it returns on a fresh object -/
theorem hash_history_independent (c : HashCore) (ops : List HashO.Op) (p : HashO.Op) (hp : HashO.machine.probe p = true) :
    HashO.machine.after c ops p = HashO.machine.out (HashO.machine.init c) p :=
  history_independent' hash_sound (fun _ _ => rfl) c trivial ops (fun _ _ => trivial) p hp trivial

/-! ### Keccak / SHA3 objects and the module singletons keccak_224 … keccak_512 -/

/-- no operation of the alphabet — erroring ones included — changes the configuration (other than the explicit re-configuration `reconf` describes) -/
theorem keccak_cfg_preserved (s : KeccakO.State) (op : KeccakO.Op) :
    KeccakO.machine.cfg (KeccakO.machine.next s op) = KeccakO.machine.reconf (KeccakO.machine.cfg s) op := keccak_sound.cfg_preserved s op

/-- a one-shot call returns the same on ALL states with the same configuration (any scratch state, reachable or not) -/
theorem keccak_result_depends_on_cfg (s s' : KeccakO.State) (a : KeccakO.Op) (ha : KeccakO.machine.probe a = true) (h : KeccakO.machine.cfg s = KeccakO.machine.cfg s') :
    KeccakO.machine.out s a = KeccakO.machine.out s' a := keccak_sound.result_depends_on_cfg s s' a ha trivial trivial trivial trivial h

/-- after ANY history the probe returns what it returns on a fresh object carrying the re-configured configuration -/
theorem keccak_history_independent (c : Keccak.Cfg) (ops : List KeccakO.Op) (p : KeccakO.Op) (hp : KeccakO.machine.probe p = true) :
    KeccakO.machine.after c ops p = KeccakO.machine.fresh c ops p :=
  history_independent keccak_sound c trivial ops (fun _ _ => trivial) p hp trivial

/-! ### MD6 objects -/

/-- no operation of the alphabet — erroring ones included — changes the configuration -/
theorem md6_cfg_preserved (s : Md6O.State) (op : Md6O.Op) :
    Md6O.machine.cfg (Md6O.machine.next s op) = Md6O.machine.reconf (Md6O.machine.cfg s) op := md6_sound.cfg_preserved s op

/-- a one-shot call returns the same on ALL states with the same configuration (any scratch state, reachable or not) -/
theorem md6_result_depends_on_cfg (s s' : Md6O.State) (a : Md6O.Op) (ha : Md6O.machine.probe a = true) (h : Md6O.machine.cfg s = Md6O.machine.cfg s') :
    Md6O.machine.out s a = Md6O.machine.out s' a := md6_sound.result_depends_on_cfg s s' a ha trivial trivial trivial trivial h

/-- after ANY history the probe returns what it returns on a fresh object -/
theorem md6_history_independent (c : Md6.MD6) (ops : List Md6O.Op) (p : Md6O.Op) (hp : Md6O.machine.probe p = true) :
    Md6O.machine.after c ops p = Md6O.machine.out (Md6O.machine.init c) p :=
  history_independent' md6_sound (fun _ _ => rfl) c trivial ops (fun _ _ => trivial) p hp trivial

/-! ### Blake objects and the module singletons blake224 … blake512 -/

/-- no operation of the alphabet — erroring ones included — changes the configuration -/
theorem blake_cfg_preserved (s : BlakeO.State) (op : BlakeO.Op) :
    BlakeO.machine.cfg (BlakeO.machine.next s op) = BlakeO.machine.reconf (BlakeO.machine.cfg s) op := blake_sound.cfg_preserved s op

/-- a one-shot call returns the same on ALL states with the same configuration (any scratch state, reachable or not) -/
theorem blake_result_depends_on_cfg (s s' : BlakeO.State) (a : BlakeO.Op) (ha : BlakeO.machine.probe a = true) (h : BlakeO.machine.cfg s = BlakeO.machine.cfg s') :
    BlakeO.machine.out s a = BlakeO.machine.out s' a := blake_sound.result_depends_on_cfg s s' a ha trivial trivial trivial trivial h

/-- after ANY history the probe returns what it returns on a fresh object -/
theorem blake_history_independent (c : Blake.Cfg) (ops : List BlakeO.Op) (p : BlakeO.Op) (hp : BlakeO.machine.probe p = true) :
    BlakeO.machine.after c ops p = BlakeO.machine.out (BlakeO.machine.init c) p :=
  history_independent' blake_sound (fun _ _ => rfl) c trivial ops (fun _ _ => trivial) p hp trivial

/-! ### Blake2 objects and the module singletons blake2b, blake2s -/

/-- no operation of the alphabet — erroring ones included — changes the configuration -/
theorem blake2_cfg_preserved (s : Blake2O.State) (op : Blake2O.Op) :
    Blake2O.machine.cfg (Blake2O.machine.next s op) = Blake2O.machine.reconf (Blake2O.machine.cfg s) op := blake2_sound.cfg_preserved s op

/-- a one-shot call returns the same on ALL states with the same configuration (any scratch state, reachable or not) -/
theorem blake2_result_depends_on_cfg (s s' : Blake2O.State) (a : Blake2O.Op) (ha : Blake2O.machine.probe a = true) (h : Blake2O.machine.cfg s = Blake2O.machine.cfg s') :
    Blake2O.machine.out s a = Blake2O.machine.out s' a := blake2_sound.result_depends_on_cfg s s' a ha trivial trivial trivial trivial h

/-- after ANY history the probe returns what it returns on a fresh object -/
theorem blake2_history_independent (c : Blake.Cfg) (ops : List Blake2O.Op) (p : Blake2O.Op) (hp : Blake2O.machine.probe p = true) :
    Blake2O.machine.after c ops p = Blake2O.machine.out (Blake2O.machine.init c) p :=
  history_independent' blake2_sound (fun _ _ => rfl) c trivial ops (fun _ _ => trivial) p hp trivial

/-! ### Skein objects (every block size, output length, key / personalisation / public key / KDF id / nonce stage, tree parameters) -/

/-- no operation of the alphabet (`__call__`, `update`, `_initstate`) — erroring ones included — changes the configuration -/
theorem skein_cfg_preserved (s : SkeinO.State) (op : SkeinO.Op) :
    SkeinO.machine.cfg (SkeinO.machine.next s op) = SkeinO.machine.reconf (SkeinO.machine.cfg s) op := skein_sound.cfg_preserved s op

/-- a one-shot call returns the same on ALL states with the same configuration: whatever chaining value `G` an earlier
    `update`, an earlier call or a call that raised half-way through `_initstate` left behind — or none at all -/
theorem skein_result_depends_on_cfg (s s' : SkeinO.State) (a : SkeinO.Op) (ha : SkeinO.machine.probe a = true) (h : SkeinO.machine.cfg s = SkeinO.machine.cfg s') :
    SkeinO.machine.out s a = SkeinO.machine.out s' a := skein_sound.result_depends_on_cfg s s' a ha trivial trivial trivial trivial h

/-- after ANY history the probe returns what it returns on a fresh object -/
theorem skein_history_independent (c : Skein.Cfg) (ops : List SkeinO.Op) (p : SkeinO.Op) (hp : SkeinO.machine.probe p = true) :
    SkeinO.machine.after c ops p = SkeinO.machine.out (SkeinO.machine.init c) p :=
  (history_independent_generic SkeinO.machine Any Any Havoc skein_sound c trivial ops (fun _ _ => trivial) p hp trivial).trans
    (congrArg (fun x => SkeinO.machine.out (SkeinO.machine.init x) p) (reconfAll_id (M := SkeinO.machine) (fun _ _ => rfl) c ops))

/-- … and that is the functional model `Skein.call` of the hash properties (C12, C13), in every state -/
theorem skein_call_is_model (s : SkeinO.State) (M : List Nat) (bitlen : Option Nat) :
    SkeinO.machine.out s (.call M bitlen) = bytesRes (Skein.call s.cfg M bitlen) := skein_call_eq s M bitlen

/-- `update` is NOT a one-shot operation: it chains from `G` (so it is outside `probe`) — on a new object it raises, after
    `_initstate()` it succeeds -/
theorem skein_update_reads_G (c : Skein.Cfg) (M : List Nat) :
    SkeinO.machine.out (SkeinO.init c) (.update M) = .error "AttributeError:G" := rfl

/-! ### Threefish objects (no scratch state at all: the word lists `__k`, `__t` are written by the constructor only) -/

/-- no operation of the alphabet — erroring ones included — changes the configuration -/
theorem threefish_cfg_preserved (s : ThreefishO.State) (op : ThreefishO.Op) :
    ThreefishO.machine.cfg (ThreefishO.machine.next s op) = ThreefishO.machine.reconf (ThreefishO.machine.cfg s) op := threefish_sound.cfg_preserved s op

/-- `enc` / `dec` return the same on ALL states with the same configuration -/
theorem threefish_result_depends_on_cfg (s s' : ThreefishO.State) (a : ThreefishO.Op) (ha : ThreefishO.machine.probe a = true) (h : ThreefishO.machine.cfg s = ThreefishO.machine.cfg s') :
    ThreefishO.machine.out s a = ThreefishO.machine.out s' a := threefish_sound.result_depends_on_cfg s s' a ha trivial trivial trivial trivial h

/-- after ANY history the probe returns what it returns on a fresh object -/
theorem threefish_history_independent (c : Threefish.Ctx) (ops : List ThreefishO.Op) (p : ThreefishO.Op) (hp : ThreefishO.machine.probe p = true) :
    ThreefishO.machine.after c ops p = ThreefishO.machine.out (ThreefishO.machine.init c) p :=
  (history_independent_generic ThreefishO.machine Any Any Havoc threefish_sound c trivial ops (fun _ _ => trivial) p hp trivial).trans
    (congrArg (fun x => ThreefishO.machine.out (ThreefishO.machine.init x) p) (reconfAll_id (M := ThreefishO.machine) (fun _ _ => rfl) c ops))

/-- the object machine's `enc`/`dec` are `Threefish(key,tweak).enc/dec` of the cipher properties (C02, C03) -/
theorem threefish_ops_are_model (key tweak : List Nat) (c : Threefish.Ctx) (hc : Threefish.init key tweak = .ok c) (b : List Nat) :
    ThreefishO.machine.out (ThreefishO.machine.init c) (.enc b) = bytesRes (Threefish.encrypt key tweak b) ∧
    ThreefishO.machine.out (ThreefishO.machine.init c) (.dec b) = bytesRes (Threefish.decrypt key tweak b) := by
  unfold Threefish.encrypt Threefish.decrypt
  rw [hc]; exact ⟨rfl, rfl⟩

/-! ### HMAC objects (the hash object is shared state) -/

/-- no operation of the alphabet — erroring ones included — changes the configuration (other than the explicit re-configuration `reconf` describes) -/
theorem hmac_cfg_preserved (s : HmacO.State) (op : HmacO.Op) :
    HmacO.machine.cfg (HmacO.machine.next s op) = HmacO.machine.reconf (HmacO.machine.cfg s) op := hmac_sound.cfg_preserved s op

/-- a one-shot call returns the same on ALL states with the same configuration (any scratch state, reachable or not) -/
theorem hmac_result_depends_on_cfg (s s' : HmacO.State) (a : HmacO.Op) (ha : HmacO.machine.probe a = true) (h : HmacO.machine.cfg s = HmacO.machine.cfg s') :
    HmacO.machine.out s a = HmacO.machine.out s' a := hmac_sound.result_depends_on_cfg s s' a ha trivial trivial trivial trivial h

/-- after ANY history the probe returns what it returns on a fresh object carrying the re-configured configuration -/
theorem hmac_history_independent (c : HmacO.Cfg) (ops : List HmacO.Op) (p : HmacO.Op) (hp : HmacO.machine.probe p = true) :
    HmacO.machine.after c ops p = HmacO.machine.fresh c ops p :=
  history_independent hmac_sound c trivial ops (fun _ _ => trivial) p hp trivial

/-! ### Nilsimsa objects -/

/-- no operation of the alphabet — erroring ones included — changes the configuration -/
theorem nilsimsa_cfg_preserved (s : NilsimsaO.State) (op : NilsimsaO.Op) :
    NilsimsaO.machine.cfg (NilsimsaO.machine.next s op) = NilsimsaO.machine.reconf (NilsimsaO.machine.cfg s) op := nilsimsa_sound.cfg_preserved s op

/-- a one-shot call returns the same on ALL states with the same configuration (any scratch state, reachable or not) -/
theorem nilsimsa_result_depends_on_cfg (s s' : NilsimsaO.State) (a : NilsimsaO.Op) (ha : NilsimsaO.machine.probe a = true) (h : NilsimsaO.machine.cfg s = NilsimsaO.machine.cfg s') :
    NilsimsaO.machine.out s a = NilsimsaO.machine.out s' a := nilsimsa_sound.result_depends_on_cfg s s' a ha trivial trivial trivial trivial h

/-- after ANY history the probe returns what it returns on a fresh object -/
theorem nilsimsa_history_independent (c : List Nat) (ops : List NilsimsaO.Op) (p : NilsimsaO.Op) (hp : NilsimsaO.machine.probe p = true) :
    NilsimsaO.machine.after c ops p = NilsimsaO.machine.out (NilsimsaO.machine.init c) p :=
  history_independent' nilsimsa_sound (fun _ _ => rfl) c trivial ops (fun _ _ => trivial) p hp trivial

/-! ### DES / TDEA / Serpent objects (no scratch state at all) -/

/-- no operation of the alphabet — erroring ones included — changes the configuration -/
theorem cipher_cfg_preserved (s : PureCipher.State) (op : PureCipher.Op) :
    PureCipher.machine.cfg (PureCipher.machine.next s op) = PureCipher.machine.reconf (PureCipher.machine.cfg s) op := pure_sound.cfg_preserved s op

/-- a one-shot call returns the same on ALL states with the same configuration (any scratch state, reachable or not) -/
theorem cipher_result_depends_on_cfg (s s' : PureCipher.State) (a : PureCipher.Op) (ha : PureCipher.machine.probe a = true) (h : PureCipher.machine.cfg s = PureCipher.machine.cfg s') :
    PureCipher.machine.out s a = PureCipher.machine.out s' a := pure_sound.result_depends_on_cfg s s' a ha trivial trivial trivial trivial h

/-- after ANY history the probe returns what it returns on a fresh object -/
theorem cipher_history_independent (c : BlockCipher) (ops : List PureCipher.Op) (p : PureCipher.Op) (hp : PureCipher.machine.probe p = true) :
    PureCipher.machine.after c ops p = PureCipher.machine.out (PureCipher.machine.init c) p :=
  history_independent' pure_sound (fun _ _ => rfl) c trivial ops (fun _ _ => trivial) p hp trivial

/-! ### TLSH objects and the module singleton `tlsh` (`lcap` = libm `log`, an uninterpreted parameter) -/

theorem tlsh_cfg_preserved (lcap : Nat → Nat) (s : TlshO.State) (op : TlshO.Op) : (TlshO.step lcap s op).1.cfg = s.cfg :=
  tlsh_cfg lcap s op

theorem tlsh_result_depends_on_cfg (lcap : Nat → Nat) (s s' : TlshO.State) (a : TlshO.Op) (ha : TlshO.isProbe a = true)
    (h : s.cfg = s'.cfg) : (TlshO.step lcap s a).2 = (TlshO.step lcap s' a).2 := tlsh_result lcap s s' a ha h

theorem tlsh_history_independent (lcap : Nat → Nat) (c : Tlsh.Cfg) (ops : List TlshO.Op) (p : TlshO.Op) (hp : TlshO.isProbe p = true) :
    (TlshO.machine lcap).after c ops p = (TlshO.machine lcap).out (TlshO.init c) p :=
  history_independent' (tlsh_sound lcap) (fun _ _ => rfl) c trivial ops (fun _ _ => trivial) p hp trivial

/-! ### AES objects: the cached key schedule `_AES__w` is call-to-call state by design (a memo) -/

theorem aes_cfg_preserved (s : AesO.State) (op : AesO.Op) : (AesO.next s op).cfg = s.cfg := aes_cfg s op

/-- the cheap successor function the driver uses is the first component of `step` -/
theorem aes_next_is_step (s : AesO.State) (op : AesO.Op) : AesO.next s op = (AesO.step s op).1 := aes_next_eq_step s op

/-- every operation, also an erroring one, keeps the cache coherent (absent, or THE key schedule of `K`) -/
theorem aes_inv_preserved (s : AesO.State) (op : AesO.Op) (h : AesO.Coherent s) : AesO.Coherent (AesO.next s op) := aes_inv s op h

/-- with a coherent cache every operation returns the same whatever the cache holds -/
theorem aes_result_depends_on_cfg (s s' : AesO.State) (a : AesO.Op) (h : AesO.Coherent s) (h' : AesO.Coherent s')
    (hc : s.cfg = s'.cfg) : (AesO.step s a).2 = (AesO.step s' a).2 := aes_result s s' a h h' hc

/-- … and an incoherent cache WOULD change the result: the invariant is needed (K = 16 zero bytes, a foreign schedule) -/
theorem aes_cache_matters :
    (AesO.step ⟨List.replicate 16 0, some (Aes.keySchedule (List.replicate 16 1))⟩ (.enc (List.replicate 16 0))).2.toOption ≠
    (AesO.step ⟨List.replicate 16 0, none⟩ (.enc (List.replicate 16 0))).2.toOption := by decide +kernel

theorem aes_history_independent (K : List Nat) (ops : List AesO.Op) (p : AesO.Op) (hp : AesO.isProbe p = true) :
    AesO.machine.after K ops p = AesO.machine.out (AesO.init K) p :=
  history_independent' aes_sound (fun _ _ => rfl) K trivial ops (fun _ _ => trivial) p hp trivial

/-! ### ECB / CBC / CTR / CTS_ECB / CTS_CBC over any cipher object (AES with its cache, or a cipher without scratch state) -/

theorem mode_cfg_preserved (s : ModeO.State) (op : ModeO.Op) : (ModeO.next s op).cfg = s.cfg := mode_cfg s op

theorem mode_next_is_step (s : ModeO.State) (op : ModeO.Op) : ModeO.next s op = (ModeO.step s op).1 := mode_next_eq_step s op

theorem mode_inv_preserved (s : ModeO.State) (op : ModeO.Op) (h : ModeO.Coherent s) : ModeO.Coherent (ModeO.next s op) :=
  mode_inv s op h

/-- `enc` and `dec` return the same for ANY padding-iterator state, counter value and (coherent) cipher cache — for every
    padding class except `Nullpadding` -/
theorem mode_result_depends_on_cfg (s s' : ModeO.State) (a : ModeO.Op) (ha : ModeO.isProbe a = true) (hn : s.cfg.scheme ≠ .null)
    (h : ModeO.Coherent s) (h' : ModeO.Coherent s') (hc : s.cfg = s'.cfg) : (ModeO.step s a).2 = (ModeO.step s' a).2 :=
  mode_result s s' a ha hn h h' hc

theorem mode_history_independent (c : ModeO.Cfg) (hn : c.scheme ≠ .null) (ops : List ModeO.Op) (p : ModeO.Op)
    (hp : ModeO.isProbe p = true) : ModeO.machine.after c ops p = ModeO.machine.out (ModeO.init c) p :=
  history_independent' mode_sound (fun _ _ => rfl) c hn ops (fun _ _ => trivial) p hp trivial

/-- `enc` alone is history-independent for EVERY padding class, `Nullpadding` included -/
theorem mode_enc_result_depends_on_cfg (s s' : ModeO.State) (M : List Nat) (h : ModeO.Coherent s) (h' : ModeO.Coherent s')
    (hc : s.cfg = s'.cfg) : (ModeO.step s (.enc M)).2 = (ModeO.step s' (.enc M)).2 := by
  show bytesRes (ModeO.encRes s.cfg _ M) = bytesRes (ModeO.encRes s'.cfg _ M)
  rw [mode_cipherOf s h, mode_cipherOf s' h', hc]

def nullCfg : ModeO.Cfg := { kind := .ecb, cipher := .pure (Toy.rot 8 [1, 2, 3, 4, 5, 6, 7, 8]), iv := none, scheme := .null }
def nullCt : List Nat := [0xea, 0xf5, 0x00, 0x0c, 0x18, 0x24, 0x31, 0x3e, 0x6d, 0x7a, 0x88, 0x96, 0xa4, 0xb3, 0xc2, 0xd1]

/-- KNOWN FINDING C10-nullpad-remove (kernel-checked witness): `ECB(c,pad=Nullpadding)`: after `enc(b'\x01\x02\x03')` the same
    `dec` returns 11 bytes, on a fresh object 16 — `Nullpadding.remove` strips `padcnt` bits, which only the last `enc` set -/
theorem mode_nullpadding_dec_depends_on_history :
    (ModeO.machine.after nullCfg [.enc [1, 2, 3]] (.dec nullCt)).toOption ≠ (ModeO.machine.fresh nullCfg [.enc [1, 2, 3]] (.dec nullCt)).toOption := by
  decide +kernel

/-! ### Salsa20 / Chacha objects: `p` holds configuration (constants, key) and scratch (nonce, counter) words -/

theorem stream_cfg_preserved (s : StreamO.State) (op : StreamO.Op) : (StreamO.step s op).1.cfg = s.cfg := stream_cfg s op

/-- every well-formed operation keeps the key and constant words of `p` (only nonce and counter words move) -/
theorem stream_inv_preserved (s : StreamO.State) (op : StreamO.Op) (hv : StreamValid op) (h : StreamInv s) :
    StreamInv ((StreamO.step s op).1) := stream_inv s op hv h

/-- `enc`/`dec`/`hash` return the same whatever the nonce and counter words of `p` hold -/
theorem stream_result_depends_on_cfg (s s' : StreamO.State) (a : StreamO.Op) (ha : StreamO.isProbe a = true) (hv : StreamValid a)
    (h : StreamInv s) (h' : StreamInv s') (hc : s.cfg = s'.cfg) : (StreamO.step s a).2 = (StreamO.step s' a).2 :=
  stream_result s s' a ha hv h h' hc

/-- for every configuration whose constructor left 16 words in `p`, every history of well-formed operations (messages are
    byte strings of fewer than 2^70 bytes; abandoned `keystream` generators of any length allowed) -/
theorem stream_history_independent (c : StreamO.Cfg) (hc : StreamAdm c) (ops : List StreamO.Op) (hv : ∀ op ∈ ops, StreamValid op)
    (p : StreamO.Op) (hp : StreamO.isProbe p = true) (hvp : StreamValid p) :
    StreamO.machine.after c ops p = StreamO.machine.out (StreamO.init c) p :=
  history_independent' stream_sound (fun _ _ => rfl) c hc ops hv p hp hvp

/-- the hypothesis `StreamAdm` holds for every object the library can build: `Salsa20(Bits(key,bitorder=1),rounds)` and
    `Chacha(…)` with a 16- or 32-byte key leave 16 words of 32 bits in `p` (C06 key-expansion lemmas) -/
theorem stream_adm_of_constructor (chacha : Bool) (key : List (BitVec 8)) (hk : key.length = 16 ∨ key.length = 32) (rounds : Int)
    (hr : rounds > 0 ∧ rounds % 2 = 0) :
    ∃ st : Salsa.State, (do let K ← Bits.ofBytes (key.map BitVec.toNat) none 1
                            if chacha then Chacha.init (some K) rounds else Salsa.init (some K) rounds) = .ok st ∧
      StreamAdm { chacha := chacha, K := st.K, dround := st.dround, p0 := st.p } := by
  cases chacha with
  | false =>
    obtain ⟨ks, h⟩ := Proofs.Lemmas.SalsaEnd.salsa_init_bytes key hk rounds hr
    exact ⟨_, h, _, Proofs.Lemmas.SalsaEnd.salsaP_length key, rfl⟩
  | true =>
    obtain ⟨ks, h⟩ := Proofs.Lemmas.SalsaEnd.chacha_init_bytes key hk rounds hr
    exact ⟨_, h, _, Proofs.Lemmas.SalsaEnd.chachaP_length key, rfl⟩

/-! ### Keccak: the cheap successor function of the driver -/
theorem keccak_next_is_step (s : KeccakO.State) (op : KeccakO.Op) : KeccakO.next s op = (KeccakO.step s op).1 := keccak_next_eq_step s op

/-- the two repaired defects, as facts of the model: a per-call rate and a duplex call leave the configuration alone -/
theorem keccak_call_rate_does_not_persist (s : KeccakO.State) (M : List Nat) (bl : Option Nat) (r : Nat) :
    (KeccakO.next s (.call M bl (some r))).cfg = s.cfg := rfl
theorem keccak_duplex_restores_duplexing (s : KeccakO.State) (m : List Nat) (bl ol : Option Nat) :
    (KeccakO.next s (.duplex m bl ol)).cfg.duplexing = s.cfg.duplexing := rfl

/-! ## 3. State-field inventory: the scratch fields of the state structures ARE the attributes the live source assigns -/

/-- MD4, MD5, SHA1, SHA2: `initstate` assigns `H`, `padmethod` -/
theorem inventory_hashes :
    (["MD4", "MD5", "SHA1", "SHA2"].all fun cls => sameSet (ObjectsG.assigned cls) (scratchOf (fields% HashO.State) [] [])) = true := by decide

/-- Keccak, SHA3: `_S` (duplex) is scratch; `r`, `c` (setrate) and `duplexing` (duplex, restored) are configuration -/
theorem inventory_keccak :
    (["Keccak", "SHA3"].all fun cls => sameSet (ObjectsG.assigned cls) (scratchOf (fields% KeccakO.State) [] ["c", "duplexing", "r"])) = true := by decide

theorem inventory_md6 : sameSet (ObjectsG.assigned "MD6") (scratchOf (fields% Md6O.State) [] []) = true := by decide
theorem inventory_blake : sameSet (ObjectsG.assigned "Blake") (scratchOf (fields% BlakeO.State) [] []) = true := by decide
theorem inventory_blake2 : sameSet (ObjectsG.assigned "Blake2") (scratchOf (fields% Blake2O.State) [] []) = true := by decide

/-- HMAC: `K` is (re-)configuration (`setkey`); `h` is the shared hash object, whose scratch is `inventory_hashes` -/
theorem inventory_hmac :
    sameSet (ObjectsG.assigned "HMAC") (scratchOf (fields% HmacO.State) ["h"] ["K"]) = true ∧ (ObjectsG.ctorOnly "HMAC").contains "h" = true ∧
    sameSet (fields% HashObj) ["H", "pad"] = true := by decide

theorem inventory_tlsh : sameSet (ObjectsG.assigned "TLSH") (scratchOf (fields% TlshO.State) [] []) = true := by decide
theorem inventory_nilsimsa : sameSet (ObjectsG.assigned "Nilsimsa") (scratchOf (fields% NilsimsaO.State) [] []) = true := by decide
theorem inventory_aes : sameSet (ObjectsG.assigned "AES") (scratchOf (fields% AesO.State) [] []) = true := by decide

/-- DES, TDEA, Serpent assign nothing outside `__init__` -/
theorem inventory_pure_ciphers :
    (["DES", "TDEA", "Serpent"].all fun cls => sameSet (ObjectsG.assigned cls) (scratchOf (fields% PureCipher.State) [] [])) = true := by decide

/-- the mode classes assign nothing themselves; their scratch is the owned padding iterator (`pad`: padflag, bitcnt, padcnt —
    the same three attributes for every padding class), the owned counter (`count`; `nonce`, `count0` are configuration set
    by `setup`) and the shared cipher object (`_cipher`: the AES inventory) -/
theorem inventory_modes :
    (["Mode", "ECB", "CBC", "CTR", "CTS_ECB", "CTS_CBC"].all fun cls =>
      sameSet (ObjectsG.assigned cls) (scratchOf (fields% ModeO.State) ["pad", "count", "_cipher"] [])) = true ∧
    (["blockiterator", "nopadding", "Nullpadding", "bitpadding", "pkcs7", "X923", "MDpadding", "SHApadding", "Blakepadding"].all fun cls =>
      sameSet (ObjectsG.assigned cls) (fields% PadState)) = true ∧
    sameSet (ObjectsG.assigned "DefaultCounter") (["count"] ++ ["count0", "nonce"]) = true ∧
    (["_cipher", "pad"].all fun a => (ObjectsG.ctorOnly "ECB").contains a && (ObjectsG.ctorOnly "CTR").contains a) = true ∧
    (ObjectsG.ctorOnly "CTR").contains "counter" = true := by decide

theorem inventory_streams :
    (["Salsa20", "Chacha"].all fun cls => sameSet (ObjectsG.assigned cls) (scratchOf (fields% StreamO.State) [] [])) = true := by decide

/-- Skein: `G` is the only attribute assigned outside `__init__` (`_initstate`, `update`, `_treehash`); the configuration
    structure `Skein.Cfg` has exactly the constructor-only attributes (`C`: the configuration string computed once; `Yl`,
    `Yf`, `Ym`: the tree parameters; `key`, `prs`, `PK`, `kdf`, `non`: the optional stages) -/
theorem inventory_skein :
    sameSet (ObjectsG.assigned "Skein") (scratchOf (fields% SkeinO.State) [] []) = true ∧
    sameSet (ObjectsG.ctorOnly "Skein") (fields% Skein.Cfg) = true := by decide

/-- Python's name mangling of the private attributes of class `Threefish` -/
def mangleThreefish (f : String) : String := if ["pi", "piinv", "R", "k", "t"].contains f then "_Threefish__" ++ f else f

/-- Threefish assigns nothing outside `__init__`; the context structure `Threefish.Ctx` has exactly the constructor-only
    attributes: `K`, `T`, `Nw`, `Nr` and the private `__pi`, `__piinv`, `__R` (tables), `__k`, `__t` (extended key / tweak words) -/
theorem inventory_threefish :
    sameSet (ObjectsG.assigned "Threefish") (scratchOf (fields% ThreefishO.State) [] []) = true ∧
    sameSet (ObjectsG.ctorOnly "Threefish") ((fields% Threefish.Ctx).map mangleThreefish) = true := by decide

/-- helper classes that live inside one call and have no machine of their own: a `UBI` assigns nothing outside `__init__`
    (its `G`, `Ts` are constructor arguments; every Skein operation builds its own); a `Tweak` is a `Bits` mutated in place
    through its property setters (it is owned by the UBI that copied it); the Keccak `State` object held in `_S` has `lanes` -/
theorem inventory_unmodelled :
    ObjectsG.assigned "UBI" = [] ∧ ObjectsG.ctorOnly "UBI" = ["G", "Ts", "_cipherclass", "pad"] ∧
    ObjectsG.assigned "Tweak" = ["<self>"] ∧ ObjectsG.assigned "State" = ["lanes"] := by decide

/-- what the configurations stand for: the attributes only constructors assign -/
theorem inventory_ctor_only :
    ObjectsG.ctorOnly "SHA1" = ["K", "blocksize", "ft", "size", "version", "wsize"] ∧
    ObjectsG.ctorOnly "MD5" = ["K", "blocksize", "ft", "size", "st", "wsize"] ∧
    ObjectsG.ctorOnly "Keccak" = ["b", "n", "outlen", "w"] ∧
    ObjectsG.ctorOnly "MD6" = ["K", "L", "blocksize", "chunksize", "keylen", "rounds", "size", "wsize"] ∧
    ObjectsG.ctorOnly "Blake" = ["blocksize", "outlen", "size", "wsize"] ∧
    ObjectsG.ctorOnly "Blake2" = ["blocksize", "size", "wsize"] ∧
    ObjectsG.ctorOnly "TLSH" = ["MIN_DATA_LENGTH", "bktlen", "chklen", "codesize", "wnd_size"] ∧
    ObjectsG.ctorOnly "Nilsimsa" = ["tran"] ∧
    ObjectsG.ctorOnly "AES" = ["K", "Nb", "Nk", "Nr", "blocksize"] ∧
    ObjectsG.ctorOnly "DES" = ["K"] ∧ ObjectsG.ctorOnly "TDEA" = ["E1", "E2", "E3"] ∧ ObjectsG.ctorOnly "Serpent" = ["K", "keys"] ∧
    ObjectsG.ctorOnly "CBC" = ["IV", "_cipher", "pad"] ∧ ObjectsG.ctorOnly "Salsa20" = ["K", "dround"] ∧
    ObjectsG.ctorOnly "Chacha" = ["K", "dround"] ∧
    ObjectsG.ctorOnly "Skein" = ["C", "Nb", "No", "PK", "Yf", "Yl", "Ym", "kdf", "key", "non", "prs"] ∧
    ObjectsG.ctorOnly "Threefish" = ["K", "Nr", "Nw", "T", "_Threefish__R", "_Threefish__k", "_Threefish__pi", "_Threefish__piinv",
      "_Threefish__t"] := by decide

/-- shared state outside the instances: the module-level singletons are exactly these; no function stores into a
    module-level object; no parameter has a mutable default; no class-level data attribute is ever assigned through `self` -/
theorem inventory_shared :
    ObjectsG.singletons = ["blake.blake224:Blake", "blake.blake256:Blake", "blake.blake2b:Blake2", "blake.blake2s:Blake2",
      "blake.blake384:Blake", "blake.blake512:Blake", "keccak.keccak_224:Keccak", "keccak.keccak_256:Keccak",
      "keccak.keccak_384:Keccak", "keccak.keccak_512:Keccak", "tlsh.tlsh:TLSH"] ∧
    ObjectsG.globalsMutated = [] ∧ ObjectsG.mutableDefaults = [] ∧
    (ObjectsG.classes.all fun r => r.2.2.2.all fun a => !r.2.1.contains a && !r.2.2.1.contains a) = true := by decide

/-! ## 4. Non-vacuity: concrete histories that DO leave non-default scratch state behind -/

example : (HashO.machine.run (HashO.init Md.md5Core) [.update (List.replicate 64 7) none false]).padmethod.bitcnt = 512 := by decide +kernel
example : (HashO.machine.run (HashO.init Md.md5Core) [.call [1] (some 9999)]).H = Md.md5Core.iv := by decide +kernel
example : (KeccakO.machine.run (KeccakO.init { b := 25, w := 1, n := 12, r := 8, outlen := some 8 }) [.duplex [1] (some 3) none])._S ≠ none := by
  decide +kernel
example : (Blake2O.machine.run (Blake2O.init Blake2.blake2b) [.call [1, 2, 3] { outlen := some 20 } 0]).outlen = 20 := by decide
example : (Blake2O.machine.run (Blake2O.init Blake2.blake2b) [.call [1, 2, 3] { outlen := some 99 } 0]).outlen = 99 := by decide
example : (AesO.machine.run (AesO.init (List.range 16)) [.keyschedule])._AES__w ≠ none := by decide +kernel
example : (NilsimsaO.machine.run (NilsimsaO.init (Nilsimsa.maketran 53)) [.update [1, 2, 3, 4, 5]]).count = 5 := by decide +kernel
example : (ModeO.machine.run (ModeO.init { nullCfg with scheme := .pkcs7 }) [.enc [1, 2, 3]]).pad.padflag = true := by decide +kernel
example : (KeccakO.machine.run (KeccakO.init { b := 25, w := 1, n := 12, r := 8, outlen := some 8 }) [.setrate 4]).cfg.r = 4 := by decide
/-- a Skein-256 history leaves a chaining value behind (one `_initstate()`), and a following `update` then succeeds -/
example : (Skein.mk 256 256 0 0 0 none none none none none).toOption.map (fun c =>
    ((SkeinO.machine.run (SkeinO.init c) [.initstate]).G.map List.length,
     (SkeinO.machine.out (SkeinO.machine.run (SkeinO.init c) [.initstate]) (.update [1, 2, 3])).toOption)) = some (some 32, some .none) := by
  decide +kernel
/-- the hypotheses of the stream theorems are inhabited: the block of a real 32-byte key -/
example : StreamAdm { chacha := false, K := none, dround := 10, p0 := Proofs.Lemmas.StreamPoly.ofBV (List.replicate 16 (5 : BitVec 32)) } :=
  ⟨_, by decide, rfl⟩
example : StreamValid (.enc ⟨0, 64⟩ [1, 2, 255]) := ⟨by decide, by decide⟩
example : ModeAdm { nullCfg with scheme := .pkcs7 } := by unfold ModeAdm; decide

end Proofs.C10
