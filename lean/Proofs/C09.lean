/-
  C09 — Padding: exact message‖pad in full blocks, true bit counts, unpad inverts pad.
  ONLY property theorems (and their non-vacuity examples) live here; helper lemmas are in Proofs/Lemmas.
-/
import Model.Padding
import Spec.Padding
namespace Proofs.C09
open Model Model.Padder

/-- a second message after the pad is refused, whatever the scheme, arguments and counters -/
theorem refuse_after_pad (p : Padder) (st : PadState) (m : List Nat) (L : Option Nat) (padding : Bool)
    (h : st.padflag = true) :
    (p.iterblocks st m L padding).yields = [] ∧ (p.iterblocks st m L padding).err.isSome ∧
      (p.iterblocks st m L padding).final = st := by
  simp [Padder.iterblocks, h]

end Proofs.C09
