/-
  C09 — Padding: exact message‖pad in full blocks, true bit counts, unpad inverts pad.
  ONLY property theorems (and their non-vacuity examples) live here; helper lemmas are in Proofs/Lemmas/Padding*.

  Reading guide.  `p : Padder` = scheme + block size; `Valid p` = the configurations the property quantifies over
  (block size a positive multiple of 8; pad length fits a byte for PKCS#7/X9.23; for MD/SHA strengthening w % 4 = 0 and
  2w+1 ≤ B — below that the real code raises, known finding C09-md-small-block; BLAKE's own block size).
  `Bytes m` = every element of the list is a byte value.  `effLen m L` = the bit length in force (`L` or 8·|m|).
  `p.iterblocks st m L padding` = Model of the generator: `.yields` = the blocks, each with the object state
  (bitcnt, padcnt, padflag) observable at that yield, `.final` = state left behind, `.err` = the exception, if any.
  A fresh object is `{}` (all counters 0); the theorems are stated for every non-final state where that is true
  of the code, so that they cover histories.
-/
import Proofs.Lemmas.PaddingUnpad
namespace Proofs.C09
open Model Model.Padder Spec.Padding Proofs.Lemmas.Padding

/-! ### one padded call -/

/-- the concatenation of the emitted blocks is the message's first L bits followed by exactly the pad the
    scheme's specification prescribes (as bytes); no exception -/
theorem blocks_concat (p : Padder) (hv : Valid p) (st : PadState) (hflag : st.padflag = false) (hfresh : st.bitcnt = 0)
    (m : List Nat) (hm : Bytes m) (L : Option Nat) (hL : effLen m L ≤ 8 * m.length)
    (hbg : L ≠ none → BitGranular p.scheme) :
    (p.iterblocks st m L true).err = none ∧
    ((p.iterblocks st m L true).yields.map (·.1)).flatten = padBytes (specOf p.scheme) p.blocksize m (effLen m L) := by
  obtain ⟨h1, h2, _⟩ := run_facts p hv st hflag m hm L hL hbg
  exact ⟨h1, by rw [h2, concat_eq_spec p hv st hfresh m hm L hL hbg]⟩

/-- what is emitted is a byte string again (every value < 256), so block consumers may rely on it -/
theorem blocks_bytes (p : Padder) (hv : Valid p) (st : PadState) (hflag : st.padflag = false)
    (m : List Nat) (hm : Bytes m) (L : Option Nat) (hL : effLen m L ≤ 8 * m.length)
    (hbg : L ≠ none → BitGranular p.scheme) :
    Bytes (((p.iterblocks st m L true).yields.map (·.1)).flatten) := by
  rw [(run_facts p hv st hflag m hm L hL hbg).2.1]
  exact Bytes_append (Bytes_take hm _) (bitsToBytes_Bytes _)

/-- every emitted block has B/8 bytes; only the unpadded scheme's last block may be shorter -/
theorem blocks_length (p : Padder) (hv : Valid p) (st : PadState) (hflag : st.padflag = false)
    (m : List Nat) (hm : Bytes m) (L : Option Nat) (hL : effLen m L ≤ 8 * m.length)
    (hbg : L ≠ none → BitGranular p.scheme) (i : Nat) (h : i < (p.iterblocks st m L true).yields.length) :
    ((p.iterblocks st m L true).yields[i]).1.length = p.blocklen ∨
      (p.scheme = .no ∧ i + 1 = (p.iterblocks st m L true).yields.length ∧
        ((p.iterblocks st m L true).yields[i]).1.length ≤ p.blocklen) :=
  (run_facts p hv st hflag m hm L hL hbg).2.2.2.1 i h

/-- the number of emitted blocks is the minimum the scheme allows: ⌈(L + shortest pad)/B⌉, and at least one -/
theorem blocks_minimal (p : Padder) (hv : Valid p) (st : PadState) (hflag : st.padflag = false)
    (m : List Nat) (hm : Bytes m) (L : Option Nat) (hL : effLen m L ≤ 8 * m.length)
    (hbg : L ≠ none → BitGranular p.scheme) :
    (p.iterblocks st m L true).yields.length =
      max 1 ((effLen m L + minPad p.scheme + p.blocksize - 1) / p.blocksize) := by
  obtain ⟨_, _, h3, _⟩ := run_facts p hv st hflag m hm L hL hbg
  obtain ⟨e, h1, h2, h4, _, _, _⟩ := piece_facts p hv m _ hL
  have hc := loopCount_spec p hv.pos (effLen m L)
  rw [h3]
  have hmp := minPad_le p hv
  have := count_formula p.blocksize (kOf p m L) (rOf p m L) (minPad p.scheme) (effLen m L) hv.pos
    (by simp only [rOf, kOf]; omega) h2 h4 hc.2.2.2 hmp
    (decide (p.scheme ≠ .no ∧ ¬ rOf p m L + minPad p.scheme ≤ p.blocksize))
    (by
      simp only [decide_eq_true_eq]
      constructor
      · exact fun h => h.2
      · intro h
        refine ⟨?_, h⟩
        intro hno
        rw [hno] at h; simp only [minPad, Nat.add_zero] at h
        exact h h2)
  rw [← this, tailBlocks]
  by_cases hc : p.scheme ≠ .no ∧ ¬ rOf p m L + minPad p.scheme ≤ p.blocksize <;> simp [hc]

/-- the consumed-bit counter reported with block i = the number of message bits up to and including that block
    (plus what earlier pieces fed), and 0 for a block that carries padding only -/
theorem bitcnt_at_yield (p : Padder) (hv : Valid p) (st : PadState) (hflag : st.padflag = false)
    (m : List Nat) (hm : Bytes m) (L : Option Nat) (hL : effLen m L ≤ 8 * m.length)
    (hbg : L ≠ none → BitGranular p.scheme) (i : Nat) (h : i < (p.iterblocks st m L true).yields.length) :
    ((p.iterblocks st m L true).yields[i]).2.bitcnt =
      if i * p.blocksize < effLen m L then st.bitcnt + min (effLen m L) ((i + 1) * p.blocksize) else 0 :=
  (run_facts p hv st hflag m hm L hL hbg).2.2.2.2.1 i h

/-- the pad-bit counter equals the number of pad bits added (schemes that define it: none, zero, bit, PKCS#7,
    X9.23): message bits + padcnt = bits emitted; the other schemes leave it untouched -/
theorem padcnt_law (p : Padder) (hv : Valid p) (st : PadState) (hflag : st.padflag = false) (hpc : st.padcnt = 0)
    (m : List Nat) (hm : Bytes m) (L : Option Nat) (hL : effLen m L ≤ 8 * m.length)
    (hbg : L ≠ none → BitGranular p.scheme) :
    (match p.scheme with
     | .md _ | .sha _ | .blake _ => (p.iterblocks st m L true).final.padcnt = 0
     | _ => effLen m L + (p.iterblocks st m L true).final.padcnt
              = 8 * ((p.iterblocks st m L true).yields.map (·.1)).flatten.length) := by
  obtain ⟨_, h2, _, _, _, _, _, h8, _⟩ := run_facts p hv st hflag m hm L hL hbg
  obtain ⟨e, h1, _⟩ := piece_facts p hv m _ hL
  have hb := tailBytes_bits p hv st m L hL hbg
  have hlen : 8 * ((p.iterblocks st m L true).yields.map (·.1)).flatten.length
      = kOf p m L * p.blocksize + 8 * (tailBytes p st m L).length := by
    rw [h2, List.length_append, List.length_take]
    have : kOf p m L * p.blocklen ≤ m.length := by simp only [kOf]; omega
    rw [Nat.min_eq_left this]; simp only [kOf] at *; omega
  have hr : effLen m L = kOf p m L * p.blocksize + rOf p m L := by simp only [rOf, kOf]; omega
  cases hs : p.scheme <;> simp only [] <;> rw [h8] <;> simp only [tailPadcnt, hs, hpc] <;>
    first
    | rfl
    | (rw [hlen, hb, hr]; simp only [modelTail, hs, List.length_nil]; omega)
    | (rw [hlen, hb, hr, ← hs]; omega)

/-- after the call the pad flag is set, and it was set at the tail blocks only -/
theorem padflag_law (p : Padder) (hv : Valid p) (st : PadState) (hflag : st.padflag = false)
    (m : List Nat) (hm : Bytes m) (L : Option Nat) (hL : effLen m L ≤ 8 * m.length)
    (hbg : L ≠ none → BitGranular p.scheme) :
    (p.iterblocks st m L true).final.padflag = true ∧
    ∀ i (h : i < (p.iterblocks st m L true).yields.length),
      ((p.iterblocks st m L true).yields[i]).2.padflag = decide (kOf p m L ≤ i) := by
  obtain ⟨_, _, _, _, _, h6, h7, _⟩ := run_facts p hv st hflag m hm L hL hbg
  exact ⟨h7, fun i h => (h6 i h).1⟩

/-! ### unpadding -/

/-- removing the padding from the concatenation of the emitted blocks (on the object that produced them: zero
    padding needs its `padcnt`) returns exactly the first L bits of the message, last partial byte zero-filled -/
theorem remove_pad (p : Padder) (hv : Valid p) (st : PadState) (hflag : st.padflag = false)
    (m : List Nat) (hm : Bytes m) (L : Option Nat) (hL : effLen m L ≤ 8 * m.length)
    (hbg : L ≠ none → BitGranular p.scheme) :
    p.remove (p.iterblocks st m L true).final (((p.iterblocks st m L true).yields.map (·.1)).flatten)
      = .ok (msgBytes m (effLen m L)) :=
  remove_run p hv st hflag m hm L hL hbg

/-- PKCS#7: `remove` succeeds exactly on the well-padded strings (last byte q, 1 ≤ q ≤ block length, the last q
    bytes all equal q) and then strips those q bytes; every other string (empty included) raises -/
theorem pkcs7_remove_iff (p : Padder) (hs : p.scheme = .pkcs7) (st : PadState) (c : List Nat) :
    ((∃ r, p.remove st c = .ok r) ↔ pkcs7WellPadded p.blocklen c) ∧
    (∀ r, p.remove st c = .ok r → ∃ q, c.getLast? = some q ∧ r = c.take (c.length - q)) := by
  have h := remove_pkcs7 p hs st c
  constructor
  · rw [← pkcs7Unpad_isSome_iff, ← h]
    cases p.remove st c <;> simp [okOf]
  · intro r hr
    rw [hr] at h
    simp only [okOf, pkcs7Unpad] at h
    cases hq : c.getLast? with
    | none => rw [hq] at h; simp at h
    | some q =>
      rw [hq] at h; simp only at h
      split at h
      · exact ⟨q, rfl, by simpa using h⟩
      · simp at h

/-- ANSI X9.23: `remove` succeeds exactly on the well-padded strings (last byte q, 1 ≤ q ≤ block length, the q−1
    bytes before it zero) and then strips those q bytes; every other string raises -/
theorem x923_remove_iff (p : Padder) (hs : p.scheme = .x923) (st : PadState) (c : List Nat) :
    ((∃ r, p.remove st c = .ok r) ↔ x923WellPadded p.blocklen c) ∧
    (∀ r, p.remove st c = .ok r → ∃ q, c.getLast? = some q ∧ r = c.take (c.length - q)) := by
  have h := remove_x923 p hs st c
  constructor
  · rw [← x923Unpad_isSome_iff, ← h]
    cases p.remove st c <;> simp [okOf]
  · intro r hr
    rw [hr] at h
    simp only [okOf, x923Unpad] at h
    cases hq : c.getLast? with
    | none => rw [hq] at h; simp at h
    | some q =>
      rw [hq] at h; simp only at h
      split at h
      · exact ⟨q, rfl, by simpa using h⟩
      · simp at h

/-! ### requests that cannot be met are refused (no block, an exception, the object unchanged) -/

/-- a block size that is not a whole number of bytes is refused by the constructor -/
theorem refuse_blocksize (s : Model.Scheme) (l : Nat) (h : l % 8 ≠ 0) : ∃ e, Padder.mk? s l = .error e := by
  simp [Padder.mk?, h]

/-- … and every other positive block size is accepted -/
theorem accept_blocksize (s : Model.Scheme) (l : Nat) (h : l % 8 = 0) (hpos : 0 < l) :
    Padder.mk? s l = .ok ⟨s, l⟩ := by
  have : ¬ l = 0 := by omega
  simp [Padder.mk?, h, this]

/-- a second message after the pad is refused, whatever the scheme, arguments and counters -/
theorem refuse_after_pad (p : Padder) (st : PadState) (m : List Nat) (L : Option Nat) (padding : Bool)
    (h : st.padflag = true) :
    (p.iterblocks st m L padding).yields = [] ∧ (p.iterblocks st m L padding).err.isSome ∧
      (p.iterblocks st m L padding).final = st := by
  simp [Padder.iterblocks, h]

/-- a bit length beyond the data is refused -/
theorem refuse_bitlen_beyond (p : Padder) (st : PadState) (m : List Nat) (L : Nat) (padding : Bool)
    (h : L > 8 * m.length) :
    (p.iterblocks st m (some L) padding).yields = [] ∧ (p.iterblocks st m (some L) padding).err.isSome ∧
      (p.iterblocks st m (some L) padding).final = st := by
  by_cases hf : st.padflag = true <;> simp [Padder.iterblocks, hf, h]

/-- unpadded input that is not a whole number of blocks is refused -/
theorem refuse_unpadded_nonmultiple (p : Padder) (st : PadState) (m : List Nat) (L : Option Nat)
    (h : effLen m L % p.blocksize ≠ 0) :
    (p.iterblocks st m L false).yields = [] ∧ (p.iterblocks st m L false).err.isSome ∧
      (p.iterblocks st m L false).final = st := by
  have h' : L.getD (8 * m.length) % p.blocksize > 0 := by unfold effLen at h; omega
  by_cases hf : st.padflag = true
  · simp [Padder.iterblocks, hf]
  · by_cases hl : L.getD (8 * m.length) > 8 * m.length <;> simp [Padder.iterblocks, hf, hl, h']

/-! ### unpadded (`padding=False`) pieces: whole blocks out, counters accumulate -/

/-- an unpadded call on a whole number of blocks emits exactly those blocks, reports after block i the bits fed so
    far, leaves padcnt and padflag alone and adds the bit length to the counter (an empty piece emits nothing) -/
theorem unpadded_call (p : Padder) (hv : Valid p) (st : PadState) (hflag : st.padflag = false)
    (m : List Nat) (L : Option Nat) (hL : effLen m L ≤ 8 * m.length) (hmul : effLen m L % p.blocksize = 0) :
    (p.iterblocks st m L false).err = none ∧
    ((p.iterblocks st m L false).yields.map (·.1)).flatten = m.take (effLen m L / 8) ∧
    (p.iterblocks st m L false).yields.length = effLen m L / p.blocksize ∧
    (∀ i (h : i < (p.iterblocks st m L false).yields.length),
      ((p.iterblocks st m L false).yields[i]).1.length = p.blocklen ∧
      ((p.iterblocks st m L false).yields[i]).2 = { st with bitcnt := st.bitcnt + (i + 1) * p.blocksize }) ∧
    (p.iterblocks st m L false).final = { st with bitcnt := st.bitcnt + effLen m L } := by
  rw [unpadded_run p hv.pos st hflag m L hL hmul]
  have hB := hv.size_eq
  obtain ⟨n, hn⟩ : ∃ n, effLen m L = n * p.blocksize :=
    ⟨effLen m L / p.blocksize, by rw [Nat.div_mul_cancel (Nat.dvd_of_mod_eq_zero hmul)]⟩
  have hd : effLen m L / p.blocksize = n := by rw [hn, Nat.mul_div_cancel _ hv.pos]
  have h8 : effLen m L / 8 = n * p.blocklen := by rw [hn, hB, Nat.mul_left_comm]; omega
  refine ⟨rfl, ?_, by simp [loopYields_length], ?_, rfl⟩
  · simp only [loopYields_blocks, flatten_blocks, hd, h8]
  · intro i h
    simp only [loopYields_length, hd] at h
    simp only [loopYields_getElem, blockAt_length, and_true]
    have : (i + 1) * p.blocklen ≤ n * p.blocklen := Nat.mul_le_mul_right _ (by omega)
    rw [Nat.succ_mul] at this
    have : n * p.blocksize = 8 * (n * p.blocklen) := by rw [hB, Nat.mul_left_comm]
    omega

/-! ### histories -/

/-- **continuation** (what incremental hashing relies on): block-aligned data fed with `padding=False`, then a
    final call whose piece carries at least one message bit, yields exactly the blocks, the states observable at
    every block, the final state and the outcome of ONE call on the concatenation — for every scheme, every bit
    length of the last piece, every starting counter (so it iterates over any number of pieces) -/
theorem continuation (p : Padder) (hv : Valid p) (st : PadState) (hflag : st.padflag = false)
    (m1 m2 : List Nat) (hm1 : (8 * m1.length) % p.blocksize = 0)
    (L2 : Option Nat) (hL2 : effLen m2 L2 ≤ 8 * m2.length) (hpos2 : 0 < effLen m2 L2) :
    let r1 := p.iterblocks st m1 none false
    let r2 := p.iterblocks r1.final m2 L2 true
    let one := p.iterblocks st (m1 ++ m2) (L2.map (8 * m1.length + ·)) true
    r1.err = none ∧ one.yields = r1.yields ++ r2.yields ∧ one.final = r2.final ∧ one.err = r2.err := by
  intro r1 r2 one
  have hB := hv.size_eq
  have hr1 : r1 = ⟨p.loopYields st m1 (8 * m1.length / p.blocksize), { st with bitcnt := st.bitcnt + 8 * m1.length }, none⟩ :=
    unpadded_run p hv.pos st hflag m1 none (Nat.le_refl _) hm1
  obtain ⟨n1, hn1⟩ : ∃ n, 8 * m1.length = n * p.blocksize :=
    ⟨8 * m1.length / p.blocksize, by rw [Nat.div_mul_cancel (Nat.dvd_of_mod_eq_zero hm1)]⟩
  have hd : 8 * m1.length / p.blocksize = n1 := by rw [hn1, Nat.mul_div_cancel _ hv.pos]
  have hlen : m1.length = n1 * p.blocklen := by
    have : n1 * p.blocksize = 8 * (n1 * p.blocklen) := by rw [hB, Nat.mul_left_comm]
    omega
  have hc := continuation_eq p hB hv.blocklen_pos st hflag m1 m2 n1 hlen L2 hL2 hpos2
  have hone : one = _ := hc
  refine ⟨by rw [hr1], ?_, ?_, ?_⟩ <;> rw [hone] <;> simp only [r2, hr1, hd]

/-- **continuation with an empty last piece** (schemes that always pad: bit, PKCS#7, X9.23, MD, SHA, BLAKE):
    block-aligned non-empty data fed with `padding=False`, then a final call on the empty string, emits the same
    blocks with the same bit counters (the padding-only block reports 0) and leaves the same final state as ONE
    call on the data; neither raises.  (The pad flag observed at the last data block differs: it is emitted before
    the final call.  Zero padding and the unpadded scheme are excluded: their last full block is already out, so
    the empty final call pads/emits an empty piece of its own.) -/
theorem continuation_empty (p : Padder) (hv : Valid p) (hap : AlwaysPads p.scheme) (st : PadState)
    (hflag : st.padflag = false) (m1 : List Nat) (hm : Bytes m1) (hne : m1 ≠ [])
    (hm1 : (8 * m1.length) % p.blocksize = 0) :
    let r1 := p.iterblocks st m1 none false
    let r2 := p.iterblocks r1.final [] none true
    let one := p.iterblocks st m1 none true
    r1.err = none ∧ r2.err = none ∧ one.err = none ∧
    one.yields.map (·.1) = r1.yields.map (·.1) ++ r2.yields.map (·.1) ∧
    one.yields.map (·.2.bitcnt) = r1.yields.map (·.2.bitcnt) ++ r2.yields.map (·.2.bitcnt) ∧
    one.final = r2.final := by
  intro r1 r2 one
  obtain ⟨n1, hn1⟩ : ∃ n, 8 * m1.length = n * p.blocksize :=
    ⟨8 * m1.length / p.blocksize, by rw [Nat.div_mul_cancel (Nat.dvd_of_mod_eq_zero hm1)]⟩
  have hpos1 : 0 < m1.length := List.length_pos_iff.mpr hne
  have hn0 : n1 ≠ 0 := by intro h; rw [h] at hn1; omega
  obtain ⟨n, rfl⟩ : ∃ n, n1 = n + 1 := ⟨n1 - 1, by omega⟩
  have hr1 : r1 = ⟨p.loopYields st m1 (8 * m1.length / p.blocksize), { st with bitcnt := st.bitcnt + 8 * m1.length }, none⟩ :=
    unpadded_run p hv.pos st hflag m1 none (Nat.le_refl _) hm1
  have hd : 8 * m1.length / p.blocksize = n + 1 := by rw [hn1, Nat.mul_div_cancel _ hv.pos]
  obtain ⟨hone, htwo⟩ := continuation_empty_eq p hv hap st hflag m1 hm n hn1
  have hf : r1.final = { st with bitcnt := st.bitcnt + 8 * m1.length } := by rw [hr1]
  have h2 : r2 = p.iterblocks { st with bitcnt := st.bitcnt + 8 * m1.length } [] none true := by
    simp only [r2, hf]
  have h1 : one = p.iterblocks st m1 none true := rfl
  rw [h1, h2, hone, htwo, hr1, hd, loopYields_succ]
  simp [hn1]

/-- a history on a fresh object — block-aligned data with `padding=False`, then a final piece with at least one
    message bit — emits, all calls together, exactly the standard's padded string of the whole message -/
theorem pieces_concat (p : Padder) (hv : Valid p) (m1 m2 : List Nat) (hb1 : Bytes m1) (hb2 : Bytes m2)
    (hm1 : (8 * m1.length) % p.blocksize = 0)
    (L2 : Option Nat) (hL2 : effLen m2 L2 ≤ 8 * m2.length) (hpos2 : 0 < effLen m2 L2)
    (hbg : L2 ≠ none → BitGranular p.scheme) :
    let r1 := p.iterblocks {} m1 none false
    let r2 := p.iterblocks r1.final m2 L2 true
    r1.err = none ∧ r2.err = none ∧
    ((r1.yields ++ r2.yields).map (·.1)).flatten
      = padBytes (specOf p.scheme) p.blocksize (m1 ++ m2) (8 * m1.length + effLen m2 L2) := by
  intro r1 r2
  obtain ⟨h1, h2, _, h4⟩ := continuation p hv {} rfl m1 m2 hm1 L2 hL2 hpos2
  have he : effLen (m1 ++ m2) (L2.map (8 * m1.length + ·)) = 8 * m1.length + effLen m2 L2 := by
    cases L2 <;> simp [effLen, Nat.mul_add]
  have hL : effLen (m1 ++ m2) (L2.map (8 * m1.length + ·)) ≤ 8 * (m1 ++ m2).length := by
    rw [he, List.length_append]; omega
  obtain ⟨g1, g2⟩ := blocks_concat p hv {} rfl rfl (m1 ++ m2) (Bytes_append hb1 hb2) (L2.map (8 * m1.length + ·)) hL
    (by intro h; apply hbg; intro h0; rw [h0] at h; simp at h)
  refine ⟨h1, ?_, ?_⟩
  · show r2.err = none
    rw [← h4]; exact g1
  · show ((r1.yields ++ r2.yields).map (·.1)).flatten = _
    rw [← h2, g2, he]

/-- once a padded call has completed, every further call on the object is refused and changes nothing -/
theorem call_after_final_refused (p : Padder) (hv : Valid p) (st : PadState) (hflag : st.padflag = false)
    (m : List Nat) (hm : Bytes m) (L : Option Nat) (hL : effLen m L ≤ 8 * m.length)
    (hbg : L ≠ none → BitGranular p.scheme) (m' : List Nat) (L' : Option Nat) (padding' : Bool) :
    let fin := (p.iterblocks st m L true).final
    (p.iterblocks fin m' L' padding').yields = [] ∧ (p.iterblocks fin m' L' padding').err.isSome ∧
      (p.iterblocks fin m' L' padding').final = fin :=
  refuse_after_pad p _ m' L' padding' (padflag_law p hv st hflag m hm L hL hbg).1

/-- two unpadded pieces in a row behave like one unpadded call on their concatenation -/
theorem unpadded_append (p : Padder) (hv : Valid p) (st : PadState) (hflag : st.padflag = false)
    (m1 m2 : List Nat) (hm1 : (8 * m1.length) % p.blocksize = 0) (hm2 : (8 * m2.length) % p.blocksize = 0) :
    let r1 := p.iterblocks st m1 none false
    let r2 := p.iterblocks r1.final m2 none false
    let one := p.iterblocks st (m1 ++ m2) none false
    one.yields = r1.yields ++ r2.yields ∧ one.final = r2.final ∧ one.err = none ∧ r1.err = none ∧ r2.err = none := by
  intro r1 r2 one
  have hB := hv.size_eq
  have hr1 : r1 = _ := unpadded_run p hv.pos st hflag m1 none (Nat.le_refl _) hm1
  have hr2 : r2 = _ := unpadded_run p hv.pos r1.final (by rw [hr1]; exact hflag) m2 none (Nat.le_refl _) hm2
  have h12 : (8 * (m1 ++ m2).length) % p.blocksize = 0 := by
    rw [List.length_append, Nat.mul_add, Nat.add_mod, hm1, hm2]; simp
  have hone : one = _ := unpadded_run p hv.pos st hflag (m1 ++ m2) none (Nat.le_refl _) h12
  obtain ⟨n1, hn1⟩ : ∃ n, 8 * m1.length = n * p.blocksize :=
    ⟨8 * m1.length / p.blocksize, by rw [Nat.div_mul_cancel (Nat.dvd_of_mod_eq_zero hm1)]⟩
  obtain ⟨n2, hn2⟩ : ∃ n, 8 * m2.length = n * p.blocksize :=
    ⟨8 * m2.length / p.blocksize, by rw [Nat.div_mul_cancel (Nat.dvd_of_mod_eq_zero hm2)]⟩
  have hlen : m1.length = n1 * p.blocklen := by
    have : n1 * p.blocksize = 8 * (n1 * p.blocklen) := by rw [hB, Nat.mul_left_comm]
    omega
  have e12 : 8 * (m1 ++ m2).length = (n1 + n2) * p.blocksize := by rw [List.length_append, Nat.add_mul]; omega
  have hfin1 : r1.final = { st with bitcnt := st.bitcnt + n1 * p.blocksize } := by rw [hr1]; simp [effLen, hn1]
  rw [hfin1] at hr2
  rw [hone, hr2, hr1]
  simp only [effLen, Option.getD_none, e12, hn1, hn2, Nat.mul_div_cancel _ hv.pos,
    loopYields_append p st m1 m2 n1 n2 hlen, and_true, true_and]
  simp [Nat.add_mul, Nat.add_assoc]

/-! ### reuse of one object: `reset()` / `.new` -/

/-- whatever state the object is in (mid-message, padded, any counters), `reset()` / `.new` puts it into the state of a
    freshly constructed object — pad flag clear, bit counter 0, pad-bit counter 0 — hence every later `iterblocks`
    call (blocks, the states observable at every yield, final state, exception) and every later `remove` is the one
    a fresh object gives -/
theorem reset_is_fresh (p : Padder) (st : PadState) :
    p.reset st = {} ∧
    ((p.reset st).padflag = false ∧ (p.reset st).bitcnt = 0 ∧ (p.reset st).padcnt = 0) ∧
    (∀ m L padding, p.iterblocks (p.reset st) m L padding = p.iterblocks {} m L padding) ∧
    (∀ c, p.remove (p.reset st) c = p.remove {} c) :=
  ⟨rfl, ⟨rfl, rfl, rfl⟩, fun _ _ _ => rfl, fun _ => rfl⟩

/-- any history (iterblocks calls, resets, removes) that follows a reset — after an arbitrary earlier history `pre` from
    an arbitrary state — gives step for step the results of the same history on a fresh object -/
theorem history_after_reset (p : Padder) (st : PadState) (em : List Nat) (pre post : List PadStep) :
    p.runSteps st em (pre ++ .reset :: post) = p.runSteps st em pre ++ .state {} :: p.runSteps {} [] post := by
  induction pre generalizing st em with
  | nil => rfl
  | cons a pre ih =>
    cases a with
    | call m l f => simp only [List.cons_append, Padder.runSteps, ih]
    | reset => simp only [List.cons_append, Padder.runSteps, ih]
    | remove c => simp only [List.cons_append, Padder.runSteps, ih]

/-- in particular: a first message, a reset, then a second message fed in block-aligned pieces gives exactly the
    blocks, counters and final state of the second message on a fresh object: its unpadded pieces report
    `padcnt = 0`, whatever pad the first message got -/
theorem reset_then_unpadded (p : Padder) (hv : Valid p) (st : PadState)
    (m : List Nat) (L : Option Nat) (hL : effLen m L ≤ 8 * m.length) (hmul : effLen m L % p.blocksize = 0) :
    (p.iterblocks (p.reset st) m L false).err = none ∧
    (p.iterblocks (p.reset st) m L false).final = { padflag := false, bitcnt := effLen m L, padcnt := 0 } ∧
    ∀ y ∈ (p.iterblocks (p.reset st) m L false).yields, y.2.padcnt = 0 ∧ y.2.padflag = false := by
  obtain ⟨h1, _, _, h4, h5⟩ := unpadded_call p hv (p.reset st) rfl m L hL hmul
  refine ⟨h1, by rw [h5]; simp [Padder.reset], ?_⟩
  intro y hy
  obtain ⟨i, hi, rfl⟩ := List.getElem_of_mem hy
  rw [(h4 i hi).2]
  exact ⟨rfl, rfl⟩

/-! ### non-vacuity: the hypotheses are inhabited by the library's real configurations -/

example : Valid ⟨.md 32, 512⟩ := ⟨by decide, by decide, by decide⟩
example : Valid ⟨.sha 64, 1024⟩ := ⟨by decide, by decide, by decide⟩
example : Valid (Padder.blakeP 256) := ⟨by decide, by decide, rfl⟩
example : Valid (Padder.blakeP 384) := ⟨by decide, by decide, rfl⟩
example : Valid ⟨.pkcs7, 128⟩ := ⟨by decide, by decide, by decide⟩
example : Valid ⟨.x923, 64⟩ := ⟨by decide, by decide, by decide⟩
example : Valid ⟨.bit, 8⟩ := ⟨by decide, by decide, trivial⟩
example : Valid ⟨.null, 3072⟩ := ⟨by decide, by decide, trivial⟩
example : Valid ⟨.no, 16⟩ := ⟨by decide, by decide, trivial⟩
example : Bytes [0x61, 0x62, 0x63] := by intro x hx; simp at hx; omega
example : AlwaysPads (Padder.blakeP 512).scheme := trivial
example : BitGranular (Model.Scheme.sha 32) := trivial
/-- FIPS 180-4 §5.1.1's example: "abc" under SHA-1/SHA-256 padding is 61626380 0…0 00000018 (one 64-byte block) -/
example : ((⟨.sha 32, 512⟩ : Padder).iterblocks {} [0x61, 0x62, 0x63] none true).yields.map (·.1)
    = [[0x61, 0x62, 0x63, 0x80] ++ List.replicate 59 0 ++ [0x18]] := by decide +kernel
example : pkcs7WellPadded 8 [1, 2, 3, 3, 3] := ⟨3, rfl, by decide, by decide, by decide, rfl⟩
example : ¬ pkcs7WellPadded 8 [1, 2, 3, 2, 3] := by
  rintro ⟨q, h1, _, _, _, h5⟩
  simp at h1; subst h1; simp at h5

/-- zero padding on 64-bit blocks: 20 message bytes leave (padflag, bitcnt, padcnt) = (true, 160, 32) — not the fresh
    state — and after the reset 16 unpadded bytes leave (false, 128, 0), the whole string survives `remove` -/
example : ((⟨.null, 64⟩ : Padder).iterblocks {} (List.replicate 20 0x41) none true).final
    = { padflag := true, bitcnt := 160, padcnt := 32 } := by decide +kernel
example :
    ((⟨.null, 64⟩ : Padder).iterblocks
      ((⟨.null, 64⟩ : Padder).reset ((⟨.null, 64⟩ : Padder).iterblocks {} (List.replicate 20 0x41) none true).final)
      (List.replicate 16 0x42) none false).final = { padflag := false, bitcnt := 128, padcnt := 0 } := by decide +kernel
example :
    ((⟨.null, 64⟩ : Padder).remove { padflag := false, bitcnt := 128, padcnt := 0 } (List.replicate 16 0x42)).toOption
      = some (List.replicate 16 0x42) := by decide +kernel
example : ((⟨.null, 64⟩ : Padder).runSteps {} []
    [.call (List.replicate 20 0x41) none true, .reset, .call (List.replicate 16 0x42) none false]).length = 3 := rfl

end Proofs.C09
