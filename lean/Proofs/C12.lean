/-
  C12 — Skein hash, MAC and tree hash equal the Skein 1.3 specification.

  Model.Skein mirrors crysp/skein.py (after the `fix:` commits) on Model.Bits / Model.Threefish; Spec.Skein is the
  specification on byte lists and natural-number tweaks over Spec.Threefish.
  `IsBytes s` (every element < 256) is what a Python `bytes` object is; `bitsOf M bitlen` is the bit length a call denotes
  (`bitlen`, or 8·|M| when it is None); lengths below 2^96 bytes are the specification's own limit for UBI inputs.
-/
import Proofs.Lemmas.SkTree
namespace Proofs.C12
open Model Proofs.Lemmas Proofs.Lemmas.TfBytes Proofs.Lemmas.SkUbi Proofs.Lemmas.SkHash
open Spec.Threefish (toBytes)

/-- the type codes of the `Type` setter are Table 6 of Skein 1.3 -/
theorem type_codes :
    Skein.typeCode "key" = .ok Spec.Skein.Tkey ∧ Skein.typeCode "cfg" = .ok Spec.Skein.Tcfg ∧
    Skein.typeCode "prs" = .ok Spec.Skein.Tprs ∧ Skein.typeCode "PK" = .ok Spec.Skein.TPK ∧
    Skein.typeCode "kdf" = .ok Spec.Skein.Tkdf ∧ Skein.typeCode "non" = .ok Spec.Skein.Tnon ∧
    Skein.typeCode "msg" = .ok Spec.Skein.Tmsg ∧ Skein.typeCode "out" = .ok Spec.Skein.Tout := by
  exact ⟨rfl, rfl, rfl, rfl, rfl, rfl, rfl, rfl⟩

/-- the (a,b) bit ranges of the Tweak properties: Position, TreeLevel, BitPad, Type, First, Final -/
def tweakFields : List (Nat × Nat) := [(0, 96), (112, 119), (119, 120), (120, 126), (126, 127), (127, 128)]

/-- Tweak setters touch exactly their field: for every 128-bit tweak value and every value that fits the field, the slice
    assignment `self[a:b] = v` succeeds, keeps the size, the getter `self[a:b].int()` then returns v, and every bit
    outside [a,b) is unchanged (so every other field reads as before). -/
theorem tweak_fields (T v a b : Nat) (hf : (a, b) ∈ tweakFields) (hT : T < 2 ^ 128) (hv : v < 2 ^ (b - a)) :
    ∃ T', Skein.setField ⟨T, 128⟩ a b v = .ok ⟨T', 128⟩ ∧ T' < 2 ^ 128 ∧ Skein.getField ⟨T', 128⟩ a b = .ok v ∧
      ∀ j, (j < a ∨ b ≤ j) → T'.testBit j = T.testBit j := by
  have hab : a < b ∧ b ≤ 128 := by
    simp only [tweakFields, List.mem_cons, Prod.mk.injEq, List.not_mem_nil, or_false] at hf
    rcases hf with ⟨h1, h2⟩ | ⟨h1, h2⟩ | ⟨h1, h2⟩ | ⟨h1, h2⟩ | ⟨h1, h2⟩ | ⟨h1, h2⟩ <;> subst h1 <;> subst h2 <;> decide
  obtain ⟨hab, hb⟩ := hab
  have hlo : T % 2 ^ a < 2 ^ a := Nat.mod_lt _ (Nat.two_pow_pos _)
  have hmid : 2 ^ a * v + T % 2 ^ a < 2 ^ b := by
    have : 2 ^ b = 2 ^ a * 2 ^ (b - a) := by rw [← Nat.pow_add]; congr 1; omega
    rw [this]
    calc 2 ^ a * v + T % 2 ^ a < 2 ^ a * v + 2 ^ a := by omega
      _ = 2 ^ a * (v + 1) := by rw [Nat.mul_add, Nat.mul_one]
      _ ≤ 2 ^ a * 2 ^ (b - a) := Nat.mul_le_mul_left _ hv
  have hbit : ∀ j, (2 ^ b * (T / 2 ^ b) + (2 ^ a * v + T % 2 ^ a)).testBit j =
      if j < b then (if j < a then T.testBit j else v.testBit (j - a)) else T.testBit j := by
    intro j
    rw [Nat.testBit_two_pow_mul_add _ hmid, Nat.testBit_two_pow_mul_add _ hlo, Nat.testBit_div_two_pow, Nat.testBit_mod_two_pow]
    by_cases h1 : j < b
    · by_cases h2 : j < a <;> simp [h1, h2]
    · simp only [h1, ite_false]; congr 1; omega
  refine ⟨_, SkTweak.setField_eq T 128 a b v hab hb hT hv, ?_, ?_, ?_⟩
  · apply Nat.lt_pow_two_of_testBit
    intro j hj
    rw [hbit j]
    have := SkTweak.testBit_ge_false hT hj
    by_cases h1 : j < b
    · omega
    · simp [h1, this]
  · rw [SkTweak.getField_eq _ 128 a b (by omega) hb]
    congr 1
    rw [Nat.mul_add_mod, Nat.mod_eq_of_lt hmid, Nat.mul_add_div (Nat.two_pow_pos _), Nat.div_eq_of_lt hlo, Nat.add_zero,
        Nat.mod_eq_of_lt hv]
  · intro j hj
    rw [hbit j]
    rcases hj with hj | hj
    · have : j < b := by omega
      simp [hj, this]
    · have : ¬ (j < b) := by omega
      simp [this]

/-- the bit padding of `UBI.iterblocks` (bitstream load through reverse_byte, truncation, appended one bit, write back)
    is the specification's rule, for every message and every bit length L ≤ 8|M| (all L mod 8) -/
theorem bitpad_refines (M : List Nat) (hM : IsBytes M) (bitlen : Option Nat) (hL : bitsOf M bitlen ≤ 8 * M.length) :
    Skein.bitPadded M bitlen = .ok (Spec.Skein.bitPad M (bitsOf M bitlen)) :=
  bitPadded_spec M hM bitlen hL

/-- `UBI.iterblocks`: the yielded (tweak, block) pairs are exactly the specification's blocks M_i with the tweaks
    Ts + min(NM,(i+1)Nb) + a_i 2^126 + b_i (B 2^119 + 2^127): position accounting for every start tweak whose position
    cannot overflow (start positions near 2^64 / 2^96 included), First only on the first, Final/BitPad only on the last -/
theorem iterblocks_refines (lb : Nat) (hlb : lb = 32 ∨ lb = 64 ∨ lb = 128) (Ts : Nat) (M : List Nat) (bitlen : Option Nat)
    (hM : IsBytes M) (hL : bitsOf M bitlen ≤ 8 * M.length) (hpre : Spec.Skein.ubiPre M Ts = true) :
    Skein.iterblocks lb ⟨Ts, 128⟩ M bitlen =
      .ok (specBlocks lb Ts (Spec.Skein.bitPad M (bitsOf M bitlen)).1 (Spec.Skein.bitPad M (bitsOf M bitlen)).2) := by
  obtain ⟨hTs, h119, h126, h127, hpos⟩ := (ubiPre_iff M Ts).1 hpre
  obtain ⟨_, w2, w3⟩ := bitPad_wf M hM _ hL
  exact iterblocks_eq lb hlb Ts hTs h119 h126 h127 M bitlen _ _ (bitPadded_spec M hM bitlen hL) w3 (by omega)

/-- UBI(Threefish,G,Ts)(M,bitlen) = UBI(G,M,Ts) of Skein 1.3 for every chaining value G of 32/64/128 bytes, every message,
    every bit length and every start tweak satisfying the specification's preconditions (flags clear, position + |M| < 2^96) -/
theorem ubi_refines (G M : List Nat) (bitlen : Option Nat) (Ts : Nat) (hG : IsBytes G) (hM : IsBytes M)
    (hGl : G.length = 32 ∨ G.length = 64 ∨ G.length = 128) (hL : bitsOf M bitlen ≤ 8 * M.length)
    (hpre : Spec.Skein.ubiPre M Ts = true) :
    Skein.ubi G ⟨Ts, 128⟩ M bitlen = .ok (Spec.Skein.ubi G M (bitsOf M bitlen) Ts) :=
  (ubi_eq G M bitlen Ts hG hM hGl hL hpre).1

/-- a start tweak with a flag set, or whose position could overflow, is rejected -/
theorem ubi_rejects (G M : List Nat) (bitlen : Option Nat) (Ts : Nat) (hTs : Ts < 2 ^ 128)
    (hpre : Spec.Skein.ubiPre M Ts = false) : ∃ e, Skein.ubi G ⟨Ts, 128⟩ M bitlen = .error e :=
  SkUbi.ubi_rejects G M bitlen Ts hTs hpre

/-- the configuration string built by the constructor is the 32-byte C of section 3.5.2 -/
theorem cfg_refines (Nb No Yl Yf Ym : Nat) (key prs PK kdf non : Option (List Nat)) (c : Skein.Cfg)
    (h : Skein.mk Nb No Yl Yf Ym key prs PK kdf non = .ok c) :
    c.C = Spec.Skein.cfgString No Yl Yf Ym ∧ c.Nb = Nb / 8 ∧ (Nb = 256 ∨ Nb = 512 ∨ Nb = 1024) := by
  obtain ⟨h1, _, _, _, h5⟩ := cfg_eq Nb No Yl Yf Ym key prs PK kdf non c h
  subst h5
  exact ⟨rfl, rfl, h1⟩

/-- the output function `output(G)` = Output(G,No): counter-mode UBI blocks with a fresh 'out' tweak each, first ⌈No/8⌉ bytes -/
theorem output_refines (c : Skein.Cfg) (G : List Nat) (hG : IsBytes G) (hGl : G.length = 32 ∨ G.length = 64 ∨ G.length = 128) :
    Skein.output c G = .ok (Spec.Skein.output G c.No) :=
  (output_eq c G hG hGl).1

/-- Skein(Nb,No,key,prs,PK,kdf,nonce)(M,bitlen) = Skein 1.3 (hash and MAC, no tree), for the three state sizes, EVERY output
    length No (also beyond one block), every message and bit length L ≤ 8|M|, key absent / empty / any length, and every
    personalisation, public key, key-derivation identifier and nonce (None and b'' both mean "absent") -/
theorem skein_refines (Nb No : Nat) (key prs PK kdf non : Option (List Nat)) (M : List Nat) (bitlen : Option Nat)
    (hNb : Nb = 256 ∨ Nb = 512 ∨ Nb = 1024) (hM : IsBytes M) (hMl : M.length < 2 ^ 96) (hL : bitsOf M bitlen ≤ 8 * M.length)
    (hk : OptOk key) (hp : OptOk prs) (hP : OptOk PK) (hd : OptOk kdf) (hn : OptOk non) :
    (Skein.hash Nb No 0 0 0 key prs PK kdf non M bitlen).toOption =
      Spec.Skein.skein Nb No (key.getD []) (prs.getD []) (PK.getD []) (kdf.getD []) (non.getD []) 0 0 0 M (bitsOf M bitlen) := by
  rw [(hash_plain Nb No key prs PK kdf non M bitlen hNb hM hMl hL hk hp hP hd hn).1, spec_plain Nb No _ _ _ _ _ M _ hNb]
  rfl

/-- a state size other than 256/512/1024 is rejected (and undefined in the specification) -/
theorem skein_rejects_Nb (Nb No Yl Yf Ym : Nat) (key prs PK kdf non : Option (List Nat)) (M : List Nat) (bitlen : Option Nat)
    (hNb : ¬ (Nb = 256 ∨ Nb = 512 ∨ Nb = 1024)) :
    (∃ e, Skein.hash Nb No Yl Yf Ym key prs PK kdf non M bitlen = .error e) ∧
    Spec.Skein.skein Nb No (key.getD []) (prs.getD []) (PK.getD []) (kdf.getD []) (non.getD []) Yl Yf Ym M (bitsOf M bitlen) = none :=
  hash_bad_Nb Nb No Yl Yf Ym key prs PK kdf non M bitlen hNb

/-- every parameter set outside the specification (state size, a Y value above 255, tree parameters neither all zero nor
    Yl,Yf ≥ 1 and Ym ≥ 2) is rejected for every message and key, and is undefined in the specification -/
theorem skein_rejects_params (Nb No Yl Yf Ym : Nat) (key prs PK kdf non : Option (List Nat)) (M : List Nat) (bitlen : Option Nat)
    (hbad : Spec.Skein.paramsOk Nb Yl Yf Ym = false) :
    (∃ e, Skein.hash Nb No Yl Yf Ym key prs PK kdf non M bitlen = .error e) ∧
    Spec.Skein.skein Nb No (key.getD []) (prs.getD []) (PK.getD []) (kdf.getD []) (non.getD []) Yl Yf Ym M (bitsOf M bitlen) = none :=
  SkTree.hash_bad_params Nb No Yl Yf Ym key prs PK kdf non M bitlen hbad

/-- the result has exactly ⌈No/8⌉ bytes -/
theorem output_length (Nb No : Nat) (key prs PK kdf non : Option (List Nat)) (M : List Nat) (bitlen : Option Nat)
    (hNb : Nb = 256 ∨ Nb = 512 ∨ Nb = 1024) (hM : IsBytes M) (hMl : M.length < 2 ^ 96) (hL : bitsOf M bitlen ≤ 8 * M.length)
    (hk : OptOk key) (hp : OptOk prs) (hP : OptOk PK) (hd : OptOk kdf) (hn : OptOk non) :
    ∃ out, Skein.hash Nb No 0 0 0 key prs PK kdf non M bitlen = .ok out ∧ out.length = (No + 7) / 8 :=
  ⟨_, hash_plain Nb No key prs PK kdf non M bitlen hNb hM hMl hL hk hp hP hd hn⟩

/-- Skein with tree parameters = the specification's tree hash (3.5.6) followed by the output function: every state size,
    every output length, every message and bit length (the bit padding lands in the last leaf), every leaf size 2^Yl and
    fan-out 2^Yf (1 ≤ Yl,Yf ≤ 255), every maximum height 2 ≤ Ym ≤ 255 (all the specification admits), with or without
    key / personalisation / public key / kdf id / nonce.  The size bound is the specification's limit on UBI positions
    (96-bit position field).  (The 7-bit TreeLevel field is never overrun: each level at least halves the data, so a
    message below 2^96 bytes ends below level 100 — part of the proof, not a hypothesis.) -/
theorem tree_refines (Nb No Yl Yf Ym : Nat) (key prs PK kdf non : Option (List Nat)) (M : List Nat) (bitlen : Option Nat)
    (hNb : Nb = 256 ∨ Nb = 512 ∨ Nb = 1024) (h1 : 1 ≤ Yl) (h2 : 1 ≤ Yf) (h3 : 2 ≤ Ym) (hYl : Yl ≤ 255) (hYf : Yf ≤ 255) (hYm : Ym ≤ 255)
    (hM : IsBytes M) (hL : bitsOf M bitlen ≤ 8 * M.length)
    (hbound : M.length + Nb / 8 * 2 ^ Yl + Nb / 8 * 2 ^ Yf < 2 ^ 96)
    (hk : OptOk key) (hp : OptOk prs) (hP : OptOk PK) (hd : OptOk kdf) (hn : OptOk non) :
    (Skein.hash Nb No Yl Yf Ym key prs PK kdf non M bitlen).toOption =
      Spec.Skein.skein Nb No (key.getD []) (prs.getD []) (PK.getD []) (kdf.getD []) (non.getD []) Yl Yf Ym M (bitsOf M bitlen) := by
  rw [(SkTree.hash_tree Nb No Yl Yf Ym key prs PK kdf non M bitlen hNb h1 h2 h3 hYl hYf hYm hM hL hbound hk hp hP hd hn).1,
      SkTree.spec_tree Nb No _ _ _ _ _ M _ Yl Yf Ym hNb h1 h2 h3 hYl hYf hYm]
  rfl

/-- in tree mode too the result has exactly ⌈No/8⌉ bytes -/
theorem output_length_tree (Nb No Yl Yf Ym : Nat) (key prs PK kdf non : Option (List Nat)) (M : List Nat) (bitlen : Option Nat)
    (hNb : Nb = 256 ∨ Nb = 512 ∨ Nb = 1024) (h1 : 1 ≤ Yl) (h2 : 1 ≤ Yf) (h3 : 2 ≤ Ym) (hYl : Yl ≤ 255) (hYf : Yf ≤ 255) (hYm : Ym ≤ 255)
    (hM : IsBytes M) (hL : bitsOf M bitlen ≤ 8 * M.length)
    (hbound : M.length + Nb / 8 * 2 ^ Yl + Nb / 8 * 2 ^ Yf < 2 ^ 96)
    (hk : OptOk key) (hp : OptOk prs) (hP : OptOk PK) (hd : OptOk kdf) (hn : OptOk non) :
    ∃ out, Skein.hash Nb No Yl Yf Ym key prs PK kdf non M bitlen = .ok out ∧ out.length = (No + 7) / 8 :=
  ⟨_, SkTree.hash_tree Nb No Yl Yf Ym key prs PK kdf non M bitlen hNb h1 h2 h3 hYl hYf hYm hM hL hbound hk hp hP hd hn⟩

/-! ### non-vacuity -/

example : OptOk none ∧ OptOk (some []) ∧ OptOk (some [1, 2, 255]) := by
  refine ⟨⟨?_, by decide⟩, ⟨?_, by decide⟩, ⟨?_, by decide⟩⟩ <;> intro b hb <;> simp at hb
  rcases hb with h | h | h <;> subst h <;> decide

example : Spec.Skein.ubiPre [1, 2, 3] (2 ^ 64 - 2 + Spec.Skein.Tmsg * 2 ^ 120) = true := by decide
example : bitsOf [0xff, 0x80] (some 9) ≤ 8 * [0xff, 0x80].length := by decide
example : (0, 96) ∈ tweakFields ∧ (126, 127) ∈ tweakFields := by decide
example : (List.replicate 1000 7).length + 256 / 8 * 2 ^ 2 + 256 / 8 * 2 ^ 3 < 2 ^ 96 := by rw [List.length_replicate]; decide

end Proofs.C12
