/-
  C12 — Skein hash, MAC and tree hash equal the Skein 1.3 specification.
-/
import Model.Skein
import Spec.Skein
namespace Proofs.C12
open Model

/-- the type codes of the `Type` setter are Table 6 of Skein 1.3 -/
theorem type_codes :
    Skein.typeCode "key" = .ok Spec.Skein.Tkey ∧ Skein.typeCode "cfg" = .ok Spec.Skein.Tcfg ∧
    Skein.typeCode "prs" = .ok Spec.Skein.Tprs ∧ Skein.typeCode "PK" = .ok Spec.Skein.TPK ∧
    Skein.typeCode "kdf" = .ok Spec.Skein.Tkdf ∧ Skein.typeCode "non" = .ok Spec.Skein.Tnon ∧
    Skein.typeCode "msg" = .ok Spec.Skein.Tmsg ∧ Skein.typeCode "out" = .ok Spec.Skein.Tout := by
  exact ⟨rfl, rfl, rfl, rfl, rfl, rfl, rfl, rfl⟩

end Proofs.C12
