/-
  C12 (known answers) — the test vectors published in "The Skein Hash Function Family" version 1.3 hold for `Spec.Skein` IN THE
  KERNEL, and, through `skein_refines`, for the model of crysp/skein.py.

  Vectors: Skein-256-256, Skein-512-512 and Skein-1024-1024 of the empty message (reference implementation / NIST KAT
  `ShortMsgKAT` Len = 0) and Skein-256-256 / Skein-512-512 of the one-byte message FF (Appendix C.1 / C.2 of the paper).  They were
  typed from the publications, not produced by the code or by the Spec; they anchor Spec.Skein (tweak layout, configuration
  string, UBI chaining, output transform) and, below it, Spec.Threefish to the outside world.
  Closed terms decided by kernel evaluation (`decide +kernel`; axioms ⊆ {propext, Quot.sound}).
-/
import Proofs.C12
import Proofs.C02_ThreefishKat
namespace Proofs.C12_Kat
open Model Proofs.Lemmas Proofs.Lemmas.TfBytes Proofs.Lemmas.SkUbi Proofs.Lemmas.SkHash
open Proofs.C02_ThreefishKat (unhex isBytes_of_all)

def h256e : List Nat := unhex "c8877087da56e072870daa843f176e9453115929094c3a40c463a196c29bf7ba"
def h512e : List Nat := unhex
  "bc5b4c50925519c290cc634277ae3d6257212395cba733bbad37a4af0fa06af41fca7903d06564fea7a2d3730dbdb80c1f85562dfcc070334ea4d1d9e72cba7a"
def h1024e : List Nat := unhex
  ("0fff9563bb3279289227ac77d319b6fff8d7e9f09da1247b72a0a265cd6d2a62645ad547ed8193db48cff847c06494a03f55666d3b47eb4c20456c9373c86297" ++
   "d630d5578ebd34cb40991578f9f52b18003efa35d3da6553ff35db91b81ab890bec1b189b7f52cb2a783ebb7d823d725b0b4a71f6824e88f68f982eefc6d19c6")
def h256ff : List Nat := unhex "0b98dcd198ea0e50a7a244c444e25c23da30c10fc9a1f270a6637f1f34e67ed2"
def h512ff : List Nat := unhex
  "71b7bce6fe6452227b9ced6014249e5bf9a9754c3ad618ccc4e0aae16b316cc8ca698d864307ed3e80b6ef1570812ac5272dc409b5a012df2a579102f340617a"

/-- the published digests, for the specification (kernel) -/
theorem spec_kat :
    Spec.Skein.skein 256 256 [] [] [] [] [] 0 0 0 [] 0 = some h256e ∧
    Spec.Skein.skein 512 512 [] [] [] [] [] 0 0 0 [] 0 = some h512e ∧
    Spec.Skein.skein 1024 1024 [] [] [] [] [] 0 0 0 [] 0 = some h1024e ∧
    Spec.Skein.skein 256 256 [] [] [] [] [] 0 0 0 [0xFF] 8 = some h256ff ∧
    Spec.Skein.skein 512 512 [] [] [] [] [] 0 0 0 [0xFF] 8 = some h512ff := by decide +kernel

theorem optok_none : OptOk none := ⟨by intro b hb; simp at hb, by decide⟩

/-- the model of crysp.skein.Skein(Nb,No)(M) returns the published digests -/
theorem model_kat :
    (Skein.hash 256 256 0 0 0 none none none none none [] none).toOption = some h256e ∧
    (Skein.hash 512 512 0 0 0 none none none none none [] none).toOption = some h512e ∧
    (Skein.hash 1024 1024 0 0 0 none none none none none [] none).toOption = some h1024e ∧
    (Skein.hash 256 256 0 0 0 none none none none none [0xFF] none).toOption = some h256ff ∧
    (Skein.hash 512 512 0 0 0 none none none none none [0xFF] none).toOption = some h512ff := by
  obtain ⟨k1, k2, k3, k4, k5⟩ := spec_kat
  have o := optok_none
  have hE : IsBytes ([] : List Nat) := isBytes_of_all _ (by decide)
  have hF : IsBytes [0xFF] := isBytes_of_all _ (by decide)
  open Proofs.C12 in
  exact ⟨(skein_refines 256 256 none none none none none [] none (by simp) hE (by decide) (by decide) o o o o o).trans k1,
    (skein_refines 512 512 none none none none none [] none (by simp) hE (by decide) (by decide) o o o o o).trans k2,
    (skein_refines 1024 1024 none none none none none [] none (by simp) hE (by decide) (by decide) o o o o o).trans k3,
    (skein_refines 256 256 none none none none none [0xFF] none (by simp) hF (by decide) (by decide) o o o o o).trans k4,
    (skein_refines 512 512 none none none none none [0xFF] none (by simp) hF (by decide) (by decide) o o o o o).trans k5⟩

end Proofs.C12_Kat
