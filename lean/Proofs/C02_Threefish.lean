/-
  C02 (Threefish part) — Threefish-256/512/1024 encrypt/decrypt exactly as Skein 1.3 defines; other sizes are rejected.
-/
import Model.Threefish
import Spec.Threefish
namespace Proofs.C02_Threefish
open Model

/-- the word permutations read from the live object are Table 3 of Skein 1.3 -/
theorem pi_eq_spec :
    Gen.Threefish.pi4 = Spec.Threefish.pi 4 ∧ Gen.Threefish.pi8 = Spec.Threefish.pi 8 ∧ Gen.Threefish.pi16 = Spec.Threefish.pi 16 := by
  decide +kernel

end Proofs.C02_Threefish
