/-
  C02 (Threefish part) — Threefish-256/512/1024 encrypt/decrypt exactly as Skein 1.3 (section 3.3) defines;
  keys, tweaks and blocks of sizes the algorithm does not define are rejected.

  Model.Threefish mirrors crysp/threefish.py on Model.Bits; Spec.Threefish is the standard on BitVec 64.
  `IsBytes s` (every element < 256) is the only hypothesis on inputs: it is what a Python `bytes` object is.
  `ofBV x` is the 64-bit Bits object with value x.
-/
import Proofs.Lemmas.TfEnd
namespace Proofs.C02_Threefish
open Model Proofs.Lemmas.TfBridge Proofs.Lemmas.TfBytes Proofs.Lemmas.TfRefine Proofs.Lemmas
open Spec.Threefish (W bytesToWords wordsToBytes)

/-! ### the tables and constants the live code reads = the specification's (kernel enumeration, re-checked against the
    regenerated Model.Gen.Threefish on every run) -/

/-- word permutations π for Nw = 4, 8, 16 = Table 3 -/
theorem pi_eq_spec :
    Gen.Threefish.pi4 = Spec.Threefish.pi 4 ∧ Gen.Threefish.pi8 = Spec.Threefish.pi 8 ∧ Gen.Threefish.pi16 = Spec.Threefish.pi 16 :=
  TfRefine.pi_eq

/-- the inverse permutations computed by the constructor = the inverses of Table 3 -/
theorem piinv_eq_spec :
    Gen.Threefish.piinv4 = Spec.Threefish.piInv 4 ∧ Gen.Threefish.piinv8 = Spec.Threefish.piInv 8 ∧
    Gen.Threefish.piinv16 = Spec.Threefish.piInv 16 := TfRefine.piinv_eq

/-- rotation constants R_{d,j}: 8×2, 8×4, 8×8 = Table 4 -/
theorem rot_eq_spec :
    Gen.Threefish.rot4 = Spec.Threefish.R 4 ∧ Gen.Threefish.rot8 = Spec.Threefish.R 8 ∧ Gen.Threefish.rot16 = Spec.Threefish.R 16 :=
  TfRefine.rot_eq

/-- the key-schedule parity constant read back from the live object (all three sizes) = C240 -/
theorem c240_eq_spec :
    Gen.Threefish.c240_4 = Spec.Threefish.C240.toNat ∧ Gen.Threefish.c240_8 = Spec.Threefish.C240.toNat ∧
    Gen.Threefish.c240_16 = Spec.Threefish.C240.toNat := TfRefine.c240_eq

/-- numbers of rounds 72, 72, 80 -/
theorem nr_eq_spec :
    Gen.Threefish.nr4 = Spec.Threefish.Nr 4 ∧ Gen.Threefish.nr8 = Spec.Threefish.Nr 8 ∧ Gen.Threefish.nr16 = Spec.Threefish.Nr 16 :=
  TfRefine.nr_eq

/-- the context the gen item probes `__ks` with: one-hot tag words instead of key/tweak words -/
def probeCtx (nw : Nat) : Threefish.Ctx :=
  { K := ⟨0, 64 * nw⟩, T := ⟨0, 128⟩, Nw := nw, Nr := Threefish.nrOf nw, pi := [], piinv := [], R := [],
    k := (List.range (nw + 1)).map fun j => ⟨2 ^ (25 + 2 * j), 64⟩,
    t := [⟨2 ^ 60, 64⟩, ⟨2 ^ 61, 64⟩, ⟨2 ^ 62, 64⟩] }

/-- value a probed entry [key index, tweak index (3 = none), added integer] stands for -/
def probeVal (e : List Nat) : Nat :=
  2 ^ (25 + 2 * e.getD 0 0) + (if e.getD 1 3 < 3 then 2 ^ (60 + e.getD 1 3) else 0) + e.getD 2 0

def ksProbeOf (nw : Nat) : List (List (List Nat)) :=
  if nw = 4 then Gen.Threefish.ksProbe4 else if nw = 8 then Gen.Threefish.ksProbe8 else Gen.Threefish.ksProbe16

/-- the index expressions of `Model.Threefish.ks` reproduce the index structure probed from the live `__ks`
    for every round number the ciphers use (s = 0 .. Nr/4) and the three sizes -/
theorem ks_index_eq_probed :
    ∀ nw ∈ [4, 8, 16], ∀ s < Threefish.nrOf nw / 4 + 1,
      (Threefish.ks (probeCtx nw) s).map (·.ival) = ((ksProbeOf nw).getD s []).map probeVal := by
  decide +kernel

/-! ### component refinements, for every context the constructor can build -/

/-- MIX: `__MIX(x0,x1,d,j)` = MIX_{d,j} of the specification, all words, all rounds d, all j -/
theorem mix_refines (key tweak : List Nat) (hk : IsBytes key) (ht : IsBytes tweak) (c : Threefish.Ctx)
    (hc : Threefish.init key tweak = .ok c) (x0 x1 : W) (d j : Nat) (hj : j < c.Nw / 2) :
    Threefish.mix c (ofBV x0) (ofBV x1) d j = (Spec.Threefish.mix (Spec.Threefish.rot c.Nw d j) x0 x1).map ofBV := by
  obtain ⟨_, _, hrel⟩ := TfEnd.rel_of_init key tweak hk ht c hc
  have h8 : j < 8 := by
    have := hrel.hNw; rcases hrel.hv with h | h | h <;> omega
  rw [hrel.hNw]; exact TfRefine.mix_refines hrel x0 x1 d j h8

/-- the word permutation step `v[i] = f[pi[i]]` = v_{d+1,i} = f_{d,π(i)} -/
theorem permute_refines (key tweak : List Nat) (hk : IsBytes key) (ht : IsBytes tweak) (c : Threefish.Ctx)
    (hc : Threefish.init key tweak = .ok c) (f : List W) :
    ((List.range c.Nw).map fun i => (f.map ofBV).getD (c.pi.getD i 0) Threefish.z64) =
      (Spec.Threefish.permute (Spec.Threefish.pi (key.length / 8)) (key.length / 8) f).map ofBV := by
  obtain ⟨_, _, hrel⟩ := TfEnd.rel_of_init key tweak hk ht c hc
  rw [hrel.hpi]; exact TfRefine.permute_refines hrel _ f

/-- key schedule: `__ks(s)` = the subkey k_s built from C240, the key words and the tweak words, every round number s < 2^64 -/
theorem ks_refines (key tweak : List Nat) (hk : IsBytes key) (ht : IsBytes tweak) (c : Threefish.Ctx)
    (hc : Threefish.init key tweak = .ok c) (s : Nat) (hs : s < 2 ^ 64) :
    Threefish.ks c s = (Spec.Threefish.subkeys (key.length / 8) (Spec.Threefish.keyExt (bytesToWords key))
        (Spec.Threefish.tweakExt (bytesToWords tweak)) s).map ofBV := by
  obtain ⟨_, _, hrel⟩ := TfEnd.rel_of_init key tweak hk ht c hc
  exact TfRefine.ks_refines hrel s hs

/-- one round of the encryption loop = v_d ↦ v_{d+1} -/
theorem round_refines (key tweak : List Nat) (hk : IsBytes key) (ht : IsBytes tweak) (c : Threefish.Ctx)
    (hc : Threefish.init key tweak = .ok c) (v : List W) (d : Nat) (hd : d < 2 ^ 64) :
    Threefish.encRound c (v.map ofBV) d = (Spec.Threefish.round (key.length / 8) (Spec.Threefish.keyExt (bytesToWords key))
        (Spec.Threefish.tweakExt (bytesToWords tweak)) v d).map ofBV := by
  obtain ⟨_, _, hrel⟩ := TfEnd.rel_of_init key tweak hk ht c hc
  exact TfRefine.encRound_refines hrel v d hd

/-! ### end to end -/

/-- Threefish(key,tweak).enc(block) is the standard's ciphertext, for EVERY key, tweak and block: on the sizes the
    standard defines (32/64/128-byte key, 16-byte tweak, block as long as the key) the result is `Spec.Threefish.enc`,
    on every other size the call is rejected (`Spec.Threefish.enc` is `none` exactly there). -/
theorem enc_refines (key tweak block : List Nat) (hk : IsBytes key) (ht : IsBytes tweak) (hb : IsBytes block) :
    (Threefish.encrypt key tweak block).toOption = Spec.Threefish.enc key tweak block := by
  cases hs : Spec.Threefish.sizesOk key tweak block with
  | true => rw [TfEnd.encrypt_ok key tweak block hk ht hb hs]; simp [Spec.Threefish.enc, hs, Except.toOption]
  | false =>
    obtain ⟨e, he, _⟩ := TfEnd.encrypt_rejects key tweak block hk ht hb hs
    rw [he]; simp [Spec.Threefish.enc, hs, Except.toOption]

/-- Threefish(key,tweak).dec(block) likewise -/
theorem dec_refines (key tweak block : List Nat) (hk : IsBytes key) (ht : IsBytes tweak) (hb : IsBytes block) :
    (Threefish.decrypt key tweak block).toOption = Spec.Threefish.dec key tweak block := by
  cases hs : Spec.Threefish.sizesOk key tweak block with
  | true => rw [TfEnd.decrypt_ok key tweak block hk ht hb hs]; simp [Spec.Threefish.dec, hs, Except.toOption]
  | false =>
    obtain ⟨_, _, e, he⟩ := TfEnd.encrypt_rejects key tweak block hk ht hb hs
    rw [he]; simp [Spec.Threefish.dec, hs, Except.toOption]

/-- `Spec.Threefish.dec` is the standard's decryption: the inverse map of the standard's encryption, both ways
    (so `dec_refines` says: dec returns the plaintext the standard assigns to the ciphertext block) -/
theorem spec_dec_is_inverse (key tweak block : List Nat) (hb : IsBytes block)
    (hs : Spec.Threefish.sizesOk key tweak block = true) :
    (Spec.Threefish.enc key tweak block >>= Spec.Threefish.dec key tweak) = some block ∧
    (Spec.Threefish.dec key tweak block >>= Spec.Threefish.enc key tweak) = some block := by
  obtain ⟨hkl, htl, hbl⟩ := (TfEnd.sizesOk_iff _ _ _).1 hs
  have hv := TfEnd.valid_of_len hkl
  have hl1 := TfInverse.encWords_length (key.length / 8) (bytesToWords key) (bytesToWords tweak) (bytesToWords block)
  have hl2 := TfInverse.decWords_length (key.length / 8) hv (bytesToWords key) (bytesToWords tweak) (bytesToWords block)
  have s1 := TfEnd.enc_sizes key tweak block hs _ hl1
  have s2 := TfEnd.enc_sizes key tweak block hs _ hl2
  have hbw : (bytesToWords block).length = key.length / 8 := by rw [bytesToWords_length, hbl]
  constructor
  · simp only [Spec.Threefish.enc, hs, ite_true, Option.bind_eq_bind, Option.bind_some, Spec.Threefish.dec, s1]
    rw [bytesToWords_wordsToBytes, TfInverse.decWords_encWords _ hv _ _ _ hbw,
        wordsToBytes_bytesToWords (key.length / 8) block hb (by omega)]
  · simp only [Spec.Threefish.enc, hs, ite_true, Option.bind_eq_bind, Option.bind_some, Spec.Threefish.dec, s2]
    rw [bytesToWords_wordsToBytes, TfInverse.encWords_decWords _ hv _ _ _ hbw,
        wordsToBytes_bytesToWords (key.length / 8) block hb (by omega)]

/-- size rejection spelled out: anything but a 32/64/128-byte key, a 16-byte tweak and a block as long as the key raises -/
theorem size_rejected (key tweak block : List Nat) (hk : IsBytes key) (ht : IsBytes tweak) (hb : IsBytes block)
    (hbad : ¬ ((key.length = 32 ∨ key.length = 64 ∨ key.length = 128) ∧ tweak.length = 16 ∧ block.length = key.length)) :
    (∃ e, Threefish.encrypt key tweak block = .error e) ∧ (∃ e, Threefish.decrypt key tweak block = .error e) := by
  have hs : Spec.Threefish.sizesOk key tweak block = false := by
    cases h : Spec.Threefish.sizesOk key tweak block with
    | false => rfl
    | true => exact absurd ((TfEnd.sizesOk_iff _ _ _).1 h) hbad
  obtain ⟨e, he, e', he'⟩ := TfEnd.encrypt_rejects key tweak block hk ht hb hs
  exact ⟨⟨e, he⟩, ⟨e', he'⟩⟩

/-! ### non-vacuity: the hypotheses are inhabited by non-trivial instances -/

example : IsBytes (List.replicate 32 0xA5) ∧ IsBytes (List.range 16) ∧
    Spec.Threefish.sizesOk (List.replicate 32 0xA5) (List.range 16) (List.range 32) = true := by
  refine ⟨?_, ?_, by decide⟩
  · intro b hb; rw [List.eq_of_mem_replicate hb]; decide
  · intro b hb; have := List.mem_range.1 hb; omega

example : ∃ c, Threefish.init (List.replicate 64 1) (List.replicate 16 2) = .ok c ∧ c.Nw = 8 := by
  have hb1 : IsBytes (List.replicate 64 1) := by intro b hb; rw [List.eq_of_mem_replicate hb]; decide
  have hb2 : IsBytes (List.replicate 16 2) := by intro b hb; rw [List.eq_of_mem_replicate hb]; decide
  obtain ⟨c, hc, _, hrel⟩ := TfEnd.init_rel _ _ hb1 hb2 (by simp) (by simp)
  exact ⟨c, hc, by rw [hrel.hNw]; simp⟩

end Proofs.C02_Threefish
