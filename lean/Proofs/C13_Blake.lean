/-
  C13 (BLAKE part) — HMAC over the BLAKE-224/256/384/512 objects equals RFC 2104 over the BLAKE submission's hash.
  ONLY property theorems and non-vacuity examples; helper lemmas are in Proofs/Lemmas/BlakeHmac.lean.

  The generic theorem `Proofs.C13.hmac_refines` is stated for any hash function; here it is instantiated with the model of
  the real `Blake(n)` object on the code side and the submission's BLAKE-n (`Spec.Blake.hash`, zero salt, whole bytes) on
  the specification side, using C11's `blake_refines`.  `Pair c V` is (Blake(n), BLAKE-n) for n = 224, 256, 384, 512;
  `c.blocksize` is the object's `blocksize` attribute (bits) that `HMAC.setkey/__call__` read.
-/
import Proofs.Lemmas.BlakeHmac
import Proofs.C13
namespace Proofs.C13_Blake
open Model Model.Hmac Proofs.Lemmas

/-- **hmac_refines_blake.**  `HMAC(Blake(n),key)(msg)` of the model (crysp/hmac.py over the model of the real BLAKE
    object, called as HMAC calls it: default salt, no bit length) is RFC 2104's
    `H((K0 ⊕ opad) ‖ H((K0 ⊕ ipad) ‖ msg))` with H = BLAKE-n of the submission and B = 64 / 128 bytes, for every key
    (empty, shorter than, equal to, longer than the block) and every message. -/
theorem hmac_refines_blake {c : Blake.Cfg} {V : Spec.Blake.Variant} (h : BlakeEnd.Pair c V) (key msg : List Nat)
    (hkey : ∀ x ∈ key, x < 256) (hmsg : ∀ x ∈ msg, x < 256) :
    Hmac.hmac (fun m => Blake.call c m 0 none) c.blocksize key msg
      = .ok (Spec.rfc2104 (fun m => Spec.Blake.hash V m (8 * m.length) 0) (c.blocksize / 8) key msg) :=
  BlakeHmac.hmac_blake h key msg hkey hmsg

/-- the hash HMAC sees: on byte strings the call of the model of `Blake(n)` is the submission's BLAKE-n -/
theorem blake_hash_on_bytes {c : Blake.Cfg} {V : Spec.Blake.Variant} (h : BlakeEnd.Pair c V) (m : List Nat)
    (hm : ∀ x ∈ m, x < 256) :
    Blake.call c m 0 none = .ok (Spec.Blake.hash V m (8 * m.length) 0) :=
  BlakeHmac.blake_on_bytes h m hm

/-- RFC 2104's standing assumptions hold for the four BLAKE objects: the block is a whole, positive number of bytes
    (64 / 128) and the digest fits into a block, so a hashed long key can be zero-padded -/
theorem blake_hmac_geometry {c : Blake.Cfg} {V : Spec.Blake.Variant} (h : BlakeEnd.Pair c V) :
    c.blocksize = 8 * (c.blocksize / 8) ∧ 0 < c.blocksize / 8 ∧ V.out ≤ c.blocksize / 8 ∧
    ∀ m, (Spec.Blake.hash V m (8 * m.length) 0).length ≤ V.out :=
  ⟨(BlakeHmac.pair_block h).1, (BlakeHmac.pair_block h).2.1, (BlakeHmac.pair_block h).2.2, BlakeHmac.specFn_length_le V⟩

/-- |K| > B over BLAKE: the key material is BLAKE-n(K) zero-padded to the block (the repaired branch of `setkey`) -/
theorem key_long_blake {c : Blake.Cfg} {V : Spec.Blake.Variant} (h : BlakeEnd.Pair c V) (key : List Nat)
    (hkey : ∀ x ∈ key, x < 256) (hl : c.blocksize / 8 < key.length) :
    Hmac.setkey { blocksize := c.blocksize } (fun m => Blake.call c m 0 none) key
      = .ok { blocksize := c.blocksize,
              K := some (Spec.Blake.hash V key (8 * key.length) 0
                          ++ List.replicate (c.blocksize / 8 - (Spec.Blake.hash V key (8 * key.length) 0).length) 0) } := by
  obtain ⟨h8, hpos, hout⟩ := BlakeHmac.pair_block h
  have hd := BlakeHmac.blake_on_bytes h key hkey
  have hlen := Nat.le_trans (BlakeHmac.specFn_length_le V key) hout
  simp only [BlakeHmac.specFn] at hd hlen
  by_cases hlt : (Spec.Blake.hash V key (8 * key.length) 0).length < c.blocksize / 8
  · simp [Hmac.setkey, hl, hd, hlt, pure, Except.pure, bind, Except.bind]
  · have : c.blocksize / 8 - (Spec.Blake.hash V key (8 * key.length) 0).length = 0 := by omega
    simp [Hmac.setkey, hl, hd, hlt, this, pure, Except.pure, bind, Except.bind]

/-- **hmac_after_history_blake.**  The Blake object handed to HMAC may have ANY history — a salted one-shot call, a salted
    stream finished or abandoned, a refused call: `s` is any object state, its salt words included — and the MAC is still
    RFC 2104 over the UNSALTED BLAKE-n: `self.h(x)` is `initstate(salt=0)` + `update(x,padding=True)`, and `initstate`
    builds the salt words from its argument every time.  (`σ`, `wrap`: whatever the line keeps of the object.) -/
theorem hmac_after_history_blake {c : Blake.Cfg} {V : Spec.Blake.Variant} (h : BlakeEnd.Pair c V) {σ : Type}
    (wrap : Blake.State → σ) (s : σ) (key msg : List Nat) (hkey : ∀ x ∈ key, x < 256) (hmsg : ∀ x ∈ msg, x < 256) :
    (HmacObj.hmac (fun (_ : σ) x => (wrap (Blake.update c (Blake.initstate c 0) x none true).1,
                                      (Blake.update c (Blake.initstate c 0) x none true).2)) c.blocksize s key msg).2.2
      = .ok (Spec.rfc2104 (fun m => Spec.Blake.hash V m (8 * m.length) 0) (c.blocksize / 8) key msg) := by
  exact (Proofs.C13.hmac_history_free
      (fun (_ : σ) x => (wrap (Blake.update c (Blake.initstate c 0) x none true).1,
                         (Blake.update c (Blake.initstate c 0) x none true).2))
      (fun m => Blake.call c m 0 none) (fun _ _ => rfl) c.blocksize s key msg).trans
    (hmac_refines_blake h key msg hkey hmsg)

/-- the salt of an earlier use is not an input of the next `initstate`: the state a call starts from is a function of the
    configuration and of THIS call's salt alone -/
theorem blake_call_ignores_history (c : Blake.Cfg) (salt : Nat) (M : List Nat) (bitlen : Option Nat) :
    Blake.call c M salt bitlen = (Blake.update c (Blake.initstate c salt) M bitlen true).2 ∧
    (Blake.initstate c 0).salt = Blake.saltWords c.wsize 0 := ⟨rfl, rfl⟩

/-! non-vacuity -/
example : BlakeEnd.Pair Blake.blake256 Spec.Blake.blake256 := Or.inr (Or.inl ⟨rfl, rfl⟩)
example : BlakeEnd.Pair Blake.blake384 Spec.Blake.blake384 := Or.inr (Or.inr (Or.inl ⟨rfl, rfl⟩))
example : ∃ key : List Nat, (∀ x ∈ key, x < 256) ∧ Blake.blake224.blocksize / 8 < key.length :=
  ⟨List.replicate 65 0xaa, by intro x hx; rw [List.mem_replicate] at hx; omega, by decide⟩

end Proofs.C13_Blake
