/-
  C14 (MD4/MD5/SHA-0/SHA-1/SHA-2 part) — hashing a message piecewise gives the same digest as hashing it at once.
  ONLY property theorems and non-vacuity examples; helper lemmas are in Proofs/Lemmas/Streaming*.lean.

  The object skeleton (`initstate`, `update(M,bitlen,padding)`, `__call__`) is Model.HashObj; `Refines c h emb` says that IV,
  compression and serialisation of the object `c` are those of a Merkle–Damgård function `h : Spec.MDHash σ` (any chaining
  type σ, any compression function) through the embedding `emb`; `Framing` says its padder is the MD or SHA scheme with the
  block / length-field sizes of `h`.  Both are established for the ten objects of the library in Proofs.C01.
-/
import Proofs.Lemmas.StreamingAlgs
namespace Proofs.C14
open Model Proofs.Lemmas.Parse Proofs.Lemmas.Compose Proofs.Lemmas.Streaming Proofs.Lemmas.EndToEnd

/-- the object after `initstate(); update(p1); …; update(pk)` -/
def feed (c : HashCore) (pieces : List (List Spec.Byte)) : HashObj :=
  pieces.foldl (fun o P => (c.update o (toNatBytes P) none false).1) c.initstate

/-- **update_pieces**, generic in the compression function: for every cut of a message into block-aligned pieces
    (empty pieces and multi-block pieces included, any number of them) followed by a final piece of any length — with
    an optional bit length counted within that final piece —
    `init; update(p1); …; update(pk); update(q, bitlen, padding=True)` returns what the one-shot call returns on
    `p1 ‖ … ‖ pk ‖ q`. -/
theorem update_pieces {σ : Type} {c : HashCore} {h : Spec.MDHash σ} {emb : σ → List Bits} (R : Refines c h emb)
    {w B bl ll : Nat} {bigend : Bool} (F : Framing c h w B bl ll bigend)
    (pieces : List (List Spec.Byte)) (hal : ∀ P ∈ pieces, P.length % bl = 0) (q : List Spec.Byte) (kw : Option Nat)
    (hkw : ∀ l, kw = some l → l ≤ 8 * q.length) :
    (c.update (feed c pieces) (toNatBytes q) kw true).2
      = c.hash (toNatBytes (pieces.flatten ++ q)) (kw.map (8 * pieces.flatten.length + ·)) :=
  Proofs.Lemmas.Streaming.update_pieces R F pieces hal q kw hkw

/-- **bitcnt_after_pieces**: after feeding block-aligned pieces the bit counter is the number of bits fed so far, no
    padding has been added, and the chaining value is the standard's after absorbing those blocks (stated for every list
    of pieces, hence after each piece) -/
theorem bitcnt_after_pieces {σ : Type} {c : HashCore} {h : Spec.MDHash σ} {emb : σ → List Bits} (R : Refines c h emb)
    {w B bl ll : Nat} {bigend : Bool} (F : Framing c h w B bl ll bigend)
    (pieces : List (List Spec.Byte)) (hal : ∀ P ∈ pieces, P.length % bl = 0) :
    (feed c pieces).pad = { padflag := false, bitcnt := 8 * pieces.flatten.length, padcnt := 0 } ∧
    (feed c pieces).H = emb (h.absorb h.init (Spec.groups bl pieces.flatten)) := by
  have := run_pieces R F pieces hal h.init {} rfl
  simp only [feed, HashCore.initstate, R.iv, this]
  simp

/-- the ten objects of the library: piecewise = one-shot = the standard's digest of the concatenation -/
theorem update_pieces_all (alg : Model.Alg) (pieces : List (List Spec.Byte))
    (hal : ∀ P ∈ pieces, P.length % alg.blocklen = 0) (q : List Spec.Byte) :
    ∃ c, alg.new = .ok c ∧
      (c.update (feed c pieces) (toNatBytes q) none true).2 = Model.hash alg (toNatBytes (pieces.flatten ++ q)) none ∧
      (c.update (feed c pieces) (toNatBytes q) none true).2
        = .ok (toNatBytes (Spec.hash (toSpec alg) (Spec.bytesToBits (pieces.flatten ++ q)))) ∧
      (feed c pieces).pad.bitcnt = 8 * pieces.flatten.length := by
  obtain ⟨c, hc, σ, h, emb, w, B, ll, bigend, R, F, _⟩ := Proofs.Lemmas.StreamingAlgs.alg_cases alg
  have h1 := Proofs.Lemmas.Streaming.update_pieces R F pieces hal q none (fun l hl => by cases hl)
  have h2 : Model.hash alg (toNatBytes (pieces.flatten ++ q)) none = c.hash (toNatBytes (pieces.flatten ++ q)) none := by
    simp only [Model.hash, hc, bind, Except.bind]
  have h3 := hash_eq alg (pieces.flatten ++ q) none (fun l hl => by cases hl)
  refine ⟨c, hc, ?_, ?_, ?_⟩
  · rw [h2]; exact h1
  · have e : (c.update (feed c pieces) (toNatBytes q) none true).2 = Model.hash alg (toNatBytes (pieces.flatten ++ q)) none := by
      rw [h2]; exact h1
    rw [e, h3]
    simp only [Option.getD_none]
    rw [List.take_of_length_le (by rw [Proofs.Lemmas.SpecList.bytesToBits_length]; exact Nat.le_refl _)]
  · have := (bitcnt_after_pieces R F pieces hal).1
    rw [this]

/-! non-vacuity: block-aligned cuts exist with empty and multi-block pieces -/
example : ∃ (pieces : List (List Spec.Byte)), (∀ P ∈ pieces, P.length % 64 = 0) ∧ pieces.length = 3 ∧
    pieces.flatten.length = 192 :=
  ⟨[List.replicate 64 0#8, [], List.replicate 128 1#8],
   by intro P hP; simp only [List.mem_cons, List.not_mem_nil, or_false] at hP
      rcases hP with rfl | rfl | rfl <;> simp only [List.length_replicate, List.length_nil],
   rfl, by simp only [List.flatten_cons, List.flatten_nil, List.length_append, List.length_replicate, List.length_nil]⟩

end Proofs.C14
