/-
  C14 (MD4/MD5/SHA-0/SHA-1/SHA-2 part) — hashing a message piecewise gives the same digest as hashing it at once.
  ONLY property theorems and non-vacuity examples; helper lemmas are in Proofs/Lemmas/Streaming*.lean.

  The object skeleton (`initstate`, `update(M,bitlen,padding)`, `__call__`) is Model.HashObj; `Refines c h emb` says that IV,
  compression and serialisation of the object `c` are those of a Merkle–Damgård function `h : Spec.MDHash σ` (any chaining
  type σ, any compression function) through the embedding `emb`; `Framing` says its padder is the MD or SHA scheme with the
  block / length-field sizes of `h`.  Both are established for the ten objects of the library in Proofs.C01.
-/
import Proofs.Lemmas.StreamingAlgs
import Proofs.Lemmas.StreamingBitlen
import Proofs.Lemmas.MultiProj
namespace Proofs.C14
open Model Proofs.Lemmas.Parse Proofs.Lemmas.Compose Proofs.Lemmas.Streaming Proofs.Lemmas.EndToEnd

/-- the object after `initstate(); update(p1); …; update(pk)` -/
def feed (c : HashCore) (pieces : List (List Spec.Byte)) : HashObj :=
  pieces.foldl (fun o P => (c.update o (toNatBytes P) none false).1) c.initstate

/-- **update_pieces**, generic in the compression function: for every cut of a message into block-aligned pieces
    (empty pieces and multi-block pieces included, any number of them) followed by a final piece of any length — with
    an optional bit length counted within that final piece —
    `init; update(p1); …; update(pk); update(q, bitlen, padding=True)` returns what the one-shot call returns on
    `p1 ‖ … ‖ pk ‖ q`. -/
theorem update_pieces {σ : Type} {c : HashCore} {h : Spec.MDHash σ} {emb : σ → List Bits} (R : Refines c h emb)
    {w B bl ll : Nat} {bigend : Bool} (F : Framing c h w B bl ll bigend)
    (pieces : List (List Spec.Byte)) (hal : ∀ P ∈ pieces, P.length % bl = 0) (q : List Spec.Byte) (kw : Option Nat)
    (hkw : ∀ l, kw = some l → l ≤ 8 * q.length) :
    (c.update (feed c pieces) (toNatBytes q) kw true).2
      = c.hash (toNatBytes (pieces.flatten ++ q)) (kw.map (8 * pieces.flatten.length + ·)) :=
  Proofs.Lemmas.Streaming.update_pieces R F pieces hal q kw hkw

/-- **bitcnt_after_pieces**: after feeding block-aligned pieces the bit counter is the number of bits fed so far, no
    padding has been added, and the chaining value is the standard's after absorbing those blocks (stated for every list
    of pieces, hence after each piece) -/
theorem bitcnt_after_pieces {σ : Type} {c : HashCore} {h : Spec.MDHash σ} {emb : σ → List Bits} (R : Refines c h emb)
    {w B bl ll : Nat} {bigend : Bool} (F : Framing c h w B bl ll bigend)
    (pieces : List (List Spec.Byte)) (hal : ∀ P ∈ pieces, P.length % bl = 0) :
    (feed c pieces).pad = { padflag := false, bitcnt := 8 * pieces.flatten.length, padcnt := 0 } ∧
    (feed c pieces).H = emb (h.absorb h.init (Spec.groups bl pieces.flatten)) := by
  have := run_pieces R F pieces hal h.init {} rfl
  simp only [feed, HashCore.initstate, R.iv, this]
  simp

/-- the ten objects of the library: piecewise = one-shot = the standard's digest of the concatenation -/
theorem update_pieces_all (alg : Model.Alg) (pieces : List (List Spec.Byte))
    (hal : ∀ P ∈ pieces, P.length % alg.blocklen = 0) (q : List Spec.Byte) :
    ∃ c, alg.new = .ok c ∧
      (c.update (feed c pieces) (toNatBytes q) none true).2 = Model.hash alg (toNatBytes (pieces.flatten ++ q)) none ∧
      (c.update (feed c pieces) (toNatBytes q) none true).2
        = .ok (toNatBytes (Spec.hash (toSpec alg) (Spec.bytesToBits (pieces.flatten ++ q)))) ∧
      (feed c pieces).pad.bitcnt = 8 * pieces.flatten.length := by
  obtain ⟨c, hc, σ, h, emb, w, B, ll, bigend, R, F, _⟩ := Proofs.Lemmas.StreamingAlgs.alg_cases alg
  have h1 := Proofs.Lemmas.Streaming.update_pieces R F pieces hal q none (fun l hl => by cases hl)
  have h2 : Model.hash alg (toNatBytes (pieces.flatten ++ q)) none = c.hash (toNatBytes (pieces.flatten ++ q)) none := by
    simp only [Model.hash, hc, bind, Except.bind]
  have h3 := hash_eq alg (pieces.flatten ++ q) none (fun l hl => by cases hl)
  refine ⟨c, hc, ?_, ?_, ?_⟩
  · rw [h2]; exact h1
  · have e : (c.update (feed c pieces) (toNatBytes q) none true).2 = Model.hash alg (toNatBytes (pieces.flatten ++ q)) none := by
      rw [h2]; exact h1
    rw [e, h3]
    simp only [Option.getD_none]
    rw [List.take_of_length_le (by rw [Proofs.Lemmas.SpecList.bytesToBits_length]; exact Nat.le_refl _)]
  · have := (bitcnt_after_pieces R F pieces hal).1
    rw [this]

/-! ### pieces given with their bit length (readinto-style buffers), re-initialisation -/

/-- the object after `initstate(); update(b1,bitlen=L1); …; update(bk,bitlen=Lk)`: every piece is a buffer and the number
    of its bits that count -/
def feedL (c : HashCore) (pieces : List (List Spec.Byte × Nat)) : HashObj :=
  pieces.foldl (fun o P => (c.update o (toNatBytes P.1) (some P.2) false).1) c.initstate

/-- what a buffer given with L bits (whole bytes) contributes to the message: its first L/8 bytes -/
def cut (P : List Spec.Byte × Nat) : List Spec.Byte := P.1.take (P.2 / 8)

/-- **feed_bitlen**: feeding buffers with explicit bit lengths (each a whole number of blocks and at most the buffer:
    L = 0 on a NON-EMPTY buffer and L = 8n on a buffer longer than n bytes included) leaves the object exactly where
    feeding the cut pieces without bit lengths leaves it -/
theorem feed_bitlen {σ : Type} {c : HashCore} {h : Spec.MDHash σ} {w B bl ll : Nat} {bigend : Bool}
    (F : Framing c h w B bl ll bigend) (pieces : List (List Spec.Byte × Nat))
    (hal : ∀ P ∈ pieces, P.2 ≤ 8 * P.1.length ∧ P.2 % (8 * bl) = 0) :
    feedL c pieces = feed c (pieces.map cut) := by
  have hB : c.padder.blocksize = 8 * bl := by rw [F.hp]; exact F.hB
  unfold feedL feed
  generalize c.initstate = o
  induction pieces generalizing o with
  | nil => rfl
  | cons P rest ih =>
    have hP := hal P (List.mem_cons_self)
    simp only [List.foldl_cons, List.map_cons]
    rw [Proofs.Lemmas.StreamingBitlen.update_bitlen_nonfinal c bl hB F.hbl o (toNatBytes P.1) P.2
      (by rw [toNatBytes_length]; exact hP.1) hP.2]
    have e : (toNatBytes P.1).take (P.2 / 8) = toNatBytes (cut P) := by
      simp only [toNatBytes, cut, List.map_take]
    rw [e]
    exact ih (fun Q hQ => hal Q (List.mem_cons_of_mem _ hQ)) _

/-- **update_pieces_bitlen**: buffers given with their bit lengths (whole blocks; 0 bits of a non-empty buffer, 8n bits
    of a longer buffer) followed by a final buffer with an optional bit length (any 0 ≤ L ≤ 8|q|) give the one-shot
    result on the concatenation of the first L bits of every piece, and the bit counter before the final piece is the
    sum of the bit lengths given -/
theorem update_pieces_bitlen {σ : Type} {c : HashCore} {h : Spec.MDHash σ} {emb : σ → List Bits} (R : Refines c h emb)
    {w B bl ll : Nat} {bigend : Bool} (F : Framing c h w B bl ll bigend)
    (pieces : List (List Spec.Byte × Nat)) (hal : ∀ P ∈ pieces, P.2 ≤ 8 * P.1.length ∧ P.2 % (8 * bl) = 0)
    (q : List Spec.Byte) (kw : Option Nat) (hkw : ∀ l, kw = some l → l ≤ 8 * q.length) :
    (c.update (feedL c pieces) (toNatBytes q) kw true).2
      = c.hash (toNatBytes ((pieces.map cut).flatten ++ q)) (kw.map (8 * (pieces.map cut).flatten.length + ·)) ∧
    (feedL c pieces).pad.bitcnt = 8 * (pieces.map cut).flatten.length := by
  have hcut : ∀ P ∈ pieces.map cut, P.length % bl = 0 := by
    intro P hP
    obtain ⟨Q, hQ, rfl⟩ := List.mem_map.mp hP
    obtain ⟨h1, h2⟩ := hal Q hQ
    obtain ⟨j, hj⟩ := Nat.dvd_of_mod_eq_zero h2
    have : Q.2 / 8 = bl * j := by rw [hj, Nat.mul_assoc, Nat.mul_div_cancel_left _ (by decide : 0 < 8)]
    simp only [cut, List.length_take, this]
    rw [Nat.min_eq_left (by omega)]
    exact Nat.mul_mod_right _ _
  rw [feed_bitlen F pieces hal]
  exact ⟨Proofs.Lemmas.Streaming.update_pieces R F _ hcut q kw hkw, by rw [(bitcnt_after_pieces R F _ hcut).1]⟩

/-- **initstate_forgets**: `initstate()` does not look at the object it is called on — after an abandoned stream (blocks
    fed, never finalised), a finished digest or a refused step the object is the one a new object starts as: chaining
    value = IV, bit counter 0, no padding added; so `update_pieces` / `update_pieces_bitlen` (stated from `c.initstate`)
    hold after `initstate()` on an object with ANY history.  (In the model this is how `initstate` is written —
    `self.H = …; self.padmethod = XXpadding(…)` — and the `… | init | …` lines of the stream tie it to the code.) -/
theorem initstate_forgets (c : HashCore) :
    c.initstate.pad = { padflag := false, bitcnt := 0, padcnt := 0 } ∧ c.initstate.H = c.iv := ⟨rfl, rfl⟩

/-- **call_forgets_history**: the one-shot call `h(M,bitlen)` does not look at the object it is called on (it starts with
    `initstate()`): the digest AND the object left behind are those of a fresh object, whatever was fed, finished, called
    or refused before (the `… | call … | init | …` lives of the `hashseq` lines, the `<k> call` steps of `hashseqs`) -/
theorem call_forgets_history (c : HashCore) (o o' : HashObj) (M : List Nat) (bitlen : Option Nat) :
    c.call o M bitlen = c.call o' M bitlen := rfl

/-- **siblings_do_not_interfere** (the `hashseqs` / `blakeseqs` / `nilsimsa.seqs` lines): several objects alive at the same
    time are entries of a list, a step on object k rewrites entry k (`Model.Multi.run`, used by the three drivers with their
    own `step`).  For EVERY step function, every interleaving of steps and every object j of the store: the state of
    object j after the whole line and everything printed for object j are those of the run of j's OWN steps alone, in
    their order — no other object's construction, initialisation, feeding, finishing or refusal, and no step addressed to
    the environment slot, enters.  So in the model two objects cannot share a bit counter, a padding object, a salt or a
    window by construction; `update_pieces`, `update_pieces_bitlen`, `bitcnt_after_pieces` therefore hold for each stream of
    an interleaved line.  That the Python objects are as independent is what the correspondence lines test. -/
theorem siblings_do_not_interfere {σ ω ρ : Type} (step : Nat → σ → ω → σ × ρ) (objs : List σ)
    (steps : List (Nat × ω)) (j : Nat) (o : σ) (hj : objs[j]? = some o) :
    (Model.Multi.run step objs steps).1[j]? = some (Model.Multi.runOne (step j) o (Model.Multi.own j steps)).1 ∧
    ((Model.Multi.run step objs steps).2.filter (·.1 == j)).map (·.2)
      = (Model.Multi.runOne (step j) o (Model.Multi.own j steps)).2 :=
  Proofs.Lemmas.MultiProj.run_proj step j steps objs o hj

/-- non-vacuity: two counters stepped alternately; object 1 sees only its own two steps -/
example : (Model.Multi.run (fun _ (n : Nat) (d : Nat) => (n + d, n + d)) [0, 100] [(0, 1), (1, 5), (0, 2), (1, 7)]).2
    = [(0, 1), (1, 105), (0, 3), (1, 112)] := by decide

/-! non-vacuity: block-aligned cuts exist with empty and multi-block pieces -/
example : ∃ (pieces : List (List Spec.Byte)), (∀ P ∈ pieces, P.length % 64 = 0) ∧ pieces.length = 3 ∧
    pieces.flatten.length = 192 :=
  ⟨[List.replicate 64 0#8, [], List.replicate 128 1#8],
   by intro P hP; simp only [List.mem_cons, List.not_mem_nil, or_false] at hP
      rcases hP with rfl | rfl | rfl <;> simp only [List.length_replicate, List.length_nil],
   rfl, by simp only [List.flatten_cons, List.flatten_nil, List.length_append, List.length_replicate, List.length_nil]⟩

/-- bit lengths as a reused 64-byte buffer gives them: a full read, an empty read (0 bits of a non-empty buffer) -/
example : ∃ (pieces : List (List Spec.Byte × Nat)), (∀ P ∈ pieces, P.2 ≤ 8 * P.1.length ∧ P.2 % (8 * 64) = 0) ∧
    (pieces.map cut).flatten.length = 64 ∧ (pieces.map (·.1.length)).sum = 192 :=
  ⟨[(List.replicate 64 7#8, 512), (List.replicate 64 7#8, 0), (List.replicate 64 7#8, 0)],
   by intro P hP; simp only [List.mem_cons, List.not_mem_nil, or_false] at hP
      rcases hP with rfl | rfl | rfl <;> simp only [List.length_replicate] <;> decide,
   by decide, by decide⟩

end Proofs.C14
