/-
  C02 (Threefish part, known answers) — the published known-answer vectors of Threefish hold for `Spec.Threefish` IN THE KERNEL,
  and, through `enc_refines` / `dec_refines`, for the model of crysp/threefish.py.

  The vectors are the all-zero key / tweak / plaintext answers of the Skein 1.3 reference implementation (NIST submission
  KAT_MCT, reproduced in the test suites of Botan and libtomcrypt); they were typed from those publications, not produced by
  the code or by the Spec.  They anchor `Spec.Threefish` (Tables 3 and 4, C240, the key schedule, MIX, the byte order) to
  the outside world: a transcription slip in the Spec that the code happened to share would not survive them.
  Every statement is a closed term decided by kernel evaluation (`decide +kernel`; axioms ⊆ {propext, Quot.sound}).
-/
import Proofs.C02_Threefish
namespace Proofs.C02_ThreefishKat
open Model Proofs.Lemmas.TfBytes

/-- bytes of a hex string (two digits per byte, lower or upper case); a malformed digit counts as 0 and a KAT with it fails -/
def hexVal (c : Char) : Nat :=
  if '0' ≤ c ∧ c ≤ '9' then c.toNat - 48 else if 'a' ≤ c ∧ c ≤ 'f' then c.toNat - 87
  else if 'A' ≤ c ∧ c ≤ 'F' then c.toNat - 55 else 0
def unhexL : List Char → List Nat
  | a :: b :: r => (16 * hexVal a + hexVal b) :: unhexL r
  | _ => []
def unhex (s : String) : List Nat := unhexL s.toList

def z (n : Nat) : List Nat := List.replicate n 0

def ct256 : List Nat := unhex "84da2a1f8beaee947066ae3e3103f1ad536db1f4a1192495116b9f3ce6133fd8"
def ct512 : List Nat := unhex
  "b1a2bbc6ef6025bc40eb3822161f36e375d1bb0aee3186fbd19e47c5d479947b7bc2f8586e35f0cff7e7f03084b0b7b1f1ab3961a580a3e97eb41ea14a6d7bbe"
def ct1024 : List Nat := unhex
  ("f05c3d0a3d05b304f785ddc7d1e036015c8aa76e2f217b06c6e1544c0bc1a90df0accb9473c24e0fd54fea68057f43329cb454761d6df5cf7b2e9b3614fbd5a2" ++
   "0b2e4760b40603540d82eabc5482c171c832afbe68406bc39500367a592943fa9a5b4a43286ca3c4cf46104b443143d560a4b230488311df4feef7e1dfe8391e")

/-- Threefish-256/512/1024 of the all-zero block under the all-zero key and tweak = the published ciphertexts (Spec, kernel) -/
theorem spec_kat_zero :
    Spec.Threefish.enc (z 32) (z 16) (z 32) = some ct256 ∧
    Spec.Threefish.enc (z 64) (z 16) (z 64) = some ct512 ∧
    Spec.Threefish.enc (z 128) (z 16) (z 128) = some ct1024 := by decide +kernel

/-- … and the Spec's decryption takes them back (kernel) -/
theorem spec_kat_zero_dec :
    Spec.Threefish.dec (z 32) (z 16) ct256 = some (z 32) ∧
    Spec.Threefish.dec (z 64) (z 16) ct512 = some (z 64) ∧
    Spec.Threefish.dec (z 128) (z 16) ct1024 = some (z 128) := by decide +kernel

theorem isBytes_of_all (s : List Nat) (h : s.all (fun b => decide (b < 256)) = true) : IsBytes s := by
  intro b hb; simpa using List.all_eq_true.1 h b hb

theorem kat_inputs_ok : IsBytes (z 16) ∧ IsBytes (z 32) ∧ IsBytes (z 64) ∧ IsBytes (z 128) ∧
    IsBytes ct256 ∧ IsBytes ct512 ∧ IsBytes ct1024 :=
  ⟨isBytes_of_all _ (by decide +kernel), isBytes_of_all _ (by decide +kernel), isBytes_of_all _ (by decide +kernel),
   isBytes_of_all _ (by decide +kernel), isBytes_of_all _ (by decide +kernel), isBytes_of_all _ (by decide +kernel),
   isBytes_of_all _ (by decide +kernel)⟩

/-- the model of crysp.threefish.Threefish(key,tweak).enc / .dec returns the published answers -/
theorem model_kat_zero :
    (Threefish.encrypt (z 32) (z 16) (z 32)).toOption = some ct256 ∧
    (Threefish.encrypt (z 64) (z 16) (z 64)).toOption = some ct512 ∧
    (Threefish.encrypt (z 128) (z 16) (z 128)).toOption = some ct1024 ∧
    (Threefish.decrypt (z 32) (z 16) ct256).toOption = some (z 32) ∧
    (Threefish.decrypt (z 64) (z 16) ct512).toOption = some (z 64) ∧
    (Threefish.decrypt (z 128) (z 16) ct1024).toOption = some (z 128) := by
  obtain ⟨h16, h32, h64, h128, c1, c2, c3⟩ := kat_inputs_ok
  obtain ⟨e1, e2, e3⟩ := spec_kat_zero
  obtain ⟨d1, d2, d3⟩ := spec_kat_zero_dec
  open Proofs.C02_Threefish in
  exact ⟨(enc_refines _ _ _ h32 h16 h32).trans e1, (enc_refines _ _ _ h64 h16 h64).trans e2,
    (enc_refines _ _ _ h128 h16 h128).trans e3, (dec_refines _ _ _ h32 h16 c1).trans d1,
    (dec_refines _ _ _ h64 h16 c2).trans d2, (dec_refines _ _ _ h128 h16 c3).trans d3⟩

end Proofs.C02_ThreefishKat
