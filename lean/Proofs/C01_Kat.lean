/-
  C01 (known answers for the algorithms without an offline oracle) — hashlib in this image has no MD4 and no SHA-0, so for these
  two the executable specification cannot be compared with an independent implementation in the correspondence stream.  Here the
  published answers hold for the Spec IN THE KERNEL and, through `hash_refines_omitted`, for the model of crysp/md.py, crysp/sha.py:
    MD4("") and MD4("abc")   — RFC 1320, appendix A.5 (test suite);
    SHA-0("abc")             — FIPS 180 (1993), appendix A;       SHA-1("abc") — FIPS 180-4 / RFC 3174, for contrast (the one-rotation difference).
  The digests were typed from the publications.  Closed terms decided by `decide +kernel` (axioms ⊆ {propext, Quot.sound}).
-/
import Proofs.C01
namespace Proofs.C01_Kat
open Model Proofs.Lemmas Proofs.Lemmas.Parse Proofs.Lemmas.EndToEnd Proofs.C01

def abc : List Spec.Byte := [0x61#8, 0x62#8, 0x63#8]

def md4Empty : List Nat := [0x31, 0xd6, 0xcf, 0xe0, 0xd1, 0x6a, 0xe9, 0x31, 0xb7, 0x3c, 0x59, 0xd7, 0xe0, 0xc0, 0x89, 0xc0]
def md4Abc : List Nat := [0xa4, 0x48, 0x01, 0x7a, 0xaf, 0x21, 0xd8, 0x52, 0x5f, 0xc1, 0x0a, 0xe8, 0x7a, 0xa6, 0x72, 0x9d]
def sha0Abc : List Nat := [0x01, 0x64, 0xb8, 0xa9, 0x14, 0xcd, 0x2a, 0x5e, 0x74, 0xc4, 0xf7, 0xff, 0x08, 0x2c, 0x4d, 0x97, 0xf1, 0xed, 0xf8, 0x80]
def sha1Abc : List Nat := [0xa9, 0x99, 0x3e, 0x36, 0x47, 0x06, 0x81, 0x6a, 0xba, 0x3e, 0x25, 0x71, 0x78, 0x50, 0xc2, 0x6c, 0x9c, 0xd0, 0xd8, 0x9d]

/-- the published digests, for the specification (kernel) -/
theorem spec_kat :
    toNatBytes (Spec.hash .md4 (Spec.bytesToBits [])) = md4Empty ∧
    toNatBytes (Spec.hash .md4 (Spec.bytesToBits abc)) = md4Abc ∧
    toNatBytes (Spec.hash .sha0 (Spec.bytesToBits abc)) = sha0Abc ∧
    toNatBytes (Spec.hash .sha1 (Spec.bytesToBits abc)) = sha1Abc := by decide +kernel

/-- the model of crysp's MD4() / SHA1(version 0) / SHA1() one-shot call returns the published digests -/
theorem model_kat :
    Model.hash .md4 (toNatBytes []) none = .ok md4Empty ∧
    Model.hash .md4 (toNatBytes abc) none = .ok md4Abc ∧
    Model.hash .sha0 (toNatBytes abc) none = .ok sha0Abc ∧
    Model.hash .sha1 (toNatBytes abc) none = .ok sha1Abc := by
  obtain ⟨k1, k2, k3, k4⟩ := spec_kat
  refine ⟨?_, ?_, ?_, ?_⟩
  · rw [hash_refines_omitted .md4 []]; exact congrArg _ k1
  · rw [hash_refines_omitted .md4 abc]; exact congrArg _ k2
  · rw [hash_refines_omitted .sha0 abc]; exact congrArg _ k3
  · rw [hash_refines_omitted .sha1 abc]; exact congrArg _ k4

end Proofs.C01_Kat
