/-
  C15 — CRC-32 equals the standard; CRC forging helpers hit any requested target.
  ONLY property theorems (and their non-vacuity examples) live here; helper lemmas are in Proofs/Lemmas/Crc*.lean.
-/
import Model.Crc
import Spec.Crc
namespace Proofs.C15
open Model Model.Crc

/-- the forward table read from the live module is `crc_table` of the polynomial read from the live module -/
theorem TABLE32_1_generated : TABLE32_1 = crcTable POLY32_1 := by decide +kernel

end Proofs.C15
