/-
  C15 — CRC-32 equals the standard; the generic table-driven CRC equals bit-serial polynomial division; the CRC
  forging helpers hit any requested target; the backward computation inverts the forward one.
  ONLY property theorems (and their non-vacuity examples) live here; helper lemmas are in Proofs/Lemmas/Crc*.lean.

  Byte strings are `List Nat` with every element < 256 (hypothesis `Bytes`).  A reflected polynomial of width w is a
  `Bits` value P with `P.WF` (ival < 2^size); the theorems need 8 ≤ P.size and nothing else about P.
-/
import Model.Crc
import Spec.Crc
import Proofs.Lemmas.CrcLin
import Proofs.Lemmas.CrcModel
import Proofs.Lemmas.Crc32
import Proofs.Lemmas.CrcBack
namespace Proofs.C15
open Model Model.Crc Proofs.Lemmas.CrcLin Proofs.Lemmas.CrcModel Proofs.Lemmas.Crc32
open Proofs.Lemmas.CrcBack (backLoop_preimage backLoop_reg_rev crcBackTable_eq backEntry_eq steps_bsteps bsteps_lt shl_top_lt)
open Spec.Crc (register)

/-- a byte string -/
def Bytes (data : List Nat) : Prop := ∀ b ∈ data, b < 256

/-! ## the objects read from the live module -/

/-- POLY32_1 / POLY32_1i of the current source are the CRC-32 polynomial 0xEDB88320 and x^-32 mod it, 32 bits wide -/
theorem POLY32_standard : POLY32_1 = ⟨0xEDB88320, 32⟩ ∧ POLY32_1i = ⟨0x5B358FD3, 32⟩ := ⟨poly_eq, polyi_eq⟩

/-- the forward table read from the live module is `crc_table` of the polynomial read from the live module
    (all 256 entries, sizes included; kernel enumeration) -/
theorem TABLE32_1_generated : TABLE32_1 = crcTable POLY32_1 := by decide +kernel

/-- likewise the backward table (a dict 0..255) is `crc_back_table(POLY32_1)` -/
theorem TABLE32_1b_generated : crcBackTable POLY32_1 = .ok TABLE32_1b := by
  unfold crcBackTable
  rw [if_neg (by decide)]
  exact congrArg Except.ok (by decide +kernel)

/-! ## generic CRC -/

/-- every entry of `crc_table(P)` is eight bit-steps of the bit-serial definition applied to its index (eight zero
    message bits), for every polynomial of every width ≥ 8 — symbolic in P -/
theorem table_entry (P : Bits) (hP : P.WF) (hw : 8 ≤ P.size) (n : Nat) (hn : n < 256) :
    (crcTable P)[n]? = some ⟨(List.replicate 8 false).foldl (Spec.Crc.bitIn P.ival) n, P.size⟩ := by
  have h := lookup_crcTable P n hn
  unfold lookup at h
  rw [foldl_zero_bits, ← (tableEntry_eq P hP hw n hn).1]
  cases hl : (crcTable P)[n]? with
  | none => rw [hl] at h; cases h
  | some e => rw [hl] at h; cases h; rfl

theorem table_length (P : Bits) : (crcTable P).length = 256 := by simp [crcTable]

/-- **crc_refines**: for every reflected polynomial P of every width ≥ 8, every initial value, every final xor value
    (absent, zero or not) and every byte string, the table-driven `crc(data, crc_table(P), init, final)` is the
    bit-serial division of Spec.Crc -/
theorem crc_refines (P : Bits) (hP : P.WF) (hw : 8 ≤ P.size) (init : Nat) (final : Option Nat)
    (data : List Nat) (hd : Bytes data) :
    Model.Crc.crc data (crcTable P) (init : Int) (final.map Int.ofNat)
      = .ok (Spec.Crc.crc P.ival P.size init (final.getD 0) data) := by
  cases final with
  | none => simpa [Spec.Crc.crc] using crc_register P hP hw init data hd
  | some f => simpa [Spec.Crc.crc] using crc_final P hP hw init f data hd

/-- **crc32_spec**: `crc32` is the ISO-HDLC/zlib CRC-32 on every byte string -/
theorem crc32_spec (data : List Nat) (hd : Bytes data) : Model.Crc.crc32 data = .ok (Spec.Crc.crc32 data) := by
  rw [crc32_eq data hd]; rfl

/-! ## backward computation -/

/-- **back_inverts_forward**: for every start register r0, running `crc_back_pos` from the value the forward
    computation reaches over `data[pos:]` (final xor applied) returns exactly r0 -/
theorem back_inverts_forward (data : List Nat) (hd : Bytes data) (pos : Nat) (hpos : pos < data.length)
    (r0 : Nat) (hr : r0 < 2 ^ 32) :
    crc32BackPos data (pos : Int) ((Spec.Crc.register 0xEDB88320 r0 (data.drop pos) ^^^ 0xffffffff : Nat) : Int)
      = .ok (some r0) := by
  have hdd : ∀ b ∈ data.drop pos, b < 256 := fun b hb => hd b (List.mem_of_mem_drop hb)
  have hreg := reg32_lt r0 (data.drop pos) hdd hr
  unfold crc32BackPos
  rw [crcBackPos_eq data pos _ hpos (Nat.xor_lt_two_pow hreg (by decide))]
  have : M32 ^^^ (reg32 r0 (data.drop pos) ^^^ M32) = reg32 r0 (data.drop pos) := by
    calc _ = reg32 r0 (data.drop pos) ^^^ (M32 ^^^ M32) := by ac_rfl
      _ = _ := by simp
  show (backLoop TABLE32_1b 32 ⟨M32 ^^^ (reg32 r0 (data.drop pos) ^^^ M32), 32⟩ _ >>= _) = _
  rw [this, backLoop_reg _ r0 hdd hr]; rfl

/-- in the code's own terms: backward from `crc32(data)` to `pos` gives the forward CRC register of `data[:pos]` -/
theorem back_of_crc32 (data : List Nat) (hd : Bytes data) (pos : Nat) (hpos : pos < data.length) :
    ∃ c f, crc32 data = .ok c ∧ Model.Crc.crc (data.take pos) TABLE32_1 0xffffffff = .ok f
      ∧ crc32BackPos data (pos : Int) (c : Int) = .ok (some f) := by
  have hdt : ∀ b ∈ data.take pos, b < 256 := fun b hb => hd b (List.mem_of_mem_take hb)
  refine ⟨_, _, crc32_eq data hd, crc_T32 _ hdt, ?_⟩
  have hsplit : reg32 M32 data = reg32 (reg32 M32 (data.take pos)) (data.drop pos) := by
    unfold reg32
    rw [← register_append, List.take_append_drop]
  rw [hsplit]
  exact back_inverts_forward data hd pos hpos _ (reg32_lt _ _ hdt (by decide))

/-- **forward_inverts_back**: for every 32-bit value c, `crc_back_pos` returns a 32-bit register from which the
    forward computation over `data[pos:]` (final xor applied) gives c -/
theorem forward_inverts_back (data : List Nat) (hd : Bytes data) (pos : Nat) (hpos : pos < data.length)
    (c : Nat) (hc : c < 2 ^ 32) :
    ∃ R, crc32BackPos data (pos : Int) (c : Int) = .ok (some R) ∧ R < 2 ^ 32
      ∧ Spec.Crc.register 0xEDB88320 R (data.drop pos) ^^^ 0xffffffff = c := by
  have hdd : ∀ b ∈ (data.drop pos).reverse, b < 256 :=
    fun b hb => hd b (List.mem_of_mem_drop (List.mem_reverse.1 hb))
  obtain ⟨R, hR, hlt, hreg⟩ := backLoop_preimage _ (M32 ^^^ c) hdd (xor_M32_lt c hc)
  refine ⟨R, ?_, hlt, ?_⟩
  · unfold crc32BackPos
    rw [crcBackPos_eq data pos c hpos hc, hR]; rfl
  · rw [List.reverse_reverse] at hreg
    show reg32 R (data.drop pos) ^^^ M32 = c
    rw [hreg]
    calc _ = c ^^^ (M32 ^^^ M32) := by ac_rfl
      _ = c := by simp

/-! ## backward computation, every polynomial -/

/-- every entry of `crc_back_table(P)` is the 8-step preimage of its index placed in the top byte: eight bit-steps of
    the bit-serial definition (zero message bits) applied to entry n give `n << (w-8)` — for every reflected polynomial
    whose top bit (the x^0 coefficient) is set, every width ≥ 8 -/
theorem back_table_entry (P : Bits) (hP : P.WF) (hw : 8 ≤ P.size) (htop : P.ival.testBit (P.size - 1) = true)
    (n : Nat) (hn : n < 256) :
    ∃ tb e, crcBackTable P = .ok tb ∧ tb.length = 256 ∧ tb[n]? = some ⟨e, P.size⟩ ∧ e < 2 ^ P.size
      ∧ (List.replicate 8 false).foldl (Spec.Crc.bitIn P.ival) e = n <<< (P.size - 8) := by
  refine ⟨_, Proofs.Lemmas.CrcBack.bsteps P.ival P.size 8 (n <<< (P.size - 8)), crcBackTable_eq P hw, by simp, ?_, ?_, ?_⟩
  · rw [List.getElem?_map, List.getElem?_range hn]
    simp only [Option.map_some]
    rw [backEntry_eq P hw n hn]
  · exact bsteps_lt _ _ 8 _ (by omega) (shl_top_lt n P.size hn hw)
  · rw [foldl_zero_bits]
    exact steps_bsteps P.ival P.size (by omega) hP htop 8 _ (shl_top_lt n P.size hn hw)

/-- **back_inverts_forward, generic**: for every such polynomial, every final xor value, every start register r0 and
    every position, `crc_back_pos(data,pos,crc_back_table(P),Xfinal,c)` run from the value c the forward computation
    reaches over `data[pos:]` returns exactly r0 -/
theorem back_inverts_forward_generic (P : Bits) (hP : P.WF) (hw : 8 ≤ P.size)
    (htop : P.ival.testBit (P.size - 1) = true) (data : List Nat) (hd : Bytes data) (pos : Nat)
    (hpos : pos < data.length) (xfinal : Nat) (hx : xfinal < 2 ^ P.size) (r0 : Nat) (hr : r0 < 2 ^ P.size) :
    ∃ tb, crcBackTable P = .ok tb ∧
      crcBackPos data (pos : Int) tb (xfinal : Int)
        ((Spec.Crc.register P.ival r0 (data.drop pos) ^^^ xfinal : Nat) : Int) = .ok (some r0) := by
  refine ⟨_, crcBackTable_eq P hw, ?_⟩
  have hdd : ∀ b ∈ data.drop pos, b < 256 := fun b hb => hd b (List.mem_of_mem_drop hb)
  have hreg := (fwdLoop_eq P hP hw (data.drop pos) r0 hdd hr).2
  rw [Proofs.Lemmas.CrcBack.crcBackPos_eq P hw data pos xfinal _ hpos (Nat.xor_lt_two_pow hreg hx)]
  have : (xfinal % 2 ^ P.size) ^^^ (register P.ival r0 (data.drop pos) ^^^ xfinal)
      = register P.ival r0 (data.drop pos) := by
    rw [Nat.mod_eq_of_lt hx]
    calc _ = register P.ival r0 (data.drop pos) ^^^ (xfinal ^^^ xfinal) := by ac_rfl
      _ = _ := by simp
  rw [this]
  have h := backLoop_reg_rev P hP hw htop (data.drop pos).reverse r0
    (fun b hb => hdd b (List.mem_reverse.1 hb)) hr
  rw [List.reverse_reverse] at h
  rw [h]; rfl

/-- **forward_inverts_back, generic**: for every w-bit value c, `crc_back_pos` returns a w-bit register from which the
    forward computation over `data[pos:]` (final xor applied) gives c -/
theorem forward_inverts_back_generic (P : Bits) (hP : P.WF) (hw : 8 ≤ P.size)
    (htop : P.ival.testBit (P.size - 1) = true) (data : List Nat) (hd : Bytes data) (pos : Nat)
    (hpos : pos < data.length) (xfinal : Nat) (hx : xfinal < 2 ^ P.size) (c : Nat) (hc : c < 2 ^ P.size) :
    ∃ tb R, crcBackTable P = .ok tb ∧ crcBackPos data (pos : Int) tb (xfinal : Int) (c : Int) = .ok (some R)
      ∧ R < 2 ^ P.size ∧ Spec.Crc.register P.ival R (data.drop pos) ^^^ xfinal = c := by
  have hdd : ∀ b ∈ (data.drop pos).reverse, b < 256 :=
    fun b hb => hd b (List.mem_of_mem_drop (List.mem_reverse.1 hb))
  have hstart : (xfinal % 2 ^ P.size) ^^^ c < 2 ^ P.size :=
    Nat.xor_lt_two_pow (Nat.mod_lt _ (Nat.two_pow_pos _)) hc
  obtain ⟨R, hR, hlt, hreg⟩ := backLoop_preimage P hP hw htop _ _ hdd hstart
  refine ⟨_, R, crcBackTable_eq P hw, ?_, hlt, ?_⟩
  · rw [Proofs.Lemmas.CrcBack.crcBackPos_eq P hw data pos xfinal c hpos hc, hR]; rfl
  · rw [List.reverse_reverse] at hreg
    rw [hreg, Nat.mod_eq_of_lt hx]
    calc _ = c ^^^ (xfinal ^^^ xfinal) := by ac_rfl
      _ = c := by simp

/-! ## forging helpers -/

/-- **crc32_fix_hits_target**: for every data of at least 4 bytes and every 32-bit target, `crc32_fix` succeeds,
    the result has the same length, is a byte string, agrees with the input outside the last four bytes, and its
    CRC-32 is the target -/
theorem crc32_fix_hits_target (data : List Nat) (hd : Bytes data) (hlen : 4 ≤ data.length)
    (t : Nat) (ht : t < 2 ^ 32) :
    ∃ out, crc32Fix data t = .ok out ∧ out.length = data.length ∧ Bytes out
      ∧ out.take (data.length - 4) = data.take (data.length - 4)
      ∧ crc32 out = .ok t := by
  have hpre : ∀ b ∈ dropLast4 data, b < 256 := fun b hb => hd b (List.mem_of_mem_take hb)
  have hc := reg32_lt M32 (dropLast4 data) hpre (by decide)
  have ha : fixLoop P32 Pi32 32 0 (t ^^^ M32) < 2 ^ 32 :=
    fixLoop_lt P32 Pi32 32 (by decide) (by decide) 32 0 _ (by decide)
  have hw : fixLoop P32 Pi32 32 0 (t ^^^ M32) ^^^ reg32 M32 (dropLast4 data) < 2 ^ 32 := Nat.xor_lt_two_pow ha hc
  have hlenpre : (dropLast4 data).length = data.length - 4 := by
    unfold dropLast4; rw [List.length_take]; omega
  have hle4 : ∀ x, (Py.leBytes 4 x).length = 4 := by intro x; simp [Py.leBytes]
  have hleb : ∀ x, ∀ b ∈ Py.leBytes 4 x, b < 256 := by
    intro x b hb; simp [Py.leBytes] at hb; omega
  refine ⟨dropLast4 data ++ Py.leBytes 4 (fixLoop P32 Pi32 32 0 (t ^^^ M32) ^^^ reg32 M32 (dropLast4 data)), ?_, ?_, ?_, ?_, ?_⟩
  · unfold crc32Fix
    rw [crc_T32 _ hpre, poly_eq, polyi_eq]
    simp only [bind, Except.bind, packI]
    rw [if_pos hw]; rfl
  · rw [List.length_append, hlenpre, hle4]; omega
  · intro b hb
    rcases List.mem_append.1 hb with h | h
    · exact hpre b h
    · exact hleb _ b h
  · rw [List.take_append_of_le_length (by omega)]
    unfold dropLast4; rw [List.take_take]; simp
  · have hout : ∀ b ∈ dropLast4 data ++ Py.leBytes 4 (fixLoop P32 Pi32 32 0 (t ^^^ M32) ^^^ reg32 M32 (dropLast4 data)), b < 256 := by
      intro b hb
      rcases List.mem_append.1 hb with h | h
      · exact hpre b h
      · exact hleb _ b h
    rw [crc32_eq _ hout]
    unfold reg32
    rw [register_append, register_leBytes P32 Py.leBytes (fun _ => rfl) (fun _ _ => rfl) 4 _ _ hw]
    have hx : register P32 M32 (dropLast4 data)
        ^^^ (fixLoop P32 Pi32 32 0 (t ^^^ M32) ^^^ register P32 M32 (dropLast4 data))
        = fixLoop P32 Pi32 32 0 (t ^^^ M32) := by
      calc _ = fixLoop P32 Pi32 32 0 (t ^^^ M32)
                ^^^ (register P32 M32 (dropLast4 data) ^^^ register P32 M32 (dropLast4 data)) := by ac_rfl
        _ = _ := by simp
    rw [hx]
    have := fixMap_id (t ^^^ M32) (Nat.xor_lt_two_pow ht (by decide))
    unfold fixMap at this
    show Except.ok (steps P32 (8 * 4) _ ^^^ M32) = _
    rw [this]
    congr 1
    calc _ = t ^^^ (M32 ^^^ M32) := by ac_rfl
      _ = t := by simp

/-- **crc32_fix_pos_hits_target**: for every data of at least 4 bytes, every position 0 ≤ pos ≤ |data|−4 and every
    32-bit target, `crc32_fix_pos` succeeds, keeps the length, returns a byte string that agrees with the input
    outside `[pos, pos+4)`, and whose CRC-32 is the target -/
theorem crc32_fix_pos_hits_target (data : List Nat) (hd : Bytes data) (hlen : 4 ≤ data.length)
    (pos : Nat) (hpos : pos ≤ data.length - 4) (t : Nat) (ht : t < 2 ^ 32) :
    ∃ out, crc32FixPos data pos t = .ok out ∧ out.length = data.length ∧ Bytes out
      ∧ out.take pos = data.take pos ∧ out.drop (pos + 4) = data.drop (pos + 4)
      ∧ crc32 out = .ok t := by
  have hpre : ∀ b ∈ data.take pos, b < 256 := fun b hb => hd b (List.mem_of_mem_take hb)
  have hsuf : ∀ b ∈ data.drop (pos + 4), b < 256 := fun b hb => hd b (List.mem_of_mem_drop hb)
  have hA := reg32_lt M32 (data.take pos) hpre (by decide)
  have hle4 : ∀ x, (Py.leBytes 4 x).length = 4 := by intro x; simp [Py.leBytes]
  have hleb : ∀ x, ∀ b ∈ Py.leBytes 4 x, b < 256 := by
    intro x b hb; simp [Py.leBytes] at hb; omega
  -- the backward pass over  pack(c_fw) ++ data[pos+4:]
  have hmid : ∀ b ∈ Py.leBytes 4 (reg32 M32 (data.take pos)) ++ data.drop (pos + 4), b < 256 := by
    intro b hb
    rcases List.mem_append.1 hb with h | h
    · exact hleb _ b h
    · exact hsuf b h
  have hmidlen : 0 < (Py.leBytes 4 (reg32 M32 (data.take pos)) ++ data.drop (pos + 4)).length := by
    rw [List.length_append, hle4]; omega
  obtain ⟨R, hR, hRlt, hRreg⟩ := forward_inverts_back _ hmid 0 hmidlen t ht
  rw [List.drop_zero] at hRreg
  have hout : ∀ b ∈ data.take pos ++ Py.leBytes 4 R ++ data.drop (pos + 4), b < 256 := by
    intro b hb
    rcases List.mem_append.1 hb with h | h
    · rcases List.mem_append.1 h with h | h
      · exact hpre b h
      · exact hleb _ b h
    · exact hsuf b h
  refine ⟨data.take pos ++ Py.leBytes 4 R ++ data.drop (pos + 4), ?_, ?_, hout, ?_, ?_, ?_⟩
  · unfold crc32FixPos
    rw [crc_T32 _ hpre]
    simp only [bind, Except.bind, packI]
    rw [if_pos hA]
    simp only []
    have h0 : ((0 : Nat) : Int) = 0 := rfl
    rw [← h0, hR]
    simp only [if_pos hRlt]; rfl
  · simp only [List.length_append, List.length_take, List.length_drop, hle4]; omega
  · rw [List.append_assoc, List.take_append_of_le_length (by rw [List.length_take]; omega), List.take_take]
    simp
  · have hl : (data.take pos ++ Py.leBytes 4 R).length = pos + 4 := by
      rw [List.length_append, List.length_take, hle4]; omega
    rw [List.drop_append_of_le_length (by omega), ← hl, List.drop_length, List.nil_append]
  · rw [crc32_eq _ hout]
    unfold reg32
    rw [register_append, register_append,
      register_leBytes P32 Py.leBytes (fun _ => rfl) (fun _ _ => rfl) 4 _ _ hRlt]
    rw [register_append,
      register_leBytes P32 Py.leBytes (fun _ => rfl) (fun _ _ => rfl) 4 _ _ hA] at hRreg
    rw [Nat.xor_comm (register P32 M32 (data.take pos)) R]
    exact congrArg Except.ok hRreg

/-! ## non-vacuity -/

example : Bytes [0x31, 0x32, 0x33, 0x34, 0x35, 0x36, 0x37, 0x38, 0x39] := by unfold Bytes; decide
example : (crc32 [0x31, 0x32, 0x33, 0x34, 0x35, 0x36, 0x37, 0x38, 0x39]).toOption = some 0xCBF43926 := by decide +kernel
example : (⟨0xA001, 16⟩ : Bits).WF ∧ 8 ≤ (⟨0xA001, 16⟩ : Bits).size ∧ (0xA001 : Nat).testBit (16 - 1) = true := by decide
example : (crc32Fix [1, 2, 3, 4, 5, 6] 0xdeadbeef).toOption = some [1, 2, 81, 154, 232, 176] := by decide +kernel
example : (crc32FixPos [1, 2, 3, 4, 5, 6] 1 0xdeadbeef).toOption = some [1, 61, 108, 183, 142, 6] := by decide +kernel
example : (crc32 [1, 61, 108, 183, 142, 6]).toOption = some 0xdeadbeef := by decide +kernel

end Proofs.C15
