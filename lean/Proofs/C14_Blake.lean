/-
  C14 (BLAKE / BLAKE2 part) — hashing a message piecewise gives the same digest as hashing it at once.
  ONLY property theorems (and their non-vacuity examples) live here; helper lemmas are in Proofs/Lemmas.

  `Blake.feed c s pieces` is `for p in pieces: h.update(p)`; `Blake.update c s final none true` is
  `h.update(final, padding=True)`; the one-shot call `h(M)` is `update (initstate …) M none true`.  A state is the whole
  mutable part of the object (chain value, salt, pad state), so equal states and results = equal digests and the same
  object afterwards.
-/
import Proofs.Lemmas.BlakeStream
import Proofs.Lemmas.BlakeStreamEmpty
import Proofs.Lemmas.BlakeFull
import Proofs.Lemmas.StreamingBitlen
namespace Proofs.C14_Blake
open Model Proofs.Lemmas Proofs.Lemmas.BlakeStream

/-
  The property text: for every cut of M into block-aligned pieces followed by a final piece of ANY length (the empty one
  included), feeding the pieces and finishing with padding equals the one-shot call, and the bit counter after each piece
  is the number of bits fed so far.
  BLAKE: proved below in full (`blake_pieces`, `blake_pieces_call`, `blake_bitcnt_after_pieces`): empty non-final pieces,
  multi-block pieces, any number of pieces, an empty or non-empty final piece, any starting state with padflag clear — in
  particular any preset counter — are inside the ∀.  The empty final piece after data rests on C09's
  `continuation_empty` (the code behaves so since the padding fix cb4f95a: the padding-only block reports counter 0).
  BLAKE2: the empty final piece after data is FALSE for the code (known finding C14-blake2-empty-final), so
  `blake2_pieces_partial` keeps the hypothesis that the final piece is not empty.
-/

/-- BLAKE, digest and object state: pieces then ANY final piece (the empty one included) = one-shot on the concatenation.
    (`hby`: the pieces are byte strings.) -/
theorem blake_pieces (c : Blake.Cfg)
    (hc : c = Blake.blake224 ∨ c = Blake.blake256 ∨ c = Blake.blake384 ∨ c = Blake.blake512)
    (s : Blake.State) (hs : s.pad.padflag = false) (pieces : List (List Nat))
    (hal : ∀ p ∈ pieces, p.length % (c.blocksize / 8) = 0) (hby : ∀ p ∈ pieces, ∀ b ∈ p, b < 256) (final : List Nat) :
    Blake.update c (Blake.feed c s pieces) final none true = Blake.update c s (pieces.flatten ++ final) none true :=
  BlakeStreamEmpty.blake_feed_any c hc pieces hal hby final s hs

/-- the same for a non-empty final piece needs no assumption on the list elements -/
theorem blake_pieces_nonempty_final (c : Blake.Cfg)
    (hc : c = Blake.blake224 ∨ c = Blake.blake256 ∨ c = Blake.blake384 ∨ c = Blake.blake512)
    (s : Blake.State) (hs : s.pad.padflag = false) (pieces : List (List Nat))
    (hal : ∀ p ∈ pieces, p.length % (c.blocksize / 8) = 0) (final : List Nat) (hf : final ≠ []) :
    Blake.update c (Blake.feed c s pieces) final none true = Blake.update c s (pieces.flatten ++ final) none true :=
  (blake_feed c hc pieces hal final hf s hs).1

/-- BLAKE, the one-shot call itself: `init; update p1; …; update pk; update(final,padding)` returns `h(M, salt)`,
    for every final piece, the empty one included -/
theorem blake_pieces_call (c : Blake.Cfg)
    (hc : c = Blake.blake224 ∨ c = Blake.blake256 ∨ c = Blake.blake384 ∨ c = Blake.blake512)
    (salt : Nat) (pieces : List (List Nat))
    (hal : ∀ p ∈ pieces, p.length % (c.blocksize / 8) = 0) (hby : ∀ p ∈ pieces, ∀ b ∈ p, b < 256) (final : List Nat) :
    (Blake.update c (Blake.feed c (Blake.initstate c salt) pieces) final none true).2
      = Blake.call c (pieces.flatten ++ final) salt none := by
  unfold Blake.call
  rw [blake_pieces c hc _ rfl pieces hal hby final]

/-- BLAKE, against the specification: streaming any block-aligned cut of a byte string, with any final piece, returns
    the digest the BLAKE submission defines for the whole string (C11 `blake_refines` composed with `blake_pieces_call`) -/
theorem blake_pieces_spec {c : Blake.Cfg} {V : Spec.Blake.Variant} (h : BlakeEnd.Pair c V)
    (salt : Nat) (pieces : List (List Nat))
    (hal : ∀ p ∈ pieces, p.length % (c.blocksize / 8) = 0) (hby : ∀ p ∈ pieces, ∀ b ∈ p, b < 256)
    (final : List Nat) (hbf : ∀ b ∈ final, b < 256) :
    (Blake.update c (Blake.feed c (Blake.initstate c salt) pieces) final none true).2
      = .ok (Spec.Blake.hash V (pieces.flatten ++ final) (8 * (pieces.flatten ++ final).length) salt) := by
  have hc : c = Blake.blake224 ∨ c = Blake.blake256 ∨ c = Blake.blake384 ∨ c = Blake.blake512 := by
    rcases h with ⟨rfl, _⟩ | ⟨rfl, _⟩ | ⟨rfl, _⟩ | ⟨rfl, _⟩ <;> simp
  have hM : ∀ b ∈ pieces.flatten ++ final, b < 256 := by
    intro b hb
    rcases List.mem_append.mp hb with hb | hb
    · obtain ⟨p, hp, hbp⟩ := List.mem_flatten.mp hb
      exact hby p hp b hbp
    · exact hbf b hb
  rw [blake_pieces_call c hc salt pieces hal hby final,
    BlakeEnd.blake_call_eq h _ salt none (Nat.le_refl _), BlakeFull.fold_eq_finish h _ hM none (Nat.le_refl _)]
  rfl

/-- BLAKE: the bit counter after the pieces is the number of bits fed so far (and the object still accepts data);
    every prefix of the piece list is itself a piece list, so this is the counter after each piece -/
theorem blake_bitcnt_after_pieces (c : Blake.Cfg)
    (hc : c = Blake.blake224 ∨ c = Blake.blake256 ∨ c = Blake.blake384 ∨ c = Blake.blake512)
    (s : Blake.State) (hs : s.pad.padflag = false) (pieces : List (List Nat))
    (hal : ∀ p ∈ pieces, p.length % (c.blocksize / 8) = 0) :
    (Blake.feed c s pieces).pad = { s.pad with bitcnt := s.pad.bitcnt + 8 * pieces.flatten.length } :=
  (blake_feed c hc pieces hal [0] (by simp) s hs).2

/-- BLAKE, a non-final piece given with its bit length (readinto-style buffers): `update(buf, bitlen=L)` with L whole blocks
    and L ≤ 8|buf| — L = 0 on a NON-EMPTY buffer and L = 8n on a buffer longer than n bytes included — is, for the new
    object state and the returned value, `update(buf[:L/8])`; so `blake_pieces` / `blake_bitcnt_after_pieces` hold for
    pieces given with bit lengths, on the first L bits of every piece -/
theorem blake_update_bitlen (c : Blake.Cfg)
    (hc : c = Blake.blake224 ∨ c = Blake.blake256 ∨ c = Blake.blake384 ∨ c = Blake.blake512)
    (s : Blake.State) (m : List Nat) (L : Nat) (hL : L ≤ 8 * m.length) (hmul : L % c.blocksize = 0) :
    Blake.update c s m (some L) false = Blake.update c s (m.take (L / 8)) none false := by
  unfold Blake.update
  rcases hc with rfl | rfl | rfl | rfl
  · rw [StreamingBitlen.iterblocks_bitlen_nonfinal (Padder.blakeP Blake.blake224.size) 64 rfl (by decide) s.pad m L hL hmul]
  · rw [StreamingBitlen.iterblocks_bitlen_nonfinal (Padder.blakeP Blake.blake256.size) 64 rfl (by decide) s.pad m L hL hmul]
  · rw [StreamingBitlen.iterblocks_bitlen_nonfinal (Padder.blakeP Blake.blake384.size) 128 rfl (by decide) s.pad m L hL hmul]
  · rw [StreamingBitlen.iterblocks_bitlen_nonfinal (Padder.blakeP Blake.blake512.size) 128 rfl (by decide) s.pad m L hL hmul]

/-- `initstate(salt)` does not look at the object it is called on: after an abandoned stream the counter is 0 and no
    padding is recorded, so the theorems above (stated from `Blake.initstate c salt`) hold after re-initialising an object
    with any history (tied to the code by the `blakeseq.h … init …` lines) -/
theorem blake_initstate_forgets (c : Blake.Cfg) (salt : Nat) :
    (Blake.initstate c salt).pad = { padflag := false, bitcnt := 0, padcnt := 0 } := rfl

/-- **initstate() after any earlier life is unsalted**: `h.initstate()` with no argument is `initstate(salt=0)` — the salt
    of an earlier salted call / stream is not an input of `Blake.initstate` — so the pieces fed after it, finished, give the
    UNSALTED one-shot digest `h(M)`, for every final piece (the `… call … s=x | init | upd … | fin …` lives of the
    `blakeseqs` lines; several objects alive at the same time: `Proofs.C14.siblings_do_not_interfere`) -/
theorem blake_pieces_after_default_init (c : Blake.Cfg)
    (hc : c = Blake.blake224 ∨ c = Blake.blake256 ∨ c = Blake.blake384 ∨ c = Blake.blake512)
    (pieces : List (List Nat))
    (hal : ∀ p ∈ pieces, p.length % (c.blocksize / 8) = 0) (hby : ∀ p ∈ pieces, ∀ b ∈ p, b < 256) (final : List Nat) :
    (Blake.initstate c).salt = Blake.saltWords c.wsize 0 ∧
    (Blake.update c (Blake.feed c (Blake.initstate c) pieces) final none true).2
      = Blake.call c (pieces.flatten ++ final) :=
  ⟨rfl, blake_pieces_call c hc 0 pieces hal hby final⟩

/-- BLAKE2: `initstate()` with no keyword is the state of the default parameter block (digest length size/8, no salt, no
    personalisation, sequential mode), whatever digest length / salt / tree parameters an earlier call or stream on the
    object used: they are not inputs of `Blake2.initstate`; stated as: the one-shot call with no keyword is
    `update(initstate(), M, padding)` -/
theorem blake2_call_default_init (c : Blake.Cfg) (M : List Nat) :
    Blake2.call c M = (Blake2.initstate c {}).bind fun s => (Blake2.update c s M true).2 := rfl

/-- BLAKE2, digest and object state: pieces then a non-empty final piece = one-shot on the concatenation.
    (`_partial`: the property also quantifies over the empty final piece, for which the code fails — known finding.) -/
theorem blake2_pieces_partial (c : Blake.Cfg) (hc : c = Blake2.blake2b ∨ c = Blake2.blake2s)
    (s : Blake2.State) (hs : s.pad.padflag = false) (pieces : List (List Nat))
    (hal : ∀ p ∈ pieces, p.length % (c.blocksize / 8) = 0) (final : List Nat) (hf : final ≠ []) :
    Blake2.update c (Blake2.feed c s pieces) final true = Blake2.update c s (pieces.flatten ++ final) true :=
  (blake2_feed c hc pieces hal final hf s hs).1

/-- BLAKE2: the bit counter after the pieces is the number of bits fed so far -/
theorem blake2_bitcnt_after_pieces (c : Blake.Cfg) (hc : c = Blake2.blake2b ∨ c = Blake2.blake2s)
    (s : Blake2.State) (hs : s.pad.padflag = false) (pieces : List (List Nat))
    (hal : ∀ p ∈ pieces, p.length % (c.blocksize / 8) = 0) :
    (Blake2.feed c s pieces).pad = { s.pad with bitcnt := s.pad.bitcnt + 8 * pieces.flatten.length } :=
  (blake2_feed c hc pieces hal [0] (by simp) s hs).2

/-- BLAKE2: a non-final update sets the finalization flag on none of its blocks, the final update on its last block
    only — so over a whole streamed message the flag appears exactly once, on the last block of the final call -/
theorem blake2_final_flag_only_in_final_call (c : Blake.Cfg) (pad : PadState) (M : List Nat) :
    (∀ y ∈ Blake2.trace c pad M false, y.2.2 = false) ∧
    (Blake2.trace c pad M true).map (·.2.2) =
      (List.range (Blake2.trace c pad M true).length).map (fun i => i + 1 == (Blake2.trace c pad M true).length) := by
  constructor
  · intro y hy
    have h := BlakeTrace.trace_flags c pad M false
    have hm : y.2.2 ∈ (Blake2.trace c pad M false).map (·.2.2) := List.mem_map.mpr ⟨y, hy, rfl⟩
    rw [h] at hm
    obtain ⟨i, _, hi⟩ := List.mem_map.mp hm
    simpa using hi.symm
  · rw [BlakeTrace.trace_flags, BlakeTrace.trace_length]
    simp

/-- an empty non-final piece changes nothing (BLAKE and BLAKE2) -/
theorem update_empty_piece (c : Blake.Cfg) (s : Blake.State) (s2 : Blake2.State)
    (h : s.pad.padflag = false) (h2 : s2.pad.padflag = false) :
    (Blake.update c s [] none false).1 = s ∧ (Blake2.update c s2 [] false).1 = s2 :=
  ⟨blake_update_nil c s h, blake2_update_nil c s2 h2⟩

/-- non-vacuity: two aligned pieces (one of them two blocks long, one empty) and a short final piece -/
example : Blake.blake256.blocksize / 8 = 64 := by decide
example : ∃ pieces : List (List Nat), (∀ p ∈ pieces, p.length % 64 = 0) ∧
    pieces.flatten.length = 192 ∧ ([] : List Nat) ∈ pieces :=
  ⟨[List.replicate 128 7, [], List.replicate 64 9], by
    intro p hp
    simp only [List.mem_cons, List.mem_nil_iff, or_false] at hp
    rcases hp with rfl | rfl | rfl <;> simp only [List.length_replicate, List.length_nil],
   by simp only [List.flatten_cons, List.flatten_nil, List.length_append, List.length_replicate, List.length_nil],
   by simp only [List.mem_cons, true_or, or_true]⟩

/-- non-vacuity of the empty-final-piece case: one block of data, then `update(b'',padding=True)` (evaluated) -/
example : (Blake.update Blake.blake256 (Blake.feed Blake.blake256 (Blake.initstate Blake.blake256 0) [List.replicate 64 0x61]) [] none true).2
    = Blake.call Blake.blake256 (List.replicate 64 0x61) 0 none :=
  blake_pieces_call Blake.blake256 (Or.inr (Or.inl rfl)) 0 [List.replicate 64 0x61]
    (by intro p hp; simp only [List.mem_singleton] at hp; subst hp; rfl)
    (by intro p hp b hb; simp only [List.mem_singleton] at hp; subst hp; rw [List.mem_replicate] at hb; omega) []

end Proofs.C14_Blake
