/-
  C14 (BLAKE / BLAKE2 part) — hashing a message piecewise gives the same digest as hashing it at once.
  ONLY property theorems (and their non-vacuity examples) live here.
-/
import Model.Blake
namespace Proofs.C14_Blake
open Model

/-- an empty non-final piece changes nothing (BLAKE) -/
theorem blake_update_empty (c : Blake.Cfg) (s : Blake.State) (h : s.pad.padflag = false) :
    (Blake.update c s [] none false).1 = s := by
  simp [Blake.update, Padder.iterblocks, h]

end Proofs.C14_Blake
