/-
  C04 / FIPS 202 — the bit-level reading of the standard, PROVED instead of cited.

  Spec.Fips202 transcribes FIPS 202 literally (bit strings; the state array of bits A[x,y,z]; Algorithms 1–11 as
  the standard words them).  Spec.Keccak — the specification the C04 theorems about the code are stated against —
  works on 25 lanes of w bits.  Here: under the lane/bit correspondence
        `lanes w A` = the state whose lane (x,y) has A[x,y,z] as its bit z        (0 ≤ x,y < 5, 0 ≤ z < w)
  every step mapping of Spec.Fips202 is the lane-level step mapping of Spec.Keccak, for EVERY lane size w ≥ 1 (in
  particular w = 2^ℓ, ℓ = 0 … 6), every state and every round index; hence Rnd, KECCAK-p[b,nr], KECCAK-f[b], rc, RC,
  pad10*1, SPONGE, h2b/b2h, KECCAK[c], SHA3-n and SHAKEn agree; and, composed with `Proofs.C04.sponge_refines`,
  `sha3_refines`, `shake_refines`, the MODEL of the code equals FIPS 202 as literally transcribed
  (`sponge_refines_fips202`, `sha3_refines_fips202`, `shake_refines_fips202`).

  ONLY property theorems (and examples) live here; helper lemmas are in Proofs/Lemmas/Fips202*.lean.
  What remains trusted is that Spec/Fips202.lean is a faithful transcription of the printed standard.
-/
import Model.Keccak
import Model.Sha3
import Spec.Keccak
import Spec.Fips202
import Spec.Fips202Eval
import Proofs.C04
import Proofs.C04.SpecKat
import Proofs.Lemmas.Fips202Step
import Proofs.Lemmas.Fips202Perm
import Proofs.Lemmas.Fips202Sponge
namespace Proofs.C04_Fips202
open Model Model.Keccak Spec.Fips202
open Proofs.Lemmas.KeccakPad Proofs.Lemmas.KeccakSponge
open Proofs.Lemmas.Fips202Step Proofs.Lemmas.Fips202Perm Proofs.Lemmas.Fips202Sponge

/-! ### the correspondence is a bijection between bits and lanes -/

/-- bit z of lane (x,y) of `lanes w A` is A[x,y,z] (so `lanes w` loses nothing on 0 ≤ x,y < 5, 0 ≤ z < w) … -/
theorem lanes_bit (w : Nat) (A : StateArray) (x y z : Nat) (hx : x < 5) (hy : y < 5) (hz : z < w) :
    (Spec.Keccak.lane (lanes w A) x y).getLsbD z = A x y z :=
  (bit_of_lanes w A x y z hx hy hz).symm

/-- … and every lane-level state is `lanes w A` for the state array of bits A[x,y,z] = bit z of lane (x,y) -/
theorem lanes_surjective (w : Nat) (L : Spec.Keccak.State w) :
    lanes w (fun x y z => (Spec.Keccak.lane L x y).getLsbD z) = L := by
  apply Vector.ext
  intro i hi
  rw [lanes_getElem w _ i hi]
  apply BitVec.eq_of_getLsbD_eq
  intro z hz
  rw [getLsbD_laneOf]
  simp only [hz, decide_true, Bool.true_and, Spec.Keccak.lane]
  congr 2
  omega

/-! ### §3.2 the five step mappings, every lane size w ≥ 1, every state array -/

/-- Algorithm 1 (θ on bits: columns C[x,z], D[x,z] = C[(x−1) mod 5, z] ⊕ C[(x+1) mod 5, (z−1) mod w]) is the
    lane-level θ (D[x] = C[x−1] ⊕ ROT(C[x+1], 1)) -/
theorem theta_agrees {w : Nat} (hw : 0 < w) (A : StateArray) :
    lanes w (theta w A) = Spec.Keccak.theta (lanes w A) := theta_agree hw A

/-- Algorithm 2 (ρ on bits: the 24-step walk (x,y) ← (y,(2x+3y) mod 5) from (1,0), bit z of the t-th lane read at
    (z − (t+1)(t+2)/2) mod w; lane (0,0) kept) is the lane-level ρ (rotation of lane (x,y) by its offset) -/
theorem rho_agrees {w : Nat} (hw : 0 < w) (A : StateArray) :
    lanes w (rho w A) = Spec.Keccak.rho (lanes w A) := rho_agree hw A

/-- Algorithm 3 (A′[x,y,z] = A[(x+3y) mod 5, x, z]) is the lane-level π -/
theorem pi_agrees (w : Nat) (A : StateArray) : lanes w (pi A) = Spec.Keccak.pi (lanes w A) := pi_agree w A

/-- Algorithm 4 (A′[x,y,z] = A[x,y,z] ⊕ ((A[(x+1) mod 5,y,z] ⊕ 1)·A[(x+2) mod 5,y,z])) is the lane-level χ -/
theorem chi_agrees (w : Nat) (A : StateArray) : lanes w (chi A) = Spec.Keccak.chi (lanes w A) := chi_agree w A

/-- Algorithm 5: rc(t) transcribed step by step is the LFSR output of Spec.Keccak, for every t ≥ 0 -/
theorem rc_agrees (t : Nat) : rc (t : Int) = Spec.Keccak.rc t := rc_agree t

/-- Algorithm 6 steps 2–3: the string RC (RC[2^j − 1] = rc(j + 7·ir), j = 0 … ℓ) is the lane RC[ir] of Spec.Keccak,
    bit by bit, for every lane size and every round index -/
theorem RC_agrees (w ir z : Nat) : (RC w (ir : Int)).getD z false = (Spec.Keccak.RC w ir).getLsbD z :=
  RC_agree w ir z

/-- Algorithm 6 (ι) is the lane-level ι, for every round index -/
theorem iota_agrees (w : Nat) (A : StateArray) (ir : Nat) :
    lanes w (iota w A (ir : Int)) = Spec.Keccak.iota (lanes w A) ir := iota_agree w A ir

/-- Rnd(A, ir) = ι(χ(π(ρ(θ(A)))), ir) on bits is the lane-level round -/
theorem Rnd_agrees {w : Nat} (hw : 0 < w) (A : StateArray) (ir : Nat) :
    lanes w (Rnd w A (ir : Int)) = Spec.Keccak.rnd (lanes w A) ir := Rnd_agree hw A ir

/-- the same for each of the seven lane sizes w = 2^ℓ of the standard -/
theorem Rnd_agrees_pow2 (l : Nat) (_hl : l ≤ 6) (A : StateArray) (ir : Nat) :
    lanes (2 ^ l) (Rnd (2 ^ l) A (ir : Int)) = Spec.Keccak.rnd (lanes (2 ^ l) A) ir :=
  Rnd_agree (Nat.two_pow_pos l) A ir

/-! ### §3.1.2 / §3.1.3 strings ⇔ state arrays -/

/-- §3.1.2 (A[x,y,z] = S[w(5y+x)+z]): the lanes of the state array of a string -/
theorem toStateArray_agrees (w : Nat) (S : Str) :
    lanes w (toStateArray w S) = Spec.Keccak.stateOfString w S := lanes_toStateArray w S

/-- §3.1.3 (S = Plane(0) ‖ … ‖ Plane(4), Plane(j) = Lane(0,j) ‖ … ‖ Lane(4,j)): the string of the 25 lanes -/
theorem toStr_agrees (w : Nat) (A : StateArray) : toStr w A = Spec.Keccak.stringOfState (lanes w A) := toStr_eq w A

/-! ### §3.3 / §3.4 the permutations -/

/-- **KECCAK-p[25w, nr] (Algorithm 7) on bit strings = Keccak-p of Spec.Keccak on lanes**: every lane size w ≥ 1,
    every number of rounds nr ≤ 12 + 2ℓ (rounds ir = 12+2ℓ−nr … 12+2ℓ−1), every string -/
theorem KECCAK_p_agrees {w : Nat} (hw : 0 < w) (nr : Nat) (hnr : nr ≤ 12 + 2 * Nat.log2 w) (S : Str) :
    KECCAK_p (25 * w) nr S
      = Spec.Keccak.stringOfState (Spec.Keccak.keccakP w nr (Spec.Keccak.stateOfString w S)) :=
  KECCAK_p_agree hw nr hnr S

/-- **KECCAK-f[25w] = KECCAK-p[25w, 12 + 2ℓ] on bit strings = Keccak-f of Spec.Keccak**, every lane size w ≥ 1 -/
theorem KECCAK_f_agrees {w : Nat} (hw : 0 < w) (S : Str) : KECCAK_f (25 * w) S = Spec.Keccak.fString w S :=
  KECCAK_f_agree hw S

/-- the seven permutations of the standard, b = 25·2^ℓ ∈ {25, 50, 100, 200, 400, 800, 1600} -/
theorem KECCAK_f_agrees_pow2 (l : Nat) (_hl : l ≤ 6) (S : Str) :
    KECCAK_f (25 * 2 ^ l) S = Spec.Keccak.fString (2 ^ l) S := KECCAK_f_agree (Nat.two_pow_pos l) S

/-- KECCAK-p[1600, 24], the permutation of KECCAK[c] (§5.2), is Keccak-f[1600] of Spec.Keccak -/
theorem KECCAK_p_1600_24 : KECCAK_p 1600 24 = Spec.Keccak.fString 64 := by
  funext S
  exact KECCAK_f_agree (w := 64) (by decide) S

/-! ### §4, §5 pad10*1 and the sponge construction -/

/-- Algorithm 9 (j = (−m−2) mod x on the integers) = the padding rule of Spec.Keccak, every x ≥ 1 and m -/
theorem pad10s1_agrees (x m : Nat) (hx : 0 < x) : pad10s1 x m = Spec.Keccak.pad101 x m := pad_agree x m hx

/-- **Algorithm 8 = the sponge of Spec.Keccak**, for every function f on strings of length b, every rate 0 < r ≤ b,
    every message N and every output length d (the squeezing loop "Z = Z ‖ Trunc_r(S); if d ≤ |Z| return
    Trunc_d(Z); S = f(S)" against ⌈d/r⌉ pieces truncated to d) -/
theorem SPONGE_agrees (b r : Nat) (hr : 0 < r) (hrb : r ≤ b) (f : Str → Str) (hf : ∀ S, (f S).length = b)
    (N : Str) (d : Nat) : SPONGE b f pad10s1 r N d = Spec.Keccak.sponge f b r N d :=
  SPONGE_agree b r hr hrb f hf N d

/-- SPONGE[KECCAK-f[25w], pad10*1, r] = the Keccak sponge of Spec.Keccak, every lane size w ≥ 1, rate 0 < r ≤ 25w -/
theorem SPONGE_KECCAK_f_agrees {w : Nat} (hw : 0 < w) (r : Nat) (hr : 0 < r) (hrb : r ≤ 25 * w) (N : Str) (d : Nat) :
    SPONGE (25 * w) (KECCAK_f (25 * w)) pad10s1 r N d = Spec.Keccak.keccak w r N d := by
  have hf : KECCAK_f (25 * w) = Spec.Keccak.fString w := funext fun S => KECCAK_f_agree hw S
  rw [SPONGE_agree (25 * w) r hr hrb _ (fun S => by rw [KECCAK_f]; exact KECCAK_p_length _ S) N d, hf]
  rfl

/-- §5.2: KECCAK[c](N, d) = SPONGE[KECCAK-p[1600, 24], pad10*1, 1600 − c](N, d), every capacity 0 ≤ c < 1600 -/
theorem KECCAK_agrees (c : Nat) (hc : c < 1600) (N : Str) (d : Nat) : KECCAK c N d = Spec.Keccak.keccakC c N d := by
  unfold KECCAK
  rw [SPONGE_agree 1600 (1600 - c) (by omega) (by omega) _
    (fun S => KECCAK_p_length (w := 64) 24 S) N d, KECCAK_p_1600_24]
  rfl

/-! ### Appendix B.1 -/

/-- h2b (Algorithm 10) of a byte string written in hexadecimal = its bits, each byte least significant bit first -/
theorem h2b_agrees (M : List Nat) (n : Nat) : h2b (hexOfBytes M) n = (Spec.Keccak.bitsOfBytes M).take n :=
  h2b_agree M n

/-- b2h (Algorithm 11), read back as bytes = the byte string of Spec.Keccak (zero-filled last byte) -/
theorem b2h_agrees (Z : Str) : bytesOfHex (b2h Z) = Spec.Keccak.bytesOfBits Z := b2h_agree Z

/-- the message bits of the native (LSB-first) mode are h2b(H, L) of the message's hexadecimal writing -/
theorem msgBits_lsb_eq_h2b (M : List Nat) (L : Nat) : msgBits true M (some L) = h2b (hexOfBytes M) L := by
  rw [h2b_agree]; rfl

/-! ### §6 SHA3-n and SHAKEn -/

/-- SHA3-224/256/384/512 of Spec.Fips202 on h2b(M), converted by b2h = Spec.Keccak.sha3, every byte string -/
theorem SHA3_agrees (n : Nat) (hn : n ∈ [224, 256, 384, 512]) (M : List Nat) :
    bytesOfHex (b2h (SHA3 n (h2b (hexOfBytes M) (8 * M.length)))) = Spec.Keccak.sha3 n M := by
  rw [b2h_agree, h2b_full]
  simp only [List.mem_cons, List.not_mem_nil, or_false] at hn
  rcases hn with rfl | rfl | rfl | rfl
  · simp [SHA3, SHA3_224, Spec.Keccak.sha3, KECCAK_agrees 448 (by decide)]
  · simp [SHA3, SHA3_256, Spec.Keccak.sha3, KECCAK_agrees 512 (by decide)]
  · simp [SHA3, SHA3_384, Spec.Keccak.sha3, KECCAK_agrees 768 (by decide)]
  · simp [SHA3, SHA3_512, Spec.Keccak.sha3, KECCAK_agrees 1024 (by decide)]

/-- SHAKE128 / SHAKE256 of Spec.Fips202 = Spec.Keccak.shake, every byte string and every output length -/
theorem SHAKE_agrees (n : Nat) (hn : n = 128 ∨ n = 256) (M : List Nat) (d : Nat) :
    bytesOfHex (b2h (SHAKE n (h2b (hexOfBytes M) (8 * M.length)) d)) = Spec.Keccak.shake n M d := by
  rw [b2h_agree, h2b_full]
  rcases hn with rfl | rfl
  · simp [SHAKE, SHAKE128, Spec.Keccak.shake, KECCAK_agrees 256 (by decide)]
  · simp [SHAKE, SHAKE256, Spec.Keccak.shake, KECCAK_agrees 512 (by decide)]

/-- §6.3: SHAKEn(M, d) = RawSHAKEn(M ‖ 11, d) holds for the transcription -/
theorem SHAKE_eq_RawSHAKE (M : Str) (d : Nat) :
    SHAKE128 M d = RawSHAKE128 (M ++ [true, true]) d ∧ SHAKE256 M d = RawSHAKE256 (M ++ [true, true]) d := by
  simp [SHAKE128, SHAKE256, RawSHAKE128, RawSHAKE256]

/-! ### the MODEL of the code = FIPS 202 as literally transcribed -/

/-- **the sponge object of the library = Algorithm 8 over KECCAK-f[b] of the literal transcription**: for every
    supported width b = 25w (w = 2^ℓ, ℓ = 0 … 6), every rate 0 < r ≤ b (r ≤ 1536; also r < 8 and r not a multiple of
    8), both bit-order modes, every byte string M, every bit length L ≤ 8|M| (or `None`) and every output length
    d ≥ 1:  `Keccak(b=25w,r=r,len=d)(M,bitlen)` returns the bytes b2h writes for
    SPONGE[KECCAK-f[25w], pad10*1, r](N, d),  N the message bits in the mode's order (`msgBits_lsb_eq_h2b`: in the
    native mode N = h2b(M, L)) -/
theorem sponge_refines_fips202 {w} (hw : w ∈ [1, 2, 4, 8, 16, 32, 64]) (r : Nat) (hr0 : 0 < r) (hrb : r ≤ 25 * w)
    (hr : r ≤ 1536) (lsb : Bool) (M : List Nat) (hM : ∀ b ∈ M, b < 256) (bitlen : Option Nat)
    (hL : ∀ L, bitlen = some L → L ≤ 8 * M.length) (d : Nat) (hd : 0 < d) :
    (Keccak.mk (25 * w) r (some d)).bind (fun c => Keccak.call { c with duplexing := lsb } M bitlen)
      = .ok (bytesOfHex (b2h (SPONGE (25 * w) (KECCAK_f (25 * w)) pad10s1 r (msgBits lsb M bitlen) d))) := by
  have hw0 : 0 < w := by
    simp only [List.mem_cons, List.not_mem_nil, or_false] at hw
    rcases hw with rfl | rfl | rfl | rfl | rfl | rfl | rfl <;> decide
  rw [Proofs.C04.sponge_refines hw r hr0 hrb hr lsb M hM bitlen hL d hd, b2h_agree,
    SPONGE_KECCAK_f_agrees hw0 r hr0 hrb]

/-- **SHA3-224/256/384/512 of the library = FIPS 202 §6.1 as literally transcribed**, for every byte string:
    `SHA3(n)(M)` = b2h(SHA3-n(h2b(M, 8|M|))) -/
theorem sha3_refines_fips202 (n : Nat) (hn : n ∈ [224, 256, 384, 512]) (M : List Nat) (hM : ∀ b ∈ M, b < 256) :
    Sha3.sha3 n M = .ok (bytesOfHex (b2h (SHA3 n (h2b (hexOfBytes M) (8 * M.length))))) := by
  rw [Proofs.C04.sha3_refines n hn M hM, SHA3_agrees n hn M]

/-- **SHAKE128 / SHAKE256 of the library = FIPS 202 §6.2 as literally transcribed**, for every byte string and
    every output length d ≥ 1 in bits: `SHAKEn(M,d)` = b2h(SHAKEn(h2b(M, 8|M|), d)) -/
theorem shake_refines_fips202 (n : Nat) (hn : n = 128 ∨ n = 256) (M : List Nat) (hM : ∀ b ∈ M, b < 256)
    (d : Nat) (hd : 0 < d) :
    Sha3.shake (2 * n) M d = .ok (bytesOfHex (b2h (SHAKE n (h2b (hexOfBytes M) (8 * M.length)) d))) := by
  rw [Proofs.C04.shake_refines n hn M hM d hd, SHAKE_agrees n hn M d]

/-! ### the evaluator used by the driver and by the examples below -/

/-- Spec.Fips202Eval (the state written down after every round) computes Algorithm 7 -/
theorem KECCAK_p_eval_eq {w : Nat} (hw : 0 < w) (nr : Nat) (hnr : nr ≤ 12 + 2 * Nat.log2 w) (S : Str) :
    Eval.KECCAK_p_eval (25 * w) nr S = KECCAK_p (25 * w) nr S :=
  Proofs.Lemmas.Fips202Sponge.KECCAK_p_eval_eq hw nr hnr S

/-- what the driver prints for `fips202.sha3` / `fips202.shake` is SHA3-n / SHAKEn of Spec.Fips202 -/
theorem SHA3_eval_eq (n : Nat) (hn : n ∈ [224, 256, 384, 512]) (M : Str) : Eval.SHA3_eval n M = SHA3 n M := by
  have hp : Eval.KECCAK_p_eval 1600 24 = KECCAK_p 1600 24 :=
    funext fun S => Proofs.Lemmas.Fips202Sponge.KECCAK_p_eval_eq (w := 64) (by decide) 24 (by decide) S
  simp only [List.mem_cons, List.not_mem_nil, or_false] at hn
  rcases hn with rfl | rfl | rfl | rfl <;>
    simp [Eval.SHA3_eval, Eval.KECCAK_eval, hp, SHA3, SHA3_224, SHA3_256, SHA3_384, SHA3_512, KECCAK]

theorem SHAKE_eval_eq (n : Nat) (hn : n = 128 ∨ n = 256) (M : Str) (d : Nat) :
    Eval.SHAKE_eval n M d = SHAKE n M d := by
  have hp : Eval.KECCAK_p_eval 1600 24 = KECCAK_p 1600 24 :=
    funext fun S => Proofs.Lemmas.Fips202Sponge.KECCAK_p_eval_eq (w := 64) (by decide) 24 (by decide) S
  rcases hn with rfl | rfl <;> simp [Eval.SHAKE_eval, Eval.KECCAK_eval, hp, SHAKE, SHAKE128, SHAKE256, KECCAK]

/-! ### known answers for Spec.Fips202 itself

Carried over by the agreement theorems from the kernel evaluations of Proofs/C04/SpecKat.lean (the lane-level
specification evaluates 25w bits at a time); direct kernel evaluations of the literal transcription, which owe nothing
to Spec.Keccak, are in Proofs/C04/Fips202Kat.lean. -/

/-- FIPS 202 / NIST example values: SHA3-256 of the empty message = a7ffc6f8 bf1ed766 51c14756 a061d662 f580ff4d
    e43b49fa 82d80a4b 80f8434a — for SHA3-256 of the literal transcription -/
example : bytesOfHex (b2h (SHA3_256 []))
    = [0xa7, 0xff, 0xc6, 0xf8, 0xbf, 0x1e, 0xd7, 0x66, 0x51, 0xc1, 0x47, 0x56, 0xa0, 0x61, 0xd6, 0x62, 0xf5, 0x80,
       0xff, 0x4d, 0xe4, 0x3b, 0x49, 0xfa, 0x82, 0xd8, 0x0a, 0x4b, 0x80, 0xf8, 0x43, 0x4a] := by
  have h := (SHA3_agrees 256 (by decide) []).trans Proofs.C04.SpecKat.kat_sha3_256_empty
  have e1 : h2b (hexOfBytes []) (8 * ([] : List Nat).length) = [] := by decide
  have e2 : ∀ M, SHA3 256 M = SHA3_256 M := fun M => by simp [SHA3]
  rw [e1, e2] at h
  exact h

/-- the 43 message bits of the compact-Keccak vector (Msg = F219BD629820, Len = 43, NIST bit order) -/
def kat200N : Str :=
  [false, true, false, false, true, true, true, true, true, false, false, true, true, false, false, false, true,
   false, true, true, true, true, false, true, false, true, false, false, false, true, true, false, false, false,
   false, true, true, false, false, true, true, false, false]

/-- compact Keccak, b = 200, r = 40 (KeccakReferenceAndOptimized; also in the library's tests):
    Squeezed = C8F9476DBF0B0FE01F80629FD5689097AAAC6732 — for SPONGE[KECCAK-f[200], pad10*1, 40] of the literal
    transcription -/
example : bytesOfHex (b2h (SPONGE 200 (KECCAK_f 200) pad10s1 40 kat200N 160))
    = [0xC8, 0xF9, 0x47, 0x6D, 0xBF, 0x0B, 0x0F, 0xE0, 0x1F, 0x80, 0x62, 0x9F, 0xD5, 0x68, 0x90, 0x97, 0xAA, 0xAC,
       0x67, 0x32] := by
  have hN : kat200N = Spec.Keccak.msgBitsNIST [0xF2, 0x19, 0xBD, 0x62, 0x98, 0x20] 43 := by decide
  have h := SPONGE_KECCAK_f_agrees (w := 8) (by decide) 40 (by decide) (by decide) kat200N 160
  rw [b2h_agree, show (200 : Nat) = 25 * 8 from rfl, h, hN]
  exact Proofs.C04.SpecKat.kat_b200

end Proofs.C04_Fips202
