/-
  C08 — Bits: operators are fixed-width modular algebra touching only addressed bits.
  ONLY property theorems (and their non-vacuity examples) live here; helper lemmas are in Proofs/Lemmas.
  Denotation of a vector: `b.size` and the bits `b.ival.testBit i` (bit 0 = first element of the sequence);
  `WF b : b.ival < 2 ^ b.size` is the invariant "the payload does not exceed the size".
-/
import Model.Bits
import Proofs.Lemmas.BitsBasic
namespace Proofs.C08
open Model Model.Bits Model.Py Proofs.Lemmas.Bits

/-! ## 1. Arithmetic and bitwise operators: width max(m,n), values modulo 2^w -/

/-- `a + o` (also `a + int`, `int + a` through `ofNat`): size = the larger size, value = sum modulo 2^w -/
theorem add_spec (a o : Bits) :
    (a.add o).size = max a.size o.size ∧ (a.add o).ival = (a.ival + o.ival) % 2 ^ max a.size o.size := by
  simp [add, wsize_eq_max]

/-- `a - o`: size = the larger size, value = difference modulo 2^w (stated in ℤ with the mathematical `%`) -/
theorem sub_spec (a o : Bits) :
    (a.sub o).size = max a.size o.size ∧
    ((a.sub o).ival : Int) = ((a.ival : Int) - (o.ival : Int)) % (2 ^ max a.size o.size : Nat) := by
  refine ⟨by simp [sub, wsize_eq_max], ?_⟩
  simp only [sub, wsize_eq_max]
  generalize hM : 2 ^ max a.size o.size = M
  have hMpos : 0 < M := by rw [← hM]; exact Nat.two_pow_pos _
  have hr : o.ival % M < M := Nat.mod_lt _ hMpos
  have h1 : ((a.ival + (M - o.ival % M) : Nat) : Int) = (a.ival : Int) - (o.ival : Int) + (M : Int) * ((o.ival / M : Nat) + 1) := by
    have := Nat.div_add_mod o.ival M
    have h2 : ((M * (o.ival / M) : Nat) : Int) = (M : Int) * ((o.ival / M : Nat) : Int) := by simp
    have h3 : (M : Int) * (((o.ival / M : Nat) : Int) + 1) = (M : Int) * ((o.ival / M : Nat) : Int) + M := by
      rw [Int.mul_add, Int.mul_one]
    omega
  rw [Int.natCast_emod, h1, Int.add_mul_emod_self_left]

/-- `a - o` characterised in ℕ: the result is the unique `r < 2^w` with `r + o ≡ a (mod 2^w)` -/
theorem sub_add_cancel (a o : Bits) :
    ((a.sub o).ival + o.ival) % 2 ^ max a.size o.size = a.ival % 2 ^ max a.size o.size := by
  simp only [sub, wsize_eq_max]
  generalize hM : 2 ^ max a.size o.size = M
  have hMpos : 0 < M := by rw [← hM]; exact Nat.two_pow_pos _
  have hr : o.ival % M < M := Nat.mod_lt _ hMpos
  rw [Nat.mod_add_mod]
  have h : a.ival + (M - o.ival % M) + o.ival = a.ival + M * (o.ival / M + 1) := by
    have := Nat.div_add_mod o.ival M
    rw [Nat.mul_add, Nat.mul_one]; omega
  rw [h, Nat.add_mul_mod_self_left]

/-- `&`, `|`, `^`: size = the larger size, bitwise on every position -/
theorem and_bit (a o : Bits) (i : Nat) :
    (a.and o).size = max a.size o.size ∧ (a.and o).ival.testBit i = (a.ival.testBit i && o.ival.testBit i) := by
  simp [Bits.and, wsize_eq_max]
theorem or_bit (a o : Bits) (i : Nat) :
    (a.or o).size = max a.size o.size ∧ (a.or o).ival.testBit i = (a.ival.testBit i || o.ival.testBit i) := by
  simp [Bits.or, wsize_eq_max]
theorem xor_bit (a o : Bits) (i : Nat) :
    (a.xor o).size = max a.size o.size ∧ (a.xor o).ival.testBit i = (a.ival.testBit i ^^ o.ival.testBit i) := by
  simp [Bits.xor, wsize_eq_max]

/-- `~b`: same size, every bit below the size flipped, nothing above it (for a well-formed operand) -/
theorem inv_bit (b : Bits) (hb : b.WF) (i : Nat) :
    b.inv.size = b.size ∧ b.inv.ival.testBit i = (decide (i < b.size) && !b.ival.testBit i) := by
  refine ⟨rfl, ?_⟩
  simp only [inv, mask, Nat.testBit_xor, Nat.testBit_two_pow_sub_one]
  by_cases hi : i < b.size
  · simp [hi]
  · simp [hi, wf_testBit hb (Nat.le_of_not_lt hi)]

/-- `~b` as a value: `2^n - 1 - b` -/
theorem inv_val (b : Bits) (hb : b.WF) : b.inv.ival = 2 ^ b.size - 1 - b.ival := by
  apply Nat.eq_of_testBit_eq
  intro i
  rw [(inv_bit b hb i).2]
  have h : b.ival ≤ 2 ^ b.size - 1 := Nat.le_sub_one_of_lt hb
  by_cases hi : i < b.size
  · have := Nat.testBit_two_pow_sub_succ hb i
    simp only [hi, decide_true, Bool.true_and] at this ⊢
    rw [← this]; congr 1; omega
  · have hlt : 2 ^ b.size - 1 - b.ival < 2 ^ b.size := by have := Nat.two_pow_pos b.size; omega
    simp [hi, testBit_of_lt hlt (Nat.le_of_not_lt hi)]

/-- unary minus: computed in the operand's size, value `(-b) mod 2^n` -/
theorem neg_spec (b : Bits) :
    b.neg.size = b.size ∧ ((b.neg.ival : Int) = (-(b.ival : Int)) % (2 ^ b.size : Nat)) := by
  refine ⟨rfl, ?_⟩
  simp only [neg, ofNatSz_ival, Nat.mod_mod]
  generalize hM : 2 ^ b.size = M
  have hMpos : 0 < M := by rw [← hM]; exact Nat.two_pow_pos _
  have hr : b.ival % M < M := Nat.mod_lt _ hMpos
  have h1 : ((M - b.ival % M : Nat) : Int) = -(b.ival : Int) + (M : Int) * ((b.ival / M : Nat) + 1) := by
    have := Nat.div_add_mod b.ival M
    have h2 : ((M * (b.ival / M) : Nat) : Int) = (M : Int) * ((b.ival / M : Nat) : Int) := by simp
    have h3 : (M : Int) * (((b.ival / M : Nat) : Int) + 1) = (M : Int) * ((b.ival / M : Nat) : Int) + M := by
      rw [Int.mul_add, Int.mul_one]
    omega
  rw [Int.natCast_emod, h1, Int.add_mul_emod_self_left]

/-- unary minus is the additive inverse: `a + (-a) = 0 (mod 2^m)`, for every size (0 included) and value -/
theorem add_neg (a : Bits) : a.add a.neg = ⟨0, a.size⟩ := by
  have hw : wsize a a.neg = a.size := by simp [wsize, neg]
  unfold add
  rw [hw]
  simp only [neg, ofNatSz_ival, Nat.mod_mod]
  congr 1
  generalize hM : 2 ^ a.size = M
  have hMpos : 0 < M := by rw [← hM]; exact Nat.two_pow_pos _
  have hr : a.ival % M < M := Nat.mod_lt _ hMpos
  by_cases h0 : a.ival % M = 0
  · rw [h0, Nat.sub_zero, Nat.mod_self, Nat.add_zero, h0]
  · rw [Nat.mod_eq_of_lt (a := M - a.ival % M) (by omega)]
    have : a.ival + (M - a.ival % M) = M * (a.ival / M + 1) := by
      have := Nat.div_add_mod a.ival M
      rw [Nat.mul_add, Nat.mul_one]; omega
    rw [this, Nat.mul_mod_right]
theorem neg_add (a : Bits) : a.neg.add a = ⟨0, a.size⟩ := by
  have h := add_neg a
  have hw : wsize a.neg a = wsize a a.neg := by simp [wsize, neg]
  simp only [add, hw, Nat.add_comm a.neg.ival] at h ⊢
  exact h

/-- `a * m` (a `Bits` or an int multiplier): computed in the LEFT operand's size -/
theorem mul_spec (a : Bits) (m : Nat) : (a.mul m).size = a.size ∧ (a.mul m).ival = (a.ival * m) % 2 ^ a.size := by
  simp [mul]

/-- an int operand (either side) is first turned into `Bits(v)`: size = `bit_length`, i.e. the least width holding `v` -/
theorem ofNat_spec (v : Nat) :
    (ofNat v).ival = v ∧ v < 2 ^ (ofNat v).size ∧ (∀ n, v < 2 ^ n → (ofNat v).size ≤ n) :=
  ⟨rfl, bitLength_lt v, fun _ h => bitLength_le_of_lt h⟩

/-- `int - a` (after the fix): the difference modulo 2^w with w = max(bit_length, size), like `a + int` -/
theorem rsub_spec (a : Bits) (v : Nat) :
    (a.rsub v).size = max (bitLength v) a.size ∧
    ((a.rsub v).ival : Int) = ((v : Int) - (a.ival : Int)) % (2 ^ max (bitLength v) a.size : Nat) :=
  sub_spec (ofNat v) a

/-- `int + a` = `a + int` (the reflected operators delegate), width max(size, bit_length) -/
theorem radd_spec (a : Bits) (v : Nat) :
    (a.add (ofNat v)).size = max a.size (bitLength v) ∧
    (a.add (ofNat v)).ival = (a.ival + v) % 2 ^ max a.size (bitLength v) :=
  add_spec a (ofNat v)

/-- `+ & | ^` give the same result in either operand order -/
theorem add_comm (a o : Bits) : a.add o = o.add a := by
  simp only [add, wsize_eq_max, Nat.max_comm a.size, Nat.add_comm a.ival]
theorem and_comm (a o : Bits) : a.and o = o.and a := by
  simp only [Bits.and, wsize_eq_max, Nat.max_comm a.size, Nat.and_comm a.ival]
theorem or_comm (a o : Bits) : a.or o = o.or a := by
  simp only [Bits.or, wsize_eq_max, Nat.max_comm a.size, Nat.or_comm a.ival]
theorem xor_comm (a o : Bits) : a.xor o = o.xor a := by
  simp only [Bits.xor, wsize_eq_max, Nat.max_comm a.size, Nat.xor_comm a.ival]

end Proofs.C08
