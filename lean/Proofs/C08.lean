/-
  C08 — Bits: operators are fixed-width modular algebra touching only addressed bits.
  ONLY property theorems (and their non-vacuity examples) live here; helper lemmas are in Proofs/Lemmas.
-/
import Model.Bits
namespace Proofs.C08
open Model Model.Bits

theorem shl_wf (b : Bits) (i : Nat) : (b.shl i).WF := by
  unfold WF shl mask
  exact Nat.lt_of_le_of_lt Nat.and_le_right (Nat.sub_lt (Nat.two_pow_pos _) Nat.one_pos)

end Proofs.C08
