/-
  C08 — Bits: operators are fixed-width modular algebra touching only addressed bits.
  ONLY property theorems (and their non-vacuity examples) live here; helper lemmas are in Proofs/Lemmas.
  Denotation of a vector: `b.size` and the bits `b.ival.testBit i` (bit 0 = first element of the sequence);
  `WF b : b.ival < 2 ^ b.size` is the invariant "the payload does not exceed the size".
-/
import Model.Bits
import Proofs.Lemmas.BitsBasic
import Proofs.Lemmas.BitsOps
import Proofs.Lemmas.BitsIndex
import Proofs.Lemmas.BitsExt
namespace Proofs.C08
open Model Model.Bits Model.Py Proofs.Lemmas.Bits

/-! ## 1. Arithmetic and bitwise operators: width max(m,n), values modulo 2^w -/

/-- `a + o` (also `a + int`, `int + a` through `ofNat`): size = the larger size, value = sum modulo 2^w -/
theorem add_spec (a o : Bits) :
    (a.add o).size = max a.size o.size ∧ (a.add o).ival = (a.ival + o.ival) % 2 ^ max a.size o.size := by
  simp [add, wsize_eq_max]

/-- `a - o`: size = the larger size, value = difference modulo 2^w (stated in ℤ with the mathematical `%`) -/
theorem sub_spec (a o : Bits) :
    (a.sub o).size = max a.size o.size ∧
    ((a.sub o).ival : Int) = ((a.ival : Int) - (o.ival : Int)) % (2 ^ max a.size o.size : Nat) := by
  refine ⟨by simp [sub, wsize_eq_max], ?_⟩
  simp only [sub, wsize_eq_max]
  generalize hM : 2 ^ max a.size o.size = M
  have hMpos : 0 < M := by rw [← hM]; exact Nat.two_pow_pos _
  have hr : o.ival % M < M := Nat.mod_lt _ hMpos
  have h1 : ((a.ival + (M - o.ival % M) : Nat) : Int) = (a.ival : Int) - (o.ival : Int) + (M : Int) * ((o.ival / M : Nat) + 1) := by
    have := Nat.div_add_mod o.ival M
    have h2 : ((M * (o.ival / M) : Nat) : Int) = (M : Int) * ((o.ival / M : Nat) : Int) := by simp
    have h3 : (M : Int) * (((o.ival / M : Nat) : Int) + 1) = (M : Int) * ((o.ival / M : Nat) : Int) + M := by
      rw [Int.mul_add, Int.mul_one]
    omega
  rw [Int.natCast_emod, h1, Int.add_mul_emod_self_left]

/-- `a - o` characterised in ℕ: the result is the unique `r < 2^w` with `r + o ≡ a (mod 2^w)` -/
theorem sub_add_cancel (a o : Bits) :
    ((a.sub o).ival + o.ival) % 2 ^ max a.size o.size = a.ival % 2 ^ max a.size o.size := by
  simp only [sub, wsize_eq_max]
  generalize hM : 2 ^ max a.size o.size = M
  have hMpos : 0 < M := by rw [← hM]; exact Nat.two_pow_pos _
  have hr : o.ival % M < M := Nat.mod_lt _ hMpos
  rw [Nat.mod_add_mod]
  have h : a.ival + (M - o.ival % M) + o.ival = a.ival + M * (o.ival / M + 1) := by
    have := Nat.div_add_mod o.ival M
    rw [Nat.mul_add, Nat.mul_one]; omega
  rw [h, Nat.add_mul_mod_self_left]

/-- `&`, `|`, `^`: size = the larger size, bitwise on every position -/
theorem and_bit (a o : Bits) (i : Nat) :
    (a.and o).size = max a.size o.size ∧ (a.and o).ival.testBit i = (a.ival.testBit i && o.ival.testBit i) := by
  simp [Bits.and, wsize_eq_max]
theorem or_bit (a o : Bits) (i : Nat) :
    (a.or o).size = max a.size o.size ∧ (a.or o).ival.testBit i = (a.ival.testBit i || o.ival.testBit i) := by
  simp [Bits.or, wsize_eq_max]
theorem xor_bit (a o : Bits) (i : Nat) :
    (a.xor o).size = max a.size o.size ∧ (a.xor o).ival.testBit i = (a.ival.testBit i ^^ o.ival.testBit i) := by
  simp [Bits.xor, wsize_eq_max]

/-- `~b`: same size, every bit below the size flipped, nothing above it (for a well-formed operand) -/
theorem inv_bit (b : Bits) (hb : b.WF) (i : Nat) :
    b.inv.size = b.size ∧ b.inv.ival.testBit i = (decide (i < b.size) && !b.ival.testBit i) := by
  refine ⟨rfl, ?_⟩
  simp only [inv, mask, Nat.testBit_xor, Nat.testBit_two_pow_sub_one]
  by_cases hi : i < b.size
  · simp [hi]
  · simp [hi, wf_testBit hb (Nat.le_of_not_lt hi)]

/-- `~b` as a value: `2^n - 1 - b` -/
theorem inv_val (b : Bits) (hb : b.WF) : b.inv.ival = 2 ^ b.size - 1 - b.ival := xor_mask b hb

/-- unary minus: computed in the operand's size, value `(-b) mod 2^n` -/
theorem neg_spec (b : Bits) :
    b.neg.size = b.size ∧ ((b.neg.ival : Int) = (-(b.ival : Int)) % (2 ^ b.size : Nat)) := by
  refine ⟨rfl, ?_⟩
  simp only [neg, ofNatSz_ival, Nat.mod_mod]
  generalize hM : 2 ^ b.size = M
  have hMpos : 0 < M := by rw [← hM]; exact Nat.two_pow_pos _
  have hr : b.ival % M < M := Nat.mod_lt _ hMpos
  have h1 : ((M - b.ival % M : Nat) : Int) = -(b.ival : Int) + (M : Int) * ((b.ival / M : Nat) + 1) := by
    have := Nat.div_add_mod b.ival M
    have h2 : ((M * (b.ival / M) : Nat) : Int) = (M : Int) * ((b.ival / M : Nat) : Int) := by simp
    have h3 : (M : Int) * (((b.ival / M : Nat) : Int) + 1) = (M : Int) * ((b.ival / M : Nat) : Int) + M := by
      rw [Int.mul_add, Int.mul_one]
    omega
  rw [Int.natCast_emod, h1, Int.add_mul_emod_self_left]

/-- unary minus is the additive inverse: `a + (-a) = 0 (mod 2^m)`, for every size (0 included) and value -/
theorem add_neg (a : Bits) : a.add a.neg = ⟨0, a.size⟩ := by
  have hw : wsize a a.neg = a.size := by simp [wsize, neg]
  unfold add
  rw [hw]
  simp only [neg, ofNatSz_ival, Nat.mod_mod]
  congr 1
  generalize hM : 2 ^ a.size = M
  have hMpos : 0 < M := by rw [← hM]; exact Nat.two_pow_pos _
  have hr : a.ival % M < M := Nat.mod_lt _ hMpos
  by_cases h0 : a.ival % M = 0
  · rw [h0, Nat.sub_zero, Nat.mod_self, Nat.add_zero, h0]
  · rw [Nat.mod_eq_of_lt (a := M - a.ival % M) (by omega)]
    have : a.ival + (M - a.ival % M) = M * (a.ival / M + 1) := by
      have := Nat.div_add_mod a.ival M
      rw [Nat.mul_add, Nat.mul_one]; omega
    rw [this, Nat.mul_mod_right]
theorem neg_add (a : Bits) : a.neg.add a = ⟨0, a.size⟩ := by
  have h := add_neg a
  have hw : wsize a.neg a = wsize a a.neg := by simp [wsize, neg]
  simp only [add, hw, Nat.add_comm a.neg.ival] at h ⊢
  exact h

/-- `a * m` (a `Bits` or an int multiplier): computed in the LEFT operand's size -/
theorem mul_spec (a : Bits) (m : Nat) : (a.mul m).size = a.size ∧ (a.mul m).ival = (a.ival * m) % 2 ^ a.size := by
  simp [mul]

/-- an int operand (either side) is first turned into `Bits(v)`: size = `bit_length`, i.e. the least width holding `v` -/
theorem ofNat_spec (v : Nat) :
    (ofNat v).ival = v ∧ v < 2 ^ (ofNat v).size ∧ (∀ n, v < 2 ^ n → (ofNat v).size ≤ n) :=
  ⟨rfl, bitLength_lt v, fun _ h => bitLength_le_of_lt h⟩

/-- `int - a` (after the fix): the difference modulo 2^w with w = max(bit_length, size), like `a + int` -/
theorem rsub_spec (a : Bits) (v : Nat) :
    (a.rsub v).size = max (bitLength v) a.size ∧
    ((a.rsub v).ival : Int) = ((v : Int) - (a.ival : Int)) % (2 ^ max (bitLength v) a.size : Nat) :=
  sub_spec (ofNat v) a

/-- `int + a` = `a + int` (the reflected operators delegate), width max(size, bit_length) -/
theorem radd_spec (a : Bits) (v : Nat) :
    (a.add (ofNat v)).size = max a.size (bitLength v) ∧
    (a.add (ofNat v)).ival = (a.ival + v) % 2 ^ max a.size (bitLength v) :=
  add_spec a (ofNat v)

/-- `+ & | ^` give the same result in either operand order -/
theorem add_comm (a o : Bits) : a.add o = o.add a := by
  simp only [add, wsize_eq_max, Nat.max_comm a.size, Nat.add_comm a.ival]
theorem and_comm (a o : Bits) : a.and o = o.and a := by
  simp only [Bits.and, wsize_eq_max, Nat.max_comm a.size, Nat.and_comm a.ival]
theorem or_comm (a o : Bits) : a.or o = o.or a := by
  simp only [Bits.or, wsize_eq_max, Nat.max_comm a.size, Nat.or_comm a.ival]
theorem xor_comm (a o : Bits) : a.xor o = o.xor a := by
  simp only [Bits.xor, wsize_eq_max, Nat.max_comm a.size, Nat.xor_comm a.ival]

/-! ## 2. Shifts and rotations -/

/-- `b << k`: same size; bit i is bit i-k of the operand, bits shifted beyond the size are dropped (any k) -/
theorem shl_bit (b : Bits) (k i : Nat) :
    (b.shl k).size = b.size ∧
    (b.shl k).ival.testBit i = (decide (i < b.size) && (decide (k ≤ i) && b.ival.testBit (i - k))) :=
  ⟨rfl, shl_testBit b k i⟩

/-- `b >> k`: same size; bit i is bit i+k of the operand (any k) -/
theorem shr_bit (b : Bits) (k i : Nat) :
    (b.shr k).size = b.size ∧ (b.shr k).ival.testBit i = (decide (i < b.size) && b.ival.testBit (k + i)) :=
  ⟨rfl, shr_testBit b k i⟩

theorem shl_val (b : Bits) (k : Nat) : (b.shl k).ival = (b.ival * 2 ^ k) % 2 ^ b.size := by
  simp only [shl, and_mask, Nat.shiftLeft_eq]
theorem shr_val (b : Bits) (hb : b.WF) (k : Nat) : (b.shr k).ival = b.ival / 2 ^ k := by
  simp only [shr, and_mask, Nat.shiftRight_eq_div_pow]
  exact Nat.mod_eq_of_lt (Nat.lt_of_le_of_lt (Nat.div_le_self _ _) hb)

/-- `rol(x,k)` succeeds exactly for 0 ≤ k ≤ size (a larger k is a negative shift count in Python) -/
theorem rol_ok_iff (x : Bits) (k : Nat) : (∃ r, x.rol k = .ok r) ↔ k ≤ x.size := by
  rw [rol_eq]; split
  · constructor
    · rintro ⟨r, h⟩; cases h
    · intro h; omega
  · exact ⟨fun _ => by omega, fun _ => ⟨_, rfl⟩⟩
theorem ror_ok_iff (x : Bits) (k : Nat) : (∃ r, x.ror k = .ok r) ↔ k ≤ x.size := by
  rw [ror_eq]; split
  · constructor
    · rintro ⟨r, h⟩; cases h
    · intro h; omega
  · exact ⟨fun _ => by omega, fun _ => ⟨_, rfl⟩⟩

/-- `rol` is an exact left rotation for every width and every 0 ≤ k ≤ size: result bit i = operand bit (i-k) mod n -/
theorem rol_bit (x : Bits) (hx : x.WF) (k : Nat) (hk : k ≤ x.size) :
    ∃ r, x.rol k = .ok r ∧ r.WF ∧ r.size = x.size ∧
      ∀ i, i < x.size → r.ival.testBit i = x.ival.testBit ((i + x.size - k) % x.size) := by
  refine ⟨x.rol! k, ?_, rol!_wf _ _, rol!_size _ _, fun i hi => rol!_testBit x hx k hk i hi⟩
  rw [rol_eq]; simp only [gt_iff_lt, Nat.not_lt.2 hk, ↓reduceIte]

/-- `ror` is an exact right rotation: result bit i = operand bit (i+k) mod n -/
theorem ror_bit (x : Bits) (hx : x.WF) (k : Nat) (hk : k ≤ x.size) :
    ∃ r, x.ror k = .ok r ∧ r.WF ∧ r.size = x.size ∧
      ∀ i, i < x.size → r.ival.testBit i = x.ival.testBit ((i + k) % x.size) := by
  refine ⟨x.ror! k, ?_, ror!_wf _ _, ror!_size _ _, fun i hi => ror!_testBit x hx k hk i hi⟩
  rw [ror_eq]; simp only [gt_iff_lt, Nat.not_lt.2 hk, ↓reduceIte]

/-- `rol(ror(a,k),k) == a` for every width and 0 ≤ k ≤ size -/
theorem rol_ror (x : Bits) (hx : x.WF) (k : Nat) (hk : k ≤ x.size) : (x.ror k >>= fun r => r.rol k) = .ok x := by
  have h1 : x.ror k = .ok (x.ror! k) := by rw [ror_eq]; simp only [gt_iff_lt, Nat.not_lt.2 hk, ↓reduceIte]
  rw [h1]
  show (x.ror! k).rol k = _
  rw [rol_eq]
  have : ¬ k > (x.ror! k).size := by simp; omega
  simp only [this, ↓reduceIte, rol!_ror! x hx k hk]

/-- `ror(rol(a,k),k) == a` -/
theorem ror_rol (x : Bits) (hx : x.WF) (k : Nat) (hk : k ≤ x.size) : (x.rol k >>= fun r => r.ror k) = .ok x := by
  have h1 : x.rol k = .ok (x.rol! k) := by rw [rol_eq]; simp only [gt_iff_lt, Nat.not_lt.2 hk, ↓reduceIte]
  rw [h1]
  show (x.rol! k).ror k = _
  rw [ror_eq]
  have : ¬ k > (x.rol! k).size := by simp; omega
  simp only [this, ↓reduceIte, ror!_rol! x hx k hk]

/-! ## 3. Concatenation, split, extension -/

/-- `a // o`: size m+n; the bits of `a` in the low positions, then the bits of `o` -/
theorem concat_spec (a o : Bits) (ha : a.WF) :
    (a.concat o).size = a.size + o.size ∧
    ∀ i, (a.concat o).ival.testBit i =
      if i < a.size then a.ival.testBit i else (decide (i < a.size + o.size) && o.ival.testBit (i - a.size)) :=
  ⟨rfl, concat_testBit a o ha⟩

/-- as a value: `a + 2^m·o` -/
theorem concat_val (a o : Bits) (ha : a.WF) (ho : o.WF) : (a.concat o).ival = a.ival + 2 ^ a.size * o.ival := by
  simp only [concat, ofNatSz_ival]
  rw [Nat.or_comm, ← Nat.shiftLeft_add_eq_or_of_lt ha, Nat.shiftLeft_eq, Nat.mul_comm, Nat.add_comm]
  apply Nat.mod_eq_of_lt
  have h1 : o.ival + 1 ≤ 2 ^ o.size := ho
  have h2 : 2 ^ a.size * (o.ival + 1) ≤ 2 ^ a.size * 2 ^ o.size := Nat.mul_le_mul_left _ h1
  rw [Nat.pow_add]
  rw [Nat.mul_add, Nat.mul_one] at h2
  have := ha
  unfold WF at this
  omega

/-- as a bit list: the list of `a` followed by the list of `o` -/
theorem concat_toBitList (a o : Bits) (ha : a.WF) : (a.concat o).toBitList = a.toBitList ++ o.toBitList := by
  apply List.ext_getElem
  · simp [toBitList_length]
  · intro i h1 h2
    rw [toBitList_getElem]
    simp only [toBitList_length, concat_size] at h1
    rw [concat_testBit a o ha]
    by_cases hi : i < a.size
    · rw [List.getElem_append_left (by simpa [toBitList_length] using hi), toBitList_getElem]
      simp [hi]
    · rw [List.getElem_append_right (by simp [toBitList_length]; omega), toBitList_getElem]
      simp [hi, h1, toBitList_length]

/-- operators.py `concat(L,bigend)`: the bit lists of the pieces one after the other (in reversed piece order for
    `bigend=True`), for every non-empty list of well-formed pieces -/
theorem concatList_spec (l : List Bits) (hl : ∀ p ∈ l, p.WF) (hne : l ≠ []) (bigend : Bool) :
    ∃ r, concatList l bigend = .ok r ∧ r.toBitList = (if bigend then l.reverse else l).flatMap toBitList := by
  have hfold : ∀ (xs : List Bits) (x : Bits), x.WF → (∀ p ∈ xs, p.WF) →
      (xs.foldl concat x).toBitList = x.toBitList ++ xs.flatMap toBitList := by
    intro xs
    induction xs with
    | nil => intro x _ _; simp
    | cons y ys ih =>
      intro x hx hys
      simp only [List.foldl_cons, List.flatMap_cons]
      rw [ih (x.concat y) (Proofs.Lemmas.Bits.concat_wf x y) (fun p hp => hys p (List.mem_cons_of_mem _ hp)),
        concat_toBitList x y hx, List.append_assoc]
  have hsel : (if bigend = true ∧ l.length ≠ 1 then l.reverse else l) = (if bigend then l.reverse else l) := by
    cases bigend
    · simp
    · simp only [true_and, ↓reduceIte]
      split
      · rfl
      · rename_i h
        have h' : l.length = 1 := by simpa using h
        exact (reverse_of_length_one l h').symm
  unfold concatList
  rw [hsel]
  have hne' : (if bigend then l.reverse else l) ≠ [] := by
    cases bigend <;> simpa using hne
  have hwf : ∀ p ∈ (if bigend then l.reverse else l), p.WF := by
    intro p hp
    cases bigend
    · exact hl p (by simpa using hp)
    · exact hl p (by simpa using hp)
  generalize (if bigend then l.reverse else l) = l' at hne' hwf
  cases l' with
  | nil => exact absurd rfl hne'
  | cons x xs =>
    refine ⟨_, rfl, ?_⟩
    rw [hfold xs x (hwf x List.mem_cons_self) (fun p hp => hwf p (List.mem_cons_of_mem _ hp))]
    simp

/-- concatenating the pieces of `split(k)` (either order convention) gives back the original, for every k ≥ 1,
    ragged last piece included -/
theorem split_concat (b : Bits) (hb : b.WF) (k : Nat) (hk : 1 ≤ k) (hs : 0 < b.size) (bigend : Bool) :
    (b.split k bigend >>= fun l => concatList l bigend) = .ok b :=
  concatList_split b hb k hk hs bigend

/-- the pieces of `split(k)`: consecutive k-bit slices, the last one possibly shorter; ⌈n/k⌉ of them -/
theorem split_spec (b : Bits) (k : Nat) (hk : 1 ≤ k) :
    ∃ l, b.split k false = .ok l ∧ l.length = (b.size + k - 1) / k ∧
      ∀ j (hj : j < l.length), l[j].WF ∧ l[j].size = min k (b.size - j * k) ∧
        ∀ i, l[j].ival.testBit i = (decide (i < min k (b.size - j * k)) && b.ival.testBit (j * k + i)) := by
  refine ⟨_, split_eq b k hk false, by simp [npieces], ?_⟩
  intro j hj
  simp only [Bool.false_eq_true, ↓reduceIte, List.getElem_map, List.getElem_range, piece]
  have hsz : min (j * k + k) b.size - j * k = min k (b.size - j * k) := by omega
  refine ⟨sliceFast_wf _ _ _, by simp only [sliceFast_size]; exact hsz, ?_⟩
  intro i
  rw [sliceFast_testBit, hsz]

/-- big-endian split is the same list reversed -/
theorem split_bigend (b : Bits) (k : Nat) (hk : 1 ≤ k) :
    ∃ l, b.split k false = .ok l ∧ b.split k true = .ok l.reverse :=
  ⟨_, split_eq b k hk false, split_eq b k hk true⟩

/-- `(a // o).split(m) == [a, o]` when cut at m = |a| (for 0 < |o| ≤ |a|) -/
theorem concat_split (a o : Bits) (ha : a.WF) (ho : o.WF) (h1 : 0 < o.size) (h2 : o.size ≤ a.size) :
    (a.concat o).split a.size = .ok [a, o] := by
  have hk : 0 < a.size := by omega
  rw [split_eq _ _ hk false]
  have hn : npieces (a.concat o) a.size = 2 := by
    unfold npieces
    simp only [concat_size]
    have e : a.size + o.size + a.size - 1 = (o.size - 1) + 2 * a.size := by omega
    rw [e, Nat.add_mul_div_right _ _ hk, Nat.div_eq_of_lt (by omega)]
  simp only [hn, Bool.false_eq_true, ↓reduceIte]
  show Except.ok [piece (a.concat o) a.size 0, piece (a.concat o) a.size 1] = Except.ok [a, o]
  have p0 : piece (a.concat o) a.size 0 = a := by
    unfold piece
    simp only [Nat.zero_mul, Nat.zero_add, concat_size]
    rw [Nat.min_eq_left (by omega)]
    exact sliceFast_concat_left a o ha
  have p1 : piece (a.concat o) a.size 1 = o := by
    unfold piece
    simp only [Nat.one_mul, concat_size]
    rw [Nat.min_eq_right (by omega)]
    exact sliceFast_concat_right a o ha ho
  rw [p0, p1]

/-- reading the two halves of a concatenation back: `(a//o)[:m] == a` and `(a//o)[m:] == o` (any sizes) -/
theorem concat_getslice (a o : Bits) (ha : a.WF) (ho : o.WF) :
    (a.concat o).getSlice none (some a.size) none = .ok a ∧
    (a.concat o).getSlice (some a.size) none none = .ok o := by
  constructor
  · have h : sliceIndices none (some (a.size : Int)) none (a.concat o).size = .ok (0, (a.size : Int), 1) := by
      unfold sliceIndices
      simp only [concat_size, Option.getD_none]
      have : ¬ ((a.size : Int) > ((a.size + o.size : Nat) : Int)) := by omega
      have h2 : ¬ ((a.size : Int) < 0) := by omega
      simp [h2]; omega
    rw [getSlice_fast _ _ _ _ h (by omega)]
    simp only [Int.toNat_zero, Int.toNat_natCast]
    rw [sliceFast_concat_left a o ha]
  · have h : sliceIndices (some (a.size : Int)) none none (a.concat o).size
        = .ok ((a.size : Int), ((a.size + o.size : Nat) : Int), 1) := by
      unfold sliceIndices
      simp only [concat_size, Option.getD_none]
      have h2 : ¬ ((a.size : Int) < 0) := by omega
      simp [h2]; omega
    rw [getSlice_fast _ _ _ _ h (by omega)]
    simp only [Int.toNat_natCast]
    rw [sliceFast_concat_right a o ha ho]

/-- `zeroextend(n)`: size max(m,n), unsigned value preserved -/
theorem zeroextend_val (b : Bits) (hb : b.WF) (n : Nat) :
    (b.zeroextend n).size = max b.size n ∧ (b.zeroextend n).ival = b.ival :=
  zeroextend_spec b hb n

/-- `signextend(n)`: size max(m,n); bits below the old size unchanged, new bits copy the old top bit -/
theorem signextend_bit (b : Bits) (hb : b.WF) (n : Nat) (r : Bits) (h : b.signextend n = .ok r) :
    r.size = max b.size n ∧
    ∀ q, r.ival.testBit q = if q < b.size then b.ival.testBit q else (decide (q < n) && b.ival.testBit (b.size - 1)) :=
  (signextend_spec b hb n r h).2

/-- `signextend(n)` preserves the signed (two's-complement) value `x - 2^n·[top bit]` -/
theorem signextend_val (b : Bits) (hb : b.WF) (n : Nat) (r : Bits) (h : b.signextend n = .ok r) :
    (r.ival : Int) - (if r.ival.testBit (r.size - 1) then (2 ^ r.size : Nat) else 0)
      = (b.ival : Int) - (if b.ival.testBit (b.size - 1) then (2 ^ b.size : Nat) else 0) :=
  signextend_sval b hb n r h

/-- it is refused exactly when there is no sign bit to extend -/
theorem signextend_error_iff (b : Bits) (n : Nat) : (∃ e, b.signextend n = .error e) ↔ (b.size = 0 ∧ 0 < n) :=
  Proofs.Lemmas.Bits.signextend_error_iff b n

/-- Hamming weight / distance -/
theorem hw_spec (b : Bits) : b.hw = ((List.range b.size).filter fun i => b.ival.testBit i).length := hw_eq b
theorem hd_spec (a o : Bits) (h : a.size = o.size) :
    a.hd o = .ok ((List.range a.size).filter fun i => a.ival.testBit i != o.ival.testBit i).length := by
  unfold hd
  simp only [h, ne_eq, not_true_eq_false, ↓reduceIte]
  rw [hw_eq]
  have : (a.xor o).size = o.size := by simp [Bits.xor, wsize, h]
  rw [this]
  congr 2
  apply List.filter_congr
  intro i _
  simp [Bits.xor, Nat.testBit_xor]

/-! ## 4. Index expressions: reading selects exactly the addressed bits, in order

  The meaning of an index expression is Python's own: `Py.normIndex` (an int index, negative = from the end),
  `Py.range` over `Py.sliceIndices` (= `range(*slice(start,stop,step).indices(size))`), a list as it stands. -/

/-- `b[i]` for an int: the one-bit vector holding bit `i` (negative `i` counts from the end); IndexError outside -/
theorem getitem_int (b : Bits) (i : Int) :
    b.getInt i = match normIndex i b.size with
      | some p => .ok ⟨(b.ival.testBit p).toNat, 1⟩
      | none => .error "IndexError" := by
  unfold getInt
  rw [bit_eq]
  cases normIndex i b.size with
  | none => rfl
  | some p =>
    show Except.ok (ofNatSz (b.ival.testBit p).toNat 1) = Except.ok ⟨(b.ival.testBit p).toNat, 1⟩
    cases b.ival.testBit p <;> rfl

/-- `b[start:stop:step]` (any start/stop/step, `None` included): the bits at `range(*indices)`, in that order;
    refused only for step 0 -/
theorem getitem_slice (b : Bits) (start stop step : Option Int) {s e st : Int}
    (h : sliceIndices start stop step b.size = .ok (s, e, st)) :
    ∃ r, b.getSlice start stop step = .ok r ∧ r.WF ∧ r.size = (Py.range s e st).length ∧
      ∀ j (hj : j < (Py.range s e st).length), r.ival.testBit j = b.ival.testBit ((Py.range s e st)[j]).toNat := by
  obtain ⟨r, h1, h2, h3, h4⟩ := getSlice_eq b start stop step h
  refine ⟨r, h1, h2, h3, ?_⟩
  intro j hj
  rw [h4 j]; simp only [hj, ↓reduceDIte]

theorem getitem_slice_error_iff (b : Bits) (start stop step : Option Int) :
    (∃ err, b.getSlice start stop step = .error err) ↔ step = some 0 := by
  constructor
  · rintro ⟨err, h⟩
    cases hsi : sliceIndices start stop step b.size with
    | error e => exact (sliceIndices_error_iff _ _ _ _).1 ⟨e, hsi⟩
    | ok t =>
      obtain ⟨s, e, st⟩ := t
      obtain ⟨r, h1, _⟩ := getSlice_eq b start stop step hsi
      rw [h1] at h; cases h
  · intro h0
    obtain ⟨err, he⟩ := (sliceIndices_error_iff start stop step b.size).2 h0
    refine ⟨err, ?_⟩
    unfold getSlice
    rw [he]; rfl

/-- every position selected by a slice is a valid position of the vector -/
theorem slice_positions_valid (start stop step : Option Int) (len : Nat) {s e st : Int}
    (h : sliceIndices start stop step len = .ok (s, e, st)) :
    ∀ x ∈ Py.range s e st, 0 ≤ x ∧ x < len := by
  intro x hx
  obtain ⟨j, hj, rfl⟩ := (mem_range_iff _ _ _ _).1 hx
  exact range_in_bounds h hj

/-- `b[list]` (non-negative indices, repeats allowed): one bit per list element, in list order -/
theorem getitem_list (b : Bits) (idx : List Int) (h : ∀ x ∈ idx, 0 ≤ x) :
    ∃ r, b.getList idx = .ok r ∧ r.WF ∧ r.size = idx.length ∧
      ∀ j (hj : j < idx.length), r.ival.testBit j = b.ival.testBit (idx[j]).toNat := by
  refine ⟨_, getList_ok b idx h, ofNatSz_wf _ _, rfl, ?_⟩
  intro j hj
  rw [getList_testBit]; simp only [hj, ↓reduceDIte]

/-! ## 5. Assignment: exactly the addressed bits change (frame theorems) -/

/-- `b[i]=v`: bit `i` becomes `v`; every other bit, and the size, are unchanged -/
theorem setitem_int (b : Bits) (hb : b.WF) (i : Int) (v : Nat) (r : Bits) (h : b.setInt i v = .ok r) :
    ∃ p, normIndex i b.size = some p ∧ v ≤ 1 ∧ r.size = b.size ∧
      r.ival.testBit p = decide (v = 1) ∧ ∀ q, q ≠ p → r.ival.testBit q = b.ival.testBit q := by
  obtain ⟨p, hp, hv, hs, hq⟩ := setInt_spec b hb i v r h
  refine ⟨p, hp, hv, hs, by rw [hq p]; simp, ?_⟩
  intro q hne
  rw [hq q]; simp [hne]

/-- it is refused exactly for a value other than 0/1 or an index outside `-n ≤ i < n` -/
theorem setitem_int_error_iff (b : Bits) (i : Int) (v : Nat) :
    (∃ err, b.setInt i v = .error err) ↔ (1 < v ∨ normIndex i b.size = none) :=
  setInt_error_iff b i v

/-- `b[s:e:k]=v`, selection: the positions `range(*indices)` take the bits of `v` in order (for a value that fits:
    `v < 2^len` on the contiguous path; the stepped path insists on `len(v) == len(range)` itself) -/
theorem setitem_slice_sel (b : Bits) (hb : b.WF) (start stop step : Option Int) (v : Bits) {s e st : Int}
    (h : sliceIndices start stop step b.size = .ok (s, e, st))
    (hfit : st = 1 → s < e → v.ival < 2 ^ (e - s).toNat)
    (r : Bits) (hr : b.setSlice start stop step v = .ok r) :
    ∀ j (hj : j < (Py.range s e st).length), r.ival.testBit ((Py.range s e st)[j]).toNat = v.ival.testBit j :=
  (setSlice_spec b hb start stop step v h hfit r hr).2.2.1

/-- `b[s:e:k]=v`, frame: the size and every bit outside `range(*indices)` are unchanged -/
theorem setitem_slice_frame (b : Bits) (hb : b.WF) (start stop step : Option Int) (v : Bits) {s e st : Int}
    (h : sliceIndices start stop step b.size = .ok (s, e, st))
    (hfit : st = 1 → s < e → v.ival < 2 ^ (e - s).toNat)
    (r : Bits) (hr : b.setSlice start stop step v = .ok r) :
    r.size = b.size ∧ ∀ q : Nat, (q : Int) ∉ Py.range s e st → r.ival.testBit q = b.ival.testBit q :=
  ⟨(setSlice_spec b hb start stop step v h hfit r hr).2.1, (setSlice_spec b hb start stop step v h hfit r hr).2.2.2⟩

/-- `b[list]=v`, selection: position `idx[t]` takes bit `t` of `v`, unless a later list entry names the same position
    (repeats: the last write wins); the lengths must agree -/
theorem setitem_list_sel (b : Bits) (hb : b.WF) (idx : List Int) (v : Bits) (r : Bits) (h : b.setList idx v = .ok r) :
    idx.length = v.size ∧
    ∀ t (ht : t < idx.length) p, normIndex idx[t] b.size = some p →
      (∀ t' (h' : t' < idx.length), t < t' → normIndex idx[t'] b.size ≠ some p) →
      r.ival.testBit p = v.ival.testBit t := by
  obtain ⟨hlen, _, _, hq⟩ := setList_spec b hb idx v r h
  refine ⟨hlen, ?_⟩
  intro t ht p hp hlast
  rw [hq p]
  have htx : t < v.toBitList.length := by rw [toBitList_length]; omega
  rw [writes_sel b.size _ idx v.toBitList t ht htx p hp (fun t' h' hlt _ => hlast t' h' hlt)]
  rw [toBitList_getElem]; cases v.ival.testBit t <;> simp

/-- `b[list]=v`, frame: the size and every position that no list entry denotes are unchanged -/
theorem setitem_list_frame (b : Bits) (hb : b.WF) (idx : List Int) (v : Bits) (r : Bits) (h : b.setList idx v = .ok r) :
    r.size = b.size ∧ ∀ q, (∀ j ∈ idx, normIndex j b.size ≠ some q) → r.ival.testBit q = b.ival.testBit q := by
  obtain ⟨_, _, hs, hq⟩ := setList_spec b hb idx v r h
  refine ⟨hs, ?_⟩
  intro q hno
  rw [hq q, writes_frame b.size _ idx _ q hno]

/-! ## 6. No result exceeds its size: WF of every operator, and along every history of mutating operations -/

theorem add_wf (a o : Bits) : (a.add o).WF := Nat.mod_lt _ (Nat.two_pow_pos _)
theorem sub_wf (a o : Bits) : (a.sub o).WF := Nat.mod_lt _ (Nat.two_pow_pos _)
theorem mul_wf (a : Bits) (m : Nat) : (a.mul m).WF := ofNatSz_wf _ _
theorem neg_wf (a : Bits) : a.neg.WF := ofNatSz_wf _ _
theorem rsub_wf (a : Bits) (v : Nat) : (a.rsub v).WF := sub_wf _ _
theorem shl_wf (b : Bits) (k : Nat) : (b.shl k).WF := Proofs.Lemmas.Bits.shl_wf b k
theorem shr_wf (b : Bits) (k : Nat) : (b.shr k).WF := Proofs.Lemmas.Bits.shr_wf b k
theorem concat_wf (a o : Bits) : (a.concat o).WF := Proofs.Lemmas.Bits.concat_wf a o
theorem int_operand_wf (v : Int) (sz : Option Nat) : (ofInt v sz).WF := ofInt_wf v sz

theorem or_wf (a o : Bits) (ha : a.WF) (ho : o.WF) : (a.or o).WF := Proofs.Lemmas.Bits.or_wf ha ho
theorem and_wf (a o : Bits) (ha : a.WF) : (a.and o).WF := by
  simp only [WF, Bits.and, wsize_eq_max]
  exact Nat.lt_of_le_of_lt Nat.and_le_left
    (Nat.lt_of_lt_of_le ha (Nat.pow_le_pow_right (by omega) (Nat.le_max_left _ _)))
theorem xor_wf (a o : Bits) (ha : a.WF) (ho : o.WF) : (a.xor o).WF := by
  simp only [WF, Bits.xor, wsize_eq_max]
  apply Nat.xor_lt_two_pow
  · exact Nat.lt_of_lt_of_le ha (Nat.pow_le_pow_right (by omega) (Nat.le_max_left _ _))
  · exact Nat.lt_of_lt_of_le ho (Nat.pow_le_pow_right (by omega) (Nat.le_max_right _ _))
theorem inv_wf (b : Bits) (hb : b.WF) : b.inv.WF := by
  simp only [WF, inv, mask]
  exact Nat.xor_lt_two_pow hb (two_pow_pred_lt _)

theorem rol_wf (x : Bits) (k : Nat) (r : Bits) (h : x.rol k = .ok r) : r.WF := by
  rw [rol_eq] at h; split at h
  · cases h
  · injection h with h; subst h; exact rol!_wf _ _
theorem ror_wf (x : Bits) (k : Nat) (r : Bits) (h : x.ror k = .ok r) : r.WF := by
  rw [ror_eq] at h; split at h
  · cases h
  · injection h with h; subst h; exact ror!_wf _ _

theorem split_wf (b : Bits) (k : Nat) (bigend : Bool) (l : List Bits) (h : b.split k bigend = .ok l) :
    ∀ p ∈ l, p.WF := by
  unfold split at h
  split at h
  · cases h
  · injection h with h; subst h
    intro p hp
    have hp' : p ∈ (List.range ((b.size + k - 1) / k)).map fun j => b.sliceFast (j * k) (min (j * k + k) b.size) := by
      cases bigend <;> simpa using hp
    obtain ⟨j, _, rfl⟩ := List.mem_map.1 hp'
    exact sliceFast_wf _ _ _

theorem concatList_wf (l : List Bits) (bigend : Bool) (hl : ∀ p ∈ l, p.WF) (r : Bits)
    (h : concatList l bigend = .ok r) : r.WF := by
  unfold concatList at h
  split at h
  · cases h
  · rename_i x xs heq
    injection h with h; subst h
    have hx : x.WF := by
      have : x ∈ (if bigend = true ∧ l.length ≠ 1 then l.reverse else l) := by rw [heq]; exact List.mem_cons_self
      split at this
      · exact hl x (List.mem_reverse.1 this)
      · exact hl x this
    clear heq
    induction xs generalizing x with
    | nil => exact hx
    | cons y ys ih => exact ih (x.concat y) (Proofs.Lemmas.Bits.concat_wf x y)

theorem getitem_wf (b : Bits) :
    (∀ i r, b.getInt i = .ok r → r.WF) ∧
    (∀ s e st r, b.getSlice s e st = .ok r → r.WF) ∧
    (∀ idx r, b.getList idx = .ok r → r.WF) := by
  have hl : ∀ idx r, b.getList idx = .ok r → r.WF := by
    intro idx r h
    unfold getList at h; split at h
    · cases h
    · injection h with h; subst h; exact ofNatSz_wf _ _
  refine ⟨?_, ?_, hl⟩
  · intro i r h
    unfold getInt at h
    cases hb : b.bit i with
    | error e => rw [hb] at h; cases h
    | ok v => rw [hb] at h; injection h with h; subst h; exact ofNatSz_wf _ _
  · intro s e st r h
    cases hsi : sliceIndices s e st b.size with
    | error err =>
      unfold getSlice at h; rw [hsi] at h; cases h
    | ok t =>
      obtain ⟨s', e', st'⟩ := t
      obtain ⟨r', h1, h2, _⟩ := getSlice_eq b s e st hsi
      rw [h1] at h; injection h with h; subst h; exact h2

/-- one mutating operation (`b[i]=v`, `b[s:e:k]=v`, `b[list]=v`, `b.size=n`, `zeroextend`, `signextend`) keeps the
    payload within the size -/
theorem applyOp_wf (b : Bits) (hb : b.WF) (op : MutOp) (hfit : Fits b op) (r : Bits) (h : b.applyOp op = .ok r) :
    r.WF := by
  cases op with
  | setInt i v => exact setInt_wf b hb i v r h
  | setSlice start stop step v =>
    have h' : b.setSlice start stop step v = .ok r := h
    cases hsi : sliceIndices start stop step b.size with
    | error err => unfold setSlice at h'; rw [hsi] at h'; cases h'
    | ok t =>
      obtain ⟨s, e, st⟩ := t
      exact (setSlice_spec b hb start stop step v hsi (hfit s e st hsi) r h').1
  | setList idx v => exact (setList_spec b hb idx v r h).2.1
  | setSize n => injection h with h; subst h; exact setSize_wf _ _
  | zeroextend n => injection h with h; subst h; exact zeroextend_wf b hb n
  | signextend n => exact (signextend_spec b hb n r h).1

/-- invariant over histories: after ANY sequence of mutating operations (each fitting) the payload is within the size -/
theorem runOps_wf (ops : List MutOp) (b : Bits) (hb : b.WF) (hfit : AllFit b ops) (r : Bits)
    (h : b.runOps ops = .ok r) : r.WF := by
  induction ops generalizing b with
  | nil => injection h with h; subst h; exact hb
  | cons op ops ih =>
    unfold runOps at h
    cases h1 : b.applyOp op with
    | error e => rw [h1] at h; cases h
    | ok b' =>
      rw [h1] at h
      exact ih b' (applyOp_wf b hb op hfit.1 b' h1) (hfit.2 b' h1) h

/-- ... and after every step of it, not only the last one -/
theorem runOps_prefix_wf (ops : List MutOp) (b : Bits) (hb : b.WF) (hfit : AllFit b ops) (k : Nat) (r : Bits)
    (h : b.runOps (ops.take k) = .ok r) : r.WF := by
  apply runOps_wf (ops.take k) b hb _ r h
  clear h
  induction ops generalizing b k with
  | nil => simp [AllFit]
  | cons op ops ih =>
    cases k with
    | zero => simp [AllFit]
    | succ k =>
      simp only [List.take_succ_cons, AllFit]
      refine ⟨hfit.1, ?_⟩
      intro b' hb'
      exact ih b' (applyOp_wf b hb op hfit.1 b' hb') (hfit.2 b' hb') k

/-! ## Non-vacuity: every hypothesis set above is inhabited by a non-trivial instance -/

-- well-formed operands of different sizes; the int operand 300 has bit_length 9
example : (⟨5, 3⟩ : Bits).WF ∧ (⟨200, 8⟩ : Bits).WF ∧ (ofNat 300).size = 9 := by decide
example : (⟨5, 3⟩ : Bits).add ⟨200, 8⟩ = ⟨205, 8⟩ ∧ (⟨5, 3⟩ : Bits).sub ⟨200, 8⟩ = ⟨61, 8⟩ ∧
    (⟨1, 8⟩ : Bits).rsub 300 = ⟨299, 9⟩ ∧ (⟨1, 4⟩ : Bits).neg = ⟨15, 4⟩ ∧ (⟨3, 4⟩ : Bits).mul 7 = ⟨5, 4⟩ := by decide
-- rotations: 0 ≤ k ≤ size on a well-formed vector, k = size and k = 0 included
example : (⟨11, 4⟩ : Bits).WF ∧ 3 ≤ (⟨11, 4⟩ : Bits).size ∧ (⟨11, 4⟩ : Bits).rol 3 = .ok ⟨13, 4⟩ ∧
    (⟨11, 4⟩ : Bits).rol 4 = .ok ⟨11, 4⟩ ∧ (⟨11, 4⟩ : Bits).ror 1 = .ok ⟨13, 4⟩ := ⟨by decide, by decide, rfl, rfl, rfl⟩
-- split / concat: k ≥ 1 with a ragged last piece, non-empty vector; 0 < |o| ≤ |a|
example : (⟨0b1011011, 7⟩ : Bits).split 3 = .ok [⟨3, 3⟩, ⟨3, 3⟩, ⟨1, 1⟩] := rfl
example : (0 : Nat) < (⟨1, 2⟩ : Bits).size ∧ (⟨1, 2⟩ : Bits).size ≤ (⟨5, 3⟩ : Bits).size ∧
    ((⟨5, 3⟩ : Bits).concat ⟨1, 2⟩).split 3 = .ok [⟨5, 3⟩, ⟨1, 2⟩] := ⟨by decide, by decide, rfl⟩
-- sign extension of a negative value: succeeds, value -3 preserved
example : (⟨5, 3⟩ : Bits).signextend 8 = .ok ⟨253, 8⟩ := rfl
-- index expressions: a stepped slice with negative start, a negative step, a list with repeats
example : sliceIndices (some (-2)) none (some (-2)) 7 = .ok (5, -1, -2) ∧ Py.range 5 (-1) (-2) = [5, 3, 1] ∧
    (⟨0b1011011, 7⟩ : Bits).getSlice (some (-2)) none (some (-2)) = .ok ⟨0b110, 3⟩ := ⟨rfl, by decide, rfl⟩
example : (⟨0b1011011, 7⟩ : Bits).getList [0, 0, 2, 6] = .ok ⟨0b1011, 4⟩ := rfl
-- assignments: a contiguous slice with a value that fits (shorter than the selection), a stepped slice, a list with a repeat
example : sliceIndices (some 1) (some 5) none 7 = .ok (1, 5, 1) ∧ (3 : Nat) < 2 ^ ((5 : Int) - 1).toNat ∧
    (⟨0b1111111, 7⟩ : Bits).setSlice (some 1) (some 5) none ⟨3, 2⟩ = .ok ⟨0b1100111, 7⟩ := ⟨rfl, by decide, rfl⟩
example : (⟨0, 7⟩ : Bits).setSlice none none (some 3) ⟨0b101, 3⟩ = .ok ⟨0b1000001, 7⟩ := rfl
example : (⟨0, 4⟩ : Bits).setList [1, -1, 1] ⟨0b011, 3⟩ = .ok ⟨0b1000, 4⟩ := rfl
-- a history whose every step fits, ending within the size
example : AllFit ⟨5, 3⟩ [.signextend 6, .setSlice (some 0) (some 2) none ⟨3, 2⟩, .setSize 4, .setInt (-1) 1] ∧
    (⟨5, 3⟩ : Bits).runOps [.signextend 6, .setSlice (some 0) (some 2) none ⟨3, 2⟩, .setSize 4, .setInt (-1) 1]
      = .ok ⟨15, 4⟩ := by
  refine ⟨?_, rfl⟩
  refine ⟨trivial, ?_⟩
  intro b1 h1
  have e1 : b1 = ⟨61, 6⟩ := by
    have : (⟨5, 3⟩ : Bits).applyOp (.signextend 6) = .ok ⟨61, 6⟩ := rfl
    rw [this] at h1; injection h1 with h1; exact h1.symm
  subst e1
  refine ⟨?_, ?_⟩
  · intro s e st hsi _ _
    have : sliceIndices (some 0) (some 2) none (6 : Nat) = .ok (0, 2, 1) := rfl
    simp only [this] at hsi
    injection hsi with hsi
    simp only [Prod.mk.injEq] at hsi
    obtain ⟨rfl, rfl, rfl⟩ := hsi
    decide
  · intro b2 _
    exact ⟨trivial, fun b3 _ => ⟨trivial, fun _ _ => trivial⟩⟩
-- the out-of-domain case the hypothesis `Fits` excludes really breaks the invariant (so the hypothesis is needed)
example : (⟨0, 4⟩ : Bits).setSlice (some 2) (some 4) none ⟨7, 3⟩ = .ok ⟨28, 4⟩ ∧ ¬ (⟨28, 4⟩ : Bits).WF := ⟨rfl, by decide⟩

end Proofs.C08
