/-
  C02 (DES part) — sanity of the SPECIFICATION lean/Spec/Des.lean, whose tables were typed from FIPS PUB 46-3.
  Kernel-checked structural facts that every correct transcription of the standard satisfies and that a typing error
  in a table almost always violates (a wrong entry of a permutation table makes it a non-permutation or breaks
  IP⁻¹∘IP = id; a wrong entry of IP / E breaks the generating pattern; a wrong S-box entry repeats a value in its row;
  a wrong PC-1 / PC-2 entry repeats a position, picks a parity bit or one of the eight omitted positions), and the
  classic known answers evaluated through Spec.Des in the kernel (Proofs/C02_DesSpec/{Kat,Weak}.lean).  What this does NOT establish: that P, PC-2's order,
  and the S-box rows are THE permutations of the standard (any other permutation passes the structural test; the known
  answers and the correspondence stream against props/parts/desref.py are the evidence there).
-/
import Spec.Des
namespace Proofs.C02_DesSpec
open Spec.Des

/-- tbl lists every number of 1..n exactly once -/
def IsPermOf (n : Nat) (tbl : List Nat) : Prop := tbl.length = n ∧ tbl.Nodup ∧ ∀ k ∈ tbl, 1 ≤ k ∧ k ≤ n

/-- tbl lists every number of 0..n-1 exactly once -/
def IsPermOf0 (n : Nat) (tbl : List Nat) : Prop := tbl.length = n ∧ tbl.Nodup ∧ ∀ k ∈ tbl, k < n

instance (n : Nat) (tbl : List Nat) : Decidable (IsPermOf n tbl) := by unfold IsPermOf; infer_instance
instance (n : Nat) (tbl : List Nat) : Decidable (IsPermOf0 n tbl) := by unfold IsPermOf0; infer_instance

/-! ### IP and IP⁻¹ -/

theorem IP_is_permutation : IsPermOf 64 IP := by decide +kernel
theorem IPinv_is_permutation : IsPermOf 64 IPinv := by decide +kernel

/-- the tables are inverse to each other, position by position (1-based entries) -/
theorem IP_IPinv_tables_inverse :
    ∀ i, i < 64 → IP.getD (IPinv.getD i 0 - 1) 0 = i + 1 ∧ IPinv.getD (IP.getD i 0 - 1) 0 = i + 1 := by
  decide +kernel

/-- composing two table permutations whose tables are inverse gives the identity on n-bit strings -/
theorem permute_permute_of_inverse {n : Nat} {t1 t2 : List Nat} (x : Bitstr)
    (h2 : t2.length = n) (hx : x.length = n)
    (hr : ∀ i, i < n → 1 ≤ t2.getD i 0 ∧ t2.getD i 0 ≤ t1.length)
    (hinv : ∀ i, i < n → t1.getD (t2.getD i 0 - 1) 0 = i + 1) :
    permute t2 (permute t1 x) = x := by
  apply List.ext_getElem
  · simp [permute, h2, hx]
  · intro i hi hi'
    have hin : i < n := by rw [← hx]; exact hi'
    have hi2 : i < t2.length := by omega
    have h2i : t2.getD i 0 = t2[i] := by simp [List.getD_eq_getElem?_getD, List.getElem?_eq_getElem hi2]
    have hri := hr i hin
    have hinvi := hinv i hin
    rw [h2i] at hri hinvi
    have hlt : t2[i] - 1 < t1.length := by omega
    have h1i : t1.getD (t2[i] - 1) 0 = t1[t2[i] - 1] := by
      simp [List.getD_eq_getElem?_getD, List.getElem?_eq_getElem hlt]
    rw [h1i] at hinvi
    simp only [permute, List.getElem_map]
    rw [List.getD_eq_getElem?_getD, List.getElem?_map, List.getElem?_eq_getElem hlt]
    simp only [Option.map_some, Option.getD_some, hinvi, Nat.add_sub_cancel]
    simp [List.getD_eq_getElem?_getD, List.getElem?_eq_getElem hi']

/-- **IP⁻¹ ∘ IP = id and IP ∘ IP⁻¹ = id** on every 64-bit block -/
theorem IPinv_IP (x : Bitstr) (hx : x.length = 64) : permute IPinv (permute IP x) = x :=
  permute_permute_of_inverse x (by decide) hx
    (by have h : ∀ i, i < 64 → 1 ≤ IPinv.getD i 0 ∧ IPinv.getD i 0 ≤ IP.length := by decide +kernel
        exact h)
    (fun i hi => (IP_IPinv_tables_inverse i hi).1)

theorem IP_IPinv (x : Bitstr) (hx : x.length = 64) : permute IP (permute IPinv x) = x :=
  permute_permute_of_inverse x (by decide) hx
    (by have h : ∀ i, i < 64 → 1 ≤ IP.getD i 0 ∧ IP.getD i 0 ≤ IPinv.length := by decide +kernel
        exact h)
    (fun i hi => (IP_IPinv_tables_inverse i hi).2)

/-- IP by its generating pattern: write the input block as 8 rows (bytes) of 8 bits; output row r reads one input
    COLUMN from the bottom row upwards (entries decrease by 8), the even columns 2,4,6,8 first, then the odd columns
    1,3,5,7:  58 50 42 … 2 / 60 52 … 4 / … / 57 49 … 1 / … / 63 55 … 7 -/
theorem IP_follows_pattern :
    IP = (List.range 64).map fun i =>
      let r := i / 8
      let c := i % 8
      (if r < 4 then 2 * r + 2 else 2 * (r - 4) + 1) + 8 * (7 - c) := by
  decide +kernel

/-- hence IP⁻¹'s pattern: 40 8 48 16 56 24 64 32 / 39 7 47 15 … : row r, column c (0-based) holds
    8·(c/2) + (if c even then 40 else 8) − r -/
theorem IPinv_follows_pattern :
    IPinv = (List.range 64).map fun i =>
      let r := i / 8
      let c := i % 8
      8 * (c / 2) + (if c % 2 = 0 then 40 else 8) - r := by
  decide +kernel

/-! ### E and P -/

/-- E is the expansion defined by its rule: the 32 bits in 8 groups of 4, each group extended by the last bit of the
    previous group and the first bit of the next one (cyclically): entry j of group g is bit ((4g + j − 1) mod 32) + 1 -/
theorem E_follows_rule :
    E = (List.range 48).map fun i => (4 * (i / 6) + i % 6 + 31) % 32 + 1 := by
  decide +kernel

theorem P_is_permutation : IsPermOf 32 P := by decide +kernel

/-! ### the key schedule tables -/

/-- PC-1 selects each of the 56 non-parity bits of the key exactly once and never a parity bit 8, 16, …, 64 -/
theorem PC1_selects_nonparity_bits :
    PC1.length = 56 ∧ PC1.Nodup ∧ ∀ k, k < 65 → (k ∈ PC1 ↔ 1 ≤ k ∧ k % 8 ≠ 0) := by
  decide +kernel

/-- PC-1 by its generating pattern: the C half reads the key bytes' bit columns 1, 2, 3 from the bottom and the lower
    half of column 4; the D half columns 7, 6, 5 and then the upper half of column 4 -/
theorem PC1_follows_pattern :
    PC1 = (List.range 28).map (fun i => if i < 24 then 57 - 8 * (i % 8) + i / 8 else 60 - 8 * (i - 24))
        ++ (List.range 28).map (fun i => if i < 24 then 63 - 8 * (i % 8) - i / 8 else 28 - 8 * (i - 24)) := by
  decide +kernel

/-- PC-2 selects 48 distinct positions of C‖D (1..56), omitting exactly 9, 18, 22, 25 (of C) and 35, 38, 43, 54 (of D);
    its first 24 entries come from C (≤ 28) and its last 24 from D (> 28) -/
theorem PC2_selects_48_of_56 :
    PC2.length = 48 ∧ PC2.Nodup ∧
    (∀ k, k < 57 → (k ∈ PC2 ↔ 1 ≤ k ∧ k ∉ [9, 18, 22, 25, 35, 38, 43, 54])) ∧
    (∀ k ∈ PC2, 1 ≤ k ∧ k ≤ 56) ∧
    (∀ k ∈ PC2.take 24, k ≤ 28) ∧ (∀ k ∈ PC2.drop 24, 28 < k) := by
  decide +kernel

/-- the shift schedule: 16 iterations, one or two places each, 28 in total (C16 D16 = C0 D0), single shifts exactly in
    iterations 1, 2, 9, 16 -/
theorem shifts_sum_to_28 :
    shifts.length = 16 ∧ shifts.foldl (· + ·) 0 = 28 ∧
    ∀ i, i < 16 → shifts.getD i 0 = if i ∈ [0, 1, 8, 15] then 1 else 2 := by
  decide +kernel

theorem rotl_rotl (a b : Nat) (y : Bitstr) (h : a + b ≤ y.length) : rotl a (rotl b y) = rotl (b + a) y := by
  simp only [rotl]
  have h1 : a ≤ (y.drop b).length := by simp; omega
  rw [List.drop_append_of_le_length h1, List.take_append_of_le_length h1, List.drop_drop, List.take_add,
    List.append_assoc]

theorem foldl_rotl (ss : List Nat) (acc : Nat) (x : Bitstr) (h : acc + ss.foldl (· + ·) 0 ≤ x.length) :
    ss.foldl (fun c s => rotl s c) (rotl acc x) = rotl (acc + ss.foldl (· + ·) 0) x := by
  induction ss generalizing acc with
  | nil => simp
  | cons s ss ih =>
    have hs : ∀ (l : List Nat) (k : Nat), l.foldl (· + ·) k = k + l.foldl (· + ·) 0 := by
      intro l; induction l with
      | nil => simp
      | cons a l ih => intro k; simp only [List.foldl_cons]; rw [ih (k + a), ih (0 + a)]; omega
    simp only [List.foldl_cons] at h ⊢
    rw [hs ss (0 + s)] at h ⊢
    rw [rotl_rotl s acc x (by omega), ih (acc + s) (by omega)]
    congr 1; omega

/-- … so after the sixteen iterations the halves are back where they started (this is what makes deciphering with the
    reversed key order work with right shifts) -/
theorem rotl_total (x : Bitstr) (hx : x.length = 28) : shifts.foldl (fun c s => rotl s c) x = x := by
  have h0 : rotl 0 x = x := by simp [rotl]
  have hsum : shifts.foldl (· + ·) 0 = 28 := by decide
  have h := foldl_rotl shifts 0 x (by rw [hsum, hx]; decide)
  rw [h0, hsum] at h
  rw [h]
  simp [rotl, ← hx]

/-! ### the S-boxes -/

/-- eight S-boxes of four rows; every row is a permutation of 0..15 -/
theorem sbox_rows_are_permutations :
    Sboxes.length = 8 ∧ ∀ S ∈ Sboxes, S.length = 4 ∧ ∀ row ∈ S, IsPermOf0 16 row := by
  decide +kernel

/-- the example of FIPS 46-3 (description of the selection functions): S1(011011) = 0101 (row 01, column 1101 → 5) -/
theorem sbox_example : sbox 0 [false, true, true, false, true, true] = [false, true, false, true] := by
  decide +kernel

end Proofs.C02_DesSpec
