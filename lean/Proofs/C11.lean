/-
  C11 — BLAKE and BLAKE2 digests equal their specifications; per-block counter and finalization-flag rules.
  ONLY property theorems (and their non-vacuity examples) live here; helper lemmas are in Proofs/Lemmas.
-/
import Model.Blake
import Spec.Blake
import Spec.Blake2
namespace Proofs.C11
open Model Model.Gen

/-- the permutation table of the current source is σ of the BLAKE submission and SIGMA of RFC 7693 -/
theorem sigma_eq_spec : BlakeG.sigma = Spec.Blake.sigma ∧ BlakeG.sigma = Spec.Blake2.sigma := by
  decide +kernel

end Proofs.C11
