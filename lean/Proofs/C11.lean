/-
  C11 — BLAKE and BLAKE2 digests equal their specifications; per-block counter and finalization-flag rules.
  ONLY property theorems (and their non-vacuity examples) live here; helper lemmas are in Proofs/Lemmas.

  Reading guide.  `ofBV x` is the model word (a `Model.Bits` of size w) denoting the specification word `x : BitVec w`;
  `Match c V` (Proofs/Lemmas/BlakeRefine, Blake2Refine) says that every datum the model configuration `c` takes from the
  regenerated `Model.Gen.BlakeG` equals the datum of the specification variant `V`.
-/
import Proofs.Lemmas.BlakeRefine
import Proofs.Lemmas.Blake2Refine
import Proofs.Lemmas.BlakeTrace
import Proofs.Lemmas.Blake2End
import Proofs.Lemmas.BlakeEnd
import Proofs.Lemmas.BlakeFull
import Proofs.Lemmas.BlakeStream
namespace Proofs.C11
open Model Model.Gen Proofs.Lemmas Proofs.Lemmas.BlakeWords

/-! ## tables and constants of the current source = the specifications -/

/-- the permutation table of the current source is σ of the BLAKE submission and SIGMA of RFC 7693 -/
theorem sigma_eq_spec : BlakeG.sigma = Spec.Blake.sigma ∧ BlakeG.sigma = Spec.Blake2.sigma := by
  decide +kernel

/-- every sigma row is a permutation of 0..15 (all ten rows, complete check) -/
theorem sigma_rows_are_permutations :
    ∀ row ∈ BlakeG.sigma, ∀ j < 16, (row.filter (· = j)).length = 1 ∧ row.length = 16 := by
  decide +kernel

/-- BLAKE: constants, IVs, round counts, rotation amounts, word / block / digest sizes read from the live objects
    `Blake(224)`, `Blake(256)`, `Blake(384)`, `Blake(512)` are those of the submission -/
theorem blake_data_eq_spec :
    BlakeRefine.Match Blake.blake224 Spec.Blake.blake224 ∧ BlakeRefine.Match Blake.blake256 Spec.Blake.blake256 ∧
    BlakeRefine.Match Blake.blake384 Spec.Blake.blake384 ∧ BlakeRefine.Match Blake.blake512 Spec.Blake.blake512 := by
  refine ⟨?_, ?_, ?_, ?_⟩ <;> constructor <;> decide +kernel

/-- BLAKE2: IV, round counts, rotation amounts, geometry of `Blake2(512)`, `Blake2(256)` are those of RFC 7693 -/
theorem blake2_data_eq_spec :
    Blake2Refine.Match Blake2.blake2b Spec.Blake2.blake2b ∧ Blake2Refine.Match Blake2.blake2s Spec.Blake2.blake2s := by
  refine ⟨?_, ?_⟩ <;> constructor <;> decide +kernel

/-- the 32-bit constants are the module's 64-bit π digits re-chunked (high half first), in the code and in the submission;
    the module's `PI` is the 64-bit constant table of the submission -/
theorem pi_constants_rechunked :
    BlakeG.c256 = (BlakeG.pi64.take 8).flatMap (fun x => [x / 2 ^ 32, x % 2 ^ 32]) ∧ BlakeG.c224 = BlakeG.c256 ∧
    BlakeG.c512 = BlakeG.pi64 ∧ BlakeG.c384 = BlakeG.pi64 ∧ BlakeG.pi64 = Spec.Blake.c64.map BitVec.toNat ∧
    Spec.Blake.c32 = (Spec.Blake.c64.take 8).flatMap (fun x => [x.extractLsb' 32 32, x.extractLsb' 0 32]) := by
  decide +kernel

/-- BLAKE2's IV is the SHA-2 IV (that of BLAKE-512 / BLAKE-256), in the specification and in the code -/
theorem blake2_iv_is_sha2_iv :
    Spec.Blake2.ivB = Spec.Blake.iv512 ∧ Spec.Blake2.ivS = Spec.Blake.iv256 ∧
    BlakeG.b2iv512 = BlakeG.iv512 ∧ BlakeG.b2iv256 = BlakeG.iv256 := by
  decide +kernel

/-- the G call schedule found in the source is columns then diagonals, as both specifications order them -/
theorem gschedule_eq_spec :
    BlakeG.gsched = (List.range 8).map (fun i => [i, (Spec.Blake.positions i).1, (Spec.Blake.positions i).2.1,
      (Spec.Blake.positions i).2.2.1, (Spec.Blake.positions i).2.2.2]) ∧ BlakeG.b2gsched = BlakeG.gsched := by
  decide +kernel

/-! ## G and the compression functions -/

/-- BLAKE: the i-th G call of a round of the model is G_i of the submission, for all words -/
theorem G_refines {c : Blake.Cfg} {V : Spec.Blake.Variant} (hm : BlakeRefine.Match c V)
    (W v : List (BitVec V.w)) (hW : W.length = 16) (hv : v.length = 16) (r i : Nat) (hi : i < 8) :
    Blake.gstep c (W.map ofBV) r (v.map ofBV) (BlakeG.gsched.getD i []) = (Spec.Blake.Gi V W r v i).map ofBV :=
  BlakeRefine.gstep_refines hm W v hW hv r i hi

/-- BLAKE2: the i-th G call of a round of the model is the i-th G call of RFC 7693, for all words -/
theorem G2_refines {c : Blake.Cfg} {V : Spec.Blake2.Variant} (hm : Blake2Refine.Match c V)
    (W v : List (BitVec V.w)) (hW : W.length = 16) (hv : v.length = 16) (r i : Nat) (hi : i < 8) :
    Blake2.gstep c (W.map ofBV) r (v.map ofBV) (BlakeG.b2gsched.getD i []) = (Spec.Blake2.Gi V W r v i).map ofBV :=
  Blake2Refine.gstep_refines hm W v hW hv r i hi

/-- BLAKE: the loop body of `Blake.update` is the compression function of the submission: for every chain value, salt,
    message block and counter (any `cnt`, also beyond 2^w and 2^2w: the low/high word split agrees) -/
theorem compress_refines {c : Blake.Cfg} {V : Spec.Blake.Variant} (hm : BlakeRefine.Match c V)
    (H salt W : List (BitVec V.w)) (hH : H.length = 8) (hs : salt.length = 4) (hW : W.length = 16) (cnt : Nat) :
    Blake.compress c (H.map ofBV) (salt.map ofBV) (W.map ofBV) cnt = (Spec.Blake.compress V H W salt cnt).map ofBV :=
  (BlakeRefine.compress_refines hm H salt W hH hs hW cnt).1

/-- BLAKE2: the loop body of `Blake2.update` is F of RFC 7693: for every chain value, block, byte counter and flag -/
theorem compress2_refines {c : Blake.Cfg} {V : Spec.Blake2.Variant} (hm : Blake2Refine.Match c V)
    (H W : List (BitVec V.w)) (hH : H.length = 8) (hW : W.length = 16) (t : Nat) (fin : Bool) :
    Blake2.compress c (H.map ofBV) (W.map ofBV) t fin = (Spec.Blake2.F V H W t fin).map ofBV :=
  (Blake2Refine.compress_refines hm H W hH hW t fin).1

/-- non-vacuity of the hypotheses of the refinement theorems: a configuration/variant pair with matching data exists for
    every member of both families (the theorems above), and word lists of the required lengths exist -/
example : ∃ (H salt W : List (BitVec Spec.Blake.blake256.w)), H.length = 8 ∧ salt.length = 4 ∧ W.length = 16 ∧ W ≠ List.replicate 16 0 :=
  ⟨List.replicate 8 1, List.replicate 4 2, List.replicate 16 3, by simp, by simp, by simp, by decide⟩

/-! ## counter and finalization-flag rules -/

/-- BLAKE: the counter fed with the i-th block is the number of message bits hashed up to and including that block,
    `min(L,(i+1)·B)` on top of the bits fed before this call, and 0 for a block holding only padding; there are
    ⌈(L+2+2w)/B⌉ blocks.  For every size, every earlier counter value (so also across 2^w), every message and bit length. -/
theorem blake_counter (c : Blake.Cfg) (hc : c = Blake.blake224 ∨ c = Blake.blake256 ∨ c = Blake.blake384 ∨ c = Blake.blake512)
    (s : Blake.State) (hpf : s.pad.padflag = false) (M : List Nat) (bitlen : Option Nat)
    (hL : bitlen.getD (8 * M.length) ≤ 8 * M.length) :
    (Blake.trace c s M bitlen true).map (·.2) =
      (List.range ((bitlen.getD (8 * M.length) + 2 * c.wsize + 1 + c.blocksize) / c.blocksize)).map
        (fun i => if i * c.blocksize < bitlen.getD (8 * M.length)
          then s.pad.bitcnt + min (bitlen.getD (8 * M.length)) ((i + 1) * c.blocksize) else 0) := by
  have key := fun h hh => (BlakeTrace.blake_yields_core h (Padder.blakeP h).blocksize (Padder.blakeW h) hh rfl s.pad hpf M bitlen _ rfl hL).2
  simp only [Blake.trace, List.map_map]
  rcases hc with rfl | rfl | rfl | rfl
  · exact key 224 (by decide)
  · exact key 256 (by decide)
  · exact key 384 (by decide)
  · exact key 512 (by decide)

/-- non-vacuity for `blake_counter`: a fresh state, a preset state near 2^32, a bit length inside the message -/
example : (Blake.initstate Blake.blake256 5).pad.padflag = false ∧
    ({ Blake.initstate Blake.blake256 5 with pad := { bitcnt := 2 ^ 32 - 512 } } : Blake.State).pad.padflag = false ∧
    (some 13 : Option Nat).getD (8 * [1, 2, 3].length) ≤ 8 * [1, 2, 3].length := by decide

/-- BLAKE2: the byte counter fed with the i-th block is `min(|M|,(i+1)·bb)` on top of the bytes fed before this call
    (0 for the single zero block of an empty message); there are max(1,⌈|M|/bb⌉) blocks -/
theorem blake2_counter (c : Blake.Cfg) (hc : c = Blake2.blake2b ∨ c = Blake2.blake2s)
    (pad : PadState) (hpf : pad.padflag = false) (M : List Nat) :
    (Blake2.trace c pad M true).map (·.2.1) =
      (List.range (if M.length = 0 then 1 else (8 * M.length + c.blocksize - 1) / c.blocksize)).map
        (fun i => (if M.length = 0 then 0 else pad.bitcnt + min (8 * M.length) ((i + 1) * c.blocksize)) / 8) := by
  rw [BlakeTrace.trace_counters]
  have key := fun B hB => (BlakeTrace.null_yields_core B hB pad hpf M).2
  rcases hc with rfl | rfl
  · have := key 1024 (by decide)
    rw [show (fun (x : List Nat × PadState) => x.2.bitcnt / 8) = (fun n => n / 8) ∘ (fun x => x.2.bitcnt) from rfl,
      ← List.map_map]
    erw [this]; simp [List.map_map, Blake2.blake2b, Blake.Cfg.blocksize]
  · have := key 512 (by decide)
    rw [show (fun (x : List Nat × PadState) => x.2.bitcnt / 8) = (fun n => n / 8) ∘ (fun x => x.2.bitcnt) from rfl,
      ← List.map_map]
    erw [this]; simp [List.map_map, Blake2.blake2s, Blake.Cfg.blocksize]

/-- BLAKE2: within a padding (final) call the finalization flag is set on the last block and on no other; a
    non-padding call (`update(M)` of a streamed message) sets it on no block.  For every state and message. -/
theorem final_flag_iff_last (c : Blake.Cfg) (pad : PadState) (M : List Nat) (padding : Bool) :
    (Blake2.trace c pad M padding).map (·.2.2) =
      (List.range (Blake2.trace c pad M padding).length).map
        (fun i => padding && i + 1 == (Blake2.trace c pad M padding).length) := by
  rw [BlakeTrace.trace_flags, BlakeTrace.trace_length]

/-! ## BLAKE2: parameter block, digest length, end to end -/

/-- the parameter block `Blake2.paramblock` builds from the keyword arguments is the layout of the BLAKE2 specification
    (digest length, key length 0, fanout, depth, leaf length, node offset on 8 / 6 bytes, node depth, inner length,
    14 reserved bytes for BLAKE2b, salt, personalization), for all parameters in range -/
theorem paramblock_layout {c : Blake.Cfg} {V : Spec.Blake2.Variant} (h : Blake2End.Pair c V)
    (sp : Spec.Blake2.Params) (hv : sp.valid V) :
    Blake2.paramBytes c sp.digestLength (Blake2End.toModel sp) sp.salt sp.personal = Spec.Blake2.paramBlock V sp :=
  Blake2End.paramBytes_eq h sp hv

/-- `initstate(**params)` starts the chain value as IV xor parameter block, with the per-call digest length -/
theorem blake2_init_refines {c : Blake.Cfg} {V : Spec.Blake2.Variant} (h : Blake2End.Pair c V)
    (sp : Spec.Blake2.Params) (hv : sp.valid V) :
    Blake2.initstate c (Blake2End.toModel sp) =
      .ok { H := (Spec.Blake2.init V sp).map ofBV, pad := {}, outlen := sp.digestLength, t := 0 } :=
  Blake2End.init_refines h sp hv

/-- BLAKE2b / BLAKE2s END TO END: for every byte string and all parameters in range (digest length 1..64/32, salt,
    personalization, fanout, depth, leaf length, node offset, node depth, inner length) the call of the model returns
    exactly the RFC 7693 digest.  (`Blake2End.toModel sp` are the keyword arguments denoting `sp`; `Pair c V` is
    (blake2b, BLAKE2b) or (blake2s, BLAKE2s).) -/
theorem blake2_refines {c : Blake.Cfg} {V : Spec.Blake2.Variant} (h : Blake2End.Pair c V)
    (sp : Spec.Blake2.Params) (hv : sp.valid V) (M : List Nat) (hM : ∀ b ∈ M, b < 256) :
    Blake2.call c M (Blake2End.toModel sp) = .ok (Spec.Blake2.hash V sp M) :=
  Blake2End.blake2_call_eq h sp hv M hM

/-- BLAKE2 THROUGH THE STREAMING INTERFACE: `initstate(**params); update(p1) … update(pk); update(final, padding=True)`
    with whole-block pieces (any number, any number of blocks each, empty ones too) and a non-empty final piece returns
    the RFC 7693 digest of p1‖…‖pk‖final for the parameters given to THAT `initstate` — the finalization flag is set on
    the last block of the final piece only (`final_flag_iff_last`), and nothing but the configuration and the keyword
    arguments enters `Blake2.initstate`, so neither an earlier call on the object nor an earlier stream does.  (The
    empty final piece after data is the known finding of C14, outside this statement.) -/
theorem blake2_streamed_refines {c : Blake.Cfg} {V : Spec.Blake2.Variant} (h : Blake2End.Pair c V)
    (sp : Spec.Blake2.Params) (hv : sp.valid V) (pieces : List (List Nat))
    (hal : ∀ p ∈ pieces, p.length % (c.blocksize / 8) = 0) (final : List Nat) (hf : final ≠ [])
    (hM : ∀ b ∈ pieces.flatten ++ final, b < 256) :
    (Blake2.initstate c (Blake2End.toModel sp)).bind
        (fun s => (Blake2.update c (Blake2.feed c s pieces) final true).2)
      = .ok (Spec.Blake2.hash V sp (pieces.flatten ++ final)) := by
  have hc : c = Blake2.blake2b ∨ c = Blake2.blake2s := by
    rcases h with ⟨rfl, _⟩ | ⟨rfl, _⟩
    · exact Or.inl rfl
    · exact Or.inr rfl
  have hcall := blake2_refines h sp hv (pieces.flatten ++ final) hM
  have hinit := blake2_init_refines h sp hv
  simp only [Blake2.call, bind, hinit, Except.bind] at hcall ⊢
  rw [(BlakeStream.blake2_feed c hc pieces hal final hf _ rfl).1]
  exact hcall

/-- non-vacuity: two whole-block pieces (one of two blocks) and a short final piece, BLAKE2s -/
example : (∀ p ∈ [List.replicate 64 1, List.replicate 128 2], p.length % (Blake2.blake2s.blocksize / 8) = 0) ∧
    ([3, 4, 5] : List Nat) ≠ [] := by
  have h64 : Blake2.blake2s.blocksize / 8 = 64 := by decide
  refine ⟨?_, by simp⟩
  intro p hp
  simp only [List.mem_cons, List.not_mem_nil, or_false] at hp
  rcases hp with rfl | rfl <;> simp [h64]

/-- BLAKE2: the returned digest has exactly the requested length -/
theorem blake2_digest_length {c : Blake.Cfg} {V : Spec.Blake2.Variant} (h : Blake2End.Pair c V)
    (sp : Spec.Blake2.Params) (hv : sp.valid V) (M : List Nat) (hM : ∀ b ∈ M, b < 256) (d : List Nat)
    (hd : Blake2.call c M (Blake2End.toModel sp) = .ok d) : d.length = sp.digestLength := by
  rw [blake2_refines h sp hv M hM] at hd
  cases hd
  exact Blake2End.hash_length V (Blake2End.pair_w h).1 sp hv M

/-- a digest length outside 1..wsize is refused (`assert 0<self.outlen<=self.wsize`) -/
theorem blake2_outlen_refused (c : Blake.Cfg) (p : Blake2.Params) (n : Nat) (hn : n = 0 ∨ c.wsize < n) (M : List Nat) :
    ∃ e, Blake2.call c M { p with outlen := some n } = .error e := by
  refine ⟨"AssertionError", ?_⟩
  unfold Blake2.call Blake2.initstate
  simp only [Option.getD_some]
  rw [if_pos (by omega)]
  rfl

/-- non-vacuity: the default parameters (sequential mode, full-length digest, zero salt / personalization) are valid -/
example : (⟨64, 1, 1, 0, 0, 0, 0, List.replicate 16 0, List.replicate 16 0⟩ : Spec.Blake2.Params).valid Spec.Blake2.blake2b := by
  simp [Spec.Blake2.Params.valid, Spec.Blake2.blake2b, Spec.Blake2.Variant.maxOut]
example : (⟨17, 2, 3, 1000, 5, 1, 9, List.replicate 8 255, List.replicate 8 7⟩ : Spec.Blake2.Params).valid Spec.Blake2.blake2s := by
  simp [Spec.Blake2.Params.valid, Spec.Blake2.blake2s, Spec.Blake2.Variant.maxOut]
example : Blake2End.Pair Blake2.blake2b Spec.Blake2.blake2b := Or.inl ⟨rfl, rfl⟩

/-! ## BLAKE: end to end, digest length -/

/-- the padding rule of the BLAKE submission as written in Spec.Blake (1, zeros, marker bit, 2w-bit length) is the
    `blake` scheme of Spec.Padding, the one property C09 proves `Blakepadding.iterblocks` to emit -/
theorem blake_padding_is_c09_scheme {c : Blake.Cfg} {V : Spec.Blake.Variant} (h : BlakeEnd.Pair c V) (bits : List Bool) :
    bits ++ Spec.Blake.padding V bits.length
      = Spec.Padding.pad (.blake c.size) (Padder.blakeP c.size).blocksize bits :=
  BlakeFull.padding_eq h bits

/-- the blocks `Blakepadding.iterblocks` yields in a one-shot call, each read as sixteen big-endian words and compressed
    with the counter observed at its yield, are the submission's padded message cut into blocks with the submission's
    counters: for every chain value and salt words (C09 `blocks_concat` / `bitcnt_at_yield` + bit-level block reading) -/
theorem blake_blocks_refine {c : Blake.Cfg} {V : Spec.Blake.Variant} (h : BlakeEnd.Pair c V)
    (M : List Nat) (hM : ∀ b ∈ M, b < 256) (bitlen : Option Nat) (hL : bitlen.getD (8 * M.length) ≤ 8 * M.length)
    (H s : List (BitVec V.w)) :
    ((Padder.blakeP c.size).iterblocks {} M bitlen true).yields.foldl
        (fun h (y : List Nat × PadState) => Spec.Blake.compress V h (BlakeEnd.beWords V y.1) s y.2.bitcnt) H
      = Spec.Blake.finish V H s 0 (Spec.Blake.msgBits M (bitlen.getD (8 * M.length))) :=
  BlakeFull.fold_eq_finish h M hM bitlen hL H s

/-- BLAKE-224/256/384/512 END TO END: for every byte string M, every salt and every bit length L ≤ 8|M| (or omitted:
    L = 8|M|) the call `Blake(n)(M,salt,bitlen)` of the model returns exactly the digest the BLAKE submission defines for
    the first L bits of M.  (`Pair c V` is (Blake(n), BLAKE-n) for n = 224, 256, 384, 512.) -/
theorem blake_refines {c : Blake.Cfg} {V : Spec.Blake.Variant} (h : BlakeEnd.Pair c V)
    (M : List Nat) (hM : ∀ b ∈ M, b < 256) (salt : Nat) (bitlen : Option Nat)
    (hL : bitlen.getD (8 * M.length) ≤ 8 * M.length) :
    Blake.call c M salt bitlen = .ok (Spec.Blake.hash V M (bitlen.getD (8 * M.length)) salt) := by
  rw [BlakeEnd.blake_call_eq h M salt bitlen hL, BlakeFull.fold_eq_finish h M hM bitlen hL]
  rfl

/-- BLAKE with a preset counter (histories; counters of any size, in particular across 2^w and 2^2w): a final
    `update(M,bitlen,padding=True)` on an object that holds a chain value `H`, salt words `sw`, and whose counter says that
    `st.bitcnt` bits (whole blocks, any number) were absorbed returns the submission's digest continued from there: the
    tail padded with the TOTAL length `st.bitcnt + L` in the length field, block counters `st.bitcnt + …`, 0 for a
    padding-only block.  (`blake_refines` is the case H = IV, counter 0.) -/
theorem blake_final_update_refines {c : Blake.Cfg} {V : Spec.Blake.Variant} (h : BlakeEnd.Pair c V)
    (H sw : List (BitVec V.w)) (hH : H.length = 8) (hs : sw.length = 4)
    (st : PadState) (hpf : st.padflag = false) (hdone : st.bitcnt % c.blocksize = 0)
    (M : List Nat) (hM : ∀ b ∈ M, b < 256) (bitlen : Option Nat) (hL : bitlen.getD (8 * M.length) ≤ 8 * M.length) :
    (Blake.update c ⟨H.map ofBV, sw.map ofBV, st⟩ M bitlen true).2
      = .ok (Spec.Blake.output V
          (Spec.Blake.finish V H sw st.bitcnt (Spec.Blake.msgBits M (bitlen.getD (8 * M.length))))) := by
  have hb : (Padder.blakeP c.size).blocksize = c.blocksize := by
    rcases h with ⟨rfl, rfl⟩ | ⟨rfl, rfl⟩ | ⟨rfl, rfl⟩ | ⟨rfl, rfl⟩ <;> rfl
  exact BlakeFull.blake_update_final h H sw hH hs st hpf (by rw [hb]; exact hdone) M hM bitlen hL

/-- non-vacuity for `blake_final_update_refines`: a counter just below 2^32 that is a whole number of blocks -/
example : ({ bitcnt := 2 ^ 32 - 512 } : PadState).padflag = false ∧ (2 ^ 32 - 512) % Blake.blake256.blocksize = 0 := by decide

/-- BLAKE: every call with a bit length within the message succeeds and returns exactly size/8 bytes -/
theorem blake_digest_length {c : Blake.Cfg} {V : Spec.Blake.Variant} (h : BlakeEnd.Pair c V)
    (M : List Nat) (salt : Nat) (bitlen : Option Nat) (hL : bitlen.getD (8 * M.length) ≤ 8 * M.length) :
    ∃ d, Blake.call c M salt bitlen = .ok d ∧ d.length = c.size / 8 :=
  ⟨_, BlakeEnd.blake_call_eq h M salt bitlen hL,
    BlakeEnd.blake_call_length h M salt bitlen hL _ (BlakeEnd.blake_call_eq h M salt bitlen hL)⟩

/-- a bit length beyond the message is refused; so is a size outside {224,256,384,512} -/
theorem blake_refusals (c : Blake.Cfg) (M : List Nat) (salt L n : Nat) (hL : 8 * M.length < L)
    (hn : n ≠ 224 ∧ n ≠ 256 ∧ n ≠ 384 ∧ n ≠ 512) :
    (∃ e, Blake.call c M salt (some L) = .error e) ∧ (∃ e, Blake.mk? n = .error e) := by
  constructor
  · refine ⟨"PaddingError:input bitlen mismatch", ?_⟩
    simp [Blake.call, Blake.update, Blake.initstate, Padder.iterblocks, hL]
  · refine ⟨"AssertionError", ?_⟩
    simp [Blake.mk?, hn.1, hn.2.1, hn.2.2.1, hn.2.2.2]

example : BlakeEnd.Pair Blake.blake512 Spec.Blake.blake512 := Or.inr (Or.inr (Or.inr ⟨rfl, rfl⟩))
example : (some 13 : Option Nat).getD (8 * [1, 2, 3].length) ≤ 8 * [1, 2, 3].length := by decide
/-- the specification is not degenerate: the submission's test vector, BLAKE-256 of the one-byte message 00 -/
example : Spec.Blake.hash Spec.Blake.blake256 [0] 8 0 =
    [0x0C, 0xE8, 0xD4, 0xEF, 0x4D, 0xD7, 0xCD, 0x8D, 0x62, 0xDF, 0xDE, 0xD9, 0xD4, 0xED, 0xB0, 0xA7,
     0x74, 0xAE, 0x6A, 0x41, 0x92, 0x9A, 0x74, 0xDA, 0x23, 0x10, 0x9E, 0x8F, 0x11, 0x13, 0x9C, 0x87] := by decide +kernel

end Proofs.C11
