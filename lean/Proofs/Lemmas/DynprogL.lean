/-
  Proofs.Lemmas.DynprogL — the table of `dynprog` holds, for every key, a minimum-cardinality collection of items of l
  WITH repetition whose weights sum to the key (and the key is absent iff there is none).  Positive weights.
-/
import Model.Knapsack
namespace Proofs.Lemmas.DynprogL
open Model.Knapsack

/-- c is a collection of items of l (repetition allowed) of total weight x -/
def Rep (l : List Item) (x : Int) (c : List Item) : Prop := (∀ it ∈ c, it ∈ l) ∧ wsum c = x

/-- what a table entry for key y must be -/
def Good (l : List Item) (y : Nat) : Option Entry → Prop
  | some e => e.1 = e.2.length ∧ Rep l y e.2 ∧ ∀ c, Rep l y c → e.1 ≤ c.length
  | none => ∀ c, ¬ Rep l y c

theorem mem_enum (l : List Item) (iw : Nat × Item) : iw ∈ enum l ↔ l[iw.1]? = some iw.2 := by
  unfold enum
  rw [List.mem_iff_getElem?]
  constructor
  · rintro ⟨j, hj⟩
    rw [List.getElem?_zip_eq_some] at hj
    obtain ⟨h1, h2⟩ := hj
    have hjn : j < (List.range l.length).length := by
      rcases Nat.lt_or_ge j (List.range l.length).length with h | h
      · exact h
      · rw [List.getElem?_eq_none h] at h1; cases h1
    rw [List.getElem?_eq_getElem hjn, List.getElem_range] at h1
    cases h1
    exact h2
  · intro h
    refine ⟨iw.1, ?_⟩
    rw [List.getElem?_zip_eq_some]
    refine ⟨?_, h⟩
    have hlt : iw.1 < l.length := by
      rcases Nat.lt_or_ge iw.1 l.length with h' | h'
      · exact h'
      · rw [List.getElem?_eq_none h'] at h; cases h
    rw [List.getElem?_eq_getElem (by simpa using hlt), List.getElem_range]

theorem scan_none (p : Table) (x : Nat) : ∀ (ps : List (Nat × Item)) (best : Option (Nat × Nat)),
    ps.foldl (dpScan p x) best = none →
      best = none ∧ ∀ iw ∈ ps, tget p ((x : Int) - weight iw.2) = none := by
  intro ps
  induction ps with
  | nil => intro best h; exact ⟨h, by simp⟩
  | cons iw ps ih =>
    intro best h
    rw [List.foldl_cons] at h
    obtain ⟨h1, h2⟩ := ih _ h
    unfold dpScan at h1
    cases ht : tget p ((x : Int) - weight iw.2) with
    | none =>
      rw [ht] at h1
      refine ⟨h1, ?_⟩
      intro iw' hm
      rcases List.mem_cons.1 hm with rfl | hm
      · exact ht
      · exact h2 _ hm
    | some e =>
      rw [ht] at h1
      cases best with
      | none => simp at h1
      | some b =>
        obtain ⟨m, im⟩ := b
        simp only at h1
        split at h1 <;> cases h1

theorem scan_some (p : Table) (x : Nat) : ∀ (ps : List (Nat × Item)) (best : Option (Nat × Nat)) (m im : Nat),
    ps.foldl (dpScan p x) best = some (m, im) →
      (best = some (m, im) ∨ ∃ iw ∈ ps, iw.1 = im ∧ ∃ e, tget p ((x : Int) - weight iw.2) = some e ∧ e.1 = m)
      ∧ (∀ iw ∈ ps, ∀ e, tget p ((x : Int) - weight iw.2) = some e → m ≤ e.1)
      ∧ (∀ m0 i0, best = some (m0, i0) → m ≤ m0) := by
  intro ps
  induction ps with
  | nil =>
    intro best m im h
    simp only [List.foldl_nil] at h
    refine ⟨Or.inl h, by simp, ?_⟩
    intro m0 i0 hb; rw [h] at hb; cases hb; exact Nat.le_refl _
  | cons iw ps ih =>
    intro best m im h
    rw [List.foldl_cons] at h
    obtain ⟨h1, h2, h3⟩ := ih _ m im h
    cases ht : tget p ((x : Int) - weight iw.2) with
    | none =>
      have hb : dpScan p x best iw = best := by unfold dpScan; rw [ht]
      rw [hb] at h1 h3
      refine ⟨?_, ?_, h3⟩
      · rcases h1 with h1 | ⟨iw', hm, hh⟩
        · exact Or.inl h1
        · exact Or.inr ⟨iw', List.mem_cons_of_mem _ hm, hh⟩
      · intro iw' hm e he
        rcases List.mem_cons.1 hm with rfl | hm
        · rw [ht] at he; cases he
        · exact h2 _ hm e he
    | some e =>
      cases best with
      | none =>
        have hb : dpScan p x none iw = some (e.1, iw.1) := by unfold dpScan; rw [ht]
        rw [hb] at h1 h3
        have hme : m ≤ e.1 := h3 _ _ rfl
        refine ⟨?_, ?_, by intro m0 i0 hh; cases hh⟩
        · rcases h1 with h1 | ⟨iw', hm, hh⟩
          · cases h1
            exact Or.inr ⟨iw, by simp, rfl, e, ht, rfl⟩
          · exact Or.inr ⟨iw', List.mem_cons_of_mem _ hm, hh⟩
        · intro iw' hm e' he
          rcases List.mem_cons.1 hm with rfl | hm
          · rw [ht] at he; cases he; exact hme
          · exact h2 _ hm e' he
      | some b =>
        obtain ⟨m0, i0⟩ := b
        by_cases hlt : e.1 < m0
        · have hb : dpScan p x (some (m0, i0)) iw = some (e.1, iw.1) := by
            unfold dpScan; rw [ht]; simp [hlt]
          rw [hb] at h1 h3
          have hme : m ≤ e.1 := h3 _ _ rfl
          refine ⟨?_, ?_, ?_⟩
          · rcases h1 with h1 | ⟨iw', hm, hh⟩
            · cases h1
              exact Or.inr ⟨iw, by simp, rfl, e, ht, rfl⟩
            · exact Or.inr ⟨iw', List.mem_cons_of_mem _ hm, hh⟩
          · intro iw' hm e' he
            rcases List.mem_cons.1 hm with rfl | hm
            · rw [ht] at he; cases he; exact hme
            · exact h2 _ hm e' he
          · intro m0' i0' hh; cases hh; omega
        · have hb : dpScan p x (some (m0, i0)) iw = some (m0, i0) := by
            unfold dpScan; rw [ht]; simp [hlt]
          rw [hb] at h1 h3
          have hm0 : m ≤ m0 := h3 _ _ rfl
          refine ⟨?_, ?_, h3⟩
          · rcases h1 with h1 | ⟨iw', hm, hh⟩
            · exact Or.inl h1
            · exact Or.inr ⟨iw', List.mem_cons_of_mem _ hm, hh⟩
          · intro iw' hm e' he
            rcases List.mem_cons.1 hm with rfl | hm
            · rw [ht] at he; cases he; omega
            · exact h2 _ hm e' he

theorem dpTable_length (l : List Item) (x : Nat) : (dpTable l x).length = x + 1 := by
  induction x with
  | zero => rfl
  | succ x ih => simp [dpTable, ih]

theorem dpTable_stable (l : List Item) (y x : Nat) (h : y ≤ x) : ∀ d, (dpTable l (x + d))[y]? = (dpTable l x)[y]? := by
  intro d
  induction d with
  | zero => rfl
  | succ d ih =>
    rw [← Nat.add_assoc]
    show (dpTable l (x + d) ++ [_])[y]? = _
    rw [List.getElem?_append_left (by rw [dpTable_length]; omega), ih]

theorem wsum_nil : wsum [] = 0 := rfl
theorem wsum_cons (it : Item) (c : List Item) : wsum (it :: c) = it.2 + wsum c := by
  simp [wsum, weight]
theorem wsum_append (a b : List Item) : wsum (a ++ b) = wsum a + wsum b := by
  simp [wsum, List.sum_append]

theorem wsum_nonneg (l c : List Item) (hpos : ∀ it ∈ l, 0 < it.2) (hc : ∀ it ∈ c, it ∈ l) : 0 ≤ wsum c := by
  induction c with
  | nil => simp [wsum_nil]
  | cons it rest ih =>
    have h1 := hpos it (hc it (by simp))
    have h2 := ih (fun x hx => hc x (by simp [hx]))
    rw [wsum_cons]; omega

/-- every key of the table is Good -/
theorem dpTable_good (l : List Item) (hpos : ∀ it ∈ l, 0 < it.2) : ∀ (x y : Nat), y ≤ x →
    ∃ e, (dpTable l x)[y]? = some e ∧ Good l y e := by
  intro x
  induction x with
  | zero =>
    intro y hy
    have : y = 0 := by omega
    subst this
    refine ⟨some (0, []), rfl, rfl, ⟨by simp, rfl⟩, by simp⟩
  | succ x ih =>
    intro y hy
    by_cases hyx : y ≤ x
    · obtain ⟨e, he, hg⟩ := ih y hyx
      exact ⟨e, by rw [dpTable_stable l y x hyx 1, he], hg⟩
    · have hy' : y = x + 1 := by omega
      subst hy'
      refine ⟨dpEntry l (dpTable l x) (x + 1), ?_, ?_⟩
      · show (dpTable l x ++ [_])[x + 1]? = _
        have := dpTable_length l x
        rw [← this, List.getElem?_concat_length]
      · -- entries reachable from key x+1
        have hsub : ∀ (it : Item), it ∈ l → ∀ e, tget (dpTable l x) (((x + 1 : Nat) : Int) - weight it) = some e →
            ∃ u : Nat, u ≤ x ∧ ((x + 1 : Nat) : Int) - weight it = u ∧ Good l u (some e) := by
          intro it hit e he
          have hw := hpos it hit
          unfold tget at he
          split at he
          · cases he
          · rename_i hneg
            refine ⟨(((x + 1 : Nat) : Int) - weight it).toNat, ?_, ?_, ?_⟩
            · simp only [weight]; omega
            · simp only [weight] at hneg ⊢; omega
            · have hu : (((x + 1 : Nat) : Int) - weight it).toNat ≤ x := by simp only [weight]; omega
              obtain ⟨e', he', hg⟩ := ih _ hu
              rw [he'] at he
              simp only [Option.join] at he
              subst he
              exact hg
        have hsub_none : ∀ (it : Item), it ∈ l → tget (dpTable l x) (((x + 1 : Nat) : Int) - weight it) = none →
            ((x + 1 : Nat) : Int) - weight it < 0 ∨ ∀ c, ¬ Rep l (((x + 1 : Nat) : Int) - weight it) c := by
          intro it hit he
          have hw := hpos it hit
          unfold tget at he
          split at he
          · rename_i hneg; exact Or.inl hneg
          · rename_i hneg
            right
            have hu : (((x + 1 : Nat) : Int) - weight it).toNat ≤ x := by simp only [weight]; omega
            obtain ⟨e', he', hg⟩ := ih _ hu
            rw [he'] at he
            simp only [Option.join] at he
            subst he
            have hcast : (((((x + 1 : Nat) : Int) - weight it).toNat : Nat) : Int) = ((x + 1 : Nat) : Int) - weight it := by
              omega
            intro c hc
            exact hg c (by rw [hcast]; exact hc)
        -- decompose any representation of x+1
        have hdecomp : ∀ c, Rep l ((x + 1 : Nat) : Int) c → ∃ it c', c = it :: c' ∧ it ∈ l
            ∧ Rep l (((x + 1 : Nat) : Int) - weight it) c' := by
          intro c hc
          cases c with
          | nil => have := hc.2; rw [wsum_nil] at this; omega
          | cons it c' =>
            refine ⟨it, c', rfl, hc.1 it (by simp), fun z hz => hc.1 z (by simp [hz]), ?_⟩
            have := hc.2; rw [wsum_cons] at this; simp only [weight]; omega
        unfold dpEntry
        cases hscan : (enum l).foldl (dpScan (dpTable l x) (x + 1)) none with
        | none =>
          obtain ⟨_, hall⟩ := scan_none _ _ _ _ hscan
          show ∀ c, ¬ Rep l _ c
          intro c hc
          obtain ⟨it, c', rfl, hit, hc'⟩ := hdecomp c hc
          obtain ⟨i, hi, hli⟩ := List.getElem_of_mem hit
          have hmem : (i, it) ∈ enum l := (mem_enum l (i, it)).2 (by rw [List.getElem?_eq_getElem hi, hli])
          rcases hsub_none it hit (hall _ hmem) with hneg | hno
          · have := wsum_nonneg l c' hpos hc'.1
            rw [hc'.2] at this; omega
          · exact hno c' hc'
        | some b =>
          obtain ⟨m, im⟩ := b
          obtain ⟨hw, hmin, _⟩ := scan_some _ _ _ _ _ _ hscan
          rcases hw with hw | ⟨iw, hiw, him, e, he, hem⟩
          · cases hw
          · have hget := (mem_enum l iw).1 hiw
            rw [him] at hget
            have hitl : iw.2 ∈ l := List.mem_iff_getElem?.2 ⟨im, hget⟩
            simp only [hget, he]
            obtain ⟨u, hu, hux, hgood⟩ := hsub iw.2 hitl e he
            obtain ⟨hlen, hrep, _⟩ := hgood
            show Good l (x + 1) (some (m + 1, e.2.take m ++ [iw.2]))
            have htake : e.2.take m = e.2 := List.take_of_length_le (by omega)
            rw [htake]
            refine ⟨by simp; omega, ⟨?_, ?_⟩, ?_⟩
            · intro z hz
              rcases List.mem_append.1 hz with hz | hz
              · exact hrep.1 z hz
              · simp at hz; subst hz; exact hitl
            · rw [wsum_append, hrep.2, wsum_cons, wsum_nil]; simp only [weight] at hux ⊢; omega
            · intro c hc
              obtain ⟨it, c', rfl, hit, hc'⟩ := hdecomp c hc
              obtain ⟨i, hi, hli⟩ := List.getElem_of_mem hit
              have hmem : (i, it) ∈ enum l := (mem_enum l (i, it)).2 (by rw [List.getElem?_eq_getElem hi, hli])
              cases ht : tget (dpTable l x) (((x + 1 : Nat) : Int) - weight it) with
              | none =>
                rcases hsub_none it hit ht with hneg | hno
                · have := wsum_nonneg l c' hpos hc'.1
                  rw [hc'.2] at this; omega
                · exact absurd hc' (hno c')
              | some e' =>
                have h1 := hmin _ hmem e' ht
                obtain ⟨u', _, hux', hgood'⟩ := hsub it hit e' ht
                have h2 := hgood'.2.2 c' (by rw [← hux']; exact hc')
                simp only [List.length_cons]
                omega

end Proofs.Lemmas.DynprogL
