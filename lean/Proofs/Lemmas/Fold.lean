/- generic simulation lemmas for the loops of the hash models -/
namespace Proofs.Lemmas.Fold

/-- a loop on embedded states is the embedding of the loop on abstract states -/
theorem foldl_sim {α β ι : Type} (φ : β → α) (f : α → ι → α) (g : β → ι → β) (l : List ι)
    (h : ∀ i ∈ l, ∀ b, f (φ b) i = φ (g b i)) (b : β) : l.foldl f (φ b) = φ (l.foldl g b) := by
  induction l generalizing b with
  | nil => rfl
  | cons x xs ih =>
    simp only [List.foldl_cons]
    rw [h x (by simp) b]
    exact ih (fun i hi => h i (by simp [hi])) (g b x)

/-- two counted loops stay related by an index-dependent relation -/
theorem foldl_range_rel {α β : Type} (R : Nat → α → β → Prop) (f : α → Nat → α) (g : β → Nat → β) (n : Nat)
    (a : α) (b : β) (h0 : R 0 a b)
    (hs : ∀ i, i < n → ∀ a b, R i a b → R (i + 1) (f a i) (g b i)) :
    R n ((List.range n).foldl f a) ((List.range n).foldl g b) := by
  induction n with
  | zero => simpa using h0
  | succ k ih =>
    rw [List.range_succ, List.foldl_append, List.foldl_append]
    simp only [List.foldl_cons, List.foldl_nil]
    exact hs k (Nat.lt_succ_self k) _ _ (ih (fun i hi => hs i (Nat.lt_succ_of_lt hi)))

theorem drop_take_map {α β} (f : α → β) (l : List α) (i n : Nat) :
    ((l.map f).drop i).take n = ((l.drop i).take n).map f := by
  rw [← List.map_drop, ← List.map_take]

end Proofs.Lemmas.Fold
