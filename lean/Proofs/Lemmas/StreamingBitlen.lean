/-
  Helper lemmas for C14: a non-final piece given with an explicit bit length L (whole blocks, L ≤ 8|buffer|) is the same
  call as the piece cut to its first L/8 bytes given without a bit length — at the level of the padding iterator (every
  yield, the final state, the exception) and hence of `HashCore.update`.  In particular L = 0 on a non-empty buffer feeds
  nothing.
-/
import Proofs.Lemmas.Streaming
namespace Proofs.Lemmas.StreamingBitlen
open Model

theorem blockAt_take (p : Padder) (m : List Nat) (n i : Nat) (h : (i + 1) * p.blocklen ≤ n) :
    p.blockAt (m.take n) i = p.blockAt m i := by
  unfold Padder.blockAt
  rw [List.drop_take, List.take_take]
  have e : min p.blocklen (n - i * p.blocklen) = p.blocklen := by
    apply Nat.min_eq_left
    have h' : i * p.blocklen + p.blocklen ≤ n := by rw [← Nat.succ_mul]; exact h
    omega
  rw [e]

theorem loopYields_take (p : Padder) (st : PadState) (m : List Nat) (n k : Nat) (h : k * p.blocklen ≤ n) :
    p.loopYields st (m.take n) k = p.loopYields st m k := by
  unfold Padder.loopYields
  apply List.map_congr_left
  intro i hi
  have hi' : i < k := List.mem_range.mp hi
  have : (i + 1) * p.blocklen ≤ n := Nat.le_trans (Nat.mul_le_mul_right _ hi') h
  rw [blockAt_take p m n i this]

/-- the iterator: `iterblocks(buf, bitlen=L, padding=False)` = `iterblocks(buf[:L/8], padding=False)` -/
theorem iterblocks_bitlen_nonfinal (p : Padder) (bl : Nat) (hB : p.blocksize = 8 * bl) (hbl : 0 < bl) (st : PadState)
    (m : List Nat) (L : Nat) (hL : L ≤ 8 * m.length) (hmul : L % p.blocksize = 0) :
    p.iterblocks st m (some L) false = p.iterblocks st (m.take (L / 8)) none false := by
  obtain ⟨j, hj⟩ := Nat.dvd_of_mod_eq_zero hmul
  have hblen : p.blocklen = bl := by unfold Padder.blocklen; rw [hB]; omega
  have hL8 : L / 8 = j * bl := by
    rw [hj, hB, Nat.mul_assoc, Nat.mul_div_cancel_left _ (by decide : 0 < 8), Nat.mul_comm]
  have hLval : L = 8 * (j * bl) := by rw [hj, hB, Nat.mul_assoc, Nat.mul_comm bl j]
  have hlen : (m.take (L / 8)).length = L / 8 := by
    rw [List.length_take]; omega
  have hmlen : 8 * (m.take (L / 8)).length = L := by rw [hlen, hL8]; exact hLval.symm
  unfold Padder.iterblocks
  simp only [Option.getD_some, Option.getD_none, hmlen, Option.map_none, Option.map_some]
  by_cases hpf : st.padflag = true
  · simp only [hpf, if_true]
  · simp only [hpf]
    have h1 : ¬ L > 8 * m.length := by omega
    have h2 : ¬ L > L := by omega
    have h3 : ¬ L % p.blocksize > 0 := by omega
    simp only [h1, h2, h3, Bool.not_false, true_and, and_false, if_false, Bool.false_eq_true]
    by_cases h0 : L = 0
    · simp only [h0, if_true]
    · simp only [h0, if_false]
      -- k + 1 = j
      have hjpos : 0 < j := by
        rcases Nat.eq_zero_or_pos j with h | h
        · rw [h, Nat.mul_zero] at hj; exact absurd hj h0
        · exact h
      have hk : p.loopCount L + 1 = j := by
        unfold Padder.loopCount
        simp only [h0, if_false]
        have hBpos : 0 < p.blocksize := by rw [hB]; omega
        have : (L - 1) / p.blocksize = j - 1 := by
          apply Nat.div_eq_of_lt_le
          · have := Nat.mul_sub_one p.blocksize j
            rw [Nat.mul_comm]; omega
          · have : (j - 1 + 1) * p.blocksize = L := by
              rw [Nat.sub_add_cancel hjpos, Nat.mul_comm]; exact hj.symm
            omega
        omega
      have hk1 : (p.loopCount L + 1) * p.blocklen ≤ L / 8 := by rw [hk, hblen, hL8]; exact Nat.le_refl _
      have hk0 : p.loopCount L * p.blocklen ≤ L / 8 :=
        Nat.le_trans (Nat.mul_le_mul_right _ (Nat.le_succ _)) hk1
      rw [loopYields_take p st m (L / 8) _ hk0, blockAt_take p m (L / 8) _ hk1]

/-- the object: `update(buf, bitlen=L)` = `update(buf[:L/8])` for a non-final piece (new state and returned value) -/
theorem update_bitlen_nonfinal (c : HashCore) (bl : Nat) (hB : c.padder.blocksize = 8 * bl) (hbl : 0 < bl) (o : HashObj)
    (m : List Nat) (L : Nat) (hL : L ≤ 8 * m.length) (hmul : L % (8 * bl) = 0) :
    c.update o m (some L) false = c.update o (m.take (L / 8)) none false := by
  unfold HashCore.update
  rw [iterblocks_bitlen_nonfinal c.padder bl hB hbl o.pad m L hL (by rw [hB]; exact hmul)]

end Proofs.Lemmas.StreamingBitlen
