/- SHA-2: schedule, rounds and compression of the model equal FIPS 180-4, once for both word sizes -/
import Proofs.Lemmas.RoundFns
import Proofs.Lemmas.Parse
namespace Proofs.Lemmas.Sha2
open Model Model.Sha Model.Gen.Hashes Proofs.Lemmas.BitsBitVec Proofs.Lemmas.Fold Proofs.Lemmas.Parse Proofs.Lemmas.RoundFns

def embH {w} (s : Spec.Sha2.State w) : List Bits :=
  [ofBV s.1, ofBV s.2.1, ofBV s.2.2.1, ofBV s.2.2.2.1, ofBV s.2.2.2.2.1, ofBV s.2.2.2.2.2.1, ofBV s.2.2.2.2.2.2.1,
   ofBV s.2.2.2.2.2.2.2]
def emb8 {w} (s : Spec.Sha2.State w) : St8 :=
  (ofBV s.1, ofBV s.2.1, ofBV s.2.2.1, ofBV s.2.2.2.1, ofBV s.2.2.2.2.1, ofBV s.2.2.2.2.2.1, ofBV s.2.2.2.2.2.2.1,
   ofBV s.2.2.2.2.2.2.2)

/-- what ties a configuration of the model to a family of the standard: established below for the 32- and 64-bit
    configurations from the regenerated tables and translated lambdas -/
structure Link {w : Nat} (c : Sha2Cfg) (F : Spec.Sha2.Family w) : Prop where
  hw : c.wsize = w
  hN : sha2N c = F.rounds
  hN16 : 16 ≤ F.rounds
  hS0 : ∀ x : BitVec w, Sigma_0 c (ofBV x) = ofBV (F.Sigma0 x)
  hS1 : ∀ x : BitVec w, Sigma_1 c (ofBV x) = ofBV (F.Sigma1 x)
  hs0 : ∀ x : BitVec w, sigma_0 c (ofBV x) = ofBV (F.sigma0 x)
  hs1 : ∀ x : BitVec w, sigma_1 c (ofBV x) = ofBV (F.sigma1 x)
  hK : ∀ r, r < F.rounds → (sha2K c).getD r 0 = (F.K.getD r 0).toNat
  hKlen : ¬ (sha2K c).length < F.rounds

variable {w : Nat} {c : Sha2Cfg} {F : Spec.Sha2.Family w}

theorem expand_refines (L : Link c F) (W : List (BitVec w)) :
    sha2Expand c (W.map ofBV) = (Spec.Sha2.schedule F W).map ofBV := by
  obtain ⟨hw, hN, _, _, _, hs0, hs1, _, _⟩ := L
  subst hw
  unfold sha2Expand Spec.Sha2.schedule
  rw [List.range'_eq_map_range, List.foldl_map, hN]
  apply foldl_sim (fun W : List (BitVec c.wsize) => W.map ofBV)
  intro i _ W
  simp only [dflt, getD_map_ofBV, hs0, hs1, add_ofBV, List.map_append, List.map_cons, List.map_nil]

theorem round_refines (L : Link c F) (W : List (BitVec w)) (r : Nat) (hr : r < F.rounds) (s : Spec.Sha2.State w) :
    sha2Round c (W.map ofBV) (emb8 s) r = emb8 (Spec.Sha2.round F W s r) := by
  obtain ⟨hw, _, _, hS0, hS1, _, _, hK, _⟩ := L
  subst hw
  obtain ⟨a, b, cc, d, e, f, g, h⟩ := s
  simp only [sha2Round, emb8, Spec.Sha2.round, dflt, getD_map_ofBV, hS0, hS1, hK r hr, Ch_ofBV, Maj_ofBV,
    add_ofBV, addConst_ofBV]

theorem rounds_refines (L : Link c F) (W : List (BitVec w)) (s : Spec.Sha2.State w) :
    (List.range F.rounds).foldl (sha2Round c (W.map ofBV)) (emb8 s)
      = emb8 ((List.range F.rounds).foldl (Spec.Sha2.round F W) s) := by
  apply foldl_sim emb8
  intro i hi b
  exact round_refines L W i (List.mem_range.1 hi) b

theorem block_refines (L : Link c F) (H : Spec.Sha2.State w) (W : List (BitVec w)) (hW : W.length = 16) :
    sha2Block c (embH H) (W.map ofBV) = .ok (embH (Spec.Sha2.compressWords F H W)) := by
  obtain ⟨h0, h1, h2, h3, h4, h5, h6, h7⟩ := H
  have hr := rounds_refines L (Spec.Sha2.schedule F W) (h0, h1, h2, h3, h4, h5, h6, h7)
  have hN := L.hN
  have hKl := L.hKlen
  simp only [Spec.Sha2.compressWords]
  generalize (List.range F.rounds).foldl (Spec.Sha2.round F (Spec.Sha2.schedule F W)) (h0, h1, h2, h3, h4, h5, h6, h7) = R at hr ⊢
  obtain ⟨a, b, cc, d, e, f, g, h⟩ := R
  simp only [emb8] at hr
  simp only [sha2Block, embH, List.length_map, hW, ne_eq, not_true_eq_false, if_false, hN, hKl,
    expand_refines L W, hr, add_ofBV, BitVec.add_comm]

theorem compress_refines (L : Link c F) (hw8 : 8 ≤ w) (H : Spec.Sha2.State w) (blk : List Spec.Byte)
    (hb : blk.length = 16 * (w / 8)) :
    sha2Compress c (embH H) (toNatBytes blk) = .ok (embH (Spec.Sha2.compress F H blk)) := by
  unfold sha2Compress
  rw [L.hw, parseBE_refines w hw8 blk hb]
  simp only [bind, Except.bind]
  have hl : (Spec.wordsBE w blk).length = 16 := by
    rw [wordsBE_length, hb]; exact Nat.mul_div_cancel _ (Nat.div_pos hw8 (by decide))
  rw [block_refines L H _ hl]; rfl

/-! the two links -/

theorem K256_eq : ∀ r, r < 64 → sha2K32.getD r 0 = (Spec.Sha2.K256.getD r 0).toNat := by decide +kernel
theorem K512_eq : ∀ r, r < 80 → sha2K64.getD r 0 = (Spec.Sha2.K512.getD r 0).toNat := by decide +kernel

theorem link32 (c : Sha2Cfg) (h1 : c.wsize = 32) (h2 : ¬ c.size > 256) : Link c Spec.Sha2.fam256 where
  hw := h1
  hN := by simp [sha2N, h2, Spec.Sha2.fam256]
  hN16 := by decide
  hS0 := fun x => by simp only [Sigma_0, h1, if_true]; exact Sigma_0_32_ofBV x
  hS1 := fun x => by simp only [Sigma_1, h1, if_true]; exact Sigma_1_32_ofBV x
  hs0 := fun x => by simp only [sigma_0, h1, if_true]; exact sigma_0_32_ofBV x
  hs1 := fun x => by simp only [sigma_1, h1, if_true]; exact sigma_1_32_ofBV x
  hK := fun r hr => by simp only [sha2K, h1, if_true]; exact K256_eq r hr
  hKlen := by simp only [sha2K, h1, if_true]; decide

theorem link64 (c : Sha2Cfg) (h1 : c.wsize = 64) (h2 : c.size > 256) : Link c Spec.Sha2.fam512 where
  hw := h1
  hN := by simp [sha2N, h2, Spec.Sha2.fam512]
  hN16 := by decide
  hS0 := fun x => by simp only [Sigma_0, h1]; exact Sigma_0_64_ofBV x
  hS1 := fun x => by simp only [Sigma_1, h1]; exact Sigma_1_64_ofBV x
  hs0 := fun x => by simp only [sigma_0, h1]; exact sigma_0_64_ofBV x
  hs1 := fun x => by simp only [sigma_1, h1]; exact sigma_1_64_ofBV x
  hK := fun r hr => by simp only [sha2K, h1]; exact K512_eq r hr
  hKlen := by simp only [sha2K, h1]; decide

end Proofs.Lemmas.Sha2
