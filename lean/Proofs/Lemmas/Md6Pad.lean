/-
  Lemmas for C17: `Nullpadding(B).iterblocks(M,bitlen=…)` as MD6 uses it (fresh padder, padding on) yields exactly the
  blocks of the specification: the first m bits of M zero-padded to j = max(1,⌈m/B⌉) blocks, and leaves
  `padcnt` = j·B − m.  (This is the only place where the C17 proofs look inside Model.Padding.)
-/
import Proofs.Lemmas.Md6Bits
namespace Proofs.Lemmas.Md6Pad
open Model Model.Py Model.Md6 Proofs.Lemmas.Md6Bits

theorem sbit_take_drop (X : List Nat) (a n t : Nat) (ht : t < 8 * n) :
    sbit ((X.drop a).take n) t = sbit X (8 * a + t) := by
  unfold sbit
  have h1 : t / 8 < n := by omega
  simp only [List.getD_eq_getElem?_getD, List.getElem?_take, h1, if_true, List.getElem?_drop]
  rw [show (8 * a + t) / 8 = a + t / 8 by omega, show (8 * a + t) % 8 = t % 8 by omega]

theorem mem_take_drop {X : List Nat} {a n x : Nat} (h : x ∈ (X.drop a).take n) : x ∈ X :=
  List.mem_of_mem_drop (List.mem_of_mem_take h)

/-- block i of the zero-padded m-bit message, through its stream bits -/
theorem sbit_block (n : Nat) (M : List Nat) (m : Nat) (hm : m ≤ 8 * M.length) (i t : Nat) (ht : t < 8 * n) :
    sbit (Spec.Md6.block (8 * n) M m i) t = (decide (8 * (i * n) + t < m) && sbit M (8 * (i * n) + t)) := by
  unfold Spec.Md6.block
  simp only [show 8 * n / 8 = n by omega]
  rw [sbit_take_drop _ _ _ _ ht, Spec.Md6.zeroPad, sbit_append_zeros, sbit_takeBits m M hm]

theorem block_length (n : Nat) (M : List Nat) (m : Nat) (hm : m ≤ 8 * M.length) (i : Nat)
    (hi : i < Spec.Md6.numBlocks (8 * n) m) (hn : 0 < n) :
    (Spec.Md6.block (8 * n) M m i).length = n := by
  unfold Spec.Md6.block
  simp only [show 8 * n / 8 = n by omega, List.length_take, List.length_drop, Spec.Md6.zeroPad, List.length_append,
    List.length_replicate, takeBits_length m M hm]
  have hj : (m + 7) / 8 ≤ Spec.Md6.numBlocks (8 * n) m * n := by
    unfold Spec.Md6.numBlocks
    have : m ≤ ((m + 8 * n - 1) / (8 * n)) * (8 * n) := by
      have := Nat.div_add_mod (m + 8 * n - 1) (8 * n)
      have := Nat.mod_lt (m + 8 * n - 1) (show 8 * n > 0 by omega)
      rw [Nat.mul_comm]; omega
    have h2 : ((m + 8 * n - 1) / (8 * n)) * (8 * n) ≤ (max 1 ((m + 8 * n - 1) / (8 * n))) * (8 * n) :=
      Nat.mul_le_mul_right _ (Nat.le_max_right _ _)
    have h3 : max 1 ((m + 8 * n - 1) / (8 * n)) * (8 * n) = 8 * (max 1 ((m + 8 * n - 1) / (8 * n)) * n) := by
      rw [Nat.mul_comm 8 n, ← Nat.mul_assoc, Nat.mul_comm _ 8]
    omega
  have h4 : (i + 1) * n ≤ Spec.Md6.numBlocks (8 * n) m * n := Nat.mul_le_mul_right _ hi
  rw [Nat.add_mul] at h4
  omega

theorem numBlocks_eq (n m : Nat) (hn : 0 < n) :
    Spec.Md6.numBlocks (8 * n) m = (if m = 0 then 0 else (m - 1) / (8 * n)) + 1 := by
  unfold Spec.Md6.numBlocks
  by_cases h : m = 0
  · subst h
    have : (0 + 8 * n - 1) / (8 * n) = 0 := Nat.div_eq_of_lt (by omega)
    rw [this]; rfl
  · rw [if_neg h]
    have : m + 8 * n - 1 = (m - 1) + 8 * n := by omega
    rw [this, Nat.add_div_right _ (by omega : 0 < 8 * n)]
    exact Nat.max_eq_right (Nat.le_add_left 1 _)

theorem lastblock_null (n : Nat) (pi : List Nat) (hpi : ∀ x ∈ pi, x < 256) (st : PadState) (kw : Option Nat) (bl : Nat)
    (hnone : kw = none → bl = 8 * pi.length)
    (hsome : ∀ b, kw = some b → st.bitcnt ≤ b ∧ bl = b - st.bitcnt)
    (h1 : bl ≤ 8 * pi.length) (h2 : bl ≤ 8 * n) (_hn : 0 < n) :
    Padder.lastblock ⟨.null, 8 * n⟩ st pi kw =
      .ok (Spec.Md6.zeroPad n (Spec.Md6.takeBits bl pi),
           { padflag := true, bitcnt := st.bitcnt + bl, padcnt := 8 * n - bl }) := by
  have hlen : (Spec.Md6.zeroPad n (Spec.Md6.takeBits bl pi)).length = n := by
    simp [Spec.Md6.zeroPad, takeBits_length bl pi h1]; omega
  have key : (if bl > 8 * n then (Except.error "ValueError:negative size" : Except Err (List Nat × PadState))
      else if ((Padder.bitsOfBytes pi bl).concat (Bits.ofNatSz 0 (8 * n - bl))).toBytes.length ≠
              (⟨Scheme.null, 8 * n⟩ : Padder).blocklen then Except.error "AssertionError"
        else Except.ok (((Padder.bitsOfBytes pi bl).concat (Bits.ofNatSz 0 (8 * n - bl))).toBytes,
              { padflag := true, bitcnt := st.bitcnt + bl, padcnt := 8 * n - bl })) =
      .ok (Spec.Md6.zeroPad n (Spec.Md6.takeBits bl pi),
           { padflag := true, bitcnt := st.bitcnt + bl, padcnt := 8 * n - bl }) := by
    rw [if_neg (by omega), nullpad_bytes pi hpi bl n h1 h2]
    simp [Padder.blocklen, hlen, show 8 * n / 8 = n by omega]
  unfold Padder.lastblock
  cases kw with
  | none =>
    have := hnone rfl
    subst this
    exact key
  | some b =>
    obtain ⟨hb1, hb2⟩ := hsome b rfl
    simp only [if_neg (Nat.not_lt.2 hb1)]
    rw [← hb2]
    exact key

theorem nullBlocks_spec (n : Nat) (hn : 0 < n) (M : List Nat) (hM : ∀ x ∈ M, x < 256) (bitlen : Option Nat)
    (hbl : bitlen.getD (8 * M.length) ≤ 8 * M.length) :
    Md6.nullBlocks (8 * n) M bitlen =
      .ok ((List.range (Spec.Md6.numBlocks (8 * n) (bitlen.getD (8 * M.length)))).map
              (Spec.Md6.block (8 * n) M (bitlen.getD (8 * M.length))),
           Spec.Md6.numBlocks (8 * n) (bitlen.getD (8 * M.length)) * (8 * n) - bitlen.getD (8 * M.length)) := by
  generalize hm : bitlen.getD (8 * M.length) = m at hbl ⊢
  rw [numBlocks_eq n m hn]
  generalize hk : (if m = 0 then 0 else (m - 1) / (8 * n)) = k
  have hkn : k * (8 * n) = 8 * (k * n) := by rw [Nat.mul_left_comm]
  have hk1 : 8 * (k * n) ≤ m := by
    rw [← hkn]; subst hk; split
    · simp
    · have := Nat.div_mul_le_self (m - 1) (8 * n); omega
  have hk2 : m ≤ 8 * (k * n) + 8 * n := by
    rw [← hkn]; subst hk; split
    · omega
    · have := Nat.div_add_mod (m - 1) (8 * n)
      have := Nat.mod_lt (m - 1) (show 8 * n > 0 by omega)
      rw [Nat.mul_comm]; omega
  have hk3 : 0 < k → 8 * (k * n) < m := by
    intro hpos
    by_cases h0 : m = 0
    · rw [if_pos h0] at hk; omega
    · rw [if_neg h0] at hk
      rw [← hkn, ← hk]
      have := Nat.div_mul_le_self (m - 1) (8 * n); omega
  have hMk : k * n ≤ M.length := by omega
  -- the full blocks
  have hfull : ∀ i, i < k → (⟨.null, 8 * n⟩ : Padder).blockAt M i = Spec.Md6.block (8 * n) M m i := by
    intro i hi
    have hin : (i + 1) * n ≤ k * n := Nat.mul_le_mul_right _ hi
    rw [Nat.add_mul] at hin
    have hlen : ((M.drop (i * n)).take n).length = n := by simp [List.length_take, List.length_drop]; omega
    unfold Padder.blockAt Padder.blocklen
    simp only [show 8 * n / 8 = n by omega]
    apply bytes_ext
    · rw [hlen, block_length n M m hbl i (by rw [numBlocks_eq n m hn, hk]; omega) hn]
    · exact fun x hx => hM x (mem_take_drop hx)
    · intro x hx
      unfold Spec.Md6.block at hx
      have hx := mem_take_drop hx
      rcases List.mem_append.1 hx with h | h
      · exact takeBits_lt m M hM x h
      · simp only [List.mem_replicate] at h; omega
    · intro t ht
      rw [hlen] at ht
      rw [sbit_take_drop M (i * n) n t ht, sbit_block n M m hbl i t ht]
      have : 8 * (i * n) + t < m := by
        have := hk3 (by omega); omega
      simp [this]
  -- the padded tail
  have hpi : ∀ x ∈ (⟨.null, 8 * n⟩ : Padder).blockAt M k, x < 256 := fun x hx => hM x (mem_take_drop hx)
  have hpilen : ((⟨.null, 8 * n⟩ : Padder).blockAt M k).length = min n (M.length - k * n) := by
    simp [Padder.blockAt, Padder.blocklen, show 8 * n / 8 = n by omega, List.length_take, List.length_drop]
  have hlast := lastblock_null n ((⟨.null, 8 * n⟩ : Padder).blockAt M k) hpi { bitcnt := 0 + k * (8 * n) }
    (bitlen.map (fun x => 0 + x)) (m - k * (8 * n))
    (by intro h; cases bitlen with
        | none => simp at hm; rw [hpilen, hkn]; omega
        | some b => simp at h)
    (by intro b h; cases bitlen with
        | none => simp at h
        | some b' => simp at h hm; subst h; subst hm; rw [hkn]; constructor <;> simp <;> omega)
    (by rw [hpilen, hkn]; omega) (by rw [hkn]; omega) hn
  have htail : Spec.Md6.zeroPad n (Spec.Md6.takeBits (m - k * (8 * n)) ((⟨.null, 8 * n⟩ : Padder).blockAt M k))
      = Spec.Md6.block (8 * n) M m k := by
    have hbl' : m - k * (8 * n) ≤ 8 * ((⟨.null, 8 * n⟩ : Padder).blockAt M k).length := by rw [hpilen, hkn]; omega
    have hl1 : (Spec.Md6.zeroPad n (Spec.Md6.takeBits (m - k * (8 * n)) ((⟨.null, 8 * n⟩ : Padder).blockAt M k))).length = n := by
      simp [Spec.Md6.zeroPad, takeBits_length _ _ hbl']; rw [hkn]; omega
    apply bytes_ext
    · rw [hl1, block_length n M m hbl k (by rw [numBlocks_eq n m hn, hk]; omega) hn]
    · intro x hx
      rcases List.mem_append.1 hx with h | h
      · exact takeBits_lt _ _ hpi x h
      · simp only [List.mem_replicate] at h; omega
    · intro x hx
      unfold Spec.Md6.block at hx
      have hx := mem_take_drop hx
      rcases List.mem_append.1 hx with h | h
      · exact takeBits_lt m M hM x h
      · simp only [List.mem_replicate] at h; omega
    · intro t ht
      rw [hl1] at ht
      rw [Spec.Md6.zeroPad, sbit_append_zeros, sbit_takeBits _ _ hbl', sbit_block n M m hbl k t ht]
      unfold Padder.blockAt Padder.blocklen
      simp only [show 8 * n / 8 = n by omega]
      rw [sbit_take_drop M (k * n) n t ht]
      congr 1
      apply decide_eq_decide.2
      rw [hkn]; omega
  unfold Md6.nullBlocks Padder.iterblocks
  simp only [hm, Padder.loopCount, hk] at hlast ⊢
  rw [hlast, htail]
  have hl2 : (Spec.Md6.block (8 * n) M m k).length = n :=
    block_length n M m hbl k (by rw [numBlocks_eq n m hn, hk]; omega) hn
  simp only [Padder.finishTail, Padder.blocklen, show 8 * n / 8 = n by omega, Bool.false_eq_true, if_false,
    Nat.not_lt.2 hbl, gt_iff_lt, Bool.not_true, false_and, if_true,
    List.length_drop, hl2, Nat.sub_self, Nat.lt_irrefl]
  have hpc : (if 0 + k * (8 * n) + (m - k * (8 * n)) = 0 + k * (8 * n) then
            ({ padflag := true, padcnt := 8 * n - (m - k * (8 * n)) } : PadState)
          else
            { padflag := true, bitcnt := 0 + k * (8 * n) + (m - k * (8 * n)),
              padcnt := 8 * n - (m - k * (8 * n)) }).padcnt = (k + 1) * (8 * n) - m := by
    have : (k + 1) * (8 * n) - m = 8 * n - (m - k * (8 * n)) := by rw [Nat.add_mul, hkn]; omega
    rw [this]; split <;> rfl
  rw [hpc]
  congr 2
  rw [List.map_append, List.range_succ, List.map_append]
  congr 1
  · simp only [Padder.loopYields, List.map_map]
    apply List.map_congr_left
    intro i hi
    exact hfull i (List.mem_range.1 hi)
  · simp only [List.map_cons, List.map_nil]
    rw [List.take_of_length_le (by omega)]

end Proofs.Lemmas.Md6Pad
