/-
  Key schedule of Model.Aes: equals FIPS 197 KeyExpansion for Nk = 4, 6, 8, and is well-formed
  (Nb·(Nr+1) words of 4 bytes), so every round key is a 16-byte state.
-/
import Proofs.Lemmas.AesComp
namespace Proofs.Aes
open Model Model.Aes Model.Gen.Aes

/-- the S-box tables regenerated from the source are the FIPS 197 S-boxes (all 256 entries, kernel) -/
theorem sbox_spec : ∀ b < 256, sbox b = Spec.Aes.sbox b := by decide +kernel
theorem sboxInv_spec : ∀ b < 256, sboxInv b = Spec.Aes.invSbox b := by decide +kernel

/-- Rcon[1..10] of the source are x^(j-1) -/
theorem rcon_spec : ∀ j < 11, 0 < j → rcon.getD j 0 % 256 = Spec.Aes.xpow (j - 1) := by decide +kernel

/-- all words of a schedule are 4 bytes -/
def KsWF (w : List (List Nat)) : Prop := ∀ x ∈ w, Wd x

theorem subBytes_spec {s : List Nat} (h : IsBytes s) : subBytes s = Spec.Aes.subBytes s :=
  List.map_congr_left fun b hb => sbox_spec b (h b hb)
theorem invSubBytes_spec {s : List Nat} (h : IsBytes s) : invSubBytes s = Spec.Aes.invSubBytes s :=
  List.map_congr_left fun b hb => sboxInv_spec b (h b hb)

theorem getD_mem {α} {l : List α} {j : Nat} (d : α) (h : j < l.length) : l.getD j d ∈ l := by
  rw [List.getD_eq_getElem?_getD, List.getElem?_eq_getElem h]
  exact List.getElem_mem h

theorem rotw_wd {w : List Nat} (h : Wd w) : Wd (rotw w) ∧ rotw w = Spec.Aes.rotWord w := by
  obtain ⟨a, b, c, d, rfl, ha, hb, hc, hd⟩ := wd_cases h
  exact ⟨wd_mk hb hc hd ha, rfl⟩

theorem subBytes_wd {w : List Nat} (h : Wd w) : Wd (subBytes w) :=
  ⟨by simp [subBytes, h.1], isBytes_map sbox_lt h.2⟩

theorem xorW_wd {a b : List Nat} (ha : Wd a) (hb : Wd b) : Wd (xorW a b) :=
  ⟨by simp [xorW, ha.1, hb.1], isBytes_zipWith_xor ha.2 hb.2⟩

theorem keyWords_spec (K : List Nat) :
    keyWords K = (List.range (K.length / 4)).map fun i => (K.drop (4 * i)).take 4 := rfl

theorem keyWords_wf {K : List Nat} (hK : IsBytes K) (h4 : K.length % 4 = 0) :
    KsWF (keyWords K) ∧ (keyWords K).length = K.length / 4 := by
  refine ⟨?_, by simp [keyWords]⟩
  intro x hx
  unfold keyWords at hx
  rw [List.mem_map] at hx
  obtain ⟨j, hj, rfl⟩ := hx
  rw [List.mem_range] at hj
  refine ⟨?_, isBytes_take _ (isBytes_drop _ hK)⟩
  rw [List.length_take, List.length_drop]
  omega

/-- one step of the expansion loop is FIPS 197's w[i] = w[i-Nk] ⊕ temp -/
theorem ksStep_spec {Nk : Nat} {w : List (List Nat)} {i : Nat} (hNk : Nk = 4 ∨ Nk = 6 ∨ Nk = 8)
    (hw : KsWF w) (hl : w.length = i) (hi : Nk ≤ i) (hb : i < 4 * (Nk + 7)) :
    ksStep Nk w i = w ++ [Spec.Aes.nextWord Nk w i] ∧ Wd (Spec.Aes.nextWord Nk w i) := by
  have h1 : Wd (w.getD (i - 1) []) := hw _ (getD_mem _ (by omega))
  have h2 : Wd (w.getD (i - Nk) []) := hw _ (getD_mem _ (by omega))
  unfold ksStep Spec.Aes.nextWord
  by_cases c1 : i % Nk = 0
  · simp only [c1, if_true]
    have hj : i / Nk < 11 ∧ 0 < i / Nk := by
      rcases hNk with rfl | rfl | rfl <;> omega
    have hr := rotw_wd h1
    have e : xorW (subBytes (rotw (w.getD (i - 1) []))) [rcon.getD (i / Nk) 0 % 256, 0, 0, 0]
        = Spec.Aes.xorBytes (Spec.Aes.subWord (Spec.Aes.rotWord (w.getD (i - 1) []))) (Spec.Aes.rcon (i / Nk)) := by
      rw [rcon_spec _ hj.1 hj.2, ← hr.2, subBytes_spec hr.1.2]
      rfl
    rw [← e]
    refine ⟨rfl, xorW_wd h2 (xorW_wd (subBytes_wd hr.1) (wd_mk (Nat.mod_lt _ (by decide)) ?_ ?_ ?_))⟩ <;> decide
  · simp only [c1, if_false]
    by_cases c2 : Nk > 6 ∧ i % Nk = 4
    · simp only [c2, and_self, if_true]
      have e : subBytes (w.getD (i - 1) []) = Spec.Aes.subWord (w.getD (i - 1) []) := subBytes_spec h1.2
      rw [← e]
      exact ⟨rfl, xorW_wd h2 (subBytes_wd h1)⟩
    · simp only [c2, if_false]
      exact ⟨rfl, xorW_wd h2 h1⟩

theorem ksWF_append {w : List (List Nat)} {x : List Nat} (hw : KsWF w) (hx : Wd x) : KsWF (w ++ [x]) := by
  intro y hy
  rw [List.mem_append] at hy
  rcases hy with hy | hy
  · exact hw y hy
  · simp at hy; rw [hy]; exact hx

theorem expand_fold {Nk : Nat} (hNk : Nk = 4 ∨ Nk = 6 ∨ Nk = 8) :
    ∀ (n : Nat) (w : List (List Nat)) (i : Nat), KsWF w → w.length = i → Nk ≤ i → i + n ≤ 4 * (Nk + 7) →
      (List.range' i n).foldl (ksStep Nk) w = Spec.Aes.expandFrom Nk w i n ∧
      KsWF (Spec.Aes.expandFrom Nk w i n) ∧ (Spec.Aes.expandFrom Nk w i n).length = i + n := by
  intro n
  induction n with
  | zero => intro w i hw hl _ _; exact ⟨rfl, hw, hl⟩
  | succ n ih =>
    intro w i hw hl hi hb
    obtain ⟨e, hx⟩ := ksStep_spec hNk hw hl hi (by omega)
    rw [List.range'_succ, List.foldl_cons, e]
    simp only [Spec.Aes.expandFrom]
    have := ih (w ++ [Spec.Aes.nextWord Nk w i]) (i + 1) (ksWF_append hw hx) (by simp [hl]) (by omega) (by omega)
    refine ⟨this.1, this.2.1, ?_⟩
    rw [this.2.2]; omega

/-- admissible AES key: 16, 24 or 32 bytes -/
def KeyOk (K : List Nat) : Prop := (K.length = 16 ∨ K.length = 24 ∨ K.length = 32) ∧ IsBytes K

theorem keySchedule_spec_wf {K : List Nat} (h : KeyOk K) :
    keySchedule K = Spec.Aes.keyExpansion K ∧ KsWF (keySchedule K) ∧ (keySchedule K).length = 4 * (K.length / 4 + 7) := by
  have hNk : K.length / 4 = 4 ∨ K.length / 4 = 6 ∨ K.length / 4 = 8 := by
    rcases h.1 with e | e | e <;> omega
  have h4 : K.length % 4 = 0 := by rcases h.1 with e | e | e <;> omega
  obtain ⟨hw, hl⟩ := keyWords_wf h.2 h4
  have := expand_fold hNk (4 * (K.length / 4 + 6 + 1) - K.length / 4) (keyWords K) (K.length / 4) hw hl (Nat.le_refl _) (by omega)
  have e : keySchedule K = Spec.Aes.keyExpansion K := by
    unfold keySchedule Spec.Aes.keyExpansion
    exact this.1
  refine ⟨e, ?_, ?_⟩
  · rw [e]; unfold Spec.Aes.keyExpansion; exact this.2.1
  · rw [e]; unfold Spec.Aes.keyExpansion
    have := this.2.2
    simp only [keyWords] at this
    rw [this]; omega

/-- the round key r of a well-formed schedule is a 16-byte state -/
theorem roundKey_st {w : List (List Nat)} {r : Nat} (hw : KsWF w) (hr : 4 * r + 4 ≤ w.length) : St (roundKey w r) := by
  unfold roundKey
  have hl : ((w.drop (4 * r)).take 4).length = 4 := by rw [List.length_take, List.length_drop]; omega
  obtain ⟨x0, x1, x2, x3, e⟩ := len4 hl
  have hm : ∀ x ∈ (w.drop (4 * r)).take 4, Wd x := fun x hx => hw x (List.mem_of_mem_drop (List.mem_of_mem_take hx))
  rw [e] at hm ⊢
  have h0 := hm x0 (by simp); have h1 := hm x1 (by simp); have h2 := hm x2 (by simp); have h3 := hm x3 (by simp)
  have : [x0, x1, x2, x3].flatten = x0 ++ x1 ++ x2 ++ x3 := by simp
  rw [this]
  exact st_of_wds h0 h1 h2 h3

end Proofs.Aes
