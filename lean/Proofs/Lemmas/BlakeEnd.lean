/-
  End-to-end pieces for BLAKE: the call of the model as the submission's compression function folded over the blocks
  the padder yields, with the submission's output transformation.
-/
import Proofs.Lemmas.BlakeRefine
import Proofs.Lemmas.BlakeBytes
import Proofs.Lemmas.BlakeTrace
import Proofs.Lemmas.Blake2End
namespace Proofs.Lemmas.BlakeEnd
open Model Model.Py Proofs.Lemmas.BlakeWords Proofs.Lemmas.BlakeBytes Proofs.Lemmas.BlakeRefine
open Proofs.Lemmas.BlakeTrace

/-- a block of bytes read as big-endian words (`struct.unpack('>16L'/'>16Q')` on the specification's word type) -/
def beWords (V : Spec.Blake.Variant) (B : List Nat) : List (BitVec V.w) :=
  (Spec.Blake.chunk (V.w / 8) B).map fun g => BitVec.ofNat V.w (Py.beInt g)

/-- model configuration and specification variant that belong together -/
def Pair (c : Blake.Cfg) (V : Spec.Blake.Variant) : Prop :=
  (c = Blake.blake224 ∧ V = Spec.Blake.blake224) ∨ (c = Blake.blake256 ∧ V = Spec.Blake.blake256) ∨
  (c = Blake.blake384 ∧ V = Spec.Blake.blake384) ∨ (c = Blake.blake512 ∧ V = Spec.Blake.blake512)

theorem pair_match {c V} (h : Pair c V) : Match c V := by
  rcases h with ⟨rfl, rfl⟩ | ⟨rfl, rfl⟩ | ⟨rfl, rfl⟩ | ⟨rfl, rfl⟩ <;> constructor <;> decide +kernel

theorem pair_geo {c V} (h : Pair c V) :
    (V.w = 32 ∨ V.w = 64) ∧ (((Padder.blakeP c.size).blocksize = 512 ∧ Padder.blakeW c.size = 32) ∨
      ((Padder.blakeP c.size).blocksize = 1024 ∧ Padder.blakeW c.size = 64)) ∧
    (Padder.blakeP c.size).blocksize / 8 = 16 * (V.w / 8) ∧ (c.size = 224 ∨ c.size = 256 ∨ c.size = 384 ∨ c.size = 512) ∧
    V.out ≤ 8 * (V.w / 8) := by
  rcases h with ⟨rfl, rfl⟩ | ⟨rfl, rfl⟩ | ⟨rfl, rfl⟩ | ⟨rfl, rfl⟩ <;> decide

theorem wordsBE_eq (V : Spec.Blake.Variant) (hw : V.w = 32 ∨ V.w = 64) (bs : List Nat) :
    Blake.wordsBE V.w bs = (beWords V bs).map ofBV := by
  have hn : V.w / 8 ≠ 0 := by rcases hw with h | h <;> rw [h] <;> simp
  simp only [Blake.wordsBE, beWords, chunks_eq1 _ hn, List.map_map]
  apply List.map_congr_left
  intro g _
  simp [wd_eq]

theorem beWords_length (V : Spec.Blake.Variant) (hw : V.w = 32 ∨ V.w = 64) (bs : List Nat) (hb : bs.length = 16 * (V.w / 8)) :
    (beWords V bs).length = 16 := by
  have hn0 : V.w / 8 ≠ 0 := by rcases hw with h | h <;> rw [h] <;> simp
  have hn : V.w / 8 = 4 ∨ V.w / 8 = 8 := by rcases hw with h | h <;> rw [h] <;> simp
  simp only [beWords, List.length_map]
  rw [← chunks_eq1 _ hn0, chunks_eq2 _ hn0, Spec.Blake2.chunk, Blake2End.chunk_go_length _ hn _ _ (Nat.le_refl _), hb]
  rcases hn with h | h <;> rw [h]

theorem salt_eq (V : Spec.Blake.Variant) (_hw : V.w = 32 ∨ V.w = 64) (salt : Nat) :
    Blake.saltWords V.w salt = (Spec.Blake.saltWords V salt).map ofBV := by
  simp only [Blake.saltWords, Spec.Blake.saltWords, List.map_cons, List.map_nil, List.range_succ, List.range_zero,
    List.nil_append, List.cons_append, wd_eq]
  have key : ∀ j, j ≤ 3 → BitVec.ofNat V.w ((salt % 2 ^ (4 * V.w)) >>> (V.w * j)) = BitVec.ofNat V.w (salt / 2 ^ (V.w * j)) := by
    intro j hj
    apply BitVec.eq_of_toNat_eq
    simp only [BitVec.toNat_ofNat, Nat.shiftRight_eq_div_pow]
    obtain ⟨d, hd⟩ : ∃ d, 4 * V.w = V.w * j + (V.w + d) := ⟨(3 - j) * V.w, by
      have : V.w * j + (V.w + (3 - j) * V.w) = (j + 1 + (3 - j)) * V.w := by
        rw [Nat.add_mul, Nat.add_mul, Nat.mul_comm V.w j]; omega
      rw [this, show j + 1 + (3 - j) = 4 by omega]⟩
    rw [hd, Nat.pow_add, Nat.mod_mul_right_div_self, Nat.pow_add, Nat.mod_mul_right_mod]
  rw [key 3 (by omega), key 2 (by omega), key 1 (by omega), key 0 (by omega)]

theorem iv_map {c V} (hm : Match c V) : c.iv.map (Blake.wd V.w) = V.iv.map ofBV := by
  rw [hm.iv, List.map_map]
  apply List.map_congr_left
  intro x _
  simp [wd_eq]

theorem digest_eq {c V} (hm : Match c V) (hw8 : V.w % 8 = 0) (h : List (BitVec V.w)) :
    Blake.digest c (h.map ofBV) = Spec.Blake.output V h := by
  simp only [Blake.digest, Spec.Blake.output, List.flatMap_map, hm.out]
  congr 1
  induction h with
  | nil => rfl
  | cons x xs ih => simp only [List.flatMap_cons, ih, Spec.Blake.wordBytes, pack_be x hw8]

/-- folding the model's compression over whole blocks = folding the submission's, through `ofBV` -/
theorem fold_refines {c V} (hp : Pair c V) (salt : List (BitVec V.w)) (hs : salt.length = 4)
    (ys : List (List Nat × PadState)) (hblk : ∀ y ∈ ys, y.1.length = 16 * (V.w / 8)) :
    ∀ (H : List (BitVec V.w)), H.length = 8 →
      ys.foldl (fun H (y : List Nat × PadState) => Blake.compress c H (salt.map ofBV) (Blake.wordsBE V.w y.1) y.2.bitcnt) (H.map ofBV) =
        (ys.foldl (fun h (y : List Nat × PadState) => Spec.Blake.compress V h (beWords V y.1) salt y.2.bitcnt) H).map ofBV ∧
      (ys.foldl (fun h (y : List Nat × PadState) => Spec.Blake.compress V h (beWords V y.1) salt y.2.bitcnt) H).length = 8 := by
  have hm := pair_match hp
  obtain ⟨hw, _, _, _, _⟩ := pair_geo hp
  induction ys with
  | nil => intro H hH; exact ⟨rfl, hH⟩
  | cons y ys ih =>
    intro H hH
    simp only [List.foldl_cons]
    have hl := beWords_length V hw y.1 (hblk y (by simp))
    rw [wordsBE_eq V hw, (compress_refines hm H salt _ hH hs hl y.2.bitcnt).1]
    exact ih (fun z hz => hblk z (by simp [hz])) (Spec.Blake.compress V H (beWords V y.1) salt y.2.bitcnt)
      (compress_refines hm H salt _ hH hs hl y.2.bitcnt).2

/-- BLAKE: the call of the model is the submission's output transformation applied to the submission's compression
    function folded from the IV, with the submission's salt words, over the blocks the padder yields (block bytes read
    as big-endian words, counter = the `bitcnt` observed at the yield) -/
theorem blake_call_eq {c V} (hp : Pair c V) (M : List Nat) (salt : Nat) (bitlen : Option Nat)
    (hL : bitlen.getD (8 * M.length) ≤ 8 * M.length) :
    Blake.call c M salt bitlen = .ok (Spec.Blake.output V
      (((Padder.blakeP c.size).iterblocks {} M bitlen true).yields.foldl
        (fun h (y : List Nat × PadState) => Spec.Blake.compress V h (beWords V y.1) (Spec.Blake.saltWords V salt) y.2.bitcnt) V.iv)) := by
  have hm := pair_match hp
  obtain ⟨hw, hgeo, hbl, hsz, _⟩ := pair_geo hp
  have hw8 : V.w % 8 = 0 := by rcases hw with h | h <;> rw [h]
  have hcore := blake_yields_core c.size (Padder.blakeP c.size).blocksize (Padder.blakeW c.size) hgeo rfl {} rfl M bitlen _ rfl hL
  have hlen := blake_yields_blocklen c.size (Padder.blakeP c.size).blocksize (Padder.blakeW c.size) hgeo rfl {} rfl M bitlen _ rfl hL
  unfold Blake.call Blake.update Blake.initstate
  simp only []
  have herr : ((Padder.blakeP c.size).iterblocks {} M bitlen true).err = none := hcore.1
  rw [herr]
  simp only [hm.w]
  rw [salt_eq V hw, iv_map hm]
  have hsl : (Spec.Blake.saltWords V salt).length = 4 := by simp [Spec.Blake.saltWords]
  obtain ⟨hf, _⟩ := fold_refines hp (Spec.Blake.saltWords V salt) hsl
    ((Padder.blakeP c.size).iterblocks {} M bitlen true).yields (fun y hy => by rw [← hbl]; exact hlen y hy) V.iv hm.ivlen
  rw [hf, digest_eq hm hw8]

/-- the digest of the model has the length of the variant -/
theorem blake_call_length {c V} (hp : Pair c V) (M : List Nat) (salt : Nat) (bitlen : Option Nat)
    (hL : bitlen.getD (8 * M.length) ≤ 8 * M.length) (d : List Nat) (hd : Blake.call c M salt bitlen = .ok d) :
    d.length = c.size / 8 := by
  have hm := pair_match hp
  obtain ⟨hw, hgeo, hbl, hsz, hout⟩ := pair_geo hp
  have hlen := blake_yields_blocklen c.size (Padder.blakeP c.size).blocksize (Padder.blakeW c.size) hgeo rfl {} rfl M bitlen _ rfl hL
  rw [blake_call_eq hp M salt bitlen hL] at hd
  cases hd
  have hsl : (Spec.Blake.saltWords V salt).length = 4 := by simp [Spec.Blake.saltWords]
  obtain ⟨_, hf⟩ := fold_refines hp (Spec.Blake.saltWords V salt) hsl
    ((Padder.blakeP c.size).iterblocks {} M bitlen true).yields (fun y hy => by rw [← hbl]; exact hlen y hy) V.iv hm.ivlen
  unfold Spec.Blake.output
  rw [List.length_take, Blake2End.flatMap_length_const (Spec.Blake.wordBytes V) (V.w / 8) _ (by
    intro x _; simp [Spec.Blake.wordBytes]), hf]
  have := hm.out
  simp only [Blake.Cfg.outlen] at this
  omega

end Proofs.Lemmas.BlakeEnd
