/-
  Helper lemmas: shifts, rotations, concatenation, slices of `Model.Bits` at the `testBit` level.
-/
import Model.Bits
import Proofs.Lemmas.BitsBasic
namespace Proofs.Lemmas.Bits
open Model Model.Bits Model.Py

/-! ### shifts -/

theorem shl_testBit (b : Bits) (k i : Nat) :
    (b.shl k).ival.testBit i = (decide (i < b.size) && (decide (k ≤ i) && b.ival.testBit (i - k))) := by
  simp only [shl, and_mask, Nat.testBit_mod_two_pow, Nat.testBit_shiftLeft, ge_iff_le]

theorem shr_testBit (b : Bits) (k i : Nat) :
    (b.shr k).ival.testBit i = (decide (i < b.size) && b.ival.testBit (k + i)) := by
  simp only [shr, and_mask, Nat.testBit_mod_two_pow, Nat.testBit_shiftRight]

theorem shl_wf (b : Bits) (k : Nat) : (b.shl k).WF := by
  simp only [WF, shl, and_mask]; exact Nat.mod_lt _ (Nat.two_pow_pos _)
theorem shr_wf (b : Bits) (k : Nat) : (b.shr k).WF := by
  simp only [WF, shr, and_mask]; exact Nat.mod_lt _ (Nat.two_pow_pos _)

theorem or_wf {a o : Bits} (ha : a.WF) (ho : o.WF) : (a.or o).WF := by
  simp only [WF, Bits.or, wsize_eq_max]
  apply Nat.or_lt_two_pow
  · exact Nat.lt_of_lt_of_le ha (Nat.pow_le_pow_right (by omega) (Nat.le_max_left _ _))
  · exact Nat.lt_of_lt_of_le ho (Nat.pow_le_pow_right (by omega) (Nat.le_max_right _ _))

/-- `x ^ mask` on a well-formed payload is `2^n - 1 - x` -/
theorem xor_mask (b : Bits) (hb : b.WF) : b.ival ^^^ b.mask = 2 ^ b.size - 1 - b.ival := by
  apply Nat.eq_of_testBit_eq
  intro i
  simp only [mask, Nat.testBit_xor, Nat.testBit_two_pow_sub_one]
  by_cases hi : i < b.size
  · have := Nat.testBit_two_pow_sub_succ hb i
    simp only [hi, decide_true, Bool.true_and] at this
    have e : 2 ^ b.size - 1 - b.ival = 2 ^ b.size - (b.ival + 1) := by omega
    rw [e, this]; simp [hi]
  · have hlt : 2 ^ b.size - 1 - b.ival < 2 ^ b.size := by have := Nat.two_pow_pos b.size; omega
    simp [hi, testBit_of_lt hlt (Nat.le_of_not_lt hi), wf_testBit hb (Nat.le_of_not_lt hi)]

/-! ### rotations (`rol!`/`ror!` are the bodies of operators.py `rol`/`ror`) -/

theorem rot_index_sub {n k i : Nat} (hk : k ≤ n) (hi : i < n) :
    (i + n - k) % n = if k ≤ i then i - k else i + n - k := by
  split
  · have : i + n - k = (i - k) + n := by omega
    rw [this, Nat.add_mod_right, Nat.mod_eq_of_lt (by omega)]
  · exact Nat.mod_eq_of_lt (by omega)

theorem rot_index_add {n k i : Nat} (hk : k ≤ n) (hi : i < n) :
    (i + k) % n = if i + k < n then i + k else i + k - n := by
  split
  · exact Nat.mod_eq_of_lt (by assumption)
  · have : i + k = (i + k - n) + n := by omega
    rw [this, Nat.add_mod_right, Nat.mod_eq_of_lt (by omega)]; omega

@[simp] theorem rol!_size (x : Bits) (k : Nat) : (x.rol! k).size = x.size := by
  simp [rol!, Bits.or, wsize, shl, shr]
@[simp] theorem ror!_size (x : Bits) (k : Nat) : (x.ror! k).size = x.size := by
  simp [ror!, Bits.or, wsize, shl, shr]

theorem rol!_wf (x : Bits) (k : Nat) : (x.rol! k).WF := or_wf (shl_wf _ _) (shr_wf _ _)
theorem ror!_wf (x : Bits) (k : Nat) : (x.ror! k).WF := or_wf (shr_wf _ _) (shl_wf _ _)

/-- `rol` is an exact rotation: bit i of the result is bit (i-k) mod n of the operand -/
theorem rol!_testBit (x : Bits) (hx : x.WF) (k : Nat) (hk : k ≤ x.size) (i : Nat) (hi : i < x.size) :
    (x.rol! k).ival.testBit i = x.ival.testBit ((i + x.size - k) % x.size) := by
  simp only [rol!, Bits.or, Nat.testBit_or, shl_testBit, shr_testBit, hi, decide_true, Bool.true_and]
  rw [rot_index_sub hk hi]
  by_cases h : k ≤ i
  · simp only [h, decide_true, Bool.true_and, ↓reduceIte]
    rw [wf_testBit hx (i := x.size - k + i) (by omega), Bool.or_false]
  · simp only [h, decide_false, Bool.false_and, Bool.false_or, ↓reduceIte]
    congr 1; omega

/-- `ror` is an exact rotation: bit i of the result is bit (i+k) mod n of the operand -/
theorem ror!_testBit (x : Bits) (hx : x.WF) (k : Nat) (hk : k ≤ x.size) (i : Nat) (hi : i < x.size) :
    (x.ror! k).ival.testBit i = x.ival.testBit ((i + k) % x.size) := by
  simp only [ror!, Bits.or, Nat.testBit_or, shl_testBit, shr_testBit, hi, decide_true, Bool.true_and]
  rw [rot_index_add hk hi]
  by_cases h : i + k < x.size
  · simp only [h, ↓reduceIte]
    have : ¬ (x.size - k ≤ i) := by omega
    simp only [this, decide_false, Bool.false_and, Bool.or_false]
    congr 1; omega
  · simp only [h, ↓reduceIte]
    rw [wf_testBit hx (i := k + i) (by omega), Bool.false_or]
    have : x.size - k ≤ i := by omega
    simp only [this, decide_true, Bool.true_and]
    congr 1; omega

theorem rol!_ror! (x : Bits) (hx : x.WF) (k : Nat) (hk : k ≤ x.size) : (x.ror! k).rol! k = x := by
  apply ext_of_wf (rol!_wf _ _) hx (by simp)
  intro i hi
  simp only [rol!_size, ror!_size] at hi
  rw [rol!_testBit _ (ror!_wf _ _) k (by simpa using hk) i (by simpa using hi)]
  simp only [ror!_size]
  have hlt : (i + x.size - k) % x.size < x.size := Nat.mod_lt _ (by omega)
  rw [ror!_testBit x hx k hk _ hlt]
  congr 1
  rw [rot_index_sub hk hi]
  split
  · rw [Nat.mod_eq_of_lt (by omega)]; omega
  · have : i + x.size - k + k = i + x.size := by omega
    rw [this, Nat.add_mod_right, Nat.mod_eq_of_lt hi]

theorem ror!_rol! (x : Bits) (hx : x.WF) (k : Nat) (hk : k ≤ x.size) : (x.rol! k).ror! k = x := by
  apply ext_of_wf (ror!_wf _ _) hx (by simp)
  intro i hi
  simp only [rol!_size, ror!_size] at hi
  rw [ror!_testBit _ (rol!_wf _ _) k (by simpa using hk) i (by simpa using hi)]
  simp only [rol!_size]
  have hlt : (i + k) % x.size < x.size := Nat.mod_lt _ (by omega)
  rw [rol!_testBit x hx k hk _ hlt]
  congr 1
  rw [rot_index_add hk hi]
  split
  · have : i + k + x.size - k = i + x.size := by omega
    rw [this, Nat.add_mod_right, Nat.mod_eq_of_lt hi]
  · have : i + k - x.size + x.size - k = i := by omega
    rw [this, Nat.mod_eq_of_lt hi]

theorem rol_eq (x : Bits) (k : Nat) : x.rol k = if k > x.size then .error "ValueError:negative shift count" else .ok (x.rol! k) := rfl
theorem ror_eq (x : Bits) (k : Nat) : x.ror k = if k > x.size then .error "ValueError:negative shift count" else .ok (x.ror! k) := rfl

/-! ### contiguous slices and concatenation -/

@[simp] theorem sliceFast_size (b : Bits) (s e : Nat) : (b.sliceFast s e).size = e - s := rfl
theorem sliceFast_wf (b : Bits) (s e : Nat) : (b.sliceFast s e).WF := ofNatSz_wf _ _

theorem sliceFast_testBit (b : Bits) (s e i : Nat) :
    (b.sliceFast s e).ival.testBit i = (decide (i < e - s) && b.ival.testBit (s + i)) := by
  simp only [sliceFast, ofNatSz_ival, Nat.testBit_mod_two_pow, Nat.testBit_shiftRight,
    Nat.and_two_pow_sub_one_eq_mod]
  by_cases h : i < e - s
  · have : s + i < e := by omega
    simp [h, this]
  · simp [h]

@[simp] theorem concat_size (a o : Bits) : (a.concat o).size = a.size + o.size := rfl
theorem concat_wf (a o : Bits) : (a.concat o).WF := ofNatSz_wf _ _

/-- `a // o`: the bits of `a` (low positions), then the bits of `o` -/
theorem concat_testBit (a o : Bits) (ha : a.WF) (i : Nat) :
    (a.concat o).ival.testBit i =
      if i < a.size then a.ival.testBit i else (decide (i < a.size + o.size) && o.ival.testBit (i - a.size)) := by
  simp only [concat, ofNatSz_ival, Nat.testBit_mod_two_pow, Nat.testBit_or, Nat.testBit_shiftLeft, ge_iff_le]
  by_cases h : i < a.size
  · have h1 : i < a.size + o.size := by omega
    have h2 : ¬ a.size ≤ i := by omega
    simp [h, h1, h2]
  · have h2 : a.size ≤ i := by omega
    simp [h, h2, wf_testBit ha h2]

theorem sliceFast_full (b : Bits) (hb : b.WF) : b.sliceFast 0 b.size = b := by
  apply ext_of_wf (sliceFast_wf _ _ _) hb (by simp)
  intro i hi
  simp only [sliceFast_size, Nat.sub_zero] at hi
  simp [sliceFast_testBit, hi]

/-- two adjacent slices concatenate to the slice that spans both -/
theorem concat_sliceFast (b : Bits) (p q r : Nat) (hpq : p ≤ q) (hqr : q ≤ r) :
    (b.sliceFast p q).concat (b.sliceFast q r) = b.sliceFast p r := by
  apply ext_of_wf (concat_wf _ _) (sliceFast_wf _ _ _) (by simp; omega)
  intro i _
  rw [concat_testBit _ _ (sliceFast_wf _ _ _)]
  simp only [sliceFast_size, sliceFast_testBit]
  by_cases h : i < q - p
  · have : i < r - p := by omega
    simp [h, this]
  · have e : q + (i - (q - p)) = p + i := by omega
    have h3 : (decide (i - (q - p) < r - q)) = decide (i < r - p) := by
      apply decide_eq_decide.2; omega
    simp only [h, ↓reduceIte, e, h3]
    by_cases h4 : i < r - p
    · have : i < q - p + (r - q) := by omega
      simp [h4, this]
    · simp [h4]

/-- slices of a concatenation: the low `|a|` bits are `a`, the rest is `o` -/
theorem sliceFast_concat_left (a o : Bits) (ha : a.WF) : (a.concat o).sliceFast 0 a.size = a := by
  apply ext_of_wf (sliceFast_wf _ _ _) ha (by simp)
  intro i hi
  simp only [sliceFast_size, Nat.sub_zero] at hi
  simp [sliceFast_testBit, hi, concat_testBit a o ha]

theorem sliceFast_concat_right (a o : Bits) (ha : a.WF) (ho : o.WF) :
    (a.concat o).sliceFast a.size (a.size + o.size) = o := by
  apply ext_of_wf (sliceFast_wf _ _ _) ho (by simp)
  intro i hi
  simp only [sliceFast_size, Nat.add_sub_cancel_left] at hi
  have h1 : ¬ (a.size + i < a.size) := by omega
  simp [sliceFast_testBit, hi, concat_testBit a o ha, h1]

/-! ### split -/

/-- the j-th piece of `split(k)` -/
def piece (b : Bits) (k j : Nat) : Bits := b.sliceFast (j * k) (min (j * k + k) b.size)

/-- number of pieces -/
def npieces (b : Bits) (k : Nat) : Nat := (b.size + k - 1) / k

theorem split_eq (b : Bits) (k : Nat) (hk : 0 < k) (be : Bool) :
    b.split k be = .ok (if be then ((List.range (npieces b k)).map (piece b k)).reverse
                        else (List.range (npieces b k)).map (piece b k)) := by
  have : k ≠ 0 := by omega
  simp only [split, this, ↓reduceIte]; rfl

theorem lt_npieces {b : Bits} {k j : Nat} (hk : 0 < k) : j < npieces b k ↔ j * k < b.size := by
  unfold npieces
  rw [Nat.lt_iff_add_one_le, Nat.le_div_iff_mul_le hk, Nat.succ_mul]
  omega

theorem npieces_mul_ge (b : Bits) {k : Nat} (hk : 0 < k) : b.size ≤ npieces b k * k := by
  have h := (@lt_npieces b k (npieces b k) hk)
  have : ¬ (npieces b k * k < b.size) := fun h' => Nat.lt_irrefl _ (h.2 h')
  omega

theorem npieces_pos {b : Bits} {k : Nat} (hk : 0 < k) (hs : 0 < b.size) : 0 < npieces b k := by
  rw [lt_npieces hk]; simpa using hs

/-- concatenating the first t+1 pieces gives the prefix of length min((t+1)k, size) -/
theorem foldl_pieces (b : Bits) (k : Nat) (hk : 0 < k) (t : Nat) (ht : t < npieces b k) :
    ((List.range t).map fun j => piece b k (j + 1)).foldl concat (piece b k 0)
      = b.sliceFast 0 (min ((t + 1) * k) b.size) := by
  induction t with
  | zero => simp [piece]
  | succ t ih =>
    have ht' : t < npieces b k := by omega
    rw [List.range_succ, List.map_append, List.foldl_append, ih ht']
    simp only [List.map_cons, List.map_nil, List.foldl_cons, List.foldl_nil]
    have h1 : (t + 1) * k < b.size := (lt_npieces hk).1 ht
    have h2 : min ((t + 1) * k) b.size = (t + 1) * k := by omega
    have h3 : (t + 1 + 1) * k = (t + 1) * k + k := Nat.succ_mul _ _
    unfold piece
    rw [h2, h3]
    apply concat_sliceFast <;> omega

theorem reverse_of_length_one {α} (l : List α) (h : l.length = 1) : l.reverse = l := by
  match l, h with
  | [x], _ => rfl

/-- `concat(b.split(k,bigend),bigend) == b` for every k ≥ 1 (ragged last piece included), non-empty b -/
theorem concatList_split (b : Bits) (hb : b.WF) (k : Nat) (hk : 0 < k) (hs : 0 < b.size) (be : Bool) :
    (b.split k be >>= fun l => concatList l be) = .ok b := by
  rw [split_eq b k hk be]
  show concatList _ be = _
  obtain ⟨n, hn⟩ : ∃ n, npieces b k = n + 1 := ⟨npieces b k - 1, by have := npieces_pos (b := b) hk hs; omega⟩
  have hlist : (List.range (npieces b k)).map (piece b k)
      = piece b k 0 :: (List.range n).map fun j => piece b k (j + 1) := by
    rw [hn, List.range_succ_eq_map, List.map_cons, List.map_map]; rfl
  have hfinal : ((List.range n).map fun j => piece b k (j + 1)).foldl concat (piece b k 0) = b := by
    rw [foldl_pieces b k hk n (by omega)]
    have := npieces_mul_ge b hk
    rw [hn] at this
    rw [Nat.min_eq_right this]
    exact sliceFast_full b hb
  have hsel : (if (be = true ∧ (if be then ((List.range (npieces b k)).map (piece b k)).reverse
                  else (List.range (npieces b k)).map (piece b k)).length ≠ 1)
               then (if be then ((List.range (npieces b k)).map (piece b k)).reverse
                  else (List.range (npieces b k)).map (piece b k)).reverse
               else (if be then ((List.range (npieces b k)).map (piece b k)).reverse
                  else (List.range (npieces b k)).map (piece b k)))
        = (List.range (npieces b k)).map (piece b k) := by
    cases be
    · simp
    · simp only [true_and, ↓reduceIte, List.length_reverse, List.reverse_reverse]
      split
      · rfl
      · rename_i h
        have h' : ((List.range (npieces b k)).map (piece b k)).length = 1 := by simpa using h
        exact reverse_of_length_one _ h'
  unfold concatList
  rw [hsel, hlist]
  simp only [hfinal]

end Proofs.Lemmas.Bits
