/-
  Lemmas for C04, part 2: a `Bits` value as the list of its bits (`bitsOf`, index 0 first) and what the
  operations used by `Keccak.iterblocks` / `State.load` / `State.dump` do to that list.
-/
import Model.Keccak
import Spec.Keccak
namespace Proofs.Lemmas.KeccakBits
open Model Model.Keccak Model.Py

/-- the bit sequence a `Bits` object denotes -/
def bitsOf (b : Bits) : List Bool := (List.range b.size).map b.ival.testBit

@[simp] theorem bitsOf_length (b : Bits) : (bitsOf b).length = b.size := by simp [bitsOf]

theorem bitsOf_getElem (b : Bits) (i : Nat) (h : i < (bitsOf b).length) : (bitsOf b)[i] = b.ival.testBit i := by
  simp [bitsOf]

theorem testBit_false_of_WF {b : Bits} (h : b.WF) {i : Nat} (hi : b.size ≤ i) : b.ival.testBit i = false :=
  Nat.testBit_lt_two_pow (Nat.lt_of_lt_of_le h (Nat.pow_le_pow_right (by omega) hi))

/-- two well-formed values with the same bit sequence are the same object -/
theorem eq_of_bitsOf_eq {a b : Bits} (ha : a.WF) (hb : b.WF) (h : bitsOf a = bitsOf b) : a = b := by
  have hs : a.size = b.size := by simpa using congrArg List.length h
  have hv : a.ival = b.ival := by
    apply Nat.eq_of_testBit_eq
    intro i
    by_cases hi : i < a.size
    · have := congrArg (fun l => l[i]?) h
      simp only [bitsOf, List.getElem?_map] at this
      rw [List.getElem?_range hi, List.getElem?_range (hs ▸ hi)] at this
      simpa using this
    · rw [testBit_false_of_WF ha (by omega), testBit_false_of_WF hb (by omega)]
  cases a; cases b; simp_all

theorem ofNatSz_WF (v n : Nat) : (Bits.ofNatSz v n).WF := by
  simp only [Bits.ofNatSz, Bits.WF]; exact Nat.mod_lt _ (Nat.two_pow_pos n)

theorem setSize_WF (b : Bits) (n : Nat) : (b.setSize n).WF := by
  simp only [Bits.setSize, Bits.WF]; exact Nat.mod_lt _ (Nat.two_pow_pos n)

theorem concat_WF (a b : Bits) : (a.concat b).WF := ofNatSz_WF _ _

theorem sliceClip_WF (b : Bits) (i j : Nat) : (sliceClip b i j).WF := ofNatSz_WF _ _

@[simp] theorem concat_size (a b : Bits) : (a.concat b).size = a.size + b.size := rfl

@[simp] theorem setSize_size (b : Bits) (n : Nat) : (b.setSize n).size = n := rfl

@[simp] theorem sliceClip_size (b : Bits) (i j : Nat) : (sliceClip b i j).size = min j b.size - min i b.size := rfl

/-- `a // b` appends the bit sequences -/
theorem bitsOf_concat {a : Bits} (ha : a.WF) (b : Bits) : bitsOf (a.concat b) = bitsOf a ++ bitsOf b := by
  apply List.ext_getElem
  · simp
  · intro i h1 h2
    have hi : i < a.size + b.size := by simpa using h1
    rw [bitsOf_getElem]
    simp only [Bits.concat, Bits.ofNatSz, Nat.testBit_mod_two_pow, hi, decide_true, Bool.true_and,
      Nat.testBit_or, Nat.testBit_shiftLeft]
    by_cases hia : i < a.size
    · rw [List.getElem_append_left (by simpa using hia), bitsOf_getElem]
      have : ¬ (i ≥ a.size) := by omega
      simp [this]
    · rw [List.getElem_append_right (by simpa using hia), bitsOf_getElem]
      have : i ≥ a.size := by omega
      simp [this, testBit_false_of_WF ha this]

/-- `b[i:j]` takes that stretch of the bit sequence -/
theorem bitsOf_sliceClip (b : Bits) (i j : Nat) : bitsOf (sliceClip b i j) = ((bitsOf b).take j).drop i := by
  apply List.ext_getElem
  · simp; omega
  · intro t h1 h2
    have ht : t < min j b.size - min i b.size := by simpa using h1
    rw [bitsOf_getElem]
    simp only [List.getElem_drop, List.getElem_take, bitsOf_getElem]
    simp only [sliceClip, Bits.sliceFast, Bits.ofNatSz, Nat.testBit_mod_two_pow, ht, decide_true, Bool.true_and,
      Nat.testBit_shiftRight, Nat.and_two_pow_sub_one_eq_mod]
    have h4 : min i b.size = i := by omega
    have h3 : i + t < min j b.size := by omega
    simp [h3, h4]

/-- the `size` setter keeps the first n bits (and appends zeros when it grows a well-formed value) -/
theorem bitsOf_setSize {b : Bits} (hb : b.WF) (n : Nat) :
    bitsOf (b.setSize n) = (bitsOf b ++ List.replicate (n - b.size) false).take n := by
  apply List.ext_getElem
  · simp; omega
  · intro t h1 h2
    have ht : t < n := by simpa using h1
    rw [bitsOf_getElem]
    simp only [Bits.setSize, Nat.testBit_mod_two_pow, ht, decide_true, Bool.true_and, List.getElem_take]
    by_cases hts : t < b.size
    · rw [List.getElem_append_left (by simpa using hts), bitsOf_getElem]
    · rw [List.getElem_append_right (by simpa using hts)]
      simp [testBit_false_of_WF hb (by omega : b.size ≤ t)]

theorem bitsOf_setSize_le {b : Bits} (n : Nat) (hn : n ≤ b.size) : bitsOf (b.setSize n) = (bitsOf b).take n := by
  apply List.ext_getElem
  · simp; omega
  · intro t h1 h2
    have ht : t < n := by simpa using h1
    rw [bitsOf_getElem]
    simp only [Bits.setSize, Nat.testBit_mod_two_pow, ht, decide_true, Bool.true_and, List.getElem_take, bitsOf_getElem]


/-! ### `Bits(Pi,bitorder=1)` -/

/-- little-endian value of a byte string, in the shape `Bits.load` computes it -/
def leVal : List Nat → Nat
  | [] => 0
  | b :: bs => (leVal bs <<< 8) ||| b

theorem chunks_go_one (s : List Nat) : ∀ n, s.length ≤ n → chunks.go 1 s n = s.map fun b => [b] := by
  induction s with
  | nil => intro n _; cases n <;> simp [chunks.go]
  | cons b bs ih =>
    intro n hn
    cases n with
    | zero => simp at hn
    | succ n => simp [chunks.go, ih n (by simpa using hn)]

theorem groupsVal_one (s : List Nat) : Bits.groupsVal id 1 (s.map fun b => [b]) = leVal s := by
  induction s with
  | nil => rfl
  | cons b bs ih => simp [Bits.groupsVal, Bits.groupVal, leVal, ih]

theorem load_one (s : List Nat) : Bits.load s 1 = .ok ⟨leVal s, 8 * s.length⟩ := by
  simp [Bits.load, chunks, chunks_go_one s s.length (Nat.le_refl _), groupsVal_one, Nat.mod_one]

theorem bitsLE_eq (s : List Nat) : bitsLE s = ⟨leVal s, 8 * s.length⟩ := by simp [bitsLE, load_one]

theorem leVal_lt (s : List Nat) (hs : ∀ b ∈ s, b < 256) : leVal s < 2 ^ (8 * s.length) := by
  induction s with
  | nil => simp [leVal]
  | cons b bs ih =>
    have h1 := ih (fun x hx => hs x (List.mem_cons_of_mem _ hx))
    have h2 : b < 2 ^ 8 := hs b (by simp)
    simp only [leVal, List.length_cons]
    apply Nat.or_lt_two_pow
    · rw [Nat.shiftLeft_eq, show 8 * (bs.length + 1) = 8 * bs.length + 8 by omega, Nat.pow_add]
      exact Nat.mul_lt_mul_of_pos_right h1 (by decide)
    · exact Nat.lt_of_lt_of_le h2 (Nat.pow_le_pow_right (by omega) (by omega))

theorem bitsLE_WF (s : List Nat) (hs : ∀ b ∈ s, b < 256) : (bitsLE s).WF := by
  rw [bitsLE_eq]; exact leVal_lt s hs

/-- `Bits(Pi,bitorder=1)` denotes the bytes' bits, each byte least significant bit first (FIPS 202 B.1 h2b) -/
theorem bitsOf_bitsLE (s : List Nat) (hs : ∀ b ∈ s, b < 256) : bitsOf (bitsLE s) = Spec.Keccak.bitsOfBytes s := by
  induction s with
  | nil => simp [bitsLE_eq, bitsOf, Spec.Keccak.bitsOfBytes]
  | cons b bs ih =>
    have hbs : ∀ x ∈ bs, x < 256 := fun x hx => hs x (List.mem_cons_of_mem _ hx)
    have hb : b < 2 ^ 8 := hs b (by simp)
    have hcat : bitsLE (b :: bs) = (⟨b, 8⟩ : Bits).concat (bitsLE bs) := by
      rw [bitsLE_eq, bitsLE_eq]
      simp only [Bits.concat, Bits.ofNatSz, leVal, List.length_cons]
      have hlt : b ||| leVal bs <<< 8 < 2 ^ (8 + 8 * bs.length) := by
        have := leVal_lt (b :: bs) hs
        simp only [leVal, List.length_cons] at this
        rw [Nat.or_comm, show 8 + 8 * bs.length = 8 * (bs.length + 1) by omega]; exact this
      rw [Nat.mod_eq_of_lt hlt, Nat.or_comm]
      congr 1; omega
    rw [hcat, bitsOf_concat (by exact hb), ih hbs]
    simp [Spec.Keccak.bitsOfBytes, bitsOf]

end Proofs.Lemmas.KeccakBits
