/-
  Helper lemmas for C16 (Model.Poly): coefficient access, list plumbing, modular arithmetic.
-/
import Model.Poly
import Spec.Poly
namespace Proofs.PolyL
open Model Model.Poly Model.Py

-- lets `decide` settle the concrete instances in the non-vacuity examples (the instance name stays inside this namespace)
deriving instance DecidableEq for Except

/-! ### coefficient access -/

theorem e_lt (a : Poly) {i : Nat} (h : i < a.ival.length) : a.e i = a.ival[i] := by
  simp [e, List.getD_eq_getElem?_getD, h]

theorem e_ge (a : Poly) {i : Nat} (h : a.dim ≤ i) : a.e i = 0 := by
  simp only [dim] at h
  simp [e, List.getElem?_eq_none h]

theorem getD_map_range (f : Nat → Int) (n i : Nat) (h : i < n) : ((List.range n).map f).getD i 0 = f i := by
  simp [List.getD_eq_getElem?_getD, h]

theorem ival_eq_map_e (a : Poly) : a.ival = (List.range a.dim).map a.e := by
  apply List.ext_getElem
  · simp [dim]
  · intro i h1 h2
    simp [e, List.getD_eq_getElem?_getD, h1]

theorem ext_e {a b : Poly} (hs : a.size = b.size) (hd : a.dim = b.dim) (h : ∀ i, i < a.dim → a.e i = b.e i) : a = b := by
  cases a with | mk ai as => cases b with | mk bi bs =>
  simp only [dim, e] at *
  subst hs
  congr
  apply List.ext_getElem hd
  intro i h1 h2
  have := h i h1
  simpa [List.getD_eq_getElem?_getD, h1, h2] using this


/-! ### binary operators -/

theorem binop_ok {op : BinOp} {a b : Poly} (h : a.size = b.size) :
    binop op a b = .ok ⟨(List.range (max a.dim b.dim)).map (fun j => coeffOp op a.size (a.e j) (b.e j)), a.size⟩ := by
  simp [binop, h]

theorem binop_err {op : BinOp} {a b : Poly} (h : a.size ≠ b.size) : binop op a b = .error "AssertionError" := by
  simp [binop, h]

theorem binop_inv {op : BinOp} {a b r : Poly} (h : binop op a b = .ok r) :
    a.size = b.size ∧ r.size = a.size ∧ r.dim = max a.dim b.dim ∧
    ∀ i, i < max a.dim b.dim → r.e i = coeffOp op a.size (a.e i) (b.e i) := by
  unfold binop at h
  split at h
  · cases h
  · rename_i hs
    simp only [ne_eq, Decidable.not_not] at hs
    cases h
    refine ⟨hs, rfl, by simp [dim], ?_⟩
    intro i hi
    simp only [e]
    exact getD_map_range _ _ _ hi

theorem red_pos {k : Nat} (hk : 0 < k) (x : Int) : red k x = x % (2:Int)^k := by
  simp [red, Nat.ne_of_gt hk]

theorem red_zero (x : Int) : red 0 x = x := by simp [red]

theorem WF_e {a : Poly} (h : a.WF) (hk : 0 < a.size) (i : Nat) : 0 ≤ a.e i ∧ a.e i < (2:Int)^a.size := by
  rcases h with h | h
  · omega
  · by_cases hi : i < a.ival.length
    · rw [e_lt a hi]; exact h _ (List.getElem_mem hi)
    · rw [e_ge a (by simpa [dim] using hi)]
      exact ⟨Int.le_refl 0, Int.pow_pos (by decide)⟩

theorem WF_of_e {a : Poly} (h : ∀ i, i < a.dim → 0 ≤ a.e i ∧ a.e i < (2:Int)^a.size) : a.WF := by
  right
  intro x hx
  obtain ⟨i, hi, rfl⟩ := List.getElem_of_mem hx
  have := h i (by simpa [dim] using hi)
  rwa [e_lt a hi] at this

theorem toNat_lt_pow {x : Int} {k : Nat} (h0 : 0 ≤ x) (h : x < (2:Int)^k) : x.toNat < 2^k := by
  have : ((x.toNat : Nat) : Int) < ((2^k : Nat) : Int) := by
    rw [Int.toNat_of_nonneg h0]; simpa using h
  exact Int.ofNat_lt.mp this

theorem binop_e {op : BinOp} {a b r : Poly} (h : binop op a b = .ok r) (i : Nat) :
    r.e i = if i < max a.dim b.dim then coeffOp op a.size (a.e i) (b.e i) else 0 := by
  obtain ⟨_, _, hd, hc⟩ := binop_inv h
  split
  · rename_i hi; exact hc i hi
  · rename_i hi; exact e_ge r (by omega)

theorem toNat_emod_pow (x : Int) (k : Nat) (h : 0 ≤ x) : (x % (2:Int)^k).toNat = x.toNat % 2^k := by
  obtain ⟨n, rfl⟩ := Int.eq_ofNat_of_zero_le h
  have : ((2:Int)^k) = ((2^k : Nat) : Int) := by simp
  rw [this, ← Int.natCast_emod, Int.toNat_natCast, Int.toNat_natCast]

theorem bit_coeff {a b r : Poly} {op : BinOp} {f : Nat → Nat → Nat}
    (hop : ∀ x y, coeffOp op a.size x y = Int.ofNat (f x.toNat y.toNat)) (hf : f 0 0 = 0)
    (h : binop op a b = .ok r) (i : Nat) :
    r.e i = ((f (a.e i).toNat (b.e i).toNat : Nat) : Int) := by
  rw [binop_e h]
  split
  · rw [hop]; rfl
  · rename_i hi
    rw [e_ge a (by omega), e_ge b (by omega)]; simp [hf]


/-! ### commutativity, invariant, unary operators -/

theorem intBitOp_comm {f : Nat → Nat → Nat} (hf : ∀ x y, f x y = f y x) (a b : Int) :
    intBitOp f a b = intBitOp f b a := by
  simp only [intBitOp, Nat.max_comm (bitLength a.natAbs), hf (a % _).toNat]

theorem coeffOp_comm {op : BinOp} (hop : op ≠ .sub) (k : Nat) (x y : Int) : coeffOp op k x y = coeffOp op k y x := by
  cases op with
  | sub => exact absurd rfl hop
  | add => simp [coeffOp, Int.add_comm]
  | and => simp only [coeffOp, intBitOp_comm (f := (· &&& ·)) Nat.and_comm x y, Nat.and_comm x.toNat]
  | or => simp only [coeffOp, intBitOp_comm (f := (· ||| ·)) Nat.or_comm x y, Nat.or_comm x.toNat]
  | xor => simp only [coeffOp, intBitOp_comm (f := (· ^^^ ·)) Nat.xor_comm x y, Nat.xor_comm x.toNat]

theorem red_range {k : Nat} (hk : 0 < k) (x : Int) : 0 ≤ red k x ∧ red k x < (2:Int)^k := by
  rw [red_pos hk]
  have hp : (0:Int) < (2:Int)^k := Int.pow_pos (by decide)
  exact ⟨Int.emod_nonneg _ (Int.ne_of_gt hp), Int.emod_lt_of_pos _ hp⟩

theorem WF_size_zero {a : Poly} (h : a.size = 0) : a.WF := Or.inl h

theorem WF_map_red (l : List Int) (k : Nat) (f : Int → Int) : (⟨l.map fun x => red k (f x), k⟩ : Poly).WF := by
  by_cases hk : k = 0
  · exact Or.inl hk
  · right
    intro x hx
    simp only [List.mem_map] at hx
    obtain ⟨y, _, rfl⟩ := hx
    exact red_range (Nat.pos_of_ne_zero hk) _

theorem coeffOp_range {op : BinOp} {k : Nat} (hk : 0 < k) {x y : Int}
    (hx : 0 ≤ x ∧ x < (2:Int)^k) (hy : 0 ≤ y ∧ y < (2:Int)^k) :
    0 ≤ coeffOp op k x y ∧ coeffOp op k x y < (2:Int)^k := by
  have hx' := toNat_lt_pow hx.1 hx.2
  have hy' := toNat_lt_pow hy.1 hy.2
  have cast : ∀ n : Nat, n < 2^k → (0:Int) ≤ Int.ofNat n ∧ Int.ofNat n < (2:Int)^k := by
    intro n hn
    refine ⟨Int.natCast_nonneg n, ?_⟩
    have : ((2:Int)^k) = ((2^k : Nat) : Int) := by simp
    rw [this]; exact Int.ofNat_lt.mpr hn
  cases op with
  | add => exact red_range hk _
  | sub => exact red_range hk _
  | and => simp only [coeffOp, Nat.ne_of_gt hk, if_false]
           exact cast _ (Nat.lt_of_le_of_lt Nat.and_le_left hx')
  | or => simp only [coeffOp, Nat.ne_of_gt hk, if_false]
          exact cast _ (Nat.or_lt_two_pow hx' hy')
  | xor => simp only [coeffOp, Nat.ne_of_gt hk, if_false]
           exact cast _ (Nat.xor_lt_two_pow hx' hy')

theorem e_map (l : List Int) (k : Nat) (f : Int → Int) (hf : f 0 = 0) (i : Nat) :
    (⟨l.map f, k⟩ : Poly).e i = f ((⟨l, k⟩ : Poly).e i) := by
  simp only [e, List.getD_eq_getElem?_getD, List.getElem?_map]
  cases l[i]? <;> simp [hf]


/-! ### indexing -/

theorem red_of_range {k : Nat} {x : Int} (h : k = 0 ∨ (0 ≤ x ∧ x < (2:Int)^k)) : red k x = x := by
  unfold red
  split
  · rfl
  · rename_i hk
    rcases h with h | h
    · exact absurd h hk
    · exact Int.emod_eq_of_lt h.1 h.2

theorem WF_red_e {a : Poly} (ha : a.WF) (i : Nat) : red a.size (a.e i) = a.e i := by
  apply red_of_range
  by_cases hk : a.size = 0
  · exact Or.inl hk
  · exact Or.inr (WF_e ha (Nat.pos_of_ne_zero hk) i)

theorem normIndex_pos {i : Int} {n : Nat} (h : -(n:Int) ≤ i ∧ i < n) : normIndex i n = some (Spec.Poly.pos n i) := by
  unfold normIndex Spec.Poly.pos
  by_cases h0 : 0 ≤ i
  · simp [h0, h.2, Int.not_lt.mpr h0]
  · have : i < 0 := by omega
    simp [h0, this]
    omega

theorem normIndex_none {i : Int} {n : Nat} (h : i < -(n:Int) ∨ (n:Int) ≤ i) : normIndex i n = none := by
  unfold normIndex
  rw [if_neg (by omega), if_neg (by omega)]

theorem pos_lt {i : Int} {n : Nat} (h : -(n:Int) ≤ i ∧ i < n) : Spec.Poly.pos n i < n := by
  unfold Spec.Poly.pos; split <;> omega

theorem pyGet_ok (a : Poly) {i : Int} (h : -(a.dim:Int) ≤ i ∧ i < a.dim) :
    pyGet a.ival i = .ok (a.e (Spec.Poly.pos a.dim i)) := by
  simp only [dim] at h
  simp [pyGet, normIndex_pos h, e, dim]

theorem pyGet_err (a : Poly) {i : Int} (h : i < -(a.dim:Int) ∨ (a.dim:Int) ≤ i) :
    pyGet a.ival i = .error "IndexError" := by
  simp only [dim] at h
  simp [pyGet, normIndex_none h]

theorem ofList_WF_eq {l : List Int} {k : Nat} (h : (⟨l, k⟩ : Poly).WF) : ofList l k = ⟨l, k⟩ := by
  simp only [ofList, if_true]
  congr 1
  conv => rhs; rw [← List.map_id l]
  apply List.map_congr_left
  intro x hx
  apply red_of_range
  rcases h with h | h
  · exact Or.inl h
  · exact Or.inr (h x hx)

theorem mapM_ok {α β : Type} (f : α → Except Err β) (g : α → β) :
    ∀ (l : List α), (∀ x ∈ l, f x = .ok (g x)) → l.mapM f = .ok (l.map g)
  | [], _ => rfl
  | x :: xs, h => by
    rw [List.mapM_cons, h x (List.mem_cons_self), mapM_ok f g xs (fun y hy => h y (List.mem_cons_of_mem _ hy))]
    rfl

theorem mapM_err {α β : Type} (f : α → Except Err β) :
    ∀ (l : List α), (∃ x ∈ l, ∃ m, f x = .error m) → ∃ m, l.mapM f = .error m
  | [], h => by obtain ⟨x, hx, _⟩ := h; cases hx
  | x :: xs, h => by
    rw [List.mapM_cons]
    cases hfx : f x with
    | error m => exact ⟨m, rfl⟩
    | ok v =>
      have : ∃ y ∈ xs, ∃ m, f y = .error m := by
        obtain ⟨y, hy, m, hm⟩ := h
        rcases List.mem_cons.mp hy with rfl | hy
        · rw [hfx] at hm; cases hm
        · exact ⟨y, hy, m, hm⟩
      obtain ⟨m, hm⟩ := mapM_err f xs this
      exact ⟨m, by simp [hm, bind, Except.bind]⟩

theorem WF_of_forall {l : List Int} {k : Nat} (h : ∀ x ∈ l, k = 0 ∨ (0 ≤ x ∧ x < (2:Int)^k)) : (⟨l, k⟩ : Poly).WF := by
  by_cases hk : k = 0
  · exact Or.inl hk
  · right; intro x hx
    rcases h x hx with h | h
    · exact absurd h hk
    · exact h

theorem WF_map_e {a : Poly} (ha : a.WF) {α : Type} (l : List α) (f : α → Nat) :
    (⟨l.map (fun i => a.e (f i)), a.size⟩ : Poly).WF := by
  apply WF_of_forall
  intro x hx
  obtain ⟨i, _, rfl⟩ := List.mem_map.mp hx
  by_cases hk : a.size = 0
  · exact Or.inl hk
  · exact Or.inr (WF_e ha (Nat.pos_of_ne_zero hk) _)

theorem sliceIndices_bounds {start stop step : Option Int} {n : Nat} {s e st : Int}
    (h : sliceIndices start stop step n = .ok (s, e, st)) (hst : 0 ≤ st) :
    0 < st ∧ 0 ≤ s ∧ s ≤ n ∧ 0 ≤ e ∧ e ≤ n := by
  unfold sliceIndices at h
  simp only at h
  split at h
  · cases h
  · rename_i h0
    injection h with h
    injection h with hs h
    injection h with he hst'
    subst hst'
    have hpos : 0 < step.getD 1 := by omega
    have hn : ¬ step.getD 1 < 0 := by omega
    simp only [hn, if_false] at hs he
    refine ⟨hpos, ?_, ?_, ?_, ?_⟩
    · subst hs; cases start <;> simp only <;> (try split) <;> (try split) <;> omega
    · subst hs; cases start <;> simp only <;> (try split) <;> (try split) <;> omega
    · subst he; cases stop <;> simp only <;> (try split) <;> (try split) <;> omega
    · subst he; cases stop <;> simp only <;> (try split) <;> (try split) <;> omega

theorem range_nonneg {s e st : Int} (hs : 0 ≤ s) (hst : 0 ≤ st) : ∀ i ∈ Py.range s e st, 0 ≤ i := by
  intro i hi
  simp only [Py.range, List.mem_map, List.mem_range] at hi
  obtain ⟨j, _, rfl⟩ := hi
  have : 0 ≤ st * (j:Int) := Int.mul_nonneg hst (Int.natCast_nonneg j)
  omega


/-! ### assignment, constructors -/

theorem setInt_ok (a : Poly) {i : Int} (h : -(a.dim:Int) ≤ i ∧ i < a.dim) (v : Int) :
    a.setInt i v = .ok ⟨a.ival.set (Spec.Poly.pos a.dim i) (red a.size v), a.size⟩ := by
  simp only [dim] at h
  simp [setInt, normIndex_pos h, dim]

theorem e_set (l : List Int) (k j : Nat) (v : Int) (hj : j < l.length) (m : Nat) :
    (⟨l.set j v, k⟩ : Poly).e m = if m = j then v else (⟨l, k⟩ : Poly).e m := by
  simp only [e, List.getD_eq_getElem?_getD, List.getElem?_set]
  by_cases h : j = m
  · subst h; simp [hj]
  · simp [h, Ne.symm h]

theorem setMany_nil_left (a : Poly) (vs : List Int) : a.setMany [] vs = .ok a := by
  unfold setMany; rfl
theorem setMany_nil_right (a : Poly) (js : List Int) : a.setMany js [] = .ok a := by
  cases js <;> (unfold setMany; rfl)
theorem setMany_cons (a : Poly) (j v : Int) (js vs : List Int) :
    a.setMany (j :: js) (v :: vs) = (a.setInt j v >>= fun a' => a'.setMany js vs) := by
  conv => lhs; unfold setMany

theorem take_pad (l : List Int) (d : Nat) :
    (l ++ List.replicate (d - l.length) 0).take d = (List.range d).map (Spec.Poly.coeff l) := by
  apply List.ext_getElem
  · simp; omega
  · intro i h1 h2
    simp only [List.length_map, List.length_range] at h2
    simp only [List.getElem_take, List.getElem_map, List.getElem_range, Spec.Poly.coeff,
      List.getD_eq_getElem?_getD, List.getElem_append]
    by_cases hi : i < l.length
    · simp [hi]
    · simp [hi]

theorem fit_WF {l : List Int} {k : Nat} (h : (⟨l, k⟩ : Poly).WF) (d : Nat) : (⟨Spec.Poly.fit d l, k⟩ : Poly).WF := by
  unfold Spec.Poly.fit
  split
  · exact h
  · exact WF_map_e (a := ⟨l, k⟩) h (List.range d) id


/-! ### re-chunking, packing, concatenation -/

theorem testBit_false_of_lt {x k i : Nat} (hx : x < 2^k) (hi : k ≤ i) : x.testBit i = false := by
  apply Nat.testBit_lt_two_pow
  exact Nat.lt_of_lt_of_le hx (Nat.pow_le_pow_right (by decide) hi)

theorem sliceFast_val {x k k' j : Nat} (hx : x < 2^k) :
    ((⟨x % 2^k, k⟩ : Bits).sliceFast (j*k') (min (j*k'+k') k)).ival = x / 2^(k'*j) % 2^k' := by
  simp only [Bits.sliceFast, Bits.ofNatSz, Nat.mod_eq_of_lt hx]
  apply Nat.eq_of_testBit_eq
  intro i
  simp only [Nat.testBit_mod_two_pow, Nat.testBit_shiftRight, Nat.testBit_and, Nat.testBit_two_pow_sub_one,
    Nat.testBit_div_two_pow, Nat.mul_comm k' j]
  by_cases hk : j*k' + i < k
  · by_cases hi : i < k'
    · have h1 : i < min (j*k'+k') k - j*k' := by omega
      have h2 : j*k' + i < min (j*k'+k') k := by omega
      simp [h1, h2, hi, Nat.add_comm i]
    · have h1 : ¬ i < min (j*k'+k') k - j*k' := by omega
      simp [h1, hi]
  · have := testBit_false_of_lt hx (Nat.le_of_not_lt hk)
    simp [this, Nat.add_comm i]

theorem bits_split_ival {x k k' : Nat} (hx : x < 2^k) (hk' : 0 < k') (be : Bool) :
    ∃ l, (Bits.ofNatSz x k).split k' be = .ok l ∧
      l.map (·.ival) = (if be then (Spec.Poly.digits k k' x).reverse else Spec.Poly.digits k k' x) := by
  simp only [Bits.split, Nat.ne_of_gt hk', if_false, Bits.ofNatSz]
  refine ⟨_, rfl, ?_⟩
  have hd : ((List.range ((k + k' - 1) / k')).map fun j =>
      (⟨x % 2^k, k⟩ : Bits).sliceFast (j * k') (min (j * k' + k') k)).map (·.ival) = Spec.Poly.digits k k' x := by
    simp only [List.map_map, Spec.Poly.digits, Spec.Poly.pieces]
    apply List.map_congr_left
    intro j _
    exact sliceFast_val hx
  cases be
  · simpa using hd
  · simp only [if_true, List.map_reverse]
    rw [hd]

theorem ofNat_toNat_mod {k : Nat} (hk : 0 < k) {n : Nat} (h : n < 2^k) : red k (Int.ofNat n) = Int.ofNat n := by
  apply red_of_range
  right
  refine ⟨Int.natCast_nonneg n, ?_⟩
  have : ((2:Int)^k) = ((2^k : Nat) : Int) := by simp
  rw [this]; exact Int.ofNat_lt.mpr h

theorem digits_lt {k k' x : Nat} : ∀ d ∈ Spec.Poly.digits k k' x, d < 2^k' := by
  intro d hd
  simp only [Spec.Poly.digits, List.mem_map] at hd
  obtain ⟨j, _, rfl⟩ := hd
  exact Nat.mod_lt _ (Nat.two_pow_pos k')

theorem split_mapM {k k' : Nat} (hk : 0 < k) (hk' : 0 < k') (be : Bool) :
    ∀ (l : List Int), (∀ x ∈ l, 0 ≤ x ∧ x < (2:Int)^k) →
    ∃ parts, l.mapM (fun x => if k = 0 then (.error "AttributeError:int has no split" : Except Err (List Bits))
                              else (Bits.ofNatSz x.toNat k).split k' be) = .ok parts ∧
      parts.flatten.map (fun b => red k' (Int.ofNat b.ival)) =
        (Spec.Poly.rechunk k k' be (l.map Int.toNat)).map Int.ofNat
  | [], _ => ⟨[], rfl, by simp [Spec.Poly.rechunk]⟩
  | x :: xs, h => by
    have hx := h x (List.mem_cons_self)
    obtain ⟨lx, hlx, hval⟩ := bits_split_ival (toNat_lt_pow hx.1 hx.2) hk' be
    obtain ⟨parts, hparts, hrest⟩ := split_mapM hk hk' be xs (fun z hz => h z (List.mem_cons_of_mem _ hz))
    refine ⟨lx :: parts, ?_, ?_⟩
    · rw [List.mapM_cons, if_neg (Nat.ne_of_gt hk), hlx, hparts]; rfl
    · simp only [List.flatten_cons, List.map_append, hrest, Spec.Poly.rechunk, List.map_cons, List.flatMap_cons]
      congr 1
      have : lx.map (fun b => red k' (Int.ofNat b.ival)) = (lx.map (·.ival)).map (fun n => red k' (Int.ofNat n)) := by
        simp [List.map_map]
      rw [this, hval]
      apply List.map_congr_left
      intro d hd
      apply ofNat_toNat_mod hk'
      cases be
      · exact digits_lt d (by simpa using hd)
      · exact digits_lt d (by simpa using hd)

theorem flatMap_getElem?_const {α β : Type} (f : α → List β) {q : Nat} (hq : 0 < q) (hf : ∀ x, (f x).length = q) :
    ∀ (l : List α) (j : Nat), (l.flatMap f)[j]? = (l[j / q]?).bind fun x => (f x)[j % q]?
  | [], j => by simp
  | x :: xs, j => by
    rw [List.flatMap_cons]
    by_cases hj : j < q
    · rw [List.getElem?_append_left (by rw [hf]; exact hj)]
      simp [Nat.div_eq_of_lt hj, Nat.mod_eq_of_lt hj]
    · have hge : q ≤ j := Nat.le_of_not_lt hj
      rw [List.getElem?_append_right (by rw [hf]; exact hge), hf, flatMap_getElem?_const f hq hf xs (j - q)]
      obtain ⟨j', rfl⟩ : ∃ j', j = j' + q := ⟨j - q, by omega⟩
      rw [Nat.add_sub_cancel, Nat.add_div_right _ hq, Nat.add_mod_right]
      simp

theorem flatMap_length_const {α β : Type} (f : α → List β) {q : Nat} (hf : ∀ x, (f x).length = q) :
    ∀ (l : List α), (l.flatMap f).length = l.length * q
  | [] => by simp
  | x :: xs => by
    rw [List.flatMap_cons, List.length_append, hf, flatMap_length_const f hf xs, List.length_cons, Nat.succ_mul]
    omega

theorem digits_length (k k' x : Nat) : (Spec.Poly.digits k k' x).length = Spec.Poly.pieces k k' := by
  simp [Spec.Poly.digits]

theorem rechunk_length (k k' : Nat) (be : Bool) (l : List Nat) :
    (Spec.Poly.rechunk k k' be l).length = l.length * Spec.Poly.pieces k k' := by
  apply flatMap_length_const
  intro x; cases be <;> simp [digits_length]

theorem pieces_pos {k k' : Nat} (hk : 0 < k) (hk' : 0 < k') : 0 < Spec.Poly.pieces k k' := by
  unfold Spec.Poly.pieces
  apply Nat.div_pos <;> omega

theorem pieces_dvd {k k' : Nat} (hk' : 0 < k') (h : k' ∣ k) : Spec.Poly.pieces k k' = k / k' := by
  obtain ⟨m, rfl⟩ := h
  unfold Spec.Poly.pieces
  rw [Nat.mul_div_cancel_left _ hk']
  have : k' * m + k' - 1 = (k' - 1) + k' * m := by omega
  rw [this, Nat.add_mul_div_left _ _ hk', Nat.div_eq_of_lt (by omega)]
  omega

theorem e_map_ofNat (l : List Nat) (k j : Nat) : ((⟨l.map Int.ofNat, k⟩ : Poly).e j).toNat = l.getD j 0 := by
  simp only [e, List.getD_eq_getElem?_getD, List.getElem?_map]
  cases l[j]? <;> simp

theorem flatMap_congr' {α β : Type} {f g : α → List β} :
    ∀ (l : List α), (∀ x ∈ l, f x = g x) → l.flatMap f = l.flatMap g
  | [], _ => rfl
  | x :: xs, h => by
    rw [List.flatMap_cons, List.flatMap_cons, h x (List.mem_cons_self),
      flatMap_congr' xs (fun y hy => h y (List.mem_cons_of_mem _ hy))]

theorem digits_eq_leBytes_aux (q : Nat) : ∀ (x : Nat),
    (List.range q).map (fun j => x / 2 ^ (8 * j) % 2 ^ 8) = Py.leBytes q x := by
  induction q with
  | zero => intro x; rfl
  | succ q ih =>
    intro x
    rw [List.range_succ_eq_map, List.map_cons, List.map_map, Py.leBytes, ← ih (x / 256)]
    congr 1
    · simp
    · apply List.map_congr_left
      intro j _
      simp only [Function.comp]
      rw [Nat.div_div_eq_div_mul]
      congr 2
      rw [show 8 * (j+1) = 8 + 8 * j by omega, Nat.pow_add]

theorem digits_eq_leBytes (k x : Nat) : Spec.Poly.digits k 8 x = Py.leBytes ((k + 7) / 8) x := by
  simp only [Spec.Poly.digits, Spec.Poly.pieces]
  exact digits_eq_leBytes_aux _ x

theorem split_spec' {a : Poly} (hk : 0 < a.size) (ha : a.WF) {k' : Nat} (hk' : 0 < k') (hne : k' ≠ a.size) (be : Bool) :
    a.split k' be = .ok ⟨(Spec.Poly.rechunk a.size k' be (a.ival.map Int.toNat)).map Int.ofNat, k'⟩ := by
  have hall : ∀ x ∈ a.ival, 0 ≤ x ∧ x < (2:Int)^a.size := by
    rcases ha with ha | ha
    · omega
    · exact ha
  obtain ⟨parts, hparts, hval⟩ := split_mapM hk hk' be a.ival hall
  simp only [split, hne, if_false, hparts, bind, Except.bind, pure, Except.pure, hval]

theorem split_same' (a : Poly) (be : Bool) : a.split a.size be = .ok a := by simp [split]

theorem split8_ival {a : Poly} (hk : 0 < a.size) (ha : a.WF) :
    ∃ p, a.split 8 = .ok p ∧ p.ival.map (fun x => x.toNat &&& 0xff) = Spec.Poly.rechunk a.size 8 false (a.ival.map Int.toNat) := by
  by_cases h8 : 8 = a.size
  · refine ⟨a, by rw [h8]; exact split_same' a false, ?_⟩
    simp only [Spec.Poly.rechunk, ← h8, List.flatMap_map]
    rw [List.map_eq_flatMap]
    apply flatMap_congr'
    intro x _
    simp [Spec.Poly.digits, Spec.Poly.pieces]
    exact Nat.and_two_pow_sub_one_eq_mod x.toNat 8
  · refine ⟨_, split_spec' hk ha (by decide) h8 false, ?_⟩
    simp only [List.map_map]
    conv => rhs; rw [← List.map_id (Spec.Poly.rechunk a.size 8 false (a.ival.map Int.toNat))]
    apply List.map_congr_left
    intro d hd
    have : d < 2^8 := by
      simp only [Spec.Poly.rechunk, List.mem_flatMap] at hd
      obtain ⟨x, _, hx⟩ := hd
      exact digits_lt d (by simpa using hx)
    simp only [Function.comp, Int.toNat_natCast, id, Int.ofNat_eq_natCast]
    rw [show (255:Nat) = 2^8 - 1 by decide, Nat.and_two_pow_sub_one_eq_mod]
    exact Nat.mod_eq_of_lt this

theorem WF_map_red' {α : Type} (l : List α) (k : Nat) (f : α → Int) : (⟨l.map fun x => red k (f x), k⟩ : Poly).WF := by
  apply WF_of_forall
  intro x hx
  obtain ⟨y, _, rfl⟩ := List.mem_map.mp hx
  by_cases hk : k = 0
  · exact Or.inl hk
  · exact Or.inr (red_range (Nat.pos_of_ne_zero hk) _)


/-! ### refinement of Spec.Poly -/

theorem coeffOp_zero (op : BinOp) (k : Nat) : coeffOp op k 0 0 = 0 := by
  cases op <;> simp only [coeffOp, red] <;> split <;> first | rfl | decide | simp

theorem e_eq_coeff (a : Poly) (i : Nat) : a.e i = Spec.Poly.coeff a.ival i := rfl

theorem binop_eq_pointwise {op : BinOp} {a b : Poly} (h : a.size = b.size) :
    binop op a b = .ok ⟨Spec.Poly.pointwise (coeffOp op a.size) a.ival b.ival, a.size⟩ := by
  rw [binop_ok h]; rfl

theorem pointwise_congr {f g : Int → Int → Int} {a b : List Int}
    (h : ∀ i, f (Spec.Poly.coeff a i) (Spec.Poly.coeff b i) = g (Spec.Poly.coeff a i) (Spec.Poly.coeff b i)) :
    Spec.Poly.pointwise f a b = Spec.Poly.pointwise g a b := by
  unfold Spec.Poly.pointwise
  apply List.map_congr_left
  intro i _; exact h i

theorem land_ofNat {x y : Int} (hx : 0 ≤ x) (hy : 0 ≤ y) : Spec.Poly.land x y = Int.ofNat (x.toNat &&& y.toNat) := by
  obtain ⟨m, rfl⟩ := Int.eq_ofNat_of_zero_le hx
  obtain ⟨n, rfl⟩ := Int.eq_ofNat_of_zero_le hy
  rfl
theorem lor_ofNat {x y : Int} (hx : 0 ≤ x) (hy : 0 ≤ y) : Spec.Poly.lor x y = Int.ofNat (x.toNat ||| y.toNat) := by
  obtain ⟨m, rfl⟩ := Int.eq_ofNat_of_zero_le hx
  obtain ⟨n, rfl⟩ := Int.eq_ofNat_of_zero_le hy
  rfl
theorem lxor_ofNat {x y : Int} (hx : 0 ≤ x) (hy : 0 ≤ y) : Spec.Poly.lxor x y = Int.ofNat (x.toNat ^^^ y.toNat) := by
  obtain ⟨m, rfl⟩ := Int.eq_ofNat_of_zero_le hx
  obtain ⟨n, rfl⟩ := Int.eq_ofNat_of_zero_le hy
  rfl


/-! ### equality, histories -/

theorem sub_eq_zero_iff {k : Nat} {x y : Int} (hx : k = 0 ∨ (0 ≤ x ∧ x < (2:Int)^k)) (hy : k = 0 ∨ (0 ≤ y ∧ y < (2:Int)^k)) :
    red k (x - y) = 0 ↔ x = y := by
  unfold red
  split
  · omega
  · rename_i hk
    rcases hx with hx | hx
    · exact absurd hx hk
    rcases hy with hy | hy
    · exact absurd hy hk
    constructor
    · intro h
      have hd := Int.dvd_of_emod_eq_zero h
      obtain ⟨c, hc⟩ := hd
      have hp : (0:Int) < (2:Int)^k := Int.pow_pos (by decide)
      have : c = 0 := by
        by_cases h0 : c = 0
        · exact h0
        · exfalso
          rcases Int.lt_or_gt_of_ne h0 with hneg | hpos
          · have : (2:Int)^k * c ≤ (2:Int)^k * (-1) := Int.mul_le_mul_of_nonneg_left (by omega) (Int.le_of_lt hp)
            omega
          · have : (2:Int)^k * 1 ≤ (2:Int)^k * c := Int.mul_le_mul_of_nonneg_left (by omega) (Int.le_of_lt hp)
            omega
      rw [this] at hc; omega
    · intro h; rw [h]; simp

theorem setInt_size {a r : Poly} {i v : Int} (h : a.setInt i v = .ok r) : r.size = a.size ∧ r.dim = a.dim := by
  simp only [setInt] at h
  split at h
  · cases h; exact ⟨rfl, by simp [dim]⟩
  · cases h

theorem setMany_size : ∀ (idx vals : List Int) {a r : Poly}, a.setMany idx vals = .ok r → r.size = a.size ∧ r.dim = a.dim
  | [], vals, a, r, h => by rw [setMany_nil_left] at h; cases h; exact ⟨rfl, rfl⟩
  | j :: js, [], a, r, h => by rw [setMany_nil_right] at h; cases h; exact ⟨rfl, rfl⟩
  | j :: js, v :: vs, a, r, h => by
    rw [setMany_cons] at h
    cases h1 : a.setInt j v with
    | error m => rw [h1] at h; cases h
    | ok a' =>
      rw [h1] at h
      have h2 := setMany_size js vs h
      have h3 := setInt_size h1
      exact ⟨h2.1.trans h3.1, h2.2.trans h3.2⟩

end Proofs.PolyL
