/-
  Helper lemmas for C16 (Model.Poly): coefficient access, list plumbing, modular arithmetic.
-/
import Model.Poly
import Spec.Poly
namespace Proofs.PolyL
open Model Model.Poly Model.Py

/-! ### coefficient access -/

theorem e_lt (a : Poly) {i : Nat} (h : i < a.ival.length) : a.e i = a.ival[i] := by
  simp [e, List.getD_eq_getElem?_getD, h]

theorem e_ge (a : Poly) {i : Nat} (h : a.dim ≤ i) : a.e i = 0 := by
  simp only [dim] at h
  simp [e, List.getElem?_eq_none h]

theorem getD_map_range (f : Nat → Int) (n i : Nat) (h : i < n) : ((List.range n).map f).getD i 0 = f i := by
  simp [List.getD_eq_getElem?_getD, h]

theorem ival_eq_map_e (a : Poly) : a.ival = (List.range a.dim).map a.e := by
  apply List.ext_getElem
  · simp [dim]
  · intro i h1 h2
    simp [e, List.getD_eq_getElem?_getD, h1]

theorem ext_e {a b : Poly} (hs : a.size = b.size) (hd : a.dim = b.dim) (h : ∀ i, i < a.dim → a.e i = b.e i) : a = b := by
  cases a with | mk ai as => cases b with | mk bi bs =>
  simp only [dim, e] at *
  subst hs
  congr
  apply List.ext_getElem hd
  intro i h1 h2
  have := h i h1
  simpa [List.getD_eq_getElem?_getD, h1, h2] using this


/-! ### binary operators -/

theorem binop_ok {op : BinOp} {a b : Poly} (h : a.size = b.size) :
    binop op a b = .ok ⟨(List.range (max a.dim b.dim)).map (fun j => coeffOp op a.size (a.e j) (b.e j)), a.size⟩ := by
  simp [binop, h]

theorem binop_err {op : BinOp} {a b : Poly} (h : a.size ≠ b.size) : binop op a b = .error "AssertionError" := by
  simp [binop, h]

theorem binop_inv {op : BinOp} {a b r : Poly} (h : binop op a b = .ok r) :
    a.size = b.size ∧ r.size = a.size ∧ r.dim = max a.dim b.dim ∧
    ∀ i, i < max a.dim b.dim → r.e i = coeffOp op a.size (a.e i) (b.e i) := by
  unfold binop at h
  split at h
  · cases h
  · rename_i hs
    simp only [ne_eq, Decidable.not_not] at hs
    cases h
    refine ⟨hs, rfl, by simp [dim], ?_⟩
    intro i hi
    simp only [e]
    exact getD_map_range _ _ _ hi

theorem red_pos {k : Nat} (hk : 0 < k) (x : Int) : red k x = x % (2:Int)^k := by
  simp [red, Nat.ne_of_gt hk]

theorem red_zero (x : Int) : red 0 x = x := by simp [red]

theorem WF_e {a : Poly} (h : a.WF) (hk : 0 < a.size) (i : Nat) : 0 ≤ a.e i ∧ a.e i < (2:Int)^a.size := by
  rcases h with h | h
  · omega
  · by_cases hi : i < a.ival.length
    · rw [e_lt a hi]; exact h _ (List.getElem_mem hi)
    · rw [e_ge a (by simpa [dim] using hi)]
      exact ⟨Int.le_refl 0, Int.pow_pos (by decide)⟩

theorem WF_of_e {a : Poly} (h : ∀ i, i < a.dim → 0 ≤ a.e i ∧ a.e i < (2:Int)^a.size) : a.WF := by
  right
  intro x hx
  obtain ⟨i, hi, rfl⟩ := List.getElem_of_mem hx
  have := h i (by simpa [dim] using hi)
  rwa [e_lt a hi] at this

theorem toNat_lt_pow {x : Int} {k : Nat} (h0 : 0 ≤ x) (h : x < (2:Int)^k) : x.toNat < 2^k := by
  have : ((x.toNat : Nat) : Int) < ((2^k : Nat) : Int) := by
    rw [Int.toNat_of_nonneg h0]; simpa using h
  exact Int.ofNat_lt.mp this

theorem binop_e {op : BinOp} {a b r : Poly} (h : binop op a b = .ok r) (i : Nat) :
    r.e i = if i < max a.dim b.dim then coeffOp op a.size (a.e i) (b.e i) else 0 := by
  obtain ⟨_, _, hd, hc⟩ := binop_inv h
  split
  · rename_i hi; exact hc i hi
  · rename_i hi; exact e_ge r (by omega)

theorem toNat_emod_pow (x : Int) (k : Nat) (h : 0 ≤ x) : (x % (2:Int)^k).toNat = x.toNat % 2^k := by
  obtain ⟨n, rfl⟩ := Int.eq_ofNat_of_zero_le h
  have : ((2:Int)^k) = ((2^k : Nat) : Int) := by simp
  rw [this, ← Int.natCast_emod, Int.toNat_natCast, Int.toNat_natCast]

theorem bit_coeff {a b r : Poly} {op : BinOp} {f : Nat → Nat → Nat}
    (hop : ∀ x y, coeffOp op a.size x y = Int.ofNat (f x.toNat y.toNat)) (hf : f 0 0 = 0)
    (h : binop op a b = .ok r) (i : Nat) :
    r.e i = ((f (a.e i).toNat (b.e i).toNat : Nat) : Int) := by
  rw [binop_e h]
  split
  · rw [hop]; rfl
  · rename_i hi
    rw [e_ge a (by omega), e_ge b (by omega)]; simp [hf]


/-! ### commutativity, invariant, unary operators -/

theorem intBitOp_comm {f : Nat → Nat → Nat} (hf : ∀ x y, f x y = f y x) (a b : Int) :
    intBitOp f a b = intBitOp f b a := by
  simp only [intBitOp, Nat.max_comm (bitLength a.natAbs), hf (a % _).toNat]

theorem coeffOp_comm {op : BinOp} (hop : op ≠ .sub) (k : Nat) (x y : Int) : coeffOp op k x y = coeffOp op k y x := by
  cases op with
  | sub => exact absurd rfl hop
  | add => simp [coeffOp, Int.add_comm]
  | and => simp only [coeffOp, intBitOp_comm (f := (· &&& ·)) Nat.and_comm x y, Nat.and_comm x.toNat]
  | or => simp only [coeffOp, intBitOp_comm (f := (· ||| ·)) Nat.or_comm x y, Nat.or_comm x.toNat]
  | xor => simp only [coeffOp, intBitOp_comm (f := (· ^^^ ·)) Nat.xor_comm x y, Nat.xor_comm x.toNat]

theorem red_range {k : Nat} (hk : 0 < k) (x : Int) : 0 ≤ red k x ∧ red k x < (2:Int)^k := by
  rw [red_pos hk]
  have hp : (0:Int) < (2:Int)^k := Int.pow_pos (by decide)
  exact ⟨Int.emod_nonneg _ (Int.ne_of_gt hp), Int.emod_lt_of_pos _ hp⟩

theorem WF_size_zero {a : Poly} (h : a.size = 0) : a.WF := Or.inl h

theorem WF_map_red (l : List Int) (k : Nat) (f : Int → Int) : (⟨l.map fun x => red k (f x), k⟩ : Poly).WF := by
  by_cases hk : k = 0
  · exact Or.inl hk
  · right
    intro x hx
    simp only [List.mem_map] at hx
    obtain ⟨y, _, rfl⟩ := hx
    exact red_range (Nat.pos_of_ne_zero hk) _

theorem coeffOp_range {op : BinOp} {k : Nat} (hk : 0 < k) {x y : Int}
    (hx : 0 ≤ x ∧ x < (2:Int)^k) (hy : 0 ≤ y ∧ y < (2:Int)^k) :
    0 ≤ coeffOp op k x y ∧ coeffOp op k x y < (2:Int)^k := by
  have hx' := toNat_lt_pow hx.1 hx.2
  have hy' := toNat_lt_pow hy.1 hy.2
  have cast : ∀ n : Nat, n < 2^k → (0:Int) ≤ Int.ofNat n ∧ Int.ofNat n < (2:Int)^k := by
    intro n hn
    refine ⟨Int.natCast_nonneg n, ?_⟩
    have : ((2:Int)^k) = ((2^k : Nat) : Int) := by simp
    rw [this]; exact Int.ofNat_lt.mpr hn
  cases op with
  | add => exact red_range hk _
  | sub => exact red_range hk _
  | and => simp only [coeffOp, Nat.ne_of_gt hk, if_false]
           exact cast _ (Nat.lt_of_le_of_lt Nat.and_le_left hx')
  | or => simp only [coeffOp, Nat.ne_of_gt hk, if_false]
          exact cast _ (Nat.or_lt_two_pow hx' hy')
  | xor => simp only [coeffOp, Nat.ne_of_gt hk, if_false]
           exact cast _ (Nat.xor_lt_two_pow hx' hy')

theorem e_map (l : List Int) (k : Nat) (f : Int → Int) (hf : f 0 = 0) (i : Nat) :
    (⟨l.map f, k⟩ : Poly).e i = f ((⟨l, k⟩ : Poly).e i) := by
  simp only [e, List.getD_eq_getElem?_getD, List.getElem?_map]
  cases l[i]? <;> simp [hf]


/-! ### indexing -/

theorem red_of_range {k : Nat} {x : Int} (h : k = 0 ∨ (0 ≤ x ∧ x < (2:Int)^k)) : red k x = x := by
  unfold red
  split
  · rfl
  · rename_i hk
    rcases h with h | h
    · exact absurd h hk
    · exact Int.emod_eq_of_lt h.1 h.2

theorem WF_red_e {a : Poly} (ha : a.WF) (i : Nat) : red a.size (a.e i) = a.e i := by
  apply red_of_range
  by_cases hk : a.size = 0
  · exact Or.inl hk
  · exact Or.inr (WF_e ha (Nat.pos_of_ne_zero hk) i)

theorem normIndex_pos {i : Int} {n : Nat} (h : -(n:Int) ≤ i ∧ i < n) : normIndex i n = some (Spec.Poly.pos n i) := by
  unfold normIndex Spec.Poly.pos
  by_cases h0 : 0 ≤ i
  · simp [h0, h.2, Int.not_lt.mpr h0]
  · have : i < 0 := by omega
    simp [h0, this]
    omega

theorem normIndex_none {i : Int} {n : Nat} (h : i < -(n:Int) ∨ (n:Int) ≤ i) : normIndex i n = none := by
  unfold normIndex
  rw [if_neg (by omega), if_neg (by omega)]

theorem pos_lt {i : Int} {n : Nat} (h : -(n:Int) ≤ i ∧ i < n) : Spec.Poly.pos n i < n := by
  unfold Spec.Poly.pos; split <;> omega

theorem pyGet_ok (a : Poly) {i : Int} (h : -(a.dim:Int) ≤ i ∧ i < a.dim) :
    pyGet a.ival i = .ok (a.e (Spec.Poly.pos a.dim i)) := by
  simp only [dim] at h
  simp [pyGet, normIndex_pos h, e, dim]

theorem pyGet_err (a : Poly) {i : Int} (h : i < -(a.dim:Int) ∨ (a.dim:Int) ≤ i) :
    pyGet a.ival i = .error "IndexError" := by
  simp only [dim] at h
  simp [pyGet, normIndex_none h]

theorem ofList_WF_eq {l : List Int} {k : Nat} (h : (⟨l, k⟩ : Poly).WF) : ofList l k = ⟨l, k⟩ := by
  simp only [ofList, if_true]
  congr 1
  conv => rhs; rw [← List.map_id l]
  apply List.map_congr_left
  intro x hx
  apply red_of_range
  rcases h with h | h
  · exact Or.inl h
  · exact Or.inr (h x hx)

theorem mapM_ok {α β : Type} (f : α → Except Err β) (g : α → β) :
    ∀ (l : List α), (∀ x ∈ l, f x = .ok (g x)) → l.mapM f = .ok (l.map g)
  | [], _ => rfl
  | x :: xs, h => by
    rw [List.mapM_cons, h x (List.mem_cons_self), mapM_ok f g xs (fun y hy => h y (List.mem_cons_of_mem _ hy))]
    rfl

theorem mapM_err {α β : Type} (f : α → Except Err β) :
    ∀ (l : List α), (∃ x ∈ l, ∃ m, f x = .error m) → ∃ m, l.mapM f = .error m
  | [], h => by obtain ⟨x, hx, _⟩ := h; cases hx
  | x :: xs, h => by
    rw [List.mapM_cons]
    cases hfx : f x with
    | error m => exact ⟨m, rfl⟩
    | ok v =>
      have : ∃ y ∈ xs, ∃ m, f y = .error m := by
        obtain ⟨y, hy, m, hm⟩ := h
        rcases List.mem_cons.mp hy with rfl | hy
        · rw [hfx] at hm; cases hm
        · exact ⟨y, hy, m, hm⟩
      obtain ⟨m, hm⟩ := mapM_err f xs this
      exact ⟨m, by simp [hm, bind, Except.bind]⟩

theorem WF_of_forall {l : List Int} {k : Nat} (h : ∀ x ∈ l, k = 0 ∨ (0 ≤ x ∧ x < (2:Int)^k)) : (⟨l, k⟩ : Poly).WF := by
  by_cases hk : k = 0
  · exact Or.inl hk
  · right; intro x hx
    rcases h x hx with h | h
    · exact absurd h hk
    · exact h

theorem WF_map_e {a : Poly} (ha : a.WF) {α : Type} (l : List α) (f : α → Nat) :
    (⟨l.map (fun i => a.e (f i)), a.size⟩ : Poly).WF := by
  apply WF_of_forall
  intro x hx
  obtain ⟨i, _, rfl⟩ := List.mem_map.mp hx
  by_cases hk : a.size = 0
  · exact Or.inl hk
  · exact Or.inr (WF_e ha (Nat.pos_of_ne_zero hk) _)

theorem sliceIndices_bounds {start stop step : Option Int} {n : Nat} {s e st : Int}
    (h : sliceIndices start stop step n = .ok (s, e, st)) (hst : 0 ≤ st) :
    0 < st ∧ 0 ≤ s ∧ s ≤ n ∧ 0 ≤ e ∧ e ≤ n := by
  unfold sliceIndices at h
  simp only at h
  split at h
  · cases h
  · rename_i h0
    injection h with h
    injection h with hs h
    injection h with he hst'
    subst hst'
    have hpos : 0 < step.getD 1 := by omega
    have hn : ¬ step.getD 1 < 0 := by omega
    simp only [hn, if_false] at hs he
    refine ⟨hpos, ?_, ?_, ?_, ?_⟩
    · subst hs; cases start <;> simp only <;> (try split) <;> (try split) <;> omega
    · subst hs; cases start <;> simp only <;> (try split) <;> (try split) <;> omega
    · subst he; cases stop <;> simp only <;> (try split) <;> (try split) <;> omega
    · subst he; cases stop <;> simp only <;> (try split) <;> (try split) <;> omega

theorem range_nonneg {s e st : Int} (hs : 0 ≤ s) (hst : 0 ≤ st) : ∀ i ∈ Py.range s e st, 0 ≤ i := by
  intro i hi
  simp only [Py.range, List.mem_map, List.mem_range] at hi
  obtain ⟨j, _, rfl⟩ := hi
  have : 0 ≤ st * (j:Int) := Int.mul_nonneg hst (Int.natCast_nonneg j)
  omega


/-! ### assignment, constructors -/

theorem setInt_ok (a : Poly) {i : Int} (h : -(a.dim:Int) ≤ i ∧ i < a.dim) (v : Int) :
    a.setInt i v = .ok ⟨a.ival.set (Spec.Poly.pos a.dim i) (red a.size v), a.size⟩ := by
  simp only [dim] at h
  simp [setInt, normIndex_pos h, dim]

theorem e_set (l : List Int) (k j : Nat) (v : Int) (hj : j < l.length) (m : Nat) :
    (⟨l.set j v, k⟩ : Poly).e m = if m = j then v else (⟨l, k⟩ : Poly).e m := by
  simp only [e, List.getD_eq_getElem?_getD, List.getElem?_set]
  by_cases h : j = m
  · subst h; simp [hj]
  · simp [h, Ne.symm h]

theorem setMany_nil_left (a : Poly) (vs : List Int) : a.setMany [] vs = .ok a := by
  unfold setMany; rfl
theorem setMany_nil_right (a : Poly) (js : List Int) : a.setMany js [] = .ok a := by
  cases js <;> (unfold setMany; rfl)
theorem setMany_cons (a : Poly) (j v : Int) (js vs : List Int) :
    a.setMany (j :: js) (v :: vs) = (a.setInt j v >>= fun a' => a'.setMany js vs) := by
  conv => lhs; unfold setMany

theorem take_pad (l : List Int) (d : Nat) :
    (l ++ List.replicate (d - l.length) 0).take d = (List.range d).map (Spec.Poly.coeff l) := by
  apply List.ext_getElem
  · simp; omega
  · intro i h1 h2
    simp only [List.length_map, List.length_range] at h2
    simp only [List.getElem_take, List.getElem_map, List.getElem_range, Spec.Poly.coeff,
      List.getD_eq_getElem?_getD, List.getElem_append]
    by_cases hi : i < l.length
    · simp [hi]
    · simp [hi]

theorem fit_WF {l : List Int} {k : Nat} (h : (⟨l, k⟩ : Poly).WF) (d : Nat) : (⟨Spec.Poly.fit d l, k⟩ : Poly).WF := by
  unfold Spec.Poly.fit
  split
  · exact h
  · exact WF_map_e (a := ⟨l, k⟩) h (List.range d) id

end Proofs.PolyL
