/-
  Bridge between Model.Poly (lists of Int coefficients reduced modulo 2^w) and lists of `BitVec w`:
  `ofBV ws` is the Poly whose coefficients are the words `ws`.  Every Poly operation the stream ciphers use is
  shown to act on `ofBV` as the corresponding word operation.
-/
import Model.Salsa
namespace Proofs.Lemmas.StreamPoly
open Model Model.Poly

def ofBV {w : Nat} (l : List (BitVec w)) : Poly := ⟨l.map fun x => Int.ofNat x.toNat, w⟩

@[simp] theorem ofBV_size {w} (l : List (BitVec w)) : (ofBV l).size = w := rfl
@[simp] theorem ofBV_ival {w} (l : List (BitVec w)) : (ofBV l).ival = l.map fun x => Int.ofNat x.toNat := rfl
@[simp] theorem ofBV_dim {w} (l : List (BitVec w)) : (ofBV l).dim = l.length := by simp [dim]

theorem red_ofNat_toNat {w} (x : BitVec w) : red w (Int.ofNat x.toNat) = Int.ofNat x.toNat := by
  unfold red
  split
  · rfl
  · have h := x.isLt
    apply Int.emod_eq_of_lt
    · exact Int.natCast_nonneg _
    · have : ((x.toNat : Nat) : Int) < (2 : Int) ^ w := by exact_mod_cast h
      exact this

theorem red_natCast {w} (hw : w ≠ 0) (n : Nat) : red w (n : Int) = Int.ofNat (BitVec.ofNat w n).toNat := by
  unfold red
  simp only [hw, ↓reduceIte, BitVec.toNat_ofNat]
  norm_cast

theorem e_ofBV {w} (l : List (BitVec w)) (j : Nat) (h : j < l.length) :
    (ofBV l).e j = Int.ofNat (l[j]).toNat := by
  simp [e, List.getD_eq_getElem?_getD, h]

/-- `a op b` on equal-length word vectors -/
theorem coeff_add {w} (hw : w ≠ 0) (a b : BitVec w) :
    coeffOp .add w (Int.ofNat a.toNat) (Int.ofNat b.toNat) = Int.ofNat (a + b).toNat := by
  simp only [coeffOp, red, hw, ↓reduceIte, BitVec.toNat_add]
  norm_cast

theorem coeff_xor {w} (hw : w ≠ 0) (a b : BitVec w) :
    coeffOp .xor w (Int.ofNat a.toNat) (Int.ofNat b.toNat) = Int.ofNat (a ^^^ b).toNat := by
  simp [coeffOp, hw]

theorem coeff_or {w} (hw : w ≠ 0) (a b : BitVec w) :
    coeffOp .or w (Int.ofNat a.toNat) (Int.ofNat b.toNat) = Int.ofNat (a ||| b).toNat := by
  simp [coeffOp, hw]

theorem binop_ofBV {w} (op : BinOp) (f : BitVec w → BitVec w → BitVec w)
    (hf : ∀ a b, coeffOp op w (Int.ofNat a.toNat) (Int.ofNat b.toNat) = Int.ofNat (f a b).toNat)
    (as bs : List (BitVec w)) (h : as.length = bs.length) :
    binop op (ofBV as) (ofBV bs) = .ok (ofBV (List.zipWith f as bs)) := by
  unfold binop
  simp only [ofBV_size, ne_eq, not_true_eq_false, ↓reduceIte, ofBV_dim, h, Nat.max_self]
  congr 1
  unfold ofBV
  congr 1
  apply List.ext_getElem
  · simp [h]
  · intro j h1 h2
    simp only [List.length_map, List.length_range] at h1
    simp only [List.getElem_map, List.getElem_range, List.getElem_zipWith]
    have ha : j < as.length := by omega
    have e1 := e_ofBV as j ha
    have e2 := e_ofBV bs j h1
    unfold ofBV at e1 e2
    rw [e1, e2, hf]

theorem add_ofBV {w} (hw : w ≠ 0) (as bs : List (BitVec w)) (h : as.length = bs.length) :
    binop .add (ofBV as) (ofBV bs) = .ok (ofBV (List.zipWith (· + ·) as bs)) :=
  binop_ofBV .add _ (coeff_add hw) as bs h

theorem xor_ofBV {w} (hw : w ≠ 0) (as bs : List (BitVec w)) (h : as.length = bs.length) :
    binop .xor (ofBV as) (ofBV bs) = .ok (ofBV (List.zipWith (· ^^^ ·) as bs)) :=
  binop_ofBV .xor _ (coeff_xor hw) as bs h

theorem or_ofBV {w} (hw : w ≠ 0) (as bs : List (BitVec w)) (h : as.length = bs.length) :
    binop .or (ofBV as) (ofBV bs) = .ok (ofBV (List.zipWith (· ||| ·) as bs)) :=
  binop_ofBV .or _ (coeff_or hw) as bs h

theorem shl_ofBV {w} (hw : w ≠ 0) (as : List (BitVec w)) (n : Nat) :
    (ofBV as).shl n = ofBV (as.map fun (a : BitVec w) => a <<< n) := by
  unfold shl ofBV
  simp only [List.map_map, Poly.mk.injEq, and_true]
  apply List.map_congr_left
  intro a _
  simp only [Function.comp, red, hw, ↓reduceIte, BitVec.toNat_shiftLeft, Nat.shiftLeft_eq]
  norm_cast

theorem shr_ofBV {w} (as : List (BitVec w)) (n : Nat) :
    (ofBV as).shr n = ofBV (as.map fun (a : BitVec w) => a >>> n) := by
  unfold shr ofBV
  simp only [List.map_map, Poly.mk.injEq, and_true]
  apply List.map_congr_left
  intro a _
  simp only [Function.comp]
  have : Int.shiftRight (Int.ofNat a.toNat) n = Int.ofNat (a >>> n).toNat := by
    simp [Int.shiftRight, BitVec.toNat_ushiftRight]
  rw [this]
  exact red_ofNat_toNat _

theorem concat_ofBV {w} (as bs : List (BitVec w)) : (ofBV as).concat (ofBV bs) = ofBV (as ++ bs) := by
  simp [Poly.concat, ofBV]

end Proofs.Lemmas.StreamPoly
