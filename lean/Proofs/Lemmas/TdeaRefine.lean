/-
  TDEA refinement lemmas: Model.Des.TDEA (every calling form of the constructor) computes SP 800-67.
-/
import Proofs.Lemmas.DesRefine
namespace Model.Des
open Model.Bits Proofs Proofs.DesTables

theorem res_bind {α β} (x : Except Err α) (f : α → Except Err β) : res (x >>= f) = (res x).bind fun a => res (f a) := by
  cases x <;> rfl

theorem spec_enc_isBytes (K M C : List Nat) (h : Spec.Des.enc K M = some C ∨ Spec.Des.dec K M = some C) :
    IsBytes C ∧ C.length = 8 := by
  have key : ∀ ks, IsBytes (Spec.Des.bitsToBytes (Spec.Des.cryptBits ks (Spec.Des.bytesToBits M)))
      ∧ (Spec.Des.bitsToBytes (Spec.Des.cryptBits ks (Spec.Des.bytesToBits M))).length = 8 := by
    intro ks
    have hl : (Spec.Des.cryptBits ks (Spec.Des.bytesToBits M)).length = 8 * 8 := by
      simp [Spec.Des.cryptBits, length_permute, Spec.Des.IPinv]
    exact ⟨(Spec.Des.bytesToBits_bitsToBytes _ 8 hl).2, by simp [Spec.Des.bitsToBytes, hl]⟩
  rcases h with h | h
  · simp only [Spec.Des.enc] at h
    split at h
    · cases h; exact key _
    · cases h
  · simp only [Spec.Des.dec] at h
    split at h
    · cases h; exact key _
    · cases h

theorem spec_enc_none (K M : List Nat) (h : K.length ≠ 8) : Spec.Des.enc K M = none ∧ Spec.Des.dec K M = none := by
  simp [Spec.Des.enc, Spec.Des.dec, h]

/-- the object built from three key strings -/
def new3 (k1 k2 k3 : List Nat) : Except Err TDEA := do
  let e1 ← DES.new k1; let e2 ← DES.new k2; let e3 ← DES.new k3; pure ⟨e1, e2, e3⟩

theorem new3_enc (k1 k2 k3 M : List Nat) :
    (new3 k1 k2 k3 >>= fun t => t.enc M) =
      (DES.new k1 >>= fun e1 => DES.new k2 >>= fun e2 => DES.new k3 >>= fun e3 =>
        e1.enc M >>= fun a => e2.dec a >>= fun b => e3.enc b) := by
  simp only [new3, bind, Except.bind, pure, Except.pure, TDEA.enc]
  cases DES.new k1 <;> simp only
  cases DES.new k2 <;> simp only
  cases DES.new k3 <;> simp only

theorem new3_dec (k1 k2 k3 M : List Nat) :
    (new3 k1 k2 k3 >>= fun t => t.dec M) =
      (DES.new k1 >>= fun e1 => DES.new k2 >>= fun e2 => DES.new k3 >>= fun e3 =>
        e3.dec M >>= fun a => e2.enc a >>= fun b => e1.dec b) := by
  simp only [new3, bind, Except.bind, pure, Except.pure, TDEA.dec]
  cases DES.new k1 <;> simp only
  cases DES.new k2 <;> simp only
  cases DES.new k3 <;> simp only

theorem enc_of_obj (K M : List Nat) (hK : K.length = 8) (hKb : IsBytes K) :
    (⟨ofByteStr K⟩ : DES).enc M = enc K M ∧ (⟨ofByteStr K⟩ : DES).dec M = dec K M := by
  simp [enc, dec, DES_new_bytes K hK hKb, bind, Except.bind]

/-- TDEA on an explicit bundle refines SP 800-67 (all sizes: any wrong size gives `none` on both sides) -/
theorem new3_enc_refines (k1 k2 k3 M : List Nat) (h1 : IsBytes k1) (h2 : IsBytes k2) (h3 : IsBytes k3) (hM : IsBytes M) :
    res (new3 k1 k2 k3 >>= fun t => t.enc M) = Spec.Des.tdeaEnc (.opt1 k1 k2 k3) M := by
  rw [new3_enc]
  simp only [Spec.Des.tdeaEnc, Spec.Des.Keying.bundle]
  by_cases l1 : k1.length = 8
  · by_cases l2 : k2.length = 8
    · by_cases l3 : k3.length = 8
      · simp only [DES_new_bytes _ l1 h1, DES_new_bytes _ l2 h2, DES_new_bytes _ l3 h3, bind, Except.bind,
          (enc_of_obj k1 _ l1 h1).1, (enc_of_obj k2 _ l2 h2).2, (enc_of_obj k3 _ l3 h3).1]
        change res (enc k1 M >>= fun a => dec k2 a >>= fun b => enc k3 b) = _
        rw [res_bind, enc_refines k1 M h1 hM]
        cases ha : Spec.Des.enc k1 M with
        | none => rfl
        | some a =>
          have hab := (spec_enc_isBytes k1 M a (Or.inl ha)).1
          simp only [Option.bind_some]
          rw [res_bind, dec_refines k2 a h2 hab]
          cases hb : Spec.Des.dec k2 a with
          | none => rfl
          | some b =>
            have hbb := (spec_enc_isBytes k2 a b (Or.inr hb)).1
            simp only [Option.bind_some]
            exact enc_refines k3 b h3 hbb
      · simp only [DES_new_bytes _ l1 h1, DES_new_bytes _ l2 h2, DES_new_badlen _ l3, bind, Except.bind, res, Except.toOption]
        cases Spec.Des.enc k1 M with
        | none => rfl
        | some a =>
          simp only [Option.bind_some]
          cases Spec.Des.dec k2 a with
          | none => rfl
          | some b => simp [(spec_enc_none k3 b l3).1]
    · simp only [DES_new_bytes _ l1 h1, DES_new_badlen _ l2, bind, Except.bind, res, Except.toOption]
      cases Spec.Des.enc k1 M with
      | none => rfl
      | some a => simp [(spec_enc_none k2 a l2).2]
  · simp [DES_new_badlen _ l1, bind, Except.bind, res, Except.toOption, (spec_enc_none k1 M l1).1]

end Model.Des

namespace Model.Des
open Model.Bits Proofs Proofs.DesTables

theorem new3_dec_refines (k1 k2 k3 M : List Nat) (h1 : IsBytes k1) (h2 : IsBytes k2) (h3 : IsBytes k3) (hM : IsBytes M) :
    res (new3 k1 k2 k3 >>= fun t => t.dec M) = Spec.Des.tdeaDec (.opt1 k1 k2 k3) M := by
  rw [new3_dec]
  simp only [Spec.Des.tdeaDec, Spec.Des.Keying.bundle]
  by_cases l1 : k1.length = 8
  · by_cases l2 : k2.length = 8
    · by_cases l3 : k3.length = 8
      · simp only [DES_new_bytes _ l1 h1, DES_new_bytes _ l2 h2, DES_new_bytes _ l3 h3, bind, Except.bind,
          (enc_of_obj k1 _ l1 h1).2, (enc_of_obj k2 _ l2 h2).1, (enc_of_obj k3 _ l3 h3).2]
        change res (dec k3 M >>= fun a => enc k2 a >>= fun b => dec k1 b) = _
        rw [res_bind, dec_refines k3 M h3 hM]
        cases ha : Spec.Des.dec k3 M with
        | none => rfl
        | some a =>
          have hab := (spec_enc_isBytes k3 M a (Or.inr ha)).1
          simp only [Option.bind_some]
          rw [res_bind, enc_refines k2 a h2 hab]
          cases hb : Spec.Des.enc k2 a with
          | none => rfl
          | some b =>
            have hbb := (spec_enc_isBytes k2 a b (Or.inl hb)).1
            simp only [Option.bind_some]
            exact dec_refines k1 b h1 hbb
      · simp [DES_new_bytes _ l1 h1, DES_new_bytes _ l2 h2, DES_new_badlen _ l3, bind, Except.bind, res, Except.toOption,
          (spec_enc_none k3 M l3).2]
    · simp only [DES_new_bytes _ l1 h1, DES_new_badlen _ l2, bind, Except.bind, res, Except.toOption]
      cases Spec.Des.dec k3 M with
      | none => rfl
      | some a => simp [(spec_enc_none k2 a l2).1]
  · simp only [DES_new_badlen _ l1, bind, Except.bind, res, Except.toOption]
    cases Spec.Des.dec k3 M with
    | none => rfl
    | some a =>
      simp only [Option.bind_some]
      cases Spec.Des.enc k2 a with
      | none => rfl
      | some b => simp [(spec_enc_none k1 b l1).2]

/-! ### the constructor's calling forms -/
theorem new_one (K : List Nat) (h : K.length ≤ 8) : TDEA.new K none none = new3 K K K := by
  have : ¬ K.length > 8 := by omega
  simp [TDEA.new, new3, this, bind, Except.bind, pure, Except.pure]

theorem new_two (K1 K2 : List Nat) (h : K1.length ≤ 8) : TDEA.new K1 (some K2) none = new3 K1 K2 K1 := by
  have : ¬ K1.length > 8 := by omega
  simp [TDEA.new, new3, this, bind, Except.bind, pure, Except.pure]

theorem new_three (K1 K2 K3 : List Nat) (h : K1.length ≤ 8) : TDEA.new K1 (some K2) (some K3) = new3 K1 K2 K3 := by
  have : ¬ K1.length > 8 := by omega
  simp [TDEA.new, new3, this, bind, Except.bind, pure, Except.pure]

theorem new_K2None (K1 K3 : List Nat) : TDEA.new K1 none (some K3) = .error assertErr := by
  by_cases h : K1.length > 8 <;> simp [TDEA.new, h, bind, Except.bind, pure, Except.pure, throw, throwThe, MonadExceptOf.throw]

theorem new_long_extra (K1 : List Nat) (K2 K3 : Option (List Nat)) (h : K1.length > 8) (h2 : K2.isSome ∨ K3.isSome) :
    TDEA.new K1 K2 K3 = .error assertErr := by
  simp [TDEA.new, h, h2, bind, Except.bind, throw, throwThe, MonadExceptOf.throw]

theorem new_string (K : List Nat) (h : K.length > 8) :
    TDEA.new K none none =
      new3 (K.take 8) ((K.drop 8).take 8) (if (K.drop 16).isEmpty then K.take 8 else K.drop 16) := by
  simp [TDEA.new, new3, h, bind, Except.bind, pure, Except.pure]

theorem new3_bad (k1 k2 k3 : List Nat) (h : k1.length ≠ 8 ∨ k2.length ≠ 8 ∨ k3.length ≠ 8) :
    ∃ e, new3 k1 k2 k3 = .error e := by
  simp only [new3, bind, Except.bind]
  by_cases l1 : k1.length = 8
  · obtain ⟨d1, hd1, _⟩ := DES_new_ok k1 l1
    by_cases l2 : k2.length = 8
    · obtain ⟨d2, hd2, _⟩ := DES_new_ok k2 l2
      have l3 : k3.length ≠ 8 := by rcases h with h | h | h <;> first | exact absurd l1 h | exact absurd l2 h | exact h
      exact ⟨assertErr, by simp [hd1, hd2, DES_new_badlen _ l3]⟩
    · exact ⟨assertErr, by simp [hd1, DES_new_badlen _ l2]⟩
  · exact ⟨assertErr, by simp [DES_new_badlen _ l1]⟩

end Model.Des

namespace Model.Des
open Model.Bits Proofs Proofs.DesTables

theorem isBytes_take (K : List Nat) (n : Nat) (h : IsBytes K) : IsBytes (K.take n) :=
  fun b hb => h b (List.mem_of_mem_take hb)
theorem isBytes_drop (K : List Nat) (n : Nat) (h : IsBytes K) : IsBytes (K.drop n) :=
  fun b hb => h b (List.mem_of_mem_drop hb)

theorem res_error_bind {α β} (x : Except Err α) (f : α → Except Err β) (h : ∃ e, x = .error e) : res (x >>= f) = none := by
  obtain ⟨e, rfl⟩ := h; rfl

/-- the keys passed as ONE string: 8 bytes = keying option 3, 16 = option 2, 24 = option 1, anything else rejected -/
theorem tdea_string_refines (K M : List Nat) (hK : IsBytes K) (hM : IsBytes M) :
    res (tdeaEnc K none none M) = (Spec.Des.keyingOfString K).bind (fun ko => Spec.Des.tdeaEnc ko M)
    ∧ res (tdeaDec K none none M) = (Spec.Des.keyingOfString K).bind (fun ko => Spec.Des.tdeaDec ko M) := by
  simp only [tdeaEnc, tdeaDec]
  by_cases h8 : K.length ≤ 8
  · rw [new_one K h8]
    by_cases e8 : K.length = 8
    · simp only [Spec.Des.keyingOfString, e8, if_true, Option.bind_some]
      exact ⟨new3_enc_refines K K K M hK hK hK hM, new3_dec_refines K K K M hK hK hK hM⟩
    · have hn : Spec.Des.keyingOfString K = none := by
        simp only [Spec.Des.keyingOfString, e8, if_false]
        rw [if_neg (by omega), if_neg (by omega)]
      rw [hn]
      exact ⟨res_error_bind _ _ (new3_bad K K K (Or.inl e8)), res_error_bind _ _ (new3_bad K K K (Or.inl e8))⟩
  · have hgt : K.length > 8 := by omega
    rw [new_string K hgt]
    have b1 := isBytes_take K 8 hK
    have b2 := isBytes_take _ 8 (isBytes_drop K 8 hK)
    have b3 := isBytes_drop K 16 hK
    by_cases e16 : K.length = 16
    · have he : (K.drop 16).isEmpty = true := by simp [List.isEmpty_iff, e16]
      have ht : (K.drop 8).take 8 = K.drop 8 := List.take_of_length_le (by simp [e16])
      simp only [Spec.Des.keyingOfString, e16, he, if_true, ht, Option.bind_some]
      rw [if_neg (by decide)]
      simp only [if_true, Option.bind_some]
      rw [ht] at b2
      exact ⟨new3_enc_refines _ _ _ M b1 b2 b1 hM, new3_dec_refines _ _ _ M b1 b2 b1 hM⟩
    · by_cases e24 : K.length = 24
      · have he : (K.drop 16).isEmpty = false := by
          cases hd : K.drop 16 with
          | nil => have := congrArg List.length hd; simp [e24] at this
          | cons a l => rfl
        simp only [Spec.Des.keyingOfString, e24, he]
        rw [if_neg (by decide), if_neg (by decide)]
        simp only [if_true, Option.bind_some, Bool.false_eq_true, if_false]
        exact ⟨new3_enc_refines _ _ _ M b1 b2 b3 hM, new3_dec_refines _ _ _ M b1 b2 b3 hM⟩
      · have hn : Spec.Des.keyingOfString K = none := by
          simp only [Spec.Des.keyingOfString]
          rw [if_neg (by omega), if_neg e16, if_neg e24]
        rw [hn]
        have hbad : ((K.take 8).length ≠ 8 ∨ ((K.drop 8).take 8).length ≠ 8 ∨
            (if (K.drop 16).isEmpty then K.take 8 else K.drop 16).length ≠ 8) := by
          by_cases hl : K.length < 16
          · right; left; simp; omega
          · right; right
            have : (K.drop 16).isEmpty = false := by
              cases hd : K.drop 16 with
              | nil => have := congrArg List.length hd; simp at this; omega
              | cons a l => rfl
            simp [this]; omega
        exact ⟨res_error_bind _ _ (new3_bad _ _ _ hbad), res_error_bind _ _ (new3_bad _ _ _ hbad)⟩

end Model.Des

namespace Model.Des
open Model.Bits Proofs Proofs.DesTables

theorem spec_tdea_bad_k1 (k1 k2 k3 M : List Nat) (h : k1.length ≠ 8) :
    Spec.Des.tdeaEnc (.opt1 k1 k2 k3) M = none ∧ Spec.Des.tdeaDec (.opt1 k1 k2 k3) M = none := by
  simp only [Spec.Des.tdeaEnc, Spec.Des.tdeaDec, Spec.Des.Keying.bundle, (spec_enc_none k1 M h).1, Option.bind_none, true_and]
  cases Spec.Des.dec k3 M with
  | none => rfl
  | some a =>
    simp only [Option.bind_some]
    cases Spec.Des.enc k2 a with
    | none => rfl
    | some b => simp [(spec_enc_none k1 b h).2]

/-- the keys passed as three separate arguments: keying option 1 (any wrong size rejected) -/
theorem tdea_three_args_refines (K1 K2 K3 M : List Nat) (h1 : IsBytes K1) (h2 : IsBytes K2) (h3 : IsBytes K3) (hM : IsBytes M) :
    res (tdeaEnc K1 (some K2) (some K3) M) = Spec.Des.tdeaEnc (.opt1 K1 K2 K3) M
    ∧ res (tdeaDec K1 (some K2) (some K3) M) = Spec.Des.tdeaDec (.opt1 K1 K2 K3) M := by
  simp only [tdeaEnc, tdeaDec]
  by_cases h8 : K1.length ≤ 8
  · rw [new_three K1 K2 K3 h8]
    exact ⟨new3_enc_refines _ _ _ M h1 h2 h3 hM, new3_dec_refines _ _ _ M h1 h2 h3 hM⟩
  · rw [new_long_extra K1 _ _ (by omega) (Or.inl rfl)]
    have := spec_tdea_bad_k1 K1 K2 K3 M (by omega)
    rw [this.1, this.2]; exact ⟨rfl, rfl⟩

/-- the keys passed as two separate arguments: keying option 2 (K3 = K1) -/
theorem tdea_two_args_refines (K1 K2 M : List Nat) (h1 : IsBytes K1) (h2 : IsBytes K2) (hM : IsBytes M) :
    res (tdeaEnc K1 (some K2) none M) = Spec.Des.tdeaEnc (.opt2 K1 K2) M
    ∧ res (tdeaDec K1 (some K2) none M) = Spec.Des.tdeaDec (.opt2 K1 K2) M := by
  simp only [tdeaEnc, tdeaDec]
  by_cases h8 : K1.length ≤ 8
  · rw [new_two K1 K2 h8]
    exact ⟨new3_enc_refines _ _ _ M h1 h2 h1 hM, new3_dec_refines _ _ _ M h1 h2 h1 hM⟩
  · rw [new_long_extra K1 _ _ (by omega) (Or.inl rfl)]
    have := spec_tdea_bad_k1 K1 K2 K1 M (by omega)
    exact ⟨this.1.symm, this.2.symm⟩

end Model.Des
