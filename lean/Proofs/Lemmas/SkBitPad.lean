/-
  Skein bit padding: `(Bits(M,bitlen)[//Bits(1,1)]).bytes()` (bitstream load through reverse_byte, truncate to the bit
  length, append a one bit, write back through reverse_byte) = the specification's rule on the last byte.
-/
import Proofs.Lemmas.SkBytes
namespace Proofs.Lemmas.SkBitPad
open Model Proofs.Lemmas.TfBytes Proofs.Lemmas.SkBytes
open Spec.Threefish (toInt toBytes)

/-- byte k of a natural number -/
def byteAt (X k : Nat) : Nat := X / 2 ^ (8 * k) % 256

theorem rev_lt : ∀ b < 256, Bits.reverseByte b < 256 := by decide +kernel
theorem rev_rev : ∀ b < 256, Bits.reverseByte (Bits.reverseByte b) = b := by decide +kernel
/-- the last, partial byte: keep the r most significant bits, set the next one, clear the rest (all bytes, r = 1..7) -/
theorem rev_last1 : ∀ b < 256, Bits.reverseByte (Bits.reverseByte b % 2 ^ 1 + 2 ^ 1) = b / 2 ^ (8 - 1) * 2 ^ (8 - 1) + 2 ^ (7 - 1) := by decide +kernel
theorem rev_last2 : ∀ b < 256, Bits.reverseByte (Bits.reverseByte b % 2 ^ 2 + 2 ^ 2) = b / 2 ^ (8 - 2) * 2 ^ (8 - 2) + 2 ^ (7 - 2) := by decide +kernel
theorem rev_last3 : ∀ b < 256, Bits.reverseByte (Bits.reverseByte b % 2 ^ 3 + 2 ^ 3) = b / 2 ^ (8 - 3) * 2 ^ (8 - 3) + 2 ^ (7 - 3) := by decide +kernel
theorem rev_last4 : ∀ b < 256, Bits.reverseByte (Bits.reverseByte b % 2 ^ 4 + 2 ^ 4) = b / 2 ^ (8 - 4) * 2 ^ (8 - 4) + 2 ^ (7 - 4) := by decide +kernel
theorem rev_last5 : ∀ b < 256, Bits.reverseByte (Bits.reverseByte b % 2 ^ 5 + 2 ^ 5) = b / 2 ^ (8 - 5) * 2 ^ (8 - 5) + 2 ^ (7 - 5) := by decide +kernel
theorem rev_last6 : ∀ b < 256, Bits.reverseByte (Bits.reverseByte b % 2 ^ 6 + 2 ^ 6) = b / 2 ^ (8 - 6) * 2 ^ (8 - 6) + 2 ^ (7 - 6) := by decide +kernel
theorem rev_last7 : ∀ b < 256, Bits.reverseByte (Bits.reverseByte b % 2 ^ 7 + 2 ^ 7) = b / 2 ^ (8 - 7) * 2 ^ (8 - 7) + 2 ^ (7 - 7) := by decide +kernel
theorem rev_last (r : Nat) (hr : r < 8) (h0 : 0 < r) (b : Nat) (hb : b < 256) :
    Bits.reverseByte (Bits.reverseByte b % 2 ^ r + 2 ^ r) = b / 2 ^ (8 - r) * 2 ^ (8 - r) + 2 ^ (7 - r) :=
  match r, hr, h0 with
  | 0, _, h => absurd h (by decide)
  | 1, _, _ => rev_last1 b hb
  | 2, _, _ => rev_last2 b hb
  | 3, _, _ => rev_last3 b hb
  | 4, _, _ => rev_last4 b hb
  | 5, _, _ => rev_last5 b hb
  | 6, _, _ => rev_last6 b hb
  | 7, _, _ => rev_last7 b hb
  | n + 8, h, _ => absurd h (by omega)

theorem isBytes_map_rev (M : List Nat) (h : IsBytes M) : IsBytes (M.map Bits.reverseByte) := by
  intro x hx
  obtain ⟨b, hb, rfl⟩ := List.mem_map.1 hx
  exact rev_lt b (h b hb)

theorem groupsVal_f (f : Nat → Nat) (hf : ∀ b < 256, f b < 256) (s : List Nat) (h : IsBytes s) :
    Bits.groupsVal f 1 (s.map fun b => [b]) = toInt (s.map f) := by
  induction s with
  | nil => rfl
  | cons b s ih =>
    have hb : f b < 2 ^ 8 := hf b h.head
    show (Bits.groupsVal f 1 (s.map fun b => [b]) <<< (8 * 1)) ||| ((0 <<< 8) ||| f b) = f b + 256 * toInt (s.map f)
    rw [ih h.tail, Nat.zero_shiftLeft, Nat.zero_or, Nat.mul_one, ← Nat.shiftLeft_add_eq_or_of_lt hb, Nat.shiftLeft_eq]
    generalize f b = x
    generalize toInt (s.map f) = y
    omega

theorem groupsVal_rev (s : List Nat) (h : IsBytes s) :
    Bits.groupsVal Bits.reverseByte 1 (s.map fun b => [b]) = toInt (s.map Bits.reverseByte) :=
  groupsVal_f Bits.reverseByte rev_lt s h

/-- `Bits(M,L)` for bytes (bitstream order) -/
theorem ofBytes_stream (M : List Nat) (h : IsBytes M) (L : Nat) :
    Bits.ofBytes M (some L) (-1) = .ok ⟨toInt (M.map Bits.reverseByte) % 2 ^ L, L⟩ := by
  unfold Bits.ofBytes Bits.load
  simp only [show ((-1 : Int) < 0) by decide, ite_true, show ¬ ((-1 : Int) = 0) by decide, ite_false,
    show (-1 : Int).natAbs = 1 from rfl, Nat.mod_one, ne_eq, not_true_eq_false, Py.chunks, show ¬ (1 = 0) by decide, chunks1,
    groupsVal_rev M h, bind, Except.bind, pure, Except.pure, Bits.setSize]

theorem byteAt_toInt (s : List Nat) (h : IsBytes s) (k : Nat) : byteAt (toInt s) k = s.getD k 0 := by
  induction s generalizing k with
  | nil => simp [byteAt, toInt]
  | cons b s ih =>
    have hb := h.head
    cases k with
    | zero => simp only [byteAt, toInt, Nat.mul_zero, Nat.pow_zero, Nat.div_one, List.getD_cons_zero]; omega
    | succ k =>
      have := ih h.tail k
      simp only [byteAt, toInt, List.getD_cons_succ] at this ⊢
      rw [← this, show 8 * (k + 1) = 8 + 8 * k by omega, Nat.pow_add, ← Nat.div_div_eq_div_mul]
      congr 2
      omega

theorem byteAt_low (Y c L k : Nat) (hk : 8 * (k + 1) ≤ L) : byteAt (Y % 2 ^ L + c * 2 ^ L) k = byteAt Y k := by
  unfold byteAt
  have e : 2 ^ L = 2 ^ (8 * k + 8) * 2 ^ (L - (8 * k + 8)) := by rw [← Nat.pow_add]; congr 1; omega
  have d : 2 ^ (8 * k + 8) ∣ 2 ^ L := ⟨_, e⟩
  have s1 : ∀ Z, Z / 2 ^ (8 * k) % 256 = Z % 2 ^ (8 * k + 8) / 2 ^ (8 * k) := by
    intro Z; rw [Nat.pow_add, Nat.mod_mul_right_div_self]
  rw [s1, s1 Y]
  congr 1
  rw [Nat.add_mod, Nat.mod_mod_of_dvd _ d]
  have : c * 2 ^ L % 2 ^ (8 * k + 8) = 0 := Nat.mod_eq_zero_of_dvd (Nat.dvd_trans d (Nat.dvd_mul_left _ _))
  rw [this, Nat.add_zero, Nat.mod_mod]

theorem byteAt_last (Y q r : Nat) (hr : r < 8) :
    byteAt (Y % 2 ^ (8 * q + r) + 2 ^ (8 * q + r)) q = byteAt Y q % 2 ^ r + 2 ^ r := by
  unfold byteAt
  have h1 : Y % 2 ^ (8 * q + r) = Y % 2 ^ (8 * q) + 2 ^ (8 * q) * (Y / 2 ^ (8 * q) % 2 ^ r) := by
    rw [Nat.pow_add, Nat.mod_mul]
  have hlt : Y % 2 ^ (8 * q) < 2 ^ (8 * q) := Nat.mod_lt _ (Nat.two_pow_pos _)
  rw [h1, Nat.pow_add 2 (8 * q) r, Nat.add_assoc, ← Nat.mul_add, Nat.add_comm, Nat.mul_add_div (Nat.two_pow_pos _),
      Nat.div_eq_of_lt hlt, Nat.add_zero]
  have hw : Y / 2 ^ (8 * q) % 2 ^ r < 2 ^ r := Nat.mod_lt _ (Nat.two_pow_pos _)
  have h2r : 2 ^ r ≤ 128 := by
    have : r ≤ 7 := by omega
    calc 2 ^ r ≤ 2 ^ 7 := Nat.pow_le_pow_right (by decide) this
      _ = 128 := by decide
  rw [Nat.mod_eq_of_lt (by omega)]
  congr 1
  have : (256 : Nat) = 2 ^ r * 2 ^ (8 - r) := by rw [← Nat.pow_add, show r + (8 - r) = 8 by omega]
  rw [this, Nat.mod_mul_right_mod]


/-- `Bits.bytes()` of a well-formed value, byte by byte (f = reverse_byte, kept abstract) -/
theorem toBytes_eq (X sz : Nat) (hX : X < 2 ^ sz) :
    Bits.toBytes ⟨X, sz⟩ = (List.range ((sz + 7) / 8)).map fun k => Bits.reverseByte (byteAt X k) := by
  unfold Bits.toBytes Bits.mask byteAt
  apply List.map_congr_left
  intro k _
  show Bits.reverseByte (((X &&& (2 ^ sz - 1)) >>> (8 * k)) &&& 255) = _
  rw [Nat.and_two_pow_sub_one_eq_mod, Nat.mod_eq_of_lt hX, Nat.shiftRight_eq_div_pow,
      show (255 : Nat) = 2 ^ 8 - 1 from rfl, Nat.and_two_pow_sub_one_eq_mod]

theorem getD_lt (M : List Nat) (h : IsBytes M) (k : Nat) : M.getD k 0 < 256 := by
  rw [List.getD_eq_getElem?_getD]
  cases hk : M[k]? with
  | none => decide
  | some x => exact h x (List.mem_of_getElem? hk)

theorem getD_map_lt (f : Nat → Nat) (M : List Nat) (k : Nat) (hk : k < M.length) : (M.map f).getD k 0 = f (M.getD k 0) := by
  simp [List.getD_eq_getElem?_getD, List.getElem?_map, hk]

/-- a byte of the truncated bitstream value that lies wholly below the bit length reads back as the message byte -/
theorem low_byte (f : Nat → Nat) (hf : ∀ b < 256, f b < 256) (hff : ∀ b < 256, f (f b) = b)
    (M : List Nat) (h : IsBytes M) (L c k : Nat) (hk : 8 * (k + 1) ≤ L) (hkm : k < M.length) :
    f (byteAt (toInt (M.map f) % 2 ^ L + c * 2 ^ L) k) = M.getD k 0 := by
  have hb : IsBytes (M.map f) := by
    intro x hx
    obtain ⟨b, hb, rfl⟩ := List.mem_map.1 hx
    exact hf b (h b hb)
  rw [byteAt_low _ _ _ _ hk, byteAt_toInt _ hb, getD_map_lt f M k hkm]
  exact hff _ (getD_lt M h k)

/-- the last, partial byte -/
theorem last_byte (f : Nat → Nat) (hf : ∀ b < 256, f b < 256)
    (hlast : ∀ r, r < 8 → 0 < r → ∀ b < 256, f (f b % 2 ^ r + 2 ^ r) = b / 2 ^ (8 - r) * 2 ^ (8 - r) + 2 ^ (7 - r))
    (M : List Nat) (h : IsBytes M) (q r : Nat) (hr : r < 8) (h0 : 0 < r) (hq : q < M.length) :
    f (byteAt (toInt (M.map f) % 2 ^ (8 * q + r) + 2 ^ (8 * q + r)) q) =
      M.getD q 0 / 2 ^ (8 - r) * 2 ^ (8 - r) + 2 ^ (7 - r) := by
  have hb : IsBytes (M.map f) := by
    intro x hx
    obtain ⟨b, hb, rfl⟩ := List.mem_map.1 hx
    exact hf b (h b hb)
  rw [byteAt_last _ _ _ hr, byteAt_toInt _ hb, getD_map_lt f M q hq]
  exact hlast r hr h0 _ (getD_lt M h q)

theorem map_getD_take (M : List Nat) (q : Nat) (hq : q ≤ M.length) : (List.range q).map (fun k => M.getD k 0) = M.take q := by
  apply List.ext_getElem
  · simp; omega
  · intro i h1 h2
    simp at h1
    simp [List.getD_eq_getElem?_getD, h1, show i < M.length by omega]

/-- the bit-padded message of `UBI.iterblocks` = the specification's M' and flag B, for every message and bit length -/
theorem bitPadded_eq (M : List Nat) (h : IsBytes M) (L : Nat) (hL : L ≤ 8 * M.length) :
    Skein.bitPadded M (some L) = .ok (Spec.Skein.bitPad M L) := by
  unfold Skein.bitPadded Spec.Skein.bitPad
  dsimp only []
  rw [ofBytes_stream M h L]
  simp only [bind, Except.bind, pure, Except.pure]
  have hY : toInt (M.map Bits.reverseByte) % 2 ^ L < 2 ^ L := Nat.mod_lt _ (Nat.two_pow_pos _)
  by_cases hr : L % 8 = 0
  · simp only [hr, ne_eq, not_true_eq_false, ite_false, ite_true]
    rw [toBytes_eq _ _ hY, show (L + 7) / 8 = L / 8 by omega]
    congr 2
    rw [← map_getD_take M (L / 8) (by omega)]
    apply List.map_congr_left
    intro k hk
    have hk' := List.mem_range.1 hk
    have := low_byte Bits.reverseByte rev_lt rev_rev M h L 0 k (by omega) (by omega)
    rw [Nat.zero_mul, Nat.add_zero] at this
    exact this
  · simp only [hr, ne_eq, not_false_eq_true, ite_true, ite_false]
    have hr8 : L % 8 < 8 := Nat.mod_lt _ (by decide)
    have hLq : L = 8 * (L / 8) + L % 8 := by omega
    have hc : (⟨toInt (M.map Bits.reverseByte) % 2 ^ L, L⟩ : Bits).concat (Bits.ofNatSz 1 1) =
        ⟨toInt (M.map Bits.reverseByte) % 2 ^ L + 1 * 2 ^ L, L + 1⟩ := by
      unfold Bits.concat Bits.ofNatSz
      simp only [Nat.mod_self, Nat.pow_one, show 1 % 2 = 1 from rfl]
      rw [Nat.or_comm, ← Nat.shiftLeft_add_eq_or_of_lt hY, Nat.shiftLeft_eq, Nat.add_comm, Nat.mod_eq_of_lt]
      rw [Nat.pow_succ]; omega
    rw [hc, toBytes_eq _ _ (by rw [Nat.pow_succ]; omega), show (L + 1 + 7) / 8 = L / 8 + 1 by omega, List.range_succ, List.map_append]
    apply congrArg (fun x => Except.ok (x, 1))
    apply congr (congrArg HAppend.hAppend ?_) ?_
    · rw [← map_getD_take M (L / 8) (by omega)]
      apply List.map_congr_left
      intro k hk
      have hk' := List.mem_range.1 hk
      exact low_byte Bits.reverseByte rev_lt rev_rev M h L 1 k (by omega) (by omega)
    · simp only [List.map_cons, List.map_nil, List.cons.injEq, and_true]
      have := last_byte Bits.reverseByte rev_lt rev_last M h (L / 8) (L % 8) hr8 (by omega) (by omega)
      rw [← hLq] at this
      rw [Nat.one_mul]
      exact this

/-- without an explicit bit length the message is used as it is -/
theorem bitPadded_none (M : List Nat) : Skein.bitPadded M none = .ok (Spec.Skein.bitPad M (8 * M.length)) := by
  unfold Skein.bitPadded Spec.Skein.bitPad
  simp [pure, Except.pure]

end Proofs.Lemmas.SkBitPad
