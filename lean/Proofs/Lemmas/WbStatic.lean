/-
  Helper lemmas for C18: the key-independent generators evaluated in the kernel (closed terms) against the values
  extracted from the running code.
-/
import Model.Wb
import Model.Gen.Wb
import Proofs.Lemmas.WbBasic
namespace Proofs.Lemmas.Wb
open Model Model.Wb

theorem rbits_gen : getrbitsTin = .ok Gen.Wb.rbits := ok_of_toOption (by decide +kernel)
theorem tableM1_gen : tableM1 = .ok Gen.Wb.m1 := ok_of_toOption (by decide +kernel)
theorem srlr_gen : srlrFormat = .ok (Gen.Wb.srlrSR, Gen.Wb.srlrL, Gen.Wb.srlrR) := ok_of_toOption (by decide +kernel)
theorem erlr_gen : erlrFormat = .ok (Gen.Wb.erlrER, Gen.Wb.erlrL, Gen.Wb.erlrR) := ok_of_toOption (by decide +kernel)
theorem tableM2_gen : tableM2 = .ok (Gen.Wb.m2mat, Gen.Wb.m2m) := ok_of_toOption (by decide +kernel)
theorem tableM3_gen : tableM3 = .ok Gen.Wb.m3 := ok_of_toOption (by decide +kernel)

end Proofs.Lemmas.Wb
