/-
  Instantiation of the mode-of-operation theorems (C05) with the block ciphers of the library.

  `Implements c k` (ModeL.lean) is what every mode theorem assumes of the model cipher `c` and the standard's cipher
  `k`.  Here it is proved for `Model.Mode.Ciphers.aes/des/tdea/serpent` against `Spec.ModeCiphers.fips197/fips46/
  sp80067/serpent` by composing, for each cipher, its C03 theorems (enc/dec succeed on byte blocks, keep the block
  format, invert each other) with its C02 refinement theorems (model enc/dec = the standard's function).

  `LibCipher c k`: c is one of the library's block cipher objects (cipher + accepted key, for Threefish key + tweak),
  k the standard it implements with that key.  One constructor per cipher; `lib_implements` is the only proof that grows
  with the list (`lib_len` lists the block lengths: 8, 16 and Threefish's 32, 64, 128 bytes).
-/
import Proofs.Lemmas.ModePadL
import Proofs.Lemmas.ModeCtr
import Model.ModeCiphers
import Spec.ModeCiphers
import Proofs.C02_Aes
import Proofs.C03_Aes
import Proofs.C02_Des
import Proofs.C03_Des
import Proofs.C02_Serpent
import Proofs.C03_Serpent
import Proofs.C02_Threefish
import Proofs.C03_Threefish
namespace Proofs.Lemmas.ModeInst
open Model Model.Mode Proofs.Lemmas.ModeL

/-- `Implements` from the two forms in which the cipher properties deliver their results:
    C03 — on byte blocks enc/dec succeed, return byte blocks, and undo each other;
    C02 — on byte blocks enc/dec return what the standard's (partial) functions E, D return. -/
theorem implements_of_refines (c : BlockCipher) (l : Nat) (E D : List Nat → Option (List Nat)) (hlen : l = c.len)
    (hpos : 0 < c.len)
    (henc : ∀ b, IsBlock c.len b → ∃ y, c.enc b = .ok y ∧ IsBlock c.len y ∧ c.dec y = .ok b)
    (hdec : ∀ y, IsBlock c.len y → ∃ b, c.dec y = .ok b ∧ IsBlock c.len b ∧ c.enc b = .ok y)
    (hE : ∀ b, IsBlock c.len b → (c.enc b).toOption = E b)
    (hD : ∀ b, IsBlock c.len b → (c.dec b).toOption = D b) :
    Implements c ⟨l, fun b => (E b).getD [], fun b => (D b).getD []⟩ := by
  have eE : ∀ b y, IsBlock c.len b → c.enc b = .ok y → (E b).getD [] = y := by
    intro b y hb h; have := hE b hb; rw [h] at this; rw [← this]; rfl
  have eD : ∀ b y, IsBlock c.len b → c.dec b = .ok y → (D b).getD [] = y := by
    intro b y hb h; have := hD b hb; rw [h] at this; rw [← this]; rfl
  refine ⟨hlen, hpos, ?_, ?_, ?_, ?_, ?_, ?_⟩
  · intro b hb; obtain ⟨y, h1, _, _⟩ := henc b hb; show c.enc b = .ok ((E b).getD []); rw [eE b y hb h1, h1]
  · intro b hb; obtain ⟨y, h1, _, _⟩ := hdec b hb; show c.dec b = .ok ((D b).getD []); rw [eD b y hb h1, h1]
  · intro b hb; obtain ⟨y, h1, h2, _⟩ := henc b hb; show IsBlock c.len ((E b).getD []); rw [eE b y hb h1]; exact h2
  · intro b hb; obtain ⟨y, h1, h2, _⟩ := hdec b hb; show IsBlock c.len ((D b).getD []); rw [eD b y hb h1]; exact h2
  · intro b hb; obtain ⟨y, h1, h2, h3⟩ := henc b hb
    show (D ((E b).getD [])).getD [] = b; rw [eE b y hb h1, eD y b h2 h3]
  · intro b hb; obtain ⟨y, h1, h2, h3⟩ := hdec b hb
    show (E ((D b).getD [])).getD [] = b; rw [eD b y hb h1, eE y b h2 h3]

theorem bytes_of_take_drop {K : List Nat} (n : Nat) (h1 : Bytes (K.take n)) (h2 : Bytes (K.drop n)) : Bytes K := by
  rw [← List.take_append_drop n K]; exact h1.append h2

/-! ### AES (FIPS 197): keys of 16, 24, 32 bytes -/

/-- the keys `AES(key)` accepts -/
def AesKey (K : List Nat) : Prop := (K.length = 16 ∨ K.length = 24 ∨ K.length = 32) ∧ Bytes K

theorem aes_implements (K : List Nat) (hK : AesKey K) : Implements (Ciphers.aes K) (Spec.ModeCiphers.fips197 K) := by
  have hk : Proofs.Aes.KeyOk K := hK
  have key := implements_of_refines (Ciphers.aes K) 16 (fun b => some (Spec.Aes.cipher K b))
    (fun b => some (Spec.Aes.invCipher K b)) rfl (Nat.succ_pos _)
    (fun b hb => by
      have hB : Proofs.Aes.St b := hb
      have he := Proofs.C02_Aes.enc_refines K b hk hB
      have hr := Proofs.C03_Aes.dec_enc K b hk hB
      have hl := Proofs.C03_Aes.enc_length K b _ hk hB he
      rw [he] at hr
      exact ⟨_, he, hl.2, hr⟩)
    (fun b hb => by
      have hB : Proofs.Aes.St b := hb
      have he := Proofs.C02_Aes.dec_refines K b hk hB
      have hr := Proofs.C03_Aes.enc_dec K b hk hB
      have hl := Proofs.C03_Aes.dec_length K b _ hk hB he
      rw [he] at hr
      exact ⟨_, he, hl.2, hr⟩)
    (fun b hb => by
      show (Aes.enc K b).toOption = _
      rw [Proofs.C02_Aes.enc_refines K b hk hb]; rfl)
    (fun b hb => by
      show (Aes.dec K b).toOption = _
      rw [Proofs.C02_Aes.dec_refines K b hk hb]; rfl)
  exact key

theorem aes_ctor (K : List Nat) (hK : AesKey K) : Ciphers.aes? K = .ok (Ciphers.aes K) := by
  obtain ⟨h, _⟩ := hK
  unfold Ciphers.aes? Aes.init
  rcases h with h | h | h <;> simp [h, Aes.nrOf]

/-! ### DES (FIPS 46-3): keys of 8 bytes -/

def DesKey (K : List Nat) : Prop := K.length = 8 ∧ Bytes K

theorem des_implements (K : List Nat) (hK : DesKey K) : Implements (Ciphers.des K) (Spec.ModeCiphers.fips46 K) :=
  implements_of_refines (Ciphers.des K) 8 (Spec.Des.enc K) (Spec.Des.dec K) rfl (Nat.succ_pos _)
    (fun b hb => by
      obtain ⟨C, h1, h2, h3, h4⟩ := Proofs.C03_Des.des_dec_enc K b hK.1 hb.1 hb.2
      exact ⟨C, h1, ⟨h2, h3⟩, h4⟩)
    (fun b hb => by
      obtain ⟨C, h1, h2, h3, h4⟩ := Proofs.C03_Des.des_enc_dec K b hK.1 hb.1 hb.2
      exact ⟨C, h1, ⟨h2, h3⟩, h4⟩)
    (fun b hb => Proofs.C02_Des.enc_refines K b hK.2 hb.2)
    (fun b hb => Proofs.C02_Des.dec_refines K b hK.2 hb.2)

theorem des_ctor (K : List Nat) (hK : DesKey K) : Ciphers.des? K = .ok (Ciphers.des K) := by
  obtain ⟨d, hd, _⟩ := Model.Des.DES_new_ok K hK.1
  simp [Ciphers.des?, hd]

/-! ### TDEA (SP 800-67): every keying option, every calling form of `TDEA(K1,K2,K3)` -/

/-- a key bundle of three 8-byte keys -/
def KeyingOk (ko : Spec.Des.Keying) : Prop :=
  IsBlock 8 ko.bundle.1 ∧ IsBlock 8 ko.bundle.2.1 ∧ IsBlock 8 ko.bundle.2.2

/-- the accepted calls `TDEA(K1,K2,K3)` and the key bundle each one denotes -/
def TdeaKey (K1 : List Nat) (K2 K3 : Option (List Nat)) (ko : Spec.Des.Keying) : Prop :=
  Spec.ModeCiphers.keyingOfCall K1 K2 K3 = some ko ∧ KeyingOk ko

/-- the byte-ness of the call's arguments follows from that of the bundle -/
theorem tdea_args_bytes {K1 : List Nat} {K2 K3 : Option (List Nat)} {ko : Spec.Des.Keying} (h : TdeaKey K1 K2 K3 ko) :
    Bytes K1 ∧ (∀ k, K2 = some k → Bytes k) ∧ (∀ k, K3 = some k → Bytes k) := by
  obtain ⟨hc, h1, h2, h3⟩ := h
  cases K2 with
  | none =>
    cases K3 with
    | some k3 => simp [Spec.ModeCiphers.keyingOfCall] at hc
    | none =>
      refine ⟨?_, ?_, ?_⟩
      rotate_left
      · intro _ h; cases h
      · intro _ h; cases h
      simp only [Spec.ModeCiphers.keyingOfCall, Spec.Des.keyingOfString] at hc
      split at hc
      · cases hc; exact h1.2
      · split at hc
        · cases hc; exact bytes_of_take_drop 8 h1.2 h2.2
        · split at hc
          · cases hc
            refine bytes_of_take_drop 8 h1.2 (bytes_of_take_drop 8 h2.2 ?_)
            have : (K1.drop 8).drop 8 = K1.drop 16 := by rw [List.drop_drop]
            rw [this]; exact h3.2
          · cases hc
  | some k2 =>
    cases K3 with
    | none =>
      simp only [Spec.ModeCiphers.keyingOfCall, Option.some.injEq] at hc; cases hc
      exact ⟨h1.2, fun k h => by cases h; exact h2.2, fun _ h => by cases h⟩
    | some k3 =>
      simp only [Spec.ModeCiphers.keyingOfCall, Option.some.injEq] at hc; cases hc
      exact ⟨h1.2, fun k h => by cases h; exact h2.2, fun k h => by cases h; exact h3.2⟩

/-- C02 for every calling form at once -/
theorem tdea_call_refines (K1 : List Nat) (K2 K3 : Option (List Nat)) (M : List Nat) (h1 : Bytes K1)
    (h2 : ∀ k, K2 = some k → Bytes k) (h3 : ∀ k, K3 = some k → Bytes k) (hM : Bytes M) :
    (Des.tdeaEnc K1 K2 K3 M).toOption = (Spec.ModeCiphers.keyingOfCall K1 K2 K3).bind (fun ko => Spec.Des.tdeaEnc ko M) ∧
    (Des.tdeaDec K1 K2 K3 M).toOption = (Spec.ModeCiphers.keyingOfCall K1 K2 K3).bind (fun ko => Spec.Des.tdeaDec ko M) := by
  cases K2 with
  | none =>
    cases K3 with
    | none => exact Proofs.C02_Des.tdea_string_refines K1 M h1 hM
    | some k3 => exact Proofs.C02_Des.tdea_K2None_rejected K1 k3 M
  | some k2 =>
    cases K3 with
    | none => exact Proofs.C02_Des.tdea_two_args_refines K1 k2 M h1 (h2 k2 rfl) hM
    | some k3 => exact Proofs.C02_Des.tdea_three_args_refines K1 k2 k3 M h1 (h2 k2 rfl) (h3 k3 rfl) hM

/-- FIPS 46-3 enc/dec are defined on 8-byte keys and blocks and return byte blocks (through the model) -/
theorem spec_des_block (K b : List Nat) (hK : IsBlock 8 K) (hb : IsBlock 8 b) :
    (∃ y, Spec.Des.enc K b = some y ∧ IsBlock 8 y) ∧ (∃ y, Spec.Des.dec K b = some y ∧ IsBlock 8 y) := by
  have h := des_implements K hK
  have he := h.E_block b hb
  have hd := h.D_block b hb
  have e1 : Spec.Des.enc K b = some ((Spec.Des.enc K b).getD []) := by simp [Spec.Des.enc, hK.1, hb.1]
  have e2 : Spec.Des.dec K b = some ((Spec.Des.dec K b).getD []) := by simp [Spec.Des.dec, hK.1, hb.1]
  exact ⟨⟨_, e1, he⟩, ⟨_, e2, hd⟩⟩

theorem spec_tdea_some (ko : Spec.Des.Keying) (hk : KeyingOk ko) (b : List Nat) (hb : IsBlock 8 b) :
    (∃ y, Spec.Des.tdeaEnc ko b = some y) ∧ (∃ y, Spec.Des.tdeaDec ko b = some y) := by
  obtain ⟨h1, h2, h3⟩ := hk
  constructor
  · obtain ⟨a, ea, ha⟩ := (spec_des_block _ b h1 hb).1
    obtain ⟨c, ec, hc⟩ := (spec_des_block _ a h2 ha).2
    obtain ⟨d, ed, _⟩ := (spec_des_block _ c h3 hc).1
    exact ⟨d, by simp [Spec.Des.tdeaEnc, ea, ec, ed]⟩
  · obtain ⟨a, ea, ha⟩ := (spec_des_block _ b h3 hb).2
    obtain ⟨c, ec, hc⟩ := (spec_des_block _ a h2 ha).1
    obtain ⟨d, ed, _⟩ := (spec_des_block _ c h1 hc).2
    exact ⟨d, by simp [Spec.Des.tdeaDec, ea, ec, ed]⟩

/-- an accepted call builds an object -/
theorem tdea_new_ok {K1 : List Nat} {K2 K3 : Option (List Nat)} {ko : Spec.Des.Keying} (h : TdeaKey K1 K2 K3 ko) :
    ∃ t, Des.TDEA.new K1 K2 K3 = .ok t := by
  obtain ⟨b1, b2, b3⟩ := tdea_args_bytes h
  have hz : IsBlock 8 (List.replicate 8 0) := ⟨by simp, Bytes.replicate (by decide)⟩
  have hr := (tdea_call_refines K1 K2 K3 _ b1 b2 b3 hz.2).1
  obtain ⟨y, hy⟩ := (spec_tdea_some ko h.2 _ hz).1
  rw [h.1, Option.bind_some, hy] at hr
  cases ht : Des.TDEA.new K1 K2 K3 with
  | ok t => exact ⟨t, rfl⟩
  | error e => simp [Des.tdeaEnc, ht, bind, Except.bind, Except.toOption] at hr

theorem tdea_implements (K1 : List Nat) (K2 K3 : Option (List Nat)) (ko : Spec.Des.Keying) (h : TdeaKey K1 K2 K3 ko) :
    Implements (Ciphers.tdea K1 K2 K3) (Spec.ModeCiphers.sp80067 ko) := by
  obtain ⟨b1, b2, b3⟩ := tdea_args_bytes h
  obtain ⟨t, ht⟩ := tdea_new_ok h
  have ee : ∀ b, Des.tdeaEnc K1 K2 K3 b = t.enc b := fun b => by simp [Des.tdeaEnc, ht, bind, Except.bind]
  have ed : ∀ b, Des.tdeaDec K1 K2 K3 b = t.dec b := fun b => by simp [Des.tdeaDec, ht, bind, Except.bind]
  exact implements_of_refines (Ciphers.tdea K1 K2 K3) 8 (Spec.Des.tdeaEnc ko) (Spec.Des.tdeaDec ko) rfl (Nat.succ_pos _)
    (fun b hb => by
      obtain ⟨C, c1, c2, c3, c4⟩ := Proofs.C03_Des.tdea_dec_enc t b hb.1 hb.2
      exact ⟨C, (ee b).trans c1, ⟨c2, c3⟩, (ed C).trans c4⟩)
    (fun b hb => by
      obtain ⟨C, c1, c2, c3, c4⟩ := Proofs.C03_Des.tdea_enc_dec t b hb.1 hb.2
      exact ⟨C, (ed b).trans c1, ⟨c2, c3⟩, (ee C).trans c4⟩)
    (fun b hb => by
      have := (tdea_call_refines K1 K2 K3 b b1 b2 b3 hb.2).1
      rw [h.1, Option.bind_some] at this; exact this)
    (fun b hb => by
      have := (tdea_call_refines K1 K2 K3 b b1 b2 b3 hb.2).2
      rw [h.1, Option.bind_some] at this; exact this)

theorem tdea_ctor (K1 : List Nat) (K2 K3 : Option (List Nat)) (ko : Spec.Des.Keying) (h : TdeaKey K1 K2 K3 ko) :
    Ciphers.tdea? K1 K2 K3 = .ok (Ciphers.tdea K1 K2 K3) := by
  obtain ⟨t, ht⟩ := tdea_new_ok h
  simp [Ciphers.tdea?, ht]

/-- the three string forms and the two argument-list forms are accepted calls -/
theorem tdeaKey_string8 (K : List Nat) (hl : K.length = 8) (hb : Bytes K) : TdeaKey K none none (.opt3 K) :=
  ⟨by simp [Spec.ModeCiphers.keyingOfCall, Spec.Des.keyingOfString, hl], ⟨hl, hb⟩, ⟨hl, hb⟩, ⟨hl, hb⟩⟩

theorem tdeaKey_string16 (K : List Nat) (hl : K.length = 16) (hb : Bytes K) :
    TdeaKey K none none (.opt2 (K.take 8) (K.drop 8)) :=
  ⟨by simp [Spec.ModeCiphers.keyingOfCall, Spec.Des.keyingOfString, hl],
   ⟨by simp [Spec.Des.Keying.bundle, hl], hb.take 8⟩, ⟨by simp [Spec.Des.Keying.bundle, hl], hb.drop 8⟩,
   ⟨by simp [Spec.Des.Keying.bundle, hl], hb.take 8⟩⟩

theorem tdeaKey_string24 (K : List Nat) (hl : K.length = 24) (hb : Bytes K) :
    TdeaKey K none none (.opt1 (K.take 8) ((K.drop 8).take 8) (K.drop 16)) :=
  ⟨by simp [Spec.ModeCiphers.keyingOfCall, Spec.Des.keyingOfString, hl],
   ⟨by simp [Spec.Des.Keying.bundle, hl], hb.take 8⟩, ⟨by simp [Spec.Des.Keying.bundle, hl], (hb.drop 8).take 8⟩,
   ⟨by simp [Spec.Des.Keying.bundle, hl], hb.drop 16⟩⟩

theorem tdeaKey_two (K1 K2 : List Nat) (h1 : IsBlock 8 K1) (h2 : IsBlock 8 K2) : TdeaKey K1 (some K2) none (.opt2 K1 K2) :=
  ⟨rfl, h1, h2, h1⟩

theorem tdeaKey_three (K1 K2 K3 : List Nat) (h1 : IsBlock 8 K1) (h2 : IsBlock 8 K2) (h3 : IsBlock 8 K3) :
    TdeaKey K1 (some K2) (some K3) (.opt1 K1 K2 K3) :=
  ⟨rfl, h1, h2, h3⟩

/-! ### Serpent (AES submission): keys of 0..32 bytes -/

def SerpentKey (K : List Nat) : Prop := K.length ≤ 32 ∧ Bytes K

theorem serpent_implements (K : List Nat) (hK : SerpentKey K) :
    Implements (Ciphers.serpent K) (Spec.ModeCiphers.serpent K) :=
  implements_of_refines (Ciphers.serpent K) 16 (Spec.Serpent.enc K) (Spec.Serpent.dec K) rfl (Nat.succ_pos _)
    (fun b hb => by
      obtain ⟨C, h1, h2, h3, h4⟩ := Proofs.C03_Serpent.dec_enc_bytes K b hK.2 hb.2 hK.1 hb.1
      exact ⟨C, h1, ⟨h2.trans hb.1, h3⟩, h4⟩)
    (fun b hb => by
      obtain ⟨C, h1, h2, h3, h4⟩ := Proofs.C03_Serpent.enc_dec_bytes K b hK.2 hb.2 hK.1 hb.1
      exact ⟨C, h1, ⟨h2.trans hb.1, h3⟩, h4⟩)
    (fun b hb => (Proofs.C02_Serpent.enc_refines_bytes K b hK.2 hb.2 hK.1 hb.1).1)
    (fun b hb => (Proofs.C02_Serpent.dec_refines_bytes K b hK.2 hb.2 hK.1 hb.1).1)

/-- the object built by the constructor (round keys computed once) is the cipher the theorems speak about -/
theorem serpent_ctor (K : List Nat) (hK : SerpentKey K) : Ciphers.serpent? K = .ok (Ciphers.serpent K) := by
  have hk := Proofs.Lemmas.SerpentBytes.ofBytes_le K hK.2
  have hi := Proofs.Lemmas.SerpentKS.init_eq ⟨Spec.Serpent.leNat K, 8 * K.length⟩ (by show 8 * K.length ≤ 256; have := hK.1; omega)
    (Proofs.Lemmas.SerpentBytes.leNat_lt K)
  unfold Ciphers.serpent?
  simp only [hk, hi, bind, Except.bind]
  congr 1
  unfold Ciphers.serpentObj Ciphers.serpent
  congr 1
  · funext b
    simp only [Serpent.encBytes, Serpent.enc, hk, hi, bind, Except.bind]
  · funext b
    simp only [Serpent.decBytes, Serpent.dec, hk, hi, bind, Except.bind]

/-- sharing the round keys between blocks does not change the Spec cipher -/
theorem serpentShared_eq (K : List Nat) : Spec.ModeCiphers.serpentShared K = Spec.ModeCiphers.serpent K := by
  unfold Spec.ModeCiphers.serpentShared Spec.ModeCiphers.serpent
  simp only [Spec.Serpent.enc, Spec.Serpent.dec, Spec.Serpent.encNat, Spec.Serpent.decNat]
  congr 1
  · funext b; split <;> rfl
  · funext b; split <;> rfl

/-! ### Threefish-256/512/1024 (Skein 1.3, section 3.3): keys of 32, 64, 128 bytes, tweaks of 16 bytes -/

/-- the (key, tweak) pairs `Threefish(key,tweak)` accepts -/
def ThreefishKey (K T : List Nat) : Prop :=
  (K.length = 32 ∨ K.length = 64 ∨ K.length = 128) ∧ Bytes K ∧ T.length = 16 ∧ Bytes T

/-- what the standard's functions return is a byte string -/
theorem spec_threefish_bytes (K T b y : List Nat) :
    (Spec.Threefish.enc K T b = some y → Bytes y) ∧ (Spec.Threefish.dec K T b = some y → Bytes y) := by
  unfold Spec.Threefish.enc Spec.Threefish.dec
  constructor <;> intro h <;> split at h
  · cases h; exact Proofs.Lemmas.TfBytes.isBytes_wordsToBytes _
  · cases h
  · cases h; exact Proofs.Lemmas.TfBytes.isBytes_wordsToBytes _
  · cases h

theorem threefish_implements (K T : List Nat) (hK : ThreefishKey K T) :
    Implements (Ciphers.threefish K T) (Spec.ModeCiphers.threefish K T) := by
  obtain ⟨hl, hk, htl, ht⟩ := hK
  have hk' : Proofs.Lemmas.TfBytes.IsBytes K := hk
  have ht' : Proofs.Lemmas.TfBytes.IsBytes T := ht
  exact implements_of_refines (Ciphers.threefish K T) K.length (Spec.Threefish.enc K T) (Spec.Threefish.dec K T) rfl
    (by show 0 < K.length; omega)
    (fun b hb => by
      have hb' : Proofs.Lemmas.TfBytes.IsBytes b := hb.2
      have hr := Proofs.C03_Threefish.dec_enc K T b hk' ht' hb' ⟨hl, htl, hb.1⟩
      have he := Proofs.C02_Threefish.enc_refines K T b hk' ht' hb'
      show ∃ y, Threefish.encrypt K T b = .ok y ∧ IsBlock K.length y ∧ Threefish.decrypt K T y = .ok b
      cases hy : Threefish.encrypt K T b with
      | error e => rw [hy] at hr; cases hr
      | ok y =>
        rw [hy] at hr he
        have hlen := Proofs.C03_Threefish.enc_length K T b y hk' ht' hb' hy
        exact ⟨y, rfl, ⟨hlen.trans hb.1, (spec_threefish_bytes K T b y).1 he.symm⟩, hr⟩)
    (fun b hb => by
      have hb' : Proofs.Lemmas.TfBytes.IsBytes b := hb.2
      have hr := Proofs.C03_Threefish.enc_dec K T b hk' ht' hb' ⟨hl, htl, hb.1⟩
      have he := Proofs.C02_Threefish.dec_refines K T b hk' ht' hb'
      show ∃ y, Threefish.decrypt K T b = .ok y ∧ IsBlock K.length y ∧ Threefish.encrypt K T y = .ok b
      cases hy : Threefish.decrypt K T b with
      | error e => rw [hy] at hr; cases hr
      | ok y =>
        rw [hy] at hr he
        have hlen := Proofs.C03_Threefish.dec_length K T b y hk' ht' hb' hy
        exact ⟨y, rfl, ⟨hlen.trans hb.1, (spec_threefish_bytes K T b y).2 he.symm⟩, hr⟩)
    (fun b hb => Proofs.C02_Threefish.enc_refines K T b hk' ht' hb.2)
    (fun b hb => Proofs.C02_Threefish.dec_refines K T b hk' ht' hb.2)

/-- the object built by the constructor (extended key and tweak words computed once, `blocksize` read from `K.size`) is
    the cipher the theorems speak about -/
theorem threefish_ctor (K T : List Nat) (hK : ThreefishKey K T) : Ciphers.threefish? K T = .ok (Ciphers.threefish K T) := by
  obtain ⟨hl, hk, htl, ht⟩ := hK
  obtain ⟨c, hc, hsz, _⟩ := Proofs.Lemmas.TfEnd.init_rel K T hk ht hl htl
  unfold Ciphers.threefish?
  simp only [hc]
  congr 1
  unfold Ciphers.threefishObj Ciphers.threefish
  congr 1
  · rw [hsz]; omega
  · funext b; simp only [Threefish.encrypt, hc, bind, Except.bind]
  · funext b; simp only [Threefish.decrypt, hc, bind, Except.bind]

/-! ### the block ciphers of the library -/

/-- `LibCipher c k`: `c` is a block cipher object of the library built with an accepted key (what a user passes to
    ECB/CBC/CTR/CTS_ECB/CTS_CBC), `k` is the cipher of the standard it implements, with that key. -/
inductive LibCipher : BlockCipher → Spec.Mode.Cipher → Prop
  /-- `AES(K)`, |K| ∈ {16, 24, 32}: FIPS 197 -/
  | aes (K : List Nat) : AesKey K → LibCipher (Ciphers.aes K) (Spec.ModeCiphers.fips197 K)
  /-- `DES(K)`, |K| = 8: FIPS 46-3 -/
  | des (K : List Nat) : DesKey K → LibCipher (Ciphers.des K) (Spec.ModeCiphers.fips46 K)
  /-- `TDEA(K1[,K2[,K3]])` in every accepted calling form: SP 800-67 with the bundle the call denotes -/
  | tdea (K1 : List Nat) (K2 K3 : Option (List Nat)) (ko : Spec.Des.Keying) :
      TdeaKey K1 K2 K3 ko → LibCipher (Ciphers.tdea K1 K2 K3) (Spec.ModeCiphers.sp80067 ko)
  /-- `Serpent(K)`, |K| ≤ 32: the Serpent submission (short keys padded as it prescribes) -/
  | serpent (K : List Nat) : SerpentKey K → LibCipher (Ciphers.serpent K) (Spec.ModeCiphers.serpent K)
  /-- `Threefish(K,T)`, |K| ∈ {32, 64, 128}, |T| = 16: Threefish-256/512/1024 of Skein 1.3 with that key and tweak -/
  | threefish (K T : List Nat) : ThreefishKey K T → LibCipher (Ciphers.threefish K T) (Spec.ModeCiphers.threefish K T)

theorem lib_implements {c : BlockCipher} {k : Spec.Mode.Cipher} (h : LibCipher c k) : Implements c k := by
  cases h with
  | aes K hK => exact aes_implements K hK
  | des K hK => exact des_implements K hK
  | tdea K1 K2 K3 ko hK => exact tdea_implements K1 K2 K3 ko hK
  | serpent K hK => exact serpent_implements K hK
  | threefish K T hK => exact threefish_implements K T hK

/-- the block length of a library cipher is 8 or 16 bytes, or 32 / 64 / 128 bytes for Threefish-256/512/1024: below 256
    (every padding scheme is admissible) and even (the default counter has two halves of 4 / 8 / 16 / 32 / 64 bytes) -/
theorem lib_len {c : BlockCipher} {k : Spec.Mode.Cipher} (h : LibCipher c k) :
    c.len = 8 ∨ c.len = 16 ∨ c.len = 32 ∨ c.len = 64 ∨ c.len = 128 := by
  cases h with
  | threefish K T hK =>
    have := hK.1
    show K.length = 8 ∨ K.length = 16 ∨ K.length = 32 ∨ K.length = 64 ∨ K.length = 128
    omega
  | _ => simp [Ciphers.aes, Ciphers.des, Ciphers.tdea, Ciphers.serpent]

/-- the admissible (padding, message) pairs for a library cipher: a padding scheme takes every message, `nopadding` the
    non-empty block multiples (the bound l < 256 of PKCS#7 / X9.23 holds for every block length of the library) -/
def LibPadDom (l : Nat) (s : Spec.ModePad.Scheme) (M : List Nat) : Prop :=
  s = .none → M.length % l = 0 ∧ 0 < M.length

theorem lib_padDom {c : BlockCipher} {k : Spec.Mode.Cipher} (h : LibCipher c k) (s : Spec.ModePad.Scheme) (M : List Nat)
    (hd : LibPadDom c.len s M) : PadDom s c.len M := by
  have hl := lib_len h
  cases s with
  | none => exact hd rfl
  | pkcs7 => show c.len < 256; omega
  | x923 => show c.len < 256; omega
  | bit => trivial

/-- the admissible counter arguments for a library cipher: None (zero nonce and count) or any one-block string -/
def LibCtrDom (l : Nat) (iv : Option (List Nat)) : Prop := ∀ v, iv = some v → IsBlock l v

theorem lib_ctrDom {c : BlockCipher} {k : Spec.Mode.Cipher} (h : LibCipher c k) (iv : Option (List Nat))
    (hd : LibCtrDom c.len iv) : CtrDom c.len iv := by
  have hl := lib_len h
  cases iv with
  | none => show c.len % 2 = 0; omega
  | some v => exact hd v rfl

end Proofs.Lemmas.ModeInst
