/-
  Byte strings <-> 64-bit words: `Bits(bytes,bitorder=1)`, `B[i:i+64]`, `pack` versus ToInt / BytesToWords / WordsToBytes.
-/
import Proofs.Lemmas.TfBridge
namespace Proofs.Lemmas.TfBytes
open Model Proofs.Lemmas.TfBridge
open Spec.Threefish (W toInt toBytes bytesToWords wordsToBytes)

/-- a byte string: every element below 256 -/
def IsBytes (s : List Nat) : Prop := ∀ b ∈ s, b < 256

theorem IsBytes.tail {b : Nat} {s : List Nat} (h : IsBytes (b :: s)) : IsBytes s := fun x hx => h x (by simp [hx])
theorem IsBytes.head {b : Nat} {s : List Nat} (h : IsBytes (b :: s)) : b < 256 := h b (by simp)

theorem chunks1 (s : List Nat) : Py.chunks.go 1 s s.length = s.map fun b => [b] := by
  induction s with
  | nil => rfl
  | cons b s ih =>
    simp only [List.length_cons, Py.chunks.go, List.isEmpty_cons, Bool.false_eq_true, ite_false, List.take_succ_cons,
      List.take_zero, List.drop_succ_cons, List.drop_zero, List.map_cons, ih]

theorem groupsVal_bytes (s : List Nat) (h : IsBytes s) :
    Bits.groupsVal id 1 (s.map fun b => [b]) = toInt s := by
  induction s with
  | nil => rfl
  | cons b s ih =>
    have hb := h.head
    simp only [List.map_cons, Bits.groupsVal, Bits.groupVal, List.foldl_cons, List.foldl_nil, id, toInt, ih h.tail]
    rw [Nat.zero_shiftLeft, Nat.zero_or, ← Nat.shiftLeft_add_eq_or_of_lt (by simpa using hb), Nat.shiftLeft_eq]
    omega

/-- `Bits(s,bitorder=1)` is the little-endian integer of the byte string, with 8·|s| bits -/
theorem loadLE_eq (s : List Nat) (h : IsBytes s) : Threefish.loadLE s = .ok ⟨toInt s, 8 * s.length⟩ := by
  unfold Threefish.loadLE Bits.ofBytes Bits.load
  simp only [show ¬ ((1 : Int) < 0) by decide, show ¬ ((1 : Int) = 0) by decide, ite_false, Int.natAbs_one, Nat.mod_one,
    ne_eq, not_true_eq_false, Py.chunks, show ¬ (1 = 0) by decide, chunks1, groupsVal_bytes s h]
  rfl

theorem toInt_append (a b : List Nat) : toInt (a ++ b) = toInt a + 256 ^ a.length * toInt b := by
  induction a with
  | nil => simp [toInt]
  | cons x a ih =>
    simp only [List.cons_append, toInt, ih, List.length_cons, Nat.pow_succ]
    rw [Nat.mul_add, Nat.add_assoc, Nat.mul_comm (256 ^ a.length) 256, Nat.mul_assoc]

theorem toInt_lt (a : List Nat) (h : IsBytes a) : toInt a < 256 ^ a.length := by
  induction a with
  | nil => simp [toInt]
  | cons x a ih =>
    have := ih h.tail
    have hx := h.head
    simp only [toInt, List.length_cons, Nat.pow_succ]
    omega

theorem IsBytes.take {s : List Nat} (h : IsBytes s) (n : Nat) : IsBytes (s.take n) :=
  fun x hx => h x (List.mem_of_mem_take hx)
theorem IsBytes.drop {s : List Nat} (h : IsBytes s) (n : Nat) : IsBytes (s.drop n) :=
  fun x hx => h x (List.mem_of_mem_drop hx)

/-- the j-th 64-bit slice of the little-endian integer is the integer of bytes 8j .. 8j+7 -/
theorem word_slice (s : List Nat) (h : IsBytes s) (j : Nat) (hj : 8 * j + 8 ≤ s.length) :
    (toInt s % 2 ^ (64 * j + 64)) / 2 ^ (64 * j) % 2 ^ 64 = toInt ((s.drop (8 * j)).take 8) := by
  have e1 : s = s.take (8 * j) ++ ((s.drop (8 * j)).take 8 ++ (s.drop (8 * j)).drop 8) := by
    rw [List.take_append_drop, List.take_append_drop]
  have hA := toInt_lt _ (h.take (8 * j))
  have hB := toInt_lt _ ((h.drop (8 * j)).take 8)
  have l1 : (s.take (8 * j)).length = 8 * j := by rw [List.length_take]; omega
  have l2 : ((s.drop (8 * j)).take 8).length = 8 := by rw [List.length_take, List.length_drop]; omega
  rw [l1] at hA; rw [l2] at hB
  have p1 : (256 : Nat) ^ (8 * j) = 2 ^ (64 * j) := by
    rw [show (256 : Nat) = 2 ^ 8 by rfl, ← Nat.pow_mul]; congr 1; omega
  have p2 : (256 : Nat) ^ 8 = 2 ^ 64 := by decide
  rw [p1] at hA; rw [p2] at hB
  generalize hAe : toInt (s.take (8 * j)) = A at hA
  generalize hBe : toInt ((s.drop (8 * j)).take 8) = B at hB
  have e2 : toInt s = A + 2 ^ (64 * j) * (B + 2 ^ 64 * toInt ((s.drop (8 * j)).drop 8)) := by
    conv => lhs; rw [e1]
    rw [toInt_append, toInt_append, l1, l2, p1, p2, hAe, hBe]
  generalize toInt ((s.drop (8 * j)).drop 8) = C at e2
  rw [e2, Nat.pow_add, Nat.mod_mul_right_div_self, Nat.add_comm A, Nat.mul_add_div (Nat.two_pow_pos _),
      Nat.div_eq_of_lt hA, Nat.add_zero, Nat.mod_mod, Nat.add_mul_mod_self_left, Nat.mod_eq_of_lt hB]

theorem sliceFast_word (s : List Nat) (h : IsBytes s) (j : Nat) (hj : 8 * j + 8 ≤ s.length) :
    (⟨toInt s, 8 * s.length⟩ : Bits).sliceFast (64 * j) (64 * j + 64) =
      ofBV (BitVec.ofNat 64 (toInt ((s.drop (8 * j)).take 8))) := by
  unfold Bits.sliceFast Bits.ofNatSz ofBV
  simp only [Nat.and_two_pow_sub_one_eq_mod, Nat.shiftRight_eq_div_pow, Nat.add_sub_cancel_left, BitVec.toNat_ofNat]
  rw [word_slice s h j hj]
  have hB := toInt_lt _ ((h.drop (8 * j)).take 8)
  have l2 : ((s.drop (8 * j)).take 8).length = 8 := by rw [List.length_take, List.length_drop]; omega
  rw [l2, show (256 : Nat) ^ 8 = 2 ^ 64 by decide] at hB
  rw [Nat.mod_eq_of_lt hB]

/-- `[B[i:i+64] for i in range(0,B.size,64)]` of a loaded byte string = BytesToWords -/
theorem words_eq (s : List Nat) (h : IsBytes s) :
    Threefish.words ⟨toInt s, 8 * s.length⟩ = (bytesToWords s).map ofBV := by
  unfold Threefish.words bytesToWords
  rw [List.map_map, show (8 * s.length) / 64 = s.length / 8 by omega]
  apply List.map_congr_left
  intro j hj
  have := List.mem_range.1 hj
  exact sliceFast_word s h j (by omega)

theorem toBytes8 (v : Nat) : toBytes 8 v =
    [v % 256, v / 256 % 256, v / 65536 % 256, v / 16777216 % 256, v / 4294967296 % 256,
     v / 1099511627776 % 256, v / 281474976710656 % 256, v / 72057594037927936 % 256] := by
  simp only [toBytes, List.cons.injEq, and_true, true_and]
  omega

/-- `pack(x)` of a 64-bit word = ToBytes(x,8) -/
theorem pack_ofBV (w : W) : (ofBV w).pack = toBytes 8 w.toNat := by
  rw [toBytes8]
  unfold Bits.pack ofBV Bits.sliceFast Bits.ofNatSz
  simp only [show (64 + 7) / 8 = 8 from rfl, show List.range 8 = [0, 1, 2, 3, 4, 5, 6, 7] by decide, List.map_cons, List.map_nil,
    Nat.and_two_pow_sub_one_eq_mod, Nat.shiftRight_eq_div_pow, Bool.false_eq_true, ite_false,
    show (255 : Nat) = 2 ^ 8 - 1 from rfl]
  simp only [Nat.reduceMul, Nat.reduceAdd, show min 8 64 = 8 from rfl, show min 16 64 = 16 from rfl, show min 24 64 = 24 from rfl,
    show min 32 64 = 32 from rfl, show min 40 64 = 40 from rfl, show min 48 64 = 48 from rfl, show min 56 64 = 56 from rfl,
    show min 64 64 = 64 from rfl, Nat.reduceSub, Nat.reducePow, List.cons.injEq, and_true]
  omega

theorem join_eq (ws : List W) : Threefish.join (ws.map ofBV) = wordsToBytes ws := by
  unfold Threefish.join wordsToBytes
  induction ws with
  | nil => rfl
  | cons w ws ih => simp only [List.map_cons, List.flatMap_cons, ih, pack_ofBV]


/-! ### round trips between byte strings and words (specification side) -/

theorem toBytes_length (n v : Nat) : (toBytes n v).length = n := by
  induction n generalizing v with
  | zero => rfl
  | succ n ih => simp [toBytes, ih]

theorem isBytes_toBytes (n v : Nat) : IsBytes (toBytes n v) := by
  induction n generalizing v with
  | zero => intro b hb; simp [toBytes] at hb
  | succ n ih =>
    intro b hb
    simp only [toBytes, List.mem_cons] at hb
    rcases hb with hb | hb
    · subst hb; exact Nat.mod_lt _ (by decide)
    · exact ih _ b hb

theorem wordsToBytes_length (ws : List W) : (wordsToBytes ws).length = 8 * ws.length := by
  induction ws with
  | nil => rfl
  | cons w ws ih => simp only [wordsToBytes, List.flatMap_cons, List.length_append, toBytes_length, List.length_cons] at ih ⊢; omega

theorem isBytes_wordsToBytes (ws : List W) : IsBytes (wordsToBytes ws) := by
  intro b hb
  simp only [wordsToBytes, List.mem_flatMap] at hb
  obtain ⟨w, _, hw⟩ := hb
  exact isBytes_toBytes _ _ b hw

theorem bytesToWords_append (a rest : List Nat) (ha : a.length = 8) :
    bytesToWords (a ++ rest) = BitVec.ofNat 64 (toInt a) :: bytesToWords rest := by
  unfold bytesToWords
  rw [List.length_append, ha, show (8 + rest.length) / 8 = rest.length / 8 + 1 by omega, List.range_succ_eq_map,
      List.map_cons, List.map_map]
  congr 1
  · simp [ha]
  · apply List.map_congr_left
    intro i _
    simp only [Function.comp, Nat.succ_eq_add_one]
    rw [show 8 * (i + 1) = a.length + 8 * i by omega, List.drop_append, List.drop_eq_nil_of_le (by omega),
        List.nil_append, Nat.add_sub_cancel_left]

theorem toInt_toBytes8 (v : Nat) : toInt (toBytes 8 v) = v % 2 ^ 64 := by
  rw [toBytes8]
  simp only [toInt]
  omega

theorem bytesToWords_wordsToBytes (ws : List W) : bytesToWords (wordsToBytes ws) = ws := by
  induction ws with
  | nil => rfl
  | cons w ws ih =>
    have : wordsToBytes (w :: ws) = toBytes 8 w.toNat ++ wordsToBytes ws := rfl
    rw [this, bytesToWords_append _ _ (toBytes_length _ _), ih, toInt_toBytes8]
    congr 1
    apply BitVec.eq_of_toNat_eq
    simp
    exact w.isLt

theorem toBytes8_toInt (a : List Nat) (h : IsBytes a) (ha : a.length = 8) : toBytes 8 (toInt a % 2 ^ 64) = a := by
  match a, ha with
  | [a0, a1, a2, a3, a4, a5, a6, a7], _ =>
    have h0 := h a0 (by simp); have h1 := h a1 (by simp); have h2 := h a2 (by simp); have h3 := h a3 (by simp)
    have h4 := h a4 (by simp); have h5 := h a5 (by simp); have h6 := h a6 (by simp); have h7 := h a7 (by simp)
    rw [toBytes8]
    simp only [toInt, List.cons.injEq, and_true]
    omega

theorem wordsToBytes_bytesToWords (n : Nat) (s : List Nat) (h : IsBytes s) (hl : s.length = 8 * n) :
    wordsToBytes (bytesToWords s) = s := by
  induction n generalizing s with
  | zero =>
    have : s = [] := List.eq_nil_of_length_eq_zero (by omega)
    subst this; rfl
  | succ n ih =>
    have e : s = s.take 8 ++ s.drop 8 := (List.take_append_drop 8 s).symm
    have l1 : (s.take 8).length = 8 := by rw [List.length_take]; omega
    have l2 : (s.drop 8).length = 8 * n := by rw [List.length_drop]; omega
    conv => lhs; rw [e]
    rw [bytesToWords_append _ _ l1]
    have : ∀ (x : W) (l : List W), wordsToBytes (x :: l) = toBytes 8 x.toNat ++ wordsToBytes l := fun _ _ => rfl
    rw [this, ih _ (h.drop 8) l2, BitVec.toNat_ofNat, toBytes8_toInt _ (h.take 8) l1, List.take_append_drop]

theorem bytesToWords_length (s : List Nat) : (bytesToWords s).length = s.length / 8 := by
  simp [bytesToWords]

end Proofs.Lemmas.TfBytes
