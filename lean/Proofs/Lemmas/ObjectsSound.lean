/-
  Proofs.Lemmas.ObjectsSound — `History.Sound` for every object machine of Model.Objects (helper lemmas for Proofs.C10).
-/
import Proofs.Lemmas.History
namespace Proofs.Lemmas.ObjectsSound
open Model Model.Objects Proofs.Lemmas.History

abbrev Any {α : Type} : α → Prop := fun _ => True

/-- havoc: nothing is assumed about scratch state -/
abbrev Havoc {α : Type} : α → Prop := fun _ => True

/-! ### hashes -/
theorem hash_cfg (s : HashO.State) (op : HashO.Op) : (HashO.step s op).1.cfg = s.cfg := by cases op <;> rfl

theorem hash_result (s s' : HashO.State) (M : List Nat) (bl : Option Nat) (hc : s.cfg = s'.cfg) :
    (HashO.step s (.call M bl)).2 = (HashO.step s' (.call M bl)).2 := by
  show bytesRes (s.cfg.call (HashO.obj s) M bl).2 = bytesRes (s'.cfg.call (HashO.obj s') M bl).2
  unfold HashCore.call; rw [hc]

theorem hash_sound : Sound HashO.machine Any Any Havoc where
  cfg_init _ := rfl
  cfg_preserved s op := hash_cfg s op
  adm_reconf _ _ _ := trivial
  inv_init _ _ := trivial
  inv_preserved _ _ _ _ := trivial
  result_depends_on_cfg s s' op hp _ _ _ _ hc := by
    cases op with
    | call M bl => exact hash_result s s' M bl hc
    | update M bl p => cases hp
    | initstate => cases hp

/-! ### Keccak -/
theorem keccak_cfg (s : KeccakO.State) (op : KeccakO.Op) : (KeccakO.next s op).cfg = KeccakO.reconf s.cfg op := by
  cases op <;> rfl

theorem keccak_next_eq_step (s : KeccakO.State) (op : KeccakO.Op) : KeccakO.next s op = (KeccakO.step s op).1 := by
  cases op <;> rfl

theorem keccak_result (s s' : KeccakO.State) (op : KeccakO.Op) (hp : KeccakO.isProbe op = true) (hc : s.cfg = s'.cfg) :
    (KeccakO.step s op).2 = (KeccakO.step s' op).2 := by
  cases op with
  | call M bl r =>
    show bytesRes (KeccakO.callR s.cfg M bl r) = bytesRes (KeccakO.callR s'.cfg M bl r)
    rw [hc]
  | sha3call M =>
    show bytesRes (KeccakO.sha3call s.cfg M) = bytesRes (KeccakO.sha3call s'.cfg M)
    rw [hc]
  | duplex m bl ol => cases hp
  | setrate r => cases hp

theorem keccak_sound : Sound KeccakO.machine Any Any Havoc where
  cfg_init _ := rfl
  cfg_preserved s op := keccak_cfg s op
  adm_reconf _ _ _ := trivial
  inv_init _ _ := trivial
  inv_preserved _ _ _ _ := trivial
  result_depends_on_cfg s s' op hp _ _ _ _ hc := keccak_result s s' op hp hc

/-! ### MD6 -/
theorem md6_result (s s' : Md6O.State) (op : Md6O.Op) (hc : s.cfg = s'.cfg) : (Md6O.step s op).2 = (Md6O.step s' op).2 := by
  cases op with
  | call M bl =>
    show bytesRes (Md6.call s.cfg M bl) = bytesRes (Md6.call s'.cfg M bl)
    rw [hc]

theorem md6_sound : Sound Md6O.machine Any Any Havoc where
  cfg_init _ := rfl
  cfg_preserved _ _ := rfl
  adm_reconf _ _ _ := trivial
  inv_init _ _ := trivial
  inv_preserved _ _ _ _ := trivial
  result_depends_on_cfg s s' op _ _ _ _ _ hc := md6_result s s' op hc

/-! ### Blake -/
theorem blake_doInit_eq (s s' : BlakeO.State) (salt : Nat) (hc : s.cfg = s'.cfg) : BlakeO.doInit s salt = BlakeO.doInit s' salt := by
  cases s; cases s'; simp only at hc; subst hc; rfl

theorem blake_doUpdate_cfg (s : BlakeO.State) (M : List Nat) (bl : Option Nat) (p : Bool) : (BlakeO.doUpdate s M bl p).1.cfg = s.cfg := by
  unfold BlakeO.doUpdate; split <;> rfl

theorem blake_cfg (s : BlakeO.State) (op : BlakeO.Op) : (BlakeO.step s op).1.cfg = s.cfg := by
  cases op with
  | call M salt bl => exact blake_doUpdate_cfg _ _ _ _
  | update M bl p => exact blake_doUpdate_cfg _ _ _ _
  | initstate salt => rfl

theorem blake_result (s s' : BlakeO.State) (op : BlakeO.Op) (hp : BlakeO.isProbe op = true) (hc : s.cfg = s'.cfg) :
    (BlakeO.step s op).2 = (BlakeO.step s' op).2 := by
  cases op with
  | call M salt bl =>
    show (BlakeO.doUpdate (BlakeO.doInit s salt) M bl true).2 = (BlakeO.doUpdate (BlakeO.doInit s' salt) M bl true).2
    rw [blake_doInit_eq s s' salt hc]
  | update M bl p => cases hp
  | initstate salt => cases hp

theorem blake_sound : Sound BlakeO.machine Any Any Havoc where
  cfg_init _ := rfl
  cfg_preserved s op := blake_cfg s op
  adm_reconf _ _ _ := trivial
  inv_init _ _ := trivial
  inv_preserved _ _ _ _ := trivial
  result_depends_on_cfg s s' op hp _ _ _ _ hc := blake_result s s' op hp hc


/-! ### Blake2 -/
/-- the part of the object `update` reads for its result: everything `initstate` re-derives (not `t`, `f`, nor the tree fields) -/
theorem blake2_doInit_flag (s s' : Blake2O.State) (p : Blake2.Params) (k : Nat) (hc : s.cfg = s'.cfg) :
    (Blake2O.doInit s p k).2 = (Blake2O.doInit s' p k).2 := by
  unfold Blake2O.doInit; simp only [hc]
  split
  · rfl
  · split <;> rfl

theorem blake2_doInit_read (s s' : Blake2O.State) (p : Blake2.Params) (k : Nat) (hc : s.cfg = s'.cfg) :
    (Blake2O.doInit s p k).1.cfg = (Blake2O.doInit s' p k).1.cfg ∧ (Blake2O.doInit s p k).1.H = (Blake2O.doInit s' p k).1.H ∧
    (Blake2O.doInit s p k).1.padmethod = (Blake2O.doInit s' p k).1.padmethod ∧
    (Blake2O.doInit s p k).1.outlen = (Blake2O.doInit s' p k).1.outlen := by
  unfold Blake2O.doInit; simp only [hc]
  split
  · exact ⟨rfl, rfl, rfl, rfl⟩
  · split <;> exact ⟨rfl, rfl, rfl, rfl⟩

theorem blake2_update_result (c : Blake.Cfg) (H : List Bits) (pd : PadState) (ol t t' : Nat) (M : List Nat) (padding : Bool) :
    (Blake2.update c ⟨H, pd, ol, t⟩ M padding).2 = (Blake2.update c ⟨H, pd, ol, t'⟩ M padding).2 := by
  unfold Blake2.update; simp only
  split <;> rfl

theorem blake2_doUpdate_result (s s' : Blake2O.State) (M : List Nat) (padding : Bool) (h1 : s.cfg = s'.cfg) (h2 : s.H = s'.H)
    (h3 : s.padmethod = s'.padmethod) (h4 : s.outlen = s'.outlen) :
    (Blake2O.doUpdate s M padding).2 = (Blake2O.doUpdate s' M padding).2 := by
  unfold Blake2O.doUpdate
  rw [← h3]
  cases s.padmethod with
  | none => rfl
  | some pd =>
    simp only
    rw [h1, h2, h4, blake2_update_result s'.cfg s'.H pd s'.outlen s.t s'.t]

theorem blake2_doUpdate_cfg (s : Blake2O.State) (M : List Nat) (p : Bool) : (Blake2O.doUpdate s M p).1.cfg = s.cfg := by
  unfold Blake2O.doUpdate; split <;> rfl

theorem blake2_doInit_cfg (s : Blake2O.State) (p : Blake2.Params) (k : Nat) : (Blake2O.doInit s p k).1.cfg = s.cfg := by
  unfold Blake2O.doInit; simp only
  split
  · rfl
  · split <;> rfl

theorem blake2_cfg (s : Blake2O.State) (op : Blake2O.Op) : (Blake2O.step s op).1.cfg = s.cfg := by
  cases op with
  | call M p k =>
    unfold Blake2O.step; simp only
    split
    · exact blake2_doInit_cfg s p k
    · rw [blake2_doUpdate_cfg]; exact blake2_doInit_cfg s p k
  | update M p => exact blake2_doUpdate_cfg _ _ _
  | initstate p k =>
    unfold Blake2O.step; simp only
    split <;> exact blake2_doInit_cfg s p k

theorem blake2_result (s s' : Blake2O.State) (op : Blake2O.Op) (hp : Blake2O.isProbe op = true) (hc : s.cfg = s'.cfg) :
    (Blake2O.step s op).2 = (Blake2O.step s' op).2 := by
  cases op with
  | call M p k =>
    unfold Blake2O.step; simp only
    rw [blake2_doInit_flag s s' p k hc]
    cases (Blake2O.doInit s' p k).2 with
    | some e => rfl
    | none =>
      simp only
      obtain ⟨h1, h2, h3, h4⟩ := blake2_doInit_read s s' p k hc
      exact blake2_doUpdate_result _ _ M true h1 h2 h3 h4
  | update M p => cases hp
  | initstate p k => cases hp

theorem blake2_sound : Sound Blake2O.machine Any Any Havoc where
  cfg_init _ := rfl
  cfg_preserved s op := blake2_cfg s op
  adm_reconf _ _ _ := trivial
  inv_init _ _ := trivial
  inv_preserved _ _ _ _ := trivial
  result_depends_on_cfg s s' op hp _ _ _ _ hc := blake2_result s s' op hp hc

/-! ### HMAC -/
theorem hmacCall_result (core : HashCore) (bs : Nat) (K : Option (List Nat)) (h h' : HashObj) (m : List Nat) :
    (HmacO.hmacCall core bs K h m).2 = (HmacO.hmacCall core bs K h' m).2 := by
  unfold HmacO.hmacCall HashCore.call
  cases K with
  | none => rfl
  | some a =>
    simp only
    split
    · rfl
    · split <;> rfl

theorem hmac_cfg (s : HmacO.State) (op : HmacO.Op) : (HmacO.step s op).1.cfg = HmacO.reconf s.cfg op := by
  cases op with
  | setkey k => cases k <;> rfl
  | call m => rfl
  | hcall M bl => rfl
  | hupdate M bl p => rfl
  | sibcall K' m => rfl

theorem hmac_result (s s' : HmacO.State) (op : HmacO.Op) (hp : HmacO.isProbe op = true) (hc : s.cfg = s'.cfg) :
    (HmacO.step s op).2 = (HmacO.step s' op).2 := by
  cases op with
  | call m =>
    show (HmacO.hmacCall s.cfg.core s.cfg.blocksize s.cfg.K s.h m).2 = (HmacO.hmacCall s'.cfg.core s'.cfg.blocksize s'.cfg.K s'.h m).2
    rw [hc]; exact hmacCall_result _ _ _ _ _ _
  | setkey k => cases hp
  | hcall M bl => cases hp
  | hupdate M bl p => cases hp
  | sibcall K' m => cases hp

theorem hmac_sound : Sound HmacO.machine Any Any Havoc where
  cfg_init _ := rfl
  cfg_preserved s op := hmac_cfg s op
  adm_reconf _ _ _ := trivial
  inv_init _ _ := trivial
  inv_preserved _ _ _ _ := trivial
  result_depends_on_cfg s s' op hp _ _ _ _ hc := hmac_result s s' op hp hc

/-! ### TLSH -/
theorem tlsh_reset_eq (s s' : TlshO.State) (hc : s.cfg = s'.cfg) : TlshO.reset s = TlshO.reset s' := by
  cases s; cases s'; simp only at hc; subst hc; rfl

theorem tlsh_reset_cfg (s : TlshO.State) : (TlshO.reset s).cfg = s.cfg := rfl
theorem tlsh_update_cfg (s : TlshO.State) (d : List Nat) : (TlshO.update s d).cfg = s.cfg := by
  unfold TlshO.update; simp only; split <;> rfl
theorem tlsh_digest_cfg (s : TlshO.State) : (TlshO.digest s).cfg = s.cfg := by
  unfold TlshO.digest; split <;> rfl

theorem tlsh_finish_cfg (lcap : Nat → Nat) (s : TlshO.State) (f : Bool) : (TlshO.finish lcap s f).1.cfg = s.cfg := by
  unfold TlshO.finish
  repeat (first | rfl | split)

theorem tlsh_final_cfg (lcap : Nat → Nat) (s : TlshO.State) (d : List Nat) (f : Bool) : (TlshO.final lcap s d f).1.cfg = s.cfg := by
  unfold TlshO.final
  split
  · rfl
  · rw [tlsh_finish_cfg]
    split
    · rfl
    · exact tlsh_update_cfg s d

theorem tlsh_fromHash_cfg (s : TlshO.State) (d : List Nat) : (TlshO.fromHash s d).1.cfg = s.cfg := by
  unfold TlshO.fromHash; simp only
  split
  · rfl
  · rfl
  · split <;> (rw [tlsh_digest_cfg]; rfl)

theorem tlsh_cfg (lcap : Nat → Nat) (s : TlshO.State) (op : TlshO.Op) : (TlshO.step lcap s op).1.cfg = s.cfg := by
  cases op with
  | call d f =>
    unfold TlshO.step; simp only
    split
    · rw [tlsh_digest_cfg, tlsh_final_cfg]; rfl
    · rw [tlsh_final_cfg]; rfl
  | update d => exact tlsh_update_cfg s d
  | final d f => exact tlsh_final_cfg lcap s d f
  | digest => exact tlsh_digest_cfg s
  | from_hash d => exact tlsh_fromHash_cfg s d
  | reset => rfl

theorem tlsh_result (lcap : Nat → Nat) (s s' : TlshO.State) (op : TlshO.Op) (hp : TlshO.isProbe op = true) (hc : s.cfg = s'.cfg) :
    (TlshO.step lcap s op).2 = (TlshO.step lcap s' op).2 := by
  cases op with
  | call d f => unfold TlshO.step; simp only; rw [tlsh_reset_eq s s' hc]
  | update d => cases hp
  | final d f => cases hp
  | digest => cases hp
  | from_hash d => cases hp
  | reset => cases hp

theorem tlsh_sound (lcap : Nat → Nat) : Sound (TlshO.machine lcap) Any Any Havoc where
  cfg_init _ := rfl
  cfg_preserved s op := tlsh_cfg lcap s op
  adm_reconf _ _ _ := trivial
  inv_init _ _ := trivial
  inv_preserved _ _ _ _ := trivial
  result_depends_on_cfg s s' op hp _ _ _ _ hc := tlsh_result lcap s s' op hp hc

/-! ### Nilsimsa -/
theorem nilsimsa_cfg (s : NilsimsaO.State) (op : NilsimsaO.Op) : (NilsimsaO.step s op).1.cfg = s.cfg := by cases op <;> rfl

theorem nilsimsa_result (s s' : NilsimsaO.State) (op : NilsimsaO.Op) (hp : NilsimsaO.isProbe op = true) (hc : s.cfg = s'.cfg) :
    (NilsimsaO.step s op).2 = (NilsimsaO.step s' op).2 := by
  cases op with
  | call d => show Except.ok (Val.bytes (Nilsimsa.digest (Nilsimsa.update s.cfg _ d))) = Except.ok (Val.bytes (Nilsimsa.digest (Nilsimsa.update s'.cfg _ d))); rw [hc]
  | update d => cases hp
  | digest => cases hp
  | reset => cases hp

theorem nilsimsa_sound : Sound NilsimsaO.machine Any Any Havoc where
  cfg_init _ := rfl
  cfg_preserved s op := nilsimsa_cfg s op
  adm_reconf _ _ _ := trivial
  inv_init _ _ := trivial
  inv_preserved _ _ _ _ := trivial
  result_depends_on_cfg s s' op hp _ _ _ _ hc := nilsimsa_result s s' op hp hc

/-! ### DES / TDEA / Serpent -/
theorem pure_result (s s' : PureCipher.State) (op : PureCipher.Op) (hc : s.cfg = s'.cfg) :
    (PureCipher.step s op).2 = (PureCipher.step s' op).2 := by
  cases s; cases s'; simp only at hc; subst hc; rfl

theorem pure_sound : Sound PureCipher.machine Any Any Havoc where
  cfg_init _ := rfl
  cfg_preserved _ _ := rfl
  adm_reconf _ _ _ := trivial
  inv_init _ _ := trivial
  inv_preserved _ _ _ _ := trivial
  result_depends_on_cfg s s' op _ _ _ _ _ hc := pure_result s s' op hc


/-! ### AES: the cached key schedule is a memo — results depend on it only if it is incoherent -/
theorem aes_sched_of_coherent (s : AesO.State) (h : AesO.Coherent s) : AesO.sched s = Aes.keySchedule s.cfg := by
  unfold AesO.sched
  rcases h with h | h <;> rw [h] <;> rfl

theorem aes_next_eq_step (s : AesO.State) (op : AesO.Op) : AesO.next s op = (AesO.step s op).1 := by
  unfold AesO.next AesO.step
  cases op <;> (cases Aes.init s.cfg <;> simp only) <;> (try split) <;> rfl

theorem aes_cfg (s : AesO.State) (op : AesO.Op) : (AesO.next s op).cfg = s.cfg := by
  unfold AesO.next
  cases Aes.init s.cfg with
  | error e => rfl
  | ok kn => cases op <;> simp only <;> (try split) <;> rfl

theorem aes_inv (s : AesO.State) (op : AesO.Op) (h : AesO.Coherent s) : AesO.Coherent (AesO.next s op) := by
  have hs := aes_sched_of_coherent s h
  unfold AesO.next
  cases Aes.init s.cfg with
  | error e => exact h
  | ok kn =>
    cases op with
    | enc M => simp only; split; exact h; exact Or.inr (by simp only [hs])
    | dec C => simp only; split; exact h; exact Or.inr (by simp only [hs])
    | keyschedule => exact Or.inr (by simp only [hs])

theorem aes_result (s s' : AesO.State) (op : AesO.Op) (h : AesO.Coherent s) (h' : AesO.Coherent s') (hc : s.cfg = s'.cfg) :
    (AesO.step s op).2 = (AesO.step s' op).2 := by
  have e : AesO.sched s = AesO.sched s' := by rw [aes_sched_of_coherent s h, aes_sched_of_coherent s' h', hc]
  unfold AesO.step
  rw [hc, e]
  cases Aes.init s'.cfg with
  | error e => cases op <;> rfl
  | ok kn => cases op <;> simp only <;> (try split) <;> rfl

theorem aes_sound : Sound AesO.machine Any Any AesO.Coherent where
  cfg_init _ := rfl
  cfg_preserved s op := aes_cfg s op
  adm_reconf _ _ _ := trivial
  inv_init _ _ := Or.inl rfl
  inv_preserved s op _ h := aes_inv s op h
  result_depends_on_cfg s s' op _ _ _ h h' hc := aes_result s s' op h h' hc

/-! ### the modes -/
theorem remove_indep (p : Padder) (st st' : PadState) (c : List Nat) (h : p.scheme ≠ .null) : p.remove st c = p.remove st' c := by
  cases p with
  | mk scheme bs =>
    cases scheme <;> first | rfl | exact absurd rfl h

theorem mkPad_scheme (bc : BlockCipher) (s : Scheme) (p : Padder) (h : Mode.mkPad bc s = .ok p) : p.scheme = s := by
  unfold Mode.mkPad Padder.mk? at h
  split at h
  · cases h
  · split at h
    · cases h
    · cases h; rfl

theorem ecb_dec_indep (bc : BlockCipher) (s : Scheme) (C : List Nat) (st st' : PadState) (h : s ≠ .null) :
    Mode.ECB.dec bc s C st = Mode.ECB.dec bc s C st' := by
  unfold Mode.ECB.dec
  cases hp : Mode.mkPad bc s with
  | error e => rfl
  | ok p =>
    simp only
    split
    · rfl
    · split
      · rfl
      · exact remove_indep p st st' _ (by rw [mkPad_scheme bc s p hp]; exact h)

theorem cbc_dec_indep (bc : BlockCipher) (iv : List Nat) (s : Scheme) (C : List Nat) (st st' : PadState) (h : s ≠ .null) :
    Mode.CBC.dec bc iv s C st = Mode.CBC.dec bc iv s C st' := by
  unfold Mode.CBC.dec
  cases hp : Mode.mkPad bc s with
  | error e => rfl
  | ok p =>
    simp only
    split
    · rfl
    · split
      · rfl
      · split
        · rfl
        · exact remove_indep p st st' _ (by rw [mkPad_scheme bc s p hp]; exact h)

theorem decRes_indep (c : ModeO.Cfg) (bc : BlockCipher) (st st' : PadState) (C : List Nat) (h : c.scheme ≠ .null) :
    ModeO.decRes c bc st C = ModeO.decRes c bc st' C := by
  unfold ModeO.decRes
  cases c.kind with
  | ecb => exact ecb_dec_indep bc c.scheme C st st' h
  | cbc => exact cbc_dec_indep bc _ c.scheme C st st' h
  | ctr => rfl
  | cts_ecb => rfl
  | cts_cbc => rfl

theorem cipherOf_coherent (K : List Nat) : ModeO.cipherOf (.aes K) (some (Aes.keySchedule K)) = ModeO.cipherOf (.aes K) none := by
  have e : ∀ op, (AesO.step ⟨K, some (Aes.keySchedule K)⟩ op).2 = (AesO.step ⟨K, none⟩ op).2 :=
    fun op => aes_result ⟨K, some (Aes.keySchedule K)⟩ ⟨K, none⟩ op (Or.inr rfl) (Or.inl rfl) rfl
  unfold ModeO.cipherOf
  simp only [e]

theorem mode_cipherOf (s : ModeO.State) (h : ModeO.Coherent s) : ModeO.cipherOf s.cfg.cipher s._cipher = ModeO.cipherOf s.cfg.cipher none := by
  unfold ModeO.Coherent at h
  cases hc : s.cfg.cipher with
  | pure bc => rfl
  | aes K =>
    rw [hc] at h
    rcases h with h | h <;> rw [h]
    exact cipherOf_coherent K

theorem mode_next_eq_step (s : ModeO.State) (op : ModeO.Op) : ModeO.next s op = (ModeO.step s op).1 := by
  cases op <;> rfl

theorem mode_cfg (s : ModeO.State) (op : ModeO.Op) : (ModeO.next s op).cfg = s.cfg := by cases op <;> rfl

theorem touched_aes (K : List Nat) (w : Option (List (List Nat))) (h : w = none ∨ w = some (Aes.keySchedule K)) :
    ModeO.touched (.aes K) w = none ∨ ModeO.touched (.aes K) w = some (Aes.keySchedule K) := by
  cases hi : Aes.init K with
  | error e => simp only [ModeO.touched, hi]; exact h
  | ok kn => rcases h with h | h <;> (simp only [ModeO.touched, hi, h]; exact Or.inr rfl)

theorem mode_inv (s : ModeO.State) (op : ModeO.Op) (h : ModeO.Coherent s) : ModeO.Coherent (ModeO.next s op) := by
  have hcfg := mode_cfg s op
  have hci : (ModeO.next s op)._cipher = ModeO.touched s.cfg.cipher s._cipher := by cases op <;> rfl
  unfold ModeO.Coherent at h ⊢
  rw [hcfg, hci]
  cases hc : s.cfg.cipher with
  | pure bc => trivial
  | aes K => rw [hc] at h; exact touched_aes K _ h

theorem mode_result (s s' : ModeO.State) (op : ModeO.Op) (hp : ModeO.isProbe op = true) (ha : s.cfg.scheme ≠ .null)
    (h : ModeO.Coherent s) (h' : ModeO.Coherent s') (hc : s.cfg = s'.cfg) : (ModeO.step s op).2 = (ModeO.step s' op).2 := by
  have e : ModeO.cipherOf s.cfg.cipher s._cipher = ModeO.cipherOf s'.cfg.cipher s'._cipher := by
    rw [mode_cipherOf s h, mode_cipherOf s' h', hc]
  cases op with
  | enc M =>
    show bytesRes (ModeO.encRes s.cfg _ M) = bytesRes (ModeO.encRes s'.cfg _ M)
    rw [e, hc]
  | dec C =>
    show bytesRes (ModeO.decRes s.cfg _ s.pad C) = bytesRes (ModeO.decRes s'.cfg _ s'.pad C)
    rw [e, decRes_indep s.cfg _ s.pad s'.pad C ha, hc]
  | cenc b => cases hp
  | cdec b => cases hp
  | sibenc M => cases hp
  | sibdec C => cases hp

/-- admissible mode configurations: every padding class but `Nullpadding` (whose `remove` needs the pad count of the last `enc`) -/
def ModeAdm (c : ModeO.Cfg) : Prop := c.scheme ≠ .null

theorem mode_sound : Sound ModeO.machine ModeAdm Any ModeO.Coherent where
  cfg_init _ := rfl
  cfg_preserved s op := mode_cfg s op
  adm_reconf _ _ h := h
  inv_init c _ := by
    show ModeO.Coherent (ModeO.init c)
    unfold ModeO.Coherent ModeO.init
    cases c.cipher with
    | pure bc => trivial
    | aes K => exact Or.inl rfl
  inv_preserved s op _ h := mode_inv s op h
  result_depends_on_cfg s s' op hp _ ha h h' hc := mode_result s s' op hp ha h h' hc

/-! ### Skein -/
theorem skein_doUpdate_cfg (s : SkeinO.State) (M : List Nat) (bl : Option Nat) : (SkeinO.doUpdate s M bl).1.cfg = s.cfg := by
  unfold SkeinO.doUpdate; split
  · rfl
  · split <;> rfl

theorem skein_cfg (s : SkeinO.State) (op : SkeinO.Op) : (SkeinO.step s op).1.cfg = s.cfg := by
  cases op with
  | call M bl =>
    simp only [SkeinO.step]; split
    · rfl
    · split <;> rfl
  | update M => exact skein_doUpdate_cfg s M none
  | initstate => rfl

/-- `__call__` never reads the `G` an earlier call left behind: `_initstate()` assigns it first -/
theorem skein_result (s s' : SkeinO.State) (op : SkeinO.Op) (hp : SkeinO.isProbe op = true) (hc : s.cfg = s'.cfg) :
    (SkeinO.step s op).2 = (SkeinO.step s' op).2 := by
  cases op with
  | call M bl =>
    simp only [SkeinO.step]; rw [hc]
  | update M => cases hp
  | initstate => cases hp

theorem skein_sound : Sound SkeinO.machine Any Any Havoc where
  cfg_init _ := rfl
  cfg_preserved s op := skein_cfg s op
  adm_reconf _ _ _ := trivial
  inv_init _ _ := trivial
  inv_preserved _ _ _ _ := trivial
  result_depends_on_cfg s s' op hp _ _ _ _ hc := skein_result s s' op hp hc

/-- (G assigned so far, pending exception) read as the result of the method so far -/
def stagesRes (a : List Nat × Option Err) : Except Err (List Nat) :=
  match a.2 with
  | none => .ok a.1
  | some e => .error e

theorem stagesRes_runStage (a : List Nat × Option Err) (go : Bool) (M : List Nat) (ty : String) :
    stagesRes (SkeinO.runStage a go M ty) = (stagesRes a >>= fun G => if go then Skein.stage G M ty else pure G) := by
  obtain ⟨G, e⟩ := a
  cases e with
  | some e => rfl
  | none =>
    cases go with
    | false => rfl
    | true =>
      simp only [SkeinO.runStage, stagesRes, if_true, bind, Except.bind]
      cases Skein.stage G M ty <;> rfl

/-- the stage-by-stage `_initstate` of the object machine returns what the functional model `Skein.initstate` returns -/
theorem skein_doInit_eq (c : Skein.Cfg) : stagesRes (SkeinO.doInit c) = Skein.initstate c := by
  have ok_bind : ∀ (x : List Nat) (f : List Nat → Except Err (List Nat)), (Except.ok x >>= f) = f x := fun _ _ => rfl
  unfold SkeinO.doInit Skein.initstate Skein.optStage
  simp only [stagesRes_runStage, if_true, bind_assoc]
  simp only [stagesRes, ok_bind]

/-- on a new object `__call__` is the functional model `Skein.call` (the model of properties C12/C13) -/
theorem skein_call_eq (s : SkeinO.State) (M : List Nat) (bl : Option Nat) :
    (SkeinO.step s (.call M bl)).2 = bytesRes (Skein.call s.cfg M bl) := by
  have h := skein_doInit_eq s.cfg
  unfold Skein.call
  rw [← h]
  simp only [SkeinO.step, stagesRes]
  split
  · rename_i e he; simp only [he]; rfl
  · rename_i he
    simp only [he, bind, Except.bind]
    cases Skein.updateMsg s.cfg (SkeinO.doInit s.cfg).1 M bl <;> rfl

/-! ### Threefish -/
theorem threefish_result (s s' : ThreefishO.State) (op : ThreefishO.Op) (hc : s.cfg = s'.cfg) :
    (ThreefishO.step s op).2 = (ThreefishO.step s' op).2 := by
  cases s; cases s'; simp only at hc; subst hc; rfl

theorem threefish_sound : Sound ThreefishO.machine Any Any Havoc where
  cfg_init _ := rfl
  cfg_preserved _ _ := rfl
  adm_reconf _ _ _ := trivial
  inv_init _ _ := trivial
  inv_preserved _ _ _ _ := trivial
  result_depends_on_cfg s s' op _ _ _ _ _ hc := threefish_result s s' op hc

end Proofs.Lemmas.ObjectsSound
