/-
  Lemmas for C04 / FIPS 202, part 3: pad10*1, SPONGE (Algorithm 8), the conversion functions h2b / b2h of
  Appendix B.1 of Spec.Fips202 versus their counterparts in Spec.Keccak; the evaluator of Spec.Fips202Eval.
-/
import Spec.Fips202Eval
import Proofs.Lemmas.Fips202Perm
namespace Proofs.Lemmas.Fips202Sponge
open Spec.Fips202 Proofs.Lemmas.KeccakSponge Proofs.Lemmas.KeccakPad Proofs.Lemmas.Fips202Step
open Proofs.Lemmas.Fips202Perm

/-! ### pad10*1 -/

/-- Algorithm 9 with j = (−m−2) mod x on the integers = the padding of Spec.Keccak -/
theorem pad_agree (x m : Nat) (hx : 0 < x) : pad10s1 x m = Spec.Keccak.pad101 x m := by
  have e : (-(m : Int) - 2) = -(((m + 2 : Nat)) : Int) := by omega
  simp only [pad10s1, Spec.Keccak.pad101, e, mod_neg _ _ hx, zeros]
  rfl

/-- the padded message is a whole number of r-bit blocks -/
theorem padded_length (r m : Nat) (hr : 0 < r) :
    ∃ k, m + (Spec.Keccak.pad101 r m).length = r * k := by
  have hq : (m + 2) % r < r := Nat.mod_lt _ hr
  have hdm := Nat.div_add_mod (m + 2) r
  simp only [Spec.Keccak.pad101, List.length_cons, List.length_append, List.length_replicate, List.length_nil]
  by_cases h0 : (m + 2) % r = 0
  · refine ⟨(m + 2) / r, ?_⟩
    rw [h0, Nat.sub_zero, Nat.mod_self]; omega
  · refine ⟨(m + 2) / r + 1, ?_⟩
    rw [Nat.mod_eq_of_lt (by omega : r - (m + 2) % r < r), Nat.mul_add, Nat.mul_one]; omega

theorem nblk_mul (r k : Nat) (hr : 0 < r) : nblk r (r * k) = k := by
  simp only [nblk]
  have : r * k + r - 1 = r * k + (r - 1) := by omega
  rw [this, Nat.mul_add_div hr, Nat.div_eq_of_lt (by omega)]; rfl

/-! ### SPONGE -/

theorem squeeze_agree (f : Str → Str) (b r d : Nat) (hr : 0 < r) (hrb : r ≤ b) (hf : ∀ S, (f S).length = b) :
    ∀ (fuel : Nat) (S Z : Str), S.length = b → d ≤ Z.length + fuel * r →
      squeeze f r d fuel S Z = (Z ++ Spec.Keccak.squeezeBlocks f r (nblk r (d - Z.length)) S).take d := by
  intro fuel
  induction fuel with
  | zero =>
    intro S Z _ hd
    have h0 : d - Z.length = 0 := by omega
    simp only [squeeze, Trunc, h0, nblk_zero r hr, Spec.Keccak.squeezeBlocks, List.append_nil]
  | succ fuel ih =>
    intro S Z hS hd
    have hlen : (Z ++ Trunc r S).length = Z.length + r := by
      simp only [Trunc, List.length_append, List.length_take, hS]; omega
    simp only [squeeze]
    by_cases h1 : d ≤ (Z ++ Trunc r S).length
    · rw [if_pos h1]
      by_cases h2 : d ≤ Z.length
      · have h0 : d - Z.length = 0 := by omega
        simp only [Trunc, h0, nblk_zero r hr, Spec.Keccak.squeezeBlocks, List.append_nil,
          List.take_append_of_le_length h2]
      · have hm : 0 < d - Z.length := by omega
        have hz : d - Z.length - r = 0 := by omega
        rw [nblk_step r _ hr hm, hz, nblk_zero r hr, sq_succ]
        simp only [Spec.Keccak.squeezeBlocks, List.append_nil, Trunc]
    · rw [if_neg h1]
      have hd' : d ≤ (Z ++ Trunc r S).length + fuel * r := by
        rw [hlen]; rw [Nat.succ_mul] at hd; omega
      rw [ih (f S) _ (hf S) hd', hlen]
      have hm : 0 < d - Z.length := by omega
      have e : d - (Z.length + r) = d - Z.length - r := by omega
      rw [nblk_step r (d - Z.length) hr hm, sq_succ, e, Trunc, List.append_assoc]

/-- **Algorithm 8 as transcribed = the sponge of Spec.Keccak**, for every function f on strings of length b, every
    rate 0 < r ≤ b, every message and every output length -/
theorem SPONGE_agree (b r : Nat) (hr : 0 < r) (hrb : r ≤ b) (f : Str → Str) (hf : ∀ S, (f S).length = b)
    (N : Str) (d : Nat) : SPONGE b f pad10s1 r N d = Spec.Keccak.sponge f b r N d := by
  obtain ⟨k, hk⟩ := padded_length r N.length hr
  have hP : (N ++ Spec.Keccak.pad101 r N.length).length = r * k := by rw [List.length_append]; exact hk
  simp only [SPONGE, Spec.Keccak.sponge, pad_agree r _ hr]
  rw [chunksOf_eq r hr, hP, nblk_mul r k hr, Nat.mul_div_cancel_left k hr, List.foldl_map]
  have hS : ∀ (l : List Nat) (S : Str), S.length = b →
      (l.foldl (fun S i => f (xorStr S (Trunc r (List.drop (r * i) (N ++ Spec.Keccak.pad101 r N.length)) ++
        zeros (b - r)))) S).length = b := by
    intro l
    induction l with
    | nil => intro S h; exact h
    | cons a l ih => intro S _; rw [List.foldl_cons]; exact ih _ (hf _)
  rw [squeeze_agree f b r d hr hrb hf (d + 1) _ [] (hS _ _ (by simp [zeros]))
    (by simp only [List.length_nil, Nat.zero_add]
        exact Nat.le_trans (Nat.le_succ d) (Nat.le_mul_of_pos_right _ hr))]
  rfl

/-! ### Appendix B.1 -/

theorem bytesOfHex_pairs (g : Nat → Nat) : ∀ l : List Nat,
    bytesOfHex (l.flatMap fun i => [g i / 16, g i % 16]) = l.map g := by
  intro l
  induction l with
  | nil => rfl
  | cons a l ih =>
    simp only [List.flatMap_cons, List.cons_append, List.nil_append, bytesOfHex, List.map_cons, ih]
    congr 1
    have := Nat.div_add_mod (g a) 16
    omega

theorem bits8 (b0 b1 b2 b3 b4 b5 b6 b7 : Bool) (t : Nat) :
    bit [b0, b1, b2, b3, b4, b5, b6, b7] t =
      (decide (t < 8) && bit [b0, b1, b2, b3, b4, b5, b6, b7] t) := by
  by_cases h : t < 8
  · simp [h]
  · rw [bit_of_length_le (by simp; omega)]; simp

/-- b2h (Algorithm 11), read as bytes, is the byte string of Spec.Keccak.bytesOfBits -/
theorem b2h_agree (Z : Str) : bytesOfHex (b2h Z) = Spec.Keccak.bytesOfBits Z := by
  simp only [b2h, Spec.Keccak.bytesOfBits, bytesOfHex_pairs, chunksOf_eq 8 (by decide), List.map_map]
  have hm : (Z.length + 7) / 8 = nblk 8 Z.length := rfl
  rw [hm]
  apply List.map_congr_left
  intro i _
  simp only [Function.comp]
  have hT : ∀ j, (Z ++ zeros (mod (-(Z.length : Int)) 8)).getD j false = bit Z j := by
    intro j
    show bit (Z ++ zeros (mod (-(Z.length : Int)) 8)) j = bit Z j
    rw [bit_append]
    split
    · rfl
    · rw [zeros, bit_replicate_false, bit_of_length_le (by omega)]
  simp only [hT, Nat.add_zero]
  have e : Spec.Keccak.bitsToNat (List.take 8 (List.drop (8 * i) Z)) =
      Spec.Keccak.bitsToNat [bit Z (8 * i), bit Z (8 * i + 1), bit Z (8 * i + 2), bit Z (8 * i + 3),
        bit Z (8 * i + 4), bit Z (8 * i + 5), bit Z (8 * i + 6), bit Z (8 * i + 7)] := by
    apply Nat.eq_of_testBit_eq
    intro t
    rw [testBit_bitsToNat, testBit_bitsToNat, bit_take, bit_drop, bits8]
    by_cases h : t < 8
    · have : t = 0 ∨ t = 1 ∨ t = 2 ∨ t = 3 ∨ t = 4 ∨ t = 5 ∨ t = 6 ∨ t = 7 := by omega
      rcases this with rfl | rfl | rfl | rfl | rfl | rfl | rfl | rfl <;> simp [bit]
    · simp [h]
  rw [e]
  simp only [Spec.Keccak.bitsToNat]
  omega

theorem hexOfBytes_length (M : List Nat) : (hexOfBytes M).length = 2 * M.length := by
  induction M with
  | nil => rfl
  | cons b M ih => simp only [hexOfBytes, List.flatMap_cons, List.length_append, List.length_cons, List.length_nil] at ih ⊢; omega

theorem h2bT_agree : ∀ M : List Nat,
    ((List.range ((hexOfBytes M).length / 2)).flatMap fun i => (List.range 8).map fun j =>
        (16 * (hexOfBytes M).getD (2 * i) 0 + (hexOfBytes M).getD (2 * i + 1) 0).testBit j)
      = Spec.Keccak.bitsOfBytes M := by
  intro M
  induction M with
  | nil => rfl
  | cons b M ih =>
    have hl : (hexOfBytes (b :: M)).length / 2 = (hexOfBytes M).length / 2 + 1 := by
      rw [hexOfBytes_length, hexOfBytes_length, List.length_cons]; omega
    have hc : hexOfBytes (b :: M) = b / 16 :: b % 16 :: hexOfBytes M := rfl
    rw [hl, List.range_succ_eq_map (n := (hexOfBytes M).length / 2), List.flatMap_cons, List.flatMap_map]
    have hb : 16 * (b / 16) + b % 16 = b := Nat.div_add_mod b 16
    have h1 : ∀ i, (hexOfBytes (b :: M)).getD (2 * Nat.succ i) 0 = (hexOfBytes M).getD (2 * i) 0 := by
      intro i
      rw [hc, show 2 * Nat.succ i = (2 * i + 1) + 1 by omega, List.getD_cons_succ, List.getD_cons_succ]
    have h2 : ∀ i, (hexOfBytes (b :: M)).getD (2 * Nat.succ i + 1) 0 = (hexOfBytes M).getD (2 * i + 1) 0 := by
      intro i
      rw [hc, show 2 * Nat.succ i + 1 = (2 * i + 1 + 1) + 1 by omega, List.getD_cons_succ, List.getD_cons_succ]
    simp only [h1, h2, ih]
    simp only [hc, Nat.mul_zero, List.getD_cons_zero, Nat.zero_add, List.getD_cons_succ, hb,
      Spec.Keccak.bitsOfBytes, List.flatMap_cons]

/-- h2b (Algorithm 10) of the hexadecimal writing of a byte string = the first n bits of Spec.Keccak.bitsOfBytes -/
theorem h2b_agree (M : List Nat) (n : Nat) : h2b (hexOfBytes M) n = (Spec.Keccak.bitsOfBytes M).take n := by
  simp only [h2b, Trunc, h2bT_agree]

theorem h2b_full (M : List Nat) : h2b (hexOfBytes M) (8 * M.length) = Spec.Keccak.bitsOfBytes M := by
  rw [h2b_agree, List.take_of_length_le (by rw [bitsOfBytes_length]; exact Nat.le_refl _)]

/-! ### the evaluator -/

open Spec.Fips202.Eval

theorem natOfStr_eq (l : Str) : natOfStr l = Spec.Keccak.bitsToNat l := by
  induction l with
  | nil => rfl
  | cons b bs ih => simp only [natOfStr, Spec.Keccak.bitsToNat, ih]

/-- writing a state array down and reading it back gives its bits (on 0 ≤ x,y < 5, 0 ≤ z < w) -/
theorem unpack_pack {w : Nat} (A : StateArray) (x y z : Nat) (hx : x < 5) (hy : y < 5) (hz : z < w) :
    unpack w (pack w A) x y z = A x y z := by
  rw [← toStateArray_toStr A x y z hx hy hz]
  simp only [unpack, pack, natOfStr_eq, testBit_bitsToNat, bit, toStateArray]

theorem lanes_unpack_pack (w : Nat) (A : StateArray) : lanes w (unpack w (pack w A)) = lanes w A :=
  lanes_congr w _ _ fun x hx y hy z hz => unpack_pack A x y z hx hy hz

theorem roundsEval_agree {w : Nat} (hw : 0 < w) (c : Nat) : ∀ (ks : List Nat) (n : Nat),
    lanes w (unpack w (ks.foldl (fun (n : Nat) (k : Nat) => rndEval w n (((c + k : Nat)) : Int)) n))
      = ks.foldl (fun A i => Spec.Keccak.rnd A (c + i)) (lanes w (unpack w n)) := by
  intro ks
  induction ks with
  | nil => intro n; rfl
  | cons k ks ih =>
    intro n
    rw [List.foldl_cons, List.foldl_cons, ih, rndEval, lanes_unpack_pack, Rnd_agree hw]

/-- the evaluator computes Algorithm 7 (every lane size w ≥ 1, every nr ≤ 12 + 2ℓ, every string) -/
theorem KECCAK_p_eval_eq {w : Nat} (hw : 0 < w) (nr : Nat) (hnr : nr ≤ 12 + 2 * Nat.log2 w) (S : Str) :
    KECCAK_p_eval (25 * w) nr S = KECCAK_p (25 * w) nr S := by
  rw [KECCAK_p_agree hw nr hnr S]
  have hb : 25 * w / 25 = w := Nat.mul_div_cancel_left w (by decide)
  unfold KECCAK_p_eval Spec.Keccak.keccakP
  simp only [hb]
  rw [toStr_eq]
  apply congrArg
  have hfold : (List.range nr).foldl
        (fun (n : Nat) (k : Nat) => rndEval w n ((12 : Int) + 2 * (Nat.log2 w : Int) - (nr : Int) + (k : Int)))
        (pack w (toStateArray w S))
      = (List.range nr).foldl
        (fun (n : Nat) (k : Nat) => rndEval w n (((12 + 2 * Nat.log2 w - nr + k : Nat)) : Int))
        (pack w (toStateArray w S)) := by
    apply foldl_congr_mem
    intro n k hk
    have hk' : k < nr := List.mem_range.mp hk
    have e : ((12 : Int) + 2 * (Nat.log2 w : Int) - (nr : Int) + (k : Int))
        = ((12 + 2 * Nat.log2 w - nr + k : Nat) : Int) := by omega
    rw [e]
  rw [hfold, roundsEval_agree hw, lanes_unpack_pack, lanes_toStateArray]

end Proofs.Lemmas.Fips202Sponge
