/-
  The round chains of Model.Serpent refine Spec.Serpent (enc/dec end to end), and decState inverts encState.
-/
import Proofs.Lemmas.SerpentKS
namespace Proofs.Lemmas.SerpentEnc
open Model Model.Bits Proofs.Lemmas.SerpentBits Proofs.Lemmas.SerpentComp Proofs.Lemmas.SerpentSpec Proofs.Lemmas.SerpentKS Spec.Serpent

def WSL (ks : List State) : Prop := ∀ k ∈ ks, WS k

theorem rk_ws (ks : List State) (h : WSL ks) (i : Nat) : WS (rk ks i) := by
  unfold rk
  rw [List.getD_eq_getElem?_getD]
  by_cases hi : i < ks.length
  · rw [List.getElem?_eq_getElem hi]; exact h _ (List.getElem_mem hi)
  · rw [List.getElem?_eq_none (by omega)]
    exact ⟨Nat.two_pow_pos _, Nat.two_pow_pos _, Nat.two_pow_pos _, Nat.two_pow_pos _⟩

theorem key_eq (ks : List State) (i : Nat) (hi : i < ks.length) :
    Model.Serpent.key ⟨ks.map B⟩ i = .ok (B (rk ks i)) := by
  unfold Model.Serpent.key rk
  simp [List.getElem?_map, List.getElem?_eq_getElem hi, List.getD_eq_getElem?_getD]

theorem round_ws (ks : List State) (b : State) (i : Nat) : WS (round ks b i) := lt_ws _

theorem foldl_round_ws (ks : List State) (is : List Nat) (b : State) (hb : WS b) : WS (is.foldl (round ks) b) := by
  induction is generalizing b with
  | nil => exact hb
  | cons i is ih => exact ih _ (round_ws ks b i)

theorem encRounds_eq (ks : List State) (hks : WSL ks) (is : List Nat) (hi : ∀ i ∈ is, i < ks.length)
    (b : State) (hb : WS b) :
    Model.Serpent.encRounds ⟨ks.map B⟩ is (B b) = .ok (B (is.foldl (round ks) b)) := by
  induction is generalizing b with
  | nil => rfl
  | cons i is ih =>
    have hk := rk_ws ks hks i
    unfold Model.Serpent.encRounds
    rw [key_eq ks i (hi i List.mem_cons_self)]
    simp only [bind, Except.bind]
    rw [xor_B b _ hb hk, S_B _ _ (Nat.mod_lt _ (by decide)) (xor_ws _ _ hb hk)]
    simp only []
    rw [L_B _ (applyBox_ws _ _)]
    simp only []
    rw [List.foldl_cons]
    exact ih (fun j hj => hi j (List.mem_cons_of_mem _ hj)) _ (round_ws ks b i)

theorem encBits_eq (ks : List State) (hks : WSL ks) (hlen : ks.length = 33) (p : State) (hp : WS p) :
    Model.Serpent.encBits ⟨ks.map B⟩ (B p) = .ok (B (encState ks p)) := by
  unfold Model.Serpent.encBits
  rw [chk_ok _ (B_size p)]
  simp only [bind, Except.bind]
  rw [encRounds_eq ks hks _ (by intro i hi; rw [List.mem_range] at hi; omega) p hp]
  simp only []
  rw [key_eq ks 31 (by omega), key_eq ks 32 (by omega)]
  simp only []
  have hb := foldl_round_ws ks (List.range 31) p hp
  rw [xor_B _ _ hb (rk_ws ks hks 31), S_B _ _ (by decide) (xor_ws _ _ hb (rk_ws ks hks 31))]
  simp only [pure, Except.pure]
  rw [xor_B _ _ (applyBox_ws _ _) (rk_ws ks hks 32)]
  rfl

theorem roundInv_ws (ks : List State) (hks : WSL ks) (b : State) (i : Nat) : WS (roundInv ks b i) :=
  xor_ws _ _ (applyBox_ws _ _) (rk_ws ks hks i)

theorem foldl_roundInv_ws (ks : List State) (hks : WSL ks) (is : List Nat) (b : State) (hb : WS b) :
    WS (is.foldl (roundInv ks) b) := by
  induction is generalizing b with
  | nil => exact hb
  | cons i is ih => exact ih _ (roundInv_ws ks hks b i)

theorem decRounds_eq (ks : List State) (hks : WSL ks) (is : List Nat) (hi : ∀ i ∈ is, i < ks.length)
    (b : State) (hb : WS b) :
    Model.Serpent.decRounds ⟨ks.map B⟩ is (B b) = .ok (B (is.foldl (roundInv ks) b)) := by
  induction is generalizing b with
  | nil => rfl
  | cons i is ih =>
    have hk := rk_ws ks hks i
    unfold Model.Serpent.decRounds
    rw [key_eq ks i (hi i List.mem_cons_self)]
    simp only [bind, Except.bind]
    rw [Linv_B _ hb]
    simp only []
    rw [Sinv_B _ _ (Nat.mod_lt _ (by decide)) (ltInv_ws _ hb)]
    simp only []
    rw [xor_B _ _ (applyBox_ws _ _) hk, List.foldl_cons]
    exact ih (fun j hj => hi j (List.mem_cons_of_mem _ hj)) _ (roundInv_ws ks hks b i)

theorem decBits_eq (ks : List State) (hks : WSL ks) (hlen : ks.length = 33) (c : State) (hc : WS c) :
    Model.Serpent.decBits ⟨ks.map B⟩ (B c) = .ok (B (decState ks c)) := by
  unfold Model.Serpent.decBits
  rw [chk_ok _ (B_size c)]
  simp only [bind, Except.bind]
  rw [key_eq ks 31 (by omega), key_eq ks 32 (by omega)]
  simp only []
  rw [xor_B _ _ hc (rk_ws ks hks 32), Sinv_B _ _ (by decide) (xor_ws _ _ hc (rk_ws ks hks 32))]
  simp only []
  rw [xor_B _ _ (applyBox_ws _ _) (rk_ws ks hks 31)]
  exact decRounds_eq ks hks _ (by intro i hi; simp [Model.Serpent.decRoundList] at hi; omega) _
    (xor_ws _ _ (applyBox_ws _ _) (rk_ws ks hks 31))

/-! Spec level: decState inverts encState -/
theorem state_xor_cancel (a k : State) : (a.xor k).xor k = a := by
  cases a; cases k
  simp [State.xor, Nat.xor_assoc]

theorem roundInv_round (ks : List State) (hks : WSL ks) (b : State) (hb : WS b) (i : Nat) :
    roundInv ks (round ks b i) i = b := by
  unfold roundInv round
  rw [ltInv_lt _ (applyBox_ws _ _), applyBox_sboxInv_sbox _ (Nat.mod_lt _ (by decide)) _ (xor_ws _ _ hb (rk_ws ks hks i)),
    state_xor_cancel]

theorem round_roundInv (ks : List State) (hks : WSL ks) (b : State) (hb : WS b) (i : Nat) :
    round ks (roundInv ks b i) i = b := by
  unfold roundInv round
  rw [state_xor_cancel, applyBox_sbox_sboxInv _ (Nat.mod_lt _ (by decide)) _ (ltInv_ws _ hb), lt_ltInv _ hb]

theorem foldl_inv (f g : State → Nat → State) (hf : ∀ b i, WS b → WS (f b i))
    (hgf : ∀ b i, WS b → g (f b i) i = b) (is : List Nat) (p : State) (hp : WS p) :
    is.reverse.foldl g (is.foldl f p) = p := by
  induction is generalizing p with
  | nil => rfl
  | cons i is ih =>
    rw [List.foldl_cons, List.reverse_cons, List.foldl_append, ih _ (hf p i hp)]
    exact hgf p i hp

theorem decState_encState (ks : List State) (hks : WSL ks) (p : State) (hp : WS p) :
    decState ks (encState ks p) = p := by
  unfold decState encState
  simp only []
  have hb := foldl_round_ws ks (List.range 31) p hp
  rw [state_xor_cancel, applyBox_sboxInv_sbox 7 (by decide) _ (xor_ws _ _ hb (rk_ws ks hks 31)), state_xor_cancel]
  exact foldl_inv (round ks) (roundInv ks) (fun b i _ => round_ws ks b i) (fun b i hb => roundInv_round ks hks b hb i) _ p hp

theorem encState_decState (ks : List State) (hks : WSL ks) (c : State) (hc : WS c) :
    encState ks (decState ks c) = c := by
  unfold decState encState
  simp only []
  have h0 : WS ((applyBox (sboxInv 7) (c.xor (rk ks 32))).xor (rk ks 31)) :=
    xor_ws _ _ (applyBox_ws _ _) (rk_ws ks hks 31)
  have := foldl_inv (roundInv ks) (round ks) (fun b i _ => roundInv_ws ks hks b i)
    (fun b i hb => round_roundInv ks hks b hb i) (List.range 31).reverse _ h0
  rw [List.reverse_reverse] at this
  rw [this, state_xor_cancel, applyBox_sbox_sboxInv 7 (by decide) _ (xor_ws _ _ hc (rk_ws ks hks 32)), state_xor_cancel]

theorem encState_ws (ks : List State) (hks : WSL ks) (p : State) : WS (encState ks p) :=
  xor_ws _ _ (applyBox_ws _ _) (rk_ws ks hks 32)

theorem decState_ws (ks : List State) (hks : WSL ks) (c : State) : WS (decState ks c) :=
  foldl_roundInv_ws ks hks _ _ (xor_ws _ _ (applyBox_ws _ _) (rk_ws ks hks 31))

theorem roundKeys_ws (klen K : Nat) : WSL (roundKeys klen K) := by
  intro k hk
  simp only [roundKeys, List.mem_map] at hk
  obtain ⟨i, _, rfl⟩ := hk
  exact applyBox_ws _ _

theorem roundKeys_length (klen K : Nat) : (roundKeys klen K).length = 33 := by
  simp [roundKeys]

/-! pack / bytes -/
theorem leBytes_eq (k n : Nat) : leBytes k n = (List.range k).map fun j => (n >>> (8 * j)) % 256 := by
  induction k generalizing n with
  | zero => rfl
  | succ k ih =>
    rw [leBytes, ih, List.range_succ_eq_map, List.map_cons, List.map_map]
    congr 1
    apply List.map_congr_left
    intro j _
    simp only [Function.comp, Nat.shiftRight_eq_div_pow]
    rw [Nat.div_div_eq_div_mul]
    congr 2
    rw [show 8 * (j + 1) = 8 + 8 * j by omega, Nat.pow_add]

theorem pack_eq (x : Nat) : Bits.pack ⟨x, 128⟩ = leBytes 16 x := by
  rw [leBytes_eq]
  unfold Bits.pack
  simp only [Bool.false_eq_true, if_false]
  show (List.range 16).map _ = _
  apply List.map_congr_left
  intro j hj
  rw [List.mem_range] at hj
  have hmin : min (j * 8 + 8) 128 = j * 8 + 8 := by omega
  simp only [hmin]
  show _ &&& (2 ^ 8 - 1) = _ % 2 ^ 8
  rw [Nat.and_two_pow_sub_one_eq_mod]
  apply Nat.eq_of_testBit_eq; intro t
  rw [Nat.testBit_mod_two_pow, Nat.testBit_mod_two_pow, testBit_sliceFast, Nat.testBit_shiftRight]
  by_cases ht : t < 8
  · have : t < j * 8 + 8 - j * 8 := by omega
    simp [ht, this, Nat.mul_comm]
  · simp [ht]

theorem enc_eq (K M : Bits) (hK : K.WF) (hKs : K.size ≤ 256) (hM : M.WF) (hMs : M.size = 128) :
    Model.Serpent.enc K M = .ok (leBytes 16 (encNat K.size K.ival M.ival)) := by
  unfold Model.Serpent.enc
  rw [init_eq K hKs hK]
  simp only [bind, Except.bind]
  rw [← B_stateOfNat M hMs hM, encBits_eq _ (roundKeys_ws _ _) (roundKeys_length _ _) _ (stateOfNat_ws _)]
  simp only [pure, Except.pure]
  congr 1
  show Bits.pack ⟨_, 128⟩ = _
  rw [pack_eq, B_stateOfNat M hMs hM]
  rfl

theorem dec_eq (K C : Bits) (hK : K.WF) (hKs : K.size ≤ 256) (hC : C.WF) (hCs : C.size = 128) :
    Model.Serpent.dec K C = .ok (leBytes 16 (decNat K.size K.ival C.ival)) := by
  unfold Model.Serpent.dec
  rw [init_eq K hKs hK]
  simp only [bind, Except.bind]
  rw [← B_stateOfNat C hCs hC, decBits_eq _ (roundKeys_ws _ _) (roundKeys_length _ _) _ (stateOfNat_ws _)]
  simp only [pure, Except.pure]
  congr 1
  show Bits.pack ⟨_, 128⟩ = _
  rw [pack_eq, B_stateOfNat C hCs hC]
  rfl

end Proofs.Lemmas.SerpentEnc
