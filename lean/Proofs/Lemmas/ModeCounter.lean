/-
  Helper lemmas for C05: the default counter through pack/unpack (big-endian), CTR = SP 800-38A CTR.
-/
import Proofs.Lemmas.ModeCtr
namespace Proofs.Lemmas.ModeL
open Model Model.Py Model.Mode

/-- big-endian accumulation from b -/
def beAcc (b : Nat) (s : List Nat) : Nat := s.foldl (fun a x => a * 256 + x) b

theorem beAcc_append (b : Nat) (A B : List Nat) : beAcc b (A ++ B) = beAcc (beAcc b A) B := by
  simp [beAcc, List.foldl_append]

theorem beAcc_eq : ∀ (s : List Nat) (b : Nat), beAcc b s = b * 2 ^ (8 * s.length) + beAcc 0 s
  | [], b => by simp [beAcc]
  | x :: s, b => by
    have h1 := beAcc_eq s (b * 256 + x)
    have h2 := beAcc_eq s (0 * 256 + x)
    have e : 2 ^ (8 * (s.length + 1)) = 256 * 2 ^ (8 * s.length) := by
      rw [Nat.mul_succ, Nat.pow_add]; simp [Nat.mul_comm]
    simp only [beAcc, List.foldl_cons, List.length_cons] at h1 h2 ⊢
    rw [h1, h2, e, Nat.add_mul, Nat.zero_mul, Nat.zero_add, Nat.mul_assoc]
    omega

theorem beAcc_lt : ∀ (s : List Nat), Bytes s → beAcc 0 s < 2 ^ (8 * s.length)
  | [], _ => by simp [beAcc]
  | x :: s, h => by
    have hx : x < 256 := h x (by simp)
    have ih := beAcc_lt s (fun y hy => h y (List.mem_cons_of_mem _ hy))
    have e : 2 ^ (8 * (s.length + 1)) = 256 * 2 ^ (8 * s.length) := by
      rw [Nat.mul_succ, Nat.pow_add]; simp [Nat.mul_comm]
    have h1 : beAcc 0 (x :: s) = x * 2 ^ (8 * s.length) + beAcc 0 s := by
      have := beAcc_eq s (0 * 256 + x)
      simpa [beAcc] using this
    have h2 : (x + 1) * 2 ^ (8 * s.length) ≤ 256 * 2 ^ (8 * s.length) := Nat.mul_le_mul_right _ (by omega)
    rw [h1, List.length_cons, e]
    rw [Nat.add_mul, Nat.one_mul] at h2
    omega

theorem beInt_eq (g : List Nat) : beInt g = beAcc 0 g := rfl

theorem specBeVal_eq (s : List Nat) : Spec.Mode.beVal s = beAcc 0 s := by
  unfold Spec.Mode.beVal beAcc
  congr 1; funext a b; rw [Nat.mul_comm]

/-- one stage of `unpack` (big-endian) over a whole number of q-byte items accumulates big-endian -/
theorem chunks_fold (q : Nat) (hq : 0 < q) : ∀ (n : Nat) (s : List Nat) (fuel : Nat) (acc : Nat × Nat),
    s.length = n * q → s.length ≤ fuel → Bytes s →
    ((chunks.go q s fuel).foldl (fun (st : Nat × Nat) g => ((st.1 <<< (8 * q)) ||| beInt g, st.2 + 8 * q)) acc).1
      = beAcc acc.1 s
  | 0, s, fuel, acc, hl, _, _ => by
    have : s = [] := List.length_eq_zero_iff.1 (by simpa using hl)
    subst this
    cases fuel <;> simp [chunks.go, beAcc]
  | n+1, s, fuel, acc, hl, hf, hb => by
    have hlen : q ≤ s.length := by rw [hl, Nat.succ_mul]; omega
    cases fuel with
    | zero => omega
    | succ f =>
      have hne : s.isEmpty = false := by
        cases s with
        | nil => simp at hlen; omega
        | cons a t => rfl
      have htk : (s.take q).length = q := by rw [List.length_take]; omega
      have hlt := beAcc_lt (s.take q) (hb.take q)
      rw [htk] at hlt
      simp only [chunks.go, hne, Bool.false_eq_true, if_false, List.foldl_cons]
      rw [chunks_fold q hq n (s.drop q) f _ (by rw [List.length_drop, hl, Nat.succ_mul]; omega)
        (by rw [List.length_drop]; omega) (hb.drop q)]
      simp only
      rw [beInt_eq, ← Nat.shiftLeft_add_eq_or_of_lt hlt, Nat.shiftLeft_eq]
      conv => rhs; rw [← List.take_append_drop q s, beAcc_append]
      congr 1
      rw [beAcc_eq (s.take q) acc.1, htk]

theorem unpackStage_be (q : Nat) (hq : 0 < q) (acc : Nat × Nat) (s : List Nat) (hs : Bytes s) :
    (Bits.unpackStage true q acc (s.take (s.length / q * q))).1 = beAcc acc.1 (s.take (s.length / q * q)) := by
  have hle : s.length / q * q ≤ s.length := Nat.div_mul_le_self _ _
  have hlen : (s.take (s.length / q * q)).length = s.length / q * q := by rw [List.length_take]; omega
  unfold Bits.unpackStage chunks
  rw [if_neg (by omega)]
  simp only [if_true]
  exact chunks_fold q hq (s.length / q) _ _ acc hlen (Nat.le_refl _) (hs.take _)

/-- big-endian `unpack` of a byte string is its big-endian value -/
theorem unpack_be (s : List Nat) (hs : Bytes s) : (Bits.unpack s true).1 = beAcc 0 s := by
  unfold Bits.unpack
  simp only [List.foldl_cons, List.foldl_nil]
  have h8 := unpackStage_be 8 (by decide) (0, 0) s hs
  generalize hr1 : s.drop (s.length / 8 * 8) = r1 at *
  have hb1 : Bytes r1 := hr1 ▸ hs.drop _
  generalize ha1 : Bits.unpackStage true 8 (0, 0) (s.take (s.length / 8 * 8)) = a1 at *
  have h4 := unpackStage_be 4 (by decide) a1 r1 hb1
  generalize hr2 : r1.drop (r1.length / 4 * 4) = r2 at *
  have hb2 : Bytes r2 := hr2 ▸ hb1.drop _
  generalize ha2 : Bits.unpackStage true 4 a1 (r1.take (r1.length / 4 * 4)) = a2 at *
  have h2 := unpackStage_be 2 (by decide) a2 r2 hb2
  generalize hr3 : r2.drop (r2.length / 2 * 2) = r3 at *
  have hb3 : Bytes r3 := hr3 ▸ hb2.drop _
  generalize ha3 : Bits.unpackStage true 2 a2 (r2.take (r2.length / 2 * 2)) = a3 at *
  have h1 := unpackStage_be 1 (by decide) a3 r3 hb3
  have e3 : r3.take (r3.length / 1 * 1) = r3 := by simp
  rw [e3] at h1
  simp only [e3]
  rw [h1, h2, h4, h8, ← beAcc_append, ← beAcc_append, ← beAcc_append]
  congr 1
  rw [← hr3, List.take_append_drop, ← hr2, List.take_append_drop, ← hr1, List.take_append_drop]

/-- little-endian bytes of v, w of them -/
def leB (w v : Nat) : List Nat := (List.range w).map fun j => (v / 2 ^ (8 * j)) % 256

theorem leB_succ (w v : Nat) : leB (w + 1) v = (v % 256) :: leB w (v / 256) := by
  unfold leB
  rw [List.range_succ_eq_map]
  simp only [List.map_cons, List.map_map, Nat.mul_zero, Nat.pow_zero, Nat.div_one]
  congr 1
  apply List.map_congr_left
  intro j _
  simp only [Function.comp]
  rw [Nat.div_div_eq_div_mul, Nat.mul_succ, Nat.pow_add]
  congr 2
  rw [Nat.mul_comm]

theorem leB_reverse : ∀ (w v : Nat), (leB w v).reverse = Spec.Mode.beBytes w v
  | 0, _ => rfl
  | w+1, v => by rw [leB_succ, List.reverse_cons, leB_reverse w, Spec.Mode.beBytes]

theorem pack_be (w v : Nat) : Bits.pack ⟨v, 8 * w⟩ true = Spec.Mode.beBytes w v := by
  unfold Bits.pack
  have hn : (8 * w + 7) / 8 = w := by omega
  simp only [hn, if_true]
  rw [← leB_reverse]
  congr 1
  unfold leB
  apply List.map_congr_left
  intro j hj
  have hj' : j < w := List.mem_range.1 hj
  have hmin : min (j * 8 + 8) (8 * w) = j * 8 + 8 := Nat.min_eq_left (by omega)
  have h255 : (255 : Nat) = 2 ^ 8 - 1 := by decide
  simp only [Bits.sliceFast, Bits.ofNatSz, hmin, Nat.add_sub_cancel_left, Nat.and_two_pow_sub_one_eq_mod, h255,
    Nat.shiftRight_eq_div_pow]
  rw [Nat.mod_mod, Nat.pow_add, Nat.mod_mul_right_div_self, Nat.mod_mod, Nat.mul_comm j 8]

variable {c : BlockCipher} {k : Spec.Mode.Cipher}

/-- the counter blocks of the model are the Spec's: nonce ‖ BE((count0 + i) mod 2^(8w)) -/
theorem modelT_eq_spec (l : Nat) (iv' : List Nat) (hiv : IsBlock l iv') (d : DefaultCounter)
    (hn : d.nonce = iv'.take (l / 2)) (hc : d.count0 = iv'.drop (l / 2)) (i : Nat) :
    modelT d i = Spec.Mode.counterBlock l iv' i := by
  have hw : d.count0.length = l - l / 2 := by rw [hc, List.length_drop, hiv.1]
  have hu := unpack_be d.count0 (hc ▸ hiv.2.drop _)
  unfold modelT cntAt Spec.Mode.counterBlock
  simp only [hw, pack_be, hu, specBeVal_eq, hn]
  rw [hc]

theorem ctr_enc_spec (h : Implements c k) (iv : Option (List Nat)) (hiv : CtrDom c.len iv) (M : List Nat) :
    CTR.enc c iv M = .ok (Spec.Mode.ctr k (iv.getD (List.replicate c.len 0)) M) := by
  obtain ⟨d, hd, hne, hnb, hlen, hn, hc⟩ := counter_new c.len h.len_pos iv hiv
  obtain ⟨d', hd', _, hT, he⟩ := ctr_enc_keystream h iv hiv M
  have : d' = d := by rw [hd] at hd'; cases hd'; rfl
  subst this
  have hiv' : IsBlock c.len (iv.getD (List.replicate c.len 0)) := by
    cases iv with
    | none => exact ⟨by simp, Bytes.replicate (by decide)⟩
    | some v => exact hiv
  have hTe : modelT d' = Spec.Mode.counterBlock c.len (iv.getD (List.replicate c.len 0)) :=
    funext (modelT_eq_spec c.len _ hiv' d' hn hc)
  rw [he, hTe]
  congr 1
  unfold Spec.Mode.ctr Spec.Mode.ctrEncrypt Spec.Mode.concat
  rw [h.len_eq, spec_blocks_eq]
  have hE : ∀ i, (k.E (Spec.Mode.counterBlock c.len (iv.getD (List.replicate c.len 0)) i)).length = c.len :=
    fun i => (h.E_block _ (hTe ▸ hT i)).1
  have hpos := h.len_pos
  by_cases hM : M.length = 0
  · have : M = [] := List.length_eq_zero_iff.1 hM
    subst this
    simp [xorstr, Spec.Mode.ctrFrom, readBlocks, Nat.div_eq_of_lt (show c.len - 1 < c.len by omega)]
  · have hn' : (M.length + c.len - 1) / c.len = (M.length - 1) / c.len + 1 := by
      have : M.length + c.len - 1 = (M.length - 1) + c.len := by omega
      rw [this, Nat.add_div_right _ hpos]
    have hj := ctr_keystream k (Spec.Mode.counterBlock c.len (iv.getD (List.replicate c.len 0))) c.len hE
      ((M.length - 1) / c.len + 1) 0 M (by
        obtain ⟨h1, h2, _, _, _⟩ := last_piece M.length c.len hpos
        rw [Nat.succ_mul]; omega)
    rw [hn']; exact hj.symm

end Proofs.Lemmas.ModeL
