/-
  Proofs.Lemmas.Fields — `fields% S`: the list of field names of the structure `S` as a `List String` literal, read off
  the structure declaration by the elaborator (used by the state-field inventory obligations of Proofs.C10, so that a
  field added to / removed from a state structure of Model.Objects changes the left-hand side of an obligation).
-/
import Lean
open Lean Elab Term Meta

elab "fields% " id:ident : term => do
  let n ← realizeGlobalConstNoOverloadWithInfo id
  let env ← getEnv
  unless isStructure env n do throwError "{n} is not a structure"
  return toExpr ((getStructureFields env n).toList.map (·.toString))

namespace Proofs.Lemmas.Fields

/-- equality of attribute inventories as sets (the generated lists are sorted, structure fields are in declaration order) -/
def sameSet (a b : List String) : Bool := a.all (b.contains ·) && b.all (a.contains ·)

/-- the attributes a state structure declares as scratch: all fields but `cfg` and the listed owned sub-objects,
    plus the configuration attributes that a public re-configuration method assigns -/
def scratchOf (fields owned reconf : List String) : List String :=
  (fields.filter fun f => f != "cfg" && !owned.contains f) ++ reconf

end Proofs.Lemmas.Fields
