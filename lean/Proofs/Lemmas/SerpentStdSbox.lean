/-
  Lemmas for Spec.SerpentStd: the S-box layer of the standard formulation (32 copies on consecutive nibbles) is the
  IP-conjugate of the bitslice S-box layer (columns of the four words).
-/
import Proofs.Lemmas.SerpentStdPerm
namespace Proofs.Lemmas.SerpentStdSbox
open Spec.Serpent Proofs.Lemmas.SerpentBits Proofs.Lemmas.SerpentComp Proofs.Lemmas.SerpentStdPerm

/-- nibble k of the standard image of a bitslice state is its column k -/
theorem nibble_T (s : State) (hs : WS s) (k : Nat) (hk : k < 32) :
    Spec.SerpentStd.nibble (T s) k = column s k := by
  have hlt : Spec.SerpentStd.nibble (T s) k < 16 := Nat.mod_lt _ (by decide)
  have hb : ∀ t < 4, (Spec.SerpentStd.nibble (T s) k).testBit t = (word s t).testBit k := by
    intro t ht
    show ((T s >>> (4 * k)) % 2 ^ 4).testBit t = _
    rw [Nat.testBit_mod_two_pow, Nat.testBit_shiftRight, testBit_T s hs]
    have h1 : 4 * k + t < 128 := by omega
    have h2 : (4 * k + t) % 4 = t := by omega
    have h3 : (4 * k + t) / 4 = k := by omega
    rw [h2, h3]
    simp [ht, h1]
  rw [nibble_eq _ hlt, hb 0 (by decide), hb 1 (by decide), hb 2 (by decide), hb 3 (by decide)]
  rfl

/-- bit k of word m of the bitslice S-box layer -/
theorem testBit_word_applyBox (f : Nat → Nat) (s : State) (m k : Nat) (hm : m < 4) :
    (word (applyBox f s) m).testBit k = (decide (k < 32) && (f (column s k)).testBit m) := by
  rcases (show m = 0 ∨ m = 1 ∨ m = 2 ∨ m = 3 by omega) with h | h | h | h <;> subst h <;>
    simp only [word, applyBox, testBit_ofBitFn]

/-- Ŝ ∘ IP = IP ∘ (bitslice S-box layer), for every 4-bit function -/
theorem sHat_T (f : Nat → Nat) (s : State) (hs : WS s) :
    Spec.SerpentStd.sHat f (T s) = T (applyBox f s) := by
  apply Nat.eq_of_testBit_eq; intro j
  unfold Spec.SerpentStd.sHat
  rw [testBit_ofBitFn, testBit_T _ (applyBox_ws f s)]
  by_cases hj : j < 128
  · have hk : j / 4 < 32 := by omega
    rw [nibble_T s hs _ hk, testBit_word_applyBox f s _ _ (Nat.mod_lt _ (by decide))]
    simp [hk]
  · simp [hj]

end Proofs.Lemmas.SerpentStdSbox
