/-
  Helper lemmas for C18: the linear layer `__FX` — `res[b] = (v & M2[b]).hw() % 2` — as an xor of selected bits.
-/
import Model.Wb
import Proofs.Lemmas.WbBits
import Proofs.Lemmas.WbKey
namespace Proofs.Lemmas.Wb
open Model Model.Wb Model.Bits

/-- number of set bits below `n` -/
def cnt (x : Nat) : Nat → Nat
  | 0 => 0
  | n + 1 => cnt x n + (x.testBit n).toNat

theorem and_one_eq_one_iff (x i : Nat) : ((x >>> i) &&& 1 = 1) ↔ x.testBit i = true := by
  rw [Nat.testBit, Nat.and_comm]
  simp only [bne_iff_ne, ne_eq]
  have h : (1 &&& x >>> i) = 0 ∨ (1 &&& x >>> i) = 1 := by
    have : 1 &&& x >>> i ≤ 1 := Nat.and_le_left
    omega
  omega

theorem hw_eq_cnt (x n : Nat) : hw ⟨x, n⟩ = cnt x n := by
  simp only [hw, toBitList]
  induction n with
  | zero => simp [cnt]
  | succ n ih =>
    rw [List.range_succ, List.map_append, List.filter_append, List.length_append, ih, cnt]
    congr 1
    by_cases h : x.testBit n = true
    · have := (and_one_eq_one_iff x n).mpr h
      simp [h]
    · have h' : ¬ ((x >>> n) &&& 1 = 1) := fun c => h ((and_one_eq_one_iff x n).mp c)
      simp [h]

theorem cnt_and_pow (v p n : Nat) : cnt (v &&& 2 ^ p) n = if p < n then (v.testBit p).toNat else 0 := by
  induction n with
  | zero => simp [cnt]
  | succ n ih =>
    rw [cnt, ih, Nat.testBit_and, Nat.testBit_two_pow]
    by_cases h1 : p < n
    · have h2 : p ≠ n := by omega
      have h3 : p < n + 1 := by omega
      simp [h1, h2, h3]
    · by_cases h2 : p = n
      · subst h2; simp
      · have h3 : ¬ (p < n + 1) := by omega
        simp [h1, h2, h3]

theorem cnt_or (a b n : Nat) (h : a &&& b = 0) : cnt (a ||| b) n = cnt a n + cnt b n := by
  induction n with
  | zero => simp [cnt]
  | succ n ih =>
    rw [cnt, cnt, cnt, ih, Nat.testBit_or]
    have hd : (a.testBit n && b.testBit n) = false := by
      rw [← Nat.testBit_and, h]; simp
    cases ha : a.testBit n <;> cases hb : b.testBit n <;> simp [ha, hb] at hd ⊢ <;> omega

/-- `(v & t).hw() % 2` -/
def fxVal (v : Bits) (t : Nat) : Nat := (v.and (ofNat t)).hw % 2

theorem bitLength_le (t n : Nat) (h : t < 2 ^ n) : Py.bitLength t ≤ n := by
  unfold Py.bitLength
  by_cases h0 : t = 0
  · simp [h0]
  · simp only [h0, if_false]
    have := (Nat.log2_lt h0).mpr h
    omega

theorem and_ofNat (v : Bits) (t : Nat) (hv : v.size = 96) (ht : t < 2 ^ 96) :
    v.and (ofNat t) = ⟨v.ival &&& t, 96⟩ := by
  have := bitLength_le t 96 ht
  simp only [Bits.and, ofNat, wsize, hv]
  congr 1
  by_cases h : 96 > Py.bitLength t
  · simp [h]
  · have : Py.bitLength t = 96 := by omega
    simp [this]

theorem fxVal_one (v : Bits) (hv : v.size = 96) (p : Nat) (hp : p < 96) : fxVal v (2 ^ p) = (bit v p).toNat := by
  have ht : 2 ^ p < 2 ^ 96 := Nat.pow_lt_pow_right (by decide) hp
  rw [fxVal, and_ofNat v _ hv ht, hw_eq_cnt, cnt_and_pow, if_pos hp]
  simp only [bit]
  cases v.ival.testBit p <;> rfl

theorem fxVal_two (v : Bits) (hv : v.size = 96) (p q : Nat) (hp : p < 96) (hq : q < 96) (hpq : p ≠ q) :
    fxVal v (2 ^ p ||| 2 ^ q) = (bit v p ^^ bit v q).toNat := by
  have ht : 2 ^ p ||| 2 ^ q < 2 ^ 96 :=
    Nat.or_lt_two_pow (Nat.pow_lt_pow_right (by decide) hp) (Nat.pow_lt_pow_right (by decide) hq)
  have hd : (v.ival &&& 2 ^ p) &&& (v.ival &&& 2 ^ q) = 0 := by
    apply Nat.eq_of_testBit_eq
    intro i
    simp only [Nat.testBit_and, Nat.testBit_two_pow, Nat.zero_testBit]
    by_cases h1 : p = i <;> by_cases h2 : q = i <;> simp [h1, h2]
    omega
  rw [fxVal, and_ofNat v _ hv ht, hw_eq_cnt, Nat.and_or_distrib_left, cnt_or _ _ _ hd, cnt_and_pow, cnt_and_pow,
    if_pos hp, if_pos hq]
  simp only [bit]
  cases v.ival.testBit p <;> cases v.ival.testBit q <;> rfl

/-- xor of the selected bits -/
def xorBits (v : Bits) (ps : List Nat) : Bool := ps.foldl (fun a p => a ^^ bit v p) false

/-- the matrix row built from a list of column positions -/
def rowMask (ps : List Nat) : Nat := ps.foldl (fun a p => a ||| 2 ^ p) 0

/-- a row with one or two (distinct) columns computes the xor of those bits -/
theorem fxVal_row (v : Bits) (hv : v.size = 96) (ps : List Nat)
    (h : (∃ p, ps = [p] ∧ p < 96) ∨ (∃ p q, ps = [p, q] ∧ p < 96 ∧ q < 96 ∧ p ≠ q)) :
    fxVal v (rowMask ps) = (xorBits v ps).toNat := by
  rcases h with ⟨p, rfl, hp⟩ | ⟨p, q, rfl, hp, hq, hpq⟩
  · simp only [rowMask, List.foldl_cons, List.foldl_nil, Nat.zero_or, xorBits, Bool.false_xor]
    exact fxVal_one v hv p hp
  · simp only [rowMask, List.foldl_cons, List.foldl_nil, Nat.zero_or, xorBits, Bool.false_xor]
    exact fxVal_two v hv p q hp hq hpq

theorem fxVal_le_one (v : Bits) (t : Nat) : fxVal v t = 0 ∨ fxVal v t = 1 := by
  unfold fxVal; omega

/-- the loop of `__FX` over a list of row indices -/
theorem fxLoop_ok (tM2 : List Nat) (v : Bits) (h2 : tM2.length = 96) :
    ∀ (bs : List Nat) (res : Bits), res.size = 96 → res.WF → (∀ b ∈ bs, b < 96) →
      ∃ res', fxLoop tM2 v bs res = .ok res' ∧ res'.size = 96 ∧ res'.WF ∧
        ∀ i, bit res' i = if i ∈ bs then decide (fxVal v (tM2.getD i 0) = 1) else bit res i := by
  intro bs
  induction bs with
  | nil => intro res hs hw _; exact ⟨res, rfl, hs, hw, by simp⟩
  | cons b bs ih =>
    intro res hs hw hbs
    have hb : b < 96 := hbs b (List.mem_cons_self)
    have hbl : b < tM2.length := by rw [h2]; exact hb
    have hget : tM2.getD b 0 = tM2[b] := by simp [List.getD_eq_getElem?_getD, List.getElem?_eq_getElem hbl]
    -- the value written is a bool
    obtain ⟨x, hx⟩ : ∃ x : Bool, fxVal v tM2[b] = x.toNat := by
      rcases fxVal_le_one v tM2[b] with h | h
      · exact ⟨false, h⟩
      · exact ⟨true, h⟩
    have hstep := setInt_ok res b (by rw [hs]; exact hb) x
    let res1 : Bits := if x then ⟨res.ival ||| (1 <<< b), res.size⟩ else ⟨res.ival &&& (res.mask ^^^ (1 <<< b)), res.size⟩
    have hs1 : res1.size = 96 := by simp only [res1]; cases x <;> simpa using hs
    have hbit1 : ∀ i, bit res1 i = if i = b then x else bit res i := by
      intro i
      simp only [res1]
      cases x
      · simp only [Bool.false_eq_true, if_false, bit]
        rw [bit_setInt_false res b i (by rw [hs]; exact hb)]
        by_cases e : i = b
        · subst e; simp
        · have e' : ¬ b = i := fun c => e c.symm
          by_cases hi : i < res.size
          · simp [e, e', hi]
          · have := bit_of_WF hw (Nat.le_of_not_lt hi)
            simp only [bit] at this
            simp [e, this]
      · simp only [if_true, bit]
        rw [bit_setInt_true res b i]
        by_cases e : i = b
        · subst e; simp
        · have e' : ¬ b = i := fun c => e c.symm
          simp [e, e']
    have hw1 : res1.WF := by
      apply WF_of_bits
      intro i hi
      rw [hs1] at hi
      rw [hbit1, if_neg (by omega)]
      exact bit_of_WF hw (by rw [hs]; exact hi)
    obtain ⟨res', a1, a2, a3, a4⟩ := ih res1 hs1 hw1 (fun c hc => hbs c (List.mem_cons_of_mem _ hc))
    refine ⟨res', ?_, a2, a3, ?_⟩
    · simp only [fxLoop, pyIdx_ok _ _ hbl, bind, Except.bind]
      have hx' : (v.and (ofNat tM2[b])).hw % 2 = x.toNat := hx
      rw [hx', hstep]
      exact a1
    · intro i
      rw [a4, hbit1]
      by_cases e : i = b
      · subst e
        by_cases m : i ∈ bs
        · simp [m]
        · simp only [m, if_false, List.mem_cons, true_or, if_true, hget, hx]
          cases x <;> simp
      · simp [e]

end Proofs.Lemmas.Wb
