/-
  Lemmas for Spec.SerpentStd: every round of the standard formulation is the IP-conjugate of the bitslice round, hence
  the standard cipher (IP, 32 rounds, FP) computes the same 128-bit function as the bitslice cipher of Spec.Serpent.
-/
import Proofs.Lemmas.SerpentStdSbox
import Proofs.Lemmas.SerpentStdLin
import Proofs.Lemmas.SerpentEnc
namespace Proofs.Lemmas.SerpentStdEnc
open Spec.Serpent Proofs.Lemmas.SerpentBits Proofs.Lemmas.SerpentComp Proofs.Lemmas.SerpentSpec Proofs.Lemmas.SerpentEnc
open Proofs.Lemmas.SerpentStdPerm Proofs.Lemmas.SerpentStdSbox Proofs.Lemmas.SerpentStdLin

/-- K̂_i = IP(K_i) for a whole list of bitslice subkeys -/
def hat (ks : List State) : List Nat := ks.map T

theorem roundKeysHat_eq (klen K : Nat) : Spec.SerpentStd.roundKeysHat klen K = hat (roundKeys klen K) := rfl

theorem kHat_hat (ks : List State) (i : Nat) : Spec.SerpentStd.kHat (hat ks) i = T (rk ks i) := by
  unfold Spec.SerpentStd.kHat hat rk
  rw [List.getD_eq_getElem?_getD, List.getD_eq_getElem?_getD, List.getElem?_map]
  cases ks[i]? with
  | none => exact T_zero.symm
  | some k => rfl

/-- R_i of the standard formulation on IP(B) = IP(R_i of the bitslice formulation on B), i = 0..30 -/
theorem round_T (ks : List State) (hks : WSL ks) (b : State) (hb : WS b) (i : Nat) :
    Spec.SerpentStd.round (hat ks) (T b) i = T (round ks b i) := by
  have hk := rk_ws ks hks i
  unfold Spec.SerpentStd.round
  rw [kHat_hat, ← T_xor b _ hb hk, sHat_T _ _ (xor_ws _ _ hb hk), L_T _ (applyBox_ws _ _)]
  rfl

theorem lastRound_T (ks : List State) (hks : WSL ks) (b : State) (hb : WS b) :
    Spec.SerpentStd.lastRound (hat ks) (T b) = T ((applyBox (sbox 7) (b.xor (rk ks 31))).xor (rk ks 32)) := by
  have hk := rk_ws ks hks 31
  unfold Spec.SerpentStd.lastRound
  rw [kHat_hat, kHat_hat, ← T_xor b _ hb hk, sHat_T _ _ (xor_ws _ _ hb hk),
    ← T_xor _ _ (applyBox_ws _ _) (rk_ws ks hks 32)]

theorem roundInv_T (ks : List State) (hks : WSL ks) (b : State) (hb : WS b) (i : Nat) :
    Spec.SerpentStd.roundInv (hat ks) (T b) i = T (roundInv ks b i) := by
  unfold Spec.SerpentStd.roundInv
  rw [kHat_hat, LInv_T b hb, sHat_T _ _ (ltInv_ws b hb), ← T_xor _ _ (applyBox_ws _ _) (rk_ws ks hks i)]
  rfl

theorem lastRoundInv_T (ks : List State) (hks : WSL ks) (c : State) (hc : WS c) :
    Spec.SerpentStd.lastRoundInv (hat ks) (T c) = T ((applyBox (sboxInv 7) (c.xor (rk ks 32))).xor (rk ks 31)) := by
  have hk := rk_ws ks hks 32
  unfold Spec.SerpentStd.lastRoundInv
  rw [kHat_hat, kHat_hat, ← T_xor c _ hc hk, sHat_T _ _ (xor_ws _ _ hc hk),
    ← T_xor _ _ (applyBox_ws _ _) (rk_ws ks hks 31)]

theorem foldl_round_T (ks : List State) (hks : WSL ks) (is : List Nat) (b : State) (hb : WS b) :
    is.foldl (Spec.SerpentStd.round (hat ks)) (T b) = T (is.foldl (round ks) b) := by
  induction is generalizing b with
  | nil => rfl
  | cons i is ih =>
    rw [List.foldl_cons, List.foldl_cons, round_T ks hks b hb i]
    exact ih _ (round_ws ks b i)

theorem foldl_roundInv_T (ks : List State) (hks : WSL ks) (is : List Nat) (b : State) (hb : WS b) :
    is.foldl (Spec.SerpentStd.roundInv (hat ks)) (T b) = T (is.foldl (roundInv ks) b) := by
  induction is generalizing b with
  | nil => rfl
  | cons i is ih =>
    rw [List.foldl_cons, List.foldl_cons, roundInv_T ks hks b hb i]
    exact ih _ (roundInv_ws ks hks b i)

/-- the whole standard cipher on the 128-bit block P = the bitslice cipher on the words of P -/
theorem encBlock_hat (ks : List State) (hks : WSL ks) (P : Nat) :
    Spec.SerpentStd.encBlock (hat ks) P = natOfState (encState ks (stateOfNat P)) := by
  unfold Spec.SerpentStd.encBlock
  rw [← T_stateOfNat P, foldl_round_T ks hks _ _ (stateOfNat_ws P),
    lastRound_T ks hks _ (foldl_round_ws ks _ _ (stateOfNat_ws P))]
  exact FP_T _ (encState_ws ks hks _)

theorem decBlock_hat (ks : List State) (hks : WSL ks) (C : Nat) :
    Spec.SerpentStd.decBlock (hat ks) C = natOfState (decState ks (stateOfNat C)) := by
  have hb := xor_ws _ _ (applyBox_ws (sboxInv 7) ((stateOfNat C).xor (rk ks 32))) (rk_ws ks hks 31)
  unfold Spec.SerpentStd.decBlock decState
  rw [← T_stateOfNat C, lastRoundInv_T ks hks _ (stateOfNat_ws C), foldl_roundInv_T ks hks _ _ hb]
  exact FP_T _ (foldl_roundInv_ws ks hks _ _ hb)

theorem encNat_eq (klen K P : Nat) : Spec.SerpentStd.encNat klen K P = Spec.Serpent.encNat klen K P := by
  unfold Spec.SerpentStd.encNat Spec.Serpent.encNat
  rw [roundKeysHat_eq, encBlock_hat _ (roundKeys_ws klen K)]

theorem decNat_eq (klen K C : Nat) : Spec.SerpentStd.decNat klen K C = Spec.Serpent.decNat klen K C := by
  unfold Spec.SerpentStd.decNat Spec.Serpent.decNat
  rw [roundKeysHat_eq, decBlock_hat _ (roundKeys_ws klen K)]

end Proofs.Lemmas.SerpentStdEnc
