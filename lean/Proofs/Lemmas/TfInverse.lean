/-
  Spec.Threefish: decryption is the inverse map of encryption (both directions), step by step.
-/
import Spec.Threefish
namespace Proofs.Lemmas.TfInverse
open Spec.Threefish

theorem rotr_rotl (x : W) (r : Nat) : (x.rotateLeft r).rotateRight r = x := by
  apply BitVec.eq_of_getLsbD_eq
  intro i hi
  have hr : r % 64 < 64 := Nat.mod_lt _ (by decide)
  rw [BitVec.getLsbD_rotateRight]
  by_cases h1 : i < 64 - r % 64
  · simp only [h1, decide_true, cond_true, BitVec.getLsbD_rotateLeft]
    have h2 : ¬ (r % 64 + i < r % 64) := by omega
    have h3 : r % 64 + i < 64 := by omega
    simp only [h2, decide_false, cond_false, h3, decide_true, Bool.true_and]
    congr 1; omega
  · simp only [h1, decide_false, cond_false, hi, decide_true, Bool.true_and, BitVec.getLsbD_rotateLeft]
    have h2 : i - (64 - r % 64) < r % 64 := by omega
    simp only [h2, decide_true, cond_true]
    congr 1; omega

theorem rotl_rotr (x : W) (r : Nat) : (x.rotateRight r).rotateLeft r = x := by
  apply BitVec.eq_of_getLsbD_eq
  intro i hi
  have hr : r % 64 < 64 := Nat.mod_lt _ (by decide)
  rw [BitVec.getLsbD_rotateLeft]
  by_cases h1 : i < r % 64
  · simp only [h1, decide_true, cond_true, BitVec.getLsbD_rotateRight]
    have h2 : ¬ (64 - r % 64 + i < 64 - r % 64) := by omega
    have h3 : 64 - r % 64 + i < 64 := by omega
    simp only [h2, decide_false, cond_false, h3, decide_true, Bool.true_and]
    congr 1; omega
  · simp only [h1, decide_false, cond_false, hi, decide_true, Bool.true_and, BitVec.getLsbD_rotateRight]
    have h2 : i - r % 64 < 64 - r % 64 := by omega
    simp only [h2, decide_true, cond_true]
    congr 1; omega

/-- MIX⁻¹ ∘ MIX = id for every rotation amount and all words -/
theorem mixInv_mix (r : Nat) (x0 x1 : W) :
    mixInv r ((mix r x0 x1).getD 0 0) ((mix r x0 x1).getD 1 0) = [x0, x1] := by
  simp only [mix, mixInv, List.getD_cons_zero, List.getD_cons_succ]
  have : (x0 + x1 ^^^ (x1.rotateLeft r ^^^ (x0 + x1))) = x1.rotateLeft r := by
    rw [BitVec.xor_comm (x1.rotateLeft r), ← BitVec.xor_assoc, BitVec.xor_self, BitVec.zero_xor]
  rw [this, rotr_rotl, BitVec.add_sub_cancel]

/-- MIX ∘ MIX⁻¹ = id -/
theorem mix_mixInv (r : Nat) (y0 y1 : W) :
    mix r ((mixInv r y0 y1).getD 0 0) ((mixInv r y0 y1).getD 1 0) = [y0, y1] := by
  simp only [mix, mixInv, List.getD_cons_zero, List.getD_cons_succ]
  rw [rotl_rotr, BitVec.sub_add_cancel, BitVec.xor_comm y0, BitVec.xor_assoc, BitVec.xor_self, BitVec.xor_zero]

/-! ### lists indexed through `getD` -/

theorem getD_map_range {α} (f : Nat → α) (d : α) (n i : Nat) (h : i < n) : ((List.range n).map f).getD i d = f i := by
  simp [List.getD_eq_getElem?_getD, h]

theorem map_getD_range {α} (l : List α) (d : α) : (List.range l.length).map (fun i => l.getD i d) = l := by
  apply List.ext_getElem
  · simp
  · intro i h1 h2
    simp at h1
    simp [List.getD_eq_getElem?_getD, h1]

theorem pairs_length {α} (a b : Nat → α) (n : Nat) : ((List.range n).flatMap fun j => [a j, b j]).length = 2 * n := by
  induction n with
  | zero => rfl
  | succ n ih => rw [List.range_succ, List.flatMap_append, List.length_append, ih]; simp; omega

theorem pairs_getD {α} (a b : Nat → α) (d : α) (n j : Nat) (hj : j < n) :
    ((List.range n).flatMap fun j => [a j, b j]).getD (2 * j) d = a j ∧
    ((List.range n).flatMap fun j => [a j, b j]).getD (2 * j + 1) d = b j := by
  induction n with
  | zero => omega
  | succ n ih =>
    rw [List.range_succ, List.flatMap_append]
    have hl := pairs_length a b n
    simp only [List.getD_eq_getElem?_getD] at ih ⊢
    by_cases h : j < n
    · rw [List.getElem?_append_left (by omega), List.getElem?_append_left (by omega)]
      exact ih h
    · have : j = n := by omega
      subst this
      rw [List.getElem?_append_right (by omega), List.getElem?_append_right (by omega), hl]
      simp

theorem unpairs {α} (d : α) (n : Nat) (e : List α) (h : e.length = 2 * n) :
    ((List.range n).flatMap fun j => [e.getD (2 * j) d, e.getD (2 * j + 1) d]) = e := by
  induction n generalizing e with
  | zero => simp at h; simp [h]
  | succ n ih =>
    match e, h with
    | x :: y :: rest, h =>
      rw [List.range_succ_eq_map, List.flatMap_cons, List.flatMap_map]
      simp only [Nat.mul_zero, List.getD_cons_zero, Nat.zero_add, List.getD_cons_succ, Nat.succ_eq_add_one,
        Nat.mul_add, Nat.mul_one, List.cons_append, List.nil_append]
      have : rest.length = 2 * n := by simp at h; omega
      rw [ih rest this]


theorem fm_congr {α β} (l : List α) (f g : α → List β) (h : ∀ a ∈ l, f a = g a) : l.flatMap f = l.flatMap g := by
  induction l with
  | nil => rfl
  | cons a l ih =>
    simp only [List.flatMap_cons]
    rw [h a (by simp), ih (fun b hb => h b (by simp [hb]))]

theorem map_congr_mem {α β} (l : List α) (f g : α → β) (h : ∀ a ∈ l, f a = g a) : l.map f = l.map g := by
  induction l with
  | nil => rfl
  | cons a l ih =>
    simp only [List.map_cons]
    rw [h a (by simp), ih (fun b hb => h b (by simp [hb]))]

theorem mix_pair (r : Nat) (x0 x1 : W) : mix r x0 x1 = [(mix r x0 x1).getD 0 0, (mix r x0 x1).getD 1 0] := rfl
theorem mixInv_pair (r : Nat) (x0 x1 : W) : mixInv r x0 x1 = [(mixInv r x0 x1).getD 0 0, (mixInv r x0 x1).getD 1 0] := rfl

theorem mixLayer_length (nw d : Nat) (e : List W) : (mixLayer nw d e).length = 2 * (nw / 2) := by
  unfold mixLayer
  rw [show (fun j => mix (rot nw d j) (e.getD (2 * j) 0) (e.getD (2 * j + 1) 0)) = fun j =>
        [(mix (rot nw d j) (e.getD (2 * j) 0) (e.getD (2 * j + 1) 0)).getD 0 0,
         (mix (rot nw d j) (e.getD (2 * j) 0) (e.getD (2 * j + 1) 0)).getD 1 0] from rfl, pairs_length]

theorem mixInvLayer_length (nw d : Nat) (e : List W) : (mixInvLayer nw d e).length = 2 * (nw / 2) := by
  unfold mixInvLayer
  rw [show (fun j => mixInv (rot nw d j) (e.getD (2 * j) 0) (e.getD (2 * j + 1) 0)) = fun j =>
        [(mixInv (rot nw d j) (e.getD (2 * j) 0) (e.getD (2 * j + 1) 0)).getD 0 0,
         (mixInv (rot nw d j) (e.getD (2 * j) 0) (e.getD (2 * j + 1) 0)).getD 1 0] from rfl, pairs_length]

theorem mixInvLayer_mixLayer (nw d : Nat) (e : List W) (h : e.length = 2 * (nw / 2)) :
    mixInvLayer nw d (mixLayer nw d e) = e := by
  conv => rhs; rw [← unpairs (0 : W) (nw / 2) e h]
  unfold mixInvLayer
  apply fm_congr
  intro j hj
  have hj' := List.mem_range.1 hj
  have hp := pairs_getD (fun j => (mix (rot nw d j) (e.getD (2 * j) 0) (e.getD (2 * j + 1) 0)).getD 0 0)
    (fun j => (mix (rot nw d j) (e.getD (2 * j) 0) (e.getD (2 * j + 1) 0)).getD 1 0) (0 : W) (nw / 2) j hj'
  have hm : mixLayer nw d e = (List.range (nw / 2)).flatMap fun j =>
      [(mix (rot nw d j) (e.getD (2 * j) 0) (e.getD (2 * j + 1) 0)).getD 0 0,
       (mix (rot nw d j) (e.getD (2 * j) 0) (e.getD (2 * j + 1) 0)).getD 1 0] := rfl
  rw [hm, hp.1, hp.2, mixInv_mix]

theorem mixLayer_mixInvLayer (nw d : Nat) (f : List W) (h : f.length = 2 * (nw / 2)) :
    mixLayer nw d (mixInvLayer nw d f) = f := by
  conv => rhs; rw [← unpairs (0 : W) (nw / 2) f h]
  unfold mixLayer
  apply fm_congr
  intro j hj
  have hj' := List.mem_range.1 hj
  have hp := pairs_getD (fun j => (mixInv (rot nw d j) (f.getD (2 * j) 0) (f.getD (2 * j + 1) 0)).getD 0 0)
    (fun j => (mixInv (rot nw d j) (f.getD (2 * j) 0) (f.getD (2 * j + 1) 0)).getD 1 0) (0 : W) (nw / 2) j hj'
  have hm : mixInvLayer nw d f = (List.range (nw / 2)).flatMap fun j =>
      [(mixInv (rot nw d j) (f.getD (2 * j) 0) (f.getD (2 * j + 1) 0)).getD 0 0,
       (mixInv (rot nw d j) (f.getD (2 * j) 0) (f.getD (2 * j + 1) 0)).getD 1 0] := rfl
  rw [hm, hp.1, hp.2, mix_mixInv]

/-! ### the word permutation -/

/-- π and π⁻¹ are mutually inverse maps of {0..Nw-1} (enumerated for the three sizes) -/
theorem pi_piInv (nw : Nat) (hv : nw = 4 ∨ nw = 8 ∨ nw = 16) (i : Nat) (hi : i < nw) :
    (pi nw).getD ((piInv nw).getD i 0) 0 = i ∧ (piInv nw).getD ((pi nw).getD i 0) 0 = i ∧
    (pi nw).getD i 0 < nw ∧ (piInv nw).getD i 0 < nw := by
  have key : ∀ nw ∈ [4, 8, 16], ∀ i < nw, (pi nw).getD ((piInv nw).getD i 0) 0 = i ∧ (piInv nw).getD ((pi nw).getD i 0) 0 = i ∧
      (pi nw).getD i 0 < nw ∧ (piInv nw).getD i 0 < nw := by decide +kernel
  apply key nw _ i hi
  rcases hv with h | h | h <;> subst h <;> decide

theorem permute_length (p : List Nat) (nw : Nat) (f : List W) : (permute p nw f).length = nw := by simp [permute]

theorem permute_piInv_pi (nw : Nat) (hv : nw = 4 ∨ nw = 8 ∨ nw = 16) (f : List W) (h : f.length = nw) :
    permute (piInv nw) nw (permute (pi nw) nw f) = f := by
  conv => rhs; rw [← map_getD_range f 0, h]
  unfold permute
  apply map_congr_mem
  intro i hi
  have hi' := List.mem_range.1 hi
  obtain ⟨h1, _, _, h4⟩ := pi_piInv nw hv i hi'
  rw [getD_map_range _ _ _ _ h4, h1]

theorem permute_pi_piInv (nw : Nat) (hv : nw = 4 ∨ nw = 8 ∨ nw = 16) (f : List W) (h : f.length = nw) :
    permute (pi nw) nw (permute (piInv nw) nw f) = f := by
  conv => rhs; rw [← map_getD_range f 0, h]
  unfold permute
  apply map_congr_mem
  intro i hi
  have hi' := List.mem_range.1 hi
  obtain ⟨_, h2, h3, _⟩ := pi_piInv nw hv i hi'
  rw [getD_map_range _ _ _ _ h3, h2]

/-! ### key injection -/

theorem subWords_addWords (nw : Nat) (v k : List W) (h : v.length = nw) : subWords nw (addWords nw v k) k = v := by
  conv => rhs; rw [← map_getD_range v 0, h]
  unfold subWords addWords
  apply map_congr_mem
  intro i hi
  rw [getD_map_range _ _ _ _ (List.mem_range.1 hi), BitVec.add_sub_cancel]

theorem addWords_subWords (nw : Nat) (v k : List W) (h : v.length = nw) : addWords nw (subWords nw v k) k = v := by
  conv => rhs; rw [← map_getD_range v 0, h]
  unfold subWords addWords
  apply map_congr_mem
  intro i hi
  rw [getD_map_range _ _ _ _ (List.mem_range.1 hi), BitVec.sub_add_cancel]

theorem addWords_length (nw : Nat) (v k : List W) : (addWords nw v k).length = nw := by simp [addWords]
theorem subWords_length (nw : Nat) (v k : List W) : (subWords nw v k).length = nw := by simp [subWords]

/-! ### rounds -/

theorem even_of_valid {nw : Nat} (hv : nw = 4 ∨ nw = 8 ∨ nw = 16) : 2 * (nw / 2) = nw := by omega

theorem round_length (nw : Nat) (k t v : List W) (d : Nat) : (round nw k t v d).length = nw := by
  simp [round, permute]

theorem roundInv_length (nw : Nat) (hv : nw = 4 ∨ nw = 8 ∨ nw = 16) (k t v : List W) (d : Nat) :
    (roundInv nw k t v d).length = nw := by
  unfold roundInv
  simp only []
  split
  · exact subWords_length _ _ _
  · rw [mixInvLayer_length, even_of_valid hv]

theorem roundInv_round (nw : Nat) (hv : nw = 4 ∨ nw = 8 ∨ nw = 16) (k t v : List W) (d : Nat) (h : v.length = nw) :
    roundInv nw k t (round nw k t v d) d = v := by
  unfold roundInv round
  simp only []
  have he := even_of_valid hv
  by_cases hd : d % 4 = 0
  · simp only [hd, ite_true]
    rw [permute_piInv_pi nw hv _ (by rw [mixLayer_length, he]), mixInvLayer_mixLayer _ _ _ (by rw [addWords_length, he]),
        subWords_addWords _ _ _ h]
  · simp only [hd, ite_false]
    rw [permute_piInv_pi nw hv _ (by rw [mixLayer_length, he]), mixInvLayer_mixLayer _ _ _ (by rw [h, he])]

theorem round_roundInv (nw : Nat) (hv : nw = 4 ∨ nw = 8 ∨ nw = 16) (k t v : List W) (d : Nat) (h : v.length = nw) :
    round nw k t (roundInv nw k t v d) d = v := by
  unfold roundInv round
  simp only []
  have he := even_of_valid hv
  by_cases hd : d % 4 = 0
  · simp only [hd, ite_true]
    rw [addWords_subWords _ _ _ (by rw [mixInvLayer_length, he]), mixLayer_mixInvLayer _ _ _ (by rw [permute_length, he]),
        permute_pi_piInv nw hv _ h]
  · simp only [hd, ite_false]
    rw [mixLayer_mixInvLayer _ _ _ (by rw [permute_length, he]), permute_pi_piInv nw hv _ h]

theorem state_length (nw : Nat) (k t p : List W) (h : p.length = nw) (n : Nat) : (state nw k t p n).length = nw := by
  cases n with
  | zero => exact h
  | succ n => exact round_length _ _ _ _ _

theorem unstate_length (nw : Nat) (hv : nw = 4 ∨ nw = 8 ∨ nw = 16) (k t : List W) (n : Nat) (v : List W) (h : v.length = nw) :
    (unstate nw k t n v).length = nw := by
  induction n generalizing v with
  | zero => exact h
  | succ n ih => exact ih _ (roundInv_length nw hv _ _ _ _)

theorem unstate_state (nw : Nat) (hv : nw = 4 ∨ nw = 8 ∨ nw = 16) (k t p : List W) (h : p.length = nw) (n : Nat) :
    unstate nw k t n (state nw k t p n) = p := by
  induction n with
  | zero => rfl
  | succ n ih =>
    simp only [unstate, state]
    rw [roundInv_round nw hv _ _ _ _ (state_length nw k t p h n), ih]

theorem state_unstate (nw : Nat) (hv : nw = 4 ∨ nw = 8 ∨ nw = 16) (k t : List W) (n : Nat) (v : List W) (h : v.length = nw) :
    state nw k t (unstate nw k t n v) n = v := by
  induction n generalizing v with
  | zero => rfl
  | succ n ih =>
    simp only [unstate, state]
    rw [ih _ (roundInv_length nw hv _ _ _ _), round_roundInv nw hv _ _ _ _ h]

/-- decryption inverts encryption on words, for every key and tweak -/
theorem decWords_encWords (nw : Nat) (hv : nw = 4 ∨ nw = 8 ∨ nw = 16) (K T P : List W) (h : P.length = nw) :
    decWords nw K T (encWords nw K T P) = P := by
  unfold decWords encWords
  simp only []
  rw [subWords_addWords _ _ _ (state_length nw _ _ P h _), unstate_state nw hv _ _ P h]

/-- encryption inverts decryption on words -/
theorem encWords_decWords (nw : Nat) (hv : nw = 4 ∨ nw = 8 ∨ nw = 16) (K T C : List W) (h : C.length = nw) :
    encWords nw K T (decWords nw K T C) = C := by
  unfold decWords encWords
  simp only []
  rw [state_unstate nw hv _ _ _ _ (subWords_length _ _ _), addWords_subWords _ _ _ h]

theorem encWords_length (nw : Nat) (K T P : List W) : (encWords nw K T P).length = nw := addWords_length _ _ _
theorem decWords_length (nw : Nat) (hv : nw = 4 ∨ nw = 8 ∨ nw = 16) (K T C : List W) : (decWords nw K T C).length = nw :=
  unstate_length nw hv _ _ _ _ (subWords_length _ _ _)

end Proofs.Lemmas.TfInverse
