/-
  BLAKE streaming, the empty final piece: `update(a); update(b'',padding=True)` = `update(a,padding=True)` for a
  non-empty block-aligned `a`.  From C09's `continuation_empty` (the blocks and the bit counters observed at the yields
  are those of the one-shot call; only the pad flag seen at the last data block differs, which BLAKE never reads).
-/
import Proofs.Lemmas.BlakeStream
import Proofs.C09
namespace Proofs.Lemmas.BlakeStreamEmpty
open Model Model.Py Proofs.Lemmas.Padding Proofs.Lemmas.BlakeStream

theorem valid_blakeP (c : Blake.Cfg) (hc : blakeCfg c) : Valid (Padder.blakeP c.size) := by
  rcases hc with rfl | rfl | rfl | rfl <;> exact ⟨by decide, by decide, rfl⟩

/-- two lists with equal images under f and under g have equal images under the pairing -/
theorem map_pair_eq {α β γ} (f : α → β) (g : α → γ) (l l' : List α) (hf : l.map f = l'.map f) (hg : l.map g = l'.map g) :
    l.map (fun y => (f y, g y)) = l'.map (fun y => (f y, g y)) := by
  have hlen : l.length = l'.length := by simpa using congrArg List.length hf
  apply List.ext_getElem
  · simpa using hlen
  · intro i h1 h2
    simp only [List.length_map] at h1 h2
    simp only [List.getElem_map]
    have e1 : (l.map f)[i]'(by simpa using h1) = (l'.map f)[i]'(by simpa using h2) := by simp only [hf]
    have e2 : (l.map g)[i]'(by simpa using h1) = (l'.map g)[i]'(by simpa using h2) := by simp only [hg]
    simp only [List.getElem_map] at e1 e2
    rw [e1, e2]

/-- BLAKE: a final update on the empty string after a non-empty block-aligned piece gives the digest and the object
    state of the one-shot final update on that piece -/
theorem blake_update_append_nil (c : Blake.Cfg) (hc : blakeCfg c) (s : Blake.State) (hpf : s.pad.padflag = false)
    (a : List Nat) (ha : Bytes a) (n : Nat) (hn : a.length = (n + 1) * (c.blocksize / 8)) :
    Blake.update c s a none true = Blake.update c (Blake.update c s a none false).1 [] none true := by
  obtain ⟨hB, hbs, hbl⟩ := blakeP_geom c hc
  have hv := valid_blakeP c hc
  have hne : a ≠ [] := by
    intro h
    rw [h] at hn
    have := blocklen_pos c hc
    simp only [List.length_nil] at hn
    have : 0 < (n + 1) * (c.blocksize / 8) := Nat.mul_pos (by omega) this
    omega
  have hm1 : (8 * a.length) % (Padder.blakeP c.size).blocksize = 0 := by
    rw [hn, hv.size_eq, hbl, ← Nat.mul_assoc, Nat.mul_comm 8 (n + 1), Nat.mul_assoc]
    exact Nat.mul_mod_left _ _
  obtain ⟨e1, e2, e3, hy1, hy2, hfin⟩ :=
    Proofs.C09.continuation_empty (Padder.blakeP c.size) hv trivial s.pad hpf a ha hne hm1
  have hpairs := map_pair_eq (fun y : List Nat × PadState => y.1) (fun y => y.2.bitcnt)
    ((Padder.blakeP c.size).iterblocks s.pad a none true).yields
    (((Padder.blakeP c.size).iterblocks s.pad a none false).yields ++
      ((Padder.blakeP c.size).iterblocks ((Padder.blakeP c.size).iterblocks s.pad a none false).final [] none true).yields)
    (by rw [List.map_append]; exact hy1) (by rw [List.map_append]; exact hy2)
  have hfold : ∀ (l : List (List Nat × PadState)) (H : List Bits),
      l.foldl (fun H (y : List Nat × PadState) => Blake.compress c H s.salt (Blake.wordsBE c.wsize y.1) y.2.bitcnt) H
      = (l.map fun y => (y.1, y.2.bitcnt)).foldl
          (fun H (p : List Nat × Nat) => Blake.compress c H s.salt (Blake.wordsBE c.wsize p.1) p.2) H := by
    intro l H; rw [List.foldl_map]
  simp only [Blake.update]
  simp only [e1, e2, e3, hfin]
  rw [hfold, hpairs, ← hfold, List.foldl_append]

/-- an all-empty piece list leaves the object alone -/
theorem blake_feed_empties (c : Blake.Cfg) (pieces : List (List Nat)) (he : pieces.flatten = []) :
    ∀ (s : Blake.State), s.pad.padflag = false → Blake.feed c s pieces = s := by
  induction pieces with
  | nil => intro s _; rfl
  | cons p ps ih =>
    intro s hpf
    rw [List.flatten_cons, List.append_eq_nil_iff] at he
    obtain ⟨rfl, he'⟩ := he
    have := ih he' s hpf
    simpa [Blake.feed, blake_update_nil c s hpf] using this

/-- BLAKE: feeding block-aligned pieces (empty ones included) and finishing with ANY final piece — the empty one
    included — is the one-shot update on the concatenation -/
theorem blake_feed_any (c : Blake.Cfg) (hc : blakeCfg c) (pieces : List (List Nat))
    (hal : ∀ p ∈ pieces, p.length % (c.blocksize / 8) = 0) (hby : ∀ p ∈ pieces, Bytes p) (final : List Nat) :
    ∀ (s : Blake.State), s.pad.padflag = false →
      Blake.update c (Blake.feed c s pieces) final none true = Blake.update c s (pieces.flatten ++ final) none true := by
  by_cases hf : final = []
  · subst hf
    induction pieces with
    | nil => intro s _; rfl
    | cons p ps ih =>
      intro s hpf
      have hal' : ∀ q ∈ ps, q.length % (c.blocksize / 8) = 0 := fun q hq => hal q (by simp [hq])
      have hby' : ∀ q ∈ ps, Bytes q := fun q hq => hby q (by simp [hq])
      by_cases hp : p = []
      · subst hp
        have := ih hal' hby' s hpf
        simpa [Blake.feed, blake_update_nil c s hpf] using this
      · have hpl : 0 < p.length := List.length_pos_iff.mpr hp
        obtain ⟨n, hn⟩ := aligned_nonempty p.length _ (blocklen_pos c hc) hpl (hal p (by simp))
        obtain ⟨hpad, _⟩ := blake_update_nonfinal_pad c hc s hpf p n hn
        have hpf1 : (Blake.update c s p none false).1.pad.padflag = false := by rw [hpad]; exact hpf
        have ih1 := ih hal' hby' (Blake.update c s p none false).1 hpf1
        have hfeed : Blake.feed c s (p :: ps) = Blake.feed c (Blake.update c s p none false).1 ps := by
          simp only [Blake.feed, List.foldl_cons]
        rw [hfeed, ih1, List.flatten_cons, List.append_nil, List.append_nil]
        by_cases hps : ps.flatten = []
        · rw [hps, List.append_nil]
          exact (blake_update_append_nil c hc s hpf p (hby p (by simp)) n hn).symm
        · exact (blake_update_append c hc s hpf p ps.flatten n hn hps).symm
  · intro s hpf
    exact (blake_feed c hc pieces hal final hf s hpf).1

end Proofs.Lemmas.BlakeStreamEmpty
