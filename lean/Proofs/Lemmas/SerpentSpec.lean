/-
  Spec-level facts about Serpent's components: the S-box layer and the linear transformation are invertible.
-/
import Proofs.Lemmas.SerpentComp
namespace Proofs.Lemmas.SerpentSpec
open Model Model.Bits Proofs.Lemmas.SerpentBits Proofs.Lemmas.SerpentComp Spec.Serpent

/-- the 8 S-boxes of the submission are permutations of 0..15 and `sboxInv` (position search) inverts them -/
theorem sbox_perm : ∀ i < 8, ∀ x < 16,
    sboxInv i (sbox i x) = x ∧ sbox i (sboxInv i x) = x ∧ sbox i x < 16 ∧ sboxInv i x < 16 := by decide +kernel

theorem column_bits (b0 b1 b2 b3 : Bool) :
    (b0.toNat + 2 * b1.toNat + 4 * b2.toNat + 8 * b3.toNat).testBit 0 = b0 ∧
    (b0.toNat + 2 * b1.toNat + 4 * b2.toNat + 8 * b3.toNat).testBit 1 = b1 ∧
    (b0.toNat + 2 * b1.toNat + 4 * b2.toNat + 8 * b3.toNat).testBit 2 = b2 ∧
    (b0.toNat + 2 * b1.toNat + 4 * b2.toNat + 8 * b3.toNat).testBit 3 = b3 := by
  cases b0 <;> cases b1 <;> cases b2 <;> cases b3 <;> decide

theorem column_applyBox (f : Nat → Nat) (s : State) (k : Nat) (hk : k < 32) (hf : ∀ x < 16, f x < 16) :
    column (applyBox f s) k = f (column s k) := by
  have h := hf _ (column_lt s k)
  conv => rhs; rw [nibble_eq _ h]
  simp only [column, applyBox, testBit_ofBitFn, hk, decide_true, Bool.true_and]

theorem applyBox_comp (f g : Nat → Nat) (s : State) (hf : ∀ x < 16, f x < 16) :
    applyBox g (applyBox f s) = applyBox (fun x => g (f x)) s := by
  unfold applyBox
  simp only [State.mk.injEq]
  refine ⟨?_, ?_, ?_, ?_⟩ <;>
  · apply ofBitFn_congr
    intro k hk
    have := column_applyBox f s k hk hf
    unfold applyBox at this
    rw [this]

theorem applyBox_id (s : State) (hs : WS s) : applyBox (fun x => x) s = s := by
  obtain ⟨h0, h1, h2, h3⟩ := hs
  cases s with | mk x0 x1 x2 x3 =>
  simp only at h0 h1 h2 h3
  unfold applyBox column
  simp only [State.mk.injEq]
  refine ⟨?_, ?_, ?_, ?_⟩
  · conv => rhs; rw [← ofBitFn_testBit 32 x0 h0]
    apply ofBitFn_congr; intro k _
    exact (column_bits _ _ _ _).1
  · conv => rhs; rw [← ofBitFn_testBit 32 x1 h1]
    apply ofBitFn_congr; intro k _
    exact (column_bits _ _ _ _).2.1
  · conv => rhs; rw [← ofBitFn_testBit 32 x2 h2]
    apply ofBitFn_congr; intro k _
    exact (column_bits _ _ _ _).2.2.1
  · conv => rhs; rw [← ofBitFn_testBit 32 x3 h3]
    apply ofBitFn_congr; intro k _
    exact (column_bits _ _ _ _).2.2.2

theorem applyBox_sboxInv_sbox (i : Nat) (hi : i < 8) (s : State) (hs : WS s) :
    applyBox (sboxInv i) (applyBox (sbox i) s) = s := by
  rw [applyBox_comp _ _ _ (fun x hx => (sbox_perm i hi x hx).2.2.1),
    applyBox_congr _ (fun x => x) s (fun x hx => (sbox_perm i hi x hx).1), applyBox_id s hs]

theorem applyBox_sbox_sboxInv (i : Nat) (hi : i < 8) (s : State) (hs : WS s) :
    applyBox (sbox i) (applyBox (sboxInv i) s) = s := by
  rw [applyBox_comp _ _ _ (fun x hx => (sbox_perm i hi x hx).2.2.2),
    applyBox_congr _ (fun x => x) s (fun x hx => (sbox_perm i hi x hx).2.1), applyBox_id s hs]

/-! ### rotations and the linear transformation -/
theorem W_rol! (a n : Nat) (hn : n ≤ 32) : (W a).rol! n = W (rotl a n) := by
  have h1 := rol_eq (W a) n hn
  rw [W_rol a n hn] at h1
  exact (Except.ok.inj h1).symm

theorem W_ror! (a n : Nat) (hn : n ≤ 32) : (W a).ror! n = W (rotr a n) := by
  have h1 := ror_eq (W a) n hn
  rw [W_ror a n hn] at h1
  exact (Except.ok.inj h1).symm

theorem rotr_rotl (a n : Nat) (hn : n ≤ 32) (ha : a < 2 ^ 32) : rotr (rotl a n) n = a := by
  have h := ror!_rol! (W a) n hn ha
  rw [W_rol! a n hn, W_ror! _ n hn] at h
  exact congrArg Bits.ival h

theorem rotl_rotr (a n : Nat) (hn : n ≤ 32) (ha : a < 2 ^ 32) : rotl (rotr a n) n = a := by
  have h := rol!_ror! (W a) n hn ha
  rw [W_ror! a n hn, W_rol! _ n hn] at h
  exact congrArg Bits.ival h

theorem xor_cancel (a b c : Nat) : a ^^^ b ^^^ c ^^^ b ^^^ c = a := by
  apply Nat.eq_of_testBit_eq; intro j
  simp only [Nat.testBit_xor]
  cases a.testBit j <;> cases b.testBit j <;> cases c.testBit j <;> rfl

macro "ws_bound" : tactic =>
  `(tactic| repeat (first | exact rotl_lt _ _ | exact rotr_lt _ _ | exact shl_lt _ _ | assumption | apply Nat.xor_lt_two_pow))

theorem ltInv_lt (s : State) (hs : WS s) : ltInv (lt s) = s := by
  obtain ⟨h0, h1, h2, h3⟩ := hs
  cases s with | mk x0 x1 x2 x3 =>
  simp only at h0 h1 h2 h3
  unfold lt ltInv
  simp only []
  rw [rotr_rotl _ 22 (by decide) (by ws_bound), rotr_rotl _ 5 (by decide) (by ws_bound)]
  rw [xor_cancel, xor_cancel]
  rw [rotr_rotl _ 7 (by decide) (by ws_bound), rotr_rotl _ 1 (by decide) (by ws_bound)]
  rw [xor_cancel, xor_cancel]
  rw [rotr_rotl _ 3 (by decide) h2, rotr_rotl _ 13 (by decide) h0]

theorem lt_ltInv (s : State) (hs : WS s) : lt (ltInv s) = s := by
  obtain ⟨h0, h1, h2, h3⟩ := hs
  cases s with | mk x0 x1 x2 x3 =>
  simp only at h0 h1 h2 h3
  unfold lt ltInv
  simp only []
  rw [rotl_rotr _ 13 (by decide) (by ws_bound), rotl_rotr _ 3 (by decide) (by ws_bound)]
  rw [xor_cancel, xor_cancel]
  rw [rotl_rotr _ 1 (by decide) h1, rotl_rotr _ 7 (by decide) h3]
  rw [xor_cancel, xor_cancel]
  rw [rotl_rotr _ 5 (by decide) h0, rotl_rotr _ 22 (by decide) h2]

end Proofs.Lemmas.SerpentSpec
