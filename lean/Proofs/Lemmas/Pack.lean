/- serialisation: pack(h) and pack(h, big-endian) of a word are its little-endian and big-endian bytes -/
import Proofs.Lemmas.BitsBitVec
import Proofs.Lemmas.Parse
namespace Proofs.Lemmas.Pack
open Model Proofs.Lemmas.BitsBitVec Proofs.Lemmas.Parse

theorem reverse_map_range {α} (n : Nat) (f : Nat → α) :
    ((List.range n).map f).reverse = (List.range n).map fun i => f (n - 1 - i) := by
  apply List.ext_getElem
  · simp
  · intro i h1 h2
    simp only [List.length_reverse, List.length_map, List.length_range] at h1
    simp only [List.getElem_reverse, List.getElem_map, List.getElem_range, List.length_map, List.length_range]

theorem byte_of (X a : Nat) : ((X % 2 ^ (a + 8)) >>> a) % 2 ^ 8 = (X >>> a) % 2 ^ 8 := by
  rw [Nat.shiftRight_eq_div_pow, Nat.shiftRight_eq_div_pow, Nat.pow_add, Nat.mod_mul_right_div_self, Nat.mod_mod]

theorem pack_le {w : Nat} (x : BitVec w) (hw : w % 8 = 0) :
    (ofBV x).pack false = toNatBytes (Spec.leBytes (w / 8) x.toNat) := by
  have hn : (w + 7) / 8 = w / 8 := by omega
  simp only [Bits.pack, ofBV_size, hn, Bool.false_eq_true, if_false, toNatBytes, Spec.leBytes, List.map_map]
  apply List.map_congr_left
  intro j hj
  have hj : j < w / 8 := by simpa using hj
  have hmin : min (j * 8 + 8) w = j * 8 + 8 := by omega
  have e : j * 8 + 8 - j * 8 = 8 := by omega
  simp only [Function.comp, hmin, Bits.sliceFast, Bits.ofNatSz, ofBV_ival, e, Nat.and_two_pow_sub_one_eq_mod,
    BitVec.toNat_ofNat, show (255 : Nat) = 2 ^ 8 - 1 by decide]
  rw [Nat.mod_mod, byte_of, Nat.mul_comm]

theorem pack_be {w : Nat} (x : BitVec w) (hw : w % 8 = 0) :
    (ofBV x).pack true = toNatBytes (Spec.beBytes (w / 8) x.toNat) := by
  have h := pack_le x hw
  simp only [Bits.pack, Bool.false_eq_true, if_false, if_true] at h ⊢
  rw [h]
  simp only [toNatBytes, Spec.leBytes, Spec.beBytes, List.map_map, reverse_map_range]
  rfl

end Proofs.Lemmas.Pack
