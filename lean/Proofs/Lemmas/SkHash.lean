/-
  Skein: stages, configuration string, output function and the plain (non-tree) hash versus Spec.Skein.
-/
import Proofs.Lemmas.SkUbi
namespace Proofs.Lemmas.SkHash
open Model Proofs.Lemmas.TfBytes Proofs.Lemmas.SkBytes Proofs.Lemmas.SkTweak Proofs.Lemmas.SkUbi
open Spec.Threefish (toInt toBytes)

/-- `Tweak(Type=ty)` = the tweak integer type·2^120 -/
theorem tweakOfType_eq (ty : String) (c : Nat) (hc : Skein.typeCode ty = .ok c) (hlt : c < 64) :
    Skein.tweakOfType ty = .ok ⟨c * 2 ^ 120, 128⟩ := by
  unfold Skein.tweakOfType Skein.setType
  rw [hc]
  simp only [bind, Except.bind]
  rw [setTypeCode_eq 0 c (by decide) (by omega)]
  congr 2
  omega

theorem pre_of_type (M : List Nat) (c : Nat) (hlt : c < 64) (hM : M.length < 2 ^ 96) : Spec.Skein.ubiPre M (c * 2 ^ 120) = true := by
  rw [ubiPre_iff]
  refine ⟨by omega, by omega, by omega, by omega, by omega⟩

theorem bitsOf_none (M : List Nat) : bitsOf M none = 8 * M.length := rfl

/-- a non-message stage `update(M,ty)` -/
theorem stage_eq (G M : List Nat) (ty : String) (c : Nat) (hc : Skein.typeCode ty = .ok c) (hlt : c < 64)
    (hG : IsBytes G) (hM : IsBytes M) (hGl : G.length = 32 ∨ G.length = 64 ∨ G.length = 128) (hMl : M.length < 2 ^ 96) :
    Skein.stage G M ty = .ok (Spec.Skein.ubiBytes G M (c * 2 ^ 120)) ∧
    IsBytes (Spec.Skein.ubiBytes G M (c * 2 ^ 120)) ∧ (Spec.Skein.ubiBytes G M (c * 2 ^ 120)).length = G.length := by
  have h := ubi_eq G M none (c * 2 ^ 120) hG hM hGl (Nat.le_refl _) (pre_of_type M c hlt hMl)
  have ht := tweakOfType_eq ty c hc hlt
  simp only [Skein.stage, Spec.Skein.ubiBytes, ht, bind, Except.bind]
  exact h

theorem truthy_iff (o : Option (List Nat)) : Skein.truthy o = true ↔ o.getD [] ≠ [] := by
  cases o with
  | none => simp [Skein.truthy]
  | some l => cases l <;> simp [Skein.truthy]

theorem optStage_eq (G : List Nat) (o : Option (List Nat)) (ty : String) (c : Nat) (hc : Skein.typeCode ty = .ok c) (hlt : c < 64)
    (hG : IsBytes G) (hM : IsBytes (o.getD [])) (hGl : G.length = 32 ∨ G.length = 64 ∨ G.length = 128)
    (hMl : (o.getD []).length < 2 ^ 96) :
    Skein.optStage G o ty = .ok (Spec.Skein.optStage G (o.getD []) c) ∧
    IsBytes (Spec.Skein.optStage G (o.getD []) c) ∧ (Spec.Skein.optStage G (o.getD []) c).length = G.length := by
  unfold Skein.optStage Spec.Skein.optStage
  by_cases h : o.getD [] = []
  · have : Skein.truthy o = false := by
      cases ht : Skein.truthy o with
      | false => rfl
      | true => exact absurd h ((truthy_iff o).1 ht)
    simp only [this, Bool.false_eq_true, ite_false, h, ite_true]
    refine ⟨?_, hG, ?_⟩ <;> first | rfl | trivial
  · have : Skein.truthy o = true := (truthy_iff o).2 h
    simp only [this, ite_true, h, ite_false]
    exact stage_eq G _ ty c hc hlt hG hM hGl hMl

/-! ### configuration string -/

theorem toBytes_append (a b v : Nat) : toBytes (a + b) v = toBytes a v ++ toBytes b (v / 256 ^ a) := by
  induction a generalizing v with
  | zero => simp [toBytes]
  | succ a ih =>
    rw [show a + 1 + b = (a + b) + 1 by omega]
    simp only [toBytes, List.cons_append, ih]
    congr 3
    rw [Nat.pow_succ, Nat.div_div_eq_div_mul, Nat.mul_comm]

theorem toBytes12 (v : Nat) : toBytes 12 v =
    [v % 256, v / 2 ^ 8 % 256, v / 2 ^ 16 % 256, v / 2 ^ 24 % 256, v / 2 ^ 32 % 256, v / 2 ^ 40 % 256, v / 2 ^ 48 % 256, v / 2 ^ 56 % 256,
     v / 2 ^ 64 % 256, v / 2 ^ 72 % 256, v / 2 ^ 80 % 256, v / 2 ^ 88 % 256] := by
  simp only [toBytes, List.cons.injEq, and_true, true_and, Nat.reducePow]
  omega

theorem pack96 (T : Nat) : (⟨T, 96⟩ : Bits).pack = toBytes 12 T := by
  rw [toBytes12]
  unfold Bits.pack Bits.sliceFast Bits.ofNatSz
  simp only [show (96 + 7) / 8 = 12 from rfl,
    show List.range 12 = [0, 1, 2, 3, 4, 5, 6, 7, 8, 9, 10, 11] by decide, List.map_cons, List.map_nil,
    Nat.and_two_pow_sub_one_eq_mod, Nat.shiftRight_eq_div_pow, Bool.false_eq_true, ite_false,
    show (255 : Nat) = 2 ^ 8 - 1 from rfl]
  simp only [Nat.reduceMul, Nat.reduceAdd, show min 8 96 = 8 from rfl, show min 16 96 = 16 from rfl, show min 24 96 = 24 from rfl,
    show min 32 96 = 32 from rfl, show min 40 96 = 40 from rfl, show min 48 96 = 48 from rfl, show min 56 96 = 56 from rfl,
    show min 64 96 = 64 from rfl, show min 72 96 = 72 from rfl, show min 80 96 = 80 from rfl, show min 88 96 = 88 from rfl,
    show min 96 96 = 96 from rfl, Nat.reduceSub, Nat.reducePow, List.cons.injEq, and_true]
  omega

/-- the header `pack(Bits(1,16)//Bits(0,16)//Bits(No,64))` -/
theorem hdr_eq (No : Nat) :
    (((Bits.ofNatSz 1 16).concat (Bits.ofNatSz 0 16)).concat (Bits.ofNatSz No 64)).pack =
      toBytes 2 1 ++ toBytes 2 0 ++ toBytes 8 No := by
  have h1 : ((Bits.ofNatSz 1 16).concat (Bits.ofNatSz 0 16)) = ⟨1, 32⟩ := by
    simp [Bits.concat, Bits.ofNatSz]
  have hN : No % 2 ^ 64 < 2 ^ 64 := Nat.mod_lt _ (Nat.two_pow_pos _)
  have h2 : (⟨1, 32⟩ : Bits).concat (Bits.ofNatSz No 64) = ⟨1 + No % 2 ^ 64 * 2 ^ 32, 96⟩ := by
    unfold Bits.concat Bits.ofNatSz
    simp only [show 32 + 64 = 96 from rfl]
    rw [Nat.or_comm, ← Nat.shiftLeft_add_eq_or_of_lt (by decide : 1 < 2 ^ 32), Nat.shiftLeft_eq, Nat.add_comm, Nat.mod_eq_of_lt (by omega)]
  rw [h1, h2, pack96, toBytes12, toBytes8]
  simp only [toBytes, List.cons_append, List.nil_append, List.cons.injEq, and_true]
  omega

theorem cfg_eq (Nb No Yl Yf Ym : Nat) (key prs PK kdf non : Option (List Nat)) (c : Skein.Cfg)
    (h : Skein.mk Nb No Yl Yf Ym key prs PK kdf non = .ok c) :
    (Nb = 256 ∨ Nb = 512 ∨ Nb = 1024) ∧ Yl ≤ 255 ∧ Yf ≤ 255 ∧ Ym ≤ 255 ∧
    c = { Nb := Nb / 8, No := No, C := Spec.Skein.cfgString No Yl Yf Ym, Yl := Yl, Yf := Yf, Ym := Ym,
          key := key, prs := prs, PK := PK, kdf := kdf, non := non } := by
  unfold Skein.mk at h
  by_cases h1 : (Nb = 256 ∨ Nb = 512 ∨ Nb = 1024)
  · by_cases h2 : (Yl > 255 ∨ Yf > 255 ∨ Ym > 255)
    · simp [h1, h2] at h
    · simp only [h1, not_true_eq_false, ite_false, h2] at h
      injection h with h
      refine ⟨h1, by omega, by omega, by omega, ?_⟩
      rw [← h, hdr_eq]
      simp only [Spec.Skein.cfgString, List.append_assoc, Skein.Cfg.mk.injEq, and_true, true_and]
      rfl
  · simp [h1] at h

theorem isBytes_cfgString (No Yl Yf Ym : Nat) (h1 : Yl ≤ 255) (h2 : Yf ≤ 255) (h3 : Ym ≤ 255) :
    IsBytes (Spec.Skein.cfgString No Yl Yf Ym) ∧ (Spec.Skein.cfgString No Yl Yf Ym).length = 32 := by
  unfold Spec.Skein.cfgString
  refine ⟨?_, by simp [toBytes_length]⟩
  refine isBytes_append (isBytes_append (isBytes_append (isBytes_append (isBytes_append (isBytes_toBytes _ _) (isBytes_toBytes _ _))
    (isBytes_toBytes _ _)) (isBytes_toBytes _ _)) ?_) (isBytes_replicate0 _)
  intro x hx
  simp only [List.mem_cons, List.not_mem_nil, or_false] at hx
  rcases hx with h | h | h <;> subst h <;> omega


theorem code_key : Skein.typeCode "key" = .ok Spec.Skein.Tkey := rfl
theorem code_cfg : Skein.typeCode "cfg" = .ok Spec.Skein.Tcfg := rfl
theorem code_prs : Skein.typeCode "prs" = .ok Spec.Skein.Tprs := rfl
theorem code_PK : Skein.typeCode "PK" = .ok Spec.Skein.TPK := rfl
theorem code_kdf : Skein.typeCode "kdf" = .ok Spec.Skein.Tkdf := rfl
theorem code_non : Skein.typeCode "non" = .ok Spec.Skein.Tnon := rfl
theorem code_msg : Skein.typeCode "msg" = .ok Spec.Skein.Tmsg := rfl
theorem code_out : Skein.typeCode "out" = .ok Spec.Skein.Tout := rfl

/-- the optional strings of a call, with the conditions a Python `bytes` shorter than 2^96 satisfies -/
structure OptOk (o : Option (List Nat)) : Prop where
  bytes : IsBytes (o.getD [])
  len : (o.getD []).length < 2 ^ 96

/-- the chaining value after key / cfg / prs / PK / kdf / nonce stages -/
def specInit (NbBits No Yl Yf Ym : Nat) (key prs pk kdf nonce : List Nat) : List Nat :=
  let Nb := NbBits / 8
  let K' := if key = [] then List.replicate Nb 0 else Spec.Skein.ubiBytes (List.replicate Nb 0) key (Spec.Skein.Tkey * 2 ^ 120)
  let G := Spec.Skein.ubiBytes K' (Spec.Skein.cfgString No Yl Yf Ym) (Spec.Skein.Tcfg * 2 ^ 120)
  let G := Spec.Skein.optStage G prs Spec.Skein.Tprs
  let G := Spec.Skein.optStage G pk Spec.Skein.TPK
  let G := Spec.Skein.optStage G kdf Spec.Skein.Tkdf
  Spec.Skein.optStage G nonce Spec.Skein.Tnon

theorem initstate_eq (Nb No Yl Yf Ym : Nat) (key prs PK kdf non : Option (List Nat))
    (hNb : Nb = 256 ∨ Nb = 512 ∨ Nb = 1024) (h1 : Yl ≤ 255) (h2 : Yf ≤ 255) (h3 : Ym ≤ 255)
    (hk : OptOk key) (hp : OptOk prs) (hP : OptOk PK) (hd : OptOk kdf) (hn : OptOk non) :
    Skein.initstate (Skein.Cfg.mk (Nb / 8) No (Spec.Skein.cfgString No Yl Yf Ym) Yl Yf Ym key prs PK kdf non) =
      .ok (specInit Nb No Yl Yf Ym (key.getD []) (prs.getD []) (PK.getD []) (kdf.getD []) (non.getD [])) ∧
    IsBytes (specInit Nb No Yl Yf Ym (key.getD []) (prs.getD []) (PK.getD []) (kdf.getD []) (non.getD [])) ∧
    (specInit Nb No Yl Yf Ym (key.getD []) (prs.getD []) (PK.getD []) (kdf.getD []) (non.getD [])).length = Nb / 8 := by
  have hl0 : (List.replicate (Nb / 8) 0).length = 32 ∨ (List.replicate (Nb / 8) 0).length = 64 ∨ (List.replicate (Nb / 8) 0).length = 128 := by
    rw [List.length_replicate]; omega
  obtain ⟨a1, a2, a3⟩ := optStage_eq (List.replicate (Nb / 8) 0) key "key" Spec.Skein.Tkey code_key (by decide) (isBytes_replicate0 _) hk.bytes hl0 hk.len
  have a3' : (Spec.Skein.optStage (List.replicate (Nb / 8) 0) (key.getD []) Spec.Skein.Tkey).length = Nb / 8 := by rw [a3, List.length_replicate]
  obtain ⟨c1, c2⟩ := isBytes_cfgString No Yl Yf Ym h1 h2 h3
  obtain ⟨b1, b2, b3⟩ := stage_eq _ (Spec.Skein.cfgString No Yl Yf Ym) "cfg" Spec.Skein.Tcfg code_cfg (by decide) a2 c1 (by rw [a3']; omega) (by rw [c2]; decide)
  obtain ⟨d1, d2, d3⟩ := optStage_eq _ prs "prs" Spec.Skein.Tprs code_prs (by decide) b2 hp.bytes (by rw [b3, a3']; omega) hp.len
  obtain ⟨e1, e2, e3⟩ := optStage_eq _ PK "PK" Spec.Skein.TPK code_PK (by decide) d2 hP.bytes (by rw [d3, b3, a3']; omega) hP.len
  obtain ⟨f1, f2, f3⟩ := optStage_eq _ kdf "kdf" Spec.Skein.Tkdf code_kdf (by decide) e2 hd.bytes (by rw [e3, d3, b3, a3']; omega) hd.len
  obtain ⟨g1, g2, g3⟩ := optStage_eq _ non "non" Spec.Skein.Tnon code_non (by decide) f2 hn.bytes (by rw [f3, e3, d3, b3, a3']; omega) hn.len
  have hK : Spec.Skein.optStage (List.replicate (Nb / 8) 0) (key.getD []) Spec.Skein.Tkey =
      (if key.getD [] = [] then List.replicate (Nb / 8) 0
       else Spec.Skein.ubiBytes (List.replicate (Nb / 8) 0) (key.getD []) (Spec.Skein.Tkey * 2 ^ 120)) := rfl
  unfold specInit
  simp only [← hK]
  refine ⟨?_, g2, by rw [g3, f3, e3, d3, b3, a3']⟩
  unfold Skein.initstate
  simp only [bind, Except.bind, a1, b1, d1, e1, f1]
  exact g1

/-! ### output function -/

theorem mapM_ok {α β} (l : List α) (g : α → Except Err β) (f : α → β) (h : ∀ a ∈ l, g a = .ok (f a)) :
    l.mapM g = .ok (l.map f) := by
  induction l with
  | nil => rfl
  | cons a l ih =>
    rw [List.mapM_cons, h a (by simp), ih (fun b hb => h b (by simp [hb]))]
    rfl

theorem flatMap_length_const {α β} (l : List α) (f : α → List β) (n : Nat) (h : ∀ a ∈ l, (f a).length = n) :
    (l.flatMap f).length = l.length * n := by
  induction l with
  | nil => simp
  | cons a l ih =>
    rw [List.flatMap_cons, List.length_append, h a (by simp), ih (fun b hb => h b (by simp [hb])), List.length_cons, Nat.succ_mul]
    omega

theorem isBytes_flatMap {α} (l : List α) (f : α → List Nat) (h : ∀ a ∈ l, IsBytes (f a)) : IsBytes (l.flatMap f) := by
  intro x hx
  obtain ⟨a, ha, hxa⟩ := List.mem_flatMap.1 hx
  exact h a ha x hxa

theorem ctr_block (G : List Nat) (i : Nat) (hG : IsBytes G) (hGl : G.length = 32 ∨ G.length = 64 ∨ G.length = 128) :
    Skein.ubi G ⟨Spec.Skein.Tout * 2 ^ 120, 128⟩ (Bits.ofNatSz i 64).pack none = .ok (Spec.Skein.ubiBytes G (toBytes 8 i) (Spec.Skein.Tout * 2 ^ 120)) ∧
    IsBytes (Spec.Skein.ubiBytes G (toBytes 8 i) (Spec.Skein.Tout * 2 ^ 120)) ∧
    (Spec.Skein.ubiBytes G (toBytes 8 i) (Spec.Skein.Tout * 2 ^ 120)).length = G.length := by
  have h := ubi_eq G (toBytes 8 i) none (Spec.Skein.Tout * 2 ^ 120) hG (isBytes_toBytes _ _) hGl (Nat.le_refl _)
    (pre_of_type _ Spec.Skein.Tout (by decide) (by rw [toBytes_length]; decide))
  simp only [pack64, Spec.Skein.ubiBytes]
  exact h

theorem output_eq (c : Skein.Cfg) (G : List Nat) (hG : IsBytes G) (hGl : G.length = 32 ∨ G.length = 64 ∨ G.length = 128) :
    Skein.output c G = .ok (Spec.Skein.output G c.No) ∧ (Spec.Skein.output G c.No).length = (c.No + 7) / 8 ∧
    IsBytes (Spec.Skein.output G c.No) := by
  have hne : ¬ (G.length = 0) := by omega
  have ht := tweakOfType_eq "out" Spec.Skein.Tout code_out (by decide)
  have hm := mapM_ok (List.range ((((c.No + 7) / 8) + G.length - 1) / G.length))
    (fun i => Skein.ubi G ⟨Spec.Skein.Tout * 2 ^ 120, 128⟩ (Bits.ofNatSz i 64).pack none)
    (fun i => Spec.Skein.ubiBytes G (toBytes 8 i) (Spec.Skein.Tout * 2 ^ 120)) (fun i _ => (ctr_block G i hG hGl).1)
  refine ⟨?_, ?_, ?_⟩
  · simp only [Skein.output, Spec.Skein.output, ht, bind, Except.bind, hne, false_and, ite_false, hm, pure, Except.pure,
      List.flatMap_map, id]
  · unfold Spec.Skein.output
    simp only [hne, ite_false, List.length_take]
    rw [flatMap_length_const _ _ G.length (fun i _ => (ctr_block G i hG hGl).2.2), List.length_range]
    rcases hGl with h | h | h <;> rw [h] <;> omega
  · unfold Spec.Skein.output
    exact (isBytes_flatMap _ _ (fun i _ => (ctr_block G i hG hGl).2.1)).take _


/-! ### the plain hash / MAC (no tree) -/

theorem mk_ok (Nb No Yl Yf Ym : Nat) (key prs PK kdf non : Option (List Nat))
    (hNb : Nb = 256 ∨ Nb = 512 ∨ Nb = 1024) (h1 : Yl ≤ 255) (h2 : Yf ≤ 255) (h3 : Ym ≤ 255) :
    Skein.mk Nb No Yl Yf Ym key prs PK kdf non =
      .ok (Skein.Cfg.mk (Nb / 8) No (Spec.Skein.cfgString No Yl Yf Ym) Yl Yf Ym key prs PK kdf non) := by
  unfold Skein.mk
  have h4 : ¬ (Yl > 255 ∨ Yf > 255 ∨ Ym > 255) := by omega
  simp only [hNb, not_true_eq_false, ite_false, h4, hdr_eq]
  simp only [Spec.Skein.cfgString, List.append_assoc]
  rfl

theorem hash_plain (Nb No : Nat) (key prs PK kdf non : Option (List Nat)) (M : List Nat) (bitlen : Option Nat)
    (hNb : Nb = 256 ∨ Nb = 512 ∨ Nb = 1024) (hM : IsBytes M) (hMl : M.length < 2 ^ 96) (hL : bitsOf M bitlen ≤ 8 * M.length)
    (hk : OptOk key) (hp : OptOk prs) (hP : OptOk PK) (hd : OptOk kdf) (hn : OptOk non) :
    Skein.hash Nb No 0 0 0 key prs PK kdf non M bitlen =
      .ok (Spec.Skein.output (Spec.Skein.ubi (specInit Nb No 0 0 0 (key.getD []) (prs.getD []) (PK.getD []) (kdf.getD []) (non.getD []))
              M (bitsOf M bitlen) (Spec.Skein.Tmsg * 2 ^ 120)) No) ∧
    (Spec.Skein.output (Spec.Skein.ubi (specInit Nb No 0 0 0 (key.getD []) (prs.getD []) (PK.getD []) (kdf.getD []) (non.getD []))
              M (bitsOf M bitlen) (Spec.Skein.Tmsg * 2 ^ 120)) No).length = (No + 7) / 8 := by
  obtain ⟨i1, i2, i3⟩ := initstate_eq Nb No 0 0 0 key prs PK kdf non hNb (by decide) (by decide) (by decide) hk hp hP hd hn
  have hGl : (specInit Nb No 0 0 0 (key.getD []) (prs.getD []) (PK.getD []) (kdf.getD []) (non.getD [])).length = 32 ∨
      (specInit Nb No 0 0 0 (key.getD []) (prs.getD []) (PK.getD []) (kdf.getD []) (non.getD [])).length = 64 ∨
      (specInit Nb No 0 0 0 (key.getD []) (prs.getD []) (PK.getD []) (kdf.getD []) (non.getD [])).length = 128 := by
    rw [i3]; omega
  obtain ⟨u1, u2, u3⟩ := ubi_eq _ M bitlen (Spec.Skein.Tmsg * 2 ^ 120) i2 hM hGl hL (pre_of_type M Spec.Skein.Tmsg (by decide) hMl)
  have ht := tweakOfType_eq "msg" Spec.Skein.Tmsg code_msg (by decide)
  obtain ⟨o1, o2, _⟩ := output_eq (Skein.Cfg.mk (Nb / 8) No (Spec.Skein.cfgString No 0 0 0) 0 0 0 key prs PK kdf non) _ u2 (by rw [u3]; exact hGl)
  refine ⟨?_, o2⟩
  unfold Skein.hash Skein.call Skein.updateMsg
  simp only [mk_ok Nb No 0 0 0 key prs PK kdf non hNb (by decide) (by decide) (by decide), bind, Except.bind, i1, and_self,
    not_true_eq_false, ite_false, ht, u1]
  exact o1

theorem spec_plain (Nb No : Nat) (key prs pk kdf non M : List Nat) (L : Nat) (hNb : Nb = 256 ∨ Nb = 512 ∨ Nb = 1024) :
    Spec.Skein.skein Nb No key prs pk kdf non 0 0 0 M L =
      some (Spec.Skein.output (Spec.Skein.ubi (specInit Nb No 0 0 0 key prs pk kdf non) M L (Spec.Skein.Tmsg * 2 ^ 120)) No) := by
  have hp : Spec.Skein.paramsOk Nb 0 0 0 = true := by
    rcases hNb with h | h | h <;> subst h <;> decide
  unfold Spec.Skein.skein specInit
  simp only [hp, not_true_eq_false, ite_false, and_self, ite_true]

theorem hash_bad_Nb (Nb No Yl Yf Ym : Nat) (key prs PK kdf non : Option (List Nat)) (M : List Nat) (bitlen : Option Nat)
    (hNb : ¬ (Nb = 256 ∨ Nb = 512 ∨ Nb = 1024)) :
    (∃ e, Skein.hash Nb No Yl Yf Ym key prs PK kdf non M bitlen = .error e) ∧
    Spec.Skein.skein Nb No (key.getD []) (prs.getD []) (PK.getD []) (kdf.getD []) (non.getD []) Yl Yf Ym M (bitsOf M bitlen) = none := by
  constructor
  · unfold Skein.hash Skein.mk
    simp only [hNb, not_false_eq_true, ite_true, bind, Except.bind]
    exact ⟨_, rfl⟩
  · have hp : Spec.Skein.paramsOk Nb Yl Yf Ym = false := by
      unfold Spec.Skein.paramsOk
      have : (decide (Nb = 256) || decide (Nb = 512) || decide (Nb = 1024)) = false := by
        simp only [Bool.or_eq_false_iff, decide_eq_false_iff_not]; omega
      rw [this, Bool.false_and]
    unfold Spec.Skein.skein
    simp [hp]

end Proofs.Lemmas.SkHash
