/-
  Helper lemmas for C09: everything observable about one padded `iterblocks` call, read off `iterblocks_run`.
-/
import Proofs.Lemmas.PaddingSpec
namespace Proofs.Lemmas.Padding
open Model Model.Padder Spec.Padding

/-- one tail block, or two when even the shortest pad does not fit behind the r remaining message bits -/
def tailBlocks (p : Padder) (r : Nat) : Nat :=
  if p.scheme ≠ .no ∧ ¬ r + minPad p.scheme ≤ p.blocksize then 2 else 1

theorem tailBytes_length (p : Padder) (hv : Valid p) (st : PadState) (m : List Nat) (L : Option Nat)
    (hL : effLen m L ≤ 8 * m.length) (hbg : L ≠ none → BitGranular p.scheme) :
    (p.scheme ≠ .no → (tailBytes p st m L).length = tailBlocks p (rOf p m L) * p.blocklen) ∧
    (p.scheme = .no → (tailBytes p st m L).length ≤ p.blocklen ∧ 8 * (tailBytes p st m L).length = rOf p m L) := by
  obtain ⟨e, h1, h2, h3, h4, h5, h6⟩ := piece_facts p hv m _ hL
  have hB := hv.size_eq
  have hnone : ¬ BitGranular p.scheme → L = none := by
    intro hb
    cases L with
    | none => rfl
    | some a => exact absurd (hbg (by simp)) hb
  have hlen : (tailBytes p st m L).length
      = (rOf p m L + (modelTail p (st.bitcnt + kOf p m L * p.blocksize) (rOf p m L)).length + 7) / 8 := by
    simp only [tailBytes, bitsToBytes_length, List.length_append, List.length_take, bytesToBits_length, rOf, kOf]
    congr 2; omega
  constructor
  · intro hno
    have ht := modelTail_total p hv (st.bitcnt + kOf p m L * p.blocksize) (rOf p m L) h2
      (by
        intro hb
        have := hnone hb; subst this
        have := h6 rfl
        simp only [rOf, kOf]; omega)
      hno
    rw [hlen, ht, tailBlocks]
    by_cases hc : rOf p m L + minPad p.scheme ≤ p.blocksize
    · simp only [hc, not_true_eq_false, and_false, if_true, if_false]; omega
    · simp only [hc, hno, ne_eq, not_false_eq_true, and_self, if_true, if_false]; omega
  · intro hno
    have hb : ¬ BitGranular p.scheme := by simp [hno, BitGranular]
    have := hnone hb; subst this
    have h6' := h6 rfl
    have : (modelTail p (st.bitcnt + kOf p m none * p.blocksize) (rOf p m none)).length = 0 := by
      simp [modelTail, hno]
    rw [hlen, this]
    simp only [rOf, kOf] at *
    omega

theorem modelTail_length_base (p : Padder) (b1 b2 r : Nat) :
    (modelTail p b1 r).length = (modelTail p b2 r).length := by
  cases hs : p.scheme <;> simp [modelTail, hs]

/-- the tail bytes hold exactly the r message bits and the pad bits -/
theorem tailBytes_bits (p : Padder) (hv : Valid p) (st : PadState) (m : List Nat) (L : Option Nat)
    (hL : effLen m L ≤ 8 * m.length) (hbg : L ≠ none → BitGranular p.scheme) :
    8 * (tailBytes p st m L).length = rOf p m L + (modelTail p 0 (rOf p m L)).length := by
  obtain ⟨e, h1, h2, h3, h4, h5, h6⟩ := piece_facts p hv m _ hL
  obtain ⟨hlen1, hlen2⟩ := tailBytes_length p hv st m L hL hbg
  have hB := hv.size_eq
  by_cases hno : p.scheme = .no
  · have : (modelTail p 0 (rOf p m L)).length = 0 := by simp [modelTail, hno]
    rw [this, (hlen2 hno).2]; rfl
  · have hnone : ¬ BitGranular p.scheme → L = none := by
      intro hb
      cases L with
      | none => rfl
      | some a => exact absurd (hbg (by simp)) hb
    have ht := modelTail_total p hv 0 (rOf p m L) h2
      (by
        intro hb
        have := hnone hb; subst this
        have := h6 rfl
        simp only [rOf, kOf]; omega)
      hno
    rw [hlen1 hno, ht, tailBlocks]
    by_cases hc : rOf p m L + minPad p.scheme ≤ p.blocksize
    · simp only [hc, not_true_eq_false, and_false, if_true, if_false]; omega
    · simp only [hc, hno, ne_eq, not_false_eq_true, and_self, if_true, if_false]; omega

/-- number of blocks of a padded call, in closed form -/
theorem count_formula (B K R mp Le : Nat) (hB : 0 < B) (hLe : Le = K * B + R) (hR : R ≤ B) (hpos : 0 < Le → 0 < R)
    (h0 : Le = 0 → K = 0) (hmp : mp ≤ B) (two : Bool) (htwo : two = true ↔ ¬ R + mp ≤ B) :
    K + (if two then 2 else 1) = max 1 ((Le + mp + B - 1) / B) := by
  have e : (Le + mp + B - 1) / B = K + (R + mp + B - 1) / B := by
    rw [hLe, show K * B + R + mp + B - 1 = (R + mp + B - 1) + K * B by omega, Nat.add_mul_div_right _ _ hB]
    omega
  rw [e]
  have hfin : ∀ q t : Nat, (R + mp + B - 1) / B = q → (if two then 2 else 1) = t → 1 ≤ t → (q = t ∨ (q = 0 ∧ t = 1 ∧ K = 0)) →
      K + (if two then 2 else 1) = max 1 (K + (R + mp + B - 1) / B) := by
    intro q t hq ht h1t h
    rw [hq, ht, Nat.max_def]
    split <;> omega
  by_cases h1 : R + mp = 0
  · have hq : (R + mp + B - 1) / B = 0 := Nat.div_eq_of_lt (by omega)
    have hK : K = 0 := h0 (by
      rcases Nat.eq_zero_or_pos Le with h | h
      · exact h
      · have := hpos h; omega)
    have ht : two = false := by
      cases two with
      | false => rfl
      | true => exact absurd (htwo.mp rfl) (by omega)
    exact hfin 0 1 hq (by rw [ht]; rfl) (by omega) (Or.inr ⟨rfl, rfl, hK⟩)
  · by_cases h2 : R + mp ≤ B
    · have hq : (R + mp + B - 1) / B = 1 := Nat.div_eq_of_lt_le (by omega) (by omega)
      have ht : two = false := by
        cases two with
        | false => rfl
        | true => exact absurd h2 (htwo.mp rfl)
      exact hfin 1 1 hq (by rw [ht]; rfl) (by omega) (Or.inl rfl)
    · have hq : (R + mp + B - 1) / B = 2 := Nat.div_eq_of_lt_le (by omega) (by omega)
      have ht : two = true := htwo.mpr h2
      exact hfin 2 2 hq (by rw [ht]; rfl) (by omega) (Or.inl rfl)

/-- everything observable about a padded call -/
theorem run_facts (p : Padder) (hv : Valid p) (st : PadState) (hflag : st.padflag = false) (m : List Nat)
    (hm : Bytes m) (L : Option Nat) (hL : effLen m L ≤ 8 * m.length) (hbg : L ≠ none → BitGranular p.scheme) :
    (p.iterblocks st m L true).err = none ∧
    ((p.iterblocks st m L true).yields.map (·.1)).flatten = m.take (kOf p m L * p.blocklen) ++ tailBytes p st m L ∧
    (p.iterblocks st m L true).yields.length = kOf p m L + tailBlocks p (rOf p m L) ∧
    (∀ i (h : i < (p.iterblocks st m L true).yields.length),
      ((p.iterblocks st m L true).yields[i]).1.length = p.blocklen ∨
        (p.scheme = .no ∧ i + 1 = (p.iterblocks st m L true).yields.length ∧
          ((p.iterblocks st m L true).yields[i]).1.length ≤ p.blocklen)) ∧
    (∀ i (h : i < (p.iterblocks st m L true).yields.length),
      ((p.iterblocks st m L true).yields[i]).2.bitcnt =
        if i * p.blocksize < effLen m L then st.bitcnt + min (effLen m L) ((i + 1) * p.blocksize) else 0) ∧
    (∀ i (h : i < (p.iterblocks st m L true).yields.length),
      ((p.iterblocks st m L true).yields[i]).2.padflag = decide (kOf p m L ≤ i) ∧
      ((p.iterblocks st m L true).yields[i]).2.padcnt =
        if kOf p m L ≤ i then tailPadcnt p st.padcnt (rOf p m L) else st.padcnt) ∧
    (p.iterblocks st m L true).final.padflag = true ∧
    (p.iterblocks st m L true).final.padcnt = tailPadcnt p st.padcnt (rOf p m L) ∧
    (p.iterblocks st m L true).final.bitcnt =
      (if tailBlocks p (rOf p m L) = 2 ∨ rOf p m L = 0 then 0 else st.bitcnt + effLen m L) := by
  obtain ⟨e, h1, h2, h3, h4, h5, h6⟩ := piece_facts p hv m _ hL
  obtain ⟨hlen1, hlen2⟩ := tailBytes_length p hv st m L hL hbg
  have hbl := hv.blocklen_pos
  have f1 : kOf p m L * p.blocksize ≤ effLen m L := h1
  have f2 : rOf p m L = effLen m L - kOf p m L * p.blocksize := rfl
  have f3 : rOf p m L ≤ p.blocksize := h2
  have f4 : 0 < effLen m L → 0 < rOf p m L := h3
  have h12 : tailBlocks p (rOf p m L) = 1 ∨ tailBlocks p (rOf p m L) = 2 := by
    unfold tailBlocks; split <;> simp
  have hrun := iterblocks_run p hv st hflag m hm L hL hbg
  have hk : ∀ i, i < kOf p m L → (i + 1) * p.blocksize ≤ kOf p m L * p.blocksize :=
    fun i hi => Nat.mul_le_mul_right _ (by omega)
  have hloop : ∀ i (h : i < (p.loopYields st m (kOf p m L)).length),
      ((p.loopYields st m (kOf p m L))[i]).1.length = p.blocklen := by
    intro i h
    rw [loopYields_getElem]
    rw [loopYields_length] at h
    have := hk i h
    simp only [blockAt_length]
    have e2 : (i + 1) * p.blocksize = 8 * (i * p.blocklen) + 8 * p.blocklen := by
      rw [hv.size_eq, Nat.succ_mul, Nat.mul_left_comm]
    omega
  by_cases hone : (tailBytes p st m L).length ≤ p.blocklen
  · -- one tail block
    have htb : tailBlocks p (rOf p m L) = 1 := by
      by_cases hno : p.scheme = .no
      · simp [tailBlocks, hno]
      · have := hlen1 hno
        rcases h12 with h | h
        · exact h
        · rw [h] at this; omega
    rw [if_pos hone] at hrun
    rw [hrun]
    refine ⟨rfl, ?_, ?_, ?_, ?_, ?_, rfl, rfl, ?_⟩
    · simp only [List.map_append, List.flatten_append, loopYields_blocks, flatten_blocks]; simp
    · simp [loopYields_length, htb]
    · intro i h
      simp only [List.length_append, loopYields_length, List.length_singleton] at h
      rcases Nat.lt_or_ge i (kOf p m L) with hi | hi
      · left
        rw [List.getElem_append_left (by rw [loopYields_length]; exact hi)]
        exact hloop i (by rw [loopYields_length]; exact hi)
      · have : i = kOf p m L := by omega
        subst this
        rw [List.getElem_append_right (by rw [loopYields_length]; omega)]
        simp only [loopYields_length, Nat.sub_self, List.getElem_cons_zero]
        by_cases hno : p.scheme = .no
        · right; exact ⟨hno, by simp [loopYields_length], hone⟩
        · left; rw [hlen1 hno, htb]; omega
    · intro i h
      simp only [List.length_append, loopYields_length, List.length_singleton] at h
      rcases Nat.lt_or_ge i (kOf p m L) with hi | hi
      · rw [List.getElem_append_left (by rw [loopYields_length]; exact hi), loopYields_getElem]
        have := hk i hi
        have e2 : (i + 1) * p.blocksize = i * p.blocksize + p.blocksize := Nat.succ_mul _ _
        have hpos := hv.pos
        rw [if_pos (by omega), Nat.min_eq_right (by omega)]
      · have : i = kOf p m L := by omega
        subst this
        rw [List.getElem_append_right (by rw [loopYields_length]; omega)]
        simp only [loopYields_length, Nat.sub_self, List.getElem_cons_zero, tailState]
        have e2 : (kOf p m L + 1) * p.blocksize = kOf p m L * p.blocksize + p.blocksize := Nat.succ_mul _ _
        by_cases hr0 : rOf p m L = 0
        · rw [if_pos hr0, if_neg (by omega)]
        · rw [if_neg hr0, if_pos (by omega), Nat.min_eq_left (by omega)]
    · intro i h
      simp only [List.length_append, loopYields_length, List.length_singleton] at h
      rcases Nat.lt_or_ge i (kOf p m L) with hi | hi
      · rw [List.getElem_append_left (by rw [loopYields_length]; exact hi), loopYields_getElem]
        have : ¬ kOf p m L ≤ i := by omega
        simp [this, hflag]
      · have : i = kOf p m L := by omega
        subst this
        rw [List.getElem_append_right (by rw [loopYields_length]; omega)]
        simp [loopYields_length, tailState]
    · simp only [tailState, htb]
      simp
  · -- two tail blocks
    have hno : p.scheme ≠ .no := fun h => hone (hlen2 h).1
    have htb : tailBlocks p (rOf p m L) = 2 := by
      have := hlen1 hno
      rcases h12 with h | h
      · rw [h] at this; omega
      · exact h
    have hlen := hlen1 hno
    rw [htb] at hlen
    rw [if_neg hone] at hrun
    rw [hrun]
    refine ⟨rfl, ?_, ?_, ?_, ?_, ?_, rfl, rfl, ?_⟩
    · simp only [List.map_append, List.flatten_append, loopYields_blocks, flatten_blocks]; simp
    · simp [loopYields_length, htb]
    · intro i h
      simp only [List.length_append, loopYields_length, List.length_cons, List.length_nil] at h
      left
      rcases Nat.lt_or_ge i (kOf p m L) with hi | hi
      · rw [List.getElem_append_left (by rw [loopYields_length]; exact hi)]
        exact hloop i (by rw [loopYields_length]; exact hi)
      · rw [List.getElem_append_right (by rw [loopYields_length]; omega)]
        simp only [loopYields_length]
        rcases (by omega : i - kOf p m L = 0 ∨ i - kOf p m L = 1) with h0 | h0 <;> simp only [h0] <;>
          simp [List.length_take, List.length_drop, hlen] <;> omega
    · intro i h
      simp only [List.length_append, loopYields_length, List.length_cons, List.length_nil] at h
      have e2 : ∀ j, (j + 1) * p.blocksize = j * p.blocksize + p.blocksize := fun j => Nat.succ_mul _ _
      have hpos := hv.pos
      -- two tail blocks: the remaining bits fill their block or the pad does not fit, in both cases r > 0
      have hmp := minPad_le p hv
      have hr0 : rOf p m L ≠ 0 := by
        intro h0
        have : tailBlocks p (rOf p m L) = 1 := by simp [tailBlocks, h0, hmp]
        omega
      rcases Nat.lt_or_ge i (kOf p m L) with hi | hi
      · rw [List.getElem_append_left (by rw [loopYields_length]; exact hi), loopYields_getElem]
        have := hk i hi
        rw [if_pos (by have := e2 i; omega), Nat.min_eq_right (by omega)]
      · rw [List.getElem_append_right (by rw [loopYields_length]; omega)]
        simp only [loopYields_length]
        rcases (by omega : i - kOf p m L = 0 ∨ i - kOf p m L = 1) with h0 | h0 <;> simp only [h0]
        · have : i = kOf p m L := by omega
          subst this
          simp only [List.getElem_cons_zero, tailState, if_neg hr0]
          rw [if_pos (by omega), Nat.min_eq_left (by have := e2 (kOf p m L); omega)]
        · have : i = kOf p m L + 1 := by omega
          subst this
          simp only [List.getElem_cons_succ, List.getElem_cons_zero]
          rw [if_neg (by have := e2 (kOf p m L); omega)]
    · intro i h
      simp only [List.length_append, loopYields_length, List.length_cons, List.length_nil] at h
      rcases Nat.lt_or_ge i (kOf p m L) with hi | hi
      · rw [List.getElem_append_left (by rw [loopYields_length]; exact hi), loopYields_getElem]
        have : ¬ kOf p m L ≤ i := by omega
        simp [this, hflag]
      · rw [List.getElem_append_right (by rw [loopYields_length]; omega)]
        simp only [loopYields_length]
        rcases (by omega : i - kOf p m L = 0 ∨ i - kOf p m L = 1) with h0 | h0 <;> simp only [h0] <;>
          simp [tailState, hi]
    · simp [htb]

end Proofs.Lemmas.Padding
