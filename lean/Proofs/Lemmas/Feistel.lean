/-
  A generic Feistel network and its inverse: for ANY (possibly failing) round functions, running the network
  with the reversed round order undoes it.  No property of the round functions is used.
-/
namespace Proofs.Feistel

variable {β ι ε : Type}

/-- `for r in rs: (L,R) := (R, L ⊕ f r R)`; a failing round function aborts -/
def run (x : β → β → β) (f : ι → β → Except ε β) : List ι → β → β → Except ε (β × β)
  | [], L, R => .ok (L, R)
  | r :: rs, L, R =>
    match f r R with
    | .ok y => run x f rs R (x L y)
    | .error e => .error e

theorem run_append (x : β → β → β) (f : ι → β → Except ε β) (as bs : List ι) (L R : β) :
    run x f (as ++ bs) L R =
      match run x f as L R with
      | .ok (L', R') => run x f bs L' R'
      | .error e => .error e := by
  induction as generalizing L R with
  | nil => simp [run]
  | cons a as ih =>
    simp only [List.cons_append, run]
    cases f a R with
    | error e => rfl
    | ok y => exact ih _ _

/-- The inverse property.  `P` is the invariant of the half-blocks (e.g. "32 bits wide") under which `⊕` cancels. -/
theorem run_reverse (x : β → β → β) (f : ι → β → Except ε β) (P : β → Prop)
    (hx : ∀ a b, P a → P b → x (x a b) b = a)
    (hP : ∀ a b, P a → P b → P (x a b))
    (hf : ∀ r a b, P a → f r a = .ok b → P b) :
    ∀ (rs : List ι) (L R L' R' : β), P L → P R → run x f rs L R = .ok (L', R') →
      run x f rs.reverse R' L' = .ok (R, L) ∧ P L' ∧ P R' := by
  intro rs
  induction rs with
  | nil =>
    intro L R L' R' hL hR h
    simp only [run, Except.ok.injEq, Prod.mk.injEq] at h
    obtain ⟨rfl, rfl⟩ := h
    exact ⟨rfl, hL, hR⟩
  | cons r rs ih =>
    intro L R L' R' hL hR h
    simp only [run] at h
    cases hfr : f r R with
    | error e => rw [hfr] at h; cases h
    | ok y =>
      rw [hfr] at h
      have hy : P y := hf r R y hR hfr
      obtain ⟨h1, hL', hR'⟩ := ih R (x L y) L' R' hR (hP L y hL hy) h
      refine ⟨?_, hL', hR'⟩
      rw [List.reverse_cons, run_append, h1]
      simp only [run, hfr, hx L y hL hy]

end Proofs.Feistel
