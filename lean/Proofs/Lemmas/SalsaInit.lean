/-
  Key expansion: `Salsa20.__init__` / `Chacha.__init__` for 16- and 32-byte keys given as `Bits(key, bitorder=1)`.
-/
import Proofs.Lemmas.SalsaKey
namespace Proofs.Lemmas.SalsaInit
open Model Model.Poly Proofs.Lemmas.StreamPoly Proofs.Lemmas.SalsaRounds Proofs.Lemmas.StreamEnc Proofs.Lemmas.SalsaKey

theorem leVal_append (a b : List Byte) : leVal (a ++ b) = leVal a + 2 ^ (8 * a.length) * leVal b := by
  induction a with
  | nil => simp [leVal]
  | cons x t ih =>
    simp only [List.cons_append, leVal, ih, List.length_cons]
    have : 2 ^ (8 * (t.length + 1)) = 256 * 2 ^ (8 * t.length) := by
      rw [Nat.mul_add, Nat.pow_add]; simp [Nat.mul_comm]
    rw [this, Nat.mul_add, Nat.mul_assoc, Nat.add_assoc]

/-- `K.split(128)` of a 256-bit key -/
theorem split128_k32 (k0 k1 : List Byte) (h0 : k0.length = 16) (h1 : k1.length = 16) :
    (⟨leVal (k0 ++ k1), 256⟩ : Bits).split 128 false = .ok [⟨leVal k0, 128⟩, ⟨leVal k1, 128⟩] := by
  have b0 := leVal_lt k0
  have b1 := leVal_lt k1
  rw [h0] at b0; rw [h1] at b1
  rw [leVal_append, h0]
  unfold Bits.split
  have hr : List.range 2 = [0, 1] := by decide
  simp only [Nat.reduceEqDiff, ↓reduceIte, Nat.reduceAdd, Nat.reduceSub, Nat.reduceDiv, hr, List.map_cons, List.map_nil,
    Bool.false_eq_true, Bits.sliceFast, Bits.ofNatSz, Nat.and_two_pow_sub_one_eq_mod, Nat.shiftRight_eq_div_pow]
  simp only [Nat.reduceMul, Nat.reduceAdd, Nat.zero_add, Nat.min_def, Nat.reduceLeDiff, ↓reduceIte, Nat.reduceSub, Nat.pow_zero,
    Nat.div_one] at *
  generalize leVal k0 = x at *
  generalize leVal k1 = y at *
  simp only [Nat.reducePow] at *
  congr 3
  · congr 1; omega
  · congr 2; omega

/-- `K.split(128)` of a 128-bit key -/
theorem split128_k16 (k : List Byte) (h : k.length = 16) :
    (⟨leVal k, 128⟩ : Bits).split 128 false = .ok [⟨leVal k, 128⟩] := by
  have b0 := leVal_lt k
  rw [h] at b0
  unfold Bits.split
  have hr : List.range 1 = [0] := by decide
  simp only [Nat.reduceEqDiff, ↓reduceIte, Nat.reduceAdd, Nat.reduceSub, Nat.reduceDiv, hr, List.map_cons, List.map_nil,
    Bool.false_eq_true, Bits.sliceFast, Bits.ofNatSz, Nat.and_two_pow_sub_one_eq_mod, Nat.shiftRight_eq_div_pow]
  simp only [Nat.reduceMul, Nat.reduceAdd, Nat.zero_add, Nat.min_def, Nat.reduceLeDiff, ↓reduceIte, Nat.reduceSub, Nat.pow_zero,
    Nat.div_one] at *
  generalize leVal k = x at *
  simp only [Nat.reducePow] at *
  congr 3
  congr 1; omega

/-- sequential element stores -/
def setW (P : List Word) : List Nat → List Word → List Word
  | i :: is, w :: ws => setW (P.set i w) is ws
  | _, _ => P

theorem setW_length (P : List Word) (idx : List Nat) (ws : List Word) : (setW P idx ws).length = P.length := by
  induction idx generalizing P ws with
  | nil => simp [setW]
  | cons i is ih =>
    cases ws with
    | nil => simp [setW]
    | cons w ws => simp only [setW, ih, List.length_set]

theorem setMany_words (P : List Word) (idx : List Nat) (ws : List Word) (h : ∀ i ∈ idx, i < P.length) :
    (ofBV P).setMany (idx.map fun (i : Nat) => (i : Int)) (ws.map fun w => (w.toNat : Int)) = .ok (ofBV (setW P idx ws)) := by
  induction idx generalizing P ws with
  | nil => simp [setW, setMany]
  | cons i is ih =>
    cases ws with
    | nil => simp [setW, setMany]
    | cons w ws =>
      simp only [List.map_cons, setMany, setW]
      rw [setInt_ofBV (by decide) P i (h i (by simp)), bind_ok, BitVec.ofNat_toNat, BitVec.setWidth_eq]
      exact ih _ _ (by intro j hj; simp only [List.length_set]; exact h j (by simp [hj]))

/-- `p[a:a+4] = <4 words>` on a 16-vector -/
theorem setSlice4 (P : List Word) (hP : P.length = 16) (a : Nat) (ha : a = 0 ∨ a = 1 ∨ a = 4 ∨ a = 8 ∨ a = 11) (ws : List Word)
    (hw : ws.length = 4) :
    (ofBV P).setSlice (some (a : Int)) (some ((a : Int) + 4)) none (.list (ws.map fun w => (w.toNat : Int)))
      = .ok (ofBV (setW P [a, a + 1, a + 2, a + 3] ws)) := by
  unfold setSlice
  have hi : (ofBV P).indices (some (a : Int)) (some ((a : Int) + 4)) none
      = .ok ([a, a + 1, a + 2, a + 3].map fun (i : Nat) => (i : Int)) := by
    unfold Poly.indices
    simp only [ofBV_ival, List.length_map, hP]
    rcases ha with rfl | rfl | rfl | rfl | rfl <;> rfl
  rw [hi, bind_ok]
  unfold setIdx
  simp only [List.length_map, List.length_cons, List.length_nil, hw, ↓reduceIte]
  exact setMany_words P _ ws (by intro i hi; simp at hi; rcases ha with rfl | rfl | rfl | rfl | rfl <;> omega)


/-- the state words after `Salsa20.__init__`: constants at 0,5,10,15, key halves at 1..4 and 11..14, zeros elsewhere -/
def salsaLayout (c a b : List Word) : List Word :=
  setW (setW (setW (List.replicate 16 0) [0, 5, 10, 15] c) [1, 2, 3, 4] a) [11, 12, 13, 14] b

/-- the state words after `Chacha.__init__`: constants 0..3, key 4..11, zeros at 12..15 -/
def chachaLayout (c a b : List Word) : List Word :=
  setW (setW (setW (List.replicate 16 0) [0, 1, 2, 3] c) [4, 5, 6, 7] a) [8, 9, 10, 11] b

def sigmaW : List Word := Spec.Salsa20.words Spec.Salsa20.sigma
def tauW : List Word := Spec.Salsa20.words Spec.Salsa20.tau

theorem ints_sigma : Salsa.ints Gen.Streams.sigma = sigmaW.map fun w => (w.toNat : Int) := by decide +kernel
theorem ints_tau : Salsa.ints Gen.Streams.tau = tauW.map fun w => (w.toNat : Int) := by decide +kernel

theorem p0 : Poly.ofInt 0 32 16 = ofBV (List.replicate 16 (0 : Word)) := by decide +kernel

theorem words4_length (k : List Byte) (h : k.length = 16) : (wordsOfNat 4 (leVal k)).length = 4 := by simp [wordsOfNat]

theorem split32_128 (k : List Byte) (h : k.length = 16) :
    (⟨leVal k, 128⟩ : Bits).split 32 = .ok ((Spec.Salsa20.words k).map fun w => (⟨w.toNat, 32⟩ : Bits)) := by
  have := split32 (leVal k) 4
  simp only [Nat.reduceMul] at this
  rw [this, words_leVal 4 k (by omega)]

theorem words16_length (k : List Byte) (h : k.length = 16) : (Spec.Salsa20.words k).length = 4 := by
  rw [← words_leVal 4 k (by omega)]; simp [wordsOfNat]

/-- the part of `Salsa20.__init__` that places constants and key, for the key halves `ka`, `kb` (16 bytes each),
    followed by any continuation `f` -/
theorem place_salsa {β} (f : Poly → Except Err β) (consts : List Nat) (cW : List Word)
    (hc : Salsa.ints consts = cW.map fun w => (w.toNat : Int))
    (hc4 : cW.length = 4) (ka kb : List Byte) (ha : ka.length = 16) (hb : kb.length = 16) :
    (do let p ← (Poly.ofInt 0 32 16).setIdx [0, 5, 10, 15] (.list (Salsa.ints consts))
        let l0 ← (⟨leVal ka, 128⟩ : Bits).split 32
        let k0 ← Salsa.bitsInts l0
        let p ← p.setSlice (some 1) (some 5) none (.list k0)
        let l1 ← (⟨leVal kb, 128⟩ : Bits).split 32
        let k1 ← Salsa.bitsInts l1
        let p ← p.setSlice (some 11) (some 15) none (.list k1)
        f p)
      = f (ofBV (salsaLayout cW (Spec.Salsa20.words ka) (Spec.Salsa20.words kb))) := by
  rw [p0, hc, split32_128 ka ha, split32_128 kb hb]
  unfold setIdx
  simp only [List.length_map, List.length_cons, List.length_nil, hc4, Nat.reduceAdd, ↓reduceIte]
  have e1 := setMany_words (List.replicate 16 0) [0, 5, 10, 15] cW (by decide)
  simp only [List.map_cons, List.map_nil] at e1
  erw [e1]
  simp only [bind_ok, ints32]
  have e2 := setSlice4 (setW (List.replicate 16 0) [0, 5, 10, 15] cW) (by rw [setW_length]; rfl) 1 (by simp)
    (Spec.Salsa20.words ka) (words16_length ka ha)
  erw [e2]
  simp only [bind_ok]
  have e3 := setSlice4 (setW (setW (List.replicate 16 0) [0, 5, 10, 15] cW) [1, 2, 3, 4] (Spec.Salsa20.words ka))
    (by rw [setW_length, setW_length]; rfl) 11 (by simp) (Spec.Salsa20.words kb) (words16_length kb hb)
  erw [e3]
  rfl

theorem salsa_init_k32 (k0 k1 : List Byte) (h0 : k0.length = 16) (h1 : k1.length = 16) (rounds : Int)
    (hr : rounds > 0 ∧ rounds % 2 = 0) :
    Salsa.init (some ⟨leVal (k0 ++ k1), 256⟩) rounds =
      .ok ⟨some [⟨leVal k0, 128⟩, ⟨leVal k1, 128⟩],
           ofBV (salsaLayout sigmaW (Spec.Salsa20.words k0) (Spec.Salsa20.words k1)), (rounds / 2).toNat⟩ := by
  unfold Salsa.init
  simp only [ne_eq, Nat.reduceEqDiff, not_false_eq_true, not_true_eq_false, and_false, ↓reduceIte,
    split128_k32 k0 k1 h0 h1, bind_ok, List.length_cons, List.length_nil, Nat.reduceAdd,
    List.getD_cons_zero, List.getD_cons_succ, bind_assoc]
  rw [place_salsa _ Gen.Streams.sigma sigmaW ints_sigma (by decide) k0 k1 h0 h1]
  simp only [hr, and_self, not_true_eq_false, ↓reduceIte, pure, Except.pure, bind_ok]

theorem salsa_init_k16 (k : List Byte) (h : k.length = 16) (rounds : Int) (hr : rounds > 0 ∧ rounds % 2 = 0) :
    Salsa.init (some ⟨leVal k, 128⟩) rounds =
      .ok ⟨some [⟨leVal k, 128⟩, ⟨leVal k, 128⟩],
           ofBV (salsaLayout tauW (Spec.Salsa20.words k) (Spec.Salsa20.words k)), (rounds / 2).toNat⟩ := by
  unfold Salsa.init
  simp only [ne_eq, Nat.reduceEqDiff, not_false_eq_true, not_true_eq_false, false_and, and_false, ↓reduceIte,
    split128_k16 k h, bind_ok, List.length_cons, List.length_nil, Nat.reduceAdd, List.cons_append, List.nil_append,
    List.getD_cons_zero, List.getD_cons_succ, bind_assoc]
  rw [place_salsa _ Gen.Streams.tau tauW ints_tau (by decide) k k h h]
  simp only [hr, and_self, not_true_eq_false, ↓reduceIte, pure, Except.pure, bind_ok]


/-! ### the layouts are the input blocks of the specifications -/

theorem words_append (a b : List Byte) (k : Nat) (h : a.length = 4 * k) :
    Spec.Salsa20.words (a ++ b) = Spec.Salsa20.words a ++ Spec.Salsa20.words b := by
  induction k generalizing a with
  | zero =>
    have : a = [] := List.eq_nil_of_length_eq_zero (by omega)
    subst this; rfl
  | succ k ih =>
    obtain ⟨b0, t0, rfl, h0⟩ := cons_of_len (n := 4 * k + 3) a (by omega)
    obtain ⟨b1, t1, rfl, h1⟩ := cons_of_len (n := 4 * k + 2) t0 (by omega)
    obtain ⟨b2, t2, rfl, h2⟩ := cons_of_len (n := 4 * k + 1) t1 (by omega)
    obtain ⟨b3, t3, rfl, h3⟩ := cons_of_len (n := 4 * k) t2 (by omega)
    simp only [List.cons_append, Spec.Salsa20.words, ih t3 h3]

theorem words_length (k : Nat) (l : List Byte) (h : l.length = 4 * k) : (Spec.Salsa20.words l).length = k := by
  rw [← words_leVal k l h]; simp [wordsOfNat]

theorem exists1 {α} (l : List α) (h : l.length = 1) : ∃ a, l = [a] := by
  obtain ⟨a, t, rfl, ht⟩ := cons_of_len l h
  have := List.eq_nil_of_length_eq_zero ht
  subst this; exact ⟨a, rfl⟩

theorem exists4 {α} (l : List α) (h : l.length = 4) : ∃ a b c d, l = [a, b, c, d] := by
  obtain ⟨a, t1, rfl, ht1⟩ := cons_of_len l h
  obtain ⟨b, t2, rfl, ht2⟩ := cons_of_len t1 ht1
  obtain ⟨c, t3, rfl, ht3⟩ := cons_of_len t2 ht2
  obtain ⟨d, t4, rfl, ht4⟩ := cons_of_len t3 ht3
  have := List.eq_nil_of_length_eq_zero ht4
  subst this; exact ⟨a, b, c, d, rfl⟩

theorem words_nonce (v : List Byte) (hv : v.length = 8) :
    Spec.Salsa20.words v = [BitVec.ofNat 32 (leVal v), BitVec.ofNat 32 (leVal v / 2 ^ 32)] := by
  rw [← words_leVal 2 v (by omega)]
  simp [wordsOfNat, List.range_succ]

/-- the Salsa20 input block (σ0,k0,σ1,v,i_,σ2,k1,σ3) in words = the object's state words with nonce and counter written -/
theorem salsa_input_words (c0 c1 c2 c3 ka kb v : List Byte) (hc0 : c0.length = 4) (hc1 : c1.length = 4) (hc2 : c2.length = 4)
    (hc3 : c3.length = 4) (ha : ka.length = 16) (hb : kb.length = 16) (hv : v.length = 8) (i : Nat) :
    Spec.Salsa20.words (c0 ++ ka ++ c1 ++ (v ++ Spec.Salsa20.le64 i) ++ c2 ++ kb ++ c3) =
      ctrSet 8 (nonceSet 6 (salsaLayout (Spec.Salsa20.words c0 ++ Spec.Salsa20.words c1 ++ Spec.Salsa20.words c2
        ++ Spec.Salsa20.words c3) (Spec.Salsa20.words ka) (Spec.Salsa20.words kb)) (leVal v)) i := by
  have hle : (Spec.Salsa20.le64 i).length = 8 := by simp [Spec.Salsa20.le64]
  rw [words_append _ c3 15 (by simp only [List.length_append]; omega),
    words_append _ kb 11 (by simp only [List.length_append]; omega),
    words_append _ c2 10 (by simp only [List.length_append]; omega),
    words_append _ (v ++ _) 6 (by simp only [List.length_append]; omega),
    words_append _ c1 5 (by simp only [List.length_append]; omega),
    words_append c0 ka 1 (by omega), words_append v _ 2 (by omega), words_nonce v hv, Proofs.Lemmas.SalsaBytes.words_le64]
  obtain ⟨w0, e0⟩ := exists1 _ (words_length 1 c0 (by omega))
  obtain ⟨w1, e1⟩ := exists1 _ (words_length 1 c1 (by omega))
  obtain ⟨w2, e2⟩ := exists1 _ (words_length 1 c2 (by omega))
  obtain ⟨w3, e3⟩ := exists1 _ (words_length 1 c3 (by omega))
  obtain ⟨a0, a1, a2, a3, ea⟩ := exists4 _ (words_length 4 ka (by omega))
  obtain ⟨b0, b1, b2, b3, eb⟩ := exists4 _ (words_length 4 kb (by omega))
  rw [e0, e1, e2, e3, ea, eb]
  rfl

/-- the ChaCha input block (constants, key, counter, nonce) in words -/
theorem chacha_input_words (c ka kb v : List Byte) (hc : c.length = 16) (ha : ka.length = 16) (hb : kb.length = 16)
    (hv : v.length = 8) (i : Nat) :
    Spec.Salsa20.words (c ++ (ka ++ kb) ++ Spec.Salsa20.le64 i ++ v) =
      ctrSet 12 (nonceSet 14 (chachaLayout (Spec.Salsa20.words c) (Spec.Salsa20.words ka) (Spec.Salsa20.words kb)) (leVal v)) i := by
  have hle : (Spec.Salsa20.le64 i).length = 8 := by simp [Spec.Salsa20.le64]
  rw [words_append _ v 14 (by simp only [List.length_append]; omega),
    words_append _ (Spec.Salsa20.le64 i) 12 (by simp only [List.length_append]; omega),
    words_append c _ 4 (by omega), words_append ka kb 4 (by omega), words_nonce v hv, Proofs.Lemmas.SalsaBytes.words_le64]
  obtain ⟨w0, w1, w2, w3, e0⟩ := exists4 _ (words_length 4 c (by omega))
  obtain ⟨a0, a1, a2, a3, ea⟩ := exists4 _ (words_length 4 ka (by omega))
  obtain ⟨b0, b1, b2, b3, eb⟩ := exists4 _ (words_length 4 kb (by omega))
  rw [e0, ea, eb]
  rfl


/-! ### Chacha.__init__ -/

theorem place_chacha (K : List Bits) (dr : Nat) (cW : List Word) (hc4 : cW.length = 4) (ka kb : List Byte)
    (ha : ka.length = 16) (hb : kb.length = 16) (hK : K = [⟨leVal ka, 128⟩, ⟨leVal kb, 128⟩]) :
    (match (⟨some K, ofBV (salsaLayout cW (Spec.Salsa20.words ka) (Spec.Salsa20.words kb)), dr⟩ : Salsa.State).K with
      | none => pure ⟨some K, ofBV (salsaLayout cW (Spec.Salsa20.words ka) (Spec.Salsa20.words kb)), dr⟩
      | some ks => do
        let consts ← (ofBV (salsaLayout cW (Spec.Salsa20.words ka) (Spec.Salsa20.words kb))).getList [0, 5, 10, 15]
        let p := Poly.ofInt 0 32 16
        let p ← p.setSlice (some 0) (some 4) none (.list consts.ival)
        let k0 ← Salsa.bitsInts (← (ks.getD 0 default).split 32)
        let p ← p.setSlice (some 4) (some 8) none (.list k0)
        let k1 ← Salsa.bitsInts (← (ks.getD 1 default).split 32)
        let p ← p.setSlice (some 8) (some 12) none (.list k1)
        pure { (⟨some K, ofBV (salsaLayout cW (Spec.Salsa20.words ka) (Spec.Salsa20.words kb)), dr⟩ : Salsa.State) with p := p })
      = (.ok ⟨some K, ofBV (chachaLayout cW (Spec.Salsa20.words ka) (Spec.Salsa20.words kb)), dr⟩ : Except Err Salsa.State) := by
  subst hK
  obtain ⟨w0, w1, w2, w3, rfl⟩ := exists4 cW hc4
  obtain ⟨a0, a1, a2, a3, ea⟩ := exists4 _ (words_length 4 ka (by omega))
  obtain ⟨b0, b1, b2, b3, eb⟩ := exists4 _ (words_length 4 kb (by omega))
  simp only [List.getD_cons_zero, List.getD_cons_succ, bind_assoc]
  have hg := getList_ofBV (salsaLayout [w0, w1, w2, w3] (Spec.Salsa20.words ka) (Spec.Salsa20.words kb)) [0, 5, 10, 15]
    (by intro i hi; simp only [salsaLayout, setW_length, List.length_replicate]; revert i; decide)
  have hg' : (ofBV (salsaLayout [w0, w1, w2, w3] (Spec.Salsa20.words ka) (Spec.Salsa20.words kb))).getList [0, 5, 10, 15]
      = .ok (ofBV [w0, w1, w2, w3]) := by
    rw [ea, eb] at hg ⊢
    exact hg
  rw [hg', bind_ok, p0, split32_128 ka ha, split32_128 kb hb]
  simp only [bind_ok, ints32, ofBV_ival]
  have e1 := setSlice4 (List.replicate 16 0) (by simp) 0 (by simp) [w0, w1, w2, w3] rfl
  erw [e1]
  simp only [bind_ok]
  have e2 := setSlice4 (setW (List.replicate 16 0) [0, 1, 2, 3] [w0, w1, w2, w3]) (by rw [setW_length]; rfl) 4 (by simp)
    (Spec.Salsa20.words ka) (words16_length ka ha)
  erw [e2]
  simp only [bind_ok]
  have e3 := setSlice4 (setW (setW (List.replicate 16 0) [0, 1, 2, 3] [w0, w1, w2, w3]) [4, 5, 6, 7] (Spec.Salsa20.words ka))
    (by rw [setW_length, setW_length]; rfl) 8 (by simp) (Spec.Salsa20.words kb) (words16_length kb hb)
  erw [e3]
  rfl

theorem sigmaW_length : sigmaW.length = 4 := by decide +kernel
theorem tauW_length : tauW.length = 4 := by decide +kernel

theorem chacha_init_k32 (k0 k1 : List Byte) (h0 : k0.length = 16) (h1 : k1.length = 16) (rounds : Int)
    (hr : rounds > 0 ∧ rounds % 2 = 0) :
    Chacha.init (some ⟨leVal (k0 ++ k1), 256⟩) rounds =
      .ok ⟨some [⟨leVal k0, 128⟩, ⟨leVal k1, 128⟩],
           ofBV (chachaLayout sigmaW (Spec.Salsa20.words k0) (Spec.Salsa20.words k1)), (rounds / 2).toNat⟩ := by
  unfold Chacha.init
  rw [salsa_init_k32 k0 k1 h0 h1 rounds hr, bind_ok]
  exact place_chacha _ _ sigmaW sigmaW_length k0 k1 h0 h1 rfl

theorem chacha_init_k16 (k : List Byte) (h : k.length = 16) (rounds : Int) (hr : rounds > 0 ∧ rounds % 2 = 0) :
    Chacha.init (some ⟨leVal k, 128⟩) rounds =
      .ok ⟨some [⟨leVal k, 128⟩, ⟨leVal k, 128⟩],
           ofBV (chachaLayout tauW (Spec.Salsa20.words k) (Spec.Salsa20.words k)), (rounds / 2).toNat⟩ := by
  unfold Chacha.init
  rw [salsa_init_k16 k h rounds hr, bind_ok]
  exact place_chacha _ _ tauW tauW_length k k h h rfl

end Proofs.Lemmas.SalsaInit