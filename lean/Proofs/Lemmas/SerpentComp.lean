/-
  Component lemmas for Model.Serpent: IP/FP as gathers, the S-box layer bit by bit, the words of a block.
-/
import Proofs.Lemmas.SerpentBits
import Model.Serpent
namespace Proofs.Lemmas.SerpentComp
open Model Model.Bits Proofs.Lemmas.SerpentBits Spec.Serpent

/-- `X[table]` -/
def gather (tbl : List Nat) (X : Bits) : Bits := ⟨listVal (tbl.map fun x => (X.ival >>> x) &&& 1), tbl.length⟩

theorem gather_wf (tbl : List Nat) (X : Bits) : (gather tbl X).WF := by
  unfold gather WF
  have := listVal_lt (tbl.map fun x => (X.ival >>> x) &&& 1)
  simpa using this

theorem testBit_gather' (tbl : List Nat) (X : Bits) (j : Nat) :
    (gather tbl X).ival.testBit j = (decide (j < tbl.length) && X.ival.testBit (tbl.getD j 0)) :=
  testBit_gather X.ival tbl j

theorem chk_ok (X : Bits) (h : X.size = 128) : Model.Serpent.chkSize X = .ok () := by
  simp [Model.Serpent.chkSize, h, Model.Gen.Serpent.blocksize]

theorem chk_err (X : Bits) (h : X.size ≠ 128) : Model.Serpent.chkSize X = .error "AssertionError" := by
  simp [Model.Serpent.chkSize, h, Model.Gen.Serpent.blocksize]

theorem IP_eq (X : Bits) (h : X.size = 128) : Model.Serpent.IP X = .ok (gather Model.Gen.Serpent.ipTable X) := by
  unfold Model.Serpent.IP
  rw [chk_ok X h, getList_nat]
  rfl

theorem FP_eq (X : Bits) (h : X.size = 128) : Model.Serpent.FP X = .ok (gather Model.Gen.Serpent.fpTable X) := by
  unfold Model.Serpent.FP
  rw [chk_ok X h, getList_nat]
  rfl

theorem ipTable_length : Model.Gen.Serpent.ipTable.length = 128 := by decide +kernel
theorem fpTable_length : Model.Gen.Serpent.fpTable.length = 128 := by decide +kernel

/-- column k of the bitslice block x, as a number 0..15 -/
def colBits (x k : Nat) : Nat :=
  (x.testBit k).toNat + 2 * (x.testBit (32 + k)).toNat + 4 * (x.testBit (64 + k)).toNat + 8 * (x.testBit (96 + k)).toNat

theorem nibble_eq : ∀ v < 16, v = (v.testBit 0).toNat + 2 * (v.testBit 1).toNat + 4 * (v.testBit 2).toNat + 8 * (v.testBit 3).toNat := by
  decide

/-- the index facts about the probed tables that the S-box layer relies on -/
theorem ip_index : ∀ k < 32, ∀ t < 4, Model.Gen.Serpent.ipTable.getD (4 * k + t) 0 = 32 * t + k := by decide +kernel
theorem fp_index : ∀ m < 4, ∀ k < 32, Model.Gen.Serpent.fpTable.getD (32 * m + k) 0 = 4 * k + m := by decide +kernel

/-- `lookups` succeeds when every nibble indexes inside the row -/
theorem lookups_ok (row : List Nat) (l : List Bits) (h : ∀ x ∈ l, x.ival &&& x.mask < row.length) :
    Model.Serpent.lookups row l = .ok (l.map fun x => Bits.ofNatSz (row.getD (x.ival &&& x.mask) 0) 4) := by
  induction l with
  | nil => rfl
  | cons x xs ih =>
    have hx := h x List.mem_cons_self
    have ih' := ih (fun y hy => h y (List.mem_cons_of_mem _ hy))
    unfold Model.Serpent.lookups
    rw [List.getElem?_eq_getElem hx, ih']
    simp [List.getD_eq_getElem?_getD, List.getElem?_eq_getElem hx]

/-- the result of the S-box layer with row `row` on the block X -/
def substB (row : List Nat) (X : Bits) : Bits :=
  ⟨Spec.Serpent.ofBitFn 128 (fun j => (row.getD (colBits X.ival (j % 32)) 0).testBit (j / 32)), 128⟩

theorem substB_wf (row : List Nat) (X : Bits) : (substB row X).WF := ofBitFn_lt _ _


theorem concatList_uniform' (l : List Bits) (w : Nat) (hw : 0 < w) (hne : l ≠ [])
    (hs : ∀ y ∈ l, y.size = w) (hwf : ∀ y ∈ l, y.WF) :
    ∃ r, concatList l = .ok r ∧ r.size = w * l.length ∧ r.WF ∧
      ∀ j, j < w * l.length → r.ival.testBit j = (l.getD (j / w) default).ival.testBit (j % w) := by
  cases l with
  | nil => exact absurd rfl hne
  | cons x xs => simpa using concatList_uniform x xs w hw hs (hwf x List.mem_cons_self)

/-- the nibble list the S-box layer looks up: column k of X -/
theorem nibble_col (X : Bits) (k : Nat) (hk : k < 32) :
    ((gather Model.Gen.Serpent.ipTable X).sliceFast (k * 4) (k * 4 + 4)).ival = colBits X.ival k := by
  have hwf := sliceFast_wf (gather Model.Gen.Serpent.ipTable X) (k * 4) (k * 4 + 4)
  have hsz : ((gather Model.Gen.Serpent.ipTable X).sliceFast (k * 4) (k * 4 + 4)).size = 4 := by
    rw [sliceFast_size]; omega
  unfold WF at hwf; rw [hsz] at hwf
  have hb : ∀ t < 4, ((gather Model.Gen.Serpent.ipTable X).sliceFast (k * 4) (k * 4 + 4)).ival.testBit t
      = X.ival.testBit (32 * t + k) := by
    intro t ht
    rw [testBit_sliceFast, testBit_gather', ipTable_length]
    have h1 : t < k * 4 + 4 - k * 4 := by omega
    have h2 : k * 4 + t < 128 := by omega
    have h3 : k * 4 + t = 4 * k + t := by omega
    simp only [h1, h2, decide_true, Bool.true_and]
    rw [h3, ip_index k hk t ht]
  rw [nibble_eq _ hwf, hb 0 (by decide), hb 1 (by decide), hb 2 (by decide), hb 3 (by decide)]
  unfold colBits
  simp

theorem subst_eq (boxes : List (List Nat)) (i : Nat) (X : Bits) (hi : i < 8) (hX : X.size = 128)
    (hrow : (boxes.getD i []).length = 16) :
    Model.Serpent.subst boxes i X = .ok (substB (boxes.getD i []) X) := by
  have hY : (gather Model.Gen.Serpent.ipTable X).size = 32 * 4 := ipTable_length
  have hYs : (gather Model.Gen.Serpent.ipTable X).size = 128 := ipTable_length
  -- the list of looked-up nibbles
  let ns := (List.range 32).map fun j => (gather Model.Gen.Serpent.ipTable X).sliceFast (j * 4) (j * 4 + 4)
  have hns : ∀ x ∈ ns, x.ival &&& x.mask < (boxes.getD i []).length := by
    intro x hx
    rw [List.mem_map] at hx
    obtain ⟨k, _, rfl⟩ := hx
    rw [hrow]
    have hsz : ((gather Model.Gen.Serpent.ipTable X).sliceFast (k * 4) (k * 4 + 4)).size = 4 := by
      rw [sliceFast_size]; omega
    unfold mask; rw [hsz, Nat.and_two_pow_sub_one_eq_mod]
    exact Nat.mod_lt _ (by decide)
  let sx := ns.map fun x => Bits.ofNatSz ((boxes.getD i []).getD (x.ival &&& x.mask) 0) 4
  have hsxlen : sx.length = 32 := by simp [sx, ns]
  have hne : sx ≠ [] := by
    intro h; rw [h] at hsxlen; simp at hsxlen
  have hsz : ∀ y ∈ sx, y.size = 4 := by
    intro y hy; rw [List.mem_map] at hy; obtain ⟨_, _, rfl⟩ := hy; rfl
  have hwf : ∀ y ∈ sx, y.WF := by
    intro y hy; rw [List.mem_map] at hy; obtain ⟨_, _, rfl⟩ := hy
    exact Nat.mod_lt _ (Nat.two_pow_pos _)
  obtain ⟨r, hr, hrs, hrwf, hrb⟩ := concatList_uniform' sx 4 (by decide) hne hsz hwf
  rw [hsxlen] at hrs hrb
  unfold Model.Serpent.subst
  simp only [hi, not_true_eq_false, if_false]
  rw [chk_ok X hX, IP_eq X hX]
  simp only [bind, Except.bind, pure, Except.pure]
  rw [split_uniform _ 32 4 (by decide) hY]
  simp only []
  rw [lookups_ok _ _ hns]
  simp only []
  rw [hr]
  simp only []
  rw [FP_eq r hrs]
  congr 1
  apply bits_ext _ _ (by rw [show (gather Model.Gen.Serpent.fpTable r).size = 128 from fpTable_length]; rfl)
    (gather_wf _ _) (substB_wf _ _)
  intro j hj
  rw [show (gather Model.Gen.Serpent.fpTable r).size = 128 from fpTable_length] at hj
  have hm : j / 32 < 4 := by omega
  have hk : j % 32 < 32 := by omega
  have hjd : j = 32 * (j / 32) + j % 32 := by omega
  rw [testBit_gather', fpTable_length]
  simp only [hj, decide_true, Bool.true_and]
  conv => lhs; rw [hjd, fp_index _ hm _ hk]
  rw [hrb _ (by omega)]
  have e1 : (4 * (j % 32) + j / 32) / 4 = j % 32 := by omega
  have e2 : (4 * (j % 32) + j / 32) % 4 = j / 32 := by omega
  rw [e1, e2]
  have e3 : sx.getD (j % 32) default =
      Bits.ofNatSz ((boxes.getD i []).getD (colBits X.ival (j % 32)) 0) 4 := by
    simp only [sx, ns, List.getD_eq_getElem?_getD, List.getElem?_map, List.getElem?_range hk, Option.map_some,
      Option.getD_some]
    have hsz4 : ((gather Model.Gen.Serpent.ipTable X).sliceFast (j % 32 * 4) (j % 32 * 4 + 4)).mask = 2 ^ 4 - 1 := by
      unfold mask; rw [sliceFast_size]; congr 2; omega
    rw [hsz4, Nat.and_two_pow_sub_one_eq_mod, nibble_col X _ hk]
    have : colBits X.ival (j % 32) < 2 ^ 4 := by
      unfold colBits
      cases X.ival.testBit (j % 32) <;> cases X.ival.testBit (32 + j % 32) <;>
        cases X.ival.testBit (64 + j % 32) <;> cases X.ival.testBit (96 + j % 32) <;> decide
    rw [Nat.mod_eq_of_lt this]
  rw [e3]
  unfold substB Bits.ofNatSz
  simp only []
  rw [testBit_ofBitFn, Nat.testBit_mod_two_pow]
  simp [hj, hm]


/-! ### words and states -/
def WS (s : State) : Prop := s.x0 < 2 ^ 32 ∧ s.x1 < 2 ^ 32 ∧ s.x2 < 2 ^ 32 ∧ s.x3 < 2 ^ 32
def B (s : State) : Bits := ⟨natOfState s, 128⟩
def W (w : Nat) : Bits := ⟨w, 32⟩

theorem slice_word (X : Bits) (a : Nat) : X.sliceFast a (a + 32) = W ((X.ival >>> a) % 2 ^ 32) := by
  unfold sliceFast ofNatSz W
  rw [Nat.add_sub_cancel_left]
  congr 1
  apply Nat.eq_of_testBit_eq; intro j
  simp only [Nat.testBit_mod_two_pow, Nat.testBit_shiftRight, Nat.and_two_pow_sub_one_eq_mod]
  by_cases h : j < 32
  · have : a + j < a + 32 := by omega
    simp [h, this]
  · simp [h]

theorem W_rol (a n : Nat) (hn : n ≤ 32) : (W a).rol n = .ok (W (rotl a n)) := by
  rw [rol_eq _ _ hn]
  congr 1
  simp only [rol!, W, Bits.or, Bits.shl, Bits.shr, mask, wsize, rotl, Nat.and_two_pow_sub_one_eq_mod]
  congr 1
  · apply Nat.eq_of_testBit_eq; intro j
    simp only [Nat.testBit_mod_two_pow, Nat.testBit_or]
    cases decide (j < 32) <;> simp

theorem W_xor (a b : Nat) : (W a).xor (W b) = W (a ^^^ b) := by
  simp [W, Bits.xor, wsize]

theorem W_shl (a n : Nat) : (W a).shl n = W (Spec.Serpent.shl a n) := by
  simp only [W, Bits.shl, Spec.Serpent.shl, mask]
  rw [Nat.and_two_pow_sub_one_eq_mod]

theorem concat_words (a b c d : Nat) (ha : a < 2 ^ 32) (hb : b < 2 ^ 32) (hc : c < 2 ^ 32) (hd : d < 2 ^ 32) :
    Bits.concatList [W a, W b, W c, W d] = .ok (B ⟨a, b, c, d⟩) := by
  show Except.ok ((((W a).concat (W b)).concat (W c)).concat (W d)) = _
  congr 1
  simp only [Bits.concat, W, ofNatSz, B, natOfState]
  have h1 : a ||| b <<< 32 < 2 ^ 64 := Nat.or_lt_two_pow (by omega) (by rw [Nat.shiftLeft_eq]; omega)
  have h2 : (a ||| b <<< 32) ||| c <<< 64 < 2 ^ 96 := Nat.or_lt_two_pow (by omega) (by rw [Nat.shiftLeft_eq]; omega)
  have h3 : ((a ||| b <<< 32) ||| c <<< 64) ||| d <<< 96 < 2 ^ 128 := Nat.or_lt_two_pow (by omega) (by rw [Nat.shiftLeft_eq]; omega)
  rw [Nat.mod_eq_of_lt h1, Nat.mod_eq_of_lt h2, Nat.mod_eq_of_lt h3]

theorem W_ror (a n : Nat) (hn : n ≤ 32) : (W a).ror n = .ok (W (rotr a n)) := by
  rw [ror_eq _ _ hn]
  congr 1
  simp only [ror!, W, Bits.or, Bits.shl, Bits.shr, mask, wsize, rotr, Nat.and_two_pow_sub_one_eq_mod]
  congr 1
  · apply Nat.eq_of_testBit_eq; intro j
    simp only [Nat.testBit_mod_two_pow, Nat.testBit_or]
    cases decide (j < 32) <;> simp

theorem split_words (X : Bits) (hX : X.size = 128) :
    X.split 32 = .ok [W (stateOfNat X.ival).x0, W (stateOfNat X.ival).x1, W (stateOfNat X.ival).x2, W (stateOfNat X.ival).x3] := by
  rw [split_uniform X 4 32 (by decide) hX]
  show Except.ok [X.sliceFast 0 (0 + 32), X.sliceFast 32 (32 + 32), X.sliceFast 64 (64 + 32), X.sliceFast 96 (96 + 32)] = _
  rw [slice_word, slice_word, slice_word, slice_word]
  simp [stateOfNat]

theorem L_eq (X : Bits) (hX : X.size = 128) : Model.Serpent.L X = .ok (B (lt (stateOfNat X.ival))) := by
  unfold Model.Serpent.L
  rw [chk_ok X hX]
  simp only [bind, Except.bind]
  rw [split_words X hX]
  simp only []
  have e0 : Model.Serpent.lr 0 = 13 := by decide
  have e1 : Model.Serpent.lr 1 = 3 := by decide
  have e2 : Model.Serpent.lr 2 = 1 := by decide
  have e3 : Model.Serpent.lr 3 = 7 := by decide
  have e4 : Model.Serpent.lr 4 = 5 := by decide
  have e5 : Model.Serpent.lr 5 = 22 := by decide
  have s0 : Model.Serpent.ls 0 = 3 := by decide
  have s1 : Model.Serpent.ls 1 = 7 := by decide
  rw [e0, e1, e2, e3, e4, e5, s0, s1]
  simp only [W_rol _ _ (by decide : 13 ≤ 32), W_rol _ _ (by decide : 3 ≤ 32), W_rol _ _ (by decide : 1 ≤ 32),
    W_rol _ _ (by decide : 7 ≤ 32), W_rol _ _ (by decide : 5 ≤ 32), W_rol _ _ (by decide : 22 ≤ 32), W_xor, W_shl]
  rw [concat_words]
  · rfl
  all_goals (simp only [rotl]; exact Nat.mod_lt _ (Nat.two_pow_pos _))

theorem rotl_lt (a n : Nat) : rotl a n < 2 ^ 32 := Nat.mod_lt _ (Nat.two_pow_pos _)
theorem rotr_lt (a n : Nat) : rotr a n < 2 ^ 32 := Nat.mod_lt _ (Nat.two_pow_pos _)
theorem shl_lt (a n : Nat) : Spec.Serpent.shl a n < 2 ^ 32 := Nat.mod_lt _ (Nat.two_pow_pos _)

theorem stateOfNat_ws (x : Nat) : WS (stateOfNat x) :=
  ⟨Nat.mod_lt _ (Nat.two_pow_pos _), Nat.mod_lt _ (Nat.two_pow_pos _), Nat.mod_lt _ (Nat.two_pow_pos _), Nat.mod_lt _ (Nat.two_pow_pos _)⟩

theorem Linv_eq (X : Bits) (hX : X.size = 128) : Model.Serpent.Linv X = .ok (B (ltInv (stateOfNat X.ival))) := by
  unfold Model.Serpent.Linv
  rw [chk_ok X hX]
  simp only [bind, Except.bind]
  rw [split_words X hX]
  simp only []
  have e0 : Model.Serpent.ir 0 = 22 := by decide
  have e1 : Model.Serpent.ir 1 = 5 := by decide
  have e2 : Model.Serpent.ir 2 = 7 := by decide
  have e3 : Model.Serpent.ir 3 = 1 := by decide
  have e4 : Model.Serpent.ir 4 = 3 := by decide
  have e5 : Model.Serpent.ir 5 = 13 := by decide
  have s0 : Model.Serpent.is 0 = 7 := by decide
  have s1 : Model.Serpent.is 1 = 3 := by decide
  rw [e0, e1, e2, e3, e4, e5, s0, s1]
  simp only [W_ror _ _ (by decide : 13 ≤ 32), W_ror _ _ (by decide : 3 ≤ 32), W_ror _ _ (by decide : 1 ≤ 32),
    W_ror _ _ (by decide : 7 ≤ 32), W_ror _ _ (by decide : 5 ≤ 32), W_ror _ _ (by decide : 22 ≤ 32), W_xor, W_shl]
  obtain ⟨h0, h1, h2, h3⟩ := stateOfNat_ws X.ival
  rw [concat_words]
  · rfl
  · exact rotr_lt _ _
  · exact Nat.xor_lt_two_pow (Nat.xor_lt_two_pow (rotr_lt _ _) (Nat.xor_lt_two_pow (Nat.xor_lt_two_pow (rotr_lt _ _) h1) h3)) (Nat.xor_lt_two_pow (Nat.xor_lt_two_pow (rotr_lt _ _) h3) (shl_lt _ _))
  · exact rotr_lt _ _
  · exact Nat.xor_lt_two_pow (Nat.xor_lt_two_pow (rotr_lt _ _) (Nat.xor_lt_two_pow (Nat.xor_lt_two_pow (rotr_lt _ _) h3) (shl_lt _ _))) (shl_lt _ _)

theorem natOfState_add (s : State) (hs : WS s) :
    natOfState s = s.x0 + s.x1 * 2 ^ 32 + s.x2 * 2 ^ 64 + s.x3 * 2 ^ 96 := by
  obtain ⟨h0, h1, h2, h3⟩ := hs
  unfold natOfState
  have a1 : s.x0 ||| s.x1 <<< 32 = s.x1 <<< 32 + s.x0 := by
    rw [Nat.or_comm, Nat.shiftLeft_add_eq_or_of_lt h0]
  have b1 : s.x1 <<< 32 + s.x0 < 2 ^ 64 := by rw [Nat.shiftLeft_eq]; omega
  have a2 : (s.x1 <<< 32 + s.x0) ||| s.x2 <<< 64 = s.x2 <<< 64 + (s.x1 <<< 32 + s.x0) := by
    rw [Nat.or_comm, Nat.shiftLeft_add_eq_or_of_lt b1]
  have b2 : s.x2 <<< 64 + (s.x1 <<< 32 + s.x0) < 2 ^ 96 := by rw [Nat.shiftLeft_eq, Nat.shiftLeft_eq]; omega
  have a3 : (s.x2 <<< 64 + (s.x1 <<< 32 + s.x0)) ||| s.x3 <<< 96 = s.x3 <<< 96 + (s.x2 <<< 64 + (s.x1 <<< 32 + s.x0)) := by
    rw [Nat.or_comm, Nat.shiftLeft_add_eq_or_of_lt b2]
  rw [a1, a2, a3, Nat.shiftLeft_eq, Nat.shiftLeft_eq, Nat.shiftLeft_eq]
  omega

theorem natOfState_lt (s : State) (hs : WS s) : natOfState s < 2 ^ 128 := by
  rw [natOfState_add s hs]
  obtain ⟨h0, h1, h2, h3⟩ := hs
  omega

theorem stateOfNat_natOfState (s : State) (hs : WS s) : stateOfNat (natOfState s) = s := by
  rw [natOfState_add s hs]
  obtain ⟨h0, h1, h2, h3⟩ := hs
  cases s with | mk a b c d =>
  simp only at h0 h1 h2 h3
  simp only [stateOfNat, Nat.shiftRight_eq_div_pow, State.mk.injEq]
  refine ⟨?_, ?_, ?_, ?_⟩ <;> omega

theorem natOfState_stateOfNat (x : Nat) (hx : x < 2 ^ 128) : natOfState (stateOfNat x) = x := by
  rw [natOfState_add _ (stateOfNat_ws x)]
  simp only [stateOfNat, Nat.shiftRight_eq_div_pow]
  omega

theorem B_wf (s : State) (hs : WS s) : (B s).WF := natOfState_lt s hs

theorem B_stateOfNat (X : Bits) (hX : X.size = 128) (hwf : X.WF) : B (stateOfNat X.ival) = X := by
  cases X with | mk v sz =>
  simp only at hX; subst hX
  unfold B; congr 1
  exact natOfState_stateOfNat v hwf

theorem column_stateOfNat (x k : Nat) (hk : k < 32) : column (stateOfNat x) k = colBits x k := by
  simp only [column, stateOfNat, colBits, Nat.testBit_mod_two_pow, Nat.testBit_shiftRight, hk, decide_true, Bool.true_and]

theorem applyBox_ws (f : Nat → Nat) (s : State) : WS (applyBox f s) :=
  ⟨ofBitFn_lt _ _, ofBitFn_lt _ _, ofBitFn_lt _ _, ofBitFn_lt _ _⟩

theorem testBit_natOfState (t : State) (j : Nat) :
    (natOfState t).testBit j = (t.x0.testBit j || (decide (32 ≤ j) && t.x1.testBit (j - 32)) ||
      (decide (64 ≤ j) && t.x2.testBit (j - 64)) || (decide (96 ≤ j) && t.x3.testBit (j - 96))) := by
  simp [natOfState, Nat.testBit_or, Nat.testBit_shiftLeft]

theorem substB_eq (row : List Nat) (X : Bits) :
    substB row X = B (applyBox (fun x => row.getD x 0) (stateOfNat X.ival)) := by
  have hwf1 : (substB row X).WF := substB_wf row X
  have hwf2 : (B (applyBox (fun x => row.getD x 0) (stateOfNat X.ival))).WF := B_wf _ (applyBox_ws _ _)
  have hsz : (substB row X).size = (B (applyBox (fun x => row.getD x 0) (stateOfNat X.ival))).size := rfl
  apply bits_ext _ _ hsz hwf1 hwf2
  intro j hj
  have hj : j < 128 := hj
  unfold substB B
  simp only []
  rw [testBit_ofBitFn, testBit_natOfState]
  simp only [applyBox, testBit_ofBitFn, hj, decide_true, Bool.true_and]
  have hk : j % 32 < 32 := Nat.mod_lt _ (by decide)
  rcases (show j / 32 = 0 ∨ j / 32 = 1 ∨ j / 32 = 2 ∨ j / 32 = 3 by omega) with h | h | h | h
  · have a1 : j < 32 := by omega
    have a2 : ¬ 32 ≤ j := by omega
    have a3 : ¬ 64 ≤ j := by omega
    have a4 : ¬ 96 ≤ j := by omega
    have a5 : j % 32 = j := by omega
    simp [h, a1, a2, a3, a4, a5, column_stateOfNat _ _ a1]
  · have a1 : ¬ j < 32 := by omega
    have a2 : 32 ≤ j := by omega
    have a3 : ¬ 64 ≤ j := by omega
    have a4 : ¬ 96 ≤ j := by omega
    have a5 : j % 32 = j - 32 := by omega
    have a6 : j - 32 < 32 := by omega
    simp [h, a1, a2, a3, a4, a5, a6, column_stateOfNat _ _ a6]
  · have a1 : ¬ j < 32 := by omega
    have a2 : ¬ j - 32 < 32 := by omega
    have a3 : 64 ≤ j := by omega
    have a4 : ¬ 96 ≤ j := by omega
    have a5 : j % 32 = j - 64 := by omega
    have a6 : j - 64 < 32 := by omega
    simp [h, a1, a2, a3, a4, a5, a6, column_stateOfNat _ _ a6]
  · have a1 : ¬ j < 32 := by omega
    have a2 : ¬ j - 32 < 32 := by omega
    have a3 : ¬ j - 64 < 32 := by omega
    have a4 : 96 ≤ j := by omega
    have a5 : j % 32 = j - 96 := by omega
    have a6 : j - 96 < 32 := by omega
    simp [h, a1, a2, a3, a4, a5, a6, column_stateOfNat _ _ a6]


/-! ### S / Sinv refine the bitslice S-box layer -/
theorem gen_sbox_eq : Model.Gen.Serpent.sbox = Spec.Serpent.sboxTable := by decide +kernel
theorem gen_sboxInv_eq : ∀ i < 8, ∀ y < 16, (Model.Gen.Serpent.sboxInv.getD i []).getD y 0 = Spec.Serpent.sboxInv i y := by
  decide +kernel
theorem gen_sbox_rows : ∀ i < 8, (Model.Gen.Serpent.sbox.getD i []).length = 16 := by decide +kernel
theorem gen_sboxInv_rows : ∀ i < 8, (Model.Gen.Serpent.sboxInv.getD i []).length = 16 := by decide +kernel

theorem column_lt (s : State) (k : Nat) : column s k < 16 := by
  unfold column
  cases s.x0.testBit k <;> cases s.x1.testBit k <;> cases s.x2.testBit k <;> cases s.x3.testBit k <;> decide

theorem applyBox_congr (f g : Nat → Nat) (s : State) (h : ∀ x < 16, f x = g x) : applyBox f s = applyBox g s := by
  unfold applyBox
  simp only [h _ (column_lt s _)]

theorem S_eq (i : Nat) (X : Bits) (hi : i < 8) (hX : X.size = 128) :
    Model.Serpent.S i X = .ok (B (applyBox (sbox i) (stateOfNat X.ival))) := by
  unfold Model.Serpent.S
  rw [subst_eq _ i X hi hX (gen_sbox_rows i hi), substB_eq, gen_sbox_eq]
  rfl

theorem Sinv_eq (i : Nat) (X : Bits) (hi : i < 8) (hX : X.size = 128) :
    Model.Serpent.Sinv i X = .ok (B (applyBox (sboxInv i) (stateOfNat X.ival))) := by
  unfold Model.Serpent.Sinv
  rw [subst_eq _ i X hi hX (gen_sboxInv_rows i hi), substB_eq]
  congr 2
  exact applyBox_congr _ _ _ (fun x hx => gen_sboxInv_eq i hi x hx)

/-! ### the same in terms of states -/
theorem B_size (s : State) : (B s).size = 128 := rfl

theorem S_B (i : Nat) (s : State) (hi : i < 8) (hs : WS s) :
    Model.Serpent.S i (B s) = .ok (B (applyBox (sbox i) s)) := by
  rw [S_eq i (B s) hi rfl]; show Except.ok (B (applyBox (sbox i) (stateOfNat (natOfState s)))) = _
  rw [stateOfNat_natOfState s hs]

theorem Sinv_B (i : Nat) (s : State) (hi : i < 8) (hs : WS s) :
    Model.Serpent.Sinv i (B s) = .ok (B (applyBox (sboxInv i) s)) := by
  rw [Sinv_eq i (B s) hi rfl]; show Except.ok (B (applyBox (sboxInv i) (stateOfNat (natOfState s)))) = _
  rw [stateOfNat_natOfState s hs]

theorem L_B (s : State) (hs : WS s) : Model.Serpent.L (B s) = .ok (B (lt s)) := by
  rw [L_eq (B s) rfl]; show Except.ok (B (lt (stateOfNat (natOfState s)))) = _
  rw [stateOfNat_natOfState s hs]

theorem Linv_B (s : State) (hs : WS s) : Model.Serpent.Linv (B s) = .ok (B (ltInv s)) := by
  rw [Linv_eq (B s) rfl]; show Except.ok (B (ltInv (stateOfNat (natOfState s)))) = _
  rw [stateOfNat_natOfState s hs]

theorem stateOfNat_xor (a b : Nat) : stateOfNat (a ^^^ b) = (stateOfNat a).xor (stateOfNat b) := by
  simp only [stateOfNat, State.xor, Nat.shiftRight_xor_distrib, Nat.xor_mod_two_pow]

theorem xor_ws (s t : State) (hs : WS s) (ht : WS t) : WS (s.xor t) :=
  ⟨Nat.xor_lt_two_pow hs.1 ht.1, Nat.xor_lt_two_pow hs.2.1 ht.2.1, Nat.xor_lt_two_pow hs.2.2.1 ht.2.2.1,
   Nat.xor_lt_two_pow hs.2.2.2 ht.2.2.2⟩

theorem natOfState_xor (s t : State) (hs : WS s) (ht : WS t) :
    natOfState (s.xor t) = natOfState s ^^^ natOfState t := by
  have h := stateOfNat_xor (natOfState s) (natOfState t)
  rw [stateOfNat_natOfState s hs, stateOfNat_natOfState t ht] at h
  rw [← h, natOfState_stateOfNat]
  exact Nat.xor_lt_two_pow (natOfState_lt s hs) (natOfState_lt t ht)

theorem xor_B (s t : State) (hs : WS s) (ht : WS t) : (B s).xor (B t) = B (s.xor t) := by
  rw [xor_same (B s) (B t) rfl]
  unfold B
  rw [natOfState_xor s t hs ht]

theorem lt_ws (s : State) : WS (lt s) := ⟨rotl_lt _ _, rotl_lt _ _, rotl_lt _ _, rotl_lt _ _⟩

theorem ltInv_ws (s : State) (hs : WS s) : WS (ltInv s) := by
  obtain ⟨h0, h1, h2, h3⟩ := hs
  refine ⟨rotr_lt _ _, ?_, rotr_lt _ _, ?_⟩
  · exact Nat.xor_lt_two_pow (Nat.xor_lt_two_pow (rotr_lt _ _) (Nat.xor_lt_two_pow (Nat.xor_lt_two_pow (rotr_lt _ _) h1) h3)) (Nat.xor_lt_two_pow (Nat.xor_lt_two_pow (rotr_lt _ _) h3) (shl_lt _ _))
  · exact Nat.xor_lt_two_pow (Nat.xor_lt_two_pow (rotr_lt _ _) (Nat.xor_lt_two_pow (Nat.xor_lt_two_pow (rotr_lt _ _) h3) (shl_lt _ _))) (shl_lt _ _)

end Proofs.Lemmas.SerpentComp
