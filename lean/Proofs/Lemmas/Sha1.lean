/- SHA-0 / SHA-1: tables, schedule, rounds, compression of the model equal FIPS 180-4 -/
import Proofs.Lemmas.RoundFns
import Proofs.Lemmas.Parse
namespace Proofs.Lemmas.Sha1
open Model Model.Sha Model.Gen.Hashes Proofs.Lemmas.BitsBitVec Proofs.Lemmas.Fold Proofs.Lemmas.Parse Proofs.Lemmas.RoundFns

/-- the chaining value of the standard as the list of `Bits` words the object holds -/
def embH (s : Spec.Sha1.State) : List Bits :=
  [ofBV s.1, ofBV s.2.1, ofBV s.2.2.1, ofBV s.2.2.2.1, ofBV s.2.2.2.2]
def emb5 (s : Spec.Sha1.State) : St5 :=
  (ofBV s.1, ofBV s.2.1, ofBV s.2.2.1, ofBV s.2.2.2.1, ofBV s.2.2.2.2)

/-- code of the round function FIPS 180-4 §4.1.1 prescribes for round t, in the numbering of `sha1ftFun` -/
def specCode (t : Nat) : Nat := if t < 20 then 0 else if t < 40 then 1 else if t < 60 then 2 else 1

theorem K_eq (v : Nat) : ∀ r, r < 80 → (sha1K v).getD r 0 = (Spec.Sha1.K r).toNat := by
  by_cases h : v = 0
  · subst h; decide +kernel
  · have : sha1K v = sha1K_v1 := by simp [sha1K, h]
    rw [this]; decide +kernel

theorem ftCode_eq (v : Nat) : ∀ r, r < 80 → (sha1ftCode v).getD r 0 = specCode r := by
  by_cases h : v = 0
  · subst h; decide +kernel
  · have : sha1ftCode v = sha1ftCode_v1 := by simp [sha1ftCode, h]
    rw [this]; decide +kernel

theorem iv_eq (v : Nat) : (sha1IV v).map (fun x => Bits.ofNatSz x 32) = embH Spec.Sha1.iv := by
  by_cases h : v = 0
  · subst h; decide +kernel
  · have : sha1IV v = sha1H_v1 := by simp [sha1IV, h]
    rw [this]; decide +kernel

theorem ft_ofBV (v r : Nat) (hr : r < 80) (b c d : BitVec 32) :
    sha1ft v r (ofBV b) (ofBV c) (ofBV d) = ofBV (Spec.Sha1.f r b c d) := by
  unfold sha1ft
  rw [ftCode_eq v r hr]
  unfold specCode Spec.Sha1.f
  by_cases h1 : r < 20
  · simp only [h1, if_true]; exact sha1_Ch b c d
  · by_cases h2 : r < 40
    · simp only [h1, h2, if_true, if_false]; exact sha1_Parity b c d
    · by_cases h3 : r < 60
      · simp only [h1, h2, h3, if_true, if_false]; exact sha1_Maj b c d
      · simp only [h1, h2, h3, if_false]; exact sha1_Parity b c d

theorem expand_refines (v : Nat) (hv : v ≤ 32) (W : List (BitVec 32)) :
    sha1Expand v (W.map ofBV) = (Spec.Sha1.schedule v W).map ofBV := by
  unfold sha1Expand Spec.Sha1.schedule
  rw [List.range'_eq_map_range, List.foldl_map]
  apply foldl_sim (fun W : List (BitVec 32) => W.map ofBV)
  intro i _ W
  simp only [dflt, getD_map_ofBV, xor_ofBV, rol_ofBV _ _ hv, List.map_append, List.map_cons, List.map_nil]

theorem round_refines (v : Nat) (W : List (BitVec 32)) (r : Nat) (hr : r < 80) (s : Spec.Sha1.State) :
    sha1Round v (W.map ofBV) (emb5 s) r = emb5 (Spec.Sha1.round W s r) := by
  obtain ⟨a, b, c, d, e⟩ := s
  simp only [sha1Round, emb5, Spec.Sha1.round, dflt, getD_map_ofBV, ft_ofBV v r hr, K_eq v r hr,
    rol_ofBV _ _ (by decide : 5 ≤ 32), rol_ofBV _ _ (by decide : 30 ≤ 32), add_ofBV, addConst_ofBV]

theorem rounds_refines (v : Nat) (W : List (BitVec 32)) (s : Spec.Sha1.State) :
    (List.range 80).foldl (sha1Round v (W.map ofBV)) (emb5 s) = emb5 ((List.range 80).foldl (Spec.Sha1.round W) s) := by
  apply foldl_sim emb5
  intro i hi b
  exact round_refines v W i (List.mem_range.1 hi) b

theorem tables_ok (v : Nat) :
    ¬ ((sha1K v).length < 80 ∨ (sha1ftCode v).length < 80 ∨ (sha1ftCode v).any (· ≥ sha1ftFun.length) = true) := by
  by_cases h : v = 0
  · subst h; decide +kernel
  · have h1 : sha1K v = sha1K_v1 := by simp [sha1K, h]
    have h2 : sha1ftCode v = sha1ftCode_v1 := by simp [sha1ftCode, h]
    rw [h1, h2]; decide +kernel

theorem block_refines (v : Nat) (hv : v ≤ 32) (H : Spec.Sha1.State) (W : List (BitVec 32)) (hW : W.length = 16) :
    sha1Block v (embH H) (W.map ofBV) = .ok (embH (Spec.Sha1.compressWords v H W)) := by
  obtain ⟨h0, h1, h2, h3, h4⟩ := H
  have hr := rounds_refines v (Spec.Sha1.schedule v W) (h0, h1, h2, h3, h4)
  simp only [Spec.Sha1.compressWords]
  generalize (List.range 80).foldl (Spec.Sha1.round (Spec.Sha1.schedule v W)) (h0, h1, h2, h3, h4) = R at hr ⊢
  obtain ⟨a, b, c, d, e⟩ := R
  simp only [emb5] at hr
  simp only [sha1Block, embH, List.length_map, hW, ne_eq, not_true_eq_false, if_false, tables_ok v,
    expand_refines v hv W, hr, add_ofBV, BitVec.add_comm]

theorem compress_refines (v : Nat) (hv : v ≤ 32) (H : Spec.Sha1.State) (blk : List Spec.Byte) (hb : blk.length = 64) :
    sha1Compress v (embH H) (toNatBytes blk) = .ok (embH (Spec.Sha1.compress v H blk)) := by
  unfold sha1Compress
  rw [parseBE_refines 32 (by decide) blk (by rw [hb])]
  simp only [bind, Except.bind]
  have hl : (Spec.wordsBE 32 blk).length = 16 := by rw [wordsBE_length, hb]
  rw [block_refines v hv H _ hl]; rfl

end Proofs.Lemmas.Sha1
