/-
  Non-vacuity for C05: the toy cipher `Model.Toy.rot` satisfies the cipher hypotheses `Implements`.
-/
import Proofs.Lemmas.ModeL
import Model.ToyCipher
namespace Proofs.Lemmas.ModeL
open Model Model.Mode Model.Toy

theorem xorKey_eq (key b : List Nat) : xorKey key b = xorstr b key := rfl

theorem rotl_isBlock {n : Nat} {x : List Nat} (hx : IsBlock n x) : IsBlock n (x.drop 1 ++ x.take 1) := by
  refine ⟨?_, (hx.2.drop 1).append (hx.2.take 1)⟩
  rw [List.length_append, List.length_drop, List.length_take, hx.1]; omega

theorem rotr_isBlock {n : Nat} {y : List Nat} (hy : IsBlock n y) :
    IsBlock n (y.drop (y.length - 1) ++ y.take (y.length - 1)) := by
  refine ⟨?_, (hy.2.drop _).append (hy.2.take _)⟩
  rw [List.length_append, List.length_drop, List.length_take, hy.1]; omega

theorem rotr_rotl (x : List Nat) :
    (x.drop 1 ++ x.take 1).drop ((x.drop 1 ++ x.take 1).length - 1) ++ (x.drop 1 ++ x.take 1).take ((x.drop 1 ++ x.take 1).length - 1) = x := by
  cases x with
  | nil => rfl
  | cons a t => simp

theorem rotl_rotr (y : List Nat) :
    (y.drop (y.length - 1) ++ y.take (y.length - 1)).drop 1 ++ (y.drop (y.length - 1) ++ y.take (y.length - 1)).take 1 = y := by
  rcases List.eq_nil_or_concat y with rfl | ⟨t, a, rfl⟩
  · rfl
  · simp

/-- `Toy.rot n key` (n ≥ 1, an n-byte key) is a permutation cipher in the sense of `Implements` -/
theorem toy_rot_implements (n : Nat) (hn : 0 < n) (key : List Nat) (hk : IsBlock n key) :
    Implements (Toy.rot n key) ⟨n, rotEncF key, rotDecF key⟩ where
  len_eq := rfl
  len_pos := hn
  enc_ok := fun b hb => by simp [Toy.rot, guardLen, hb.1]
  dec_ok := fun b hb => by simp [Toy.rot, guardLen, hb.1]
  E_block := fun b hb => rotl_isBlock (xor_isBlock hb hk)
  D_block := fun b hb => xor_isBlock (rotr_isBlock hb) hk
  D_E := fun b hb => by
    show rotDecF key (rotEncF key b) = b
    unfold rotDecF rotEncF
    simp only [xorKey_eq]
    rw [rotr_rotl, xor_cancel_right b key (by rw [hb.1, hk.1]; exact Nat.le_refl _)]
  E_D := fun b hb => by
    show rotEncF key (rotDecF key b) = b
    unfold rotDecF rotEncF
    simp only [xorKey_eq]
    rw [xor_cancel_right _ key (by rw [(rotr_isBlock hb).1, hk.1]; exact Nat.le_refl _), rotl_rotr]

end Proofs.Lemmas.ModeL
