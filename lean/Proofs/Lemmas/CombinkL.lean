/-
  Proofs.Lemmas.CombinkL — `combink l p 0` yields `Spec.Perms.combs p l` (sub-lists of length p, lexicographic index
  order), by induction over the recursion levels with the index list r as explicit state.  Core Lean only.
-/
import Model.Perms
import Spec.Perms
import Proofs.Lemmas.PermutkL
namespace Proofs.Lemmas.CombinkL
open Model Model.Perms Spec.Perms Proofs.Lemmas.PermutkL

variable {α : Type}

/-! ### combs -/

theorem combs_short : ∀ (xs : List α) (q : Nat), xs.length < q → combs q xs = [] := by
  intro xs
  induction xs with
  | nil => intro q h; cases q with
    | zero => simp at h
    | succ q => rfl
  | cons x xs ih =>
    intro q h
    cases q with
    | zero => simp at h
    | succ q =>
      simp only [List.length_cons] at h
      simp only [combs]
      rw [ih q (by omega), ih (q + 1) (by omega)]; rfl

/-- choosing the first element by position: the combinations of `l[m:]` split by their first index i -/
theorem combs_unfold (l : List α) (q : Nat) : ∀ (d m : Nat), l.length - m = d →
    combs (q + 1) (l.drop m) = (List.range' m (l.length - q - m)).flatMap (fun i =>
      match l[i]? with
      | some x => (combs q (l.drop (i + 1))).map (x :: ·)
      | none => []) := by
  intro d
  induction d with
  | zero =>
    intro m hm
    have h1 : l.drop m = [] := List.drop_eq_nil_of_le (by omega)
    have h2 : l.length - q - m = 0 := by omega
    rw [h1, h2]; rfl
  | succ d ih =>
    intro m hm
    have hlt : m < l.length := by omega
    rw [List.drop_eq_getElem_cons hlt]
    simp only [combs]
    rw [ih (m + 1) (by omega)]
    by_cases hc : m + q < l.length
    · have e : l.length - q - m = (l.length - q - (m + 1)) + 1 := by omega
      rw [e, List.range'_succ, List.flatMap_cons, List.getElem?_eq_getElem hlt]
    · have e1 : l.length - q - m = 0 := by omega
      have e2 : l.length - q - (m + 1) = 0 := by omega
      rw [e1, e2, combs_short _ q (by rw [List.length_drop]; omega)]
      rfl

/-! ### Python plumbing -/

theorem pyGet_nat (l : List α) (i : Nat) (hi : i < l.length) : pyGet l (i : Int) = .ok l[i] := by
  unfold pyGet Py.normIndex
  have h : (0 : Int) ≤ (i : Int) ∧ (i : Int) < (l.length : Int) := ⟨by omega, by omega⟩
  simp only [h, and_self, if_true, Int.toNat_natCast, List.getElem?_eq_getElem hi]

theorem pyGet_last (r : List Int) (v : Int) : pyGet (r ++ [v]) (-1) = .ok v := by
  unfold pyGet Py.normIndex
  have h1 : ¬ ((0 : Int) ≤ -1 ∧ (-1 : Int) < ((r ++ [v]).length : Int)) := by omega
  have h2 : (-1 : Int) < 0 ∧ -(-1 : Int) ≤ ((r ++ [v]).length : Int) := by
    simp only [List.length_append, List.length_cons, List.length_nil]; omega
  simp only [h1, if_false, h2, and_self, if_true]
  have : ((-1 : Int) + ((r ++ [v]).length : Int)).toNat = r.length := by
    simp only [List.length_append, List.length_cons, List.length_nil]; omega
  rw [this, List.getElem?_concat_length]

theorem pyRange_eq (a stop : Nat) : Py.range (a : Int) (stop : Int) 1 = (List.range' a (stop - a)).map Int.ofNat := by
  unfold Py.range Py.rangeLen
  simp only [Int.reduceLT, if_true, gt_iff_lt, Int.one_mul, Int.ediv_one]
  by_cases h : (a : Int) < (stop : Int)
  · have e : ((stop : Int) - (a : Int) - 1 + 1).toNat = stop - a := by omega
    rw [if_pos h, e, List.range'_eq_map_range, List.map_map]
    apply List.map_congr_left
    intro i _
    simp
  · have e : stop - a = 0 := by omega
    rw [if_neg h, e]; rfl

/-- the elements selected by a list of indices -/
def sel (l : List α) (cs : List Nat) : List α := cs.filterMap (l[·]?)

theorem sel_snoc (l : List α) (cs : List Nat) (i : Nat) (hi : i < l.length) : sel l (cs ++ [i]) = sel l cs ++ [l[i]] := by
  unfold sel
  rw [List.filterMap_append]
  simp [List.getElem?_eq_getElem hi]

theorem mapM_pyGet (l : List α) : ∀ (cs : List Nat), (∀ c ∈ cs, c < l.length) →
    (cs.map Int.ofNat).mapM (pyGet l) = .ok (sel l cs) := by
  intro cs
  induction cs with
  | nil => intro _; rfl
  | cons c cs ih =>
    intro h
    have hc := h c (by simp)
    rw [List.map_cons, List.mapM_cons, show Int.ofNat c = (c : Int) from rfl, pyGet_nat l c hc,
      ih (fun x hx => h x (by simp [hx]))]
    simp [sel, List.getElem?_eq_getElem hc]
    rfl

theorem take_set_succ (r : List Int) (k : Nat) (v : Int) (hk : k < r.length) :
    (r.set k v).take (k + 1) = r.take k ++ [v] := by
  apply List.ext_getElem?
  intro j
  rw [List.getElem?_take, List.getElem?_set, List.getElem?_append, List.getElem?_take]
  have hl : (r.take k).length = k := by rw [List.length_take]; omega
  rw [hl]
  by_cases h1 : j < k
  · have : j < k + 1 := by omega
    have h2 : k ≠ j := by omega
    simp [h1, this, h2]
  · by_cases h2 : j = k
    · subst h2; simp [hk]
    · have : ¬ j < k + 1 := by omega
      simp only [this, h1, if_false]
      cases hjk : j - k with
      | zero => omega
      | succ m => simp

theorem take_of_take_succ (a b : List Int) (k : Nat) (h : a.take (k + 1) = b.take (k + 1)) : a.take k = b.take k := by
  have := congrArg (List.take k) h
  rwa [List.take_take, List.take_take, Nat.min_eq_left (by omega)] at this

/-! ### the recursion -/

/-- what the recursive generator at level k+1 does, for every admissible state -/
def RecSpec (l : List α) (p k : Nat) (rec : List Int → Except Err (List (List α) × List Int)) : Prop :=
  ∀ (cs : List Nat) (r : List Int) (m : Nat),
    r.length = l.length + 1 → cs.length = k + 1 → r.take (k + 1) = cs.map Int.ofNat → (∀ c ∈ cs, c < l.length) →
    pyGet r (((k + 1 : Nat) : Int) - 1) = .ok ((m : Int) - 1) →
    ∃ r', rec r = .ok ((combs (p - (k + 1)) (l.drop m)).map (sel l cs ++ ·), r')
      ∧ r'.length = l.length + 1 ∧ r'.take (k + 1) = r.take (k + 1)

theorem loop_eq (l : List α) (p k : Nat) (rec : List Int → Except Err (List (List α) × List Int))
    (hrec : RecSpec l p k rec) (cs : List Nat) (hcs : cs.length = k) (hcsn : ∀ c ∈ cs, c < l.length)
    (hkn : k < l.length + 1) :
    ∀ (c a : Nat), a + c ≤ l.length → ∀ (ys : List (List α)) (r : List Int),
      r.length = l.length + 1 → r.take k = cs.map Int.ofNat →
      ∃ r', ((List.range' a c).map Int.ofNat).foldlM (combinkStep rec k) (ys, r)
          = .ok (ys ++ (List.range' a c).flatMap (fun i =>
              (combs (p - (k + 1)) (l.drop (i + 1))).map (sel l (cs ++ [i]) ++ ·)), r')
        ∧ r'.length = l.length + 1 ∧ r'.take k = r.take k := by
  intro c
  induction c with
  | zero =>
    intro a _ ys r hr _
    exact ⟨r, by simp [pure, Except.pure], hr, rfl⟩
  | succ c ih =>
    intro a ha ys r hr hrt
    have hai : a < l.length := by omega
    rw [List.range'_succ, List.map_cons, List.foldlM_cons]
    have hstep : ∃ r1, combinkStep rec k (ys, r) (Int.ofNat a)
        = .ok (ys ++ (combs (p - (k + 1)) (l.drop (a + 1))).map (sel l (cs ++ [a]) ++ ·), r1)
        ∧ r1.length = l.length + 1 ∧ r1.take k = r.take k := by
      unfold combinkStep
      have hk' : ¬ (k ≥ r.length) := by omega
      simp only [hk', if_false]
      have hset : (r.set k (Int.ofNat a)).take (k + 1) = (cs ++ [a]).map Int.ofNat := by
        rw [take_set_succ r k _ (by omega), hrt]; simp
      have hget : pyGet (r.set k (Int.ofNat a)) (((k + 1 : Nat) : Int) - 1) = .ok (((a + 1 : Nat) : Int) - 1) := by
        have e1 : (((k + 1 : Nat) : Int) - 1) = (k : Int) := by omega
        have e2 : (((a + 1 : Nat) : Int) - 1) = (a : Int) := by omega
        rw [e1, e2, pyGet_nat _ k (by rw [List.length_set]; omega)]
        simp
      obtain ⟨r', h1, h2, h3⟩ := hrec (cs ++ [a]) (r.set k (Int.ofNat a)) (a + 1)
        (by rw [List.length_set]; exact hr) (by simp [hcs]) hset
        (by intro x hx; rcases List.mem_append.1 hx with h | h
            · exact hcsn x h
            · simp at h; omega) hget
      refine ⟨r', ?_, h2, ?_⟩
      · rw [h1]; rfl
      · have e1 := take_of_take_succ _ _ k h3
        have e2 : (r.set k (Int.ofNat a)).take k = r.take k := by
          have := congrArg (List.take k) (take_set_succ r k (Int.ofNat a) (by omega))
          rw [List.take_take, Nat.min_eq_left (by omega),
            List.take_append_of_le_length (by rw [List.length_take]; omega), List.take_take] at this
          simpa using this
        rw [e1, e2]
    obtain ⟨r1, h1, h2, h3⟩ := hstep
    rw [h1]
    simp only [bind, Except.bind]
    obtain ⟨r', h4, h5, h6⟩ := ih (a + 1) (by omega) _ r1 h2 (by rw [h3, hrt])
    refine ⟨r', ?_, h5, by rw [h6, h3]⟩
    rw [h4, List.flatMap_cons, List.append_assoc]

/-- every level of the recursion -/
theorem combinkAux_eq (l : List α) (p : Nat) (hp : p ≤ l.length) : ∀ (fuel k : Nat), k ≤ p → p - k + 1 ≤ fuel →
    ∀ (cs : List Nat) (r : List Int) (m : Nat),
      r.length = l.length + 1 → cs.length = k → r.take k = cs.map Int.ofNat → (∀ c ∈ cs, c < l.length) →
      pyGet r ((k : Int) - 1) = .ok ((m : Int) - 1) →
      ∃ r', combinkAux fuel l p k r = .ok ((combs (p - k) (l.drop m)).map (sel l cs ++ ·), r')
        ∧ r'.length = l.length + 1 ∧ r'.take k = r.take k := by
  intro fuel
  induction fuel with
  | zero => intro k _ h; omega
  | succ fuel ih =>
    intro k hk hf cs r m hr hcs hrt hcsn hstart
    unfold combinkAux
    have hpn : ¬ (p > l.length) := by omega
    simp only [hpn, if_false]
    by_cases hkp : k < p
    · simp only [hkp, if_true]
      rw [hstart]
      simp only [bind, Except.bind]
      have e1 : (m : Int) - 1 + 1 = (m : Int) := by omega
      rw [e1, pyRange_eq]
      have hrec : RecSpec l p k (fun r1 => combinkAux fuel l p (k + 1) r1) := by
        intro cs' r1 m' h1 h2 h3 h4 h5
        exact ih (k + 1) (by omega) (by omega) cs' r1 m' h1 h2 h3 h4 (by simpa using h5)
      by_cases hm : m ≤ l.length - p + k + 1
      · obtain ⟨r', h1, h2, h3⟩ := loop_eq l p k _ hrec cs hcs hcsn (by omega) (l.length - p + k + 1 - m) m (by omega)
          [] r hr hrt
        refine ⟨r', ?_, h2, h3⟩
        rw [h1, List.nil_append]
        congr 2
        have hq : p - k = (p - (k + 1)) + 1 := by omega
        rw [hq, combs_unfold l (p - (k + 1)) _ m rfl, List.map_flatMap]
        have e2 : l.length - (p - (k + 1)) - m = l.length - p + k + 1 - m := by omega
        rw [e2]
        apply flatMap_congr'
        intro i hi
        rw [List.mem_range'_1] at hi
        have hil : i < l.length := by omega
        rw [List.getElem?_eq_getElem hil, List.map_map, sel_snoc l cs i hil]
        apply List.map_congr_left
        intro q _
        simp
      · -- the start index is beyond the last admissible one: nothing is yielded
        have e0 : l.length - p + k + 1 - m = 0 := by omega
        rw [e0]
        refine ⟨r, ?_, hr, rfl⟩
        simp only [List.range', List.map_nil, List.foldlM_nil, pure, Except.pure]
        congr 2
        rw [combs_short]
        · rfl
        · rw [List.length_drop]; omega
    · have hkeq : k = p := by omega
      subst hkeq
      simp only [hkp, if_false]
      rw [hrt, mapM_pyGet l cs hcsn]
      refine ⟨r, ?_, hr, hrt⟩
      simp [bind, Except.bind, pure, Except.pure, combs]

/-- **combink in closed form** -/
theorem combink_eq (l : List α) (p : Nat) (hp : p ≤ l.length) : combink l p 0 = .ok (combs p l) := by
  unfold combink
  have h := combinkAux_eq l p hp (p - 0 + 1) 0 (by omega) (by omega) []
    ((List.range l.length).map (fun (i : Nat) => (i : Int)) ++ [-1]) 0
    (by simp) rfl (by simp) (by simp)
    (by
      have : ((0 : Nat) : Int) - 1 = -1 := by omega
      rw [this, pyGet_last])
  obtain ⟨r', h1, _, _⟩ := h
  dsimp only
  rw [h1]
  simp [bind, Except.bind, pure, Except.pure, sel]

end Proofs.Lemmas.CombinkL
