/-
  Helper lemmas for C05: decryption of the ciphertext-stealing modes refines the Spec inverses
  (`Spec.Mode.ecbCtsInv`, `Spec.Mode.cbcCtsInv`) on EVERY byte string of admissible length, not only on the
  ciphertexts produced by `enc`.
-/
import Proofs.Lemmas.ModeCtsSpec
namespace Proofs.Lemmas.ModeL
open Model Model.Mode
variable {c : BlockCipher} {k : Spec.Mode.Cipher}

/-! ### ECB with ciphertext stealing -/

theorem map_ED (h : Implements c k) (P : List (List Nat)) (hP : ∀ b ∈ P, IsBlock c.len b) : List.map (k.E ∘ k.D) P = P := by
  conv => rhs; rw [← List.map_id P]
  apply List.map_congr_left
  intro x hx; simp [h.E_D x (hP x hx)]

/-- decryption of an arbitrary string Q' ‖ ql ‖ b with a partial last block b -/
theorem cts_ecb_dec_general (h : Implements c k) (Q' : List (List Nat)) (hQ' : ∀ x ∈ Q', IsBlock c.len x)
    (ql : List Nat) (hql : IsBlock c.len ql) (b : List Nat) (hb : Bytes b) (hb0 : 0 < b.length) (hbl : b.length < c.len) :
    CTS_ECB.dec c .no (join (Q' ++ [ql]) ++ b)
      = .ok (join (Q'.map k.D ++ [k.D (b ++ (k.D ql).drop b.length), (k.D ql).take b.length])) := by
  -- write the input as the ciphertext of P' = D(Q'), pl = D(b ‖ tail(D ql)), last partial block = head(D ql)
  have hz := h.D_block ql hql
  have hst := steal_isBlock hb hbl hz
  have hpl := h.D_block _ hst
  have hb2 : Bytes ((k.D ql).take b.length) := hz.2.take _
  have hb2l : ((k.D ql).take b.length).length = b.length := by rw [List.length_take, hz.1]; omega
  have hP' : ∀ x ∈ Q'.map k.D, IsBlock c.len x := by
    intro x hx; obtain ⟨a, ha, rfl⟩ := List.mem_map.1 hx; exact h.D_block a (hQ' a ha)
  have key := cts_ecb_dec_partial h (Q'.map k.D) hP' (k.D (b ++ (k.D ql).drop b.length)) hpl ((k.D ql).take b.length) hb2
    (by rw [hb2l]; exact hb0) (by rw [hb2l]; exact hbl)
  rw [hb2l, h.E_D _ hst, List.take_left' rfl, List.drop_left' rfl, List.take_append_drop, h.E_D _ hql,
    List.map_map, map_ED h Q' hQ'] at key
  have e1 : join (Q' ++ [ql, b]) = join (Q' ++ [ql]) ++ b := by simp [join]
  have e2 : join (Q'.map k.D ++ [k.D (b ++ (k.D ql).drop b.length)]) ++ (k.D ql).take b.length
      = join (Q'.map k.D ++ [k.D (b ++ (k.D ql).drop b.length), (k.D ql).take b.length]) := by simp [join]
  rw [e1] at key
  rw [key, e2]

theorem cts_ecb_dec_general_full (h : Implements c k) (Bs : List (List Nat)) (hB : ∀ x ∈ Bs, IsBlock c.len x) :
    CTS_ECB.dec c .no (join Bs) = .ok (join (Bs.map k.D)) := by
  have hP : ∀ x ∈ Bs.map k.D, IsBlock c.len x := by
    intro x hx; obtain ⟨a, ha, rfl⟩ := List.mem_map.1 hx; exact h.D_block a (hB a ha)
  have key := cts_ecb_dec_full h (Bs.map k.D) hP
  rw [List.map_map, map_ED h Bs hB] at key
  exact key

/-- CTS_ECB.dec is the Spec inverse on every byte string of at least one block -/
theorem cts_ecb_dec_spec (h : Implements c k) (C : List Nat) (hC : Bytes C) (hlen : c.len ≤ C.length) :
    CTS_ECB.dec c .no C = .ok (Spec.Mode.ecbCtsInv k C) := by
  obtain ⟨Bs, b, hne, hB, hb, hbl, rfl⟩ := split_message c.len h.len_pos C hC hlen
  have hBl : ∀ x ∈ Bs, x.length = c.len := fun x hx => (hB x hx).1
  unfold Spec.Mode.ecbCtsInv Spec.Mode.concat
  rw [h.len_eq]
  by_cases hb0 : b.length = 0
  · have : b = [] := List.length_eq_zero_iff.1 hb0
    subst this
    rw [List.append_nil, blocks_full c.len h.len_pos Bs hBl,
      ecbCtsBlocks_full ⟨c.len, k.D, k.E⟩ Bs hBl]
    exact cts_ecb_dec_general_full h Bs hB
  · obtain ⟨Q', ql, rfl⟩ : ∃ Q' ql, Bs = Q' ++ [ql] := by
      rcases List.eq_nil_or_concat Bs with h0 | ⟨Q', ql, h1⟩
      · exact absurd h0 hne
      · exact ⟨Q', ql, by rw [h1]; simp⟩
    have hQ' : ∀ x ∈ Q', IsBlock c.len x := fun x hx => hB x (List.mem_append_left _ hx)
    have hql : IsBlock c.len ql := hB ql (by simp)
    rw [blocks_partial c.len h.len_pos _ hBl b (by omega) hbl]
    have e : Q' ++ [ql] ++ [b] = Q' ++ [ql, b] := by simp
    rw [e, ecbCtsBlocks_partial ⟨c.len, k.D, k.E⟩ ql b (by show b.length ≠ c.len; omega) Q']
    exact cts_ecb_dec_general h Q' hQ' ql hql b hb (by omega) hbl

/-! ### CBC with ciphertext stealing -/

/-- decryption of an arbitrary string IV' ‖ rs ‖ cn ‖ b with a partial last block b (the object's own IV is not used) -/
theorem cts_cbc_dec_general (h : Implements c k) (iv : List Nat) (hivl : iv.length = c.len) (iv0 : List Nat)
    (hiv0 : IsBlock c.len iv0) (rs : List (List Nat)) (hrs : ∀ x ∈ rs, IsBlock c.len x) (cn : List Nat)
    (hcn : IsBlock c.len cn) (b : List Nat) (hb : Bytes b) (hb0 : 0 < b.length) (hbl : b.length < c.len) :
    CTS_CBC.dec c iv .no (join ((iv0 :: rs) ++ [cn]) ++ b)
      = .ok (join (Spec.Mode.cbcDecrypt k iv0 rs ++
          [xorstr (prevOf iv0 rs.reverse) (k.D (b ++ (k.D cn).drop b.length)), xorstr b ((k.D cn).take b.length)])) := by
  have hz := h.D_block cn hcn
  have hst := steal_isBlock hb hbl hz
  have hA : ∀ x ∈ iv0 :: rs, IsBlock c.len x := by
    intro x hx'; rcases List.mem_cons.1 hx' with rfl | hx'
    · exact hiv0
    · exact hrs x hx'
  have hAy : ∀ x ∈ (iv0 :: rs) ++ [cn], x.length = c.len := by
    intro x hx'; rcases List.mem_append.1 hx' with hx' | hx'
    · exact (hA x hx').1
    · simp at hx'; subst hx'; exact hcn.1
  have e' : join ((iv0 :: rs) ++ [cn]) = join (iv0 :: rs) ++ cn := join_snoc _ _
  obtain ⟨_, hp⟩ := split_len c.len h.len_pos _ hAy b hbl
  have hlast : (join (iv0 :: rs)).drop ((join (iv0 :: rs)).length - c.len) = prevOf iv0 rs.reverse := by
    have := last_of_join c.len iv0 rs.reverse hiv0.1 (fun x hx' => (hrs x (List.mem_reverse.1 hx')).1)
    rw [List.reverse_reverse] at this
    exact this
  unfold CTS_CBC.dec
  rw [mkPad_ok c _ h.len_pos]
  simp only [hp, hivl, ne_eq, not_true_eq_false, if_false, drop_len_sub _ _ _ rfl, take_len_sub _ _ _ rfl]
  simp only [hb0, if_true]
  rw [e']
  simp only [drop_len_sub _ _ _ hcn.1, take_len_sub _ _ _ hcn.1, h.dec_ok _ hcn, h.dec_ok _ hst, hlast]
  have hun := cbcUnchain_rev h rs.reverse iv0
      [xorstr (prevOf iv0 rs.reverse) (k.D (b ++ (k.D cn).drop b.length)), xorstr b ((k.D cn).take b.length)]
      (join (iv0 :: rs)).length hiv0.1
      (fun x hx' => hrs x (List.mem_reverse.1 hx'))
      (by rw [List.length_reverse, length_join_of_all c.len _ (fun x hx' => (hA x hx').1), List.length_cons]
          calc rs.length ≤ (rs.length + 1) * 1 := by omega
            _ ≤ (rs.length + 1) * c.len := Nat.mul_le_mul_left _ h.len_pos)
  rw [List.reverse_reverse] at hun
  rw [hun]

theorem cts_cbc_dec_general_full (h : Implements c k) (iv : List Nat) (hivl : iv.length = c.len) (iv0 : List Nat)
    (hiv0 : IsBlock c.len iv0) (rs : List (List Nat)) (hrs : ∀ x ∈ rs, IsBlock c.len x) :
    CTS_CBC.dec c iv .no (join (iv0 :: rs)) = .ok (join (Spec.Mode.cbcDecrypt k iv0 rs)) := by
  have hA : ∀ x ∈ iv0 :: rs, x.length = c.len := by
    intro x hx'; rcases List.mem_cons.1 hx' with rfl | hx'
    · exact hiv0.1
    · exact (hrs x hx').1
  have hjl := length_join_of_all c.len _ hA
  have hun := cbcUnchain_rev h rs.reverse iv0 [] (join (iv0 :: rs)).length hiv0.1
      (fun x hx' => hrs x (List.mem_reverse.1 hx'))
      (by rw [List.length_reverse, hjl, List.length_cons]
          calc rs.length ≤ (rs.length + 1) * 1 := by omega
            _ ≤ (rs.length + 1) * c.len := Nat.mul_le_mul_left _ h.len_pos)
  rw [List.reverse_reverse] at hun
  unfold CTS_CBC.dec
  rw [mkPad_ok c _ h.len_pos]
  simp only [hjl, Nat.mul_mod_left, Nat.lt_irrefl, gt_iff_lt, if_false, hivl, ne_eq, not_true_eq_false]
  rw [← hjl, hun, List.append_nil]

/-- CTS_CBC.dec is the Spec inverse (IV = first block of the input) on every byte string of at least two blocks -/
theorem cts_cbc_dec_spec (h : Implements c k) (iv : List Nat) (hivl : iv.length = c.len) (C : List Nat) (hC : Bytes C)
    (hlen : 2 * c.len ≤ C.length) : CTS_CBC.dec c iv .no C = .ok (Spec.Mode.cbcCtsInv k C) := by
  have hpos := h.len_pos
  obtain ⟨Bs, b, hne, hB, hb, hbl, rfl⟩ := split_message c.len hpos C hC (by omega)
  have hBl : ∀ x ∈ Bs, x.length = c.len := fun x hx => (hB x hx).1
  have hjl := length_join_of_all c.len Bs hBl
  -- at least two whole blocks
  have h2 : 2 ≤ Bs.length := by
    rw [List.length_append, hjl] at hlen
    have : c.len < Bs.length * c.len := by omega
    have := Nat.lt_of_mul_lt_mul_right (a := c.len) (by rw [Nat.one_mul]; exact this : 1 * c.len < Bs.length * c.len)
    omega
  obtain ⟨iv0, rs, rfl⟩ : ∃ iv0 rs, Bs = iv0 :: rs := by
    cases Bs with
    | nil => exact absurd rfl hne
    | cons a as => exact ⟨a, as, rfl⟩
  have hiv0 : IsBlock c.len iv0 := hB iv0 (by simp)
  have hrs : ∀ x ∈ rs, IsBlock c.len x := fun x hx => hB x (List.mem_cons_of_mem _ hx)
  have hrsl : ∀ x ∈ rs, x.length = c.len := fun x hx => (hrs x hx).1
  have hrne : rs ≠ [] := by intro h0; subst h0; simp at h2
  have etake : (join (iv0 :: rs) ++ b).take c.len = iv0 := by
    simp only [join, List.flatten_cons, List.append_assoc]; exact List.take_left' hiv0.1
  have edrop : (join (iv0 :: rs) ++ b).drop c.len = join rs ++ b := by
    simp only [join, List.flatten_cons, List.append_assoc]; exact List.drop_left' hiv0.1
  unfold Spec.Mode.cbcCtsInv Spec.Mode.cbcCS2Inv Spec.Mode.concat
  rw [h.len_eq, etake, edrop]
  obtain ⟨_, hmod⟩ := split_len c.len hpos rs hrsl b hbl
  rw [hmod]
  by_cases hb0 : b.length = 0
  · rw [if_pos hb0]
    have : b = [] := List.length_eq_zero_iff.1 hb0
    subst this
    rw [List.append_nil, List.append_nil, blocks_full c.len hpos rs hrsl]
    exact cts_cbc_dec_general_full h iv hivl iv0 hiv0 rs hrs
  · rw [if_neg hb0]
    obtain ⟨hd, cn, rfl⟩ : ∃ hd cn, rs = hd ++ [cn] := by
      rcases List.eq_nil_or_concat rs with h0 | ⟨hd, cn, h1⟩
      · exact absurd h0 hrne
      · exact ⟨hd, cn, by rw [h1]; simp⟩
    have hhd : ∀ x ∈ hd, IsBlock c.len x := fun x hx => hrs x (List.mem_append_left _ hx)
    have hcn : IsBlock c.len cn := hrs cn (by simp)
    rw [blocks_partial c.len hpos _ hrsl b (by omega) hbl]
    have erev : (hd ++ [cn] ++ [b]).reverse = b :: cn :: hd.reverse := by simp
    rw [erev]
    simp only [Spec.Mode.cbcCS1Decrypt, List.reverse_reverse]
    rw [cbcDecrypt_snoc, ← xorstr_eq_spec, ← xorstr_eq_spec, xor_comm (k.D _)]
    have ein : join (iv0 :: (hd ++ [cn])) ++ b = join ((iv0 :: hd) ++ [cn]) ++ b := by simp
    rw [ein, cts_cbc_dec_general h iv hivl iv0 hiv0 hd hhd cn hcn b hb (by omega) hbl]
    simp [join]

/-! ### the ciphertexts are byte strings; the Spec inverses invert the Spec maps -/

theorem bytes_join : ∀ (L : List (List Nat)), (∀ x ∈ L, Bytes x) → Bytes (join L)
  | [], _ => Bytes.nil
  | a :: L, hL => by
    show Bytes (a ++ join L)
    exact (hL a (by simp)).append (bytes_join L (fun x hx => hL x (List.mem_cons_of_mem _ hx)))

theorem ecbCts_bytes (h : Implements c k) (M : List Nat) (hM : Bytes M) (hlen : c.len ≤ M.length) :
    Bytes (Spec.Mode.ecbCts k M) := by
  have e := cts_ecb_enc_spec h M hM hlen
  obtain ⟨Bs, b, hne, hB, hb, hbl, rfl⟩ := split_message c.len h.len_pos M hM hlen
  by_cases hb0 : b.length = 0
  · have : b = [] := List.length_eq_zero_iff.1 hb0
    subst this
    rw [List.append_nil] at e ⊢
    rw [cts_ecb_enc_full h Bs hne hB] at e
    injection e with e
    rw [← e]
    apply bytes_join
    intro x hx; obtain ⟨a, ha, rfl⟩ := List.mem_map.1 hx; exact (h.E_block a (hB a ha)).2
  · obtain ⟨P', pl, rfl⟩ : ∃ P' pl, Bs = P' ++ [pl] := ⟨Bs.dropLast, Bs.getLast hne, (List.dropLast_concat_getLast hne).symm⟩
    have hP' : ∀ x ∈ P', IsBlock c.len x := fun x hx => hB x (List.mem_append_left _ hx)
    have hpl : IsBlock c.len pl := hB pl (by simp)
    rw [cts_ecb_enc_partial h P' hP' pl hpl b hb (by omega) hbl] at e
    injection e with e
    rw [← e]
    apply bytes_join
    intro x hx
    rcases List.mem_append.1 hx with hx | hx
    · obtain ⟨a, ha, rfl⟩ := List.mem_map.1 hx; exact (h.E_block a (hP' a ha)).2
    · have hcl := h.E_block pl hpl
      simp at hx; rcases hx with rfl | rfl
      · exact (h.E_block _ (steal_isBlock hb hbl hcl)).2
      · exact hcl.2.take _

theorem cbcCts_bytes (h : Implements c k) (iv : List Nat) (hiv : IsBlock c.len iv) (M : List Nat) (hM : Bytes M)
    (hlen : c.len ≤ M.length) : Bytes (Spec.Mode.cbcCts k iv M) := by
  have e := cts_cbc_enc_spec h iv hiv M hM hlen
  obtain ⟨Bs, b, hne, hB, hb, hbl, rfl⟩ := split_message c.len h.len_pos M hM hlen
  by_cases hb0 : b.length = 0
  · have : b = [] := List.length_eq_zero_iff.1 hb0
    subst this
    rw [List.append_nil] at e ⊢
    rw [cts_cbc_enc_full h iv hiv Bs hne hB] at e
    injection e with e
    rw [← e]
    apply bytes_join
    intro x hx; rcases List.mem_cons.1 hx with rfl | hx
    · exact hiv.2
    · exact ((cbcChain_eq h Bs iv hiv hB).2 x hx).2
  · obtain ⟨P', pl, rfl⟩ : ∃ P' pl, Bs = P' ++ [pl] := ⟨Bs.dropLast, Bs.getLast hne, (List.dropLast_concat_getLast hne).symm⟩
    have hP' : ∀ x ∈ P', IsBlock c.len x := fun x hx => hB x (List.mem_append_left _ hx)
    have hpl : IsBlock c.len pl := hB pl (by simp)
    have hpv := csPrev_isBlock h iv hiv P' hP'
    have hcl : IsBlock c.len (csCl k iv P' pl) := h.E_block _ (xor_isBlock hpl hpv)
    have hy : IsBlock c.len (csY k c.len iv P' pl b) := h.E_block _ (xor_isBlock (padded_isBlock hb hbl) hcl)
    rw [cts_cbc_enc_partial h iv hiv P' hP' pl hpl b hb (by omega) hbl] at e
    injection e with e
    rw [← e]
    apply bytes_join
    intro x hx
    rcases List.mem_append.1 hx with hx | hx
    · rcases List.mem_cons.1 hx with rfl | hx
      · exact hiv.2
      · exact ((cbcChain_eq h P' iv hiv hP').2 x hx).2
    · simp at hx; rcases hx with rfl | rfl
      · exact hy.2
      · exact hcl.2.take _

/-- ECB-CTS: the Spec inverse undoes the Spec map (for every cipher pair that some model cipher implements) -/
theorem ecbCtsInv_ecbCts (h : Implements c k) (M : List Nat) (hM : Bytes M) (hlen : c.len ≤ M.length) :
    Spec.Mode.ecbCtsInv k (Spec.Mode.ecbCts k M) = M := by
  obtain ⟨C, he, hl, hd⟩ := cts_ecb_all h M hM hlen
  rw [cts_ecb_enc_spec h M hM hlen] at he
  injection he with he
  subst he
  rw [cts_ecb_dec_spec h _ (ecbCts_bytes h M hM hlen) (by omega)] at hd
  injection hd

/-- CBC-CS2 with the IV in front: the Spec inverse undoes the Spec map -/
theorem cbcCtsInv_cbcCts (h : Implements c k) (iv : List Nat) (hiv : IsBlock c.len iv) (M : List Nat) (hM : Bytes M)
    (hlen : c.len ≤ M.length) : Spec.Mode.cbcCtsInv k (Spec.Mode.cbcCts k iv M) = M := by
  obtain ⟨C, he, hl, _, hd⟩ := cts_cbc_all h iv hiv M hM hlen
  rw [cts_cbc_enc_spec h iv hiv M hM hlen] at he
  injection he with he
  subst he
  rw [cts_cbc_dec_spec h iv hiv.1 _ (cbcCts_bytes h iv hiv M hM hlen) (by omega)] at hd
  injection hd

end Proofs.Lemmas.ModeL
