import Model.Hmac
import Spec.Hmac
namespace Proofs.Lemmas.Hmac
open Model Model.Hmac

theorem xorBytes_replicate (a : List Nat) (n c : Nat) (h : a.length = n) :
    xorBytes a (List.replicate n c) = a.map (· ^^^ c) := by
  subst h
  induction a with
  | nil => rfl
  | cons x xs ih =>
    simp only [List.length_cons, List.replicate_succ, xorBytes, List.zip_cons_cons, List.map_cons] at ih ⊢
    rw [ih]

theorem setkey_short (H : List Nat → List Nat) (B : Nat) (key : List Nat) (h : key.length < B) :
    Hmac.setkey { blocksize := 8 * B } (fun m => .ok (H m)) key
      = .ok { blocksize := 8 * B, K := some (key ++ List.replicate (B - key.length) 0) } := by
  have h8 : 8 * B / 8 = B := by omega
  have h1 : ¬ key.length > B := by omega
  simp [Hmac.setkey, h8, h1, h, pure, Except.pure, bind, Except.bind]

theorem setkey_block (H : List Nat → List Nat) (B : Nat) (key : List Nat) (h : key.length = B) :
    Hmac.setkey { blocksize := 8 * B } (fun m => .ok (H m)) key = .ok { blocksize := 8 * B, K := some key } := by
  have h8 : 8 * B / 8 = B := by omega
  simp [Hmac.setkey, h8, h, pure, Except.pure, bind, Except.bind]

theorem setkey_long (H : List Nat → List Nat) (B : Nat) (key : List Nat) (h : B < key.length) :
    Hmac.setkey { blocksize := 8 * B } (fun m => .ok (H m)) key
      = .ok { blocksize := 8 * B, K := some (H key ++ List.replicate (B - (H key).length) 0) } := by
  have h8 : 8 * B / 8 = B := by omega
  by_cases hl : (H key).length < B
  · simp [Hmac.setkey, h8, h, hl, pure, Except.pure, bind, Except.bind]
  · have : B - (H key).length = 0 := by omega
    simp [Hmac.setkey, h8, h, hl, this, pure, Except.pure, bind, Except.bind]

theorem call_eq (H : List Nat → List Nat) (B : Nat) (hB : 0 < B) (K msg : List Nat) (hK : K.length = B) :
    Hmac.call { blocksize := 8 * B, K := some K } (fun m => .ok (H m)) msg
      = .ok (H (K.map (· ^^^ 0x5c) ++ H (K.map (· ^^^ 0x36) ++ msg))) := by
  have h8 : 8 * B / 8 = B := by omega
  have hne : K.isEmpty = false := by
    cases K with
    | nil => simp at hK; omega
    | cons _ _ => rfl
  simp only [Hmac.call, hne, h8, xorBytes_replicate K B _ hK]
  rfl

theorem hmac_eq (H : List Nat → List Nat) (B : Nat) (hB : 0 < B) (key msg : List Nat)
    (hL : B < key.length → (H key).length ≤ B) :
    Hmac.hmac (fun m => .ok (H m)) (8 * B) key msg = .ok (Spec.rfc2104 H B key msg) := by
  unfold Hmac.hmac
  rcases Nat.lt_trichotomy key.length B with h | h | h
  · rw [setkey_short H B key h]
    have hK : (key ++ List.replicate (B - key.length) 0).length = B := by simp; omega
    have h1 : ¬ key.length > B := by omega
    simp only [bind, Except.bind, call_eq H B hB _ msg hK, Spec.rfc2104, Spec.hmacKey, h1, if_false]
  · rw [setkey_block H B key h]
    have h1 : ¬ key.length > B := by omega
    have h2 : B - key.length = 0 := by omega
    simp only [bind, Except.bind, call_eq H B hB _ msg h, Spec.rfc2104, Spec.hmacKey, h1, if_false, h2,
      List.replicate_zero, List.append_nil]
  · rw [setkey_long H B key h]
    have := hL h
    have hK : (H key ++ List.replicate (B - (H key).length) 0).length = B := by simp; omega
    have h1 : key.length > B := h
    simp only [bind, Except.bind, call_eq H B hB _ msg hK, Spec.rfc2104, Spec.hmacKey, h1, if_true]

theorem setkey_indep (h : HashFn) (o : Hmac) (k : List Nat) :
    o.setkey h k = ({ blocksize := o.blocksize } : Hmac).setkey h k := by
  simp [Hmac.setkey]

theorem setkey_blocksize (h : HashFn) (o o' : Hmac) (k : List Nat) (e : o.setkey h k = .ok o') :
    o'.blocksize = o.blocksize := by
  simp only [Hmac.setkey, bind, Except.bind, pure, Except.pure] at e
  by_cases hk : k.length > o.blocksize / 8
  · simp only [hk, if_true] at e
    cases hh : h k with
    | error _ => rw [hh] at e; cases e
    | ok v => rw [hh] at e; injection e with e; rw [← e]
  · simp only [hk, if_false] at e
    injection e with e; rw [← e]

theorem foldlM_blocksize (h : HashFn) (ks : List (List Nat)) (o o' : Hmac)
    (e : ks.foldlM (fun (o : Hmac) k => o.setkey h k) o = .ok o') : o'.blocksize = o.blocksize := by
  induction ks generalizing o with
  | nil => simp [pure, Except.pure] at e; rw [e]
  | cons k ks ih =>
    simp only [List.foldlM_cons, bind, Except.bind] at e
    split at e
    · cases e
    · rename_i o1 e1
      rw [ih o1 e, setkey_blocksize h o o1 k e1]

theorem setkey_seq (h : HashFn) (o : Hmac) (ks : List (List Nat)) (k m : List Nat) :
    (do let o' ← (ks.foldlM (fun (o : Hmac) k => o.setkey h k) o); let o'' ← o'.setkey h k; o''.call h m)
      = (do let _ ← (ks.foldlM (fun (o : Hmac) k => o.setkey h k) o); Hmac.hmac h o.blocksize k m) := by
  cases e : ks.foldlM (fun (o : Hmac) k => o.setkey h k) o with
  | error _ => rfl
  | ok o' =>
    simp only [bind, Except.bind, Hmac.hmac]
    rw [setkey_indep h o' k, foldlM_blocksize h ks o o' e]

end Proofs.Lemmas.Hmac
