/-
  Skein tree hashing: one level (`for i in range(0,total,step)` with the position advancing by `step`) and the level
  iteration versus Spec.Skein.treeLevel / treeUp.
-/
import Proofs.Lemmas.SkHash
namespace Proofs.Lemmas.SkTree
open Model Proofs.Lemmas.TfBytes Proofs.Lemmas.SkBytes Proofs.Lemmas.SkTweak Proofs.Lemmas.SkUbi Proofs.Lemmas.SkHash
open Spec.Threefish (toInt toBytes)

/-- tweak of a tree block: position, level, type msg -/
def lvTweak (pos lv : Nat) : Nat := pos + lv * 2 ^ 112 + Spec.Skein.Tmsg * 2 ^ 120

theorem tweak_eq (pos lv : Nat) : Spec.Skein.tweak pos lv 0 Spec.Skein.Tmsg 0 0 = lvTweak pos lv := by
  unfold Spec.Skein.tweak lvTweak; omega

theorem lvTweak_lt (pos lv : Nat) (hp : pos < 2 ^ 96) (hl : lv < 128) : lvTweak pos lv < 2 ^ 128 := by
  unfold lvTweak Spec.Skein.Tmsg; omega

theorem pre_lv (m : List Nat) (pos lv : Nat) (hl : lv < 128) (hp : pos + m.length < 2 ^ 96) :
    Spec.Skein.ubiPre m (lvTweak pos lv) = true := by
  rw [ubiPre_iff]
  unfold lvTweak Spec.Skein.Tmsg
  refine ⟨by omega, by omega, by omega, by omega, by omega⟩

/-- `Ts.Position` and `Ts.Position = pos + step` on a tree tweak -/
theorem getPos_lv (pos lv : Nat) (hl : lv < 128) (hp : pos < 2 ^ 96) :
    Skein.getPosition ⟨lvTweak pos lv, 128⟩ = .ok pos := by
  have h1 : lvTweak pos lv % 2 ^ 96 = pos := by unfold lvTweak Spec.Skein.Tmsg; omega
  rw [getPosition_eq, h1]

theorem setPos_lv (pos lv v : Nat) (hl : lv < 128) (hp : pos < 2 ^ 96) (hv : v < 2 ^ 96) :
    Skein.setPosition ⟨lvTweak pos lv, 128⟩ v = .ok ⟨lvTweak v lv, 128⟩ := by
  have hT := lvTweak_lt pos lv hp hl
  have e : 2 ^ 96 * (lvTweak pos lv / 2 ^ 96) + v = lvTweak v lv := by unfold lvTweak Spec.Skein.Tmsg; omega
  rw [setPosition_eq _ _ hT hv, e]

/-- the bit length handed to the UBI of the block at byte offset `off` (model side) -/
abbrev blockBits := @Skein.leafBits

/-- one block of a tree level, specification side -/
def blockHash (G M : List Nat) (step : Nat) (bitlen : Option Nat) (lv off : Nat) : List Nat :=
  Spec.Skein.ubi G ((M.drop off).take step) (bitsOf ((M.drop off).take step) (blockBits M step off bitlen)) (lvTweak off lv)

/-- the message a level works on is consistent with its bit length: exactly ⌈L/8⌉ bytes -/
def BitsFit (M : List Nat) (bitlen : Option Nat) : Prop :=
  match bitlen with
  | none => True
  | some L => L ≤ 8 * M.length ∧ 8 * M.length < L + 8

theorem blockBits_le (M : List Nat) (step off : Nat) (bitlen : Option Nat) (hfit : BitsFit M bitlen) (hoff : off ≤ M.length) :
    bitsOf ((M.drop off).take step) (blockBits M step off bitlen) ≤ 8 * ((M.drop off).take step).length := by
  cases bitlen with
  | none => exact Nat.le_refl _
  | some L =>
    obtain ⟨h1, h2⟩ := hfit
    unfold blockBits Skein.leafBits
    simp only []
    by_cases h : off + step < M.length
    · simp only [h, ite_true]; exact Nat.le_refl _
    · simp only [h, ite_false, bitsOf, Option.getD_some, List.length_take, List.length_drop]
      omega

theorem getLevel_lv (pos lv : Nat) (hl : lv < 128) (hp : pos < 2 ^ 96) :
    Skein.getTreeLevel ⟨lvTweak pos lv, 128⟩ = .ok lv := by
  have h1 : lvTweak pos lv / 2 ^ 112 % 2 ^ 7 = lv := by unfold lvTweak Spec.Skein.Tmsg; omega
  rw [getTreeLevel_eq, h1]

theorem setLevel_lv (pos lv v : Nat) (hl : lv < 128) (hp : pos < 2 ^ 96) (hv : v < 128) :
    Skein.setTreeLevel ⟨lvTweak pos lv, 128⟩ v = .ok ⟨lvTweak pos v, 128⟩ := by
  have hT := lvTweak_lt pos lv hp hl
  have e : 2 ^ 119 * (lvTweak pos lv / 2 ^ 119) + (2 ^ 112 * v + lvTweak pos lv % 2 ^ 112) = lvTweak pos v := by
    unfold lvTweak Spec.Skein.Tmsg; omega
  rw [setTreeLevel_eq _ _ hT (by omega), e]

/-- `Tweak(TreeLevel=1,Type='msg')` -/
theorem tweakOfLevelType_eq : Skein.tweakOfLevelType 1 "msg" = .ok ⟨lvTweak 0 1, 128⟩ := by
  have e1 : (2 : Nat) ^ 119 * (0 / 2 ^ 119) + (2 ^ 112 * 1 + 0 % 2 ^ 112) = 2 ^ 112 := by omega
  have e2 : (2 : Nat) ^ 126 * (2 ^ 112 / 2 ^ 126) + (2 ^ 120 * Spec.Skein.Tmsg + 2 ^ 112 % 2 ^ 120) = lvTweak 0 1 := by
    unfold lvTweak Spec.Skein.Tmsg; omega
  simp only [Skein.tweakOfLevelType, Skein.setType, bind, Except.bind, setTreeLevel_eq 0 1 (by decide) (by decide), e1, code_msg,
    setTypeCode_eq (2 ^ 112) Spec.Skein.Tmsg (by decide) (by decide), e2]

attribute [irreducible] lvTweak

theorem level_step (G M : List Nat) (step : Nat) (bitlen : Option Nat) (n off : Nat) (ts : Bits) (h : List Nat) (ts1 ts2 : Bits)
    (rest : List Nat) (p : Nat)
    (hu : Skein.ubi G ts ((M.drop off).take step) (blockBits M step off bitlen) = .ok h)
    (hg : Skein.getPosition ts = .ok p) (hs : Skein.setPosition ts (p + step) = .ok ts1)
    (hr : Skein.level G step M bitlen n (off + step) ts1 = .ok (ts2, rest)) :
    Skein.level G step M bitlen (n + 1) off ts = .ok (ts2, h ++ rest) := by
  simp only [Skein.level, bind, Except.bind, hu, hg, hs, hr, pure, Except.pure]

/-- one level of the tree, from byte offset `off` on: `cnt` blocks -/
theorem level_eq (G : List Nat) (hG : IsBytes G) (hGl : G.length = 32 ∨ G.length = 64 ∨ G.length = 128)
    (step : Nat) (M : List Nat) (hM : IsBytes M) (bitlen : Option Nat) (hfit : BitsFit M bitlen) (lv : Nat) (hl : lv < 128)
    (cnt : Nat) : ∀ off : Nat, off + cnt * step < 2 ^ 96 → (cnt = 0 ∨ off + (cnt - 1) * step ≤ M.length) →
    Skein.level G step M bitlen cnt off ⟨lvTweak off lv, 128⟩ =
      .ok (⟨lvTweak (off + cnt * step) lv, 128⟩,
           (List.range cnt).flatMap fun d => blockHash G M step bitlen lv (off + d * step)) ∧
    IsBytes ((List.range cnt).flatMap fun d => blockHash G M step bitlen lv (off + d * step)) ∧
    ((List.range cnt).flatMap fun d => blockHash G M step bitlen lv (off + d * step)).length = cnt * G.length := by
  induction cnt with
  | zero =>
    intro off _ _
    refine ⟨?_, ?_, ?_⟩
    · simp only [Skein.level, pure, Except.pure, Nat.zero_mul, Nat.add_zero, List.range_zero, List.flatMap_nil]
    · intro x hx; simp at hx
    · simp
  | succ n ih =>
    intro off hpos hin
    have hoff : off ≤ M.length := by
      rcases hin with h | h
      · omega
      · simp only [Nat.add_sub_cancel] at h; exact Nat.le_trans (Nat.le_add_right _ _) h
    have hsm : (n + 1) * step = step + n * step := by rw [Nat.succ_mul, Nat.add_comm]
    have hmlen : ((M.drop off).take step).length ≤ step := by rw [List.length_take]; exact Nat.min_le_left _ _
    have hb := blockBits_le M step off bitlen hfit hoff
    obtain ⟨u1, u2, u3⟩ := ubi_eq G ((M.drop off).take step) (blockBits M step off bitlen) (lvTweak off lv) hG
      ((hM.drop _).take _) hGl hb (pre_lv _ off lv hl (by omega))
    have hg := getPos_lv off lv hl (by omega)
    have hs := setPos_lv off lv (off + step) hl (by omega) (by omega)
    have hin' : n = 0 ∨ off + step + (n - 1) * step ≤ M.length := by
      rcases hin with h | h
      · omega
      · by_cases hn : n = 0
        · exact Or.inl hn
        · right
          simp only [Nat.add_sub_cancel] at h
          have : n = (n - 1) + 1 := by omega
          rw [this, Nat.succ_mul] at h
          omega
    obtain ⟨i1, i2, i3⟩ := ih (off + step) (by omega) hin'
    have hlist : (List.range (n + 1)).flatMap (fun d => blockHash G M step bitlen lv (off + d * step)) =
        blockHash G M step bitlen lv off ++
          (List.range n).flatMap (fun d => blockHash G M step bitlen lv (off + step + d * step)) := by
      rw [List.range_succ_eq_map, List.flatMap_cons, List.flatMap_map]
      rw [Nat.zero_mul, Nat.add_zero]
      apply congrArg (fun x => blockHash G M step bitlen lv off ++ x)
      apply TfInverse.fm_congr
      intro d _
      apply congrArg (blockHash G M step bitlen lv)
      rw [Nat.succ_mul]; omega
    have e : off + (n + 1) * step = off + step + n * step := by rw [hsm]; omega
    rw [hlist, e]
    refine ⟨?_, isBytes_append u2 i2, ?_⟩
    · exact level_step G M step bitlen n off _ _ _ _ _ off u1 hg hs i1
    · rw [List.length_append, i3]
      have : (blockHash G M step bitlen lv off).length = G.length := u3
      rw [this, Nat.succ_mul]; omega


/-! ### number of pieces of a level -/

/-- the number of blocks of a level over a message of `len` bytes -/
def nblocks (len size : Nat) : Nat := if len = 0 then 1 else (len + size - 1) / size

theorem pieces_eq (len size : Nat) (hs : 0 < size) :
    Skein.pieces (if len = 0 then 1 else len) size = nblocks len size := by
  unfold Skein.pieces nblocks
  by_cases h : len = 0
  · simp only [h, ite_true]
    rw [show 1 + size - 1 = size by omega, Nat.div_self hs]
  · simp only [h, ite_false]

theorem nblocks_pos (len size : Nat) (hs : 0 < size) : 0 < nblocks len size := by
  unfold nblocks
  by_cases h : len = 0
  · simp [h]
  · simp only [h, ite_false]
    apply Nat.div_pos _ hs
    omega

/-- the last block starts inside the message (or at 0 for the empty message), and the blocks cover it -/
theorem nblocks_last (len size : Nat) (hs : 0 < size) : (nblocks len size - 1) * size ≤ len ∧ len ≤ nblocks len size * size := by
  unfold nblocks
  by_cases h : len = 0
  · simp [h]
  · simp only [h, ite_false]
    have h1 : (len + size - 1) / size * size ≤ len + size - 1 := Nat.div_mul_le_self _ _
    have h2 : len + size - 1 < ((len + size - 1) / size + 1) * size := by
      rw [Nat.mul_comm]; exact Nat.lt_mul_div_succ _ hs
    have hk : 0 < (len + size - 1) / size := Nat.div_pos (by omega) hs
    have e : (len + size - 1) / size = ((len + size - 1) / size - 1) + 1 := by omega
    constructor
    · rw [e, Nat.succ_mul] at h1; omega
    · rw [Nat.succ_mul] at h2; omega

/-- block i is the last one iff no further block starts inside the message -/
theorem last_iff (len size i : Nat) (hs : 0 < size) (hi : i < nblocks len size) :
    i + 1 = nblocks len size ↔ ¬ (i * size + size < len) := by
  obtain ⟨h1, h2⟩ := nblocks_last len size hs
  constructor
  · intro h
    have : nblocks len size * size = i * size + size := by rw [← h, Nat.succ_mul]
    omega
  · intro h
    by_cases hlt : i + 1 = nblocks len size
    · exact hlt
    · exfalso
      have hle : i + 2 ≤ nblocks len size := by omega
      have : (i + 2) * size ≤ nblocks len size * size := Nat.mul_le_mul_right _ hle
      have e : nblocks len size = (nblocks len size - 1) + 1 := by omega
      have e2 : (i + 2) * size = i * size + size + size := by rw [Nat.add_mul]; omega
      have hle' : i + 1 ≤ nblocks len size - 1 := by omega
      have h3 : (i + 1) * size ≤ (nblocks len size - 1) * size := Nat.mul_le_mul_right _ hle'
      rw [Nat.succ_mul] at h3
      -- (i+1)*size ≤ (k-1)*size ≤ len, and the last block is non-empty unless len = 0
      have hpos : 0 < len := by
        by_cases h0 : len = 0
        · subst h0
          unfold nblocks at hle
          simp at hle
        · omega
      -- (k-1)*size < len for len > 0
      have h4 : (nblocks len size - 1) * size < len := by
        unfold nblocks
        have hne : ¬ len = 0 := by omega
        simp only [hne, ite_false]
        have hk : 0 < (len + size - 1) / size := Nat.div_pos (by omega) hs
        have e3 : (len + size - 1) / size = ((len + size - 1) / size - 1) + 1 := by omega
        have h5 : (len + size - 1) / size * size ≤ len + size - 1 := Nat.div_mul_le_self _ _
        rw [e3, Nat.succ_mul] at h5
        omega
      omega


/-- the bytes a level works on: the message cut after the byte holding its last bit -/
def cutMsg (M : List Nat) (bitlen : Option Nat) : List Nat := M.take ((bitsOf M bitlen + 7) / 8)

theorem cutMsg_none (M : List Nat) : cutMsg M none = M := by
  unfold cutMsg bitsOf
  simp only [Option.getD_none]
  rw [show (8 * M.length + 7) / 8 = M.length by omega, List.take_length]

theorem cutMsg_fit (M : List Nat) (bitlen : Option Nat) (hL : bitsOf M bitlen ≤ 8 * M.length) : BitsFit (cutMsg M bitlen) bitlen := by
  cases bitlen with
  | none => trivial
  | some L =>
    unfold BitsFit cutMsg bitsOf at *
    simp only [Option.getD_some, List.length_take] at *
    omega

/-- Spec.treeLevel as a list of block hashes -/
theorem treeLevel_eq (G : List Nat) (size : Nat) (hs : 0 < size) (M : List Nat) (bitlen : Option Nat) (lv : Nat)
    (hL : bitsOf M bitlen ≤ 8 * M.length) :
    Spec.Skein.treeLevel G size M (bitsOf M bitlen) lv =
      (List.range (nblocks (cutMsg M bitlen).length size)).flatMap fun d =>
        blockHash G (cutMsg M bitlen) size bitlen lv (0 + d * size) := by
  unfold Spec.Skein.treeLevel
  show (List.range (nblocks (cutMsg M bitlen).length size)).flatMap _ = _
  apply TfInverse.fm_congr
  intro i hi
  have hi' := List.mem_range.1 hi
  have hlast := last_iff (cutMsg M bitlen).length size i hs hi'
  obtain ⟨hn1, hn2⟩ := nblocks_last (cutMsg M bitlen).length size hs
  simp only []
  rw [tweak_eq, Nat.zero_add]
  unfold blockHash
  show Spec.Skein.ubi G (((cutMsg M bitlen).drop (i * size)).take size)
      (if i + 1 = nblocks (cutMsg M bitlen).length size then bitsOf M bitlen - 8 * (i * size)
       else 8 * (((cutMsg M bitlen).drop (i * size)).take size).length) (lvTweak (i * size) lv) = _
  apply congrArg (fun b => Spec.Skein.ubi G (((cutMsg M bitlen).drop (i * size)).take size) b (lvTweak (i * size) lv))
  cases bitlen with
  | none =>
    show _ = 8 * (((cutMsg M none).drop (i * size)).take size).length
    by_cases hl : i + 1 = nblocks (cutMsg M none).length size
    · simp only [hl, ite_true]
      have := hlast.1 hl
      have hle : i * size ≤ (cutMsg M none).length := by
        have : i = nblocks (cutMsg M none).length size - 1 := by omega
        rw [this]; exact hn1
      rw [cutMsg_none] at *
      simp only [bitsOf, Option.getD_none, List.length_take, List.length_drop]
      omega
    · simp only [hl, ite_false]
  | some L =>
    show _ = bitsOf _ (if i * size + size < (cutMsg M (some L)).length then none else some (L - 8 * (i * size)))
    by_cases hl : i + 1 = nblocks (cutMsg M (some L)).length size
    · have := hlast.1 hl
      simp only [hl, ite_true, this, ite_false, bitsOf, Option.getD_some]
    · have : i * size + size < (cutMsg M (some L)).length := by
        by_cases h : i * size + size < (cutMsg M (some L)).length
        · exact h
        · exact absurd (hlast.2 h) hl
      simp only [hl, ite_false, this, ite_true, bitsOf, Option.getD_none]


/-- a whole level, from offset 0 -/
theorem level_full (G : List Nat) (hG : IsBytes G) (hGl : G.length = 32 ∨ G.length = 64 ∨ G.length = 128)
    (size : Nat) (hs : 0 < size) (M : List Nat) (hM : IsBytes M) (bitlen : Option Nat) (hL : bitsOf M bitlen ≤ 8 * M.length)
    (lv : Nat) (hl : lv < 128) (hbound : (cutMsg M bitlen).length + size < 2 ^ 96) :
    Skein.level G size (cutMsg M bitlen) bitlen (nblocks (cutMsg M bitlen).length size) 0 ⟨lvTweak 0 lv, 128⟩ =
      .ok (⟨lvTweak (nblocks (cutMsg M bitlen).length size * size) lv, 128⟩, Spec.Skein.treeLevel G size M (bitsOf M bitlen) lv) ∧
    IsBytes (Spec.Skein.treeLevel G size M (bitsOf M bitlen) lv) ∧
    (Spec.Skein.treeLevel G size M (bitsOf M bitlen) lv).length = nblocks (cutMsg M bitlen).length size * G.length := by
  obtain ⟨hn1, hn2⟩ := nblocks_last (cutMsg M bitlen).length size hs
  have hk := nblocks_pos (cutMsg M bitlen).length size hs
  have e : nblocks (cutMsg M bitlen).length size * size = (nblocks (cutMsg M bitlen).length size - 1) * size + size := by
    conv => lhs; rw [show nblocks (cutMsg M bitlen).length size = (nblocks (cutMsg M bitlen).length size - 1) + 1 by omega]
    rw [Nat.succ_mul]
  have h := level_eq G hG hGl size (cutMsg M bitlen) (hM.take _) bitlen (cutMsg_fit M bitlen hL) lv hl
    (nblocks (cutMsg M bitlen).length size) 0 (by omega) (Or.inr (by omega))
  rw [Nat.zero_add] at h
  rw [treeLevel_eq G size hs M bitlen lv hL]
  exact h

theorem nl_limit (c : Skein.Cfg) (G : List Nat) (Nn fm : Nat) (ts ts1 ts2 : Bits) (Ml r : List Nat) (lv : Nat)
    (hgt : Ml.length > c.Nb) (g1 : Skein.getTreeLevel ts = .ok lv) (s1 : Skein.setTreeLevel ts (lv + 1) = .ok ts1)
    (s2 : Skein.setPosition ts1 0 = .ok ts2) (g2 : Skein.getTreeLevel ts2 = .ok c.Ym) (hu : Skein.ubi G ts2 Ml none = .ok r) :
    Skein.nodeLevels c G Nn (fm + 1) ts Ml = .ok r := by
  simp only [Skein.nodeLevels, hgt, ite_true, bind, Except.bind, g1, s1, s2, g2, hu]

theorem nl_node (c : Skein.Cfg) (G : List Nat) (Nn fm : Nat) (ts ts1 ts2 ts3 : Bits) (Ml M' r : List Nat) (lv lv2 : Nat)
    (hgt : Ml.length > c.Nb) (g1 : Skein.getTreeLevel ts = .ok lv) (s1 : Skein.setTreeLevel ts (lv + 1) = .ok ts1)
    (s2 : Skein.setPosition ts1 0 = .ok ts2) (g2 : Skein.getTreeLevel ts2 = .ok lv2) (hne : ¬ (lv2 = c.Ym))
    (hlev : Skein.level G Nn Ml none (Skein.pieces Ml.length Nn) 0 ts2 = .ok (ts3, M'))
    (hrec : Skein.nodeLevels c G Nn fm ts3 M' = .ok r) :
    Skein.nodeLevels c G Nn (fm + 1) ts Ml = .ok r := by
  simp only [Skein.nodeLevels, hgt, ite_true, bind, Except.bind, g1, s1, s2, g2, hne, ite_false, hlev, hrec]

theorem nl_root (c : Skein.Cfg) (G : List Nat) (Nn fm : Nat) (ts : Bits) (Ml : List Nat) (h : Ml.length = c.Nb) :
    Skein.nodeLevels c G Nn (fm + 1) ts Ml = .ok Ml := by
  have h1 : ¬ (Ml.length > c.Nb) := by omega
  simp only [Skein.nodeLevels, pure, Except.pure]
  rw [if_neg h1, if_pos h]

/-- the level iteration: `while len(M)>Nb` versus rules 1–3 of section 3.5.6 -/
theorem nodeLevels_eq (c : Skein.Cfg) (G : List Nat) (hG : IsBytes G) (hGl : G.length = 32 ∨ G.length = 64 ∨ G.length = 128)
    (hNb : c.Nb = G.length) (Nn : Nat) (hNn2 : 2 * G.length ≤ Nn) (B : Nat) (hB : B + Nn < 2 ^ 96) :
    ∀ (d l fuelM fuelS pos : Nat) (Ml : List Nat), l + d = c.Ym → 1 ≤ d → d ≤ fuelM → d ≤ fuelS → pos < 2 ^ 96 →
      IsBytes Ml → (∃ q, 1 ≤ q ∧ Ml.length = q * G.length ∧ q ≤ 2 ^ (100 - l)) → Ml.length ≤ B →
      Skein.nodeLevels c G Nn fuelM ⟨lvTweak pos l, 128⟩ Ml = .ok (Spec.Skein.treeUp G Nn c.Ym fuelS l Ml) ∧
      IsBytes (Spec.Skein.treeUp G Nn c.Ym fuelS l Ml) ∧ (Spec.Skein.treeUp G Nn c.Ym fuelS l Ml).length = G.length := by
  have hNn : G.length ≤ Nn := by omega
  have hNnpos : 0 < Nn := by omega
  intro d
  induction d with
  | zero => intro l fuelM fuelS pos Ml _ h1; omega
  | succ d ih =>
    intro l fuelM fuelS pos Ml hld _ hfm hfs hpos hMl hq hMB
    obtain ⟨q, hq1, hq2, hq3⟩ := hq
    obtain ⟨fm, rfl⟩ : ∃ fm, fuelM = fm + 1 := ⟨fuelM - 1, by omega⟩
    obtain ⟨fs, rfl⟩ : ∃ fs, fuelS = fs + 1 := ⟨fuelS - 1, by omega⟩
    by_cases hgt : Ml.length > G.length
    · -- a further level: at least two blocks, so the level counter is still small
      have hq2' : 2 ≤ q := by
        rcases Nat.lt_or_ge q 2 with h | h
        · have : q = 1 := by omega
          rw [this, Nat.one_mul] at hq2; omega
        · exact h
      have hl99 : l ≤ 99 := by
        rcases Nat.lt_or_ge l 100 with h | h
        · omega
        · rw [Nat.sub_eq_zero_of_le h] at hq3; simp at hq3; omega
      have hpw : 2 ^ (100 - l) = 2 * 2 ^ (100 - (l + 1)) := by
        rw [show 100 - l = (100 - (l + 1)) + 1 by omega, Nat.pow_succ, Nat.mul_comm]
      have hl : l < 128 := by omega
      have g1 := getLevel_lv pos l hl hpos
      have s1 := setLevel_lv pos l (l + 1) hl hpos (by omega)
      have s2 := setPos_lv pos (l + 1) 0 (by omega) hpos (by decide)
      have g2 := getLevel_lv 0 (l + 1) (by omega) (by decide)
      have hgt' : Ml.length > c.Nb := by rw [hNb]; exact hgt
      have hspec : ¬ (Ml.length ≤ G.length) := by omega
      by_cases hym : l + 1 = c.Ym
      · -- the height limit: one UBI over the whole level
        obtain ⟨u1, u2, u3⟩ := ubi_eq G Ml none (lvTweak 0 (l + 1)) hG hMl hGl (Nat.le_refl _)
          (pre_lv Ml 0 (l + 1) (by omega) (by omega))
        have hbn : bitsOf Ml none = 8 * Ml.length := rfl
        rw [hbn] at u1 u2 u3
        have ht : Spec.Skein.tweak 0 c.Ym 0 Spec.Skein.Tmsg 0 0 = lvTweak 0 (l + 1) := by rw [tweak_eq, hym]
        have hc : (l + 1 = c.Ym) = True := eq_true hym
        have hsp : Spec.Skein.treeUp G Nn c.Ym (fs + 1) l Ml = Spec.Skein.ubi G Ml (8 * Ml.length) (lvTweak 0 (l + 1)) := by
          simp only [Spec.Skein.treeUp, hspec, ite_false, hc, ite_true, Spec.Skein.ubiBytes, ht]
        rw [hsp]
        refine ⟨?_, u2, u3⟩
        exact nl_limit c G Nn fm _ _ _ Ml _ l hgt' g1 s1 s2 (by rw [← hym]; exact g2) u1
      · -- a node level
        have hne : ¬ (Ml.length = 0) := by omega
        have hcut : cutMsg Ml none = Ml := cutMsg_none Ml
        have hpieces : Skein.pieces Ml.length Nn = nblocks Ml.length Nn := by
          have := pieces_eq Ml.length Nn hNnpos
          simp only [hne, ite_false] at this
          exact this
        obtain ⟨v1, v2, v3⟩ := level_full G hG hGl Nn hNnpos Ml hMl none (Nat.le_refl _) (l + 1) (by omega) (by rw [hcut]; omega)
        rw [hcut] at v1 v3
        have hbits : bitsOf Ml none = 8 * Ml.length := rfl
        rw [hbits] at v1 v2 v3
        -- the number of nodes does not exceed the number of blocks below
        have hkq : nblocks Ml.length Nn ≤ q := by
          unfold nblocks
          simp only [hne, ite_false]
          apply Nat.le_of_lt_succ
          apply (Nat.div_lt_iff_lt_mul hNnpos).2
          have : q * G.length ≤ q * Nn := Nat.mul_le_mul_left _ hNn
          rw [Nat.succ_mul, hq2]
          omega
        have hkh : nblocks Ml.length Nn ≤ (q + 1) / 2 := by
          unfold nblocks
          simp only [hne, ite_false]
          apply Nat.le_of_lt_succ
          apply (Nat.div_lt_iff_lt_mul hNnpos).2
          have a1 : q ≤ 2 * ((q + 1) / 2) := by omega
          have a2 : q * G.length ≤ 2 * ((q + 1) / 2) * G.length := Nat.mul_le_mul_right _ a1
          have a3 : (q + 1) / 2 * (2 * G.length) ≤ (q + 1) / 2 * Nn := Nat.mul_le_mul_left _ hNn2
          have a4 : 2 * ((q + 1) / 2) * G.length = (q + 1) / 2 * (2 * G.length) := by
            rw [Nat.mul_comm 2, Nat.mul_assoc]
          rw [Nat.succ_mul, hq2]
          omega
        have hklen : nblocks Ml.length Nn * G.length ≤ Ml.length :=
          Nat.le_trans (Nat.mul_le_mul_right _ hkq) (Nat.le_of_eq hq2.symm)
        obtain ⟨hn1, hn2⟩ := nblocks_last Ml.length Nn hNnpos
        have hk := nblocks_pos Ml.length Nn hNnpos
        have hposk : nblocks Ml.length Nn * Nn < 2 ^ 96 := by
          have e : nblocks Ml.length Nn * Nn = (nblocks Ml.length Nn - 1) * Nn + Nn := by
            conv => lhs; rw [show nblocks Ml.length Nn = (nblocks Ml.length Nn - 1) + 1 by omega]
            rw [Nat.succ_mul]
          omega
        have hih := ih (l + 1) fm fs (nblocks Ml.length Nn * Nn) (Spec.Skein.treeLevel G Nn Ml (8 * Ml.length) (l + 1))
          (by omega) (by omega) (by omega) (by omega) hposk v2 ⟨nblocks Ml.length Nn, hk, v3, by omega⟩ (by rw [v3]; omega)
        have hsp : Spec.Skein.treeUp G Nn c.Ym (fs + 1) l Ml =
            Spec.Skein.treeUp G Nn c.Ym fs (l + 1) (Spec.Skein.treeLevel G Nn Ml (8 * Ml.length) (l + 1)) := by
          simp only [Spec.Skein.treeUp, hspec, ite_false, hym]
        rw [hsp]
        refine ⟨?_, hih.2.1, hih.2.2⟩
        exact nl_node c G Nn fm _ _ _ _ Ml _ _ l (l + 1) hgt' g1 s1 s2 g2 hym (by rw [hpieces]; exact v1) hih.1
    · -- the root: the level is one block
      have heq : Ml.length = G.length := by
        have : q * G.length ≥ G.length := Nat.le_mul_of_pos_left _ hq1
        omega
      have h1 : ¬ (Ml.length > c.Nb) := by rw [hNb]; exact hgt
      have h2 : Ml.length = c.Nb := by rw [hNb]; exact heq
      have hsp : Spec.Skein.treeUp G Nn c.Ym (fs + 1) l Ml = Ml := by
        simp only [Spec.Skein.treeUp, show Ml.length ≤ G.length by omega, ite_true]
      rw [hsp]
      refine ⟨?_, hMl, heq⟩
      exact nl_root c G Nn fm _ Ml h2


theorem treehash_step (c : Skein.Cfg) (G M : List Nat) (bitlen : Option Nat) (ts0 ts1 : Bits) (M1 r : List Nat)
    (h1 : c.Yl ≥ 1) (h2 : c.Yf ≥ 1) (h3 : c.Ym ≥ 2) (ht : Skein.tweakOfLevelType 1 "msg" = .ok ts0)
    (hlev : Skein.level G (c.Nb <<< c.Yl) (cutMsg M bitlen) bitlen
        (Skein.pieces (if (cutMsg M bitlen).length = 0 then 1 else (cutMsg M bitlen).length) (c.Nb <<< c.Yl)) 0 ts0 = .ok (ts1, M1))
    (hrec : Skein.nodeLevels c G (c.Nb <<< c.Yf) 256 ts1 M1 = .ok r) :
    Skein.treehash c G M bitlen = .ok r := by
  have hcut : Skein.cutMsg M bitlen = cutMsg M bitlen := by
    cases bitlen with
    | none => exact (cutMsg_none M).symm
    | some L => rfl
  simp only [Skein.treehash, h1, h2, h3, not_true_eq_false, ite_false, bind, Except.bind, ht, hcut, hlev, hrec]

/-- `_treehash(M,bitlen)` = the specification's tree hash -/
theorem treehash_eq (c : Skein.Cfg) (G : List Nat) (hG : IsBytes G) (hGl : G.length = 32 ∨ G.length = 64 ∨ G.length = 128)
    (hNb : c.Nb = G.length) (h1 : 1 ≤ c.Yl) (h2 : 1 ≤ c.Yf) (h3 : 2 ≤ c.Ym) (hYm : c.Ym ≤ 255)
    (M : List Nat) (hM : IsBytes M) (bitlen : Option Nat) (hL : bitsOf M bitlen ≤ 8 * M.length)
    (hbound : M.length + G.length * 2 ^ c.Yl + G.length * 2 ^ c.Yf < 2 ^ 96) :
    Skein.treehash c G M bitlen = .ok (Spec.Skein.tree G M (bitsOf M bitlen) c.Yl c.Yf c.Ym) ∧
    IsBytes (Spec.Skein.tree G M (bitsOf M bitlen) c.Yl c.Yf c.Ym) ∧
    (Spec.Skein.tree G M (bitsOf M bitlen) c.Yl c.Yf c.Ym).length = G.length := by
  have eNl : c.Nb <<< c.Yl = G.length * 2 ^ c.Yl := by rw [Nat.shiftLeft_eq, hNb]
  have eNn : c.Nb <<< c.Yf = G.length * 2 ^ c.Yf := by rw [Nat.shiftLeft_eq, hNb]
  have hGpos : 0 < G.length := by omega
  have hNl : G.length ≤ G.length * 2 ^ c.Yl := Nat.le_mul_of_pos_right _ (Nat.two_pow_pos _)
  have hNn : G.length ≤ G.length * 2 ^ c.Yf := Nat.le_mul_of_pos_right _ (Nat.two_pow_pos _)
  have hcl : (cutMsg M bitlen).length ≤ M.length := by unfold cutMsg; rw [List.length_take]; exact Nat.min_le_right _ _
  obtain ⟨v1, v2, v3⟩ := level_full G hG hGl (G.length * 2 ^ c.Yl) (by omega) M hM bitlen hL 1 (by decide) (by omega)
  obtain ⟨hn1, hn2⟩ := nblocks_last (cutMsg M bitlen).length (G.length * 2 ^ c.Yl) (by omega)
  have hk := nblocks_pos (cutMsg M bitlen).length (G.length * 2 ^ c.Yl) (by omega)
  have ek : nblocks (cutMsg M bitlen).length (G.length * 2 ^ c.Yl) * (G.length * 2 ^ c.Yl) =
      (nblocks (cutMsg M bitlen).length (G.length * 2 ^ c.Yl) - 1) * (G.length * 2 ^ c.Yl) + G.length * 2 ^ c.Yl := by
    conv => lhs; rw [show nblocks (cutMsg M bitlen).length (G.length * 2 ^ c.Yl) =
      (nblocks (cutMsg M bitlen).length (G.length * 2 ^ c.Yl) - 1) + 1 by omega]
    rw [Nat.succ_mul]
  have hkG : nblocks (cutMsg M bitlen).length (G.length * 2 ^ c.Yl) * G.length ≤
      nblocks (cutMsg M bitlen).length (G.length * 2 ^ c.Yl) * (G.length * 2 ^ c.Yl) := Nat.mul_le_mul_left _ hNl
  have hNn2 : 2 * G.length ≤ G.length * 2 ^ c.Yf := by
    rw [Nat.mul_comm 2]
    apply Nat.mul_le_mul_left
    calc 2 = 2 ^ 1 := rfl
      _ ≤ 2 ^ c.Yf := Nat.pow_le_pow_right (by decide) h2
  have hkle : nblocks (cutMsg M bitlen).length (G.length * 2 ^ c.Yl) ≤
      nblocks (cutMsg M bitlen).length (G.length * 2 ^ c.Yl) * (G.length * 2 ^ c.Yl) := Nat.le_mul_of_pos_right _ (by omega)
  obtain ⟨w1, w2, w3⟩ := nodeLevels_eq c G hG hGl hNb (G.length * 2 ^ c.Yf) hNn2 (M.length + G.length * 2 ^ c.Yl) (by omega)
    (c.Ym - 1) 1 256 c.Ym (nblocks (cutMsg M bitlen).length (G.length * 2 ^ c.Yl) * (G.length * 2 ^ c.Yl))
    (Spec.Skein.treeLevel G (G.length * 2 ^ c.Yl) M (bitsOf M bitlen) 1)
    (by omega) (by omega) (by omega) (by omega) (by omega) v2 ⟨_, hk, v3, by simp only [Nat.reduceSub]; omega⟩ (by rw [v3]; omega)
  have hsp : Spec.Skein.tree G M (bitsOf M bitlen) c.Yl c.Yf c.Ym =
      Spec.Skein.treeUp G (G.length * 2 ^ c.Yf) c.Ym c.Ym 1 (Spec.Skein.treeLevel G (G.length * 2 ^ c.Yl) M (bitsOf M bitlen) 1) := rfl
  rw [hsp]
  refine ⟨?_, w2, w3⟩
  refine treehash_step c G M bitlen ⟨lvTweak 0 1, 128⟩ ⟨lvTweak (nblocks (cutMsg M bitlen).length (G.length * 2 ^ c.Yl) * (G.length * 2 ^ c.Yl)) 1, 128⟩ (Spec.Skein.treeLevel G (G.length * 2 ^ c.Yl) M (bitsOf M bitlen) 1) _ h1 h2 h3 tweakOfLevelType_eq ?_ ?_
  · rw [eNl, pieces_eq _ _ (by omega)]; exact v1
  · rw [eNn]; exact w1


/-- Skein with tree parameters, end to end -/
theorem hash_tree (Nb No Yl Yf Ym : Nat) (key prs PK kdf non : Option (List Nat)) (M : List Nat) (bitlen : Option Nat)
    (hNb : Nb = 256 ∨ Nb = 512 ∨ Nb = 1024) (h1 : 1 ≤ Yl) (h2 : 1 ≤ Yf) (h3 : 2 ≤ Ym) (hYl : Yl ≤ 255) (hYf : Yf ≤ 255) (hYm : Ym ≤ 255)
    (hM : IsBytes M) (hL : bitsOf M bitlen ≤ 8 * M.length)
    (hbound : M.length + Nb / 8 * 2 ^ Yl + Nb / 8 * 2 ^ Yf < 2 ^ 96)
    (hk : OptOk key) (hp : OptOk prs) (hP : OptOk PK) (hd : OptOk kdf) (hn : OptOk non) :
    Skein.hash Nb No Yl Yf Ym key prs PK kdf non M bitlen =
      .ok (Spec.Skein.output (Spec.Skein.tree (specInit Nb No Yl Yf Ym (key.getD []) (prs.getD []) (PK.getD []) (kdf.getD []) (non.getD []))
              M (bitsOf M bitlen) Yl Yf Ym) No) ∧
    (Spec.Skein.output (Spec.Skein.tree (specInit Nb No Yl Yf Ym (key.getD []) (prs.getD []) (PK.getD []) (kdf.getD []) (non.getD []))
              M (bitsOf M bitlen) Yl Yf Ym) No).length = (No + 7) / 8 := by
  obtain ⟨i1, i2, i3⟩ := initstate_eq Nb No Yl Yf Ym key prs PK kdf non hNb hYl hYf hYm hk hp hP hd hn
  have hGl : (specInit Nb No Yl Yf Ym (key.getD []) (prs.getD []) (PK.getD []) (kdf.getD []) (non.getD [])).length = 32 ∨
      (specInit Nb No Yl Yf Ym (key.getD []) (prs.getD []) (PK.getD []) (kdf.getD []) (non.getD [])).length = 64 ∨
      (specInit Nb No Yl Yf Ym (key.getD []) (prs.getD []) (PK.getD []) (kdf.getD []) (non.getD [])).length = 128 := by
    rw [i3]; omega
  obtain ⟨t1, t2, t3⟩ := treehash_eq (Skein.Cfg.mk (Nb / 8) No (Spec.Skein.cfgString No Yl Yf Ym) Yl Yf Ym key prs PK kdf non) _ i2 hGl
    i3.symm h1 h2 h3 hYm M hM bitlen hL (by rw [i3]; exact hbound)
  obtain ⟨o1, o2, _⟩ := output_eq (Skein.Cfg.mk (Nb / 8) No (Spec.Skein.cfgString No Yl Yf Ym) Yl Yf Ym key prs PK kdf non) _ t2
    (by rw [t3]; exact hGl)
  refine ⟨?_, o2⟩
  have hnz : ¬ (Yl = Yf ∧ Yf = Ym ∧ Ym = 0) := by omega
  unfold Skein.hash Skein.call Skein.updateMsg
  simp only [mk_ok Nb No Yl Yf Ym key prs PK kdf non hNb hYl hYf hYm, bind, Except.bind, i1, hnz, not_false_eq_true, ite_true, t1]
  exact o1

theorem spec_tree (Nb No : Nat) (key prs pk kdf non M : List Nat) (L Yl Yf Ym : Nat) (hNb : Nb = 256 ∨ Nb = 512 ∨ Nb = 1024)
    (h1 : 1 ≤ Yl) (h2 : 1 ≤ Yf) (h3 : 2 ≤ Ym) (hYl : Yl ≤ 255) (hYf : Yf ≤ 255) (hYm : Ym ≤ 255) :
    Spec.Skein.skein Nb No key prs pk kdf non Yl Yf Ym M L =
      some (Spec.Skein.output (Spec.Skein.tree (specInit Nb No Yl Yf Ym key prs pk kdf non) M L Yl Yf Ym) No) := by
  have hp : Spec.Skein.paramsOk Nb Yl Yf Ym = true := by
    unfold Spec.Skein.paramsOk
    have a : (decide (Nb = 256) || decide (Nb = 512) || decide (Nb = 1024)) = true := by
      rcases hNb with h | h | h <;> subst h <;> decide
    simp [a, h1, h2, h3, hYl, hYf, hYm]
  have hnz : ¬ (Yl = 0 ∧ Yf = 0 ∧ Ym = 0) := by omega
  unfold Spec.Skein.skein specInit
  simp only [hp, not_true_eq_false, ite_false, hnz]


/-- parameters outside the specification (a Y value above 255, or tree parameters that are neither all zero nor
    Yl,Yf ≥ 1, Ym ≥ 2) are rejected, whatever the other inputs are -/
theorem hash_bad_params (Nb No Yl Yf Ym : Nat) (key prs PK kdf non : Option (List Nat)) (M : List Nat) (bitlen : Option Nat)
    (hbad : Spec.Skein.paramsOk Nb Yl Yf Ym = false) :
    (∃ e, Skein.hash Nb No Yl Yf Ym key prs PK kdf non M bitlen = .error e) ∧
    Spec.Skein.skein Nb No (key.getD []) (prs.getD []) (PK.getD []) (kdf.getD []) (non.getD []) Yl Yf Ym M (bitsOf M bitlen) = none := by
  constructor
  · by_cases hNb : (Nb = 256 ∨ Nb = 512 ∨ Nb = 1024)
    · by_cases hY : (Yl > 255 ∨ Yf > 255 ∨ Ym > 255)
      · unfold Skein.hash Skein.mk
        simp only [hNb, not_true_eq_false, ite_false, hY, ite_true, bind, Except.bind]
        exact ⟨_, rfl⟩
      · have hmk := mk_ok Nb No Yl Yf Ym key prs PK kdf non hNb (by omega) (by omega) (by omega)
        -- not all zero, and one of the tree asserts fails
        have hcond : ¬ (Yl = Yf ∧ Yf = Ym ∧ Ym = 0) ∧ (¬ (Yl ≥ 1) ∨ ¬ (Yf ≥ 1) ∨ ¬ (Ym ≥ 2)) := by
          unfold Spec.Skein.paramsOk at hbad
          have a : (decide (Nb = 256) || decide (Nb = 512) || decide (Nb = 1024)) = true := by
            rcases hNb with h | h | h <;> subst h <;> decide
          rw [a, Bool.true_and] at hbad
          simp only [Bool.or_eq_false_iff, Bool.and_eq_false_iff, decide_eq_false_iff_not, Nat.not_le] at hbad
          omega
        obtain ⟨hnz, hass⟩ := hcond
        unfold Skein.hash Skein.call Skein.updateMsg
        simp only [hmk, bind, Except.bind]
        cases Skein.initstate (Skein.Cfg.mk (Nb / 8) No (Spec.Skein.cfgString No Yl Yf Ym) Yl Yf Ym key prs PK kdf non) with
        | error e => exact ⟨_, rfl⟩
        | ok G =>
          simp only [hnz, not_false_eq_true, ite_true, Skein.treehash]
          rcases hass with h | h | h
          · simp only [h, not_false_eq_true, ite_true]; exact ⟨_, rfl⟩
          · by_cases h1 : Yl ≥ 1
            · simp only [h1, not_true_eq_false, ite_false, h, not_false_eq_true, ite_true]; exact ⟨_, rfl⟩
            · simp only [h1, not_false_eq_true, ite_true]; exact ⟨_, rfl⟩
          · by_cases h1 : Yl ≥ 1
            · by_cases h2 : Yf ≥ 1
              · simp only [h1, h2, not_true_eq_false, ite_false, h, not_false_eq_true, ite_true]; exact ⟨_, rfl⟩
              · simp only [h1, not_true_eq_false, ite_false, h2, not_false_eq_true, ite_true]; exact ⟨_, rfl⟩
            · simp only [h1, not_false_eq_true, ite_true]; exact ⟨_, rfl⟩
    · exact (hash_bad_Nb Nb No Yl Yf Ym key prs PK kdf non M bitlen hNb).1
  · unfold Spec.Skein.skein
    simp [hbad]

end Proofs.Lemmas.SkTree
