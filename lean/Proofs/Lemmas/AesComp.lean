/-
  The transformations of Model.Aes on 16-byte states: each preserves "16 bytes", each pair is mutually inverse,
  and each equals the FIPS 197 transformation of Spec.Aes.
-/
import Proofs.Lemmas.AesMix
namespace Proofs.Aes
open Model Model.Aes Model.Gen.Aes

/-! ### words / columns -/

theorem wd_mk {a b c d : Nat} (ha : a < 256) (hb : b < 256) (hc : c < 256) (hd : d < 256) : Wd [a, b, c, d] :=
  ⟨rfl, by simp [IsBytes]; exact ⟨ha, hb, hc, hd⟩⟩

theorem wd_cases {w : List Nat} (h : Wd w) : ∃ a b c d, w = [a, b, c, d] ∧ a < 256 ∧ b < 256 ∧ c < 256 ∧ d < 256 := by
  obtain ⟨a, b, c, d, rfl⟩ := len4 h.1
  have hb := h.2
  simp [IsBytes] at hb
  exact ⟨a, b, c, d, rfl, hb⟩

macro "byte_tac" : tactic =>
  `(tactic| repeat (first | assumption | exact gmulB_lt _ _ | apply xor_lt_256))

theorem mixColumn_wd {w : List Nat} (h : Wd w) : Wd (mixColumn w) := by
  obtain ⟨a, b, c, d, rfl, ha, hb, hc, hd⟩ := wd_cases h
  simp only [mixColumn]
  apply wd_mk <;> byte_tac

theorem invMixColumn_wd {w : List Nat} (h : Wd w) : Wd (invMixColumn w) := by
  obtain ⟨a, b, c, d, rfl, ha, hb, hc, hd⟩ := wd_cases h
  simp only [invMixColumn]
  apply wd_mk <;> byte_tac

/-- Model column = FIPS column (the log/antilog products are the GF(2^8) products) -/
theorem mixColumn_spec {w : List Nat} (h : Wd w) : mixColumn w = Spec.Aes.mixColumn w := by
  obtain ⟨a, b, c, d, rfl, ha, hb, hc, hd⟩ := wd_cases h
  simp only [mixColumn, Spec.Aes.mixColumn, gmulB_2 a ha, gmulB_2 b hb, gmulB_2 c hc, gmulB_2 d hd,
    gmulB_3 a ha, gmulB_3 b hb, gmulB_3 c hc, gmulB_3 d hd]

theorem invMixColumn_spec {w : List Nat} (h : Wd w) : invMixColumn w = Spec.Aes.invMixColumn w := by
  obtain ⟨a, b, c, d, rfl, ha, hb, hc, hd⟩ := wd_cases h
  simp only [invMixColumn, Spec.Aes.invMixColumn,
    gmulB_9 a ha, gmulB_9 b hb, gmulB_9 c hc, gmulB_9 d hd, gmulB_11 a ha, gmulB_11 b hb, gmulB_11 c hc, gmulB_11 d hd,
    gmulB_13 a ha, gmulB_13 b hb, gmulB_13 c hc, gmulB_13 d hd, gmulB_14 a ha, gmulB_14 b hb, gmulB_14 c hc, gmulB_14 d hd]

/-- InvMixColumns inverts MixColumns on every one of the 2^32 columns -/
theorem invMixColumn_mixColumn {w : List Nat} (h : Wd w) : invMixColumn (mixColumn w) = w := by
  rw [invMixColumn_spec (mixColumn_wd h), mixColumn_spec h]
  obtain ⟨a, b, c, d, rfl, ha, hb, hc, hd⟩ := wd_cases h
  exact spec_invMixColumn_mixColumn ha hb hc hd

theorem mixColumn_invMixColumn {w : List Nat} (h : Wd w) : mixColumn (invMixColumn w) = w := by
  rw [mixColumn_spec (invMixColumn_wd h), invMixColumn_spec h]
  obtain ⟨a, b, c, d, rfl, ha, hb, hc, hd⟩ := wd_cases h
  exact spec_mixColumn_invMixColumn ha hb hc hd

/-! ### states -/

theorem st_cases {s : List Nat} (h : St s) :
    ∃ a0 a1 a2 a3 a4 a5 a6 a7 a8 a9 a10 a11 a12 a13 a14 a15,
      s = [a0, a1, a2, a3, a4, a5, a6, a7, a8, a9, a10, a11, a12, a13, a14, a15] ∧
      Wd [a0, a1, a2, a3] ∧ Wd [a4, a5, a6, a7] ∧ Wd [a8, a9, a10, a11] ∧ Wd [a12, a13, a14, a15] := by
  obtain ⟨a0, a1, a2, a3, a4, a5, a6, a7, a8, a9, a10, a11, a12, a13, a14, a15, rfl⟩ := len16 h.1
  have hb := h.2
  simp [IsBytes] at hb
  obtain ⟨h0, h1, h2, h3, h4, h5, h6, h7, h8, h9, h10, h11, h12, h13, h14, h15⟩ := hb
  exact ⟨a0, a1, a2, a3, a4, a5, a6, a7, a8, a9, a10, a11, a12, a13, a14, a15, rfl,
    wd_mk h0 h1 h2 h3, wd_mk h4 h5 h6 h7, wd_mk h8 h9 h10 h11, wd_mk h12 h13 h14 h15⟩

theorem st_of_wds {w0 w1 w2 w3 : List Nat} (h0 : Wd w0) (h1 : Wd w1) (h2 : Wd w2) (h3 : Wd w3) :
    St (w0 ++ w1 ++ w2 ++ w3) := by
  refine ⟨by simp [h0.1, h1.1, h2.1, h3.1], ?_⟩
  simp only [isBytes_append]
  exact ⟨⟨⟨h0.2, h1.2⟩, h2.2⟩, h3.2⟩

theorem st_length {s : List Nat} (h : St s) : s.length = 16 := h.1

/-- SubBytes -/
theorem subBytes_st {s : List Nat} (h : St s) : St (subBytes s) :=
  ⟨by simp [subBytes, h.1], isBytes_map sbox_lt h.2⟩
theorem invSubBytes_st {s : List Nat} (h : St s) : St (invSubBytes s) :=
  ⟨by simp [invSubBytes, h.1], isBytes_map sboxInv_lt h.2⟩

theorem invSubBytes_subBytes {s : List Nat} (h : IsBytes s) : invSubBytes (subBytes s) = s := by
  unfold invSubBytes subBytes
  rw [List.map_map]
  conv => rhs; rw [← List.map_id s]
  apply List.map_congr_left
  intro b hb
  exact sboxInv_sbox b (h b hb)

theorem subBytes_invSubBytes {s : List Nat} (h : IsBytes s) : subBytes (invSubBytes s) = s := by
  unfold invSubBytes subBytes
  rw [List.map_map]
  conv => rhs; rw [← List.map_id s]
  apply List.map_congr_left
  intro b hb
  exact sbox_sboxInv b (h b hb)

/-- ShiftRows: pure gathers through the probed index lists -/
theorem gather_isBytes {idx s : List Nat} (h : IsBytes s) : IsBytes (gather idx s) := by
  intro b hb
  unfold gather at hb
  rw [List.mem_map] at hb
  obtain ⟨j, _, rfl⟩ := hb
  rw [List.getD_eq_getElem?_getD]
  cases hj : s[j]? with
  | none => simp
  | some v => simp; exact h v (List.mem_of_getElem? hj)

theorem shiftRows_st {s : List Nat} (h : St s) : St (shiftRows s) :=
  ⟨by simp [shiftRows, gather, shiftRowsIdx_eq], gather_isBytes h.2⟩
theorem invShiftRows_st {s : List Nat} (h : St s) : St (invShiftRows s) :=
  ⟨by simp [invShiftRows, gather, invShiftRowsIdx_eq], gather_isBytes h.2⟩

theorem invShiftRows_shiftRows {s : List Nat} (h : s.length = 16) : invShiftRows (shiftRows s) = s := by
  obtain ⟨a0, a1, a2, a3, a4, a5, a6, a7, a8, a9, a10, a11, a12, a13, a14, a15, rfl⟩ := len16 h
  simp [invShiftRows, shiftRows, gather, shiftRowsIdx_eq, invShiftRowsIdx_eq]

theorem shiftRows_invShiftRows {s : List Nat} (h : s.length = 16) : shiftRows (invShiftRows s) = s := by
  obtain ⟨a0, a1, a2, a3, a4, a5, a6, a7, a8, a9, a10, a11, a12, a13, a14, a15, rfl⟩ := len16 h
  simp [invShiftRows, shiftRows, gather, shiftRowsIdx_eq, invShiftRowsIdx_eq]

/-- MixColumns -/
theorem mixColumns_eq {a0 a1 a2 a3 a4 a5 a6 a7 a8 a9 a10 a11 a12 a13 a14 a15 : Nat} :
    mixColumns [a0, a1, a2, a3, a4, a5, a6, a7, a8, a9, a10, a11, a12, a13, a14, a15] =
      mixColumn [a0, a1, a2, a3] ++ mixColumn [a4, a5, a6, a7] ++ mixColumn [a8, a9, a10, a11] ++ mixColumn [a12, a13, a14, a15] := rfl

theorem invMixColumns_eq {a0 a1 a2 a3 a4 a5 a6 a7 a8 a9 a10 a11 a12 a13 a14 a15 : Nat} :
    invMixColumns [a0, a1, a2, a3, a4, a5, a6, a7, a8, a9, a10, a11, a12, a13, a14, a15] =
      invMixColumn [a0, a1, a2, a3] ++ invMixColumn [a4, a5, a6, a7] ++ invMixColumn [a8, a9, a10, a11] ++ invMixColumn [a12, a13, a14, a15] := rfl

/-- reassembling four words into a state and splitting it again -/
theorem mixColumns_wds {w0 w1 w2 w3 : List Nat} (h0 : w0.length = 4) (h1 : w1.length = 4) (h2 : w2.length = 4) (h3 : w3.length = 4) :
    mixColumns (w0 ++ w1 ++ w2 ++ w3) = mixColumn w0 ++ mixColumn w1 ++ mixColumn w2 ++ mixColumn w3 := by
  obtain ⟨a0, a1, a2, a3, rfl⟩ := len4 h0
  obtain ⟨a4, a5, a6, a7, rfl⟩ := len4 h1
  obtain ⟨a8, a9, a10, a11, rfl⟩ := len4 h2
  obtain ⟨a12, a13, a14, a15, rfl⟩ := len4 h3
  rfl

theorem invMixColumns_wds {w0 w1 w2 w3 : List Nat} (h0 : w0.length = 4) (h1 : w1.length = 4) (h2 : w2.length = 4) (h3 : w3.length = 4) :
    invMixColumns (w0 ++ w1 ++ w2 ++ w3) = invMixColumn w0 ++ invMixColumn w1 ++ invMixColumn w2 ++ invMixColumn w3 := by
  obtain ⟨a0, a1, a2, a3, rfl⟩ := len4 h0
  obtain ⟨a4, a5, a6, a7, rfl⟩ := len4 h1
  obtain ⟨a8, a9, a10, a11, rfl⟩ := len4 h2
  obtain ⟨a12, a13, a14, a15, rfl⟩ := len4 h3
  rfl

theorem mixColumns_st {s : List Nat} (h : St s) : St (mixColumns s) := by
  obtain ⟨a0, a1, a2, a3, a4, a5, a6, a7, a8, a9, a10, a11, a12, a13, a14, a15, rfl, h0, h1, h2, h3⟩ := st_cases h
  rw [mixColumns_eq]
  exact st_of_wds (mixColumn_wd h0) (mixColumn_wd h1) (mixColumn_wd h2) (mixColumn_wd h3)

theorem invMixColumns_st {s : List Nat} (h : St s) : St (invMixColumns s) := by
  obtain ⟨a0, a1, a2, a3, a4, a5, a6, a7, a8, a9, a10, a11, a12, a13, a14, a15, rfl, h0, h1, h2, h3⟩ := st_cases h
  rw [invMixColumns_eq]
  exact st_of_wds (invMixColumn_wd h0) (invMixColumn_wd h1) (invMixColumn_wd h2) (invMixColumn_wd h3)

theorem invMixColumns_mixColumns {s : List Nat} (h : St s) : invMixColumns (mixColumns s) = s := by
  obtain ⟨a0, a1, a2, a3, a4, a5, a6, a7, a8, a9, a10, a11, a12, a13, a14, a15, rfl, h0, h1, h2, h3⟩ := st_cases h
  rw [mixColumns_eq, invMixColumns_wds (mixColumn_wd h0).1 (mixColumn_wd h1).1 (mixColumn_wd h2).1 (mixColumn_wd h3).1,
    invMixColumn_mixColumn h0, invMixColumn_mixColumn h1, invMixColumn_mixColumn h2, invMixColumn_mixColumn h3]
  rfl

theorem mixColumns_invMixColumns {s : List Nat} (h : St s) : mixColumns (invMixColumns s) = s := by
  obtain ⟨a0, a1, a2, a3, a4, a5, a6, a7, a8, a9, a10, a11, a12, a13, a14, a15, rfl, h0, h1, h2, h3⟩ := st_cases h
  rw [invMixColumns_eq, mixColumns_wds (invMixColumn_wd h0).1 (invMixColumn_wd h1).1 (invMixColumn_wd h2).1 (invMixColumn_wd h3).1,
    mixColumn_invMixColumn h0, mixColumn_invMixColumn h1, mixColumn_invMixColumn h2, mixColumn_invMixColumn h3]
  rfl

/-- AddRoundKey -/
theorem addRoundKey_eq {s k : List Nat} (h : k.length = s.length) : addRoundKey s k = List.zipWith (· ^^^ ·) s k := by
  unfold addRoundKey
  rw [h, Nat.sub_self]
  simp

theorem addRoundKey_st {s k : List Nat} (hs : St s) (hk : St k) : St (addRoundKey s k) := by
  rw [addRoundKey_eq (by rw [hs.1, hk.1])]
  exact ⟨by simp [hs.1, hk.1], isBytes_zipWith_xor hs.2 hk.2⟩

theorem zipWith_xor_cancel (s k : List Nat) (h : s.length = k.length) :
    List.zipWith (· ^^^ ·) (List.zipWith (· ^^^ ·) s k) k = s := by
  induction s generalizing k with
  | nil => simp
  | cons x xs ih =>
    cases k with
    | nil => simp at h
    | cons y ys =>
      simp only [List.zipWith_cons_cons, List.cons.injEq]
      refine ⟨?_, ih ys (by simpa using h)⟩
      rw [Nat.xor_assoc, Nat.xor_self, Nat.xor_zero]

/-- AddRoundKey with the same key is an involution -/
theorem addRoundKey_addRoundKey {s k : List Nat} (h : k.length = s.length) : addRoundKey (addRoundKey s k) k = s := by
  rw [addRoundKey_eq h, addRoundKey_eq (by simp [h])]
  exact zipWith_xor_cancel s k h.symm

end Proofs.Aes
