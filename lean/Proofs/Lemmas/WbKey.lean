/-
  Helper lemmas for C18: the key-dependent tables `table_rKS` / `table_rKT` never fail for a round index below 16 and
  hold the values their construction says, for EVERY key.
-/
import Model.Wb
import Proofs.Lemmas.WbTables
namespace Proofs.Lemmas.Wb
open Model Model.Wb Model.Bits

theorem pc1_size (K : Bits) : (Des.PC1 K).size = 56 := by
  simp only [Des.PC1, pick, ofNatSz]; decide

theorem cumShift_le : ∀ r < 16, Des.cumShift r ≤ 28 := by decide +kernel

theorem subkey_ok (K : Bits) (r : Nat) (hr : r < 16) :
    ∃ fk, Des.subkey (Des.PC1 K) r = .ok fk ∧ fk.size = 48 := by
  have h1 := pc1_size K
  have h2 := cumShift_le r hr
  unfold Des.subkey
  rw [if_neg (by omega)]
  simp only []
  rw [if_neg (by omega)]
  unfold Des.PC2
  rw [if_neg]
  · refine ⟨_, rfl, ?_⟩
    simp only [pick, ofNatSz]; decide
  · simp [concat, ofNatSz, Bits.or, wsize, shr, shl, sliceFast]

theorem split6_ok (fk : Bits) (h : fk.size = 48) :
    fk.split 6 = .ok ((List.range 8).map fun j => fk.sliceFast (j * 6) (min (j * 6 + 6) 48)) := by
  simp [Bits.split, h]

theorem pyIdx_ok {α} (l : List α) (i : Nat) (h : i < l.length) : pyIdx l i = .ok l[i] := by
  simp [pyIdx, List.getElem?_eq_getElem h]

theorem nfk_idx (fk : Bits) (n : Nat) (hn : n < 8) :
    pyIdx ((List.range 8).map fun j => fk.sliceFast (j * 6) (min (j * 6 + 6) 48)) n = .ok (fk.sliceFast (6 * n) (6 * n + 6)) := by
  rw [pyIdx_ok _ _ (by simpa using hn)]
  simp only [List.getElem_map, List.getElem_range]
  congr 2
  · omega
  · omega

/-- the value `sboxOut` returns -/
def sboxVal (n : Nat) (x : Bits) : Nat :=
  ((ofNatSz (ofNatSz ((Gen.Des.sbox.getD n []).getD (((x.pick [5, 0]).ival <<< 4) + (x.pick [4, 3, 2, 1]).ival) 0) 4).ival 4).pick
    [3, 2, 1, 0]).ival

theorem sboxOut_ok (n : Nat) (hn : n < 8) (x : Bits) : sboxOut n x = .ok (sboxVal n x) := by
  have hi : (x.pick [5, 0]).ival < 4 := by
    simp only [pick, ofNatSz, List.length_cons, List.length_nil]; exact Nat.mod_lt _ (by decide)
  have hj : (x.pick [4, 3, 2, 1]).ival < 16 := by
    simp only [pick, ofNatSz, List.length_cons, List.length_nil]; exact Nat.mod_lt _ (by decide)
  have hx : ((x.pick [5, 0]).ival <<< 4) + (x.pick [4, 3, 2, 1]).ival < 64 := by
    rw [Nat.shiftLeft_eq]; omega
  simp only [sboxOut, Des.S, hn, hx, and_self, if_true, sboxVal]
  rfl

theorem sboxVal_lt (n : Nat) (x : Bits) : sboxVal n x < 16 := by
  simp only [sboxVal, pick, ofNatSz, List.length_cons, List.length_nil]; exact Nat.mod_lt _ (by decide)

/-- the 6-bit chunk `n` of the round key -/
def kchunk (fk : Bits) (n : Nat) : Bits := fk.sliceFast (6 * n) (6 * n + 6)

theorem tableRKS_ok (K : Bits) (r : Nat) (hr : r < 16) :
    ∃ fk rks, Des.subkey (Des.PC1 K) r = .ok fk ∧ fk.size = 48 ∧ tableRKS r K = .ok rks ∧ Shape rks 8 64 ∧
      ∀ n < 8, ∀ v < 64, get2 rks n v = sboxVal n ((ofNatSz v 6).xor (kchunk fk n)) := by
  obtain ⟨fk, h1, h2⟩ := subkey_ok K r hr
  obtain ⟨rks, a1, a2, a3⟩ := tabOuter_ok
    (entry := rksEntry ((List.range 8).map fun j => fk.sliceFast (j * 6) (min (j * 6 + 6) 48)))
    (idx := fun v => (ofNatSz v 6).ival)
    (f := fun v n => sboxVal n ((ofNatSz v 6).xor (kchunk fk n))) (N := 8) (M := 64) (Nat.le_refl 8)
    (List.range 64) (List.replicate 8 (List.replicate 64 0)) (shape_replicate 8 64 _ List.length_replicate)
    (by
      intro v hv
      have hv' : v < 64 := List.mem_range.mp hv
      refine ⟨hv', ?_, ?_⟩
      · simp only [ofNatSz]; exact Nat.mod_eq_of_lt hv'
      · intro n hn
        simp only [rksEntry, nfk_idx fk n hn]
        exact sboxOut_ok n hn _)
  refine ⟨fk, rks, h1, h2, ?_, a2, ?_⟩
  · simp only [tableRKS, h1, bind, Except.bind, split6_ok fk h2]; exact a1
  · intro n hn v hv
    rw [a3, if_pos ⟨hn, List.mem_range.mpr hv⟩]

/-- the byte a T-box holds: 4 S-box output bits, then bits 0,5,6,7 of the input byte -/
def tboxVal (s v : Nat) : Nat := ((ofNatSz s 4).concat ((ofNatSz v 8).pick [0, 5, 6, 7])).ival

theorem tboxVal_lt (s v : Nat) : tboxVal s v < 256 := by
  simp only [tboxVal, concat, ofNatSz, pick, List.length_cons, List.length_nil]; exact Nat.mod_lt _ (by decide)

theorem low6_lt (v : Nat) : ((ofNatSz v 8).sliceFast 0 6).ival < 64 := by
  simp only [sliceFast, ofNatSz]; exact Nat.mod_lt _ (by decide)

theorem low6_eq (v : Nat) : ((ofNatSz v 8).sliceFast 0 6).ival = v % 64 := by
  simp only [sliceFast, ofNatSz, Nat.shiftRight_zero, Nat.sub_zero]
  have h : (2 : Nat) ^ 6 - 1 = 2 ^ 6 - 1 := rfl
  rw [Nat.and_two_pow_sub_one_eq_mod, Nat.mod_mod]
  exact Nat.mod_mod_of_dvd v (by decide : 64 ∣ 256)

theorem get2_eq_getElem {t : List (List Nat)} {n v : Nat} (hn : n < t.length) (hv : v < t[n].length) : get2 t n v = t[n][v] := by
  simp [get2, List.getD_eq_getElem?_getD, List.getElem?_eq_getElem hn, List.getElem?_eq_getElem hv]

theorem rktEntry_ok (rks : List (List Nat)) (h : Shape rks 8 64) (v n : Nat) (hn : n < 8) :
    rktEntry rks v n = .ok (tboxVal (get2 rks n ((ofNatSz v 8).sliceFast 0 6).ival) v) := by
  have hl : n < rks.length := by rw [h.1]; exact hn
  have hrow : rks[n].length = 64 := h.2 _ (List.getElem_mem hl)
  have hi : ((ofNatSz v 8).sliceFast 0 6).ival < rks[n].length := by rw [hrow]; exact low6_lt v
  simp only [rktEntry, pyIdx_ok _ _ hl, pyIdx_ok _ _ hi, bind, Except.bind, pure, Except.pure, tboxVal, get2_eq_getElem hl hi]

theorem tableRKT_ok (K : Bits) (r : Nat) (hr : r < 16) :
    ∃ fk rks rkt, Des.subkey (Des.PC1 K) r = .ok fk ∧ fk.size = 48 ∧ tableRKT r K = .ok (rks, rkt) ∧
      Shape rks 8 64 ∧ Shape rkt 12 256 ∧
      (∀ n < 8, ∀ v < 64, get2 rks n v = sboxVal n ((ofNatSz v 6).xor (kchunk fk n))) ∧
      ∀ n v, get2 rkt n v = if n < 8 ∧ v < 256 then tboxVal (get2 rks n ((ofNatSz v 8).sliceFast 0 6).ival) v
                             else get2 (List.replicate 12 (List.range 256)) n v := by
  obtain ⟨fk, rks, h1, h2, h3, h4, h5⟩ := tableRKS_ok K r hr
  obtain ⟨rkt, a1, a2, a3⟩ := tabOuter_ok (entry := rktEntry rks) (idx := fun v => (ofNatSz v 8).ival)
    (f := fun v n => tboxVal (get2 rks n ((ofNatSz v 8).sliceFast 0 6).ival) v) (N := 12) (M := 256) (by decide)
    (List.range 256) (List.replicate 12 (List.range 256)) (shape_replicate 12 256 _ List.length_range)
    (by
      intro v hv
      have hv' : v < 256 := List.mem_range.mp hv
      refine ⟨hv', ?_, fun n hn => rktEntry_ok rks h4 v n hn⟩
      simp only [ofNatSz]; exact Nat.mod_eq_of_lt hv')
  refine ⟨fk, rks, rkt, h1, h2, ?_, h4, a2, h5, ?_⟩
  · simp only [tableRKT, h3, bind, Except.bind, a1]; rfl
  · intro n v
    rw [a3]; simp only [List.mem_range]

theorem get2_ident (n v : Nat) (hn : n < 12) (hv : v < 256) : get2 (List.replicate 12 (List.range 256)) n v = v := by
  simp only [get2, List.getD_eq_getElem?_getD, List.getElem?_replicate, hn, if_true, Option.getD_some]
  rw [List.getElem?_eq_getElem (by simpa using hv)]; simp

/-- `mapM` over `Except`: every element succeeds ⇒ the whole succeeds, results related pointwise -/
theorem mapM_ok {α β} (f : α → Except Err β) (P : α → β → Prop) :
    ∀ l : List α, (∀ x ∈ l, ∃ y, f x = .ok y ∧ P x y) →
      ∃ ys, l.mapM f = .ok ys ∧ ys.length = l.length ∧ ∀ i (h : i < l.length) (h' : i < ys.length), P l[i] ys[i] := by
  intro l
  induction l with
  | nil => intro _; exact ⟨[], by simp [pure, Except.pure], rfl, fun i h => absurd h (Nat.not_lt_zero i)⟩
  | cons a l ih =>
    intro h
    obtain ⟨y, h1, h2⟩ := h a (List.mem_cons_self)
    obtain ⟨ys, h3, h4, h5⟩ := ih (fun x hx => h x (List.mem_cons_of_mem _ hx))
    refine ⟨y :: ys, by simp [List.mapM_cons, h1, h3, bind, Except.bind, pure, Except.pure], by simp [h4], ?_⟩
    intro i hi hi'
    cases i with
    | zero => exact h2
    | succ j => exact h5 j (by simpa using hi) (by simpa using hi')

/-- `Bits(K,64)` of any byte string succeeds and has 64 bits -/
theorem ofBytes64_ok (K : List Nat) : ∃ b, Bits.ofBytes K (some 64) = .ok b ∧ b.size = 64 := by
  simp [Bits.ofBytes, Bits.load, bind, Except.bind, pure, Except.pure, setSize, Nat.mod_one]

end Proofs.Lemmas.Wb
