/-
  RC4: Model.Rc4 (Poly of ring 2^8, Python-int indices) refines Spec.Rc4 (bytes), step by step.
-/
import Proofs.Lemmas.StreamEnc
import Model.Rc4
import Spec.Rc4
namespace Proofs.Lemmas.Rc4
open Model Model.Poly Proofs.Lemmas.StreamPoly Proofs.Lemmas.SalsaRounds Proofs.Lemmas.StreamEnc

abbrev Byte := BitVec 8

theorem pyGet_ofBV {w} (S : List (BitVec w)) (n : Nat) (h : n < S.length) :
    pyGet (ofBV S).ival (n : Int) = .ok ((S.getD n 0).toNat : Int) := by
  unfold pyGet Py.normIndex
  have h0 : (0 : Int) ≤ (n : Int) ∧ (n : Int) < ((ofBV S).ival.length : Int) := by
    constructor
    · exact Int.natCast_nonneg _
    · simp only [ofBV_ival, List.length_map]; exact Int.ofNat_lt.mpr h
  simp only [h0, and_self, ↓reduceIte]
  simp [List.getD_eq_getElem?_getD, h]

theorem swap_length (S : List Byte) (i j : Byte) : (Spec.Rc4.swap S i j).length = S.length := by
  simp [Spec.Rc4.swap]

/-- `S[i,j] = S[j,i]` -/
theorem swap_ofBV (S : List Byte) (hS : S.length = 256) (i j : Byte) :
    Rc4.swap (ofBV S) (i.toNat : Int) (j.toNat : Int) = .ok (ofBV (Spec.Rc4.swap S i j)) := by
  have hi : i.toNat < S.length := by rw [hS]; exact i.isLt
  have hj : j.toNat < S.length := by rw [hS]; exact j.isLt
  unfold Rc4.swap
  have hg := getList_ofBV S [j.toNat, i.toNat] (by intro k hk; simp at hk; rcases hk with rfl | rfl <;> assumption)
  simp only [Salsa.ints, List.map_cons, List.map_nil, Int.ofNat_eq_natCast] at hg
  rw [hg, bind_ok]
  unfold setIdx
  simp only [ofBV_ival, List.map_cons, List.map_nil, List.length_cons, List.length_nil, ↓reduceIte, setMany]
  have h1 := setInt_ofBV (w := 8) (by decide) S i.toNat hi (S.getD j.toNat 0).toNat
  simp only [Int.ofNat_eq_natCast] at h1 ⊢
  rw [h1, bind_ok]
  have h2 := setInt_ofBV (w := 8) (by decide) (S.set i.toNat (BitVec.ofNat 8 (S.getD j.toNat 0).toNat)) j.toNat
    (by simpa using hj) (S.getD i.toNat 0).toNat
  rw [h2, bind_ok]
  simp [Spec.Rc4.swap, Spec.Rc4.at']

/-- relation between an object state and a specification state -/
structure Rel (S : Poly) (i j : Int) (sp : Spec.Rc4.St) : Prop where
  hS : S = ofBV sp.S
  hi : i = (sp.i.toNat : Int)
  hj : j = (sp.j.toNat : Int)
  hlen : sp.S.length = 256

theorem prgaStep_refines (sp : Spec.Rc4.St) (hlen : sp.S.length = 256) :
    Rc4.prgaStep (ofBV sp.S) (sp.i.toNat : Int) (sp.j.toNat : Int) =
      .ok (((Spec.Rc4.prgaStep sp).1.toNat : Int), ofBV (Spec.Rc4.prgaStep sp).2.S,
           ((Spec.Rc4.prgaStep sp).2.i.toNat : Int), ((Spec.Rc4.prgaStep sp).2.j.toNat : Int)) := by
  unfold Rc4.prgaStep
  dsimp only
  have e1 : ((sp.i.toNat : Int) + 1) % 256 = (((sp.i + 1).toNat : Nat) : Int) := by
    have h1 : (1 : Byte).toNat = 1 := rfl
    simp only [BitVec.toNat_add, h1]; omega
  rw [e1]
  have hi' : (sp.i + 1).toNat < sp.S.length := by rw [hlen]; exact (sp.i + 1).isLt
  rw [pyGet_ofBV _ _ hi', bind_ok]
  have e2 : ((sp.j.toNat : Int) + ((sp.S.getD (sp.i + 1).toNat 0).toNat : Int)) % 256
      = (((sp.j + Spec.Rc4.at' sp.S (sp.i + 1)).toNat : Nat) : Int) := by
    simp only [Spec.Rc4.at', BitVec.toNat_add]; omega
  rw [e2, swap_ofBV _ hlen, bind_ok]
  have hl2 := swap_length sp.S (sp.i + 1) (sp.j + Spec.Rc4.at' sp.S (sp.i + 1))
  rw [pyGet_ofBV _ _ (by rw [hl2, hlen]; exact (sp.i + 1).isLt), bind_ok,
    pyGet_ofBV _ _ (by rw [hl2, hlen]; exact (BitVec.isLt _)), bind_ok]
  have e3 : ∀ a b : Byte, ((a.toNat : Int) + (b.toNat : Int)) % 256 = (((a + b).toNat : Nat) : Int) := by
    intro a b; simp only [BitVec.toNat_add]; omega
  rw [e3, pyGet_ofBV _ _ (by rw [hl2, hlen]; exact (BitVec.isLt _)), bind_ok]
  rfl

theorem prgaStep_length (sp : Spec.Rc4.St) : (Spec.Rc4.prgaStep sp).2.S.length = sp.S.length := by
  simp [Spec.Rc4.prgaStep, swap_length]

theorem prga_S_length (n : Nat) (sp : Spec.Rc4.St) : (Spec.Rc4.prga n sp).2.S.length = sp.S.length := by
  induction n generalizing sp with
  | zero => rfl
  | succ n ih => simp only [Spec.Rc4.prga]; rw [ih, prgaStep_length]

theorem prga_ks_length (n : Nat) (sp : Spec.Rc4.St) : (Spec.Rc4.prga n sp).1.length = n := by
  induction n generalizing sp with
  | zero => rfl
  | succ n ih => simp only [Spec.Rc4.prga, List.length_cons, ih]

/-- the PRGA loop of `keystream(l)` -/
theorem prga_refines (n : Nat) (sp : Spec.Rc4.St) (hlen : sp.S.length = 256) :
    Rc4.prga n (ofBV sp.S) (sp.i.toNat : Int) (sp.j.toNat : Int) =
      .ok ((Spec.Rc4.prga n sp).1.map (fun b => (b.toNat : Int)), ofBV (Spec.Rc4.prga n sp).2.S,
           ((Spec.Rc4.prga n sp).2.i.toNat : Int), ((Spec.Rc4.prga n sp).2.j.toNat : Int)) := by
  induction n generalizing sp with
  | zero => rfl
  | succ n ih =>
    unfold Rc4.prga
    rw [prgaStep_refines sp hlen, bind_ok]
    simp only []
    rw [ih _ (by rw [prgaStep_length]; exact hlen), bind_ok]
    rfl


/-- an object whose fields represent the specification state `sp` -/
def stateOf (K : Poly) (sp : Spec.Rc4.St) : Rc4.State := ⟨K, ofBV sp.S, (sp.i.toNat : Int), (sp.j.toNat : Int)⟩

theorem ofList_bytes (ks : List Byte) : Poly.ofList (ks.map fun b => (b.toNat : Int)) 8 = ofBV ks := by
  unfold Poly.ofList ofBV
  simp only [↓reduceIte, List.map_map, Poly.mk.injEq, and_true]
  apply List.map_congr_left
  intro b _
  exact red_ofNat_toNat b

theorem and_ff (b : Byte) : b.toNat &&& 0xff = b.toNat := by
  have h : (0xff : Nat) = 2 ^ 8 - 1 := by decide
  rw [h, Nat.and_two_pow_sub_one_eq_mod]
  exact Nat.mod_eq_of_lt b.isLt

theorem pack_ofBV (c : List Byte) : (ofBV c).pack = .ok (c.map (·.toNat)) := by
  unfold Poly.pack Poly.split
  simp only [ofBV_size, ↓reduceIte, bind_ok, ofBV_ival, List.map_map, Bool.false_eq_true, pure, Except.pure]
  congr 1
  apply List.map_congr_left
  intro b _
  simp only [Function.comp, Int.toNat_natCast, Int.ofNat_eq_natCast]
  exact and_ff b

/-- `enc(m)` on an object representing `sp`: the specified ciphertext, and the object then represents the specified
    successor state -/
theorem enc_refines (K : Poly) (sp : Spec.Rc4.St) (hlen : sp.S.length = 256) (M : List Byte) :
    Rc4.enc (stateOf K sp) (M.map (·.toNat)) =
      .ok ((Spec.Rc4.enc sp M).1.map (·.toNat), stateOf K (Spec.Rc4.enc sp M).2) := by
  unfold Rc4.enc Rc4.keystream stateOf
  simp only [List.length_map]
  rw [prga_refines M.length sp hlen, bind_ok]
  simp only [bind_ok, pure, Except.pure]
  rw [ofList_bytes, ofBytes_ofBV, xor_ofBV (by decide) _ _ (by rw [prga_ks_length]), bind_ok, pack_ofBV, bind_ok]
  rfl

theorem enc_S_length (sp : Spec.Rc4.St) (M : List Byte) : (Spec.Rc4.enc sp M).2.S.length = sp.S.length := by
  simp only [Spec.Rc4.enc]; exact prga_S_length _ _

/-! ### continuity of the specification stream -/

theorem prga_add (n m : Nat) (sp : Spec.Rc4.St) :
    Spec.Rc4.prga (n + m) sp =
      ((Spec.Rc4.prga n sp).1 ++ (Spec.Rc4.prga m (Spec.Rc4.prga n sp).2).1, (Spec.Rc4.prga m (Spec.Rc4.prga n sp).2).2) := by
  induction n generalizing sp with
  | zero => simp [Spec.Rc4.prga]
  | succ n ih =>
    have : n + 1 + m = (n + m) + 1 := by omega
    rw [this]
    simp only [Spec.Rc4.prga, ih, List.cons_append]

/-- encrypting `M1 ++ M2` = encrypting `M1`, then `M2` from the carried state -/
theorem spec_enc_append (sp : Spec.Rc4.St) (M1 M2 : List Byte) :
    Spec.Rc4.enc sp (M1 ++ M2) =
      ((Spec.Rc4.enc sp M1).1 ++ (Spec.Rc4.enc (Spec.Rc4.enc sp M1).2 M2).1, (Spec.Rc4.enc (Spec.Rc4.enc sp M1).2 M2).2) := by
  simp only [Spec.Rc4.enc, List.length_append, prga_add]
  congr 1
  rw [List.zipWith_append (by rw [prga_ks_length])]

/-- the specification stream consumed piece by piece -/
def specSeq : Spec.Rc4.St → List (List Byte) → List (List Byte) × Spec.Rc4.St
  | sp, [] => ([], sp)
  | sp, m :: ms => ((Spec.Rc4.enc sp m).1 :: (specSeq (Spec.Rc4.enc sp m).2 ms).1, (specSeq (Spec.Rc4.enc sp m).2 ms).2)

theorem spec_enc_nil (sp : Spec.Rc4.St) : Spec.Rc4.enc sp [] = ([], sp) := rfl

/-- any split of a message: the pieces' ciphertexts concatenate to the one-shot ciphertext, and the final states agree -/
theorem specSeq_flatten (sp : Spec.Rc4.St) (Ms : List (List Byte)) :
    ((specSeq sp Ms).1.flatten, (specSeq sp Ms).2) = Spec.Rc4.enc sp Ms.flatten := by
  induction Ms generalizing sp with
  | nil => rfl
  | cons m ms ih =>
    simp only [specSeq, List.flatten_cons, spec_enc_append]
    have := ih (Spec.Rc4.enc sp m).2
    rw [← this]

/-- successive `enc` calls on one object follow the specification stream piece by piece -/
theorem encSeq_refines (K : Poly) (sp : Spec.Rc4.St) (hlen : sp.S.length = 256) (Ms : List (List Byte)) :
    Rc4.encSeq (stateOf K sp) (Ms.map (List.map (·.toNat))) =
      .ok ((specSeq sp Ms).1.map (List.map (·.toNat)), stateOf K (specSeq sp Ms).2) := by
  induction Ms generalizing sp with
  | nil => rfl
  | cons m ms ih =>
    simp only [List.map_cons, Rc4.encSeq]
    rw [enc_refines K sp hlen m, bind_ok]
    simp only []
    rw [ih _ (by rw [enc_S_length]; exact hlen), bind_ok]
    rfl


/-! ### key scheduling -/

theorem ksaStep_length (key : List Byte) (st : List Byte × Byte) (i : Nat) :
    (Spec.Rc4.ksaStep key st i).1.length = st.1.length := by
  simp [Spec.Rc4.ksaStep, swap_length]

theorem ksaStep_refines (key : List Byte) (hk : 0 < key.length) (S : List Byte) (hS : S.length = 256) (j : Byte)
    (i : Nat) (hi : i < 256) :
    Rc4.ksaStep (ofBV key) (ofBV S, (j.toNat : Int)) i =
      .ok (ofBV (Spec.Rc4.ksaStep key (S, j) i).1, ((Spec.Rc4.ksaStep key (S, j) i).2.toNat : Int)) := by
  unfold Rc4.ksaStep
  dsimp only
  rw [pyGet_ofBV S i (by omega), bind_ok]
  have hm : i % (ofBV key).dim < key.length := by rw [ofBV_dim]; exact Nat.mod_lt _ hk
  simp only [Int.ofNat_eq_natCast]
  rw [pyGet_ofBV key _ hm, bind_ok]
  have e : ((j.toNat : Int) + ((S.getD i 0).toNat : Int) + ((key.getD (i % (ofBV key).dim) 0).toNat : Int)) % 256
      = (((j + S.getD i 0 + key.getD (i % key.length) 0).toNat : Nat) : Int) := by
    simp only [ofBV_dim, BitVec.toNat_add]; omega
  rw [e]
  have ei : (i : Int) = (((BitVec.ofNat 8 i).toNat : Nat) : Int) := by
    simp only [BitVec.toNat_ofNat]; congr 1; omega
  rw [ei, swap_ofBV S hS, bind_ok]
  rfl

theorem ksaLoop_refines (key : List Byte) (hk : 0 < key.length) (is : List Nat) (his : ∀ i ∈ is, i < 256)
    (S : List Byte) (hS : S.length = 256) (j : Byte) :
    Rc4.ksaLoop (ofBV key) is (ofBV S, (j.toNat : Int)) =
      .ok (ofBV (is.foldl (Spec.Rc4.ksaStep key) (S, j)).1, (((is.foldl (Spec.Rc4.ksaStep key) (S, j)).2.toNat : Nat) : Int)) := by
  induction is generalizing S j with
  | nil => rfl
  | cons i rest ih =>
    simp only [Rc4.ksaLoop, List.foldl_cons]
    rw [ksaStep_refines key hk S hS j i (his i (by simp)), bind_ok]
    have := ih (fun k hk' => his k (by simp [hk'])) (Spec.Rc4.ksaStep key (S, j) i).1
      (by rw [ksaStep_length]; exact hS) (Spec.Rc4.ksaStep key (S, j) i).2
    exact this

theorem identity_poly : Poly.ofList ((List.range 256).map Int.ofNat) 8 = ofBV Spec.Rc4.identity := by
  unfold Poly.ofList ofBV Spec.Rc4.identity
  simp only [↓reduceIte, List.map_map, Poly.mk.injEq, and_true]
  apply List.map_congr_left
  intro n _
  simp only [Function.comp, Int.ofNat_eq_natCast]
  exact red_natCast (by decide) n

theorem foldl_ksa_length (key : List Byte) (is : List Nat) (st : List Byte × Byte) :
    (is.foldl (Spec.Rc4.ksaStep key) st).1.length = st.1.length := by
  induction is generalizing st with
  | nil => rfl
  | cons i rest ih => simp only [List.foldl_cons]; rw [ih, ksaStep_length]

theorem ksa_length (key : List Byte) : (Spec.Rc4.ksa key).length = 256 := by
  unfold Spec.Rc4.ksa
  rw [foldl_ksa_length]
  simp [Spec.Rc4.identity]

theorem start_length (key : List Byte) : (Spec.Rc4.start key).S.length = 256 := by
  simp only [Spec.Rc4.start, ksa_length]

/-- `RC4(K)`: the constructor's KSA yields the specified permutation, i = j = 0 -/
theorem init_refines (key : List Byte) (h0 : 0 < key.length) (h1 : key.length ≤ 256) :
    Rc4.init (key.map (·.toNat)) = .ok (stateOf (ofBV key) (Spec.Rc4.start key)) := by
  unfold Rc4.init
  rw [ofBytes_ofBV]
  have hd : (ofBV key).dim = key.length := ofBV_dim key
  have c0 : ¬ ((ofBV key).dim = 0) := by rw [hd]; omega
  have c1 : ¬ ((ofBV key).dim > 256) := by rw [hd]; omega
  simp only [c0, c1, ↓reduceIte, pure, Except.pure]
  rw [identity_poly]
  have := ksaLoop_refines key h0 (List.range 256) (by intro i hi; simpa using hi) Spec.Rc4.identity
    (by simp [Spec.Rc4.identity]) 0
  have h0' : (((0 : Byte).toNat : Nat) : Int) = 0 := rfl
  rw [h0'] at this
  rw [this, bind_ok]
  simp only [stateOf, Spec.Rc4.start, Spec.Rc4.ksa]
  congr 1

end Proofs.Lemmas.Rc4