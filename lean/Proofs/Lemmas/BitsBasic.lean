/-
  Helper lemmas about `Model.Bits` at the level of `Nat.testBit` (used by Proofs.C07 and Proofs.C08).
-/
import Model.Bits
namespace Proofs.Lemmas.Bits
open Model Model.Bits Model.Py

/-! ### Nat facts -/

theorem testBit_of_lt {x n i : Nat} (h : x < 2 ^ n) (hi : n ≤ i) : x.testBit i = false :=
  Nat.testBit_lt_two_pow (Nat.lt_of_lt_of_le h (Nat.pow_le_pow_right (by omega) hi))

theorem shr_and_one (x i : Nat) : (x >>> i) &&& 1 = (x.testBit i).toNat := by
  rw [Nat.and_one_is_mod, Nat.shiftRight_eq_div_pow, Nat.toNat_testBit]

theorem toNat_testBit_zero (b : Bool) (i : Nat) : (b.toNat).testBit i = (decide (i = 0) && b) := by
  cases b <;> cases i <;> simp [Nat.testBit_succ]

theorem lt_two_pow_of_testBit_false {x n : Nat} (h : ∀ i, n ≤ i → x.testBit i = false) : x < 2 ^ n :=
  Nat.lt_pow_two_of_testBit x h

theorem two_pow_pred_lt (n : Nat) : 2 ^ n - 1 < 2 ^ n := Nat.sub_lt (Nat.two_pow_pos n) Nat.one_pos

theorem bitLength_lt (v : Nat) : v < 2 ^ bitLength v := by
  unfold bitLength
  split
  · subst_vars; simp
  · exact Nat.lt_log2_self

theorem bitLength_le (v : Nat) (h : v ≠ 0) : 2 ^ (bitLength v - 1) ≤ v := by
  unfold bitLength
  simp only [h, ↓reduceIte, Nat.add_sub_cancel]
  exact Nat.log2_self_le h

theorem bitLength_zero : bitLength 0 = 0 := by simp [bitLength]

/-- `bitLength` is the least width that holds the value -/
theorem bitLength_le_of_lt {v n : Nat} (h : v < 2 ^ n) : bitLength v ≤ n := by
  unfold bitLength
  split
  · omega
  · rename_i hv
    have := (Nat.log2_lt hv).2 h
    omega

/-! ### WF -/

theorem wf_iff (b : Bits) : b.WF ↔ b.ival < 2 ^ b.size := Iff.rfl

theorem wf_testBit {b : Bits} (h : b.WF) {i : Nat} (hi : b.size ≤ i) : b.ival.testBit i = false :=
  testBit_of_lt h hi

theorem mod_of_wf {b : Bits} (h : b.WF) : b.ival % 2 ^ b.size = b.ival := Nat.mod_eq_of_lt h

theorem and_mask (x : Nat) (b : Bits) : x &&& b.mask = x % 2 ^ b.size := by
  unfold mask; exact Nat.and_two_pow_sub_one_eq_mod x b.size

theorem ofNatSz_wf (v n : Nat) : (ofNatSz v n).WF := Nat.mod_lt _ (Nat.two_pow_pos n)
theorem ofNat_wf (v : Nat) : (ofNat v).WF := bitLength_lt v
theorem setSize_wf (b : Bits) (n : Nat) : (b.setSize n).WF := Nat.mod_lt _ (Nat.two_pow_pos n)

theorem ofInt_wf (v : Int) (sz : Option Nat) : (ofInt v sz).WF := by
  cases sz <;> simp only [ofInt]
  · exact ofNat_wf _
  · exact ofNatSz_wf _ _

@[simp] theorem ofNatSz_size (v n : Nat) : (ofNatSz v n).size = n := rfl
@[simp] theorem ofNatSz_ival (v n : Nat) : (ofNatSz v n).ival = v % 2 ^ n := rfl
@[simp] theorem setSize_size (b : Bits) (n : Nat) : (b.setSize n).size = n := rfl
@[simp] theorem setSize_ival (b : Bits) (n : Nat) : (b.setSize n).ival = b.ival % 2 ^ n := rfl

theorem wsize_eq_max (a o : Bits) : wsize a o = max a.size o.size := by
  unfold wsize; split <;> omega

theorem eq_of_size_ival {a b : Bits} (hs : a.size = b.size) (hv : a.ival = b.ival) : a = b := by
  cases a; cases b; simp_all

/-- two well-formed vectors of the same size with the same bits below the size are equal -/
theorem ext_of_wf {a b : Bits} (ha : a.WF) (hb : b.WF) (hs : a.size = b.size)
    (h : ∀ i, i < a.size → a.ival.testBit i = b.ival.testBit i) : a = b := by
  apply eq_of_size_ival hs
  apply Nat.eq_of_testBit_eq
  intro i
  by_cases hi : i < a.size
  · exact h i hi
  · rw [wf_testBit ha (by omega), wf_testBit hb (by omega)]

end Proofs.Lemmas.Bits
