/- block parsing: the model's `struct.unpack('>16L'|'>16Q')` / `Bits(B,bitorder=1).split(32)` equal the standards' words -/
import Proofs.Lemmas.BitsBitVec
import Proofs.Lemmas.Fold
import Model.Sha
import Model.Md
import Spec.Hash
namespace Proofs.Lemmas.Parse
open Model Model.Py Proofs.Lemmas.BitsBitVec Proofs.Lemmas.Fold

/-- bytes of the specifications as the byte values the model works on -/
def toNatBytes (b : List Spec.Byte) : List Nat := b.map (·.toNat)

@[simp] theorem toNatBytes_length (b : List Spec.Byte) : (toNatBytes b).length = b.length := by simp [toNatBytes]

theorem toNatBytes_lt (b : List Spec.Byte) : ∀ x ∈ toNatBytes b, x < 256 := by
  intro x hx
  simp only [toNatBytes, List.mem_map] at hx
  obtain ⟨y, _, rfl⟩ := hx
  exact y.isLt

theorem beInt_aux (g : List Spec.Byte) (acc : Nat) :
    (toNatBytes g).foldl (fun acc b => acc * 256 + b) acc = g.foldl (fun acc b => 256 * acc + b.toNat) acc := by
  induction g generalizing acc with
  | nil => rfl
  | cons x xs ih => simp only [toNatBytes, List.map_cons, List.foldl_cons] at ih ⊢; rw [ih, Nat.mul_comm]

theorem beInt_toNatBytes (g : List Spec.Byte) : beInt (toNatBytes g) = Spec.beVal g := beInt_aux g 0

theorem leInt_toNatBytes (g : List Spec.Byte) : leInt (toNatBytes g) = Spec.leVal g := by
  induction g with
  | nil => rfl
  | cons x xs ih => simp only [toNatBytes, List.map_cons, leInt, Spec.leVal] at ih ⊢; rw [ih]

/-- `struct.unpack('>16L',B)` / `'>16Q'` + `Bits(w,wsize)` = sixteen big-endian words -/
theorem parseBE_refines (w : Nat) (hw : 8 ≤ w) (blk : List Spec.Byte) (h : blk.length = 16 * (w / 8)) :
    Sha.parseBE w (toNatBytes blk) = .ok ((Spec.wordsBE w blk).map ofBV) := by
  have hpos : 0 < w / 8 := Nat.div_pos hw (by decide)
  have hg : 16 * (w / 8) / (w / 8) = 16 := Nat.mul_div_cancel _ hpos
  simp only [Sha.parseBE, toNatBytes_length, h, ne_eq, not_true_eq_false, if_false, Spec.wordsBE, Spec.groups, hg,
    List.map_map]
  congr 1
  apply List.map_congr_left
  intro i _
  simp only [Function.comp, toNatBytes, drop_take_map]
  rw [← toNatBytes, beInt_toNatBytes, ofNatSz_eq]

theorem wordsBE_length (w : Nat) (blk : List Spec.Byte) : (Spec.wordsBE w blk).length = blk.length / (w / 8) := by
  simp [Spec.wordsBE, Spec.groups]

end Proofs.Lemmas.Parse
