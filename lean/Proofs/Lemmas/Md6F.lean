/-
  Lemmas for C17: the word-level bridge `Bits` (size 64) ↔ `BitVec 64`, and the simulation of the model's
  compression loop by the specification's.
-/
import Model.Md6
import Spec.Md6
namespace Proofs.Lemmas.Md6F
open Model Model.Md6

/-- a specification word as the `Bits` value the code holds -/
def W (x : BitVec 64) : Bits := ⟨x.toNat, 64⟩

theorem ofNatSz_eq_W (v : Nat) : Bits.ofNatSz v 64 = W (BitVec.ofNat 64 v) := by
  simp [Bits.ofNatSz, W]

theorem W_xor (x y : BitVec 64) : (W x).xor (W y) = W (x ^^^ y) := by
  simp [W, Bits.xor, Bits.wsize]

theorem W_and (x y : BitVec 64) : (W x).and (W y) = W (x &&& y) := by
  simp [W, Bits.and, Bits.wsize]

theorem W_shr (x : BitVec 64) (k : Nat) : (W x).shr k = W (x >>> k) := by
  simp only [W, Bits.shr, Bits.mask, BitVec.toNat_ushiftRight, Bits.mk.injEq, and_true]
  rw [Nat.and_two_pow_sub_one_eq_mod]
  apply Nat.mod_eq_of_lt
  exact Nat.lt_of_le_of_lt (Nat.shiftRight_le _ _) x.isLt

theorem W_shl (x : BitVec 64) (k : Nat) : (W x).shl k = W (x <<< k) := by
  simp only [W, Bits.shl, Bits.mask, BitVec.toNat_shiftLeft, Bits.mk.injEq, and_true]
  rw [Nat.and_two_pow_sub_one_eq_mod]

theorem W_or (x y : BitVec 64) : (W x).or (W y) = W (x ||| y) := by
  simp [W, Bits.or, Bits.wsize]
theorem W_nextS (s : BitVec 64) :
    ((W s).rol! Gen.Md6.Srot).xor ((W s).and (Bits.ofNat Gen.Md6.Smask)) = W (Spec.Md6.nextS s) := by
  have h : Bits.ofNat Gen.Md6.Smask = ⟨Spec.Md6.Sstar.toNat, 63⟩ := by decide
  have h2 : (W s).and ⟨Spec.Md6.Sstar.toNat, 63⟩ = W (s &&& Spec.Md6.Sstar) := by
    simp [W, Bits.and, Bits.wsize]
  rw [h, h2]
  unfold Bits.rol!
  rw [W_shl, show (W s).size = 64 from rfl, W_shr, W_or, W_xor]
  simp [Spec.Md6.nextS, BitVec.rotateLeft_def, Gen.Md6.Srot]

theorem W_ival_mod (x : BitVec 64) : (W x).ival % 2 ^ 64 = x.toNat := by
  simp [W]; exact x.isLt

structure FInv (t s : Nat) (st : FState) (sp : Array Spec.Md6.Word × Spec.Md6.Word) : Prop where
  msize : st.A.size = 89 + t
  ssize : sp.1.size = 89 + s
  hS : st.S = W sp.2
  hj : st.j = s % 16
  hA : ∀ k, k < 89 + s → st.A.getD k 0 % 2 ^ 64 = (sp.1.getD k 0).toNat
  hlt : ∀ k, 89 ≤ k → st.A.getD k 0 < 2 ^ 64

theorem e_eq {t s : Nat} {st : FState} {sp} (h : FInv t s st sp) (k : Nat) (hk : k < 89 + s) :
    e st.A k = W (sp.1.getD k 0) := by
  unfold e
  rw [ofNatSz_eq_W]
  congr 1
  apply BitVec.eq_of_toNat_eq
  rw [BitVec.toNat_ofNat, h.hA k hk]

theorem rin_eq : Gen.Md6.rin = Spec.Md6.rshift := by decide
theorem lin_eq : Gen.Md6.lin = Spec.Md6.lshift := by decide

theorem fVal_eq {t s : Nat} {st : FState} {sp} (h : FInv t s st sp) :
    fVal 89 st.A st.S st.j (89 + s) = W (Spec.Md6.stepVal sp.2 s sp.1) := by
  have e0 := e_eq h (89 + s - 89) (by omega)
  have e1 := e_eq h (89 + s - 17) (by omega)
  have e2 := e_eq h (89 + s - 18) (by omega)
  have e3 := e_eq h (89 + s - 21) (by omega)
  have e4 := e_eq h (89 + s - 31) (by omega)
  have e5 := e_eq h (89 + s - 67) (by omega)
  have hr : Gen.Md6.rin.getD st.j 0 = Spec.Md6.rshift.getD (s % 16) 0 := by rw [rin_eq, h.hj]
  have hl : Gen.Md6.lin.getD st.j 0 = Spec.Md6.lshift.getD (s % 16) 0 := by rw [lin_eq, h.hj]
  simp only [fVal, Spec.Md6.stepVal, e0, e1, e2, e3, e4, e5, h.hS, W_xor, W_and, W_shr, W_shl, hr, hl, h.ssize,
    Spec.Md6.n, Spec.Md6.t0, Spec.Md6.t1, Spec.Md6.t2, Spec.Md6.t3, Spec.Md6.t4,
    Gen.Md6.t0, Gen.Md6.t1, Gen.Md6.t2, Gen.Md6.t3, Gen.Md6.t4]

theorem step_inv {t s : Nat} {st : FState} {sp} (h : FInv t s st sp) (hs : s < t) :
    FInv t (s + 1) (fStep 89 st (89 + s)) (Spec.Md6.step sp s) := by
  have hv := fVal_eq h
  obtain ⟨A, S, j⟩ := st
  obtain ⟨B, T⟩ := sp
  have hS : S = W T := h.hS
  have hj : j = s % 16 := h.hj
  have hB : B.size = 89 + s := h.ssize
  have hAsz : A.size = 89 + t := h.msize
  simp only at hv
  subst hS
  simp only [fStep, Spec.Md6.step, hv, W_ival_mod, W_nextS]
  have hjw : (j + 1 = Gen.Md6.jWrap) ↔ s % 16 = 15 := by simp [Gen.Md6.jWrap]; omega
  have key : ∀ (S' : Bits) (T' : Spec.Md6.Word) (j' : Nat), S' = W T' → j' = (s + 1) % 16 →
      FInv t (s + 1) ⟨A.setIfInBounds (89 + s) (Spec.Md6.stepVal T s B).toNat, S', j'⟩
        (B.push (Spec.Md6.stepVal T s B), T') := by
    intro S' T' j' h1 h2
    refine ⟨by simp [hAsz], by simp [hB]; omega, h1, h2, ?_, ?_⟩
    · intro k hk
      simp only [Array.getD_eq_getD_getElem?, Array.getElem?_setIfInBounds, Array.getElem?_push, hB, hAsz]
      by_cases hk2 : k = 89 + s
      · subst hk2
        simp [hs, Nat.mod_eq_of_lt (BitVec.isLt _)]
      · have := h.hA k (by omega)
        simp only [Array.getD_eq_getD_getElem?] at this
        simp [hk2, Ne.symm hk2, this]
    · intro k hk
      simp only [Array.getD_eq_getD_getElem?, Array.getElem?_setIfInBounds, hAsz]
      by_cases hk2 : 89 + s = k
      · simp [hk2]; split
        · exact BitVec.isLt _
        · simp
      · have := h.hlt k hk
        simp only [Array.getD_eq_getD_getElem?] at this
        simp [hk2, this]
  by_cases hw : s % 16 = 15
  · rw [if_pos (hjw.2 hw), if_pos hw]; refine key _ _ _ rfl ?_; omega
  · rw [if_neg (fun h' => hw (hjw.1 h')), if_neg hw]; refine key _ _ _ rfl ?_; omega

theorem foldl_range_sim {α β : Type} (R : Nat → α → β → Prop) (f : α → Nat → α) (g : β → Nat → β) (t : Nat)
    (a : α) (b : β) (h0 : R 0 a b)
    (hstep : ∀ s a b, s < t → R s a b → R (s + 1) (f a s) (g b s)) :
    R t ((List.range t).foldl f a) ((List.range t).foldl g b) := by
  induction t with
  | zero => simpa using h0
  | succ t ih =>
    rw [List.range_succ, List.foldl_append, List.foldl_append]
    simp only [List.foldl_cons, List.foldl_nil]
    apply hstep _ _ _ (Nat.lt_succ_self t)
    exact ih (fun s a b hs h => hstep s a b (Nat.lt_succ_of_lt hs) h)

theorem S0_eq : Bits.ofNatSz Gen.Md6.S0 64 = W Spec.Md6.S0 := by decide

theorem init_inv (t : Nat) (ht : t ≠ 0) (N : List Nat) (hN : N.length = 89) :
    FInv t 0 ⟨(N ++ (if t = 0 then [0] else List.replicate t 0)).toArray, Bits.ofNatSz Gen.Md6.S0 64, 0⟩
      ((N.map (BitVec.ofNat 64)).toArray, Spec.Md6.S0) := by
  refine ⟨by simp [ht, hN], by simp [hN], S0_eq, rfl, ?_, ?_⟩
  · intro k hk
    simp only [if_neg ht, Array.getD_eq_getD_getElem?, List.getElem?_toArray]
    have hk' : k < N.length := by omega
    simp [List.getElem?_append_left hk', List.getElem?_eq_getElem hk']
  · intro k hk
    simp only [if_neg ht, Array.getD_eq_getD_getElem?, List.getElem?_toArray]
    have hk' : N.length ≤ k := by omega
    rw [List.getElem?_append_right hk']
    by_cases h : k - N.length < t
    · simp [h]
    · simp [h]

theorem f_refines' (r : Nat) (hr : 1 ≤ r) (N : List Nat) (hN : N.length = 89) :
    Model.Md6.f r N = (Spec.Md6.compress r (N.map (BitVec.ofNat 64))).map (·.toNat) := by
  have ht : Gen.Md6.stepsPerRound * r = 16 * r := rfl
  have ht0 : 16 * r ≠ 0 := by omega
  unfold Model.Md6.f Spec.Md6.compress
  simp only [ht, hN]
  have hfin := foldl_range_sim (FInv (16 * r)) (fun st s => fStep 89 st (89 + s)) Spec.Md6.step (16 * r) _ _
    (init_inv (16 * r) ht0 N hN) (fun s a b hs h => step_inv h hs)
  generalize (List.range (16 * r)).foldl (fun st s => fStep 89 st (89 + s)) _ = st at hfin ⊢
  generalize (List.range (16 * r)).foldl Spec.Md6.step _ = sp at hfin ⊢
  simp only [hfin.msize, hfin.ssize, Gen.Md6.cWords, Spec.Md6.c]
  apply List.ext_getElem
  · simp [hfin.msize, hfin.ssize]
  · intro i h1 h2
    simp only [List.getElem_drop, List.getElem_map, Array.getElem_toList]
    have hk : 89 + 16 * r - 16 + i < 89 + 16 * r := by
      simp [hfin.msize] at h1; omega
    have a1 := hfin.hA _ hk
    have a2 := hfin.hlt (89 + 16 * r - 16 + i) (by omega)
    rw [Nat.mod_eq_of_lt a2] at a1
    simp only [Array.getD_eq_getD_getElem?] at a1
    rw [Array.getElem?_eq_getElem (by rw [hfin.msize]; exact hk), Array.getElem?_eq_getElem (by rw [hfin.ssize]; exact hk)] at a1
    simpa using a1

end Proofs.Lemmas.Md6F
