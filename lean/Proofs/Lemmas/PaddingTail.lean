/-
  Helper lemmas for C09: what `lastblock` returns, per scheme, as a bit string (the "tail contract").
-/
import Proofs.Lemmas.PaddingBits
namespace Proofs.Lemmas.Padding
open Model Model.Py Model.Padder Spec.Padding

/-- configurations the property quantifies over (and the code supports): whole bytes, non-empty blocks; a pad
    length that fits a byte for PKCS#7 / X9.23; for MD/SHA strengthening a length field of whole bytes that fits,
    with the 1 bit, into one block (B < 2w+1 is the known finding C09-md-small-block); BLAKE's own block size -/
structure Valid (p : Padder) : Prop where
  mul8 : p.blocksize % 8 = 0
  pos : 0 < p.blocksize
  scheme_ok : match p.scheme with
    | .pkcs7 | .x923 => p.blocklen < 256
    | .md w | .sha w => w % 4 = 0 ∧ 2 * w + 1 ≤ p.blocksize
    | .blake h => p.blocksize = (if h > 256 then 1024 else 512)
    | _ => True

def BitGranular : Model.Scheme → Prop
  | .no | .pkcs7 | .x923 => False
  | _ => True

theorem Valid.size_eq {p : Padder} (hv : Valid p) : p.blocksize = 8 * p.blocklen := by
  have := hv.mul8; unfold Padder.blocklen; omega

theorem Valid.blocklen_pos {p : Padder} (hv : Valid p) : 0 < p.blocklen := by
  have := hv.mul8; have := hv.pos; unfold Padder.blocklen; omega

/-- zero run of the MD/SHA/BLAKE tail after r message bits (e = 1 or 2 fixed bits, cs = length field) -/
def mdN (B e cs r : Nat) : Nat := if r + e + cs ≤ B then B - (r + e + cs) else 2 * B - (r + e + cs)

/-- number of pad bytes of PKCS#7 / X9.23 after a last piece of j bytes -/
def padQ (bl j : Nat) : Nat := if bl - j = 0 then bl else bl - j

/-- the pad bits `lastblock` appends after r message bits of the last piece when `base` bits were counted before -/
def modelTail (p : Padder) (base r : Nat) : List Bool :=
  match p.scheme with
  | .no => []
  | .null => zeros (p.blocksize - r)
  | .bit => true :: zeros ((if p.blocksize - r = 0 then p.blocksize else p.blocksize - r) - 1)
  | .pkcs7 => bytesToBits (List.replicate (padQ p.blocklen (r / 8)) (padQ p.blocklen (r / 8)))
  | .x923 => bytesToBits (List.replicate (padQ p.blocklen (r / 8) - 1) 0 ++ [padQ p.blocklen (r / 8)])
  | .md w => true :: zeros (mdN p.blocksize 1 (2 * w) r) ++ lenLE (2 * w) (base + r)
  | .sha w => true :: zeros (mdN p.blocksize 1 (2 * w) r) ++ lenBE (2 * w) (base + r)
  | .blake h => true :: zeros (mdN p.blocksize 2 (2 * Padder.blakeW h) r) ++ [decide (h = 256 ∨ h = 512)]
      ++ lenBE (2 * Padder.blakeW h) (base + r)

/-- `padcnt` after `lastblock` -/
def tailPadcnt (p : Padder) (old r : Nat) : Nat :=
  match p.scheme with
  | .null | .bit | .pkcs7 | .x923 => (modelTail p 0 r).length
  | _ => old

theorem lastblock_no (p : Padder) (hs : p.scheme = .no) (st : PadState) (pi : List Nat) (hpi : Bytes pi) (kw : Option Nat) :
    p.lastblock st pi kw = .ok (bitsToBytes ((bytesToBits pi).take (8 * pi.length) ++ modelTail p st.bitcnt (8 * pi.length)),
      { padflag := true, bitcnt := st.bitcnt + 8 * pi.length, padcnt := tailPadcnt p st.padcnt (8 * pi.length) }) := by
  have h1 : (bytesToBits pi).take (8 * pi.length) = bytesToBits pi := List.take_of_length_le (by simp)
  simp [Padder.lastblock, hs, modelTail, tailPadcnt, h1, bitsToBytes_bytesToBits pi hpi]

theorem lastblock_pkcs7 (p : Padder) (hv : Valid p) (hs : p.scheme = .pkcs7) (st : PadState) (pi : List Nat)
    (hpi : Bytes pi) (hlen : pi.length ≤ p.blocklen) (kw : Option Nat) :
    p.lastblock st pi kw = .ok (bitsToBytes ((bytesToBits pi).take (8 * pi.length) ++ modelTail p st.bitcnt (8 * pi.length)),
      { padflag := true, bitcnt := st.bitcnt + 8 * pi.length, padcnt := tailPadcnt p st.padcnt (8 * pi.length) }) := by
  have h1 : (bytesToBits pi).take (8 * pi.length) = bytesToBits pi := List.take_of_length_le (by simp)
  have hq : padQ p.blocklen pi.length < 256 := by
    have := hv.scheme_ok; rw [hs] at this; simp only at this
    unfold padQ; split <;> omega
  have hb : Bytes (List.replicate (padQ p.blocklen pi.length) (padQ p.blocklen pi.length)) := by
    intro x hx; rw [List.mem_replicate] at hx; omega
  have e8 : 8 * pi.length / 8 = pi.length := by omega
  simp only [Padder.lastblock, hs, modelTail, tailPadcnt, h1, e8, bytesToBits_length, List.length_replicate]
  rw [bitsToBytes_bytesToBits_append pi hpi, bitsToBytes_bytesToBits _ hb]
  have : ¬ padQ p.blocklen pi.length ≥ 256 := by omega
  simp only [padQ] at this ⊢
  simp [this]

theorem lastblock_x923 (p : Padder) (hv : Valid p) (hs : p.scheme = .x923) (st : PadState) (pi : List Nat)
    (hpi : Bytes pi) (hlen : pi.length ≤ p.blocklen) (kw : Option Nat) :
    p.lastblock st pi kw = .ok (bitsToBytes ((bytesToBits pi).take (8 * pi.length) ++ modelTail p st.bitcnt (8 * pi.length)),
      { padflag := true, bitcnt := st.bitcnt + 8 * pi.length, padcnt := tailPadcnt p st.padcnt (8 * pi.length) }) := by
  have h1 : (bytesToBits pi).take (8 * pi.length) = bytesToBits pi := List.take_of_length_le (by simp)
  have hbl : p.blocklen < 256 := by have := hv.scheme_ok; rw [hs] at this; exact this
  have hpos := hv.blocklen_pos
  have hq : padQ p.blocklen pi.length < 256 ∧ 0 < padQ p.blocklen pi.length := by
    unfold padQ; split <;> omega
  have hb : Bytes (List.replicate (padQ p.blocklen pi.length - 1) 0 ++ [padQ p.blocklen pi.length]) := by
    intro x hx; rw [List.mem_append, List.mem_replicate, List.mem_singleton] at hx; omega
  have e8 : 8 * pi.length / 8 = pi.length := by omega
  simp only [Padder.lastblock, hs, modelTail, tailPadcnt, h1, e8, bytesToBits_length, List.length_replicate,
    List.length_append, List.length_singleton]
  rw [bitsToBytes_bytesToBits_append pi hpi, bitsToBytes_bytesToBits _ hb]
  have : ¬ p.blocklen ≥ 256 := by omega
  simp only [padQ] at hq ⊢
  simp only [this, if_false, List.append_assoc]
  congr 3
  omega

/-- the keyword argument `lastblock` sees: absent (then the piece is used whole) or the absolute bit length -/
def KwOK (st : PadState) (pi : List Nat) (kw : Option Nat) (r : Nat) : Prop :=
  (kw = none ∧ r = 8 * pi.length) ∨ kw = some (st.bitcnt + r)

theorem lastblock_null (p : Padder) (hv : Valid p) (hs : p.scheme = .null) (st : PadState) (pi : List Nat)
    (hpi : Bytes pi) (hlen : pi.length ≤ p.blocklen) (kw : Option Nat) (r : Nat) (hr : r ≤ 8 * pi.length)
    (hkw : KwOK st pi kw r) :
    p.lastblock st pi kw = .ok (bitsToBytes ((bytesToBits pi).take r ++ modelTail p st.bitcnt r),
      { padflag := true, bitcnt := st.bitcnt + r, padcnt := tailPadcnt p st.padcnt r }) := by
  have hB := hv.size_eq
  have hrB : ¬ r > p.blocksize := by omega
  have hlt : ¬ st.bitcnt + r < st.bitcnt := by omega
  have hloc : p.lastblock st pi kw = (
      if r > p.blocksize then .error "ValueError:negative size" else
      let q := p.blocksize - r
      let b := ((Padder.bitsOfBytes pi r).concat (Bits.ofNatSz 0 q)).toBytes
      if b.length ≠ p.blocklen then .error "AssertionError" else
      .ok (b, { padflag := true, bitcnt := st.bitcnt + r, padcnt := q })) := by
    rcases hkw with ⟨rfl, rfl⟩ | rfl <;> simp [Padder.lastblock, hs, hlt]
  simp only [hloc, hrB, if_false]
  have hbytes : ((Padder.bitsOfBytes pi r).concat (Bits.ofNatSz 0 (p.blocksize - r))).toBytes
      = bitsToBytes ((bytesToBits pi).take r ++ zeros (p.blocksize - r)) := by
    rw [toBytes_eq, bools_concat _ _ (bitsOfBytes_WF _ _), bools_bitsOfBytes pi hpi r hr, bools_ofNatSz_zero]
  have hl : ¬ (bitsToBytes ((bytesToBits pi).take r ++ zeros (p.blocksize - r))).length ≠ p.blocklen := by
    rw [bitsToBytes_length, List.length_append, List.length_take, bytesToBits_length]
    simp only [zeros, List.length_replicate]; omega
  simp only [hbytes, if_neg hl]
  simp only [modelTail, tailPadcnt, hs, zeros, List.length_replicate]

theorem lastblock_bit (p : Padder) (hv : Valid p) (hs : p.scheme = .bit) (st : PadState) (pi : List Nat)
    (hpi : Bytes pi) (hlen : pi.length ≤ p.blocklen) (kw : Option Nat) (r : Nat) (hr : r ≤ 8 * pi.length)
    (hkw : KwOK st pi kw r) :
    p.lastblock st pi kw = .ok (bitsToBytes ((bytesToBits pi).take r ++ modelTail p st.bitcnt r),
      { padflag := true, bitcnt := st.bitcnt + r, padcnt := tailPadcnt p st.padcnt r }) := by
  have hB := hv.size_eq
  have hpos := hv.pos
  have hrB : ¬ r > p.blocksize := by omega
  have hlt : ¬ st.bitcnt + r < st.bitcnt := by omega
  have hloc : p.lastblock st pi kw = (
      if r > p.blocksize then .error "ValueError:negative size" else
      let q := if p.blocksize - r = 0 then p.blocksize else p.blocksize - r
      let b := ((Padder.bitsOfBytes pi r).concat (Bits.ofNatSz 1 q)).toBytes
      .ok (b, { padflag := true, bitcnt := st.bitcnt + r, padcnt := q })) := by
    rcases hkw with ⟨rfl, rfl⟩ | rfl <;> simp [Padder.lastblock, hs, hlt]
  simp only [hloc, hrB, if_false]
  generalize hq : (if p.blocksize - r = 0 then p.blocksize else p.blocksize - r) = q
  have hqpos : 0 < q := by rw [← hq]; split <;> omega
  obtain ⟨q', rfl⟩ : ∃ q', q = q' + 1 := ⟨q - 1, by omega⟩
  have hbytes : ((Padder.bitsOfBytes pi r).concat (Bits.ofNatSz 1 (q' + 1))).toBytes
      = bitsToBytes ((bytesToBits pi).take r ++ true :: zeros q') := by
    rw [toBytes_eq, bools_concat _ _ (bitsOfBytes_WF _ _), bools_bitsOfBytes pi hpi r hr, bools_ofNatSz_one]
  rw [hbytes]
  simp [modelTail, tailPadcnt, hs, hq, zeros]

def flagBits : Option Nat → List Bool
  | none => []
  | some v => [v.testBit 0]

theorem mdN_total (B e cs r : Nat) (h1 : e + cs ≤ B) (h2 : r ≤ B) :
    r + e + mdN B e cs r + cs = B ∨ r + e + mdN B e cs r + cs = 2 * B := by
  unfold mdN; split <;> omega

theorem toBytes_append_pack (pad : Model.Bits) (bits : List Bool) (hp : bools pad = bits) (hal : bits.length % 8 = 0)
    (v c : Nat) (be : Bool) :
    pad.toBytes ++ (Bits.ofNatSz v (8 * c)).pack be =
      bitsToBytes (bits ++ (if be then lenBE (8 * c) v else lenLE (8 * c) v)) := by
  rw [toBytes_eq, hp]
  cases be with
  | false => rw [pack_le]; simp only [Bool.false_eq_true, if_false]; rw [← bitsToBytes_append _ _ hal]
  | true => rw [pack_be]; simp only [if_true]; rw [← bitsToBytes_append _ _ hal]

/-- the shared MD / SHA / BLAKE tail as a bit string -/
theorem mdLike_ok (p : Padder) (st : PadState) (pi : List Nat) (hpi : Bytes pi)
    (kw : Option Nat) (r : Nat) (hr : r ≤ 8 * pi.length) (hrB : r ≤ p.blocksize) (hkw : KwOK st pi kw r)
    (c : Nat) (flag : Option Nat) (be : Bool) (hB8 : p.blocksize % 8 = 0)
    (hfit : 1 + (flagBits flag).length + 8 * c ≤ p.blocksize) :
    Padder.mdLike p st pi kw (4 * c) (1 + (flagBits flag).length) flag be =
      .ok (bitsToBytes ((bytesToBits pi).take r ++ true :: zeros (mdN p.blocksize (1 + (flagBits flag).length) (8 * c) r)
              ++ flagBits flag ++ (if be then lenBE (8 * c) (st.bitcnt + r) else lenLE (8 * c) (st.bitcnt + r))),
           { st with padflag := true, bitcnt := st.bitcnt + r }) := by
  have hcs : 4 * c * 2 = 8 * c := by omega
  have hgt : ¬ st.bitcnt > st.bitcnt + r := by omega
  have hsub : st.bitcnt + r - st.bitcnt = r := by omega
  -- the zero run, computed over the integers by the code
  have hN : ∀ e : Nat, e + 8 * c ≤ p.blocksize →
      let n0 : Int := (p.blocksize : Int) - e - (8 * c : Nat) - r
      let n1 : Int := if n0 < 0 then n0 + p.blocksize else n0
      ¬ n1 < 0 ∧ n1.toNat = mdN p.blocksize e (8 * c) r := by
    intro e he
    simp only [mdN]
    split <;> split <;> omega
  obtain ⟨hn1, hn2⟩ := hN (1 + (flagBits flag).length) hfit
  have ht := mdN_total p.blocksize (1 + (flagBits flag).length) (8 * c) r hfit hrB
  have h0 : bools (((Padder.bitsOfBytes pi r).concat (Bits.ofNatSz 1 1)).concat
        (Bits.ofNatSz 0 (mdN p.blocksize (1 + (flagBits flag).length) (8 * c) r)))
      = (bytesToBits pi).take r ++ true :: zeros (mdN p.blocksize (1 + (flagBits flag).length) (8 * c) r) := by
    rw [bools_concat _ _ (concat_WF _ _), bools_concat _ _ (bitsOfBytes_WF _ _), bools_bitsOfBytes pi hpi r hr,
      bools_ofNatSz_zero, bools_ofNatSz_one 0]
    simp [zeros]
  cases flag with
  | none =>
    have hloc : Padder.mdLike p st pi kw (4 * c) (1 + (flagBits none).length) none be =
        .ok ((((Padder.bitsOfBytes pi r).concat (Bits.ofNatSz 1 1)).concat
                  (Bits.ofNatSz 0 (mdN p.blocksize (1 + (flagBits none).length) (8 * c) r))).toBytes
              ++ (Bits.ofNatSz (st.bitcnt + r) (8 * c)).pack be,
            { st with padflag := true, bitcnt := st.bitcnt + r }) := by
      rcases hkw with ⟨rfl, rfl⟩ | rfl <;>
        simp only [Padder.mdLike, hcs, hgt, hsub, if_false, hn1, hn2]
    rw [hloc, toBytes_append_pack _ _ h0]
    · simp only [flagBits, List.append_nil]
    · simp only [List.length_append, List.length_take, bytesToBits_length, List.length_cons, zeros,
        List.length_replicate, flagBits, List.length_nil] at ht ⊢
      omega
  | some v =>
    have hloc : Padder.mdLike p st pi kw (4 * c) (1 + (flagBits (some v)).length) (some v) be =
        .ok (((((Padder.bitsOfBytes pi r).concat (Bits.ofNatSz 1 1)).concat
                  (Bits.ofNatSz 0 (mdN p.blocksize (1 + (flagBits (some v)).length) (8 * c) r))).concat
                  (Bits.ofNatSz v 1)).toBytes
              ++ (Bits.ofNatSz (st.bitcnt + r) (8 * c)).pack be,
            { st with padflag := true, bitcnt := st.bitcnt + r }) := by
      rcases hkw with ⟨rfl, rfl⟩ | rfl <;>
        simp only [Padder.mdLike, hcs, hgt, hsub, if_false, hn1, hn2]
    have h1 : bools ((((Padder.bitsOfBytes pi r).concat (Bits.ofNatSz 1 1)).concat
                  (Bits.ofNatSz 0 (mdN p.blocksize (1 + (flagBits (some v)).length) (8 * c) r))).concat
                  (Bits.ofNatSz v 1))
        = (bytesToBits pi).take r ++ true :: zeros (mdN p.blocksize (1 + (flagBits (some v)).length) (8 * c) r)
            ++ flagBits (some v) := by
      rw [bools_concat _ _ (concat_WF _ _), h0, bools_ofNatSz_bit]; rfl
    rw [hloc, toBytes_append_pack _ _ h1]
    simp only [List.length_append, List.length_take, bytesToBits_length, List.length_cons, zeros,
      List.length_replicate, flagBits, List.length_nil] at ht ⊢
    omega

/-- **tail contract**: for every supported configuration `lastblock` succeeds and returns, as bytes, the first r
    bits of the last piece followed by the scheme's pad bits; it sets `padflag`, adds r to `bitcnt` -/
theorem lastblock_ok (p : Padder) (hv : Valid p) (st : PadState) (pi : List Nat) (hpi : Bytes pi)
    (hlen : pi.length ≤ p.blocklen) (kw : Option Nat) (r : Nat) (hr : r ≤ 8 * pi.length) (hkw : KwOK st pi kw r)
    (hbg : kw ≠ none → BitGranular p.scheme) :
    p.lastblock st pi kw = .ok (bitsToBytes ((bytesToBits pi).take r ++ modelTail p st.bitcnt r),
      { padflag := true, bitcnt := st.bitcnt + r, padcnt := tailPadcnt p st.padcnt r }) := by
  have hB := hv.size_eq
  have hrB : r ≤ p.blocksize := by omega
  have hbyte : ¬ BitGranular p.scheme → r = 8 * pi.length := by
    intro h
    rcases hkw with ⟨_, h2⟩ | h2
    · exact h2
    · exact absurd (hbg (by simp [h2])) h
  cases hs : p.scheme with
  | no => rw [hbyte (by simp [hs, BitGranular])]; exact lastblock_no p hs st pi hpi kw
  | null => exact lastblock_null p hv hs st pi hpi hlen kw r hr hkw
  | bit => exact lastblock_bit p hv hs st pi hpi hlen kw r hr hkw
  | pkcs7 => rw [hbyte (by simp [hs, BitGranular])]; exact lastblock_pkcs7 p hv hs st pi hpi hlen kw
  | x923 => rw [hbyte (by simp [hs, BitGranular])]; exact lastblock_x923 p hv hs st pi hpi hlen kw
  | md w =>
    have hw := hv.scheme_ok; rw [hs] at hw; simp only at hw
    obtain ⟨c, rfl⟩ : ∃ c, w = 4 * c := ⟨w / 4, by omega⟩
    have h := mdLike_ok p st pi hpi kw r hr hrB hkw c none false hv.mul8 (by simp [flagBits]; omega)
    have e2 : 2 * (4 * c) = 8 * c := by omega
    simp only [flagBits, List.length_nil, Nat.add_zero, List.append_nil, Bool.false_eq_true, if_false] at h
    simp only [Padder.lastblock, hs, h, modelTail, tailPadcnt, e2, List.append_assoc]
  | sha w =>
    have hw := hv.scheme_ok; rw [hs] at hw; simp only at hw
    obtain ⟨c, rfl⟩ : ∃ c, w = 4 * c := ⟨w / 4, by omega⟩
    have h := mdLike_ok p st pi hpi kw r hr hrB hkw c none true hv.mul8 (by simp [flagBits]; omega)
    have e2 : 2 * (4 * c) = 8 * c := by omega
    simp only [flagBits, List.length_nil, Nat.add_zero, List.append_nil, if_true] at h
    simp only [Padder.lastblock, hs, h, modelTail, tailPadcnt, e2, List.append_assoc]
  | blake hh =>
    have hw := hv.scheme_ok; rw [hs] at hw; simp only at hw
    by_cases hbig : hh > 256
    · have hW : Padder.blakeW hh = 4 * 16 := by simp [Padder.blakeW, hbig]
      have hBv : p.blocksize = 1024 := by simp [hw, hbig]
      have h := mdLike_ok p st pi hpi kw r hr hrB hkw 16 (some (if hh = 256 ∨ hh = 512 then 1 else 0)) true hv.mul8
        (by simp [flagBits]; omega)
      have hf : (if hh = 256 ∨ hh = 512 then 1 else 0 : Nat).testBit 0 = decide (hh = 256 ∨ hh = 512) := by
        by_cases h5 : hh = 256 ∨ hh = 512 <;> simp [h5]
      simp only [flagBits, List.length_singleton, if_true, hf] at h
      simp only [Padder.lastblock, hs, hW, h, modelTail, tailPadcnt, List.append_assoc]
    · have hW : Padder.blakeW hh = 4 * 8 := by simp [Padder.blakeW, hbig]
      have hBv : p.blocksize = 512 := by simp [hw, hbig]
      have h := mdLike_ok p st pi hpi kw r hr hrB hkw 8 (some (if hh = 256 ∨ hh = 512 then 1 else 0)) true hv.mul8
        (by simp [flagBits]; omega)
      have hf : (if hh = 256 ∨ hh = 512 then 1 else 0 : Nat).testBit 0 = decide (hh = 256 ∨ hh = 512) := by
        by_cases h5 : hh = 256 ∨ hh = 512 <;> simp [h5]
      simp only [flagBits, List.length_singleton, if_true, hf] at h
      simp only [Padder.lastblock, hs, hW, h, modelTail, tailPadcnt, List.append_assoc]

/-- the fewest pad bits the scheme ever adds -/
def minPad : Model.Scheme → Nat
  | .no => 0 | .null => 0 | .bit => 1 | .pkcs7 => 8 | .x923 => 8
  | .md w => 1 + 2 * w | .sha w => 1 + 2 * w | .blake h => 2 + 2 * Padder.blakeW h

theorem minPad_le (p : Padder) (hv : Valid p) : minPad p.scheme ≤ p.blocksize := by
  have h8 := hv.mul8; have hp := hv.pos; have hw := hv.scheme_ok
  cases hs : p.scheme with
  | blake h =>
    rw [hs] at hw; simp only at hw
    simp only [minPad, Padder.blakeW]
    by_cases hb : h > 256 <;> simp only [hb, if_true, if_false] at hw ⊢ <;> omega
  | _ => rw [hs] at hw; simp only [minPad] at hw ⊢; omega

theorem eq_ite_of (c : Prop) [Decidable c] (x a b : Nat) (h1 : c → x = a) (h2 : ¬ c → x = b) :
    x = if c then a else b := by
  by_cases h : c <;> simp [h, h1, h2]

/-- message bits of the tail + pad bits = one block, or two when even the shortest pad does not fit -/
theorem modelTail_total (p : Padder) (hv : Valid p) (base r : Nat) (hr : r ≤ p.blocksize)
    (hbyte : ¬ BitGranular p.scheme → r % 8 = 0) (hno : p.scheme ≠ .no) :
    r + (modelTail p base r).length = if r + minPad p.scheme ≤ p.blocksize then p.blocksize else 2 * p.blocksize := by
  have hB := hv.size_eq; have hp := hv.pos; have hw := hv.scheme_ok; have hm := minPad_le p hv
  have hbl := hv.blocklen_pos
  apply eq_ite_of
  all_goals
    intro hc
    cases hs : p.scheme with
    | no => exact absurd hs hno
    | null =>
      rw [hs] at hc; simp only [minPad] at hc
      simp only [modelTail, hs, zeros, List.length_replicate]; omega
    | bit =>
      rw [hs] at hc; simp only [minPad] at hc
      simp only [modelTail, hs, zeros, List.length_cons, List.length_replicate]
      by_cases hq : p.blocksize - r = 0 <;> simp only [hq, if_true, if_false] <;> omega
    | pkcs7 =>
      have h8 := hbyte (by simp [hs, BitGranular])
      rw [hs] at hc; simp only [minPad] at hc
      simp only [modelTail, hs, bytesToBits_length, List.length_replicate, padQ]
      by_cases hq : p.blocklen - r / 8 = 0 <;> simp only [hq, if_true, if_false] <;> omega
    | x923 =>
      have h8 := hbyte (by simp [hs, BitGranular])
      rw [hs] at hc; simp only [minPad] at hc
      simp only [modelTail, hs, bytesToBits_length, List.length_append, List.length_replicate,
        List.length_singleton, padQ]
      by_cases hq : p.blocklen - r / 8 = 0 <;> simp only [hq, if_true, if_false] <;> omega
    | md w =>
      rw [hs] at hw hm hc; simp only [minPad] at hw hm hc
      simp only [modelTail, hs, List.length_append, List.length_cons, zeros, List.length_replicate, lenLE_length, mdN]
      by_cases hq : r + 1 + 2 * w ≤ p.blocksize <;> simp only [hq, if_true, if_false] <;> omega
    | sha w =>
      rw [hs] at hw hm hc; simp only [minPad] at hw hm hc
      simp only [modelTail, hs, List.length_append, List.length_cons, zeros, List.length_replicate, lenBE_length, mdN]
      by_cases hq : r + 1 + 2 * w ≤ p.blocksize <;> simp only [hq, if_true, if_false] <;> omega
    | blake h =>
      rw [hs] at hw hm hc; simp only [minPad] at hw hm hc
      simp only [modelTail, hs, List.length_append, List.length_cons, zeros, List.length_replicate, lenBE_length, mdN,
        List.length_nil]
      by_cases hq : r + 2 + 2 * Padder.blakeW h ≤ p.blocksize <;> simp only [hq, if_true, if_false] <;> omega

end Proofs.Lemmas.Padding
