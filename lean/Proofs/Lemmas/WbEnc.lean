/-
  Helper lemmas for C18: sixteen rounds, the input map M1 and the output map M3; the network of a key encrypts like
  Model.Des under that key.
-/
import Model.Wb
import Model.Gen.Wb
import Proofs.Lemmas.WbStatic
import Proofs.Lemmas.WbRound
namespace Proofs.Lemmas.Wb
open Model Model.Wb Model.Bits

/-- the network of a key: tables of round `r` are `table_rKT(r,K)[1]` -/
theorem KT_ok (b : Bits) :
    ∃ kt, KT b = .ok kt ∧ kt.length = 16 ∧
      ∀ r (_ : r < 16) (h : r < kt.length), ∃ rks, tableRKT r b = .ok (rks, kt[r]) := by
  obtain ⟨kt, h1, h2, h3⟩ := mapM_ok (fun r => do let t ← tableRKT r b; pure t.2)
    (fun r round => ∃ rks, tableRKT r b = .ok (rks, round)) (List.range 16)
    (by
      intro r hr
      obtain ⟨fk, rks, rkt, _, _, a, _⟩ := tableRKT_ok b r (List.mem_range.mp hr)
      exact ⟨rkt, by simp [a, bind, Except.bind, pure, Except.pure], rks, a⟩)
  have hl : kt.length = 16 := by simpa using h2
  refine ⟨kt, h1, hl, ?_⟩
  intro r hr h
  have := h3 r (by simpa using hr) h
  simpa using this

/-- sixteen (or any list of) rounds: the network state stays the encoding of the DES halves -/
theorem rounds_ok (K : Bits) (w : WhiteDES) (hw : w.tM2 = Gen.Wb.m2mat)
    (hkt : ∀ r (_ : r < 16), ∃ rks rkt, pyIdx w.KT r = .ok rkt ∧ tableRKT r K = .ok (rks, rkt)) :
    ∀ (rs : List Nat) (L R : Bits), (∀ r ∈ rs, r < 16) → L.size = 32 → L.WF → R.size = 32 → R.WF →
      ∃ L' R', Des.rounds (Des.PC1 K) rs L R = .ok (L', R') ∧ L'.size = 32 ∧ L'.WF ∧ R'.size = 32 ∧ R'.WF ∧
        encLoop w rs (enc L R) = .ok (enc L' R') := by
  intro rs
  induction rs with
  | nil => intro L R _ hL hLw hR hRw; exact ⟨L, R, rfl, hL, hLw, hR, hRw, rfl⟩
  | cons r rs ih =>
    intro L R hrs hL hLw hR hRw
    have hr : r < 16 := hrs r (List.mem_cons_self)
    obtain ⟨rks, rkt, k1, k2⟩ := hkt r hr
    obtain ⟨fout, f1, f2, f3, f4⟩ := round_ok K r hr L R hL hLw hR hRw rks rkt k2 w hw
    have hxs : (L.xor fout).size = 32 := by rw [size_xor _ _ (by rw [hL, f2]), hL]
    have hxw : (L.xor fout).WF := WF_xor _ _ hLw f3 (by rw [hL, f2])
    obtain ⟨L', R', a1, a2, a3, a4, a5, a6⟩ := ih R (L.xor fout) (fun x hx => hrs x (List.mem_cons_of_mem _ hx)) hR hRw hxs hxw
    refine ⟨L', R', ?_, a2, a3, a4, a5, ?_⟩
    · simp only [Des.rounds, f1, bind, Except.bind]; exact a1
    · simp only [bind, Except.bind] at f4
      simp only [encLoop, k1, bind, Except.bind]
      cases hq : tboxLoop rkt (List.range 12) (enc L R) with
      | error e => rw [hq] at f4; cases f4
      | ok blk' =>
        rw [hq] at f4
        simp only [] at f4 ⊢
        rw [f4]
        exact a6

theorem concat_slices (blk : Bits) (hs : blk.size = 64) (hw : blk.WF) :
    (blk.sliceFast 0 32).concat (blk.sliceFast 32 64) = blk := by
  apply bits_ext (by simp [hs]) (WF_concat _ _) hw
  intro i hi
  have hi' : i < 64 := by simpa using hi
  rw [bit_concat _ _ (WF_sliceFast _ _ _)]
  simp only [size_sliceFast, bit_sliceFast]
  by_cases c : i < 32
  · simp [c, hi']
  · have : 32 + (i - 32) = i := by omega
    have h2 : i - 32 < 32 := by omega
    simp [c, hi', this, h2]

/-- the input map: `M[tM1]` is the encoding of the two halves of `IP(M)` -/
theorem init_ok (Mb : Bits) :
    Mb.pick Gen.Wb.m1 = enc ((Mb.pick Gen.Des.ip).sliceFast 0 32) ((Mb.pick Gen.Des.ip).sliceFast 32 64) := by
  unfold enc
  rw [concat_slices _ (by rw [size_pick, ip_length]) (WF_pick _ _), pick_pick _ _ _ (by rw [ip_length]; exact encIdx_mem_lt),
    ← m1_eq]

theorem swapIdx_length : swapIdx.length = 64 := by decide +kernel
theorem swapIdx_get : ∀ i < 64, swapIdx.getD i 0 = if i < 32 then i + 32 else i - 32 := by decide +kernel

/-- the output map: `blk[tM3]` of the encoding of (L,R) is `IPinv` of the block `R ‖ L` the cipher assembles -/
theorem final_ok (L R : Bits) (hL : L.size = 32) (hLw : L.WF) (hR : R.size = 32) (hRw : R.WF) :
    (enc L R).pick Gen.Wb.m3 = (((ofNatSz 0 64).putSlice 0 32 R).putSlice 32 64 L).pick Gen.Des.ipinv := by
  have hRv : R.ival < 2 ^ (32 - 0) := by simpa [WF, hR] using hRw
  have hLv : L.ival < 2 ^ (64 - 32) := by simpa [WF, hL] using hLw
  have hw0 : ((ofNatSz 0 64).putSlice 0 32 R).WF := WF_putSlice _ _ _ _ (WF_ofNatSz 0 64) (by decide) (by decide) hRv
  have hC : (L.concat R).pick swapIdx = ((ofNatSz 0 64).putSlice 0 32 R).putSlice 32 64 L := by
    apply bits_ext (by rw [size_pick, swapIdx_length]; rfl) (WF_pick _ _)
      (WF_putSlice _ _ _ _ hw0 (by decide) (Nat.le_refl 64) hLv)
    intro i hi
    have hi' : i < 64 := by rw [size_pick, swapIdx_length] at hi; exact hi
    rw [bit_pick_getD _ _ _ (by rw [swapIdx_length]; exact hi'), swapIdx_get i hi',
      bit_putSlice _ _ _ _ hw0 (by decide) (Nat.le_refl 64) hLv,
      bit_putSlice _ _ _ _ (WF_ofNatSz 0 64) (by decide) (by decide) hRv]
    by_cases c : i < 32
    · rw [if_pos c, bit_LR L R hL hLw hR _ (by omega), if_neg (by omega), if_neg (by omega), if_pos ⟨Nat.zero_le _, c⟩]
      simp [bit]
    · rw [if_neg c, bit_LR L R hL hLw hR _ (by omega), if_pos (by omega), if_pos ⟨by omega, hi'⟩]
  unfold enc
  rw [pick_pick _ _ _ (by rw [encIdx_length]; exact m3_lt), m3_eq, ← hC,
    pick_pick _ _ _ (by rw [swapIdx_length]; exact ipinv_lt)]

theorem ofBytes_ok (M : List Nat) : ∃ Mb, Bits.ofBytes M = .ok Mb ∧ Mb.size = 8 * M.length := by
  simp [Bits.ofBytes, Bits.load, bind, Except.bind, pure, Except.pure, Nat.mod_one]

/-- table generation for a key string: the three static tables are the extracted ones, round `r` holds `table_rKT(r,K)[1]` -/
theorem mkWhiteDES_ok (K : List Nat) :
    ∃ b kt, Bits.ofBytes K (some 64) = .ok b ∧ mkWhiteDES K = .ok ⟨kt, Gen.Wb.m1, Gen.Wb.m2mat, Gen.Wb.m3⟩ ∧
      kt.length = 16 ∧ ∀ r (_ : r < 16) (h : r < kt.length), ∃ rks, tableRKT r b = .ok (rks, kt[r]) := by
  obtain ⟨b, hb, _⟩ := ofBytes64_ok K
  obtain ⟨kt, h1, h2, h3⟩ := KT_ok b
  refine ⟨b, kt, hb, ?_, h2, h3⟩
  simp [mkWhiteDES, hb, h1, tableM1_gen, tableM2_gen, tableM3_gen, bind, Except.bind, pure, Except.pure]

/-- END TO END: for every 8-byte key and every message the white-box network returns exactly what `DES(K).enc` returns
    (the ciphertext for an 8-byte block, the same AssertionError otherwise) -/
theorem wbEnc_eq_desEnc (K M : List Nat) (hK : K.length = 8) : wbEnc K M = Des.enc K M := by
  obtain ⟨b, kt, hb, hw, hl, hkt⟩ := mkWhiteDES_ok K
  obtain ⟨Mb, hM, hMs⟩ := ofBytes_ok M
  have hdes : Des.enc K M = (Des.DES.mk b).crypt Des.encOrder M := by
    simp [Des.enc, Des.DES.new, hK, hb, bind, Except.bind, pure, Except.pure, Des.DES.enc]
  rw [hdes]
  simp only [wbEnc, hw, bind, Except.bind]
  by_cases h8 : M.length = 8
  · have hs64 : Mb.size = 64 := by rw [hMs, h8]
    let w : WhiteDES := ⟨kt, Gen.Wb.m1, Gen.Wb.m2mat, Gen.Wb.m3⟩
    have hktw : ∀ r (_ : r < 16), ∃ rks rkt, pyIdx w.KT r = .ok rkt ∧ tableRKT r b = .ok (rks, rkt) := by
      intro r hr
      have hrl : r < kt.length := by rw [hl]; exact hr
      obtain ⟨rks, h⟩ := hkt r hr hrl
      exact ⟨rks, kt[r], pyIdx_ok _ _ hrl, h⟩
    obtain ⟨L', R', r1, r2, r3, r4, r5, r6⟩ := rounds_ok b w rfl hktw (List.range 16)
      ((Mb.pick Gen.Des.ip).sliceFast 0 32) ((Mb.pick Gen.Des.ip).sliceFast 32 64)
      (fun r hr => List.mem_range.mp hr) rfl (WF_sliceFast _ _ _) rfl (WF_sliceFast _ _ _)
    have hC : (((ofNatSz 0 64).putSlice 0 32 R').putSlice 32 64 L').size = 64 := rfl
    simp only [WhiteDES.enc, h8, ne_eq, not_true_eq_false, if_false, hM, bind, Except.bind, pure, Except.pure,
      init_ok, Des.DES.crypt, hs64, Des.IP, Des.encOrder, r1, Des.IPinv, hC]
    have r6' : encLoop w (List.range 16) (enc ((Mb.pick Gen.Des.ip).sliceFast 0 32) ((Mb.pick Gen.Des.ip).sliceFast 32 64))
        = .ok (enc L' R') := r6
    simp only [w] at r6'
    rw [r6']
    simp only [final_ok L' R' r2 r3 r4 r5]
  · have hs64 : Mb.size ≠ 64 := by rw [hMs]; omega
    simp [WhiteDES.enc, h8, Des.DES.crypt, hM, hs64, bind, Except.bind, throw, throwThe, MonadExceptOf.throw]

end Proofs.Lemmas.Wb
