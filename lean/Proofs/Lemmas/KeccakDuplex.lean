/-
  Lemmas for C04, part 5: one `Keccak.duplex` call versus one duplexing call of the reference construction,
  and sequences of calls.
-/
import Proofs.Lemmas.KeccakSponge
namespace Proofs.Lemmas.KeccakDuplex
open Model Model.Keccak Model.Py Proofs.Lemmas.KeccakBits Proofs.Lemmas.KeccakLane Proofs.Lemmas.KeccakPad
open Proofs.Lemmas.KeccakSponge
open Spec.Keccak (fString absorbBlock keccakF stringOfState pad101)

theorem chunksOf_go_flatten {α} (k : Nat) (hk : 0 < k) :
    ∀ (fuel : Nat) (l : List α), l.length ≤ fuel → (Spec.Keccak.chunksOf.go k fuel l).flatten = l := by
  intro fuel
  induction fuel with
  | zero =>
    intro l hl; have : l = [] := List.eq_nil_of_length_eq_zero (by omega); subst this
    simp [Spec.Keccak.chunksOf.go]
  | succ fuel ih =>
    intro l hl
    cases l with
    | nil => simp [Spec.Keccak.chunksOf.go]
    | cons a as =>
      have : ((a :: as).drop k).length ≤ fuel := by simp only [List.length_drop, List.length_cons] at hl ⊢; omega
      simp only [Spec.Keccak.chunksOf.go, List.isEmpty_cons, Bool.false_eq_true, if_false, List.flatten_cons,
        ih _ this, List.take_append_drop]

theorem chunksOf_flatten {α} (k : Nat) (hk : 0 < k) (l : List α) : (Spec.Keccak.chunksOf k l).flatten = l :=
  chunksOf_go_flatten k hk _ l (Nat.le_refl _)

theorem pad101_length (r m : Nat) : (pad101 r m).length = 2 + (r - (m + 2) % r) % r := by
  simp [pad101]; omega

theorem pad101_length_fit (r m : Nat) (h : m + 2 ≤ r) : (pad101 r m).length = r - m := by
  rw [pad101_length]
  by_cases h2 : m + 2 = r
  · rw [h2, Nat.mod_self, Nat.sub_zero, Nat.mod_self]; omega
  · rw [Nat.mod_eq_of_lt (by omega : m + 2 < r), Nat.mod_eq_of_lt (by omega)]; omega

theorem total_length {r : Nat} {blocks : List Bits} (hg : Good r blocks) {σ : List Bool}
    (hr : 0 < r) (hb : blocks.map bitsOf = Spec.Keccak.chunksOf r (σ ++ pad101 r σ.length)) :
    r * blocks.length = σ.length + (pad101 r σ.length).length := by
  rw [← flatten_length_of_Good hg, hb, chunksOf_flatten r hr, List.length_append]

/-- the input fits (|σ| ≤ r−2): exactly one block, σ ‖ pad10*1 -/
theorem single_block {r : Nat} (hr : 0 < r) {blocks : List Bits} (hg : Good r blocks) {σ : List Bool}
    (hb : blocks.map bitsOf = Spec.Keccak.chunksOf r (σ ++ pad101 r σ.length)) (hfit : σ.length + 2 ≤ r) :
    ∃ P, blocks = [P] ∧ bitsOf P = σ ++ pad101 r σ.length := by
  have ht := total_length hg hr hb
  rw [pad101_length_fit r σ.length hfit] at ht
  have hlen : blocks.length = 1 := by
    have : r * blocks.length = r * 1 := by omega
    exact Nat.eq_of_mul_eq_mul_left hr this
  obtain ⟨P, rfl⟩ := List.length_eq_one_iff.mp hlen
  refine ⟨P, rfl, ?_⟩
  have := congrArg List.flatten hb
  rw [chunksOf_flatten r hr] at this
  simpa using this

/-- the input does not fit: more than one block -/
theorem not_single_block {r : Nat} (hr : 0 < r) {blocks : List Bits} (hg : Good r blocks) {σ : List Bool}
    (hb : blocks.map bitsOf = Spec.Keccak.chunksOf r (σ ++ pad101 r σ.length)) (hbig : ¬ σ.length + 2 ≤ r) :
    ∀ P, blocks ≠ [P] := by
  intro P hP
  have ht := total_length hg hr hb
  rw [hP, pad101_length] at ht
  simp at ht; omega

/-- what `absorbBlock` does to the string of a state array -/
theorem absorbBlock_step {w : Nat} (hw : 0 < w) (r : Nat) (hr25 : r ≤ 25 * w) (A : Spec.Keccak.State w) (P : Bits)
    (hP : P.WF) (hs : P.size = r) :
    absorbBlock (fString w) (25 * w) r (stringOfState A) (bitsOf P) = stringOfState (keccakF w (absorbState A P)) := by
  simp only [absorbBlock]
  rw [← hs, ← stringOfState_absorbState hw A P hP (by rw [hs]; exact hr25), fString_stringOfState hw]

def resOpt {α} : Except Err α → Option α
  | .ok v => some v
  | .error _ => none

/-- one call.  The object is given by its fields so that the object afterwards has visibly the same b, w, n, r. -/
theorem duplex_step (b w n r : Nat) (outlen : Option Nat) (dup : Bool) (S : Option Lanes)
    (hw : 0 < w) (hr : 0 < r) (hr25 : r ≤ 25 * w)
    (hf : ∀ A : Spec.Keccak.State w, f w n (toLanes A) = toLanes (keccakF w A))
    (A : Spec.Keccak.State w) (hS : S.getD (zero w) = toLanes A)
    (m : List Nat) (hm : ∀ x ∈ m, x < 256) (bl : Option Nat) (hL : ∀ L, bl = some L → L ≤ 8 * m.length)
    (ol : Option Nat) (hol : ol.getD r ≤ r) :
    match Spec.Keccak.duplexing (fString w) (25 * w) r (stringOfState A) (msgBits true m bl) (ol.getD r) with
    | some (s', z) =>
        ∃ A' : Spec.Keccak.State w,
          duplex ⟨⟨b, w, n, r, outlen, dup⟩, S⟩ m bl ol
            = (⟨⟨b, w, n, r, outlen, true⟩, some (toLanes A')⟩, .ok (Spec.Keccak.bytesOfBits z)) ∧
          stringOfState A' = s'
    | none =>
        ∃ e, duplex ⟨⟨b, w, n, r, outlen, dup⟩, S⟩ m bl ol = (⟨⟨b, w, n, r, outlen, true⟩, S⟩, .error e) := by
  obtain ⟨blocks, hb1, hb2, hb3⟩ := iterblocks_spec_aux r hr true m hm bl hL
  by_cases hfit : (msgBits true m bl).length + 2 ≤ r
  · obtain ⟨P, rfl, hPbits⟩ := single_block hr hb2 hb3 hfit
    have hP := hb2 P (by simp)
    obtain ⟨X, hx1, hx2, hx3, hx4⟩ := dump_spec (keccakF w (absorbState A P)) (ol.getD r) (by omega)
    simp only [Spec.Keccak.duplexing, hfit, hol, and_self, if_true]
    refine ⟨keccakF w (absorbState A P), ?_, ?_⟩
    · simp only [duplex, hb1, hS, xorState_load A P hP.1, hf, hx1, Except.map]
      rw [pack_spec X hx2, hx4, ← hPbits, absorbBlock_step hw r hr25 A P hP.1 hP.2]
    · rw [← hPbits, absorbBlock_step hw r hr25 A P hP.1 hP.2]
  · have hns := not_single_block hr hb2 hb3 hfit
    simp only [Spec.Keccak.duplexing, hfit, false_and, if_false]
    simp only [duplex, hb1]
    match blocks, hns with
    | [], _ => exact ⟨_, rfl⟩
    | [P], h => exact absurd rfl (h P)
    | _ :: _ :: _, _ => exact ⟨_, rfl⟩


/-- a call inside the reference's domain of definition: a byte string, a bit length within it, at most r output bits -/
def validStep (r : Nat) (st : List Nat × Option Nat × Option Nat) : Prop :=
  (∀ x ∈ st.1, x < 256) ∧ (∀ L, st.2.1 = some L → L ≤ 8 * st.1.length) ∧ st.2.2.getD r ≤ r

/-- the reference's inputs for a list of calls `(m, bitlen, outlen)`: σ = the message bits (native order), ℓ -/
def specSteps (r : Nat) (steps : List (List Nat × Option Nat × Option Nat)) : List (List Bool × Nat) :=
  steps.map fun st => (msgBits true st.1 st.2.1, st.2.2.getD r)

theorem duplexSeq_refines (b w n r : Nat) (outlen : Option Nat)
    (hw : 0 < w) (hr : 0 < r) (hr25 : r ≤ 25 * w)
    (hf : ∀ A : Spec.Keccak.State w, f w n (toLanes A) = toLanes (keccakF w A)) :
    ∀ (steps : List (List Nat × Option Nat × Option Nat)), (∀ st ∈ steps, validStep r st) →
      ∀ (dup : Bool) (S : Option Lanes) (A : Spec.Keccak.State w), S.getD (zero w) = toLanes A →
        (duplexSeq ⟨⟨b, w, n, r, outlen, dup⟩, S⟩ steps).map resOpt
          = (Spec.Keccak.duplexSeq (fString w) (25 * w) r (stringOfState A) (specSteps r steps)).map
              (Option.map Spec.Keccak.bytesOfBits) := by
  intro steps
  induction steps with
  | nil => intro _ dup S A _; rfl
  | cons st rest ih =>
    intro hv dup S A hS
    obtain ⟨m, bl, ol⟩ := st
    have hst := hv (m, bl, ol) (by simp)
    have hrest : ∀ st ∈ rest, validStep r st := fun x hx => hv x (List.mem_cons_of_mem _ hx)
    have hstep := duplex_step b w n r outlen dup S hw hr hr25 hf A hS m hst.1 bl hst.2.1 ol hst.2.2
    simp only [specSteps, List.map_cons, Spec.Keccak.duplexSeq, Model.Keccak.duplexSeq]
    cases hd : Spec.Keccak.duplexing (fString w) (25 * w) r (stringOfState A) (msgBits true m bl) (ol.getD r) with
    | none =>
      rw [hd] at hstep
      obtain ⟨e, he⟩ := hstep
      simp only [he, List.map_cons, resOpt, Option.map_none]
      exact congrArg _ (ih hrest true S A hS)
    | some p =>
      obtain ⟨s', z⟩ := p
      rw [hd] at hstep
      obtain ⟨A', h1, h2⟩ := hstep
      simp only [h1, List.map_cons, resOpt, Option.map_some]
      rw [← h2]
      exact congrArg _ (ih hrest true (some (toLanes A')) A' rfl)

end Proofs.Lemmas.KeccakDuplex
