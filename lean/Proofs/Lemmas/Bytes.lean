/-
  Helper lemmas about byte lists: `Py.leInt`, `Py.beInt`, `Py.leBytes`, `Py.chunks` (used by C07: load, pack, unpack).
-/
import Model.Bits
import Proofs.Lemmas.BitsBasic
namespace Proofs.Lemmas.Bytes
open Model Model.Py Proofs.Lemmas.Bits

/-- every element is a byte value -/
def AllBytes (s : List Nat) : Prop := ∀ x ∈ s, x < 256

theorem AllBytes.tail {b : Nat} {bs : List Nat} (h : AllBytes (b :: bs)) : AllBytes bs :=
  fun x hx => h x (List.mem_cons_of_mem _ hx)
theorem AllBytes.head {b : Nat} {bs : List Nat} (h : AllBytes (b :: bs)) : b < 256 := h b List.mem_cons_self
theorem AllBytes.append {a b : List Nat} (ha : AllBytes a) (hb : AllBytes b) : AllBytes (a ++ b) := by
  intro x hx; rcases List.mem_append.1 hx with h | h
  · exact ha x h
  · exact hb x h
theorem AllBytes.take {s : List Nat} (h : AllBytes s) (n : Nat) : AllBytes (s.take n) :=
  fun x hx => h x (List.mem_of_mem_take hx)
theorem AllBytes.drop {s : List Nat} (h : AllBytes s) (n : Nat) : AllBytes (s.drop n) :=
  fun x hx => h x (List.mem_of_mem_drop hx)
theorem AllBytes.reverse {s : List Nat} (h : AllBytes s) : AllBytes s.reverse :=
  fun x hx => h x (List.mem_reverse.1 hx)

/-- a byte below a multiple of 256: the low 8 bits are the byte, the rest is the multiple -/
theorem byte_cons_testBit (b x : Nat) (hb : b < 256) (q : Nat) :
    (b + 256 * x).testBit q = if q < 8 then b.testBit q else x.testBit (q - 8) := by
  have e : b + 256 * x = x <<< 8 ||| b := by
    rw [← Nat.shiftLeft_add_eq_or_of_lt (i := 8) (by simpa using hb), Nat.shiftLeft_eq]; omega
  rw [e, Nat.testBit_or, Nat.testBit_shiftLeft]
  by_cases hq : q < 8
  · have : ¬ q ≥ 8 := by omega
    simp [hq, this]
  · have h2 : q ≥ 8 := by omega
    simp [hq, h2, testBit_of_lt (n := 8) (by simpa using hb) h2]

theorem leInt_lt (s : List Nat) (h : AllBytes s) : leInt s < 2 ^ (8 * s.length) := by
  induction s with
  | nil => simp [leInt]
  | cons b bs ih =>
    have := ih h.tail
    have hb := h.head
    simp only [leInt, List.length_cons]
    have e : 2 ^ (8 * (bs.length + 1)) = 256 * 2 ^ (8 * bs.length) := by
      rw [Nat.mul_add, Nat.pow_add]; simp; omega
    omega

/-- bit 8u+j of the little-endian integer is bit j of byte u -/
theorem leInt_testBit (s : List Nat) (h : AllBytes s) (u j : Nat) (hj : j < 8) :
    (leInt s).testBit (8 * u + j) = (s.getD u 0).testBit j := by
  induction s generalizing u with
  | nil => simp [leInt]
  | cons b bs ih =>
    simp only [leInt]
    rw [byte_cons_testBit b _ h.head]
    cases u with
    | zero => simp [hj]
    | succ u =>
      have h1 : ¬ (8 * (u + 1) + j < 8) := by omega
      have h2 : 8 * (u + 1) + j - 8 = 8 * u + j := by omega
      simp only [h1, ↓reduceIte, h2, List.getD_cons_succ]
      exact ih h.tail u

theorem leInt_append (a b : List Nat) : leInt (a ++ b) = leInt a + 256 ^ a.length * leInt b := by
  induction a with
  | nil => simp [leInt]
  | cons x xs ih =>
    simp only [List.cons_append, leInt, ih, List.length_cons]
    grind

theorem beInt_foldl (l : List Nat) (acc : Nat) :
    l.foldl (fun acc b => acc * 256 + b) acc = acc * 256 ^ l.length + leInt l.reverse := by
  induction l generalizing acc with
  | nil => simp [leInt]
  | cons b bs ih =>
    simp only [List.foldl_cons, ih, List.reverse_cons, leInt_append, List.length_reverse, List.length_cons, leInt]
    grind

/-- the big-endian integer is the little-endian integer of the reversed list -/
theorem beInt_eq (l : List Nat) : beInt l = leInt l.reverse := by
  unfold beInt; rw [beInt_foldl]; simp

theorem beInt_lt (s : List Nat) (h : AllBytes s) : beInt s < 2 ^ (8 * s.length) := by
  rw [beInt_eq]; have := leInt_lt s.reverse h.reverse; simpa using this

theorem beInt_append (a b : List Nat) : beInt (a ++ b) = beInt a * 256 ^ b.length + beInt b := by
  simp only [beInt_eq, List.reverse_append, leInt_append, List.length_reverse]; grind

/-- bit 8u+j of the big-endian integer is bit j of the byte at distance u from the END -/
theorem beInt_testBit (s : List Nat) (h : AllBytes s) (u j : Nat) (hj : j < 8) :
    (beInt s).testBit (8 * u + j) = (s.reverse.getD u 0).testBit j := by
  rw [beInt_eq]; exact leInt_testBit _ h.reverse u j hj

/-! ### `leBytes` -/

@[simp] theorem leBytes_length (k n : Nat) : (leBytes k n).length = k := by
  induction k generalizing n with
  | zero => rfl
  | succ k ih => simp [leBytes, ih]

theorem leBytes_allBytes (k n : Nat) : AllBytes (leBytes k n) := by
  induction k generalizing n with
  | zero => intro x hx; simp [leBytes] at hx
  | succ k ih =>
    intro x hx
    simp only [leBytes, List.mem_cons] at hx
    rcases hx with rfl | hx
    · omega
    · exact ih _ x hx

theorem leBytes_getElem (k n j : Nat) (h : j < (leBytes k n).length) : (leBytes k n)[j] = n / 256 ^ j % 256 := by
  induction k generalizing n j with
  | zero => simp at h
  | succ k ih =>
    cases j with
    | zero => simp [leBytes]
    | succ j =>
      simp only [leBytes, List.getElem_cons_succ]
      rw [ih]
      rw [Nat.pow_succ, Nat.mul_comm, Nat.div_div_eq_div_mul]

/-- `int.from_bytes(n.to_bytes(k,'little'),'little') == n mod 256^k` -/
theorem leInt_leBytes (k n : Nat) : leInt (leBytes k n) = n % 256 ^ k := by
  induction k generalizing n with
  | zero => simp [leBytes, leInt, Nat.mod_one]
  | succ k ih =>
    simp only [leBytes, leInt, ih]
    rw [Nat.pow_succ, Nat.mul_comm (256 ^ k) 256, Nat.mod_mul]

/-- a byte list is determined by its little-endian integer -/
theorem leBytes_leInt (s : List Nat) (h : AllBytes s) : leBytes s.length (leInt s) = s := by
  induction s with
  | nil => rfl
  | cons b bs ih =>
    have hb := h.head
    simp only [List.length_cons, leBytes, leInt]
    have e1 : (b + 256 * leInt bs) % 256 = b := by omega
    have e2 : (b + 256 * leInt bs) / 256 = leInt bs := by omega
    rw [e1, e2, ih h.tail]

/-! ### `chunks` -/

theorem chunks_go_nil {α} (k : Nat) (fuel : Nat) : chunks.go k ([] : List α) fuel = [] := by
  cases fuel <;> simp [chunks.go]

/-- with enough fuel the chunking peels `take k` / `drop k` -/
theorem chunks_go_cons {α} (k : Nat) (l : List α) (hl : l ≠ []) (fuel : Nat) (hf : l.length ≤ fuel) :
    chunks.go k l fuel = l.take k :: chunks.go k (l.drop k) (fuel - 1) := by
  cases fuel with
  | zero => cases l with
    | nil => exact absurd rfl hl
    | cons _ _ => simp at hf
  | succ fuel =>
    have : l.isEmpty = false := by cases l with
      | nil => exact absurd rfl hl
      | cons _ _ => rfl
    simp [chunks.go, this]

/-- induction principle: a property of `chunks.go k l fuel` for `k ≥ 1`, `k ∣ |l|`, enough fuel -/
theorem chunks_go_induction {α} (k : Nat) (hk : 0 < k) (P : List α → List (List α) → Prop)
    (hnil : P [] [])
    (hcons : ∀ (l : List α), l ≠ [] → k ∣ l.length → ∀ cs, P (l.drop k) cs → P l (l.take k :: cs)) :
    ∀ (fuel : Nat) (l : List α), l.length ≤ fuel → k ∣ l.length → P l (chunks.go k l fuel) := by
  intro fuel
  induction fuel with
  | zero =>
    intro l hl _
    have : l = [] := List.eq_nil_of_length_eq_zero (by omega)
    subst this; rw [chunks_go_nil]; exact hnil
  | succ fuel ih =>
    intro l hl hdvd
    by_cases hnil' : l = []
    · subst hnil'; rw [chunks_go_nil]; exact hnil
    · rw [chunks_go_cons k l hnil' _ hl]
      apply hcons l hnil' hdvd
      have hpos : 0 < l.length := List.length_pos_iff.2 hnil'
      have hkl : k ≤ l.length := Nat.le_of_dvd hpos hdvd
      apply ih
      · simp only [List.length_drop]; omega
      · simp only [List.length_drop]; exact Nat.dvd_sub hdvd (Nat.dvd_refl k)

theorem chunks_eq {α} (k : Nat) (hk : 0 < k) (l : List α) : chunks k l = chunks.go k l l.length := by
  unfold chunks; simp [Nat.pos_iff_ne_zero.1 hk]

end Proofs.Lemmas.Bytes
