/-
  Helper definitions for C18: the state layout of the white-box network and the index identities (checked in the
  kernel against the tables re-extracted from the source) that make one round of the network one round of DES.

  A state is 96 bits = 12 bytes.  For halves L, R (32 bits each, bit 0 = the standard's bit 1):
    byte b < 8 : the six bits of E(R) that feed S-box b, then L[2b], L[2b+1]
    byte 8+c   : L[16+4c .. 19+4c], then R[t] for the four t = rbits[16+4c .. 19+4c] (the R bits E does not duplicate as outer bits)
-/
import Model.Wb
import Model.Gen.Wb
import Proofs.Lemmas.WbBits
import Proofs.Lemmas.WbFX
namespace Proofs.Lemmas.Wb
open Model Model.Wb Model.Bits

/-- index into `L // R` (64 bits) of every state bit -/
def encIdx : List Nat :=
  ((List.range 8).flatMap fun b => ((List.range 6).map fun j => 32 + Gen.Des.e.getD (6 * b + j) 0) ++ [2 * b, 2 * b + 1]) ++
  ((List.range 4).flatMap fun c => [16 + 4 * c, 17 + 4 * c, 18 + 4 * c, 19 + 4 * c] ++
      ((List.range 4).map fun j => 32 + Gen.Wb.rbits.getD (16 + 4 * c + j) 0))

/-- the state that encodes the DES halves (L, R) -/
def enc (L R : Bits) : Bits := (L.concat R).pick encIdx

/-- index into `Z // L // R` (96 bits: S-box outputs, then the halves) of every state bit after the T-boxes -/
def postIdx (i : Nat) : Nat :=
  if i < 64 then
    (if i % 8 < 4 then 4 * (i / 8) + i % 8 else 32 + encIdx.getD (8 * (i / 8) + [0, 5, 6, 7].getD (i % 8 - 4) 0) 0)
  else 32 + encIdx.getD i 0

theorem encIdx_length : encIdx.length = 96 := by decide +kernel
theorem encIdx_lt : ∀ i < 96, encIdx.getD i 0 < 64 := by decide +kernel
theorem encIdx_E : ∀ n < 8, ∀ j < 6, encIdx.getD (8 * n + j) 0 = 32 + Gen.Des.e.getD (6 * n + j) 0 := by decide +kernel
theorem e_length : Gen.Des.e.length = 48 := by decide +kernel
theorem e_lt : ∀ k < 48, Gen.Des.e.getD k 0 < 32 := by decide +kernel
theorem p_length : Gen.Des.p.length = 32 := by decide +kernel
theorem p_lt : ∀ k < 32, Gen.Des.p.getD k 0 < 32 := by decide +kernel
theorem m2mat_length : Gen.Wb.m2mat.length = 96 := by decide +kernel

/-- the input map: M1 = (state layout) ∘ IP -/
theorem m1_eq : Gen.Wb.m1 = encIdx.map fun x => Gen.Des.ip.getD x 0 := by decide +kernel
theorem ip_length : Gen.Des.ip.length = 64 := by decide +kernel
theorem ipinv_length : Gen.Des.ipinv.length = 64 := by decide +kernel

/-- `R // L` as a selection of `L // R` -/
def swapIdx : List Nat := (List.range 32).map (· + 32) ++ List.range 32

/-- the output map: M3 ∘ (state layout) = IPinv ∘ swap -/
theorem m3_eq : (Gen.Wb.m3.map fun x => encIdx.getD x 0) = Gen.Des.ipinv.map fun x => swapIdx.getD x 0 := by decide +kernel
theorem m3_lt : ∀ x ∈ Gen.Wb.m3, x < 96 := by decide +kernel
theorem ipinv_lt : ∀ x ∈ Gen.Des.ipinv, x < 64 := by decide +kernel
theorem encIdx_mem_lt : ∀ x ∈ encIdx, x < 64 := by decide +kernel

/-- every row of M2 is the mask of the one or two columns listed in `m`, and gathers from the post-T-box state exactly
    what the next state needs at that position: the R bit (new L = R), or `L_j` and `S_{P(j)}` (new R = L xor P(S)) -/
theorem round_table : ∀ b < 96,
    Gen.Wb.m2mat.getD b 0 = rowMask (Gen.Wb.m2m.getD b []) ∧
    (encIdx.getD b 0 < 32 →
      Gen.Wb.m2m.getD b [] = [(Gen.Wb.m2m.getD b []).getD 0 0] ∧ (Gen.Wb.m2m.getD b []).getD 0 0 < 96 ∧
      postIdx ((Gen.Wb.m2m.getD b []).getD 0 0) = 64 + encIdx.getD b 0) ∧
    (32 ≤ encIdx.getD b 0 →
      Gen.Wb.m2m.getD b [] = [(Gen.Wb.m2m.getD b []).getD 0 0, (Gen.Wb.m2m.getD b []).getD 1 0] ∧
      (Gen.Wb.m2m.getD b []).getD 0 0 < 96 ∧ (Gen.Wb.m2m.getD b []).getD 1 0 < 96 ∧
      (Gen.Wb.m2m.getD b []).getD 0 0 ≠ (Gen.Wb.m2m.getD b []).getD 1 0 ∧
      postIdx ((Gen.Wb.m2m.getD b []).getD 0 0) = Gen.Des.p.getD (encIdx.getD b 0 - 32) 0 ∧
      postIdx ((Gen.Wb.m2m.getD b []).getD 1 0) = encIdx.getD b 0) := by
  decide +kernel

end Proofs.Lemmas.Wb
