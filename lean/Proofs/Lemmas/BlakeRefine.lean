/-
  Refinement lemmas: Model.Blake (BLAKE) against Spec.Blake — G, round, compression function.
-/
import Proofs.Lemmas.BlakeWords
import Spec.Blake
namespace Proofs.Lemmas.BlakeRefine
open Model Model.Gen Proofs.Lemmas.BlakeWords

/-- the regenerated data of a model configuration are those of a specification variant -/
structure Match (c : Blake.Cfg) (V : Spec.Blake.Variant) : Prop where
  w : c.wsize = V.w
  consts : c.consts = V.c.map BitVec.toNat
  iv : c.iv = V.iv.map BitVec.toNat
  rounds : c.rounds = V.rounds
  rot : c.rot = [V.r0, V.r1, V.r2, V.r3]
  clen : V.c.length = 16
  ivlen : V.iv.length = 8
  r0 : V.r0 < V.w
  r1 : V.r1 < V.w
  r2 : V.r2 < V.w
  r3 : V.r3 < V.w
  block : c.blocksize = V.block
  out : c.outlen = V.out

theorem gsched_positions : ∀ i < 8, BlakeG.gsched.getD i [] =
    [i, (Spec.Blake.positions i).1, (Spec.Blake.positions i).2.1, (Spec.Blake.positions i).2.2.1, (Spec.Blake.positions i).2.2.2] := by
  decide +kernel

theorem gsched_eq_map : BlakeG.gsched = (List.range 8).map fun i =>
    [i, (Spec.Blake.positions i).1, (Spec.Blake.positions i).2.1, (Spec.Blake.positions i).2.2.1, (Spec.Blake.positions i).2.2.2] := by
  decide +kernel

theorem positions_lt : ∀ i < 8, (Spec.Blake.positions i).1 < 16 ∧ (Spec.Blake.positions i).2.1 < 16 ∧
    (Spec.Blake.positions i).2.2.1 < 16 ∧ (Spec.Blake.positions i).2.2.2 < 16 := by
  decide +kernel

theorem sigma_lt : ∀ r < 10, ∀ j < 16, (Spec.Blake.sigma.getD r []).getD j 0 < 16 := by
  decide +kernel

theorem sigma_eq : BlakeG.sigma = Spec.Blake.sigma := by decide +kernel
theorem sigmaMod_eq : BlakeG.sigmaMod = 10 := by decide +kernel

theorem gapply_ofBV {w} (r0 r1 r2 r3 : Nat) (h0 : r0 < w) (h1 : r1 < w) (h2 : r2 < w) (h3 : r3 < w)
    (x y : BitVec w) (v : List (BitVec w)) (ja jb jc jd : Nat)
    (ha : ja < v.length) (hb : jb < v.length) (hc : jc < v.length) (hd : jd < v.length) :
    Blake.gapply [r0, r1, r2, r3] (ofBV x) (ofBV y) (v.map ofBV) ja jb jc jd =
      (let a := v.getD ja 0; let b := v.getD jb 0; let c := v.getD jc 0; let d := v.getD jd 0
       let a1 := a + b + x
       let d1 := (d ^^^ a1).rotateRight r0
       let c1 := c + d1
       let b1 := (b ^^^ c1).rotateRight r1
       let a2 := a1 + b1 + y
       let d2 := (d1 ^^^ a2).rotateRight r2
       let c2 := c1 + d2
       let b2 := (b1 ^^^ c2).rotateRight r3
       (((v.set ja a2).set jb b2).set jc c2).set jd d2).map ofBV := by
  simp only [Blake.gapply, getW_map _ _ ha, getW_map _ _ hb, getW_map _ _ hc, getW_map _ _ hd,
    gmix_ofBV r0 r1 r2 r3 h0 h1 h2 h3, set_map]

theorem getD_map_toNat {w} (l : List (BitVec w)) (i : Nat) :
    (l.map BitVec.toNat).getD i 0 = (l.getD i 0).toNat := by
  simp only [List.getD, List.getElem?_map]
  cases l[i]? <;> simp

/-- one G call of the model is G_i of the submission -/
theorem gstep_refines {c : Blake.Cfg} {V : Spec.Blake.Variant} (hm : Match c V)
    (W v : List (BitVec V.w)) (hW : W.length = 16) (hv : v.length = 16) (r i : Nat) (hi : i < 8) :
    Blake.gstep c (W.map ofBV) r (v.map ofBV) (BlakeG.gsched.getD i []) = (Spec.Blake.Gi V W r v i).map ofBV := by
  have hr : r % 10 < 10 := Nat.mod_lt _ (by decide)
  have hp := sigma_lt (r % 10) hr (2 * i) (by omega)
  have hq := sigma_lt (r % 10) hr (2 * i + 1) (by omega)
  obtain ⟨pa, pb, pc, pd⟩ := positions_lt i hi
  rw [gsched_positions i hi]
  simp only [Blake.gstep, Blake.sigmaPQ, sigma_eq, sigmaMod_eq, List.getD_cons_zero, List.getD_cons_succ]
  rw [getW_map _ _ (by omega), getW_map _ _ (by omega), hm.consts, hm.w, hm.rot]
  rw [getD_map_toNat, getD_map_toNat]
  simp only [wd_eq, BitVec.ofNat_toNat, BitVec.setWidth_eq, xor_ofBV]
  rw [gapply_ofBV _ _ _ _ hm.r0 hm.r1 hm.r2 hm.r3 _ _ _ _ _ _ _ (by omega) (by omega) (by omega) (by omega)]
  simp only [Spec.Blake.Gi, Spec.Blake.G, Spec.Blake.at']

theorem Gi_length (V : Spec.Blake.Variant) (W v : List (BitVec V.w)) (r i : Nat) :
    (Spec.Blake.Gi V W r v i).length = v.length := by
  simp [Spec.Blake.Gi]

theorem foldG_refines {c : Blake.Cfg} {V : Spec.Blake.Variant} (hm : Match c V)
    (W : List (BitVec V.w)) (hW : W.length = 16) (r : Nat) (is : List Nat) (his : ∀ i ∈ is, i < 8) :
    ∀ v : List (BitVec V.w), v.length = 16 →
      is.foldl (fun v i => Blake.gstep c (W.map ofBV) r v (BlakeG.gsched.getD i [])) (v.map ofBV)
        = (is.foldl (Spec.Blake.Gi V W r) v).map ofBV ∧ (is.foldl (Spec.Blake.Gi V W r) v).length = 16 := by
  induction is with
  | nil => intro v hv; exact ⟨rfl, hv⟩
  | cons i is ih =>
    intro v hv
    have hi : i < 8 := his i (by simp)
    simp only [List.foldl_cons]
    rw [gstep_refines hm W v hW hv r i hi]
    exact ih (fun j hj => his j (by simp [hj])) _ (by rw [Gi_length]; exact hv)

theorem gsched_foldl {α} (f : α → List Nat → α) (a : α) :
    BlakeG.gsched.foldl f a = (List.range 8).foldl (fun v i => f v (BlakeG.gsched.getD i [])) a := by
  have : BlakeG.gsched = (List.range 8).map fun i => BlakeG.gsched.getD i [] := by decide +kernel
  conv => lhs; rw [this]
  rw [List.foldl_map]

/-- a round of the model is a round of the submission -/
theorem round_refines {c : Blake.Cfg} {V : Spec.Blake.Variant} (hm : Match c V)
    (W v : List (BitVec V.w)) (hW : W.length = 16) (hv : v.length = 16) (r : Nat) :
    Blake.round c (W.map ofBV) (v.map ofBV) r = (Spec.Blake.round V W v r).map ofBV ∧
      (Spec.Blake.round V W v r).length = 16 := by
  unfold Blake.round Spec.Blake.round
  rw [gsched_foldl]
  exact foldG_refines hm W hW r (List.range 8) (fun i hi => List.mem_range.mp hi) v hv

theorem rounds_refines {c : Blake.Cfg} {V : Spec.Blake.Variant} (hm : Match c V)
    (W : List (BitVec V.w)) (hW : W.length = 16) (rs : List Nat) :
    ∀ v : List (BitVec V.w), v.length = 16 →
      rs.foldl (Blake.round c (W.map ofBV)) (v.map ofBV) = (rs.foldl (Spec.Blake.round V W) v).map ofBV ∧
        (rs.foldl (Spec.Blake.round V W) v).length = 16 := by
  induction rs with
  | nil => intro v hv; exact ⟨rfl, hv⟩
  | cons r rs ih =>
    intro v hv
    simp only [List.foldl_cons]
    rw [(round_refines hm W v hW hv r).1]
    exact ih _ (round_refines hm W v hW hv r).2

theorem consts_map {c : Blake.Cfg} {V : Spec.Blake.Variant} (hm : Match c V) :
    c.consts.map (Blake.wd V.w) = V.c.map ofBV := by
  rw [hm.consts, List.map_map]
  apply List.map_congr_left
  intro x _
  simp [wd_eq]

/-- the compression function of the model is the compression function of the submission -/
theorem compress_refines {c : Blake.Cfg} {V : Spec.Blake.Variant} (hm : Match c V)
    (H salt W : List (BitVec V.w)) (hH : H.length = 8) (hs : salt.length = 4) (hW : W.length = 16) (cnt : Nat) :
    Blake.compress c (H.map ofBV) (salt.map ofBV) (W.map ofBV) cnt = (Spec.Blake.compress V H W salt cnt).map ofBV ∧
      (Spec.Blake.compress V H W salt cnt).length = 8 := by
  refine ⟨?_, by simp [Spec.Blake.compress]⟩
  obtain ⟨h0, h1, h2, h3, h4, h5, h6, h7, rfl⟩ := exists8 H hH
  obtain ⟨s0, s1, s2, s3, rfl⟩ := exists4 salt hs
  obtain ⟨c0, c1, c2, c3, c4, c5, c6, c7, c8, c9, c10, c11, c12, c13, c14, c15, hc⟩ := exists16 V.c hm.clen
  unfold Blake.compress Spec.Blake.compress
  simp only [hm.rounds, hm.w, counter_lo, counter_hi]
  rw [consts_map hm]
  -- the initial state
  have hv0 : [h0, h1, h2, h3, h4, h5, h6, h7].map ofBV ++ Blake.xorL ([s0, s1, s2, s3].map ofBV) ((V.c.map ofBV).take 4)
        ++ Blake.xorL [ofBV (BitVec.ofNat V.w cnt), ofBV (BitVec.ofNat V.w cnt), ofBV (BitVec.ofNat V.w (cnt / 2 ^ V.w)),
            ofBV (BitVec.ofNat V.w (cnt / 2 ^ V.w))] (((V.c.map ofBV).drop 4).take 4)
      = ([h0, h1, h2, h3, h4, h5, h6, h7] ++ (List.range 4).map (fun i => Spec.Blake.at' V [s0, s1, s2, s3] i ^^^ Spec.Blake.at' V V.c i)
        ++ [BitVec.ofNat V.w cnt ^^^ Spec.Blake.at' V V.c 4, BitVec.ofNat V.w cnt ^^^ Spec.Blake.at' V V.c 5,
            BitVec.ofNat V.w (cnt / 2 ^ V.w) ^^^ Spec.Blake.at' V V.c 6, BitVec.ofNat V.w (cnt / 2 ^ V.w) ^^^ Spec.Blake.at' V V.c 7]).map ofBV := by
    rw [hc]
    simp [Blake.xorL, Spec.Blake.at', xor_ofBV, List.range_succ]
  rw [hv0]
  have hlen : ([h0, h1, h2, h3, h4, h5, h6, h7] ++ (List.range 4).map (fun i => Spec.Blake.at' V [s0, s1, s2, s3] i ^^^ Spec.Blake.at' V V.c i)
        ++ [BitVec.ofNat V.w cnt ^^^ Spec.Blake.at' V V.c 4, BitVec.ofNat V.w cnt ^^^ Spec.Blake.at' V V.c 5,
            BitVec.ofNat V.w (cnt / 2 ^ V.w) ^^^ Spec.Blake.at' V V.c 6, BitVec.ofNat V.w (cnt / 2 ^ V.w) ^^^ Spec.Blake.at' V V.c 7]).length = 16 := by
    simp
  obtain ⟨hr, hl⟩ := rounds_refines hm W hW (List.range V.rounds) _ hlen
  rw [hr]
  obtain ⟨v0, v1, v2, v3, v4, v5, v6, v7, v8, v9, v10, v11, v12, v13, v14, v15, hv⟩ := exists16 _ hl
  rw [hv]
  simp [Blake.xorL, Spec.Blake.at', xor_ofBV, List.range_succ, BitVec.xor_assoc]

end Proofs.Lemmas.BlakeRefine
