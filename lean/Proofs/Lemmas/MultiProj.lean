/-
  Lemmas about Model.Multi: the run of interleaved steps on a store of objects, seen from one object.
-/
import Model.Multi
namespace Proofs.Lemmas.MultiProj
open Model.Multi

theorem own_cons_eq {ω : Type} (j : Nat) (op : ω) (rest : List (Nat × ω)) :
    own j ((j, op) :: rest) = op :: own j rest := by
  simp [own]

theorem own_cons_ne {ω : Type} {j k : Nat} (h : k ≠ j) (op : ω) (rest : List (Nat × ω)) :
    own j ((k, op) :: rest) = own j rest := by
  simp [own, h]

theorem run_proj {σ ω ρ : Type} (step : Nat → σ → ω → σ × ρ) (j : Nat) :
    ∀ (steps : List (Nat × ω)) (objs : List σ) (o : σ), objs[j]? = some o →
      (run step objs steps).1[j]? = some (runOne (step j) o (own j steps)).1 ∧
      ((run step objs steps).2.filter (·.1 == j)).map (·.2) = (runOne (step j) o (own j steps)).2 := by
  intro steps
  induction steps with
  | nil => intro objs o h; simp [run, runOne, own, h]
  | cons st rest ih =>
    intro objs o h
    obtain ⟨k, op⟩ := st
    by_cases hk : k = j
    · subst hk
      have hlt : k < objs.length := by
        rcases Nat.lt_or_ge k objs.length with h' | h'
        · exact h'
        · rw [List.getElem?_eq_none h'] at h; cases h
      have hset : (objs.set k (step k o op).1)[k]? = some (step k o op).1 := by
        simp [hlt]
      have := ih (objs.set k (step k o op).1) (step k o op).1 hset
      rw [own_cons_eq]
      simp only [run, h, runOne]
      refine ⟨this.1, ?_⟩
      simp only [List.filter_cons, beq_self_eq_true, if_true, List.map_cons, this.2]
    · rw [own_cons_ne hk]
      cases hq : objs[k]? with
      | none =>
        simp only [run, hq]
        exact ih objs o h
      | some ok =>
        have hset : (objs.set k (step k ok op).1)[j]? = some o := by
          rw [List.getElem?_set_ne hk]; exact h
        have := ih (objs.set k (step k ok op).1) o hset
        simp only [run, hq]
        refine ⟨this.1, ?_⟩
        have hb : (k == j) = false := by simp [hk]
        simp only [List.filter_cons, hb, Bool.false_eq_true, if_false, this.2]

end Proofs.Lemmas.MultiProj
