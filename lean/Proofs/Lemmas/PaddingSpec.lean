/-
  Helper lemmas for C09: the pad bits the model appends (`modelTail`) are the pad bits of Spec.Padding.
-/
import Proofs.Lemmas.PaddingIter
namespace Proofs.Lemmas.Padding
open Model Model.Padder Spec.Padding

/-- Spec scheme of a model scheme -/
def specOf : Model.Scheme → Spec.Padding.Scheme
  | .no => .no | .null => .zero | .bit => .bit | .pkcs7 => .pkcs7 | .x923 => .x923
  | .md w => .md w | .sha w => .sha w | .blake h => .blake h

theorem fill_of_le (B k x : Nat) (hB : 0 < B) (h1 : k * B ≤ x) (h2 : x ≤ k * B + B) :
    fill B x = if x = k * B then 0 else k * B + B - x := by
  obtain ⟨y, rfl⟩ : ∃ y, x = k * B + y := ⟨x - k * B, by omega⟩
  have hy : y ≤ B := by omega
  have hmod : (k * B + y) % B = y % B := by rw [Nat.add_comm, Nat.add_mul_mod_self_right]
  unfold fill
  rw [hmod]
  by_cases hyB : y = B
  · subst hyB
    simp
  · have hlt : y < B := by omega
    rw [Nat.mod_eq_of_lt hlt]
    by_cases h0 : y = 0
    · subst h0; simp
    · have : ¬ k * B + y = k * B := by omega
      rw [if_neg this, Nat.mod_eq_of_lt (by omega)]
      omega

/-- zero run of the length-strengthening schemes: the code's two-case formula is the standard's "fewest zeros" -/
theorem fill_md (B k r c : Nat) (hB : 0 < B) (hr : r ≤ B) (hc : c ≤ B) (hc0 : 0 < c) :
    fill B (k * B + r + c) = mdN B c 0 r := by
  unfold mdN
  by_cases h : r + c ≤ B
  · rw [fill_of_le B k (k * B + r + c) hB (by omega) (by omega)]
    simp only [Nat.add_zero, h, if_true]
    split <;> omega
  · rw [fill_of_le B (k + 1) (k * B + r + c) hB (by rw [Nat.succ_mul]; omega) (by rw [Nat.succ_mul]; omega)]
    simp only [Nat.add_zero, h, if_false, Nat.succ_mul]
    split <;> omega

theorem mdN_shift (B e cs r : Nat) : mdN B e cs r = mdN B (e + cs) 0 r := by
  unfold mdN; simp only [Nat.add_zero, Nat.add_assoc]

theorem mod_piece (bl k j : Nat) (hj : j ≤ bl) (_hbl : 0 < bl) : (k * bl + j) % bl = if j = bl then 0 else j := by
  rw [Nat.add_comm, Nat.add_mul_mod_self_right]
  by_cases h : j = bl
  · simp [h]
  · rw [if_neg h, Nat.mod_eq_of_lt (by omega)]

/-- the pad the model appends is the pad of the standard -/
theorem spec_pad_eq (p : Padder) (hv : Valid p) (bits : List Bool) (k r : Nat)
    (hlen : bits.length = k * p.blocksize + r) (hr : r ≤ p.blocksize) (hpos : 0 < bits.length → 0 < r)
    (hbyte : ¬ BitGranular p.scheme → ∃ m, Bytes m ∧ bits = bytesToBits m) :
    Spec.Padding.pad (specOf p.scheme) p.blocksize bits = bits ++ modelTail p (k * p.blocksize) r := by
  have hB := hv.size_eq; have hp := hv.pos; have hw := hv.scheme_ok; have hbl := hv.blocklen_pos
  have _ := hbl
  have hkB : k * p.blocksize = 8 * (k * p.blocklen) := by rw [hB, Nat.mul_left_comm]
  cases hs : p.scheme with
  | no => simp [specOf, Spec.Padding.pad, modelTail, hs]
  | null =>
    simp only [specOf, Spec.Padding.pad, zeroPad, modelTail, hs]
    congr 2
    by_cases h0 : bits.length = 0
    · rw [if_pos h0]; omega
    · rw [if_neg h0, hlen, fill_of_le _ k _ hp (by omega) (by omega)]
      split <;> omega
  | bit =>
    simp only [specOf, Spec.Padding.pad, bitPad, modelTail, hs, List.append_assoc, List.singleton_append]
    congr 3
    have := fill_md p.blocksize k r 1 hp hr (by omega) (by omega)
    rw [hlen, this, mdN]
    by_cases h1 : r + 1 + 0 ≤ p.blocksize <;> by_cases h2 : p.blocksize - r = 0 <;>
      simp only [h1, h2, if_true, if_false] <;> omega
  | pkcs7 =>
    obtain ⟨m, hm, rfl⟩ := hbyte (by simp [hs, BitGranular])
    rw [bytesToBits_length] at hlen hpos
    have hj : m.length = k * p.blocklen + r / 8 := by omega
    have hjb : r / 8 ≤ p.blocklen := by omega
    have hq : padLen p.blocklen m.length = padQ p.blocklen (r / 8) := by
      rw [padLen, hj, mod_piece _ _ _ hjb hbl, padQ]
      generalize r / 8 = j at hjb
      by_cases h1 : j = p.blocklen
      · subst h1; simp
      · have h2 : ¬ p.blocklen - j = 0 := by omega
        simp only [h1, h2, if_false]
    have hbl8 : p.blocksize / 8 = p.blocklen := rfl
    simp only [specOf, Spec.Padding.pad, pkcs7Pad, modelTail, hs, bitsToBytes_bytesToBits m hm, hbl8, hq,
      bytesToBits_append]
  | x923 =>
    obtain ⟨m, hm, rfl⟩ := hbyte (by simp [hs, BitGranular])
    rw [bytesToBits_length] at hlen hpos
    have hj : m.length = k * p.blocklen + r / 8 := by omega
    have hjb : r / 8 ≤ p.blocklen := by omega
    have hq : padLen p.blocklen m.length = padQ p.blocklen (r / 8) := by
      rw [padLen, hj, mod_piece _ _ _ hjb hbl, padQ]
      generalize r / 8 = j at hjb
      by_cases h1 : j = p.blocklen
      · subst h1; simp
      · have h2 : ¬ p.blocklen - j = 0 := by omega
        simp only [h1, h2, if_false]
    have hbl8 : p.blocksize / 8 = p.blocklen := rfl
    simp only [specOf, Spec.Padding.pad, x923Pad, modelTail, hs, bitsToBytes_bytesToBits m hm, hbl8, hq,
      bytesToBits_append, List.append_assoc]
  | md w =>
    rw [hs] at hw; simp only at hw
    have hf : fill p.blocksize (bits.length + 1 + 2 * w) = mdN p.blocksize 1 (2 * w) r := by
      rw [mdN_shift, hlen, Nat.add_assoc (k * p.blocksize + r)]
      exact fill_md p.blocksize k r (1 + 2 * w) hp hr (by omega) (by omega)
    simp only [specOf, Spec.Padding.pad, mdPad, modelTail, hs]
    rw [hf, hlen]
    simp only [List.append_assoc, List.cons_append, List.nil_append]
  | sha w =>
    rw [hs] at hw; simp only at hw
    have hf : fill p.blocksize (bits.length + 1 + 2 * w) = mdN p.blocksize 1 (2 * w) r := by
      rw [mdN_shift, hlen, Nat.add_assoc (k * p.blocksize + r)]
      exact fill_md p.blocksize k r (1 + 2 * w) hp hr (by omega) (by omega)
    simp only [specOf, Spec.Padding.pad, shaPad, modelTail, hs]
    rw [hf, hlen]
    simp only [List.append_assoc, List.cons_append, List.nil_append]
  | blake h =>
    rw [hs] at hw; simp only at hw
    have hBh : Spec.Padding.blakeB h = p.blocksize := by rw [hw]; rfl
    have hWh : Spec.Padding.blakeW h = Padder.blakeW h := rfl
    have hW : 2 + 2 * Padder.blakeW h ≤ p.blocksize := by
      simp only [Padder.blakeW]; by_cases hb : h > 256 <;> simp only [hb, if_true, if_false] at hw ⊢ <;> omega
    have hf : fill p.blocksize (bits.length + 2 + 2 * Padder.blakeW h) = mdN p.blocksize 2 (2 * Padder.blakeW h) r := by
      rw [mdN_shift, hlen, Nat.add_assoc (k * p.blocksize + r)]
      exact fill_md p.blocksize k r (2 + 2 * Padder.blakeW h) hp hr hW (by omega)
    simp only [specOf, Spec.Padding.pad, blakePad, modelTail, hs, hBh, hWh]
    rw [hf, hlen]
    simp only [List.append_assoc, List.cons_append, List.nil_append]

/-- the first L bits of the message = the k blocks that went through the loop ++ the first r bits of the last piece -/
theorem takeBits_split (p : Padder) (hv : Valid p) (m : List Nat) (L : Nat) (hL : L ≤ 8 * m.length) :
    takeBits L m = bytesToBits (m.take (p.loopCount L * p.blocklen))
      ++ (bytesToBits (p.blockAt m (p.loopCount L))).take (L - p.loopCount L * p.blocksize) := by
  obtain ⟨e, h1, h2, h3, h4, h5, h6⟩ := piece_facts p hv m L hL
  have hB := hv.size_eq
  generalize p.loopCount L = k at *
  have hm : m = m.take (k * p.blocklen) ++ m.drop (k * p.blocklen) := (List.take_append_drop _ _).symm
  have hlen : (bytesToBits (m.take (k * p.blocklen))).length = k * p.blocksize := by
    rw [bytesToBits_length, List.length_take]; omega
  unfold takeBits
  conv => lhs; rw [hm, bytesToBits_append, List.take_append, hlen]
  rw [List.take_of_length_le (by omega)]
  congr 1
  simp only [Padder.blockAt, bytesToBits_take, List.take_take]
  congr 1
  omega

/-- concatenation of the blocks of a padded call on a fresh object = the standard's padded string, as bytes -/
theorem concat_eq_spec (p : Padder) (hv : Valid p) (st : PadState)
    (hfresh : st.bitcnt = 0) (m : List Nat) (hm : Bytes m) (L : Option Nat) (hL : effLen m L ≤ 8 * m.length)
    (hbg : L ≠ none → BitGranular p.scheme) :
    m.take (kOf p m L * p.blocklen) ++ tailBytes p st m L
      = padBytes (specOf p.scheme) p.blocksize m (effLen m L) := by
  obtain ⟨e, h1, h2, h3, h4, h5, h6⟩ := piece_facts p hv m _ hL
  have hsplit := takeBits_split p hv m _ hL
  have hlenbits : (takeBits (effLen m L) m).length = kOf p m L * p.blocksize + rOf p m L := by
    simp only [takeBits, List.length_take, bytesToBits_length, kOf, rOf]; omega
  have hspec := spec_pad_eq p hv (takeBits (effLen m L) m) (kOf p m L) (rOf p m L) hlenbits h2
    (by rw [hlenbits]; intro h; simp only [kOf, rOf] at h ⊢; omega)
    (by
      intro hb
      refine ⟨m, hm, ?_⟩
      have : L = none := by
        cases L with
        | none => rfl
        | some a => exact absurd (hbg (by simp)) hb
      subst this
      simp only [takeBits, effLen, Option.getD_none]
      exact List.take_of_length_le (by simp))
  unfold padBytes
  rw [hspec, hsplit, List.append_assoc, bitsToBytes_bytesToBits_append _ (Bytes_take hm _)]
  simp only [tailBytes, kOf, rOf, hfresh, Nat.zero_add]

end Proofs.Lemmas.Padding
