/-
  Streaming (C14): block-aligned pieces fed with `update(piece)` then a final `update(last,padding=True)` give the
  one-shot result on the concatenation, for every hash object whose IV/compression/serialisation refine an
  `Spec.MDHash` (arbitrary chaining type and compression function) and whose padder is the MD or SHA scheme.
-/
import Proofs.Lemmas.EndToEnd
namespace Proofs.Lemmas.Streaming
open Model Model.Py Proofs.Lemmas.Parse Proofs.Lemmas.Compose Proofs.Lemmas.PadOk Proofs.Lemmas.SpecList
  Proofs.Lemmas.EndToEnd Proofs.Lemmas.Fold

variable {σ : Type}

/-- the padder of `c` is the MD (`bigend = false`) or SHA (`true`) scheme with the block and length-field sizes of `h` -/
structure Framing (c : HashCore) (h : Spec.MDHash σ) (w B bl ll : Nat) (bigend : Bool) : Prop where
  hp : c.padder = ⟨if bigend then .sha w else .md w, B⟩
  hB : B = 8 * bl
  hbl : 0 < bl
  hw : w * 2 = 8 * ll
  hfit : w * 2 + 1 ≤ B
  h1 : h.blockLen = bl
  h2 : h.lenLen = ll
  h3 : h.encLen = if bigend then Spec.beBytes ll else Spec.leBytes ll

theorem padOk_of_framing {c : HashCore} {h : Spec.MDHash σ} {w B bl ll : Nat} {bigend : Bool}
    (F : Framing c h w B bl ll bigend) (st : PadState) (hpf : st.padflag = false) (hdone : st.bitcnt % B = 0)
    (M : List Spec.Byte) (kw : Option Nat) (hkw : ∀ l, kw = some l → l ≤ 8 * M.length) :
    PadOk c h st st.bitcnt M kw ((Spec.bytesToBits M).take (kw.getD (8 * M.length))) := by
  obtain ⟨hp, hB, hbl, hw, hfit, h1, h2, h3⟩ := F
  cases bigend
  · exact padOk_md c h w B bl ll (by simpa using hp) hB hbl hw hfit h1 h2 (by simpa using h3) st hpf hdone M kw hkw
  · exact padOk_sha c h w B bl ll (by simpa using hp) hB hbl hw hfit h1 h2 (by simpa using h3) st hpf hdone M kw hkw

/-- a non-final `iterblocks(m,padding=False)` call on a whole number `j` of blocks yields exactly these blocks,
    raises nothing and advances the counter by the bits fed -/
theorem iterblocks_nonfinal (p : Padder) (bl : Nat) (hB : p.blocksize = 8 * bl) (hbl : 0 < bl) (st : PadState)
    (hpf : st.padflag = false) (m : List Nat) (j : Nat) (hm : m.length = j * bl) :
    (p.iterblocks st m none false).err = none ∧
    (p.iterblocks st m none false).yields.map (·.1) = (List.range j).map (p.blockAt m) ∧
    (p.iterblocks st m none false).final = { st with bitcnt := st.bitcnt + 8 * m.length } := by
  have hlen : 8 * m.length = j * p.blocksize := by rw [hm, hB, Nat.mul_left_comm]
  have hmod : 8 * m.length % p.blocksize = 0 := by rw [hlen]; exact Nat.mul_mod_left _ _
  obtain ⟨pf, bc, pc⟩ := st
  simp only at hpf
  subst hpf
  unfold Padder.iterblocks
  simp only [Bool.false_eq_true, if_false, Option.getD_none, Nat.lt_irrefl, Bool.not_false, true_and, hmod]
  by_cases hj : j = 0
  · subst hj
    have : m.length = 0 := by simpa using hm
    simp [this]
  · have h0 : ¬ (8 * m.length = 0) := by
      rw [hlen]; exact Nat.ne_of_gt (Nat.mul_pos (Nat.pos_of_ne_zero hj) (by omega))
    have hk : p.loopCount (8 * m.length) = j - 1 := by
      unfold Padder.loopCount
      rw [if_neg h0, hlen]
      apply Nat.div_eq_of_lt_le
      · have : (j - 1) * p.blocksize + p.blocksize = j * p.blocksize := by
          rw [← Nat.succ_mul]; congr 1; omega
        omega
      · have : (j - 1 + 1) * p.blocksize = j * p.blocksize := by congr 1; omega
        have hpos : 0 < j * p.blocksize := Nat.mul_pos (Nat.pos_of_ne_zero hj) (by omega)
        omega
    have hj1 : j - 1 + 1 = j := by omega
    simp only [h0, if_false, hk, Padder.loopYields, List.map_append, List.map_map, List.map_cons,
      List.map_nil, hj1, true_and]
    refine ⟨?_, ?_⟩
    · conv => rhs; rw [← hj1, List.range_succ, List.map_append]
      simp [Function.comp_def]
    · rw [hlen]

/-- a non-final `update` on an object holding an embedded chaining value -/
theorem update_nonfinal {c : HashCore} {h : Spec.MDHash σ} {emb : σ → List Bits} (R : Refines c h emb)
    {w B bl ll : Nat} {bigend : Bool} (F : Framing c h w B bl ll bigend)
    (s : σ) (st : PadState) (hpf : st.padflag = false) (P : List Spec.Byte) (hP : P.length % bl = 0) :
    c.update ⟨emb s, st⟩ (toNatBytes P) none false =
      (⟨emb (h.absorb s (Spec.groups bl P)), { st with bitcnt := st.bitcnt + 8 * P.length }⟩,
       .ok (toNatBytes (h.out (h.absorb s (Spec.groups bl P))))) := by
  obtain ⟨j, hj⟩ : ∃ j, P.length = j * bl := ⟨P.length / bl, by
    have := Nat.div_add_mod P.length bl; rw [hP] at this; rw [Nat.mul_comm]; omega⟩
  have hpB : c.padder.blocksize = 8 * bl := by rw [F.hp]; exact F.hB
  have hpbl : c.padder.blocklen = bl := by rw [R.blockLen, F.h1]
  have hit := iterblocks_nonfinal c.padder bl hpB F.hbl st hpf (toNatBytes P) j (by rw [toNatBytes_length]; exact hj)
  obtain ⟨he, hy, hf⟩ := hit
  have hy' : (c.padder.iterblocks st (toNatBytes P) none false).yields.map (·.1)
      = (Spec.groups bl P).map toNatBytes := by
    rw [hy]
    simp only [Spec.groups, hj, Nat.mul_div_cancel _ F.hbl, List.map_map]
    apply List.map_congr_left
    intro i _
    simp only [Function.comp, Padder.blockAt, hpbl, toNatBytes, drop_take_map]
  have hab := absorb_ok R _ (Spec.groups bl P) s hy' (by rw [← F.h1]; exact groups_length _ _)
  simp only [HashCore.update, hab, he, hf, toNatBytes_length, R.digest]

/-- the standard's iteration continues: absorbing whole blocks first and padding the rest with the total length is the
    padding of the whole (pure specification fact, any compression function) -/
theorem spec_continue (h : Spec.MDHash σ) (hbl : 0 < h.blockLen) (s : σ) (done : Nat) (P : List Spec.Byte)
    (hP : P.length % h.blockLen = 0) (bits : List Bool) :
    h.hashFrom (h.absorb s (Spec.groups h.blockLen P)) (done + 8 * P.length) bits
      = h.hashFrom s done (Spec.bytesToBits P ++ bits) := by
  obtain ⟨j, hj⟩ : ∃ j, P.length = j * h.blockLen := ⟨P.length / h.blockLen, by
    have := Nat.div_add_mod P.length h.blockLen; rw [hP] at this; rw [Nat.mul_comm]; omega⟩
  have hpad : h.padFrom done (Spec.bytesToBits P ++ bits) = P ++ h.padFrom (done + 8 * P.length) bits := by
    simp only [Spec.MDHash.padFrom, List.length_append, bytesToBits_length, List.append_assoc]
    rw [bitsToBytes_bytes, ← Nat.add_assoc, List.append_assoc]
  simp only [Spec.MDHash.hashFrom, hpad, groups_append _ hbl j _ _ hj, Spec.MDHash.absorb, List.foldl_append]

/-- the object after feeding block-aligned pieces to a fresh object: chaining value and padding state -/
theorem run_pieces {c : HashCore} {h : Spec.MDHash σ} {emb : σ → List Bits} (R : Refines c h emb)
    {w B bl ll : Nat} {bigend : Bool} (F : Framing c h w B bl ll bigend)
    (pieces : List (List Spec.Byte)) (hal : ∀ P ∈ pieces, P.length % bl = 0) (s : σ) (st : PadState)
    (hpf : st.padflag = false) :
    pieces.foldl (fun o P => (c.update o (toNatBytes P) none false).1) ⟨emb s, st⟩
      = ⟨emb (h.absorb s (Spec.groups bl pieces.flatten)), { st with bitcnt := st.bitcnt + 8 * pieces.flatten.length }⟩ := by
  induction pieces generalizing s st with
  | nil => simp [Spec.groups, Spec.MDHash.absorb]
  | cons P ps ih =>
    have hP := hal P (by simp)
    simp only [List.foldl_cons, update_nonfinal R F s st hpf P hP]
    rw [ih (fun Q hQ => hal Q (by simp [hQ])) (h.absorb s (Spec.groups bl P))
      { st with bitcnt := st.bitcnt + 8 * P.length } hpf]
    obtain ⟨j, hj⟩ : ∃ j, P.length = j * bl := ⟨P.length / bl, by
      have := Nat.div_add_mod P.length bl; rw [hP] at this; rw [Nat.mul_comm]; omega⟩
    simp only [List.flatten_cons, groups_append bl F.hbl j _ _ hj, Spec.MDHash.absorb, List.foldl_append,
      List.length_append]
    congr 2
    omega

/-- **update_pieces**: pieces then final = one-shot on the concatenation (with the bit length of the final piece, if
    given, counted from the start of that piece) -/
theorem update_pieces {c : HashCore} {h : Spec.MDHash σ} {emb : σ → List Bits} (R : Refines c h emb)
    {w B bl ll : Nat} {bigend : Bool} (F : Framing c h w B bl ll bigend)
    (pieces : List (List Spec.Byte)) (hal : ∀ P ∈ pieces, P.length % bl = 0) (q : List Spec.Byte) (kw : Option Nat)
    (hkw : ∀ l, kw = some l → l ≤ 8 * q.length) :
    (c.update (pieces.foldl (fun o P => (c.update o (toNatBytes P) none false).1) c.initstate) (toNatBytes q) kw true).2
      = c.hash (toNatBytes (pieces.flatten ++ q)) (kw.map (8 * pieces.flatten.length + ·)) := by
  have hbl : 0 < h.blockLen := by rw [F.h1]; exact F.hbl
  have hflat : pieces.flatten.length % bl = 0 := by
    clear hkw
    induction pieces with
    | nil => simp
    | cons P ps ih =>
      have a1 := hal P (by simp)
      have a2 := ih (fun Q hQ => hal Q (by simp [hQ]))
      simp only [List.flatten_cons, List.length_append]
      rw [Nat.add_mod, a1, a2]; simp
  -- piecewise
  have hrun := run_pieces R F pieces hal h.init {} rfl
  simp only [HashCore.initstate, R.iv] at hrun ⊢
  rw [hrun]
  have hdone : ({ ({} : PadState) with bitcnt := ({} : PadState).bitcnt + 8 * pieces.flatten.length } : PadState).bitcnt % B = 0 := by
    show (0 + 8 * pieces.flatten.length) % B = 0
    obtain ⟨j, hj⟩ : ∃ j, pieces.flatten.length = j * bl := ⟨pieces.flatten.length / bl, by
      have := Nat.div_add_mod pieces.flatten.length bl; rw [hflat] at this; rw [Nat.mul_comm]; omega⟩
    rw [hj, F.hB, Nat.zero_add, Nat.mul_left_comm]; exact Nat.mul_mod_left _ _
  have h1 := update_final R (h.absorb h.init (Spec.groups bl pieces.flatten)) _ _ q kw _
    (padOk_of_framing F _ rfl hdone q kw hkw)
  rw [h1]
  -- one-shot
  have hkw' : ∀ l, kw.map (8 * pieces.flatten.length + ·) = some l → l ≤ 8 * (pieces.flatten ++ q).length := by
    intro l hl
    cases kw with
    | none => simp at hl
    | some l0 => simp at hl; subst hl; have := hkw l0 rfl; simp; omega
  have h2 := hash_of_refines R (pieces.flatten ++ q) (kw.map (8 * pieces.flatten.length + ·)) _
    (padOk_of_framing F {} rfl (by simp) (pieces.flatten ++ q) _ hkw')
  rw [h2]
  -- the specification's iteration continues
  have hbits : (Spec.bytesToBits (pieces.flatten ++ q)).take
        ((kw.map (8 * pieces.flatten.length + ·)).getD (8 * (pieces.flatten ++ q).length))
      = Spec.bytesToBits pieces.flatten ++ (Spec.bytesToBits q).take (kw.getD (8 * q.length)) := by
    rw [bytesToBits_append, List.take_append, bytesToBits_length]
    cases kw with
    | none =>
      simp only [Option.map_none, Option.getD_none, List.length_append]
      rw [List.take_of_length_le (by rw [bytesToBits_length]; omega)]
      congr 2; omega
    | some l =>
      simp only [Option.map_some, Option.getD_some]
      rw [List.take_of_length_le (by rw [bytesToBits_length]; omega)]
      congr 2; omega
  have hsc := spec_continue h hbl h.init 0 pieces.flatten (by rw [F.h1]; exact hflat)
    ((Spec.bytesToBits q).take (kw.getD (8 * q.length)))
  rw [F.h1] at hsc
  simp only [Spec.MDHash.hash, hbits]
  rw [← hsc]

end Proofs.Lemmas.Streaming
