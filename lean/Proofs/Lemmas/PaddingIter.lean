/-
  Helper lemmas for C09: the control skeleton of `Padder.iterblocks` (independent of the scheme).
-/
import Model.Padding
namespace Proofs.Lemmas.Padding
open Model Model.Padder

/-- concatenation of the first k blocks of a byte string -/
theorem flatten_blocks (p : Padder) (m : List Nat) (k : Nat) :
    ((List.range k).map (p.blockAt m)).flatten = m.take (k * p.blocklen) := by
  induction k with
  | zero => simp
  | succ k ih =>
    rw [List.range_succ, List.map_append, List.flatten_append, ih]
    simp [Padder.blockAt, Nat.succ_mul, List.take_add]

theorem loopYields_blocks (p : Padder) (st : PadState) (m : List Nat) (k : Nat) :
    (p.loopYields st m k).map (·.1) = (List.range k).map (p.blockAt m) := by
  simp [Padder.loopYields]

theorem loopYields_length (p : Padder) (st : PadState) (m : List Nat) (k : Nat) :
    (p.loopYields st m k).length = k := by
  simp [Padder.loopYields]

theorem loopYields_getElem (p : Padder) (st : PadState) (m : List Nat) (k i : Nat) (h : i < (p.loopYields st m k).length) :
    (p.loopYields st m k)[i] = (p.blockAt m i, { st with bitcnt := st.bitcnt + (i + 1) * p.blocksize }) := by
  simp [Padder.loopYields]

/-- what `iterblocks … padding=True` does once the argument checks have passed -/
theorem iterblocks_padded (p : Padder) (st : PadState) (m : List Nat) (L : Option Nat)
    (hflag : st.padflag = false) (hL : L.getD (8 * m.length) ≤ 8 * m.length) :
    p.iterblocks st m L true =
      p.finishTail (p.loopYields st m (p.loopCount (L.getD (8 * m.length))))
        { st with bitcnt := st.bitcnt + p.loopCount (L.getD (8 * m.length)) * p.blocksize }
        (p.blockAt m (p.loopCount (L.getD (8 * m.length))))
        (p.lastblock { st with bitcnt := st.bitcnt + p.loopCount (L.getD (8 * m.length)) * p.blocksize }
          (p.blockAt m (p.loopCount (L.getD (8 * m.length)))) (L.map (st.bitcnt + ·))) := by
  simp only [Padder.iterblocks, hflag, Nat.not_lt.mpr hL]
  simp

end Proofs.Lemmas.Padding
