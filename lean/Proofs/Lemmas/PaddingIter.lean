/-
  Helper lemmas for C09: the control skeleton of `Padder.iterblocks` (independent of the scheme).
-/
import Proofs.Lemmas.PaddingTail
namespace Proofs.Lemmas.Padding
open Model Model.Padder Spec.Padding

/-- concatenation of the first k blocks of a byte string -/
theorem flatten_blocks (p : Padder) (m : List Nat) (k : Nat) :
    ((List.range k).map (p.blockAt m)).flatten = m.take (k * p.blocklen) := by
  induction k with
  | zero => simp
  | succ k ih =>
    rw [List.range_succ, List.map_append, List.flatten_append, ih]
    simp [Padder.blockAt, Nat.succ_mul, List.take_add]

theorem loopYields_blocks (p : Padder) (st : PadState) (m : List Nat) (k : Nat) :
    (p.loopYields st m k).map (·.1) = (List.range k).map (p.blockAt m) := by
  simp [Padder.loopYields]

theorem loopYields_length (p : Padder) (st : PadState) (m : List Nat) (k : Nat) :
    (p.loopYields st m k).length = k := by
  simp [Padder.loopYields]

theorem loopYields_getElem (p : Padder) (st : PadState) (m : List Nat) (k i : Nat) (h : i < (p.loopYields st m k).length) :
    (p.loopYields st m k)[i] = (p.blockAt m i, { st with bitcnt := st.bitcnt + (i + 1) * p.blocksize }) := by
  simp [Padder.loopYields]

/-- what `iterblocks … padding=True` does once the argument checks have passed -/
theorem iterblocks_padded (p : Padder) (st : PadState) (m : List Nat) (L : Option Nat)
    (hflag : st.padflag = false) (hL : L.getD (8 * m.length) ≤ 8 * m.length) :
    p.iterblocks st m L true =
      p.finishTail (p.loopYields st m (p.loopCount (L.getD (8 * m.length))))
        { st with bitcnt := st.bitcnt + p.loopCount (L.getD (8 * m.length)) * p.blocksize }
        (p.blockAt m (p.loopCount (L.getD (8 * m.length))))
        (p.lastblock { st with bitcnt := st.bitcnt + p.loopCount (L.getD (8 * m.length)) * p.blocksize }
          (p.blockAt m (p.loopCount (L.getD (8 * m.length)))) (L.map (st.bitcnt + ·))) := by
  simp only [Padder.iterblocks, hflag, Nat.not_lt.mpr hL]
  simp

theorem loopCount_spec (p : Padder) (hpos : 0 < p.blocksize) (L : Nat) :
    p.loopCount L * p.blocksize ≤ L ∧ L ≤ p.loopCount L * p.blocksize + p.blocksize ∧
      (0 < L → p.loopCount L * p.blocksize < L) ∧ (L = 0 → p.loopCount L = 0) := by
  unfold Padder.loopCount
  by_cases h : L = 0
  · simp [h]
  · simp only [h, if_false]
    have h1 := Nat.div_mul_le_self (L - 1) p.blocksize
    have h2 := Nat.lt_div_mul_add (a := L - 1) hpos
    exact ⟨by omega, by omega, by omega, fun h0 => h0.elim⟩

theorem blockAt_length (p : Padder) (m : List Nat) (k : Nat) :
    (p.blockAt m k).length = min p.blocklen (m.length - k * p.blocklen) := by
  simp [Padder.blockAt]

theorem Bytes_take {m : List Nat} (hm : Bytes m) (n : Nat) : Bytes (m.take n) :=
  fun x hx => hm x (List.mem_of_mem_take hx)
theorem Bytes_drop {m : List Nat} (hm : Bytes m) (n : Nat) : Bytes (m.drop n) :=
  fun x hx => hm x (List.mem_of_mem_drop hx)
theorem Bytes_append {a b : List Nat} (ha : Bytes a) (hb : Bytes b) : Bytes (a ++ b) := by
  intro x hx; rcases List.mem_append.mp hx with h | h; exact ha x h; exact hb x h
theorem Bytes_blockAt (p : Padder) {m : List Nat} (hm : Bytes m) (k : Nat) : Bytes (p.blockAt m k) :=
  Bytes_take (Bytes_drop hm _) _

/-- the arithmetic of the last piece: k blocks went through the loop, r bits remain, they lie in the piece -/
theorem piece_facts (p : Padder) (hv : Valid p) (m : List Nat) (L : Nat) (hL : L ≤ 8 * m.length) :
    p.loopCount L * p.blocksize = 8 * (p.loopCount L * p.blocklen) ∧
    p.loopCount L * p.blocksize ≤ L ∧ L - p.loopCount L * p.blocksize ≤ p.blocksize ∧
    (0 < L → 0 < L - p.loopCount L * p.blocksize) ∧
    (p.blockAt m (p.loopCount L)).length ≤ p.blocklen ∧
    L - p.loopCount L * p.blocksize ≤ 8 * (p.blockAt m (p.loopCount L)).length ∧
    (L = 8 * m.length → L - p.loopCount L * p.blocksize = 8 * (p.blockAt m (p.loopCount L)).length) := by
  have hB := hv.size_eq
  obtain ⟨h1, h2, h3, h4⟩ := loopCount_spec p hv.pos L
  have e : p.loopCount L * p.blocksize = 8 * (p.loopCount L * p.blocklen) := by
    rw [hB, Nat.mul_left_comm]
  rw [blockAt_length]
  refine ⟨e, h1, by omega, by omega, by omega, by omega, by omega⟩

/-- the result of a padded call, explicitly -/
theorem iterblocks_final (p : Padder) (hv : Valid p) (st : PadState) (hflag : st.padflag = false) (m : List Nat)
    (hm : Bytes m) (L : Option Nat) (hL : L.getD (8 * m.length) ≤ 8 * m.length)
    (hbg : L ≠ none → BitGranular p.scheme) :
    p.iterblocks st m L true =
      p.finishTail (p.loopYields st m (p.loopCount (L.getD (8 * m.length))))
        { st with bitcnt := st.bitcnt + p.loopCount (L.getD (8 * m.length)) * p.blocksize }
        (p.blockAt m (p.loopCount (L.getD (8 * m.length))))
        (.ok (bitsToBytes ((bytesToBits (p.blockAt m (p.loopCount (L.getD (8 * m.length))))).take
                  (L.getD (8 * m.length) - p.loopCount (L.getD (8 * m.length)) * p.blocksize)
                ++ modelTail p (st.bitcnt + p.loopCount (L.getD (8 * m.length)) * p.blocksize)
                  (L.getD (8 * m.length) - p.loopCount (L.getD (8 * m.length)) * p.blocksize)),
          { padflag := true, bitcnt := st.bitcnt + L.getD (8 * m.length),
            padcnt := tailPadcnt p st.padcnt (L.getD (8 * m.length) - p.loopCount (L.getD (8 * m.length)) * p.blocksize) })) := by
  rw [iterblocks_padded p st m L hflag hL]
  obtain ⟨e, h1, h2, h3, h4, h5, h6⟩ := piece_facts p hv m _ hL
  have hkw : KwOK { st with bitcnt := st.bitcnt + p.loopCount (L.getD (8 * m.length)) * p.blocksize }
      (p.blockAt m (p.loopCount (L.getD (8 * m.length)))) (L.map (st.bitcnt + ·))
      (L.getD (8 * m.length) - p.loopCount (L.getD (8 * m.length)) * p.blocksize) := by
    cases L with
    | none => left; exact ⟨rfl, h6 rfl⟩
    | some a =>
      right
      simp only [Option.map_some, Option.getD_some] at h1 ⊢
      congr 1; omega
  rw [lastblock_ok p hv _ _ (Bytes_blockAt p hm _) h4 _ _ h5 hkw (by cases L <;> simp_all)]
  congr 4
  simp only
  omega

/-! ### the explicit result of a padded call -/

/-- effective bit length of a call -/
def effLen (m : List Nat) (L : Option Nat) : Nat := L.getD (8 * m.length)
/-- blocks that leave through the loop -/
def kOf (p : Padder) (m : List Nat) (L : Option Nat) : Nat := p.loopCount (effLen m L)
/-- message bits left for the tail -/
def rOf (p : Padder) (m : List Nat) (L : Option Nat) : Nat := effLen m L - kOf p m L * p.blocksize
/-- the bytes `lastblock` returns -/
def tailBytes (p : Padder) (st : PadState) (m : List Nat) (L : Option Nat) : List Nat :=
  bitsToBytes ((bytesToBits (p.blockAt m (kOf p m L))).take (rOf p m L)
    ++ modelTail p (st.bitcnt + kOf p m L * p.blocksize) (rOf p m L))
/-- the object state at the first tail block -/
def tailState (p : Padder) (st : PadState) (m : List Nat) (L : Option Nat) : PadState :=
  { padflag := true, bitcnt := if rOf p m L = 0 then 0 else st.bitcnt + effLen m L,
    padcnt := tailPadcnt p st.padcnt (rOf p m L) }

theorem iterblocks_run (p : Padder) (hv : Valid p) (st : PadState) (hflag : st.padflag = false) (m : List Nat)
    (hm : Bytes m) (L : Option Nat) (hL : effLen m L ≤ 8 * m.length) (hbg : L ≠ none → BitGranular p.scheme) :
    p.iterblocks st m L true =
      if (tailBytes p st m L).length ≤ p.blocklen then
        ⟨p.loopYields st m (kOf p m L) ++ [(tailBytes p st m L, tailState p st m L)], tailState p st m L, none⟩
      else
        ⟨p.loopYields st m (kOf p m L) ++ [((tailBytes p st m L).take p.blocklen, tailState p st m L),
            ((tailBytes p st m L).drop p.blocklen, { tailState p st m L with bitcnt := 0 })],
          { tailState p st m L with bitcnt := 0 }, none⟩ := by
  rw [iterblocks_final p hv st hflag m hm L hL hbg]
  obtain ⟨e, h1, h2, h3, h4, h5, h6⟩ := piece_facts p hv m _ hL
  have hst : (if st.bitcnt + L.getD (8 * m.length) = st.bitcnt + p.loopCount (L.getD (8 * m.length)) * p.blocksize
        then ({ padflag := true, bitcnt := 0,
                padcnt := tailPadcnt p st.padcnt (L.getD (8 * m.length) - p.loopCount (L.getD (8 * m.length)) * p.blocksize) } : PadState)
        else { padflag := true, bitcnt := st.bitcnt + L.getD (8 * m.length),
               padcnt := tailPadcnt p st.padcnt (L.getD (8 * m.length) - p.loopCount (L.getD (8 * m.length)) * p.blocksize) })
      = tailState p st m L := by
    simp only [tailState, rOf, kOf, effLen] at h1 ⊢
    by_cases hc : L.getD (8 * m.length) - p.loopCount (L.getD (8 * m.length)) * p.blocksize = 0
    · have : st.bitcnt + L.getD (8 * m.length) = st.bitcnt + p.loopCount (L.getD (8 * m.length)) * p.blocksize := by omega
      simp only [hc, this, if_true]
    · have : ¬ st.bitcnt + L.getD (8 * m.length) = st.bitcnt + p.loopCount (L.getD (8 * m.length)) * p.blocksize := by omega
      simp only [hc, this, if_false]
  simp only [Padder.finishTail, hst]
  by_cases hlen : (tailBytes p st m L).length ≤ p.blocklen
  · have hd : ¬ ((tailBytes p st m L).drop p.blocklen).length > 0 := by rw [List.length_drop]; omega
    have ht : (tailBytes p st m L).take p.blocklen = tailBytes p st m L := List.take_of_length_le hlen
    simp only [tailBytes, kOf, rOf, effLen] at hd ht hlen ⊢
    simp only [hd, hlen, if_true, if_false, ht]
  · have hd : ((tailBytes p st m L).drop p.blocklen).length > 0 := by rw [List.length_drop]; omega
    simp only [tailBytes, kOf, rOf, effLen] at hd hlen ⊢
    simp only [hd, hlen, if_true, if_false]

end Proofs.Lemmas.Padding
