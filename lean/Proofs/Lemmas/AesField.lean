/-
  GF(2^8) facts about Spec.Aes.gfmul used by the AES proofs: xor-additivity in the second argument (structural,
  for all naturals), hence GF(2)-linearity of every "multiply by a constant" map; the regenerated Exp/Log `gmul`
  agrees with `gfmul` for the six MixColumns/InvMixColumns coefficients (kernel enumeration, 6×256).
-/
import Proofs.Lemmas.AesBasic
namespace Proofs.Aes
open Model.Aes Spec.Aes

theorem ite_xor_bool (p q : Bool) (v : Nat) :
    (if (p ^^ q) = true then v else 0) = (if p = true then v else 0) ^^^ (if q = true then v else 0) := by
  cases p <;> cases q <;> simp

/-- "coefficient times polynomial" is a conditional -/
theorem coef_mul (p i v : Nat) : coef p i * v = if p.testBit i then v else 0 := by
  unfold coef
  rw [Nat.testBit_eq_decide_div_mod_eq, Nat.shiftRight_eq_div_pow]
  rcases Nat.mod_two_eq_zero_or_one (p / 2 ^ i) with h | h <;> simp [h]

theorem clmul_xor_right (c x y : Nat) (n : Nat) : clmul c (x ^^^ y) n = clmul c x n ^^^ clmul c y n := by
  induction n with
  | zero => simp [clmul]
  | succ i ih =>
    simp only [clmul, ih, coef_mul, Nat.testBit_xor, ite_xor_bool]
    ac_rfl

theorem reduce_xor (p q : Nat) (n : Nat) : reduce (p ^^^ q) n = reduce p n ^^^ reduce q n := by
  induction n generalizing p q with
  | zero => rfl
  | succ i ih =>
    simp only [reduce]
    rw [← ih]
    congr 1
    simp only [coef_mul, Nat.testBit_xor, ite_xor_bool]
    ac_rfl

/-- multiplication by a constant is GF(2)-linear -/
theorem gfmul_xor_right (c x y : Nat) : gfmul c (x ^^^ y) = gfmul c x ^^^ gfmul c y := by
  simp only [gfmul, clmul_xor_right, reduce_xor]

theorem gfmul_zero_right (c : Nat) : gfmul c 0 = 0 := by
  have h := gfmul_xor_right c 0 0
  simp only [Nat.xor_self] at h
  exact h

/-! the log/antilog `gmul` of the code on the MixColumns coefficients -/
theorem gmulB_2 : ∀ a < 256, gmulB a 2 = gfmul 2 a := by decide +kernel
theorem gmulB_3 : ∀ a < 256, gmulB a 3 = gfmul 3 a := by decide +kernel
theorem gmulB_9 : ∀ a < 256, gmulB a 9 = gfmul 9 a := by decide +kernel
theorem gmulB_11 : ∀ a < 256, gmulB a 11 = gfmul 11 a := by decide +kernel
theorem gmulB_13 : ∀ a < 256, gmulB a 13 = gfmul 13 a := by decide +kernel
theorem gmulB_14 : ∀ a < 256, gmulB a 14 = gfmul 14 a := by decide +kernel

end Proofs.Aes
