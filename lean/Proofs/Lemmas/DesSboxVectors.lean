/-
  The nineteen key / plaintext / ciphertext triples of the "substitution table (S-box) test" of the NBS DES validation
  suite (NBS Special Publication 500-20, Validating the Correctness of Hardware Implementations of the NBS Data
  Encryption Standard, 1977/1980), typed from the publication, and an instrumented enciphering that lists the inputs
  presented to the eight S-boxes.  Used by Proofs/C02_DesSpec/{SboxKat,SboxCover}.lean.
-/
import Spec.Des
namespace Proofs.Lemmas.DesSboxVectors
open Spec.Des

/-- (key, plaintext, ciphertext) as 64-bit numbers -/
def vectors : List (Nat × Nat × Nat) :=
  [(0x7CA110454A1A6E57, 0x01A1D6D039776742, 0x690F5B0D9A26939B),
   (0x0131D9619DC1376E, 0x5CD54CA83DEF57DA, 0x7A389D10354BD271),
   (0x07A1133E4A0B2686, 0x0248D43806F67172, 0x868EBB51CAB4599A),
   (0x3849674C2602319E, 0x51454B582DDF440A, 0x7178876E01F19B2A),
   (0x04B915BA43FEB5B6, 0x42FD443059577FA2, 0xAF37FB421F8C4095),
   (0x0113B970FD34F2CE, 0x059B5E0851CF143A, 0x86A560F10EC6D85B),
   (0x0170F175468FB5E6, 0x0756D8E0774761D2, 0x0CD3DA020021DC09),
   (0x43297FAD38E373FE, 0x762514B829BF486A, 0xEA676B2CB7DB2B7A),
   (0x07A7137045DA2A16, 0x3BDD119049372802, 0xDFD64A815CAF1A0F),
   (0x04689104C2FD3B2F, 0x26955F6835AF609A, 0x5C513C9C4886C088),
   (0x37D06BB516CB7546, 0x164D5E404F275232, 0x0A2AEEAE3FF4AB77),
   (0x1F08260D1AC2465E, 0x6B056E18759F5CCA, 0xEF1BF03E5DFA575A),
   (0x584023641ABA6176, 0x004BD6EF09176062, 0x88BF0DB6D70DEE56),
   (0x025816164629B007, 0x480D39006EE762F2, 0xA1F9915541020B56),
   (0x49793EBC79B3258F, 0x437540C8698F3CFA, 0x6FBF1CAFCFFD0556),
   (0x4FB05E1515AB73A7, 0x072D43A077075292, 0x2F22E49BAB7CA1AC),
   (0x49E95D6D4CA229BF, 0x02FE55778117F12A, 0x5A6B612CC26CCE4A),
   (0x018310DC409B26D6, 0x1D9D5C5018F728C2, 0x5F4C038ED12B2E41),
   (0x1C587F1C13924FEF, 0x305532286D6F295A, 0x63FAC0D034D9F793)]

/-- the eight bytes of a 64-bit number, most significant first -/
def bytes8 (x : Nat) : List Nat := (List.range 8).map fun i => (x >>> (8 * (7 - i))) % 256

/-- the S-box inputs of one enciphering with `Spec.Des`: for each of the sixteen rounds and each n < 8 the code
    64·n + (the 6-bit block B_{n+1} of K ⊕ E(R) read in base 2), i.e. exactly the arguments `Spec.Des.f` hands to
    `Spec.Des.sbox n` -/
def sboxInputs (key blk : List Nat) : List Nat :=
  let x := permute IP (bytesToBits blk)
  ((keySchedule (bytesToBits key)).foldl
    (fun (st : (Bitstr × Bitstr) × List Nat) K =>
      let B := xor K (permute E st.1.2)
      (round st.1 K, st.2 ++ (List.range 8).map fun n => 64 * n + natOfBits ((B.drop (6 * n)).take 6)))
    ((x.take 32, x.drop 32), [])).2

/-- all S-box inputs of the encipherings of the given test vectors -/
def inputsOf (vs : List (Nat × Nat × Nat)) : List Nat := vs.flatMap fun t => sboxInputs (bytes8 t.1) (bytes8 t.2.1)

/-- the k-th group of five test vectors (k = 0..3; the last group has four) -/
def part (k : Nat) : List (Nat × Nat × Nat) := (vectors.drop (5 * k)).take 5

theorem vectors_parts : vectors = part 0 ++ part 1 ++ part 2 ++ part 3 := by decide

/-- the set of numbers occurring in a list, as a bit mask -/
def mask (l : List Nat) : Nat := l.foldl (fun m c => m ||| (1 <<< c)) 0

theorem testBit_foldl_mask (l : List Nat) (m0 c : Nat)
    (h : (l.foldl (fun m c => m ||| (1 <<< c)) m0).testBit c = true) : m0.testBit c = true ∨ c ∈ l := by
  induction l generalizing m0 with
  | nil => exact Or.inl h
  | cons a l ih =>
    simp only [List.foldl_cons] at h
    rcases ih _ h with h1 | h1
    · rw [Nat.testBit_or, Bool.or_eq_true] at h1
      rcases h1 with h2 | h2
      · exact Or.inl h2
      · right
        rw [Nat.testBit_shiftLeft] at h2
        simp only [Bool.and_eq_true, decide_eq_true_eq] at h2
        have : c - a = 0 := Nat.testBit_one_eq_true_iff_self_eq_zero.mp h2.2
        have : c = a := by omega
        subst this
        exact List.mem_cons_self
    · exact Or.inr (List.mem_cons_of_mem _ h1)

theorem mem_of_mask_testBit {l : List Nat} {c : Nat} (h : (mask l).testBit c = true) : c ∈ l := by
  rcases testBit_foldl_mask l 0 c h with h0 | h0
  · simp at h0
  · exact h0

theorem inputsOf_append (a b : List (Nat × Nat × Nat)) : inputsOf (a ++ b) = inputsOf a ++ inputsOf b := by
  simp [inputsOf]

end Proofs.Lemmas.DesSboxVectors
