/-
  Continuation of the block iterator: a block-aligned non-empty piece followed by a non-empty rest yields what the
  concatenation yields (blocks and observed states), for the block sizes BLAKE / BLAKE2 use.
-/
import Model.Blake
namespace Proofs.Lemmas.BlakePieces
open Model Model.Py

theorem blockAt_append_left (p : Padder) (a b : List Nat) (i : Nat) (h : (i + 1) * p.blocklen ≤ a.length) :
    p.blockAt (a ++ b) i = p.blockAt a i := by
  unfold Padder.blockAt
  rw [List.drop_append_of_le_length (by rw [Nat.add_mul] at h; omega)]
  rw [List.take_append_of_le_length (by rw [List.length_drop, Nat.add_mul] at *; omega)]

theorem blockAt_append_right (p : Padder) (a b : List Nat) (n i : Nat) (h : a.length = n * p.blocklen) :
    p.blockAt (a ++ b) (n + i) = p.blockAt b i := by
  unfold Padder.blockAt
  rw [Nat.add_mul, ← h, List.drop_append, List.drop_eq_nil_of_le (by omega), Nat.add_sub_cancel_left, List.nil_append]

/-- a non-final call on a non-empty block-aligned piece: explicit yields and final state -/
theorem iter_nonfinal (p : Padder) (hB : p.blocksize = 512 ∨ p.blocksize = 1024) (st : PadState) (hpf : st.padflag = false)
    (a : List Nat) (n : Nat) (hn : a.length = (n + 1) * p.blocklen) :
    p.iterblocks st a none false =
      ⟨p.loopYields st a n ++ [(p.blockAt a n, { st with bitcnt := st.bitcnt + (n + 1) * p.blocksize })],
       { st with bitcnt := st.bitcnt + (n + 1) * p.blocksize }, none⟩ := by
  obtain ⟨sch, B⟩ := p
  simp only at hB
  have hlc : Padder.loopCount ⟨sch, B⟩ (8 * a.length) = n := by
    simp only [Padder.loopCount, Padder.blocklen] at *
    rcases hB with rfl | rfl <;> (split <;> omega)
  have hmod : 8 * a.length % B = 0 := by
    simp only [Padder.blocklen] at hn
    rcases hB with rfl | rfl <;> omega
  have hpos : ¬ (8 * a.length = 0) := by
    simp only [Padder.blocklen] at hn
    rcases hB with rfl | rfl <;> omega
  unfold Padder.iterblocks
  simp only [hpf, Option.getD_none, Bool.false_eq_true, if_false, Nat.lt_irrefl, Bool.not_false, true_and, hmod, hpos, hlc]

theorem loopYields_append (p : Padder) (st : PadState) (a b : List Nat) (n k : Nat) (hn : a.length = (n + 1) * p.blocklen) :
    p.loopYields st (a ++ b) (n + 1 + k) =
      p.loopYields st a n ++ [(p.blockAt a n, { st with bitcnt := st.bitcnt + (n + 1) * p.blocksize })]
        ++ p.loopYields { st with bitcnt := st.bitcnt + (n + 1) * p.blocksize } b k := by
  unfold Padder.loopYields
  rw [List.range_add, List.map_append, List.range_succ, List.map_append, List.map_map]
  congr 1
  · congr 1
    · apply List.map_congr_left
      intro i hi
      have hik := List.mem_range.mp hi
      rw [blockAt_append_left]
      rw [hn]; exact Nat.mul_le_mul_right _ (by omega)
    · simp only [List.map_cons, List.map_nil]
      rw [blockAt_append_left _ _ _ _ (by rw [hn]; exact Nat.le_refl _)]
  · apply List.map_congr_left
    intro j _
    simp only [Function.comp]
    rw [blockAt_append_right _ _ _ _ _ hn]
    congr 2
    rw [show n + 1 + j + 1 = (n + 1) + (j + 1) by omega, Nat.add_mul (n + 1) (j + 1)]
    omega

/-- continuation: hashing `a ++ b` in one padding call yields what a non-final call on the aligned non-empty piece `a`
    followed by the padding call on the non-empty rest `b` yields, and leaves the same state -/
theorem iter_append (p : Padder) (hB : p.blocksize = 512 ∨ p.blocksize = 1024) (st : PadState) (hpf : st.padflag = false)
    (a b : List Nat) (n : Nat) (hn : a.length = (n + 1) * p.blocklen) (hb : b ≠ []) :
    p.iterblocks st (a ++ b) none true =
      ⟨(p.iterblocks st a none false).yields ++ (p.iterblocks (p.iterblocks st a none false).final b none true).yields,
       (p.iterblocks (p.iterblocks st a none false).final b none true).final,
       (p.iterblocks (p.iterblocks st a none false).final b none true).err⟩ := by
  rw [iter_nonfinal p hB st hpf a n hn]
  have hbl : 0 < b.length := List.length_pos_iff.mpr hb
  have hlc : p.loopCount (8 * (a ++ b).length) = n + 1 + p.loopCount (8 * b.length) := by
    obtain ⟨sch, B⟩ := p
    simp only [Padder.loopCount, Padder.blocklen, List.length_append] at *
    rcases hB with rfl | rfl <;> (split <;> split <;> omega)
  generalize hk : p.loopCount (8 * b.length) = k at hlc
  unfold Padder.iterblocks
  simp only [hpf, Option.getD_none, Bool.false_eq_true, if_false, Nat.lt_irrefl, Bool.not_true, false_and, if_true,
    Option.map_none, hlc, hk]
  rw [loopYields_append p st a b n k hn, blockAt_append_right p a b (n + 1) k hn]
  have hst : ({ st with bitcnt := st.bitcnt + (n + 1 + k) * p.blocksize } : PadState) =
      { st with bitcnt := st.bitcnt + (n + 1) * p.blocksize + k * p.blocksize } := by
    congr 1; rw [Nat.add_mul (n + 1) k]; omega
  simp only [hpf] at hst
  rw [hst]
  cases p.lastblock { bitcnt := st.bitcnt + (n + 1) * p.blocksize + k * p.blocksize, padcnt := st.padcnt } (p.blockAt b k) none with
  | error e => simp [Padder.finishTail, List.append_assoc, hpf]
  | ok r =>
    obtain ⟨npi, st2⟩ := r
    simp only [Padder.finishTail]
    split <;> simp [List.append_assoc, hpf]

end Proofs.Lemmas.BlakePieces
