/-
  The bit-expression lambdas translated from the source (Model.Gen.Hashes) equal the functions of the standards
  on all words: first pushed through the Bits↔BitVec bridge, then a bitwise identity (extensionality + case split).
-/
import Proofs.Lemmas.BitsBitVec
import Spec.Hash
namespace Proofs.Lemmas.RoundFns
open Model Model.Gen.Hashes Proofs.Lemmas.BitsBitVec

/-- push the embedding through any expression over the closed operator grammar of the translator, then decide the
    remaining bitwise identity of three words by extensionality and case split (robust against re-association or an
    equivalent rewriting of the lambda in the source) -/
macro "bitwise_bridge" x:ident y:ident z:ident : tactic => `(tactic|
  ((simp (disch := decide) only [xor_ofBV, and_ofBV, or_ofBV, inv_ofBV, shl_ofBV, shr_ofBV, rol_ofBV, ror_ofBV]) <;>
   first
   | rfl
   | (congr 1
      ext i hi
      simp only [BitVec.getElem_xor, BitVec.getElem_and, BitVec.getElem_or, BitVec.getElem_not]
      cases ($x)[i] <;> cases ($y)[i] <;> cases ($z)[i] <;> rfl)))

/-- the same for one-word functions built from rotations and shifts -/
macro "rot_bridge" : tactic => `(tactic|
  ((simp (disch := decide) only [xor_ofBV, and_ofBV, or_ofBV, inv_ofBV, shl_ofBV, shr_ofBV, rol_ofBV, ror_ofBV]) <;>
   rfl))

section
variable {w : Nat}

/-- code: `z^(x&(y^z))`; FIPS 180-4: (x ∧ y) ⊕ (¬x ∧ z) -/
theorem Ch_ofBV (x y z : BitVec w) : Ch (ofBV x) (ofBV y) (ofBV z) = ofBV (Spec.Sha2.Ch x y z) := by
  unfold Ch Spec.Sha2.Ch
  bitwise_bridge x y z

/-- code: `(x&y)|(x&z)|(y&z)`; FIPS 180-4: (x ∧ y) ⊕ (x ∧ z) ⊕ (y ∧ z) -/
theorem Maj_ofBV (x y z : BitVec w) : Maj (ofBV x) (ofBV y) (ofBV z) = ofBV (Spec.Sha2.Maj x y z) := by
  unfold Maj Spec.Sha2.Maj
  bitwise_bridge x y z

theorem Parity_ofBV (x y z : BitVec w) : Parity (ofBV x) (ofBV y) (ofBV z) = ofBV (x ^^^ y ^^^ z) := by
  unfold Parity
  bitwise_bridge x y z

end

theorem Sigma_0_32_ofBV (x : BitVec 32) : Sigma_0_32 (ofBV x) = ofBV (Spec.Sha2.fam256.Sigma0 x) := by
  unfold Sigma_0_32
  rot_bridge

theorem Sigma_1_32_ofBV (x : BitVec 32) : Sigma_1_32 (ofBV x) = ofBV (Spec.Sha2.fam256.Sigma1 x) := by
  unfold Sigma_1_32
  rot_bridge

theorem sigma_0_32_ofBV (x : BitVec 32) : sigma_0_32 (ofBV x) = ofBV (Spec.Sha2.fam256.sigma0 x) := by
  unfold sigma_0_32
  rot_bridge

theorem sigma_1_32_ofBV (x : BitVec 32) : sigma_1_32 (ofBV x) = ofBV (Spec.Sha2.fam256.sigma1 x) := by
  unfold sigma_1_32
  rot_bridge

theorem Sigma_0_64_ofBV (x : BitVec 64) : Sigma_0_64 (ofBV x) = ofBV (Spec.Sha2.fam512.Sigma0 x) := by
  unfold Sigma_0_64
  rot_bridge

theorem Sigma_1_64_ofBV (x : BitVec 64) : Sigma_1_64 (ofBV x) = ofBV (Spec.Sha2.fam512.Sigma1 x) := by
  unfold Sigma_1_64
  rot_bridge

theorem sigma_0_64_ofBV (x : BitVec 64) : sigma_0_64 (ofBV x) = ofBV (Spec.Sha2.fam512.sigma0 x) := by
  unfold sigma_0_64
  rot_bridge

theorem sigma_1_64_ofBV (x : BitVec 64) : sigma_1_64 (ofBV x) = ofBV (Spec.Sha2.fam512.sigma1 x) := by
  unfold sigma_1_64
  rot_bridge


/-! SHA-1 (FIPS 180-4 §4.1.1, on 32-bit words) -/
theorem sha1_Ch (x y z : BitVec 32) : Ch (ofBV x) (ofBV y) (ofBV z) = ofBV (Spec.Sha1.Ch x y z) := Ch_ofBV x y z
theorem sha1_Maj (x y z : BitVec 32) : Maj (ofBV x) (ofBV y) (ofBV z) = ofBV (Spec.Sha1.Maj x y z) := Maj_ofBV x y z
theorem sha1_Parity (x y z : BitVec 32) : Parity (ofBV x) (ofBV y) (ofBV z) = ofBV (Spec.Sha1.Parity x y z) := Parity_ofBV x y z

/-! MD4 (RFC 1320 §3.4) -/
theorem md4_f_ofBV (x y z : BitVec 32) : md4_f (ofBV x) (ofBV y) (ofBV z) = ofBV (Spec.Md4.F x y z) := by
  unfold md4_f Spec.Md4.F
  bitwise_bridge x y z

theorem md4_g_ofBV (x y z : BitVec 32) : md4_g (ofBV x) (ofBV y) (ofBV z) = ofBV (Spec.Md4.G x y z) := by
  unfold md4_g Spec.Md4.G
  bitwise_bridge x y z

theorem md4_h_ofBV (x y z : BitVec 32) : md4_h (ofBV x) (ofBV y) (ofBV z) = ofBV (Spec.Md4.H x y z) := by
  unfold md4_h Spec.Md4.H
  bitwise_bridge x y z

/-! MD5 (RFC 1321 §3.4) -/
theorem md5_f_ofBV (x y z : BitVec 32) : md5_f (ofBV x) (ofBV y) (ofBV z) = ofBV (Spec.Md5.F x y z) := by
  unfold md5_f Spec.Md5.F
  bitwise_bridge x y z

/-- code: `g = f(z,x,y)`; RFC 1321: G(X,Y,Z) = XZ ∨ Y¬Z -/
theorem md5_g_ofBV (x y z : BitVec 32) : md5_g (ofBV x) (ofBV y) (ofBV z) = ofBV (Spec.Md5.G x y z) := by
  unfold md5_g md5_f Spec.Md5.G
  bitwise_bridge x y z

theorem md5_h_ofBV (x y z : BitVec 32) : md5_h (ofBV x) (ofBV y) (ofBV z) = ofBV (Spec.Md5.H x y z) := by
  unfold md5_h Spec.Md5.H
  bitwise_bridge x y z

theorem md5_i_ofBV (x y z : BitVec 32) : md5_i (ofBV x) (ofBV y) (ofBV z) = ofBV (Spec.Md5.I x y z) := by
  unfold md5_i Spec.Md5.I
  bitwise_bridge x y z

end Proofs.Lemmas.RoundFns
