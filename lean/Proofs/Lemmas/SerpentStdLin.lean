/-
  Lemmas for Spec.SerpentStd: the bit-level parity tables of the linear transformation and of its inverse are exactly
  IP ∘ (bitslice linear transformation on the four words) ∘ FP.  Method: both sides are xor-linear, so it suffices to
  compare them on the 128 unit vectors (kernel evaluation).
-/
import Proofs.Lemmas.SerpentStdPerm
namespace Proofs.Lemmas.SerpentStdLin
open Spec.Serpent Proofs.Lemmas.SerpentBits Proofs.Lemmas.SerpentComp Proofs.Lemmas.SerpentSpec
open Proofs.Lemmas.SerpentStdPerm

/-! ### xor-linear maps on numbers are determined by the unit vectors -/
theorem lin_zero (f : Nat → Nat) (hf : ∀ a b, f (a ^^^ b) = f a ^^^ f b) : f 0 = 0 := by
  have h := hf 0 0
  rw [Nat.xor_self] at h
  have h2 : f 0 ^^^ f 0 = 0 := Nat.xor_self _
  rw [h2] at h; exact h

theorem split_top (x n : Nat) (hx : x < 2 ^ (n + 1)) :
    x = (x % 2 ^ n) ^^^ (if x.testBit n then 2 ^ n else 0) := by
  apply Nat.eq_of_testBit_eq; intro j
  rw [Nat.testBit_xor, Nat.testBit_mod_two_pow]
  by_cases hj : j < n
  · have : (if x.testBit n = true then 2 ^ n else 0).testBit j = false := by
      split
      · rw [Nat.testBit_two_pow]; simp; omega
      · simp
    simp [hj, this]
  · by_cases hjn : j = n
    · subst hjn
      cases hb : x.testBit j <;> simp
    · have h1 : x.testBit j = false :=
        Nat.testBit_lt_two_pow (Nat.lt_of_lt_of_le hx (Nat.pow_le_pow_right (by decide) (by omega)))
      have : (if x.testBit n = true then 2 ^ n else 0).testBit j = false := by
        split
        · rw [Nat.testBit_two_pow]; simp; omega
        · simp
      simp [hj, this, h1]

theorem lin_ext (f g : Nat → Nat) (hf : ∀ a b, f (a ^^^ b) = f a ^^^ f b) (hg : ∀ a b, g (a ^^^ b) = g a ^^^ g b)
    (n : Nat) (hb : ∀ k < n, f (2 ^ k) = g (2 ^ k)) : ∀ x, x < 2 ^ n → f x = g x := by
  induction n with
  | zero =>
    intro x hx
    have : x = 0 := by simpa using hx
    subst this
    rw [lin_zero f hf, lin_zero g hg]
  | succ n ih =>
    intro x hx
    have ih' := ih (fun k hk => hb k (Nat.lt_succ_of_lt hk))
    rw [split_top x n hx, hf, hg, ih' _ (Nat.mod_lt _ (Nat.two_pow_pos _))]
    congr 1
    split
    · exact hb n (Nat.lt_succ_self n)
    · rw [lin_zero f hf, lin_zero g hg]

/-! ### the parity-table maps are xor-linear -/
theorem parity_xor (a b : Nat) (l : List Nat) :
    Spec.SerpentStd.parity (a ^^^ b) l = (Spec.SerpentStd.parity a l != Spec.SerpentStd.parity b l) := by
  induction l with
  | nil => rfl
  | cons x xs ih =>
    simp only [Spec.SerpentStd.parity, ih, Nat.testBit_xor]
    cases a.testBit x <;> cases b.testBit x <;> cases Spec.SerpentStd.parity a xs <;>
      cases Spec.SerpentStd.parity b xs <;> rfl

theorem linear_xor (tbl : List (List Nat)) (a b : Nat) :
    Spec.SerpentStd.linear tbl (a ^^^ b) = Spec.SerpentStd.linear tbl a ^^^ Spec.SerpentStd.linear tbl b := by
  apply Nat.eq_of_testBit_eq; intro j
  unfold Spec.SerpentStd.linear
  rw [Nat.testBit_xor, testBit_ofBitFn, testBit_ofBitFn, testBit_ofBitFn, parity_xor]
  cases decide (j < 128) <;> simp

theorem linear_lt (tbl : List (List Nat)) (a : Nat) : Spec.SerpentStd.linear tbl a < 2 ^ 128 := ofBitFn_lt _ _

/-! ### rotations and shifts of 32-bit words are xor-linear -/
theorem testBit_rotl (a n j : Nat) (hn : n ≤ 32) (ha : a < 2 ^ 32) :
    (rotl a n).testBit j = (decide (j < 32) && (if j < n then a.testBit (j + 32 - n) else a.testBit (j - n))) := by
  have h := testBit_rol! (W a) n j hn ha
  rw [W_rol! a n hn] at h
  exact h

theorem testBit_rotr (a n j : Nat) (hn : n ≤ 32) (ha : a < 2 ^ 32) :
    (rotr a n).testBit j = (decide (j < 32) && (if j + n < 32 then a.testBit (j + n) else a.testBit (j + n - 32))) := by
  have h := testBit_ror! (W a) n j hn ha
  rw [W_ror! a n hn] at h
  exact h

theorem rotl_xor (a b n : Nat) (hn : n ≤ 32) (ha : a < 2 ^ 32) (hb : b < 2 ^ 32) :
    rotl (a ^^^ b) n = rotl a n ^^^ rotl b n := by
  apply Nat.eq_of_testBit_eq; intro j
  rw [Nat.testBit_xor, testBit_rotl _ n j hn (Nat.xor_lt_two_pow ha hb), testBit_rotl a n j hn ha,
    testBit_rotl b n j hn hb]
  by_cases hj : j < 32 <;> by_cases hjn : j < n <;> simp [hj, hjn, Nat.testBit_xor]

theorem rotr_xor (a b n : Nat) (hn : n ≤ 32) (ha : a < 2 ^ 32) (hb : b < 2 ^ 32) :
    rotr (a ^^^ b) n = rotr a n ^^^ rotr b n := by
  apply Nat.eq_of_testBit_eq; intro j
  rw [Nat.testBit_xor, testBit_rotr _ n j hn (Nat.xor_lt_two_pow ha hb), testBit_rotr a n j hn ha,
    testBit_rotr b n j hn hb]
  by_cases hj : j < 32 <;> by_cases hjn : j + n < 32 <;> simp [hj, hjn, Nat.testBit_xor]

theorem shl_xor (a b n : Nat) : shl (a ^^^ b) n = shl a n ^^^ shl b n := by
  unfold shl
  rw [Nat.shiftLeft_xor_distrib, Nat.xor_mod_two_pow]

theorem xor3 (a b c d e f : Nat) : (a ^^^ b) ^^^ (c ^^^ d) ^^^ (e ^^^ f) = (a ^^^ c ^^^ e) ^^^ (b ^^^ d ^^^ f) := by
  apply Nat.eq_of_testBit_eq; intro j
  simp only [Nat.testBit_xor]
  cases a.testBit j <;> cases b.testBit j <;> cases c.testBit j <;> cases d.testBit j <;> cases e.testBit j <;>
    cases f.testBit j <;> rfl

/-! ### the bitslice linear transformation as a composition of five word-level steps, each xor-linear -/
/-- a state map that preserves 32-bit words and is xor-linear on them -/
def Lin (f : State → State) : Prop :=
  (∀ s, WS s → WS (f s)) ∧ ∀ s t, WS s → WS t → f (s.xor t) = (f s).xor (f t)

theorem Lin.comp {f g : State → State} (hf : Lin f) (hg : Lin g) : Lin (fun s => g (f s)) :=
  ⟨fun s hs => hg.1 _ (hf.1 s hs), fun s t hs ht => by
    show g (f (s.xor t)) = _
    rw [hf.2 s t hs ht, hg.2 _ _ (hf.1 s hs) (hf.1 t ht)]⟩

/-- rotate words 0 and 2 -/
def rot02 (r : Nat → Nat → Nat) (n0 n2 : Nat) (s : State) : State := ⟨r s.x0 n0, s.x1, r s.x2 n2, s.x3⟩
/-- rotate words 1 and 3 -/
def rot13 (r : Nat → Nat → Nat) (n1 n3 : Nat) (s : State) : State := ⟨s.x0, r s.x1 n1, s.x2, r s.x3 n3⟩
/-- X1 ^= X0^X2; X3 ^= X2^(X0<<n) -/
def mix13 (n : Nat) (s : State) : State := ⟨s.x0, s.x1 ^^^ s.x0 ^^^ s.x2, s.x2, s.x3 ^^^ s.x2 ^^^ shl s.x0 n⟩
/-- X0 ^= X1^X3; X2 ^= X3^(X1<<n) -/
def mix02 (n : Nat) (s : State) : State := ⟨s.x0 ^^^ s.x1 ^^^ s.x3, s.x1, s.x2 ^^^ s.x3 ^^^ shl s.x1 n, s.x3⟩

theorem lt_steps (s : State) :
    lt s = rot02 rotl 5 22 (mix02 7 (rot13 rotl 1 7 (mix13 3 (rot02 rotl 13 3 s)))) := rfl

theorem ltInv_steps (s : State) :
    ltInv s = rot02 rotr 13 3 (mix13 3 (rot13 rotr 1 7 (mix02 7 (rot02 rotr 5 22 s)))) := rfl

theorem lin_rot02_l (n0 n2 : Nat) (h0 : n0 ≤ 32) (h2 : n2 ≤ 32) : Lin (rot02 rotl n0 n2) :=
  ⟨fun s hs => ⟨rotl_lt _ _, hs.2.1, rotl_lt _ _, hs.2.2.2⟩, fun s t hs ht => by
    simp only [rot02, State.xor]
    rw [rotl_xor _ _ _ h0 hs.1 ht.1, rotl_xor _ _ _ h2 hs.2.2.1 ht.2.2.1]⟩

theorem lin_rot13_l (n1 n3 : Nat) (h1 : n1 ≤ 32) (h3 : n3 ≤ 32) : Lin (rot13 rotl n1 n3) :=
  ⟨fun s hs => ⟨hs.1, rotl_lt _ _, hs.2.2.1, rotl_lt _ _⟩, fun s t hs ht => by
    simp only [rot13, State.xor]
    rw [rotl_xor _ _ _ h1 hs.2.1 ht.2.1, rotl_xor _ _ _ h3 hs.2.2.2 ht.2.2.2]⟩

theorem lin_rot02_r (n0 n2 : Nat) (h0 : n0 ≤ 32) (h2 : n2 ≤ 32) : Lin (rot02 rotr n0 n2) :=
  ⟨fun s hs => ⟨rotr_lt _ _, hs.2.1, rotr_lt _ _, hs.2.2.2⟩, fun s t hs ht => by
    simp only [rot02, State.xor]
    rw [rotr_xor _ _ _ h0 hs.1 ht.1, rotr_xor _ _ _ h2 hs.2.2.1 ht.2.2.1]⟩

theorem lin_rot13_r (n1 n3 : Nat) (h1 : n1 ≤ 32) (h3 : n3 ≤ 32) : Lin (rot13 rotr n1 n3) :=
  ⟨fun s hs => ⟨hs.1, rotr_lt _ _, hs.2.2.1, rotr_lt _ _⟩, fun s t hs ht => by
    simp only [rot13, State.xor]
    rw [rotr_xor _ _ _ h1 hs.2.1 ht.2.1, rotr_xor _ _ _ h3 hs.2.2.2 ht.2.2.2]⟩

theorem lin_mix13 (n : Nat) : Lin (mix13 n) :=
  ⟨fun s hs => ⟨hs.1, Nat.xor_lt_two_pow (Nat.xor_lt_two_pow hs.2.1 hs.1) hs.2.2.1, hs.2.2.1,
      Nat.xor_lt_two_pow (Nat.xor_lt_two_pow hs.2.2.2 hs.2.2.1) (shl_lt _ _)⟩, fun s t _ _ => by
    simp only [mix13, State.xor]
    rw [shl_xor, xor3, xor3]⟩

theorem lin_mix02 (n : Nat) : Lin (mix02 n) :=
  ⟨fun s hs => ⟨Nat.xor_lt_two_pow (Nat.xor_lt_two_pow hs.1 hs.2.1) hs.2.2.2, hs.2.1,
      Nat.xor_lt_two_pow (Nat.xor_lt_two_pow hs.2.2.1 hs.2.2.2) (shl_lt _ _), hs.2.2.2⟩, fun s t _ _ => by
    simp only [mix02, State.xor]
    rw [shl_xor, xor3, xor3]⟩

theorem lin_lt : Lin lt := by
  have h := ((((lin_rot02_l 13 3 (by decide) (by decide)).comp (lin_mix13 3)).comp
    (lin_rot13_l 1 7 (by decide) (by decide))).comp (lin_mix02 7)).comp (lin_rot02_l 5 22 (by decide) (by decide))
  exact h

theorem lin_ltInv : Lin ltInv := by
  have h := ((((lin_rot02_r 5 22 (by decide) (by decide)).comp (lin_mix02 7)).comp
    (lin_rot13_r 1 7 (by decide) (by decide))).comp (lin_mix13 3)).comp (lin_rot02_r 13 3 (by decide) (by decide))
  exact h

/-! ### IP ∘ f ∘ FP for a word-level linear f -/
/-- the standard-formulation conjugate of a bitslice state map -/
def conj (f : State → State) (x : Nat) : Nat := T (f (stateOfNat (Spec.SerpentStd.FP x)))

theorem conj_xor (f : State → State) (hf : Lin f) (a b : Nat) : conj f (a ^^^ b) = conj f a ^^^ conj f b := by
  unfold conj
  rw [FP_xor, stateOfNat_xor, hf.2 _ _ (stateOfNat_ws _) (stateOfNat_ws _),
    T_xor _ _ (hf.1 _ (stateOfNat_ws _)) (hf.1 _ (stateOfNat_ws _))]

theorem conj_T (f : State → State) (s : State) (hs : WS s) : conj f (T s) = T (f s) := by
  unfold conj
  rw [FP_T s hs, stateOfNat_natOfState s hs]

/-- the 128 columns of the parity table = the images of the 128 unit vectors under IP ∘ lt ∘ FP -/
theorem L_basis : ∀ k < 128, Spec.SerpentStd.L (2 ^ k) = conj lt (2 ^ k) := by decide +kernel
theorem LInv_basis : ∀ k < 128, Spec.SerpentStd.LInv (2 ^ k) = conj ltInv (2 ^ k) := by decide +kernel

theorem L_eq_conj (x : Nat) (hx : x < 2 ^ 128) : Spec.SerpentStd.L x = conj lt x :=
  lin_ext _ _ (linear_xor _) (conj_xor lt lin_lt) 128 L_basis x hx

theorem LInv_eq_conj (x : Nat) (hx : x < 2 ^ 128) : Spec.SerpentStd.LInv x = conj ltInv x :=
  lin_ext _ _ (linear_xor _) (conj_xor ltInv lin_ltInv) 128 LInv_basis x hx

/-- L ∘ IP = IP ∘ (bitslice linear transformation) -/
theorem L_T (s : State) (hs : WS s) : Spec.SerpentStd.L (T s) = T (lt s) := by
  rw [L_eq_conj _ (T_lt s), conj_T lt s hs]

theorem LInv_T (s : State) (hs : WS s) : Spec.SerpentStd.LInv (T s) = T (ltInv s) := by
  rw [LInv_eq_conj _ (T_lt s), conj_T ltInv s hs]

end Proofs.Lemmas.SerpentStdLin
