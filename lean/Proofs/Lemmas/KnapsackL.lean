/-
  Proofs.Lemmas.KnapsackL — exactsum is the depth-first reference search; soundness and completeness of the search.
-/
import Model.Knapsack
import Spec.Knapsack
namespace Proofs.Lemmas.KnapsackL
open Model.Knapsack (exactsum exactsumAux weight)
open Spec.Knapsack (firstSolution)
abbrev Item := Int × Int

theorem wsum_eq (c : List Item) : Model.Knapsack.wsum c = Spec.Knapsack.wsum c := rfl

/-- the index recursion with accumulator is the list recursion on the remaining items -/
theorem exactsumAux_eq (l : List Item) : ∀ (fuel : Nat) (s : Int) (i : Nat) (r : List Item),
    i ≤ l.length → l.length - i + 1 ≤ fuel →
    exactsumAux l fuel s i r = (firstSolution (l.drop i) s).map (fun c => r ++ c.reverse) := by
  intro fuel
  induction fuel with
  | zero => intro s i r _ h; omega
  | succ fuel ih =>
    intro s i r hi hf
    unfold exactsumAux
    by_cases hs0 : s = 0
    · subst hs0
      cases hd : l.drop i <;> simp [firstSolution]
    · rw [if_neg hs0]
      by_cases hcut : s < 0 ∨ i = l.length
      · rw [if_pos hcut]
        rcases hcut with hneg | hend
        · cases hd : l.drop i with
          | nil => simp [firstSolution, hs0]
          | cons it rest => simp [firstSolution, hs0, hneg]
        · subst hend; simp [firstSolution, hs0]
      · rw [if_neg hcut]
        have hneg : ¬ s < 0 := fun h => hcut (Or.inl h)
        have hlt : i < l.length := by
          have : i ≠ l.length := fun h => hcut (Or.inr h)
          omega
        have hget : l[i]? = some l[i] := List.getElem?_eq_getElem hlt
        have hdrop : l.drop i = l[i] :: l.drop (i + 1) := List.drop_eq_getElem_cons hlt
        rw [hget, hdrop]
        simp only [firstSolution, hs0, hneg, if_false]
        rw [ih (s - weight l[i]) (i + 1) r (by omega) (by omega), ih s (i + 1) r (by omega) (by omega)]
        simp only [weight]
        cases h1 : firstSolution (l.drop (i + 1)) (s - l[i].2) with
        | some c => simp
        | none => simp

theorem exactsum_eq (l : List Item) (s : Int) : exactsum l s = (firstSolution l s).map List.reverse := by
  unfold exactsum
  rw [exactsumAux_eq l _ s 0 [] (by omega) (by omega)]
  simp

theorem firstSolution_sound : ∀ (l : List Item) (s : Int) (c : List Item),
    firstSolution l s = some c → c.Sublist l ∧ Spec.Knapsack.wsum c = s := by
  intro l
  induction l with
  | nil =>
    intro s c h
    simp only [firstSolution] at h
    split at h
    · cases h; subst_vars; exact ⟨List.Sublist.slnil, rfl⟩
    · cases h
  | cons it rest ih =>
    intro s c h
    simp only [firstSolution] at h
    split at h
    · cases h; subst_vars; exact ⟨List.nil_sublist _, rfl⟩
    · split at h
      · cases h
      · split at h
        · rename_i c' hc'
          cases h
          obtain ⟨h1, h2⟩ := ih _ _ hc'
          refine ⟨h1.cons_cons it, ?_⟩
          simp only [Spec.Knapsack.wsum, List.map_cons, List.sum_cons] at h2 ⊢
          omega
        · obtain ⟨h1, h2⟩ := ih _ _ h
          exact ⟨h1.cons it, h2⟩

theorem wsum_nonneg (c : List Item) (h : ∀ it ∈ c, 0 < it.2) : 0 ≤ Spec.Knapsack.wsum c := by
  induction c with
  | nil => simp [Spec.Knapsack.wsum]
  | cons it rest ih =>
    have h1 := h it (by simp)
    have h2 := ih (fun x hx => h x (by simp [hx]))
    simp only [Spec.Knapsack.wsum, List.map_cons, List.sum_cons] at h2 ⊢
    omega

theorem firstSolution_complete : ∀ (l : List Item), (∀ it ∈ l, 0 < it.2) → ∀ (s : Int) (c : List Item),
    c.Sublist l → Spec.Knapsack.wsum c = s → (firstSolution l s).isSome := by
  intro l
  induction l with
  | nil =>
    intro _ s c hc hs
    have : c = [] := by simpa using hc
    subst this
    simp [Spec.Knapsack.wsum] at hs
    simp [firstSolution, hs.symm]
  | cons it rest ih =>
    intro hpos s c hc hs
    have hrest : ∀ x ∈ rest, 0 < x.2 := fun x hx => hpos x (by simp [hx])
    simp only [firstSolution]
    by_cases hs0 : s = 0
    · simp [hs0]
    · have hcpos : ∀ x ∈ c, 0 < x.2 := fun x hx => hpos x (hc.subset hx)
      have hnn := wsum_nonneg c hcpos
      have hneg : ¬ s < 0 := by omega
      simp only [hs0, hneg, if_false]
      cases hc with
      | cons _ h' =>
        cases h1 : firstSolution rest (s - it.2) with
        | some c' => simp
        | none => simpa using ih hrest s c h' hs
      | cons_cons _ h' =>
        rename_i c'
        have hs' : Spec.Knapsack.wsum c' = s - it.2 := by
          simp only [Spec.Knapsack.wsum, List.map_cons, List.sum_cons] at hs ⊢
          omega
        have := ih hrest (s - it.2) c' h' hs'
        cases h1 : firstSolution rest (s - it.2) with
        | some c'' => simp
        | none => rw [h1] at this; cases this

end Proofs.Lemmas.KnapsackL
