/-
  Lemmas for Spec.SerpentStd (standard formulation of Serpent): the literal IP/FP tables are the 4×32 / 32×4 bit
  transposes, they are mutually inverse and xor-linear; bits of a bitslice state.
-/
import Proofs.Lemmas.SerpentSpec
import Spec.SerpentStd
namespace Proofs.Lemmas.SerpentStdPerm
open Spec.Serpent Proofs.Lemmas.SerpentBits Proofs.Lemmas.SerpentComp

theorem ipTable_idx : ∀ j < 128, Spec.SerpentStd.ipTable.getD j 0 = 32 * (j % 4) + j / 4 := by decide +kernel
theorem fpTable_idx : ∀ j < 128, Spec.SerpentStd.fpTable.getD j 0 = 4 * (j % 32) + j / 32 := by decide +kernel
theorem ipTable_rule : ∀ j < 128, Spec.SerpentStd.ipTable.getD j 0 = Spec.Serpent.ipSrc j := by decide +kernel
theorem fpTable_rule : ∀ j < 128, Spec.SerpentStd.fpTable.getD j 0 = Spec.Serpent.fpSrc j := by decide +kernel

theorem testBit_IP (x j : Nat) :
    (Spec.SerpentStd.IP x).testBit j = (decide (j < 128) && x.testBit (32 * (j % 4) + j / 4)) := by
  unfold Spec.SerpentStd.IP Spec.SerpentStd.permute
  rw [testBit_ofBitFn]
  by_cases hj : j < 128
  · rw [ipTable_idx j hj]
  · simp [hj]

theorem testBit_FP (x j : Nat) :
    (Spec.SerpentStd.FP x).testBit j = (decide (j < 128) && x.testBit (4 * (j % 32) + j / 32)) := by
  unfold Spec.SerpentStd.FP Spec.SerpentStd.permute
  rw [testBit_ofBitFn]
  by_cases hj : j < 128
  · rw [fpTable_idx j hj]
  · simp [hj]

theorem IP_lt (x : Nat) : Spec.SerpentStd.IP x < 2 ^ 128 := ofBitFn_lt _ _
theorem FP_lt (x : Nat) : Spec.SerpentStd.FP x < 2 ^ 128 := ofBitFn_lt _ _

theorem testBit_high (x j : Nat) (hx : x < 2 ^ 128) (hj : ¬ j < 128) : x.testBit j = false :=
  Nat.testBit_lt_two_pow (Nat.lt_of_lt_of_le hx (Nat.pow_le_pow_right (by decide) (by omega)))

theorem FP_IP (x : Nat) (hx : x < 2 ^ 128) : Spec.SerpentStd.FP (Spec.SerpentStd.IP x) = x := by
  apply Nat.eq_of_testBit_eq; intro j
  rw [testBit_FP, testBit_IP]
  by_cases hj : j < 128
  · have h1 : 4 * (j % 32) + j / 32 < 128 := by omega
    have h2 : 32 * ((4 * (j % 32) + j / 32) % 4) + (4 * (j % 32) + j / 32) / 4 = j := by omega
    rw [h2]; simp [hj, h1]
  · simp [hj, testBit_high x j hx hj]

theorem IP_FP (x : Nat) (hx : x < 2 ^ 128) : Spec.SerpentStd.IP (Spec.SerpentStd.FP x) = x := by
  apply Nat.eq_of_testBit_eq; intro j
  rw [testBit_IP, testBit_FP]
  by_cases hj : j < 128
  · have h1 : 32 * (j % 4) + j / 4 < 128 := by omega
    have h2 : 4 * ((32 * (j % 4) + j / 4) % 32) + (32 * (j % 4) + j / 4) / 32 = j := by omega
    rw [h2]; simp [hj, h1]
  · simp [hj, testBit_high x j hx hj]

theorem IP_xor (a b : Nat) : Spec.SerpentStd.IP (a ^^^ b) = Spec.SerpentStd.IP a ^^^ Spec.SerpentStd.IP b := by
  apply Nat.eq_of_testBit_eq; intro j
  rw [Nat.testBit_xor, testBit_IP, testBit_IP, testBit_IP, Nat.testBit_xor]
  cases decide (j < 128) <;> simp

theorem FP_xor (a b : Nat) : Spec.SerpentStd.FP (a ^^^ b) = Spec.SerpentStd.FP a ^^^ Spec.SerpentStd.FP b := by
  apply Nat.eq_of_testBit_eq; intro j
  rw [Nat.testBit_xor, testBit_FP, testBit_FP, testBit_FP, Nat.testBit_xor]
  cases decide (j < 128) <;> simp

/-- IP/FP look at the low 128 bits only -/
theorem IP_mod (x : Nat) : Spec.SerpentStd.IP (x % 2 ^ 128) = Spec.SerpentStd.IP x := by
  apply Nat.eq_of_testBit_eq; intro j
  rw [testBit_IP, testBit_IP, Nat.testBit_mod_two_pow]
  by_cases hj : j < 128
  · have h1 : 32 * (j % 4) + j / 4 < 128 := by omega
    simp [h1]
  · simp [hj]

theorem IP_zero : Spec.SerpentStd.IP 0 = 0 := by
  apply Nat.eq_of_testBit_eq; intro j
  rw [testBit_IP]; simp

/-- the literal tables give the same maps as the generating rule of Spec.Serpent -/
theorem IP_eq_spec (x : Nat) : Spec.SerpentStd.IP x = Spec.Serpent.IP x := by
  unfold Spec.SerpentStd.IP Spec.SerpentStd.permute Spec.Serpent.IP
  exact ofBitFn_congr _ _ _ (fun j hj => by rw [ipTable_rule j hj])

theorem FP_eq_spec (x : Nat) : Spec.SerpentStd.FP x = Spec.Serpent.FP x := by
  unfold Spec.SerpentStd.FP Spec.SerpentStd.permute Spec.Serpent.FP
  exact ofBitFn_congr _ _ _ (fun j hj => by rw [fpTable_rule j hj])

/-! ### bits of a bitslice state -/
/-- bit k of word m of a state whose words are < 2^32 -/
def word (s : State) (m : Nat) : Nat :=
  match m with
  | 0 => s.x0
  | 1 => s.x1
  | 2 => s.x2
  | _ => s.x3

theorem testBit_word_high (a j : Nat) (ha : a < 2 ^ 32) (hj : 32 ≤ j) : a.testBit j = false :=
  Nat.testBit_lt_two_pow (Nat.lt_of_lt_of_le ha (Nat.pow_le_pow_right (by decide) hj))

theorem testBit_natOfState_word (s : State) (hs : WS s) (m k : Nat) (hm : m < 4) (hk : k < 32) :
    (natOfState s).testBit (32 * m + k) = (word s m).testBit k := by
  obtain ⟨h0, h1, h2, h3⟩ := hs
  rw [testBit_natOfState]
  rcases (show m = 0 ∨ m = 1 ∨ m = 2 ∨ m = 3 by omega) with h | h | h | h <;> subst h
  · have a2 : ¬ 32 ≤ k := by omega
    have a3 : ¬ 64 ≤ k := by omega
    have a4 : ¬ 96 ≤ k := by omega
    simp [a2, a3, a4, word]
  · have a1 := testBit_word_high _ (32 * 1 + k) h0 (by omega)
    have a2 : 32 ≤ 32 * 1 + k := by omega
    have a3 : ¬ 64 ≤ 32 * 1 + k := by omega
    have a4 : ¬ 96 ≤ 32 * 1 + k := by omega
    have a5 : 32 * 1 + k - 32 = k := by omega
    simp [a1, a2, a3, a4, a5, word]
  · have a1 := testBit_word_high _ (32 * 2 + k) h0 (by omega)
    have a2 := testBit_word_high _ (32 * 2 + k - 32) h1 (by omega)
    have a3 : 64 ≤ 32 * 2 + k := by omega
    have a4 : ¬ 96 ≤ 32 * 2 + k := by omega
    have a5 : 32 * 2 + k - 64 = k := by omega
    simp [a1, a2, a3, a4, a5, word]
  · have a1 := testBit_word_high _ (32 * 3 + k) h0 (by omega)
    have a2 := testBit_word_high _ (32 * 3 + k - 32) h1 (by omega)
    have a3 := testBit_word_high _ (32 * 3 + k - 64) h2 (by omega)
    have a4 : 96 ≤ 32 * 3 + k := by omega
    have a5 : 32 * 3 + k - 96 = k := by omega
    simp [a1, a2, a3, a4, a5, word]

/-- the standard-formulation image of a bitslice state -/
def T (s : State) : Nat := Spec.SerpentStd.IP (natOfState s)

theorem T_lt (s : State) : T s < 2 ^ 128 := IP_lt _

/-- bit j of the standard block is bit j/4 of word j%4 -/
theorem testBit_T (s : State) (hs : WS s) (j : Nat) :
    (T s).testBit j = (decide (j < 128) && (word s (j % 4)).testBit (j / 4)) := by
  unfold T
  rw [testBit_IP]
  by_cases hj : j < 128
  · rw [testBit_natOfState_word s hs (j % 4) (j / 4) (by omega) (by omega)]
  · simp [hj]

theorem FP_T (s : State) (hs : WS s) : Spec.SerpentStd.FP (T s) = natOfState s :=
  FP_IP _ (natOfState_lt s hs)

theorem T_xor (s t : State) (hs : WS s) (ht : WS t) : T (s.xor t) = T s ^^^ T t := by
  unfold T
  rw [natOfState_xor s t hs ht, IP_xor]

theorem T_zero : T ⟨0, 0, 0, 0⟩ = 0 := by
  unfold T
  have : natOfState ⟨0, 0, 0, 0⟩ = 0 := by decide
  rw [this, IP_zero]

/-- the standard block `x` corresponds to the bitslice state `stateOfNat (FP x)` -/
theorem T_stateOfNat (P : Nat) : T (stateOfNat P) = Spec.SerpentStd.IP P := by
  unfold T
  have h : stateOfNat P = stateOfNat (P % 2 ^ 128) := by
    simp only [stateOfNat, Nat.shiftRight_eq_div_pow, State.mk.injEq]
    refine ⟨?_, ?_, ?_, ?_⟩ <;> omega
  rw [h, natOfState_stateOfNat _ (Nat.mod_lt _ (Nat.two_pow_pos _)), IP_mod]

end Proofs.Lemmas.SerpentStdPerm
