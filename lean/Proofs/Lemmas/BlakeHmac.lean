/-
  HMAC over the four BLAKE objects: the generic HMAC theorem (`HmacAlgs.hmac_eq_on_bytes`) composed with BLAKE's
  end-to-end refinement (`BlakeEnd.blake_call_eq` + `BlakeFull.fold_eq_finish`).
-/
import Proofs.Lemmas.HmacAlgs
import Proofs.Lemmas.BlakeFull
namespace Proofs.Lemmas.BlakeHmac
open Model Model.Hmac Proofs.Lemmas.BlakeEnd Proofs.Lemmas.HmacAlgs

/-- BLAKE-n of a byte string with the default salt, as a function on byte values (the submission) -/
def specFn (V : Spec.Blake.Variant) (m : List Nat) : List Nat := Spec.Blake.hash V m (8 * m.length) 0

theorem blake_on_bytes {c V} (hp : Pair c V) (m : List Nat) (hm : IsBytes m) :
    Blake.call c m 0 none = .ok (specFn V m) := by
  rw [blake_call_eq hp m 0 none (Nat.le_refl _), BlakeFull.fold_eq_finish hp m hm none (Nat.le_refl _)]
  rfl

theorem output_isBytes (V : Spec.Blake.Variant) (h : List (BitVec V.w)) : IsBytes (Spec.Blake.output V h) := by
  intro x hx
  unfold Spec.Blake.output at hx
  have hx' := List.mem_of_mem_take hx
  rw [List.mem_flatMap] at hx'
  obtain ⟨y, _, hy⟩ := hx'
  unfold Spec.Blake.wordBytes at hy
  rw [List.mem_map] at hy
  obtain ⟨i, _, rfl⟩ := hy
  exact Nat.mod_lt _ (by decide)

theorem specFn_isBytes (V : Spec.Blake.Variant) (m : List Nat) : IsBytes (specFn V m) := output_isBytes V _

theorem specFn_length_le (V : Spec.Blake.Variant) (m : List Nat) : (specFn V m).length ≤ V.out := by
  unfold specFn Spec.Blake.hash Spec.Blake.output
  rw [List.length_take]
  exact Nat.min_le_left _ _

theorem pair_block {c V} (hp : Pair c V) : c.blocksize = 8 * (c.blocksize / 8) ∧ 0 < c.blocksize / 8 ∧ V.out ≤ c.blocksize / 8 := by
  rcases hp with ⟨rfl, rfl⟩ | ⟨rfl, rfl⟩ | ⟨rfl, rfl⟩ | ⟨rfl, rfl⟩ <;> decide

theorem hmac_blake {c V} (hp : Pair c V) (key msg : List Nat) (hkey : IsBytes key) (hmsg : IsBytes msg) :
    Hmac.hmac (fun m => Blake.call c m 0 none) c.blocksize key msg
      = .ok (Spec.rfc2104 (specFn V) (c.blocksize / 8) key msg) := by
  obtain ⟨h8, hpos, hout⟩ := pair_block hp
  have := hmac_eq_on_bytes (fun m => Blake.call c m 0 none) (specFn V) (c.blocksize / 8) hpos key msg
    (blake_on_bytes hp) (specFn_isBytes V) hkey hmsg (fun _ => Nat.le_trans (specFn_length_le V key) hout)
  rw [← h8] at this
  exact this

end Proofs.Lemmas.BlakeHmac
