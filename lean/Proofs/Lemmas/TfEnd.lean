/-
  End-to-end: Threefish(key,tweak).enc/dec on byte strings versus Spec.Threefish.enc/dec.
-/
import Proofs.Lemmas.TfRefine
import Proofs.Lemmas.TfBytes
import Proofs.Lemmas.TfInverse
namespace Proofs.Lemmas.TfEnd
open Model Proofs.Lemmas.TfBridge Proofs.Lemmas.TfRefine Proofs.Lemmas.TfBytes
open Spec.Threefish (W toInt toBytes bytesToWords wordsToBytes)

theorem foldl_xor_ofBV (l : List W) (a : W) : (l.map ofBV).foldl Bits.xor (ofBV a) = ofBV (l.foldl (· ^^^ ·) a) := by
  induction l generalizing a with
  | nil => rfl
  | cons x l ih => simp only [List.map_cons, List.foldl_cons, xor_ofBV, ih]

/-- the tables selected by `Nw` are the specification's -/
theorem tables (nw : Nat) (hv : nw = 4 ∨ nw = 8 ∨ nw = 16) :
    Threefish.piOf nw = Spec.Threefish.pi nw ∧ Threefish.piinvOf nw = Spec.Threefish.piInv nw ∧
    Threefish.rotOf nw = Spec.Threefish.R nw ∧ Threefish.nrOf nw = Spec.Threefish.Nr nw ∧
    (⟨Threefish.c240Of nw, 64⟩ : Bits) = ofBV Spec.Threefish.C240 := by
  have h1 := pi_eq; have h2 := piinv_eq; have h3 := rot_eq; have h4 := nr_eq; have h5 := c240_eq
  unfold Threefish.piOf Threefish.piinvOf Threefish.rotOf Threefish.nrOf Threefish.c240Of ofBV
  rcases hv with h | h | h <;> subst h <;> simp [*]

/-- the constructor, on admissible sizes, yields a context related to the specification's extended key and tweak -/
theorem init_rel (key tweak : List Nat) (hk : IsBytes key) (ht : IsBytes tweak)
    (hkl : key.length = 32 ∨ key.length = 64 ∨ key.length = 128) (htl : tweak.length = 16) :
    ∃ c, Threefish.init key tweak = .ok c ∧ c.K.size = 8 * key.length ∧
      Rel c (key.length / 8) (Spec.Threefish.keyExt (bytesToWords key)) (Spec.Threefish.tweakExt (bytesToWords tweak)) := by
  have hv : key.length / 8 = 4 ∨ key.length / 8 = 8 ∨ key.length / 8 = 16 := by omega
  obtain ⟨t1, t2, t3, t4, t5⟩ := tables _ hv
  have hsz : (8 * key.length) / 64 = key.length / 8 := by omega
  unfold Threefish.init
  rw [loadLE_eq key hk, loadLE_eq tweak ht]
  simp only [bind, Except.bind, Threefish.mkCtx]
  have c1 : (8 * key.length = 256 ∨ 8 * key.length = 512 ∨ 8 * key.length = 1024) := by omega
  have c2 : 8 * tweak.length = 128 := by omega
  simp only [c1, not_true_eq_false, ite_false, c2, ne_eq]
  refine ⟨_, rfl, rfl, ?_⟩
  -- the tweak words
  have hw := words_eq tweak ht
  have hT2 : Threefish.words ⟨toInt tweak, 8 * tweak.length⟩ =
      [(⟨toInt tweak, 8 * tweak.length⟩ : Bits).sliceFast 0 64, (⟨toInt tweak, 8 * tweak.length⟩ : Bits).sliceFast 64 128] := by
    unfold Threefish.words
    simp only [c2, show 128 / 64 = 2 from rfl, show List.range 2 = [0, 1] by decide, List.map_cons, List.map_nil]
  have hlen := bytesToWords_length tweak
  rw [htl] at hlen
  match hTw : bytesToWords tweak, hlen with
  | [a, b], _ =>
    rw [hT2, hTw] at hw
    simp only [List.map_cons, List.map_nil, List.cons.injEq, and_true] at hw
    obtain ⟨ha, hb⟩ := hw
    rw [c2] at ha hb
    constructor
    · exact hv
    · exact hsz
    · simp only [hsz]; exact t4
    · simp only [hsz]; exact t1
    · simp only [hsz]; exact t2
    · simp only [hsz]; exact t3
    · simp only [hsz, t5, words_eq key hk, foldl_xor_ofBV, Spec.Threefish.keyExt, List.map_append, List.map_cons, List.map_nil]
    · simp only [ha, hb, xor_ofBV, Spec.Threefish.tweakExt, List.getD_cons_zero, List.getD_cons_succ, List.map_cons, List.map_nil]

theorem sizesOk_iff (key tweak block : List Nat) :
    Spec.Threefish.sizesOk key tweak block = true ↔
      (key.length = 32 ∨ key.length = 64 ∨ key.length = 128) ∧ tweak.length = 16 ∧ block.length = key.length := by
  simp [Spec.Threefish.sizesOk, and_assoc, or_assoc]

theorem encrypt_ok (key tweak block : List Nat) (hk : IsBytes key) (ht : IsBytes tweak) (hb : IsBytes block)
    (hs : Spec.Threefish.sizesOk key tweak block = true) :
    Threefish.encrypt key tweak block = .ok (wordsToBytes (Spec.Threefish.encWords (key.length / 8)
        (bytesToWords key) (bytesToWords tweak) (bytesToWords block))) := by
  obtain ⟨hkl, htl, hbl⟩ := (sizesOk_iff _ _ _).1 hs
  obtain ⟨c, hc, hsz, hrel⟩ := init_rel key tweak hk ht hkl htl
  unfold Threefish.encrypt
  rw [hc]
  simp only [bind, Except.bind, Threefish.enc]
  rw [loadLE_eq block hb]
  simp only [hsz, hbl, ne_eq, not_true_eq_false, ite_false, pure, Except.pure]
  rw [show 8 * key.length = 8 * block.length by omega, words_eq block hb, encWords_refines hrel, join_eq]
  rfl

theorem decrypt_ok (key tweak block : List Nat) (hk : IsBytes key) (ht : IsBytes tweak) (hb : IsBytes block)
    (hs : Spec.Threefish.sizesOk key tweak block = true) :
    Threefish.decrypt key tweak block = .ok (wordsToBytes (Spec.Threefish.decWords (key.length / 8)
        (bytesToWords key) (bytesToWords tweak) (bytesToWords block))) := by
  obtain ⟨hkl, htl, hbl⟩ := (sizesOk_iff _ _ _).1 hs
  obtain ⟨c, hc, hsz, hrel⟩ := init_rel key tweak hk ht hkl htl
  unfold Threefish.decrypt
  rw [hc]
  simp only [bind, Except.bind, Threefish.dec]
  rw [loadLE_eq block hb]
  simp only [hsz, hbl, ne_eq, not_true_eq_false, ite_false, pure, Except.pure]
  rw [show 8 * key.length = 8 * block.length by omega, words_eq block hb, decWords_refines hrel, join_eq]
  rfl

/-- sizes the algorithm does not define are rejected by the constructor or by enc/dec -/
theorem encrypt_rejects (key tweak block : List Nat) (hk : IsBytes key) (ht : IsBytes tweak) (hb : IsBytes block)
    (hs : Spec.Threefish.sizesOk key tweak block = false) :
    ∃ e, Threefish.encrypt key tweak block = .error e ∧ ∃ e', Threefish.decrypt key tweak block = .error e' := by
  have hs' : ¬ ((key.length = 32 ∨ key.length = 64 ∨ key.length = 128) ∧ tweak.length = 16 ∧ block.length = key.length) := by
    rw [← sizesOk_iff]; simp [hs]
  unfold Threefish.encrypt Threefish.decrypt Threefish.init
  rw [loadLE_eq key hk, loadLE_eq tweak ht]
  simp only [bind, Except.bind, Threefish.mkCtx]
  by_cases c1 : (8 * key.length = 256 ∨ 8 * key.length = 512 ∨ 8 * key.length = 1024)
  · by_cases c2 : 8 * tweak.length = 128
    · have c3 : ¬ (8 * block.length = 8 * key.length) := by omega
      simp only [c1, not_true_eq_false, ite_false, c2, ne_eq, Threefish.enc, Threefish.dec, loadLE_eq block hb, bind, Except.bind, c3,
        not_false_eq_true, ite_true]
      exact ⟨_, rfl, _, rfl⟩
    · simp only [c1, not_true_eq_false, ite_false, c2, ne_eq, not_false_eq_true, ite_true]
      exact ⟨_, rfl, _, rfl⟩
  · simp only [c1, not_false_eq_true, ite_true]
    exact ⟨_, rfl, _, rfl⟩


theorem valid_of_len {n : Nat} (h : n = 32 ∨ n = 64 ∨ n = 128) : n / 8 = 4 ∨ n / 8 = 8 ∨ n / 8 = 16 := by omega

theorem enc_sizes (key tweak block : List Nat) (hs : Spec.Threefish.sizesOk key tweak block = true) (ws : List W)
    (hw : ws.length = key.length / 8) : Spec.Threefish.sizesOk key tweak (wordsToBytes ws) = true := by
  obtain ⟨hkl, htl, hbl⟩ := (sizesOk_iff _ _ _).1 hs
  rw [sizesOk_iff]
  refine ⟨hkl, htl, ?_⟩
  rw [wordsToBytes_length, hw]; omega

/-- dec(enc(B)) = B on the model, byte strings -/
theorem decrypt_encrypt (key tweak block : List Nat) (hk : IsBytes key) (ht : IsBytes tweak) (hb : IsBytes block)
    (hs : Spec.Threefish.sizesOk key tweak block = true) :
    (Threefish.encrypt key tweak block >>= fun c => Threefish.decrypt key tweak c) = .ok block := by
  obtain ⟨hkl, htl, hbl⟩ := (sizesOk_iff _ _ _).1 hs
  have hv := valid_of_len hkl
  rw [encrypt_ok key tweak block hk ht hb hs]
  simp only [bind, Except.bind]
  have hl := TfInverse.encWords_length (key.length / 8) (bytesToWords key) (bytesToWords tweak) (bytesToWords block)
  rw [decrypt_ok key tweak _ hk ht (isBytes_wordsToBytes _) (enc_sizes key tweak block hs _ hl),
      bytesToWords_wordsToBytes, TfInverse.decWords_encWords _ hv _ _ _ (by rw [bytesToWords_length, hbl]),
      wordsToBytes_bytesToWords (key.length / 8) block hb (by omega)]

/-- enc(dec(B)) = B on the model, byte strings -/
theorem encrypt_decrypt (key tweak block : List Nat) (hk : IsBytes key) (ht : IsBytes tweak) (hb : IsBytes block)
    (hs : Spec.Threefish.sizesOk key tweak block = true) :
    (Threefish.decrypt key tweak block >>= fun c => Threefish.encrypt key tweak c) = .ok block := by
  obtain ⟨hkl, htl, hbl⟩ := (sizesOk_iff _ _ _).1 hs
  have hv := valid_of_len hkl
  rw [decrypt_ok key tweak block hk ht hb hs]
  simp only [bind, Except.bind]
  have hl := TfInverse.decWords_length (key.length / 8) hv (bytesToWords key) (bytesToWords tweak) (bytesToWords block)
  rw [encrypt_ok key tweak _ hk ht (isBytes_wordsToBytes _) (enc_sizes key tweak block hs _ hl),
      bytesToWords_wordsToBytes, TfInverse.encWords_decWords _ hv _ _ _ (by rw [bytesToWords_length, hbl]),
      wordsToBytes_bytesToWords (key.length / 8) block hb (by omega)]

theorem encrypt_length (key tweak block out : List Nat) (hk : IsBytes key) (ht : IsBytes tweak) (hb : IsBytes block)
    (h : Threefish.encrypt key tweak block = .ok out) : out.length = block.length := by
  cases hs : Spec.Threefish.sizesOk key tweak block with
  | false =>
    obtain ⟨e, he, _⟩ := encrypt_rejects key tweak block hk ht hb hs
    rw [he] at h; cases h
  | true =>
    obtain ⟨hkl, htl, hbl⟩ := (sizesOk_iff _ _ _).1 hs
    rw [encrypt_ok key tweak block hk ht hb hs] at h
    injection h with h
    rw [← h, wordsToBytes_length, TfInverse.encWords_length]; omega

theorem decrypt_length (key tweak block out : List Nat) (hk : IsBytes key) (ht : IsBytes tweak) (hb : IsBytes block)
    (h : Threefish.decrypt key tweak block = .ok out) : out.length = block.length := by
  cases hs : Spec.Threefish.sizesOk key tweak block with
  | false =>
    obtain ⟨_, _, e, he⟩ := encrypt_rejects key tweak block hk ht hb hs
    rw [he] at h; cases h
  | true =>
    obtain ⟨hkl, htl, hbl⟩ := (sizesOk_iff _ _ _).1 hs
    rw [decrypt_ok key tweak block hk ht hb hs] at h
    injection h with h
    rw [← h, wordsToBytes_length, TfInverse.decWords_length _ (valid_of_len hkl)]; omega

/-- a successfully constructed context is related to the specification's key data -/
theorem rel_of_init (key tweak : List Nat) (hk : IsBytes key) (ht : IsBytes tweak) (c : Threefish.Ctx)
    (h : Threefish.init key tweak = .ok c) :
    (key.length = 32 ∨ key.length = 64 ∨ key.length = 128) ∧ tweak.length = 16 ∧
    Rel c (key.length / 8) (Spec.Threefish.keyExt (bytesToWords key)) (Spec.Threefish.tweakExt (bytesToWords tweak)) := by
  by_cases hkl : (key.length = 32 ∨ key.length = 64 ∨ key.length = 128)
  · by_cases htl : tweak.length = 16
    · obtain ⟨c', hc', _, hrel⟩ := init_rel key tweak hk ht hkl htl
      rw [hc'] at h; injection h with h; subst h
      exact ⟨hkl, htl, hrel⟩
    · exfalso
      unfold Threefish.init at h
      rw [loadLE_eq key hk, loadLE_eq tweak ht] at h
      simp only [bind, Except.bind, Threefish.mkCtx] at h
      have c2 : ¬ (8 * tweak.length = 128) := by omega
      have c1 : (8 * key.length = 256 ∨ 8 * key.length = 512 ∨ 8 * key.length = 1024) := by omega
      simp [c1, c2] at h
  · exfalso
    unfold Threefish.init at h
    rw [loadLE_eq key hk, loadLE_eq tweak ht] at h
    simp only [bind, Except.bind, Threefish.mkCtx] at h
    have c1 : ¬ (8 * key.length = 256 ∨ 8 * key.length = 512 ∨ 8 * key.length = 1024) := by omega
    simp [c1] at h

end Proofs.Lemmas.TfEnd
