/-
  Helper lemmas for C18: the T-box substitution loop of `WhiteDES.enc` (slice fast paths, byte-wise meaning).
-/
import Proofs.Lemmas.WbFX
namespace Proofs.Lemmas.Wb
open Model Model.Wb Model.Bits

theorem sliceIndices_nat (s e len : Nat) (hs : s ≤ len) (he : e ≤ len) :
    Py.sliceIndices (some (s : Int)) (some (e : Int)) none len = .ok ((s : Int), (e : Int), 1) := by
  have h1 : ¬ ((s : Int) < 0) := by omega
  have h2 : ¬ ((e : Int) < 0) := by omega
  have h3 : ¬ ((s : Int) > (len : Int)) := by omega
  have h4 : ¬ ((e : Int) > (len : Int)) := by omega
  simp [Py.sliceIndices, h1, h2, h3, h4]

theorem getSlice_fast (b : Bits) (s e : Nat) (hse : s ≤ e) (he : e ≤ b.size) :
    b.getSlice (some (s : Int)) (some (e : Int)) none = .ok (b.sliceFast s e) := by
  have h : (e : Int) ≥ (s : Int) := by omega
  simp [getSlice, sliceIndices_nat s e b.size (by omega) he, bind, Except.bind, pure, Except.pure, h]

theorem setSlice_fast (b : Bits) (s e : Nat) (hse : s < e) (he : e ≤ b.size) (v : Bits) :
    b.setSlice (some (s : Int)) (some (e : Int)) none v = .ok (b.putSlice s e v) := by
  have h : (e : Int) > (s : Int) := by omega
  simp [setSlice, sliceIndices_nat s e b.size (by omega) he, bind, Except.bind, pure, Except.pure, h, putSlice]


/-- byte `m` of a state, as the int `blk[8m:8m+8]` -/
def byteOf (b : Bits) (m : Nat) : Nat := (b.sliceFast (8 * m) (8 * m + 8)).ival

theorem byteOf_lt (b : Bits) (m : Nat) : byteOf b m < 256 := by
  have := WF_sliceFast b (8 * m) (8 * m + 8)
  simp only [WF, size_sliceFast] at this
  have e : 8 * m + 8 - 8 * m = 8 := by omega
  rw [e] at this
  exact this

theorem byteOf_testBit (b : Bits) (m j : Nat) : (byteOf b m).testBit j = (decide (j < 8) && bit b (8 * m + j)) := by
  have := bit_sliceFast b (8 * m) (8 * m + 8) j
  have e : 8 * m + 8 - 8 * m = 8 := by omega
  rw [e] at this
  exact this

theorem byteOf_congr (a b : Bits) (m : Nat) (h : ∀ j < 8, bit a (8 * m + j) = bit b (8 * m + j)) : byteOf a m = byteOf b m := by
  apply Nat.eq_of_testBit_eq
  intro j
  rw [byteOf_testBit, byteOf_testBit]
  by_cases hj : j < 8
  · simp [hj, h j hj]
  · simp [hj]

/-- the twelve T-box substitutions of one round: byte `m` of the state is replaced by `KT[r][m][byte m]` -/
theorem tboxLoop_ok (kr : List (List Nat)) (hk : Shape kr 12 256) (hent : ∀ n v, get2 kr n v < 256) :
    ∀ (ns : List Nat) (blk : Bits), blk.size = 96 → blk.WF → ns.Nodup → (∀ n ∈ ns, n < 12) →
      ∃ blk', tboxLoop kr ns blk = .ok blk' ∧ blk'.size = 96 ∧ blk'.WF ∧
        ∀ i, bit blk' i = if i / 8 ∈ ns then (get2 kr (i / 8) (byteOf blk (i / 8))).testBit (i % 8) else bit blk i := by
  intro ns
  induction ns with
  | nil => intro blk hs hw _ _; exact ⟨blk, rfl, hs, hw, by simp⟩
  | cons n ns ih =>
    intro blk hs hw hnd hns
    have hn : n < 12 := hns n (List.mem_cons_self)
    have hnl : n < kr.length := by rw [hk.1]; exact hn
    have hrow : kr[n].length = 256 := hk.2 _ (List.getElem_mem hnl)
    have hx : byteOf blk n < kr[n].length := by rw [hrow]; exact byteOf_lt blk n
    have hmask : (blk.sliceFast (8 * n) (8 * n + 8)).ival &&& (blk.sliceFast (8 * n) (8 * n + 8)).mask = byteOf blk n := by
      have e : 8 * n + 8 - 8 * n = 8 := by omega
      simp only [Bits.mask, size_sliceFast, e]
      rw [Nat.and_two_pow_sub_one_eq_mod]
      exact Nat.mod_eq_of_lt (byteOf_lt blk n)
    let y := get2 kr n (byteOf blk n)
    have hy : y < 256 := hent _ _
    have hyv : (ofNat y).ival < 2 ^ (8 * n + 8 - 8 * n) := by
      have e : 8 * n + 8 - 8 * n = 8 := by omega
      rw [e]; exact hy
    let blk1 := blk.putSlice (8 * n) (8 * n + 8) (ofNat y)
    have hs1 : blk1.size = 96 := hs
    have hw1 : blk1.WF := WF_putSlice _ _ _ _ hw (by omega) (by rw [hs]; omega) hyv
    have hb1 : ∀ i, bit blk1 i = if i / 8 = n then y.testBit (i % 8) else bit blk i := by
      intro i
      rw [bit_putSlice _ _ _ _ hw (by omega) (by rw [hs]; omega) hyv]
      by_cases c : i / 8 = n
      · have c1 : 8 * n ≤ i ∧ i < 8 * n + 8 := by omega
        have c2 : i - 8 * n = i % 8 := by omega
        simp only [c1, and_self, if_true, c, c2, ofNat]
      · have c1 : ¬ (8 * n ≤ i ∧ i < 8 * n + 8) := by omega
        simp only [c1, if_false, c]
    have hnd' := List.nodup_cons.mp hnd
    obtain ⟨blk', a1, a2, a3, a4⟩ := ih blk1 hs1 hw1 hnd'.2 (fun m hm => hns m (List.mem_cons_of_mem _ hm))
    refine ⟨blk', ?_, a2, a3, ?_⟩
    · simp only [tboxLoop, getSlice_fast blk (8 * n) (8 * n + 8) (by omega) (by rw [hs]; omega), bind, Except.bind,
        pyIdx_ok _ _ hnl, hmask, pyIdx_ok _ _ hx,
        setSlice_fast blk (8 * n) (8 * n + 8) (by omega) (by rw [hs]; omega)]
      rw [← get2_eq_getElem hnl hx]
      exact a1
    · intro i
      rw [a4, hb1]
      by_cases c : i / 8 = n
      · have h1 : i / 8 ∉ ns := by rw [c]; exact hnd'.1
        rw [if_neg h1, if_pos c, if_pos (by rw [c]; exact List.mem_cons_self), c]
      · by_cases d : i / 8 ∈ ns
        · have hbe : byteOf blk1 (i / 8) = byteOf blk (i / 8) := by
            apply byteOf_congr
            intro j hj
            rw [hb1, if_neg (by omega)]
          simp [c, d, hbe]
        · simp [c, d]

end Proofs.Lemmas.Wb
