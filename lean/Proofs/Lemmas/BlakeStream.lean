/-
  Streaming lemmas for Model.Blake / Model.Blake2: an update over a block-aligned piece followed by the rest.
-/
import Proofs.Lemmas.BlakePieces
import Proofs.Lemmas.BlakeTrace
namespace Proofs.Lemmas.BlakeStream
open Model Model.Py Proofs.Lemmas.BlakePieces Proofs.Lemmas.BlakeTrace

def blakeCfg (c : Blake.Cfg) : Prop := c = Blake.blake224 ∨ c = Blake.blake256 ∨ c = Blake.blake384 ∨ c = Blake.blake512

theorem blakeP_geom (c : Blake.Cfg) (hc : blakeCfg c) :
    ((Padder.blakeP c.size).blocksize = 512 ∨ (Padder.blakeP c.size).blocksize = 1024) ∧
      (Padder.blakeP c.size).blocksize = c.blocksize ∧ (Padder.blakeP c.size).blocklen = c.blocksize / 8 := by
  rcases hc with rfl | rfl | rfl | rfl <;> decide

/-- an empty non-final piece changes nothing -/
theorem blake_update_nil (c : Blake.Cfg) (s : Blake.State) (h : s.pad.padflag = false) :
    (Blake.update c s [] none false).1 = s := by
  simp [Blake.update, Padder.iterblocks, h]

/-- a non-empty block-aligned non-final piece: the pad state advances by the bits fed and stays open -/
theorem blake_update_nonfinal_pad (c : Blake.Cfg) (hc : blakeCfg c) (s : Blake.State) (hpf : s.pad.padflag = false)
    (a : List Nat) (n : Nat) (hn : a.length = (n + 1) * (c.blocksize / 8)) :
    (Blake.update c s a none false).1.pad = { s.pad with bitcnt := s.pad.bitcnt + 8 * a.length } ∧
    (Blake.update c s a none false).1.salt = s.salt := by
  obtain ⟨hB, hbs, hbl⟩ := blakeP_geom c hc
  have hn' : a.length = (n + 1) * (Padder.blakeP c.size).blocklen := by rw [hbl]; exact hn
  simp only [Blake.update]
  rw [iter_nonfinal _ hB s.pad hpf a n hn']
  refine ⟨?_, rfl⟩
  simp only []
  congr 1
  rw [hn, hbs]
  rcases hc with rfl | rfl | rfl | rfl <;> simp [Blake.Cfg.blocksize, Blake.blake224, Blake.blake256, Blake.blake384, Blake.blake512] <;> omega

/-- BLAKE: absorbing `a ++ b` in one final call = a non-final update with the aligned non-empty piece `a`, then the
    final update with the non-empty rest `b` (same digest, same object state) -/
theorem blake_update_append (c : Blake.Cfg) (hc : blakeCfg c) (s : Blake.State) (hpf : s.pad.padflag = false)
    (a b : List Nat) (n : Nat) (hn : a.length = (n + 1) * (c.blocksize / 8)) (hb : b ≠ []) :
    Blake.update c s (a ++ b) none true = Blake.update c (Blake.update c s a none false).1 b none true := by
  obtain ⟨hB, hbs, hbl⟩ := blakeP_geom c hc
  have hn' : a.length = (n + 1) * (Padder.blakeP c.size).blocklen := by rw [hbl]; exact hn
  simp only [Blake.update]
  rw [iter_append _ hB s.pad hpf a b n hn' hb]
  simp only [List.foldl_append]
  rw [iter_nonfinal _ hB s.pad hpf a n hn']

theorem aligned_nonempty (l bl : Nat) (hbl : 0 < bl) (h0 : 0 < l) (hm : l % bl = 0) : ∃ n, l = (n + 1) * bl := by
  refine ⟨l / bl - 1, ?_⟩
  have h1 : l = bl * (l / bl) := by
    have := Nat.div_add_mod l bl
    omega
  have h2 : 0 < l / bl := Nat.div_pos (Nat.le_of_dvd h0 (Nat.dvd_of_mod_eq_zero hm)) hbl
  rw [show l / bl - 1 + 1 = l / bl by omega, Nat.mul_comm]
  exact h1

theorem blocklen_pos (c : Blake.Cfg) (hc : blakeCfg c) : 0 < c.blocksize / 8 := by
  rcases hc with rfl | rfl | rfl | rfl <;> decide

/-- BLAKE: feeding block-aligned pieces (empty ones included) and finishing with a non-empty final piece is the one-shot
    update on the concatenation; the bit counter after the pieces is the number of bits fed -/
theorem blake_feed (c : Blake.Cfg) (hc : blakeCfg c) (pieces : List (List Nat))
    (hal : ∀ p ∈ pieces, p.length % (c.blocksize / 8) = 0) (final : List Nat) (hf : final ≠ []) :
    ∀ (s : Blake.State), s.pad.padflag = false →
      Blake.update c (Blake.feed c s pieces) final none true = Blake.update c s (pieces.flatten ++ final) none true ∧
      (Blake.feed c s pieces).pad = { s.pad with bitcnt := s.pad.bitcnt + 8 * pieces.flatten.length } := by
  induction pieces with
  | nil => intro s _; simp [Blake.feed]
  | cons p ps ih =>
    intro s hpf
    have hal' : ∀ q ∈ ps, q.length % (c.blocksize / 8) = 0 := fun q hq => hal q (by simp [hq])
    by_cases hp : p = []
    · subst hp
      have := ih hal' s hpf
      simpa [Blake.feed, blake_update_nil c s hpf] using this
    · have hpl : 0 < p.length := List.length_pos_iff.mpr hp
      obtain ⟨n, hn⟩ := aligned_nonempty p.length _ (blocklen_pos c hc) hpl (hal p (by simp))
      obtain ⟨hpad, _⟩ := blake_update_nonfinal_pad c hc s hpf p n hn
      have hpf1 : (Blake.update c s p none false).1.pad.padflag = false := by rw [hpad]; exact hpf
      obtain ⟨ih1, ih2⟩ := ih hal' (Blake.update c s p none false).1 hpf1
      have hb : ps.flatten ++ final ≠ [] := by simp [hf]
      refine ⟨?_, ?_⟩
      · simp only [Blake.feed, List.foldl_cons, List.flatten_cons, List.append_assoc]
        rw [blake_update_append c hc s hpf p (ps.flatten ++ final) n hn hb]
        exact ih1
      · simp only [Blake.feed, List.foldl_cons, List.flatten_cons, List.length_append]
        have := ih2
        simp only [Blake.feed] at this
        rw [this, hpad]
        simp only []
        congr 1
        omega

/-! ### BLAKE2 -/


def blake2Cfg (c : Blake.Cfg) : Prop := c = Blake2.blake2b ∨ c = Blake2.blake2s

theorem null_geom (c : Blake.Cfg) (hc : blake2Cfg c) : c.blocksize = 512 ∨ c.blocksize = 1024 := by
  rcases hc with rfl | rfl <;> decide

theorem null_yields_pos (B : Nat) (hB : B = 512 ∨ B = 1024) (st : PadState) (hpf : st.padflag = false) (m : List Nat) :
    0 < (Padder.iterblocks ⟨.null, B⟩ st m none true).yields.length := by
  have h := congrArg List.length (null_yields_core B hB st hpf m).2
  simp only [List.length_map, List.length_range] at h
  rw [h]
  rcases hB with rfl | rfl <;> (split <;> omega)

theorem trace_append (c : Blake.Cfg) (hc : blake2Cfg c) (pad : PadState) (hpf : pad.padflag = false)
    (a b : List Nat) (n : Nat) (hn : a.length = (n + 1) * (c.blocksize / 8)) (hb : b ≠ []) :
    Blake2.trace c pad (a ++ b) true =
      Blake2.trace c pad a false ++
        Blake2.trace c ((Padder.mk .null c.blocksize).iterblocks pad a none false).final b true := by
  have hB := null_geom c hc
  have hn' : a.length = (n + 1) * (Padder.mk .null c.blocksize).blocklen := hn
  unfold Blake2.trace
  rw [iter_append _ hB pad hpf a b n hn' hb]
  simp only []
  have hpos := null_yields_pos c.blocksize hB ((Padder.mk .null c.blocksize).iterblocks pad a none false).final
    (by rw [iter_nonfinal _ hB pad hpf a n hn']; exact hpf) b
  generalize ((Padder.mk .null c.blocksize).iterblocks pad a none false).yields = ys1 at *
  generalize ((Padder.mk .null c.blocksize).iterblocks ((Padder.mk .null c.blocksize).iterblocks pad a none false).final b none true).yields = ys2 at *
  apply List.ext_getElem
  · simp
  · intro i h1 h2
    simp only [List.length_map, List.length_zipIdx, List.length_append] at h1
    simp only [List.getElem_map, List.getElem_zipIdx, List.getElem_append, List.length_map, List.length_zipIdx,
      List.length_append, Nat.zero_add, Bool.true_and, Bool.false_and]
    by_cases hlt : i < ys1.length
    · simp only [hlt, dite_true]
      congr 2
      simp only [beq_eq_false_iff_ne, ne_eq]
      omega
    · simp only [hlt, dite_false]
      congr 2
      have hge : ys1.length ≤ i := Nat.le_of_not_lt hlt
      rw [Bool.eq_iff_iff]
      simp only [beq_iff_eq]
      omega

theorem blake2_update_nil (c : Blake.Cfg) (s : Blake2.State) (h : s.pad.padflag = false) :
    (Blake2.update c s [] false).1 = s := by
  simp [Blake2.update, Blake2.trace, Padder.iterblocks, h]

theorem blake2_update_nonfinal_pad (c : Blake.Cfg) (hc : blake2Cfg c) (s : Blake2.State) (hpf : s.pad.padflag = false)
    (a : List Nat) (n : Nat) (hn : a.length = (n + 1) * (c.blocksize / 8)) :
    (Blake2.update c s a false).1.pad = { s.pad with bitcnt := s.pad.bitcnt + 8 * a.length } := by
  have hB := null_geom c hc
  have hn' : a.length = (n + 1) * (Padder.mk .null c.blocksize).blocklen := hn
  simp only [Blake2.update]
  rw [iter_nonfinal _ hB s.pad hpf a n hn']
  simp only []
  congr 1
  rw [hn]
  rcases hB with h | h <;> rw [h] <;> omega

/-- BLAKE2: absorbing `a ++ b` in one final call = a non-final update with the aligned non-empty piece `a`, then the
    final update with the non-empty rest `b` -/
theorem blake2_update_append (c : Blake.Cfg) (hc : blake2Cfg c) (s : Blake2.State) (hpf : s.pad.padflag = false)
    (a b : List Nat) (n : Nat) (hn : a.length = (n + 1) * (c.blocksize / 8)) (hb : b ≠ []) :
    Blake2.update c s (a ++ b) true = Blake2.update c (Blake2.update c s a false).1 b true := by
  have hB := null_geom c hc
  have hn' : a.length = (n + 1) * (Padder.mk .null c.blocksize).blocklen := hn
  have hpf1 : ((Padder.mk .null c.blocksize).iterblocks s.pad a none false).final.padflag = false := by
    rw [iter_nonfinal _ hB s.pad hpf a n hn']; exact hpf
  have hne : Blake2.trace c ((Padder.mk .null c.blocksize).iterblocks s.pad a none false).final b true ≠ [] := by
    intro h
    have := null_yields_pos c.blocksize hB _ hpf1 b
    rw [← trace_length, h] at this
    exact Nat.lt_irrefl _ this
  simp only [Blake2.update]
  rw [trace_append c hc s.pad hpf a b n hn hb, iter_append _ hB s.pad hpf a b n hn' hb]
  simp only [List.foldl_append, List.getLast?_append]
  rw [iter_nonfinal _ hB s.pad hpf a n hn'] at hne ⊢
  simp only [] at hne ⊢
  obtain ⟨y, hy⟩ : ∃ y, (Blake2.trace c { padflag := s.pad.padflag, bitcnt := s.pad.bitcnt + (n + 1) * c.blocksize, padcnt := s.pad.padcnt } b true).getLast? = some y := by
    cases h : (Blake2.trace c { padflag := s.pad.padflag, bitcnt := s.pad.bitcnt + (n + 1) * c.blocksize, padcnt := s.pad.padcnt } b true).getLast? with
    | none => exact absurd (List.getLast?_eq_none_iff.mp h) hne
    | some y => exact ⟨y, rfl⟩
  simp only [hy, Option.some_or]

/-- BLAKE2: feeding block-aligned pieces and finishing with a non-empty final piece is the one-shot update -/
theorem blake2_feed (c : Blake.Cfg) (hc : blake2Cfg c) (pieces : List (List Nat))
    (hal : ∀ p ∈ pieces, p.length % (c.blocksize / 8) = 0) (final : List Nat) (hf : final ≠ []) :
    ∀ (s : Blake2.State), s.pad.padflag = false →
      Blake2.update c (Blake2.feed c s pieces) final true = Blake2.update c s (pieces.flatten ++ final) true ∧
      (Blake2.feed c s pieces).pad = { s.pad with bitcnt := s.pad.bitcnt + 8 * pieces.flatten.length } := by
  have hblpos : 0 < c.blocksize / 8 := by rcases hc with rfl | rfl <;> decide
  induction pieces with
  | nil => intro s _; simp [Blake2.feed]
  | cons p ps ih =>
    intro s hpf
    have hal' : ∀ q ∈ ps, q.length % (c.blocksize / 8) = 0 := fun q hq => hal q (by simp [hq])
    by_cases hp : p = []
    · subst hp
      have := ih hal' s hpf
      simpa [Blake2.feed, blake2_update_nil c s hpf] using this
    · have hpl : 0 < p.length := List.length_pos_iff.mpr hp
      obtain ⟨n, hn⟩ := aligned_nonempty p.length _ hblpos hpl (hal p (by simp))
      have hpad := blake2_update_nonfinal_pad c hc s hpf p n hn
      have hpf1 : (Blake2.update c s p false).1.pad.padflag = false := by rw [hpad]; exact hpf
      obtain ⟨ih1, ih2⟩ := ih hal' (Blake2.update c s p false).1 hpf1
      have hb : ps.flatten ++ final ≠ [] := by simp [hf]
      refine ⟨?_, ?_⟩
      · simp only [Blake2.feed, List.foldl_cons, List.flatten_cons, List.append_assoc]
        rw [blake2_update_append c hc s hpf p (ps.flatten ++ final) n hn hb]
        exact ih1
      · simp only [Blake2.feed, List.foldl_cons, List.flatten_cons, List.length_append]
        have := ih2
        simp only [Blake2.feed] at this
        rw [this, hpad]
        simp only []
        congr 1
        omega

end Proofs.Lemmas.BlakeStream
