/-
  Helper lemmas about Model.Nilsimsa for Proofs.C19: `distance` (= `Bits(h1).hd(h2)` through Model.Bits) is the
  Hamming distance; the histogram refinement Model = Spec.
-/
import Model.Nilsimsa
import Spec.Nilsimsa
namespace Proofs.Lemmas.Nilsimsa
open Model Model.Nilsimsa

/-! ### `Bits(bytes)` with the default bit order -/

/-- value of `Bits(s)`: byte k lands, mapped by f (the bit reversal), in bits 8k..8k+7 -/
def valF (f : Nat → Nat) : List Nat → Nat
  | [] => 0
  | b :: bs => (valF f bs <<< 8) ||| f b

abbrev val : List Nat → Nat := valF Bits.reverseByte

theorem val_cons (b : Nat) (bs : List Nat) : val (b :: bs) = (val bs <<< 8) ||| Bits.reverseByte b := by
  unfold val; rw [valF]

theorem chunks1_go (s : List Nat) (fuel : Nat) (h : s.length ≤ fuel) : Py.chunks.go 1 s fuel = s.map fun b => [b] := by
  induction fuel generalizing s with
  | zero =>
    have : s = [] := List.eq_nil_of_length_eq_zero (by omega)
    subst this; rfl
  | succ n ih =>
    cases s with
    | nil => simp [Py.chunks.go]
    | cons x xs =>
      simp only [Py.chunks.go, List.isEmpty_cons, Bool.false_eq_true, ↓reduceIte, List.map_cons]
      rw [show List.drop 1 (x :: xs) = xs from rfl, ih xs (by simp at h; omega)]
      rfl

theorem groupVal_single (f : Nat → Nat) (x : Nat) : Bits.groupVal f [x] = f x := by
  simp [Bits.groupVal]

theorem groupsVal_singletons (f : Nat → Nat) (s : List Nat) : Bits.groupsVal f 1 (s.map fun b => [b]) = valF f s := by
  induction s with
  | nil => rfl
  | cons x xs ih => rw [List.map_cons, Bits.groupsVal, ih, groupVal_single, valF]

theorem ofBytes_default (s : List Nat) : Bits.ofBytes s = .ok ⟨val s, 8 * s.length⟩ := by
  simp only [Bits.ofBytes, Bits.load, bind, Except.bind, pure, Except.pure]
  have hk : (if (-1 : Int) = 0 then (if s.length = 0 then 1 else s.length) else (-1 : Int).natAbs) = 1 := by simp
  simp only [show ((-1 : Int) < 0) = True from by decide, ↓reduceIte, hk, Nat.mod_one, ne_eq, not_true_eq_false]
  rw [Py.chunks]
  simp only [Nat.one_ne_zero, ↓reduceIte, chunks1_go s s.length (Nat.le_refl _), groupsVal_singletons]

/-! ### bits -/

theorem rev_testBit : ∀ x < 256, ∀ i < 8, (Bits.reverseByte x).testBit i = x.testBit (7 - i) := by decide +kernel
theorem rev_lt : ∀ x < 256, Bits.reverseByte x < 256 := by decide +kernel

theorem testBit_ge8 {x i : Nat} (hx : x < 256) (hi : 8 ≤ i) : x.testBit i = false :=
  Nat.testBit_lt_two_pow (Nat.lt_of_lt_of_le hx (by
    calc 256 = 2 ^ 8 := rfl
      _ ≤ 2 ^ i := Nat.pow_le_pow_right (by decide) hi))

theorem rev_xor (x y : Nat) (hx : x < 256) (hy : y < 256) :
    Bits.reverseByte x ^^^ Bits.reverseByte y = Bits.reverseByte (x ^^^ y) := by
  have hxy : x ^^^ y < 256 := Nat.xor_lt_two_pow (n := 8) hx hy
  apply Nat.eq_of_testBit_eq
  intro i
  by_cases hi : i < 8
  · rw [Nat.testBit_xor, rev_testBit x hx i hi, rev_testBit y hy i hi, rev_testBit _ hxy i hi, Nat.testBit_xor]
  · have h8 : 8 ≤ i := by omega
    rw [Nat.testBit_xor, testBit_ge8 (rev_lt x hx) h8, testBit_ge8 (rev_lt y hy) h8, testBit_ge8 (rev_lt _ hxy) h8]
    rfl

/-- number of one bits among the low n bits (what `hw` computes on a Bits of size n) -/
def ones (n v : Nat) : Nat := (((List.range n).map fun i => (v >>> i) &&& 1).filter (· = 1)).length

theorem bit_eq (v i : Nat) : (v >>> i) &&& 1 = (v.testBit i).toNat := by
  rw [Nat.toNat_testBit, Nat.and_one_is_mod, Nat.shiftRight_eq_div_pow]

theorem ones_split (n X r : Nat) (hr : r < 256) : ones (8 + n) ((X <<< 8) ||| r) = ones 8 r + ones n X := by
  unfold ones
  rw [List.range_add, List.map_append, List.filter_append, List.length_append, List.map_map]
  congr 2
  · congr 1
    apply List.map_congr_left
    intro i hi
    have hi8 : i < 8 := List.mem_range.mp hi
    rw [bit_eq, bit_eq, Nat.testBit_or, Nat.testBit_shiftLeft]
    simp [show ¬ i ≥ 8 by omega]
  · congr 1
    apply List.map_congr_left
    intro i _
    simp only [Function.comp]
    rw [bit_eq, bit_eq, Nat.testBit_or, Nat.testBit_shiftLeft, testBit_ge8 hr (by omega)]
    simp

theorem ones8_rev : ∀ z < 256, ones 8 (Bits.reverseByte z) = Spec.Nilsimsa.popcount8 z := by decide +kernel

theorem val_xor (a b : List Nat) (hl : a.length = b.length) (ha : ∀ x ∈ a, x < 256) (hb : ∀ x ∈ b, x < 256) :
    ones (8 * a.length) (val a ^^^ val b) = Spec.Nilsimsa.hamming a b := by
  induction a generalizing b with
  | nil =>
    cases b with
    | nil => rfl
    | cons y ys => simp at hl
  | cons x xs ih =>
    cases b with
    | nil => simp at hl
    | cons y ys =>
      have hx : x < 256 := ha x (List.mem_cons_self ..)
      have hy : y < 256 := hb y (List.mem_cons_self ..)
      have hxy : x ^^^ y < 256 := Nat.xor_lt_two_pow (n := 8) hx hy
      have e : val (x :: xs) ^^^ val (y :: ys) = ((val xs ^^^ val ys) <<< 8) ||| Bits.reverseByte (x ^^^ y) := by
        rw [val_cons, val_cons, ← rev_xor x y hx hy]
        apply Nat.eq_of_testBit_eq
        intro i
        simp only [Nat.testBit_xor, Nat.testBit_or, Nat.testBit_shiftLeft]
        by_cases hi : i ≥ 8
        · rw [testBit_ge8 (rev_lt x hx) hi, testBit_ge8 (rev_lt y hy) hi]; simp [show 8 ≤ i from hi]
        · simp [hi]
      rw [e, show 8 * (x :: xs).length = 8 + 8 * xs.length by simp; omega, ones_split _ _ _ (rev_lt _ hxy),
        ones8_rev _ hxy, ih ys (by simpa using hl) (fun z hz => ha z (List.mem_cons_of_mem _ hz))
          (fun z hz => hb z (List.mem_cons_of_mem _ hz))]
      simp [Spec.Nilsimsa.hamming]

/-- `distance(h1,h2)` for two equally long byte strings is their Hamming distance -/
theorem distance_eq_hamming (a b : List Nat) (hl : a.length = b.length) (ha : ∀ x ∈ a, x < 256) (hb : ∀ x ∈ b, x < 256) :
    distance a b = .ok (Spec.Nilsimsa.hamming a b) := by
  simp only [distance, ofBytes_default, bind, Except.bind, Bits.hd, hl, ne_eq, not_true_eq_false, ↓reduceIte]
  congr 1
  have : (Bits.xor ⟨val a, 8 * b.length⟩ ⟨val b, 8 * b.length⟩) = ⟨val a ^^^ val b, 8 * b.length⟩ := by
    simp [Bits.xor, Bits.wsize]
  rw [this, ← hl]
  exact val_xor a b hl ha hb

theorem distance_length_mismatch (a b : List Nat) (hl : a.length ≠ b.length) : ∃ e, distance a b = .error e := by
  simp only [distance, ofBytes_default, bind, Except.bind, Bits.hd]
  have : 8 * a.length ≠ 8 * b.length := by omega
  simp [this]

theorem popcount8_zero : ∀ z < 256, (Spec.Nilsimsa.popcount8 z = 0 ↔ z = 0) := by decide +kernel

theorem xor_eq_zero_iff (x y : Nat) : x ^^^ y = 0 ↔ x = y := by
  constructor
  · intro h
    apply Nat.eq_of_testBit_eq
    intro i
    have : (x ^^^ y).testBit i = false := by rw [h]; exact Nat.zero_testBit i
    rw [Nat.testBit_xor] at this
    cases hx : x.testBit i <;> cases hy : y.testBit i <;> simp [hx, hy] at this ⊢
  · rintro rfl; exact Nat.xor_self x

theorem hamming_comm (a b : List Nat) : Spec.Nilsimsa.hamming a b = Spec.Nilsimsa.hamming b a := by
  unfold Spec.Nilsimsa.hamming
  rw [List.zipWith_comm]
  have : (fun (b a : Nat) => Spec.Nilsimsa.popcount8 (a ^^^ b)) = fun x y => Spec.Nilsimsa.popcount8 (x ^^^ y) := by
    funext x y; rw [Nat.xor_comm]
  rw [this]

theorem hamming_eq_zero (a b : List Nat) (hl : a.length = b.length) (ha : ∀ x ∈ a, x < 256) (hb : ∀ x ∈ b, x < 256) :
    Spec.Nilsimsa.hamming a b = 0 ↔ a = b := by
  induction a generalizing b with
  | nil => cases b with
    | nil => simp [Spec.Nilsimsa.hamming]
    | cons y ys => simp at hl
  | cons x xs ih =>
    cases b with
    | nil => simp at hl
    | cons y ys =>
      have hx : x < 256 := ha x (List.mem_cons_self ..)
      have hy : y < 256 := hb y (List.mem_cons_self ..)
      have hxy : x ^^^ y < 256 := Nat.xor_lt_two_pow (n := 8) hx hy
      have ih' := ih ys (by simpa using hl) (fun z hz => ha z (List.mem_cons_of_mem _ hz))
          (fun z hz => hb z (List.mem_cons_of_mem _ hz))
      have e : Spec.Nilsimsa.hamming (x :: xs) (y :: ys) = Spec.Nilsimsa.popcount8 (x ^^^ y) + Spec.Nilsimsa.hamming xs ys := by
        simp [Spec.Nilsimsa.hamming]
      rw [e, Nat.add_eq_zero_iff, popcount8_zero _ hxy, ih', xor_eq_zero_iff]
      simp

/-! ### the digest bytes -/

theorem codeByte_fold_le (dacc : List Nat) (thres k : Nat) (l : List Nat) (acc : Nat) :
    l.foldl (fun acc b => if dacc.getD (8 * k + b) 0 > thres then acc + (1 <<< b) else acc) acc
      ≤ acc + (l.map (1 <<< ·)).sum := by
  induction l generalizing acc with
  | nil => simp
  | cons b bs ih =>
    simp only [List.foldl_cons, List.map_cons, List.sum_cons]
    have hp : 0 < 1 <<< b := by rw [Nat.shiftLeft_eq]; exact Nat.mul_pos (by decide) (Nat.two_pow_pos b)
    split
    · exact Nat.le_trans (ih _) (by omega)
    · exact Nat.le_trans (ih _) (by omega)

theorem codeByte_lt (dacc : List Nat) (thres k : Nat) : codeByte dacc thres k < 256 := by
  have := codeByte_fold_le dacc thres k (List.range 8) 0
  have e : ((List.range 8).map (1 <<< ·)).sum = 255 := by decide
  unfold codeByte
  omega

theorem digest_length (s : St) : (digest s).length = 32 := by simp [digest]

theorem digest_lt (s : St) : ∀ x ∈ digest s, x < 256 := by
  intro x hx
  simp only [digest, List.mem_reverse, List.mem_map] at hx
  obtain ⟨k, _, rfl⟩ := hx
  exact codeByte_lt _ _ _

/-! ### Model = Spec -/

theorem and255 (x : Nat) : x &&& 255 = x % 256 := Nat.and_two_pow_sub_one_eq_mod x 8

theorem scan_eq (T : List Nat) (fuel j : Nat) (rest : List Nat) :
    scan T fuel j rest = Spec.Nilsimsa.scan T fuel j rest := by
  induction fuel generalizing j rest with
  | zero => simp [scan, Spec.Nilsimsa.scan]
  | succ n ih =>
    cases rest with
    | nil => simp [scan, Spec.Nilsimsa.scan]
    | cons x r =>
      simp only [scan, Spec.Nilsimsa.scan, and255, List.drop_one]
      by_cases h : x = j
      · simp [h, ih]
      · have h' : ¬ j = x := fun e => h e.symm
        simp [h, h', ih]

theorem maketranAux_eq (t n j : Nat) (T : List Nat) : maketranAux t n j T = Spec.Nilsimsa.filltranAux t n j T := by
  induction n generalizing j T with
  | zero => rfl
  | succ n ih => simp only [maketranAux, Spec.Nilsimsa.filltranAux, and255, scan_eq, scanFuel, ih]

theorem maketran_eq (t : Nat) : maketran t = Spec.Nilsimsa.filltran t := maketranAux_eq t 256 0 []

theorem tran3_eq (tran : List Nat) (a b c n : Nat) : tran3 tran a b c n = Spec.Nilsimsa.tran3 tran a b c n := by
  simp only [tran3, Spec.Nilsimsa.tran3, and255]

theorem tran3_lt (tran : List Nat) (a b c n : Nat) : tran3 tran a b c n < 256 := by
  rw [tran3, and255]; exact Nat.mod_lt _ (by decide)

theorem total_eq (n : Nat) : total n = Spec.Nilsimsa.total n := by
  unfold total Spec.Nilsimsa.total
  repeat' split
  all_goals omega

/-- the histogram of a list of events -/
def hist (ev : List Nat) : List Nat := (List.range 256).map fun v => ev.count v

theorem hist_snoc (ev : List Nat) (e : Nat) : hist (ev ++ [e]) = bump (hist ev) e := by
  apply List.ext_getElem
  · simp [hist, bump]
  · intro j h1 h2
    have hj : j < 256 := by simpa [hist] using h1
    simp only [bump, List.getElem_modify, hist, List.getElem_map, List.getElem_range, List.count_append,
      List.count_singleton]
    by_cases h : e = j
    · subst h; simp
    · simp [h]

theorem hist_append_cons (ev : List Nat) (e : Nat) (es : List Nat) : ev ++ e :: es = (ev ++ [e]) ++ es := by simp

/-- the events that the byte `b` adds when `r` is the reversed prefix before it -/
def newEvents (tran : List Nat) (b : Nat) : List Nat → List Nat
  | w0 :: w1 :: w2 :: w3 :: _ =>
    [tran3 tran b w0 w1 0, tran3 tran b w0 w2 1, tran3 tran b w1 w2 2, tran3 tran b w0 w3 3, tran3 tran b w1 w3 4,
     tran3 tran b w2 w3 5, tran3 tran w3 w0 b 6, tran3 tran w3 w2 b 7]
  | [w0, w1, w2] => [tran3 tran b w0 w1 0, tran3 tran b w0 w2 1, tran3 tran b w1 w2 2]
  | [w0, w1] => [tran3 tran b w0 w1 0]
  | _ => []

/-- all events of the prefix whose reversal is `r` -/
def evR (tran : List Nat) : List Nat → List Nat
  | [] => []
  | b :: r => evR tran r ++ newEvents tran b r

/-- the model state after the prefix whose reversal is `r` -/
def stateR (tran : List Nat) (r : List Nat) : St :=
  ⟨r.length, hist (evR tran r), r[0]?, r[1]?, r[2]?, r[3]?⟩

theorem step_stateR (tran : List Nat) (r : List Nat) (b : Nat) : step tran (stateR tran r) b = stateR tran (b :: r) := by
  have e : evR tran (b :: r) = evR tran r ++ newEvents tran b r := rfl
  unfold step stateR
  rw [e]
  generalize evR tran r = E
  match r with
  | [] => simp [newEvents]
  | [w0] => simp [newEvents]
  | [w0, w1] =>
    simp only [newEvents, List.length_cons, List.length_nil, List.getElem?_cons_zero, List.getElem?_cons_succ,
      List.getElem?_nil, St.mk.injEq, and_true, true_and]
    exact (hist_snoc _ _).symm
  | [w0, w1, w2] =>
    simp only [newEvents, List.length_cons, List.length_nil, List.getElem?_cons_zero, List.getElem?_cons_succ,
      List.getElem?_nil, St.mk.injEq, and_true, true_and]
    rw [hist_append_cons, hist_append_cons, hist_snoc _ _, hist_snoc _ _,
      hist_snoc _ _]
  | w0 :: w1 :: w2 :: w3 :: rest =>
    simp only [newEvents, List.length_cons, List.getElem?_cons_zero, List.getElem?_cons_succ,
      St.mk.injEq, and_true, true_and]
    rw [hist_append_cons, hist_append_cons, hist_append_cons, hist_append_cons, hist_append_cons, hist_append_cons,
      hist_append_cons, hist_snoc _ _, hist_snoc _ _,
      hist_snoc _ _, hist_snoc _ _, hist_snoc _ _, hist_snoc _ _,
      hist_snoc _ _, hist_snoc _ _]

theorem update_stateR (tran : List Nat) (r data : List Nat) :
    update tran (stateR tran r) data = stateR tran (data.reverse ++ r) := by
  induction data generalizing r with
  | nil => rfl
  | cons b bs ih =>
    show update tran (step tran (stateR tran r) b) bs = _
    rw [step_stateR, ih]; simp

theorem update_init (tran : List Nat) (data : List Nat) : update tran St.init data = stateR tran data.reverse := by
  have hn : hist [] = List.replicate 256 0 := by decide +kernel
  have : St.init = stateR tran [] := by simp only [St.init, stateR, evR, hn]; rfl
  rw [this, update_stateR]; simp

theorem arr_getD (d : List Nat) (i : Nat) : d.toArray.getD i 0 = d.getD i 0 := by
  simp [Array.getD, List.getD_eq_getElem?_getD]
  split <;> simp_all

theorem lagR (d : List Nat) (k j : Nat) (hk : k ≤ d.length) (h1 : 1 ≤ j) (hj : j ≤ k) :
    d.getD (k - j) 0 = ((d.take k).reverse).getD (j - 1) 0 := by
  rw [List.getD_eq_getElem?_getD, List.getD_eq_getElem?_getD, List.getElem?_reverse (by simp; omega),
    List.getElem?_take_of_lt (by simp; omega)]
  congr 2
  simp; omega

theorem eventsAt_eq (tran d : List Nat) (k : Nat) (hk : k < d.length) :
    Spec.Nilsimsa.eventsAt tran d.toArray k = newEvents tran (d.getD k 0) ((d.take k).reverse) := by
  have hlen : ((d.take k).reverse).length = k := by simp; omega
  have c (j : Nat) (h1 : 1 ≤ j) (hj : j ≤ k) := lagR d k j (by omega) h1 hj
  unfold Spec.Nilsimsa.eventsAt
  simp only [arr_getD, ← tran3_eq, Nat.sub_zero]
  generalize (d.take k).reverse = r at hlen c
  match r, hlen with
  | [], hlen => subst hlen; simp [newEvents]
  | [w0], hlen => subst hlen; simp [newEvents]
  | [w0, w1], hlen =>
    subst hlen
    have h1 := c 1 (by simp) (by simp); have h2 := c 2 (by simp) (by simp)
    simp at h1 h2
    simp [newEvents, h1, h2]
  | [w0, w1, w2], hlen =>
    subst hlen
    have h1 := c 1 (by simp) (by simp); have h2 := c 2 (by simp) (by simp); have h3 := c 3 (by simp) (by simp)
    simp at h1 h2 h3
    simp [newEvents, h1, h2, h3]
  | w0 :: w1 :: w2 :: w3 :: rest, hlen =>
    subst hlen
    have h1 := c 1 (by simp) (by simp); have h2 := c 2 (by simp) (by simp); have h3 := c 3 (by simp) (by simp)
    have h4 := c 4 (by simp) (by simp)
    simp at h1 h2 h3 h4
    simp [newEvents, h1, h2, h3, h4]

theorem events_prefix (tran d : List Nat) (k : Nat) (hk : k ≤ d.length) :
    (List.range k).flatMap (Spec.Nilsimsa.eventsAt tran d.toArray) = evR tran (d.take k).reverse := by
  induction k with
  | zero => simp [evR]
  | succ k ih =>
    rw [List.range_succ, List.flatMap_append, ih (by omega), List.flatMap_singleton, eventsAt_eq tran d k (by omega)]
    have : (d.take (k + 1)).reverse = d.getD k 0 :: (d.take k).reverse := by
      rw [List.take_add_one, List.reverse_append]
      simp [List.getD_eq_getElem?_getD, List.getElem?_eq_getElem (show k < d.length by omega)]
    rw [this, evR]

theorem events_eq (tran d : List Nat) : Spec.Nilsimsa.events tran d.toArray = evR tran d.reverse := by
  unfold Spec.Nilsimsa.events
  have := events_prefix tran d d.length (Nat.le_refl _)
  simpa using this

theorem fold_sum (P : Nat → Bool) (l : List Nat) (acc : Nat) :
    l.foldl (fun acc b => if P b then acc + (1 <<< b) else acc) acc = acc + (l.map fun b => if P b then 2 ^ b else 0).sum := by
  induction l generalizing acc with
  | nil => simp
  | cons b bs ih =>
    simp only [List.foldl_cons, List.map_cons, List.sum_cons]
    rw [ih]
    split <;> simp [Nat.one_shiftLeft] <;> omega

theorem hist_getD (E : List Nat) (i : Nat) (hi : i < 256) : (hist E).getD i 0 = E.count i := by
  simp [hist, List.getD_eq_getElem?_getD, hi]

theorem codeByte_hist (E : List Nat) (thr k : Nat) (hk : k < 32) :
    codeByte (hist E) thr k = ((List.range 8).map fun b => if E.count (8 * k + b) > thr then 2 ^ b else 0).sum := by
  unfold codeByte
  have := fold_sum (fun b => decide ((hist E).getD (8 * k + b) 0 > thr)) (List.range 8) 0
  simp only [decide_eq_true_eq] at this
  rw [this, Nat.zero_add]
  congr 1
  apply List.map_congr_left
  intro b hb
  rw [hist_getD _ _ (by have := List.mem_range.mp hb; omega)]

theorem reverse_map_range (n : Nat) (f : Nat → Nat) :
    ((List.range n).map f).reverse = (List.range n).map fun m => f (n - 1 - m) := by
  apply List.ext_getElem
  · simp
  · intro i h1 h2
    simp at h1
    simp [List.getElem_reverse]

theorem nilsimsa_eq (t : Nat) (d : List Nat) : nilsimsa t d = Spec.Nilsimsa.nilsimsa t d := by
  unfold nilsimsa Spec.Nilsimsa.nilsimsa
  rw [update_init, ← maketran_eq]
  simp only [digest, stateR, List.length_reverse, events_eq, reverse_map_range, total_eq]
  apply List.map_congr_left
  intro m hm
  have hm' : m < 32 := List.mem_range.mp hm
  rw [codeByte_hist _ _ _ (by omega)]

end Proofs.Lemmas.Nilsimsa
