/-
  Proofs.Lemmas.Crc32 — the CRC-32 instance: tables read from the live module, the backward step, the
  `x^-32` multiplication of crc32_fix.  Core Lean only.
-/
import Model.Crc
import Spec.Crc
import Proofs.Lemmas.CrcLin
import Proofs.Lemmas.CrcModel
namespace Proofs.Lemmas.Crc32
open Model Model.Crc Spec.Crc Proofs.Lemmas.CrcLin Proofs.Lemmas.CrcModel

abbrev P32 : Nat := 0xEDB88320
abbrev Pi32 : Nat := 0x5B358FD3
abbrev M32 : Nat := 0xffffffff

theorem poly_eq : POLY32_1 = ⟨P32, 32⟩ := by decide
theorem polyi_eq : POLY32_1i = ⟨Pi32, 32⟩ := by decide
theorem poly_wf : (⟨P32, 32⟩ : Bits).WF := by decide

theorem table_gen : TABLE32_1 = crcTable ⟨P32, 32⟩ := by decide +kernel

/-- the forward register of CRC-32 from `r0` -/
abbrev reg32 (r0 : Nat) (data : List Nat) : Nat := register P32 r0 data

theorem reg32_lt (r0 : Nat) (data : List Nat) (hd : ∀ b ∈ data, b < 256) (hr : r0 < 2 ^ 32) :
    reg32 r0 data < 2 ^ 32 :=
  (fwdLoop_eq ⟨P32, 32⟩ poly_wf (by decide) data r0 hd hr).2

theorem crc_T32 (data : List Nat) (hd : ∀ b ∈ data, b < 256) :
    Model.Crc.crc data TABLE32_1 0xffffffff = .ok (reg32 M32 data) := by
  rw [table_gen]
  have := crc_register ⟨P32, 32⟩ poly_wf (by decide) M32 data hd
  exact this

theorem crc32_eq (data : List Nat) (hd : ∀ b ∈ data, b < 256) :
    Model.Crc.crc32 data = .ok (reg32 M32 data ^^^ M32) := by
  unfold Model.Crc.crc32
  rw [crc_T32 data hd]; rfl

/-! ### the backward table -/

def tbChk1 : Bool := (List.range 256).all fun h =>
  match TABLE32_1b[h]? with
  | some e => e.size == 32 && decide (e.ival < 2 ^ 32) && steps P32 8 e.ival == h <<< 24
  | none => false

theorem tbChk1_true : tbChk1 = true := by decide +kernel

def tbChk2 : Bool := (List.range 256).all fun lo =>
  let T := steps P32 8 lo
  match TABLE32_1b[T >>> 24]? with
  | some e => e.ival == ((T <<< 8) % 2 ^ 32) ^^^ lo
  | none => false

theorem tbChk2_true : tbChk2 = true := by decide +kernel

theorem tb_entry (h : Nat) (hh : h < 256) :
    ∃ e, lookup TABLE32_1b h = .ok e ∧ e.size = 32 ∧ e.ival < 2 ^ 32 ∧ steps P32 8 e.ival = h <<< 24 := by
  have := tbChk1_true
  unfold tbChk1 at this
  rw [List.all_eq_true] at this
  have := this h (List.mem_range.2 hh)
  unfold lookup
  cases hl : TABLE32_1b[h]? with
  | none => rw [hl] at this; exact absurd this (by simp)
  | some e =>
    rw [hl] at this
    simp only [Bool.and_eq_true, beq_iff_eq, decide_eq_true_eq] at this
    exact ⟨e, rfl, this.1.1, this.1.2, this.2⟩

theorem tb_entry2 (lo : Nat) (hlo : lo < 256) :
    ∃ e, lookup TABLE32_1b (steps P32 8 lo >>> 24) = .ok e
      ∧ e.ival = ((steps P32 8 lo <<< 8) % 2 ^ 32) ^^^ lo := by
  have := tbChk2_true
  unfold tbChk2 at this
  rw [List.all_eq_true] at this
  have := this lo (List.mem_range.2 hlo)
  unfold lookup
  cases hl : TABLE32_1b[steps P32 8 lo >>> 24]? with
  | none => simp only [hl] at this; exact absurd this (by simp)
  | some e =>
    simp only [hl, beq_iff_eq] at this
    exact ⟨e, rfl, this⟩

/-- one iteration of the backward loop, as a function on register values -/
def bstep (r b : Nat) : Nat :=
  match TABLE32_1b[r >>> 24]? with
  | some e => ((r <<< 8) % 2 ^ 32) ^^^ (e.ival ^^^ b)
  | none => 0

theorem shl8_mod (r : Nat) : (r <<< 8) % 2 ^ 32 = (r % 2 ^ 24) <<< 8 := by
  apply Nat.eq_of_testBit_eq; intro i
  simp only [Nat.testBit_mod_two_pow, Nat.testBit_shiftLeft]
  by_cases h8 : i ≥ 8
  · by_cases h32 : i < 32
    · have : i - 8 < 24 := by omega
      simp [h8, h32, this]
    · have : ¬ i - 8 < 24 := by omega
      simp [h8, h32, this]
  · simp [h8]

theorem bitLength_le (n k : Nat) (h : n < 2 ^ k) : Py.bitLength n ≤ k := by
  unfold Py.bitLength
  split
  · omega
  · rename_i hn
    have := (Nat.log2_lt hn).2 h
    omega

/-- the model's backward iteration on a 32-bit register -/
theorem backLoop_cons (r b : Nat) (bs : List Nat) (hr : r < 2 ^ 32) (hb : b < 256) :
    backLoop TABLE32_1b 32 ⟨r, 32⟩ (b :: bs) = backLoop TABLE32_1b 32 ⟨bstep r b, 32⟩ bs
      ∧ bstep r b < 2 ^ 32 ∧ steps P32 8 (bstep r b ^^^ b) = r := by
  have hidx : r >>> 24 < 256 := by
    rw [Nat.shiftRight_eq_div_pow]
    exact Nat.div_lt_of_lt_mul (by simpa using hr)
  obtain ⟨e, he, hes, hev, hest⟩ := tb_entry _ hidx
  have hget : TABLE32_1b[r >>> 24]? = some e := by
    unfold lookup at he
    cases hl : TABLE32_1b[r >>> 24]? with
    | none => rw [hl] at he; cases he
    | some e' => rw [hl] at he; cases he; rfl
  have hbs : bstep r b = ((r <<< 8) % 2 ^ 32) ^^^ (e.ival ^^^ b) := by
    unfold bstep; rw [hget]
  have hlt : bstep r b < 2 ^ 32 := by
    rw [hbs]
    exact Nat.xor_lt_two_pow (Nat.mod_lt _ (by decide)) (Nat.xor_lt_two_pow hev (by omega))
  refine ⟨?_, hlt, ?_⟩
  · have hbl : Py.bitLength b ≤ 8 := bitLength_le b 8 (by omega)
    have hstep : ((⟨r, 32⟩ : Bits).shl 8).xor (e.xor (Bits.ofNat b)) = ⟨bstep r b, 32⟩ := by
      rw [hbs]
      cases e with
      | mk ev es =>
        simp only at hes; subst hes
        simp only [Bits.shl, Bits.xor, Bits.wsize, Bits.ofNat, Bits.mask]
        have h1 : ¬ (32 > Py.bitLength b) → False := by omega
        have h2 : (32 > Py.bitLength b) := by omega
        simp only [h2, if_true, Nat.lt_irrefl, if_false, gt_iff_lt]
        rw [Nat.and_two_pow_sub_one_eq_mod]
    simp only [backLoop]
    have h8 : ¬ (32 < 8) := by omega
    simp only [h8, if_false, he, bind, Except.bind]
    rw [hstep]
  · rw [hbs]
    have : (r <<< 8 % 2 ^ 32 ^^^ (e.ival ^^^ b)) ^^^ b = (r <<< 8 % 2 ^ 32) ^^^ e.ival := by
      calc (r <<< 8 % 2 ^ 32 ^^^ (e.ival ^^^ b)) ^^^ b
          = (r <<< 8 % 2 ^ 32 ^^^ e.ival) ^^^ (b ^^^ b) := by ac_rfl
        _ = _ := by simp
    rw [this, steps_xor, hest, shl8_mod, steps_shl]
    exact (split_low r 24).symm

/-- running the backward loop over `l` (bytes in reverse message order) yields a register from which the forward
    register over `l.reverse` is the start value: forward ∘ backward = id -/
theorem backLoop_preimage : ∀ (l : List Nat) (r : Nat), (∀ b ∈ l, b < 256) → r < 2 ^ 32 →
    ∃ R, backLoop TABLE32_1b 32 ⟨r, 32⟩ l = .ok ⟨R, 32⟩ ∧ R < 2 ^ 32 ∧ reg32 R l.reverse = r := by
  intro l
  induction l with
  | nil => intro r _ hr; exact ⟨r, rfl, hr, rfl⟩
  | cons b bs ih =>
    intro r hl hr
    have hb : b < 256 := hl b (by simp)
    obtain ⟨h1, h2, h3⟩ := backLoop_cons r b bs hr hb
    obtain ⟨R, hR, hRlt, hRreg⟩ := ih (bstep r b) (fun x hx => hl x (by simp [hx])) h2
    refine ⟨R, by rw [h1, hR], hRlt, ?_⟩
    rw [List.reverse_cons]
    unfold reg32 at *
    rw [register_append, hRreg, register_cons _ _ _ _ hb, register_nil, h3]

/-- backward ∘ forward = id, one byte -/
theorem bstep_fwd (r b : Nat) (hr : r < 2 ^ 32) (hb : b < 256) : bstep (steps P32 8 (r ^^^ b)) b = r := by
  have hx : r ^^^ b < 2 ^ 32 := Nat.xor_lt_two_pow hr (by omega)
  have hlo : (r ^^^ b) % 2 ^ 8 < 256 := Nat.mod_lt _ (by decide)
  obtain ⟨e, he, hev⟩ := tb_entry2 _ hlo
  have hsp := steps_split P32 8 (r ^^^ b)
  have hT : steps P32 8 ((r ^^^ b) % 2 ^ 8) < 2 ^ 32 := steps_lt _ _ _ _ (by decide) (by omega)
  have hhi : (r ^^^ b) >>> 8 < 2 ^ 24 := by
    rw [Nat.shiftRight_eq_div_pow]; exact Nat.div_lt_of_lt_mul (by simpa using hx)
  have htop : steps P32 8 (r ^^^ b) >>> 24 = steps P32 8 ((r ^^^ b) % 2 ^ 8) >>> 24 := by
    rw [hsp, Nat.shiftRight_xor_distrib]
    have : (r ^^^ b) >>> 8 >>> 24 = 0 := by
      rw [Nat.shiftRight_eq_div_pow ((r ^^^ b) >>> 8)]; exact Nat.div_eq_of_lt hhi
    rw [this, Nat.xor_zero]
  have hget : TABLE32_1b[steps P32 8 (r ^^^ b) >>> 24]? = some e := by
    rw [htop]
    unfold lookup at he
    cases hl : TABLE32_1b[steps P32 8 ((r ^^^ b) % 2 ^ 8) >>> 24]? with
    | none => rw [hl] at he; cases he
    | some e' => rw [hl] at he; cases he; rfl
  unfold bstep
  simp only [hget]
  rw [hev]
  have hshl : (steps P32 8 (r ^^^ b) <<< 8) % 2 ^ 32
      = ((steps P32 8 ((r ^^^ b) % 2 ^ 8) <<< 8) % 2 ^ 32) ^^^ (((r ^^^ b) >>> 8) <<< 8) := by
    rw [hsp, shl8_mod, shl8_mod]
    apply Nat.eq_of_testBit_eq; intro i
    simp only [Nat.testBit_xor, Nat.testBit_shiftLeft, Nat.testBit_mod_two_pow]
    by_cases h8 : i ≥ 8
    · by_cases h24 : i - 8 < 24
      · simp [h8, h24]
      · have : ((r ^^^ b) >>> 8).testBit (i - 8) = false :=
          Nat.testBit_lt_two_pow (Nat.lt_of_lt_of_le hhi (Nat.pow_le_pow_right (by decide) (by omega)))
        simp [h8, h24, this]
    · simp [h8]
  rw [hshl]
  have hfin := split_low (r ^^^ b) 8
  calc _ = ((r ^^^ b) % 2 ^ 8 ^^^ ((r ^^^ b) >>> 8) <<< 8) ^^^ b
            ^^^ ((steps P32 8 ((r ^^^ b) % 2 ^ 8) <<< 8 % 2 ^ 32) ^^^ (steps P32 8 ((r ^^^ b) % 2 ^ 8) <<< 8 % 2 ^ 32)) := by
          ac_rfl
    _ = (r ^^^ b) ^^^ b := by rw [Nat.xor_self, Nat.xor_zero, ← hfin]
    _ = r := by rw [Nat.xor_assoc, Nat.xor_self, Nat.xor_zero]

/-- the backward loop (bytes `l` in reverse message order) from the forward register over `l.reverse` recovers the
    start register: backward ∘ forward = id -/
theorem backLoop_reg_rev : ∀ (l : List Nat) (r0 : Nat), (∀ b ∈ l, b < 256) → r0 < 2 ^ 32 →
    backLoop TABLE32_1b 32 ⟨reg32 r0 l.reverse, 32⟩ l = .ok ⟨r0, 32⟩ := by
  intro l
  induction l with
  | nil => intro r0 _ _; rfl
  | cons b bs ih =>
    intro r0 hd hr
    have hb : b < 256 := hd b (by simp)
    have hbs : ∀ x ∈ bs.reverse, x < 256 := fun x hx => hd x (by simp [List.mem_reverse.1 hx])
    have hreg : reg32 r0 bs.reverse < 2 ^ 32 := reg32_lt r0 bs.reverse hbs hr
    rw [List.reverse_cons]
    unfold reg32 at *
    rw [register_append, register_cons _ _ _ _ hb, register_nil]
    have hlt : steps P32 8 (register P32 r0 bs.reverse ^^^ b) < 2 ^ 32 :=
      steps_lt _ _ _ _ (by decide) (Nat.xor_lt_two_pow hreg (by omega))
    rw [(backLoop_cons _ b bs hlt hb).1, bstep_fwd _ _ hreg hb]
    exact ih r0 (fun x hx => hd x (by simp [hx])) hr

theorem backLoop_reg (data : List Nat) (r0 : Nat) (hd : ∀ b ∈ data, b < 256) (hr : r0 < 2 ^ 32) :
    backLoop TABLE32_1b 32 ⟨reg32 r0 data, 32⟩ data.reverse = .ok ⟨r0, 32⟩ := by
  have := backLoop_reg_rev data.reverse r0 (fun x hx => hd x (List.mem_reverse.1 hx)) hr
  rwa [List.reverse_reverse] at this

/-! ### crc32_fix: the multiplication by x^-32 -/

/-- the loop body in terms of `step` -/
theorem fixLoop_succ (P Pi n a t : Nat) :
    fixLoop P Pi (n + 1) a t = fixLoop P Pi n (step P a ^^^ (if t.testBit 0 then Pi else 0)) (t >>> 1) := by
  have ha : (a &&& 1 ≠ 0) ↔ a.testBit 0 = true := by
    rw [Nat.and_one_is_mod, Nat.testBit_zero]; simp only [decide_eq_true_eq]; omega
  have ht : (t &&& 1 ≠ 0) ↔ t.testBit 0 = true := by
    rw [Nat.and_one_is_mod, Nat.testBit_zero]; simp only [decide_eq_true_eq]; omega
  simp only [fixLoop, step, ha, ht]
  by_cases h1 : a.testBit 0 = true <;> by_cases h2 : t.testBit 0 = true <;> simp [h1, h2]

theorem fixLoop_xor (P Pi : Nat) : ∀ (n a a' t t' : Nat),
    fixLoop P Pi n (a ^^^ a') (t ^^^ t') = fixLoop P Pi n a t ^^^ fixLoop P Pi n a' t' := by
  intro n
  induction n with
  | zero => intro a a' t t'; rfl
  | succ n ih =>
    intro a a' t t'
    rw [fixLoop_succ, fixLoop_succ, fixLoop_succ, ← ih, step_xor, Nat.shiftRight_xor_distrib, Nat.testBit_xor]
    congr 1
    cases t.testBit 0 <;> cases t'.testBit 0 <;> simp
    · ac_rfl
    · ac_rfl
    · calc step P a ^^^ step P a' = step P a ^^^ step P a' ^^^ (Pi ^^^ Pi) := by simp
        _ = _ := by ac_rfl

theorem fixLoop_lt (P Pi w : Nat) (hP : P < 2 ^ w) (hPi : Pi < 2 ^ w) : ∀ (n a t : Nat), a < 2 ^ w →
    fixLoop P Pi n a t < 2 ^ w := by
  intro n
  induction n with
  | zero => intro a t ha; exact ha
  | succ n ih =>
    intro a t ha
    rw [fixLoop_succ]
    apply ih
    apply Nat.xor_lt_two_pow (step_lt P w a hP ha)
    split
    · exact hPi
    · exact Nat.two_pow_pos w

/-- 32 register steps undo the loop of crc32_fix -/
def fixMap (t : Nat) : Nat := steps P32 32 (fixLoop P32 Pi32 32 0 t)

theorem fixMap_xorAdd : XorAdd fixMap := by
  intro a b
  unfold fixMap
  have := fixLoop_xor P32 Pi32 32 0 0 a b
  rw [Nat.xor_self] at this
  rw [this, steps_xor]

def fixChk : Bool := (List.range 32).all fun i => fixMap (2 ^ i) == 2 ^ i

theorem fixChk_true : fixChk = true := by decide +kernel

theorem fixMap_id : ∀ t < 2 ^ 32, fixMap t = t := by
  apply xorAdd_ext fixMap id fixMap_xorAdd (fun _ _ => rfl) 32
  intro i hi
  have := fixChk_true
  unfold fixChk at this
  rw [List.all_eq_true] at this
  have := this i (List.mem_range.2 hi)
  simpa using this

/-! ### crc_back_pos on CRC-32 -/

theorem xor_M32_lt (c : Nat) (hc : c < 2 ^ 32) : M32 ^^^ c < 2 ^ 32 := Nat.xor_lt_two_pow (by decide) hc

theorem crcBackPos_eq (data : List Nat) (pos c : Nat) (hpos : pos < data.length) (hc : c < 2 ^ 32) :
    crcBackPos data (pos : Int) TABLE32_1b 0xffffffff (c : Int)
      = (backLoop TABLE32_1b 32 ⟨M32 ^^^ c, 32⟩ (data.drop pos).reverse >>= fun r => pure (some r.ival)) := by
  obtain ⟨e, he, hes, _, _⟩ := tb_entry 0 (by decide)
  unfold crcBackPos
  have hp : (0 ≤ (pos : Int) ∧ (pos : Int) < (data.length : Int)) := ⟨by omega, by omega⟩
  simp only [hp, not_true_eq_false, if_false, he, bind, Except.bind, hes, and_self]
  have hbl := bitLength_le c 32 hc
  have hr : (Bits.ofInt 0xffffffff (some 32)).xor (Bits.ofInt (c : Int) none) = ⟨M32 ^^^ c, 32⟩ := by
    have h2 : ¬ (32 > Py.bitLength c) → Py.bitLength c = 32 := by omega
    simp only [Bits.ofInt, Bits.ofNatSz, Bits.ofNat, Bits.xor, Bits.wsize, Int.natAbs_natCast]
    by_cases h : 32 > Py.bitLength c
    · simp [h]
    · simp [h2 h]
  simp only [Int.toNat_natCast]
  rw [hr]

end Proofs.Lemmas.Crc32
