/-
  Byte-level plumbing of `Salsa20.enc`: `split(8)` of a word vector, the `dim` setter, `Poly(bytes)`, `bytes(c.ival)`,
  the 64-byte pieces of the message, counter words, and the encryption loop.
-/
import Proofs.Lemmas.SalsaRounds
namespace Proofs.Lemmas.StreamEnc
open Model Model.Poly Proofs.Lemmas.StreamPoly Proofs.Lemmas.SalsaRounds

abbrev Byte := BitVec 8

theorem mapM_ok {α β} (f : α → β) (l : List α) :
    l.mapM (fun x => (Except.ok (f x) : Except Err β)) = .ok (l.map f) := by
  induction l with
  | nil => rfl
  | cons a t ih => simp only [List.mapM_cons, ih, bind_ok, List.map_cons]; rfl

theorem mapM_congr_ok {α β} (g : α → Except Err β) (f : α → β) (l : List α) (h : ∀ x ∈ l, g x = .ok (f x)) :
    l.mapM g = .ok (l.map f) := by
  induction l with
  | nil => rfl
  | cons a t ih =>
    simp only [List.mapM_cons, List.map_cons]
    rw [h a (by simp), bind_ok, ih (fun x hx => h x (by simp [hx])), bind_ok]
    rfl

/-- `Bits(w,32).split(8)`: the four little-endian bytes -/
theorem bits_split8 (w : Word) :
    (Bits.ofNatSz w.toNat 32).split 8 false =
      .ok ((Spec.Salsa20.littleendianInv w).map fun b => (⟨b.toNat, 8⟩ : Bits)) := by
  have hw := w.isLt
  unfold Bits.split Bits.ofNatSz
  simp only [Nat.reduceAdd, Nat.reduceSub, Nat.reduceDiv, ↓reduceIte, Nat.reduceEqDiff, Bool.false_eq_true]
  congr 1
  have hr : List.range 4 = [0, 1, 2, 3] := by decide
  rw [hr]
  simp only [List.map_cons, List.map_nil, Spec.Salsa20.littleendianInv, Bits.sliceFast, Bits.ofNatSz,
    Nat.and_two_pow_sub_one_eq_mod, Nat.shiftRight_eq_div_pow, BitVec.toNat_ofNat]
  simp only [Nat.reduceMul, Nat.reduceAdd, Nat.reducePow, Nat.zero_add, Nat.min_def] at *
  simp only [Nat.reduceLeDiff, ↓reduceIte, Nat.reduceSub, Nat.reducePow, List.cons.injEq, Bits.mk.injEq, and_true]
  refine ⟨?_, ?_, ?_, ?_⟩ <;> omega

/-- `x.split(8)` of a vector of 32-bit words: the little-endian bytes of every word, in order -/
theorem split8_ofBV (ws : List Word) : (ofBV ws).split 8 = .ok (ofBV (Spec.Salsa20.unwords ws)) := by
  unfold Poly.split
  simp only [ofBV_size, Nat.reduceEqDiff, ↓reduceIte, ofBV_ival, List.mapM_map]
  rw [mapM_congr_ok _ (fun w : Word => (Spec.Salsa20.littleendianInv w).map fun b => (⟨b.toNat, 8⟩ : Bits))]
  · simp only [bind_ok, pure, Except.pure]
    congr 1
    unfold ofBV Spec.Salsa20.unwords
    simp only [Poly.mk.injEq, and_true, List.flatMap_def, List.map_flatten, List.map_map]
    congr 1
    apply List.map_congr_left
    intro w _
    simp only [Function.comp, List.map_map]
    apply List.map_congr_left
    intro b _
    exact red_ofNat_toNat b
  · intro w _
    simp only [Function.comp, Int.toNat_natCast, Int.ofNat_eq_natCast]
    exact bits_split8 w

/-- the `dim` setter used for truncation -/
theorem setDim_ofBV {w} (l : List (BitVec w)) (n : Nat) (h0 : n ≠ 0) (hn : n ≤ l.length) :
    (ofBV l).setDim n = .ok (ofBV (l.take n)) := by
  unfold setDim
  simp only [h0, ↓reduceIte, ofBV_ival, List.length_map]
  have : n - l.length = 0 := by omega
  simp [this, ofBV, List.map_take]

/-- `Poly(bytes)` -/
theorem ofBytes_ofBV (m : List Byte) : Poly.ofBytes (m.map (·.toNat)) = ofBV m := by
  unfold Poly.ofBytes Poly.ofList ofBV
  simp only [↓reduceIte, List.map_map, Poly.mk.injEq, and_true]
  apply List.map_congr_left
  intro b _
  exact red_ofNat_toNat b

/-- `bytes(c.ival)` -/
theorem toBytes_ofBV (m : List Byte) : Salsa.toBytes (ofBV m).ival = .ok (m.map (·.toNat)) := by
  unfold Salsa.toBytes
  have : ((ofBV m).ival.all fun x => decide (0 ≤ x ∧ x < 256)) = true := by
    simp only [ofBV_ival, List.all_map, List.all_eq_true, Function.comp, decide_eq_true_eq]
    intro b _
    have := b.isLt
    constructor
    · exact Int.natCast_nonneg _
    · show ((b.toNat : Nat) : Int) < 256
      omega
  rw [if_pos this]
  simp only [ofBV_ival, List.map_map]
  congr 1


/-! ### the 64-byte pieces `m[p:p+64]` -/

theorem chunks_go_fuel2 {α} (k : Nat) (hk : 0 < k) (fuel fuel' : Nat) (l : List α) (h : l.length ≤ fuel)
    (h' : l.length ≤ fuel') : Py.chunks.go k l fuel = Py.chunks.go k l fuel' := by
  induction fuel generalizing l fuel' with
  | zero =>
    have : l = [] := List.eq_nil_of_length_eq_zero (by omega)
    subst this
    cases fuel' <;> rfl
  | succ f ih =>
    cases l with
    | nil => cases fuel' <;> rfl
    | cons a t =>
      cases fuel' with
      | zero => simp at h'
      | succ f' =>
        simp only [Py.chunks.go, List.isEmpty_cons, Bool.false_eq_true, ↓reduceIte]
        congr 1
        simp only [List.length_cons] at h h'
        apply ih <;> (simp only [List.length_drop, List.length_cons]; omega)

theorem chunks_go_fuel {α} (k : Nat) (hk : 0 < k) (fuel : Nat) (l : List α) (h : l.length ≤ fuel) :
    Py.chunks.go k l fuel = Py.chunks.go k l l.length := chunks_go_fuel2 k hk _ _ l h (Nat.le_refl _)

theorem chunks_nil {α} (k : Nat) : Py.chunks k ([] : List α) = [] := by
  unfold Py.chunks; split <;> rfl

theorem chunks_cons {α} (k : Nat) (hk : 0 < k) (l : List α) (h : l ≠ []) :
    Py.chunks k l = l.take k :: Py.chunks k (l.drop k) := by
  unfold Py.chunks
  have hk' : k ≠ 0 := by omega
  simp only [hk', ↓reduceIte]
  cases l with
  | nil => exact absurd rfl h
  | cons a t =>
    simp only [List.length_cons, Py.chunks.go, List.isEmpty_cons, Bool.false_eq_true, ↓reduceIte]
    congr 1
    exact chunks_go_fuel k hk _ _ (by simp only [List.length_drop, List.length_cons]; omega)

theorem chunks_map {α β} (f : α → β) (k : Nat) (l : List α) :
    Py.chunks k (l.map f) = (Py.chunks k l).map (List.map f) := by
  by_cases hk : k = 0
  · simp [Py.chunks, hk]
  · have hk' : 0 < k := by omega
    induction hn : l.length using Nat.strongRecOn generalizing l with
    | _ n ih =>
      by_cases hl : l = []
      · subst hl; simp [chunks_nil]
      · rw [chunks_cons k hk' l hl, chunks_cons k hk' (l.map f) (by simpa using hl)]
        simp only [List.map_cons, List.map_take]
        rw [← List.map_drop]
        congr 1
        have : l.length ≠ 0 := by intro h; exact hl (List.eq_nil_of_length_eq_zero h)
        exact ih (l.drop k).length (by simp only [List.length_drop]; omega) _ rfl

/-! ### counter and nonce words -/

def ctrSet (c : Nat) (P : List Word) (i : Nat) : List Word :=
  (P.set c (BitVec.ofNat 32 (i % 2 ^ 32))).set (c + 1) (BitVec.ofNat 32 (i / 2 ^ 32))

theorem ctrSet_length (c : Nat) (P : List Word) (i : Nat) : (ctrSet c P i).length = P.length := by
  simp [ctrSet]

theorem ctrSet_ctrSet (c : Nat) (P : List Word) (i j : Nat) : ctrSet c (ctrSet c P i) j = ctrSet c P j := by
  unfold ctrSet
  apply List.ext_getElem
  · simp
  · intro n h1 h2
    simp only [List.getElem_set]
    grind

theorem setInt_ofBV {w} (hw : w ≠ 0) (ws : List (BitVec w)) (i : Nat) (h : i < ws.length) (n : Nat) :
    (ofBV ws).setInt (i : Int) (n : Int) = .ok (ofBV (ws.set i (BitVec.ofNat w n))) := by
  unfold setInt Py.normIndex
  have h0 : (0 : Int) ≤ (i : Int) ∧ (i : Int) < ((ofBV ws).ival.length : Int) := by
    constructor
    · exact Int.natCast_nonneg _
    · simp only [ofBV_ival, List.length_map]; exact Int.ofNat_lt.mpr h
  simp only [h0, and_self, ↓reduceIte, Int.toNat_natCast, ofBV_size, red_natCast hw]
  congr 1
  simp [ofBV, List.map_set]

/-- `p[c:c+2] = (a,b)` on a 16-vector -/
theorem setPair16 (P : List Word) (hP : P.length = 16) (c : Nat) (hc : c = 6 ∨ c = 8 ∨ c = 12 ∨ c = 14) (a b : Nat) :
    (ofBV P).setSlice (some (c : Int)) (some ((c : Int) + 2)) none (.list [(a : Int), (b : Int)])
      = .ok (ofBV ((P.set c (BitVec.ofNat 32 a)).set (c + 1) (BitVec.ofNat 32 b))) := by
  unfold setSlice
  have hi : (ofBV P).indices (some (c : Int)) (some ((c : Int) + 2)) none = .ok [(c : Int), ((c + 1 : Nat) : Int)] := by
    unfold Poly.indices
    simp only [ofBV_ival, List.length_map, hP]
    rcases hc with rfl | rfl | rfl | rfl <;> rfl
  rw [hi, bind_ok]
  unfold setIdx
  simp only [List.length_cons, List.length_nil, ↓reduceIte, setMany]
  rw [setInt_ofBV (by decide) P c (by rcases hc with rfl | rfl | rfl | rfl <;> omega), bind_ok,
    setInt_ofBV (by decide) _ (c + 1) (by simp only [List.length_set]; rcases hc with rfl | rfl | rfl | rfl <;> omega), bind_ok]


/-- the two nonce words `v.split(32)` stores -/
theorem nonce_split (x : Nat) :
    (⟨x, 64⟩ : Bits).split 32 = .ok [(⟨x % 2 ^ 32, 32⟩ : Bits), ⟨x / 2 ^ 32 % 2 ^ 32, 32⟩] := by
  unfold Bits.split
  have hr : List.range 2 = [0, 1] := by decide
  simp only [Nat.reduceAdd, Nat.reduceSub, Nat.reduceDiv, ↓reduceIte, Nat.reduceEqDiff, Bool.false_eq_true, hr,
    List.map_cons, List.map_nil, Bits.sliceFast, Bits.ofNatSz,
    Nat.and_two_pow_sub_one_eq_mod, Nat.shiftRight_eq_div_pow]
  simp only [Nat.reduceMul, Nat.reduceAdd, Nat.reducePow, Nat.zero_add, Nat.min_def, Nat.reduceLeDiff, ↓reduceIte,
    Nat.reduceSub, Nat.div_one]
  have e1 : x % 4294967296 % 4294967296 = x % 4294967296 := by omega
  have e2 : x % 18446744073709551616 / 4294967296 % 4294967296 = x / 4294967296 % 4294967296 := by omega
  rw [e1, e2]

theorem nonce_ints (a b : Nat) (ha : a < 2 ^ 32) (hb : b < 2 ^ 32) :
    Salsa.bitsInts [(⟨a, 32⟩ : Bits), ⟨b, 32⟩] = .ok [(a : Int), (b : Int)] := by
  unfold Salsa.bitsInts
  simp only [List.mapM_cons, List.mapM_nil, Bits.toInt, Bits.mask, Nat.and_two_pow_sub_one_eq_mod, bind_ok, pure,
    Except.pure, Int.reduceNeg, Int.reduceEq, ↓reduceIte]
  rw [Nat.mod_eq_of_lt ha, Nat.mod_eq_of_lt hb]

/-- what the encryption loop needs to know about a variant (instantiated for Salsa20 and ChaCha) -/
structure VariantSpec (V : Salsa.Variant) (core : Nat → List Word → List Word) : Prop where
  hcore : ∀ n ws, ws.length = 16 → Salsa.core V (ofBV ws) n = .ok (ofBV (core n ws))
  hlen : ∀ n ws, ws.length = 16 → (core n ws).length = 16
  hc : V.ctrAt = 6 ∨ V.ctrAt = 8 ∨ V.ctrAt = 12 ∨ V.ctrAt = 14
  hn : V.nonceAt = 6 ∨ V.nonceAt = 8 ∨ V.nonceAt = 12 ∨ V.nonceAt = 14

/-- the state words after `self.p[a:a+2] = v.split(32)` -/
def nonceSet (a : Nat) (P : List Word) (x : Nat) : List Word :=
  (P.set a (BitVec.ofNat 32 x)).set (a + 1) (BitVec.ofNat 32 (x / 2 ^ 32))

theorem nonceSet_length (a : Nat) (P : List Word) (x : Nat) : (nonceSet a P x).length = P.length := by
  simp [nonceSet]

theorem setNonce_words {V core} (hV : VariantSpec V core) (K : List Bits) (P : List Word) (hP : P.length = 16) (dr : Nat)
    (x : Nat) :
    Salsa.setNonce V ⟨some K, ofBV P, dr⟩ ⟨x, 64⟩ = .ok ⟨some K, ofBV (nonceSet V.nonceAt P x), dr⟩ := by
  unfold Salsa.setNonce
  simp only [Option.isNone_some, Bool.false_eq_true, ↓reduceIte, ne_eq, not_true_eq_false, pure, Except.pure]
  rw [nonce_split, bind_ok, nonce_ints _ _ (Nat.mod_lt _ (by decide)) (Nat.mod_lt _ (by decide)), bind_ok]
  rw [setPair16 P hP V.nonceAt hV.hn (x % 2 ^ 32) (x / 2 ^ 32 % 2 ^ 32), bind_ok]
  simp only [nonceSet]
  have e1 : BitVec.ofNat 32 (x % 2 ^ 32) = BitVec.ofNat 32 x := by apply BitVec.eq_of_toNat_eq; simp
  have e2 : BitVec.ofNat 32 (x / 2 ^ 32 % 2 ^ 32) = BitVec.ofNat 32 (x / 2 ^ 32) := by apply BitVec.eq_of_toNat_eq; simp
  rw [e1, e2]

theorem block_words {V core} (hV : VariantSpec V core) (K : Option (List Bits)) (P : List Word) (hP : P.length = 16)
    (dr i : Nat) :
    Salsa.block V ⟨K, ofBV P, dr⟩ i =
      .ok (ofBV (core dr (ctrSet V.ctrAt P i)), ⟨K, ofBV (ctrSet V.ctrAt P i), dr⟩) := by
  unfold Salsa.block
  have := setPair16 P hP V.ctrAt hV.hc (i % 2 ^ 32) (i / 2 ^ 32)
  simp only [Int.ofNat_eq_natCast]
  rw [this, bind_ok]
  rw [hV.hcore dr _ (by simpa using hP), bind_ok]
  rfl


/-! ### the encryption loop -/

/-- keystream block `i` as bytes, for state words `P` (counter words overwritten) -/
def ksBlock (core : Nat → List Word → List Word) (dr c : Nat) (P : List Word) (i : Nat) : List Byte :=
  Spec.Salsa20.unwords (core dr (ctrSet c P i))

def xorB (m ks : List Byte) : List Byte := List.zipWith (· ^^^ ·) m ks

/-- piece-wise encryption: piece j is xored with block i+j -/
def encChunks (core : Nat → List Word → List Word) (dr c : Nat) (P : List Word) : Nat → List (List Byte) → List Byte
  | _, [] => []
  | i, b :: bs => xorB b (ksBlock core dr c P i) ++ encChunks core dr c P (i + 1) bs

theorem unwords_length (ws : List Word) : (Spec.Salsa20.unwords ws).length = 4 * ws.length := by
  induction ws with
  | nil => rfl
  | cons w t ih =>
    simp only [Spec.Salsa20.unwords, List.flatMap_cons, List.length_append, List.length_cons] at ih ⊢
    rw [ih]; simp [Spec.Salsa20.littleendianInv]; omega

theorem ksBlock_length {V core} (hV : VariantSpec V core) (dr c : Nat) (P : List Word) (hP : P.length = 16) (i : Nat) :
    (ksBlock core dr c P i).length = 64 := by
  unfold ksBlock
  rw [unwords_length, hV.hlen _ _ (by rw [ctrSet_length]; exact hP)]

theorem zipWith_take_comm (b ks : List Byte) :
    List.zipWith (· ^^^ ·) (ks.take b.length) b = List.zipWith (· ^^^ ·) b ks := by
  induction b generalizing ks with
  | nil => simp
  | cons x t ih =>
    cases ks with
    | nil => simp
    | cons k ks => simp [ih, BitVec.xor_comm]

theorem encChunks_ctrSet (core : Nat → List Word → List Word) (dr c : Nat) (P : List Word) (i j : Nat) (cs : List (List Byte)) :
    encChunks core dr c (ctrSet c P i) j cs = encChunks core dr c P j cs := by
  induction cs generalizing j with
  | nil => rfl
  | cons b bs ih => simp only [encChunks, ksBlock, ctrSet_ctrSet, ih]

/-- `P'` holds the same constants and key as `P`: they differ at most in the nonce and counter positions -/
def SameKey (a c : Nat) (P P' : List Word) : Prop :=
  P'.length = P.length ∧ ∀ x i, ctrSet c (nonceSet a P' x) i = ctrSet c (nonceSet a P x) i

theorem SameKey.refl (a c : Nat) (P : List Word) : SameKey a c P P := ⟨rfl, fun _ _ => rfl⟩

theorem SameKey.trans {a c : Nat} {P P' P'' : List Word} (h1 : SameKey a c P P') (h2 : SameKey a c P' P'') :
    SameKey a c P P'' := ⟨h2.1.trans h1.1, fun x i => (h2.2 x i).trans (h1.2 x i)⟩

theorem SameKey.ctrSet (a c : Nat) (P : List Word) (j : Nat) : SameKey a c P (ctrSet c P j) := by
  refine ⟨ctrSet_length _ _ _, fun x i => ?_⟩
  unfold StreamEnc.ctrSet nonceSet
  apply List.ext_getElem
  · simp
  · intro n h1 h2
    simp only [List.getElem_set]
    grind

theorem SameKey.nonceSet (a c : Nat) (P : List Word) (y : Nat) : SameKey a c P (nonceSet a P y) := by
  refine ⟨nonceSet_length _ _ _, fun x i => ?_⟩
  unfold StreamEnc.ctrSet StreamEnc.nonceSet
  apply List.ext_getElem
  · simp
  · intro n h1 h2
    simp only [List.getElem_set]
    grind

/-- the `for x in self.keystream(v)` loop of `enc`, piece by piece; the object afterwards has the same key -/
theorem encLoop_chunks {V core} (hV : VariantSpec V core) (K : Option (List Bits)) (dr : Nat)
    (cs : List (List Byte)) (hcs : ∀ b ∈ cs, b ≠ [] ∧ b.length ≤ 64) (P : List Word) (hP : P.length = 16)
    (i : Nat) (hi : i + cs.length ≤ 2 ^ 64) :
    ∃ P', SameKey V.nonceAt V.ctrAt P P' ∧
      Salsa.encLoop V ⟨K, ofBV P, dr⟩ i (cs.map (List.map (·.toNat))) =
        .ok ((encChunks core dr V.ctrAt P i cs).map (·.toNat), ⟨K, ofBV P', dr⟩) := by
  induction cs generalizing P i with
  | nil =>
    simp only [List.map_nil, Salsa.encLoop, encChunks]
    split
    · rw [block_words hV K P hP]; exact ⟨_, SameKey.ctrSet _ _ P i, rfl⟩
    · exact ⟨_, SameKey.refl _ _ P, rfl⟩
  | cons b bs ih =>
    have hb := hcs b (by simp)
    have hi' : i < 2 ^ 64 := by simp only [List.length_cons] at hi; omega
    simp only [List.map_cons, Salsa.encLoop, hi', ↓reduceIte]
    rw [block_words hV K P hP, bind_ok]
    simp only []
    rw [split8_ofBV, bind_ok]
    have hks := ksBlock_length hV dr V.ctrAt P hP i
    unfold ksBlock at hks
    rw [List.length_map, setDim_ofBV _ _ (by intro h; exact hb.1 (List.eq_nil_of_length_eq_zero h)) (by rw [hks]; exact hb.2), bind_ok,
      ofBytes_ofBV, xor_ofBV (by decide) _ _ (by rw [List.length_take, hks]; have := hb.2; omega), bind_ok, toBytes_ofBV, bind_ok]
    obtain ⟨P', hk, hs'⟩ := ih (fun b hb => hcs b (by simp [hb])) (ctrSet V.ctrAt P i) (by rw [ctrSet_length]; exact hP) (i + 1)
      (by simp only [List.length_cons] at hi; omega)
    rw [hs', bind_ok]
    refine ⟨P', (SameKey.ctrSet _ _ P i).trans hk, ?_⟩
    simp only [pure, Except.pure, encChunks, List.map_append, xorB, ksBlock, zipWith_take_comm, encChunks_ctrSet]

/-! ### from pieces to `M xor KS[0:|M|]` -/

/-- the keystream: blocks i, i+1, …, i+n-1 -/
def ksFrom (core : Nat → List Word → List Word) (dr c : Nat) (P : List Word) : Nat → Nat → List Byte
  | _, 0 => []
  | i, n + 1 => ksBlock core dr c P i ++ ksFrom core dr c P (i + 1) n

theorem ksFrom_length {V core} (hV : VariantSpec V core) (dr c : Nat) (P : List Word) (hP : P.length = 16) (i n : Nat) :
    (ksFrom core dr c P i n).length = 64 * n := by
  induction n generalizing i with
  | zero => rfl
  | succ n ih => simp only [ksFrom, List.length_append, ksBlock_length hV dr c P hP, ih]; omega

theorem zipWith_append_split {α β γ} (f : α → β → γ) (B R : List β) (l : List α) :
    List.zipWith f l (B ++ R) = List.zipWith f (l.take B.length) B ++ List.zipWith f (l.drop B.length) R := by
  induction B generalizing l with
  | nil => simp
  | cons x B ih =>
    cases l with
    | nil => simp
    | cons a l => simp [ih]

theorem chunks_mem {α} (k : Nat) (hk : 0 < k) (l : List α) : ∀ b ∈ Py.chunks k l, b ≠ [] ∧ b.length ≤ k := by
  induction hn : l.length using Nat.strongRecOn generalizing l with
  | _ n ih =>
    by_cases hl : l = []
    · subst hl; simp [chunks_nil]
    · rw [chunks_cons k hk l hl]
      intro b hb
      simp only [List.mem_cons] at hb
      rcases hb with rfl | hb
      · constructor
        · cases l with
          | nil => exact absurd rfl hl
          | cons a t => cases k with
            | zero => omega
            | succ k => simp
        · simp only [List.length_take]; omega
      · have : l.length ≠ 0 := by intro h; exact hl (List.eq_nil_of_length_eq_zero h)
        exact ih (l.drop k).length (by simp only [List.length_drop]; omega) _ rfl b hb

theorem chunks_length {α} (l : List α) : (Py.chunks 64 l).length = (l.length + 63) / 64 := by
  induction hn : l.length using Nat.strongRecOn generalizing l with
  | _ n ih =>
    by_cases hl : l = []
    · subst hl; subst hn; simp [chunks_nil]
    · rw [chunks_cons 64 (by decide) l hl]
      have : l.length ≠ 0 := by intro h; exact hl (List.eq_nil_of_length_eq_zero h)
      simp only [List.length_cons]
      rw [ih (l.drop 64).length (by simp only [List.length_drop]; omega) _ rfl]
      simp only [List.length_drop]
      omega

theorem encChunks_eq {V core} (hV : VariantSpec V core) (dr c : Nat) (P : List Word) (hP : P.length = 16) (i : Nat) (M : List Byte) :
    encChunks core dr c P i (Py.chunks 64 M) = xorB M (ksFrom core dr c P i ((M.length + 63) / 64)) := by
  induction hn : M.length using Nat.strongRecOn generalizing M i with
  | _ n ih =>
    by_cases hl : M = []
    · subst hl; subst hn; simp [chunks_nil, encChunks, xorB]
    · subst hn
      rw [chunks_cons 64 (by decide) M hl]
      have h0 : M.length ≠ 0 := by intro h; exact hl (List.eq_nil_of_length_eq_zero h)
      have hN : (M.length + 63) / 64 = ((M.drop 64).length + 63) / 64 + 1 := by simp only [List.length_drop]; omega
      rw [hN]
      simp only [encChunks, ksFrom]
      rw [ih (M.drop 64).length (by simp only [List.length_drop]; omega) (i + 1) _ rfl]
      unfold xorB
      rw [zipWith_append_split, ksBlock_length hV dr c P hP]


/-! ### the whole of `enc` -/

/-- `M xor KS[0:|M|]` where KS is the keystream of the state words `P` with nonce `x`, starting at block `b0` -/
def encW (core : Nat → List Word → List Word) (dr a c : Nat) (P : List Word) (x b0 : Nat) (M : List Byte) : List Byte :=
  xorB M (ksFrom core dr c (nonceSet a P x) b0 ((M.length + 63) / 64))

theorem encFrom_words {V core} (hV : VariantSpec V core) (K : List Bits) (P : List Word) (hP : P.length = 16) (dr x b0 : Nat)
    (M : List Byte) (hb : b0 + (M.length + 63) / 64 ≤ 2 ^ 64) :
    ∃ P', SameKey V.nonceAt V.ctrAt P P' ∧
      Salsa.encFrom V ⟨some K, ofBV P, dr⟩ ⟨x, 64⟩ b0 (M.map (·.toNat)) =
        .ok ((encW core dr V.nonceAt V.ctrAt P x b0 M).map (·.toNat), ⟨some K, ofBV P', dr⟩) := by
  unfold Salsa.encFrom
  rw [setNonce_words hV K P hP dr x, bind_ok, chunks_map]
  have hN : (nonceSet V.nonceAt P x).length = 16 := by rw [nonceSet_length]; exact hP
  obtain ⟨P', hk, h⟩ := encLoop_chunks hV (some K) dr (Py.chunks 64 M) (chunks_mem 64 (by decide) M)
    (nonceSet V.nonceAt P x) hN b0 (by rw [chunks_length]; exact hb)
  refine ⟨P', (SameKey.nonceSet _ _ P x).trans hk, ?_⟩
  rw [h, encChunks_eq hV dr V.ctrAt _ hN]
  rfl

theorem ksFrom_sameKey (core : Nat → List Word → List Word) (dr a c : Nat) {P P' : List Word} (h : SameKey a c P P')
    (x i n : Nat) : ksFrom core dr c (nonceSet a P' x) i n = ksFrom core dr c (nonceSet a P x) i n := by
  induction n generalizing i with
  | zero => rfl
  | succ n ih => simp only [ksFrom, ksBlock, h.2, ih]

theorem encW_sameKey (core : Nat → List Word → List Word) (dr a c : Nat) {P P' : List Word} (h : SameKey a c P P')
    (x b0 : Nat) (M : List Byte) : encW core dr a c P' x b0 M = encW core dr a c P x b0 M := by
  unfold encW; rw [ksFrom_sameKey core dr a c h]

theorem xorB_length (m ks : List Byte) (h : m.length ≤ ks.length) : (xorB m ks).length = m.length := by
  simp only [xorB, List.length_zipWith]; omega

theorem encW_length {V core} (hV : VariantSpec V core) (dr a c : Nat) (P : List Word) (hP : P.length = 16) (x b0 : Nat)
    (M : List Byte) : (encW core dr a c P x b0 M).length = M.length := by
  unfold encW
  apply xorB_length
  rw [ksFrom_length hV dr c _ (by rw [nonceSet_length]; exact hP)]
  omega

theorem xorB_xorB (m ks : List Byte) (h : m.length ≤ ks.length) : xorB (xorB m ks) ks = m := by
  induction m generalizing ks with
  | nil => simp [xorB]
  | cons a t ih =>
    cases ks with
    | nil => simp at h
    | cons k ks =>
      simp only [xorB, List.zipWith_cons_cons, List.cons.injEq]
      constructor
      · rw [BitVec.xor_assoc, BitVec.xor_self, BitVec.xor_zero]
      · exact ih ks (by simpa using h)

/-- decrypting (= encrypting) the ciphertext gives the message back -/
theorem encW_encW {V core} (hV : VariantSpec V core) (dr a c : Nat) (P : List Word) (hP : P.length = 16) (x b0 : Nat)
    (M : List Byte) : encW core dr a c P x b0 (encW core dr a c P x b0 M) = M := by
  have hl := encW_length hV dr a c P hP x b0 M
  unfold encW at hl ⊢
  rw [hl]
  apply xorB_xorB
  rw [ksFrom_length hV dr c _ (by rw [nonceSet_length]; exact hP)]
  omega

theorem ksFrom_add (core : Nat → List Word → List Word) (dr c : Nat) (P : List Word) (i n m : Nat) :
    ksFrom core dr c P i (n + m) = ksFrom core dr c P i n ++ ksFrom core dr c P (i + n) m := by
  induction n generalizing i with
  | zero => simp [ksFrom]
  | succ n ih =>
    have : n + 1 + m = (n + m) + 1 := by omega
    rw [this]
    simp only [ksFrom, ih, List.append_assoc]
    congr 3; omega

theorem xorB_append_right (m ks r : List Byte) (h : m.length ≤ ks.length) : xorB m (ks ++ r) = xorB m ks := by
  induction m generalizing ks with
  | nil => simp [xorB]
  | cons a t ih =>
    cases ks with
    | nil => simp at h
    | cons k ks => simp only [xorB, List.cons_append, List.zipWith_cons_cons, List.cons.injEq, true_and]; exact ih ks (by simpa using h)

theorem xorB_take (m ks : List Byte) (k : Nat) : (xorB m ks).take k = xorB (m.take k) ks := by
  induction m generalizing ks k with
  | nil => simp [xorB]
  | cons a t ih =>
    cases ks with
    | nil => simp [xorB]
    | cons x ks =>
      cases k with
      | zero => simp [xorB]
      | succ k => simp only [xorB, List.zipWith_cons_cons, List.take_succ_cons, List.cons.injEq, true_and]; exact ih ks k

/-- the ciphertext of a prefix is the prefix of the ciphertext -/
theorem encW_prefix {V core} (hV : VariantSpec V core) (dr a c : Nat) (P : List Word) (hP : P.length = 16) (x b0 : Nat)
    (M : List Byte) (k : Nat) : encW core dr a c P x b0 (M.take k) = (encW core dr a c P x b0 M).take k := by
  unfold encW
  rw [xorB_take]
  have hle : ((M.take k).length + 63) / 64 ≤ (M.length + 63) / 64 := by
    simp only [List.length_take]; omega
  obtain ⟨d, hd⟩ := Nat.exists_eq_add_of_le hle
  rw [hd, ksFrom_add, xorB_append_right]
  rw [ksFrom_length hV dr c _ (by rw [nonceSet_length]; exact hP)]
  omega

end Proofs.Lemmas.StreamEnc