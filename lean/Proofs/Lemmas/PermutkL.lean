/-
  Proofs.Lemmas.PermutkL — the in-place rotations of `permutk` in closed (index) form, and
  `permutk l k = (arrangements of the tail prefixed by the fixed head, in selection order; l restored)`.  Core Lean only.
-/
import Model.Perms
import Spec.Perms
namespace Proofs.Lemmas.PermutkL
open Model.Perms Spec.Perms

variable {α : Type}

theorem flatMap_congr' {β γ : Type} (l : List β) (f g : β → List γ) (h : ∀ x ∈ l, f x = g x) :
    l.flatMap f = l.flatMap g := by
  induction l with
  | nil => rfl
  | cons a l ih =>
    rw [List.flatMap_cons, List.flatMap_cons, h a (by simp), ih (fun x hx => h x (by simp [hx]))]

theorem shiftUp_length (k : Nat) : ∀ (d : Nat) (l : List α), (shiftUp l k d).length = l.length := by
  intro d
  induction d with
  | zero => intro l; rfl
  | succ d ih =>
    intro l
    unfold shiftUp
    cases h : l[k + d]? with
    | none => rfl
    | some x => simp only []; rw [ih, List.length_set]

/-- `for j in range(i,k,-1): l[j] = l[j-1]`: positions k+1..k+d receive their left neighbour -/
theorem shiftUp_get (k : Nat) : ∀ (d : Nat) (l : List α), k + d < l.length → ∀ j,
    (shiftUp l k d)[j]? = if k < j ∧ j ≤ k + d then l[j - 1]? else l[j]? := by
  intro d
  induction d with
  | zero =>
    intro l _ j
    have : ¬ (k < j ∧ j ≤ k + 0) := by omega
    show l[j]? = _
    rw [if_neg this]
  | succ d ih =>
    intro l hl j
    unfold shiftUp
    have hget : l[k + d]? = some l[k + d] := List.getElem?_eq_getElem (by omega)
    rw [hget]
    simp only []
    rw [ih _ (by rw [List.length_set]; omega) j]
    by_cases h1 : k < j ∧ j ≤ k + d
    · have h2 : k < j ∧ j ≤ k + (d + 1) := by omega
      rw [if_pos h1, if_pos h2, List.getElem?_set_ne (by omega)]
    · rw [if_neg h1]
      by_cases h3 : j = k + d + 1
      · subst h3
        have h2 : k < k + d + 1 ∧ k + d + 1 ≤ k + (d + 1) := by omega
        rw [if_pos h2, List.getElem?_set_self (by omega)]
        simp [hget]
      · have h2 : ¬ (k < j ∧ j ≤ k + (d + 1)) := by omega
        rw [if_neg h2, List.getElem?_set_ne (by omega)]

theorem shiftDown_length : ∀ (d k : Nat) (l : List α), (shiftDown l k d).length = l.length := by
  intro d
  induction d with
  | zero => intro k l; rfl
  | succ d ih =>
    intro k l
    unfold shiftDown
    cases h : l[k + 1]? with
    | none => rfl
    | some x => simp only []; rw [ih, List.length_set]

/-- `for j in range(k,i): l[j] = l[j+1]`: positions k..k+d-1 receive their right neighbour -/
theorem shiftDown_get : ∀ (d k : Nat) (l : List α), k + d < l.length → ∀ j,
    (shiftDown l k d)[j]? = if k ≤ j ∧ j < k + d then l[j + 1]? else l[j]? := by
  intro d
  induction d with
  | zero =>
    intro k l _ j
    have : ¬ (k ≤ j ∧ j < k + 0) := by omega
    show l[j]? = _
    rw [if_neg this]
  | succ d ih =>
    intro k l hl j
    unfold shiftDown
    have hget : l[k + 1]? = some l[k + 1] := List.getElem?_eq_getElem (by omega)
    rw [hget]
    simp only []
    rw [ih (k + 1) _ (by rw [List.length_set]; omega) j]
    by_cases h1 : k + 1 ≤ j ∧ j < k + 1 + d
    · have h2 : k ≤ j ∧ j < k + (d + 1) := by omega
      rw [if_pos h1, if_pos h2, List.getElem?_set_ne (by omega)]
    · rw [if_neg h1]
      by_cases h3 : j = k
      · subst h3
        have h2 : j ≤ j ∧ j < j + (d + 1) := by omega
        rw [if_pos h2, List.getElem?_set_self (by omega), hget]
      · have h2 : ¬ (k ≤ j ∧ j < k + (d + 1)) := by omega
        rw [if_neg h2, List.getElem?_set_ne (by omega)]

/-- the list after moving l[i] to position k -/
def rotated (l : List α) (k i : Nat) (tmp : α) : List α := (shiftUp l k (i - k)).set k tmp

theorem rotated_length (l : List α) (k i : Nat) (tmp : α) : (rotated l k i tmp).length = l.length := by
  unfold rotated; rw [List.length_set, shiftUp_length]

theorem rotated_get (l : List α) (k i : Nat) (hk : k ≤ i) (hi : i < l.length) (j : Nat) :
    (rotated l k i l[i])[j]? = if j = k then some l[i] else if k < j ∧ j ≤ i then l[j - 1]? else l[j]? := by
  unfold rotated
  by_cases hjk : j = k
  · subst hjk
    rw [if_pos rfl, List.getElem?_set_self (by rw [shiftUp_length]; omega)]
  · rw [if_neg hjk, List.getElem?_set_ne (fun h => hjk h.symm), shiftUp_get k (i - k) l (by omega) j]
    have : k + (i - k) = i := by omega
    rw [this]

theorem rotated_take (l : List α) (k i : Nat) (hk : k ≤ i) (hi : i < l.length) :
    (rotated l k i l[i]).take (k + 1) = l.take k ++ [l[i]] := by
  apply List.ext_getElem?
  intro j
  rw [List.getElem?_take, rotated_get l k i hk hi, List.getElem?_append, List.getElem?_take]
  have hlen : (l.take k).length = k := by rw [List.length_take]; omega
  rw [hlen]
  by_cases h1 : j < k
  · have : j < k + 1 := by omega
    have h3 : ¬ (k < j ∧ j ≤ i) := by omega
    simp [h1, this, h3, Nat.ne_of_lt h1]
  · by_cases h2 : j = k
    · subst h2; simp
    · have : ¬ j < k + 1 := by omega
      have h4 : j - k ≠ 0 := by omega
      simp only [this, h1, if_false]
      cases hjk : j - k with
      | zero => omega
      | succ m => simp

theorem rotated_drop (l : List α) (k i : Nat) (hk : k ≤ i) (hi : i < l.length) :
    (rotated l k i l[i]).drop (k + 1) = (l.drop k).eraseIdx (i - k) := by
  apply List.ext_getElem?
  intro j
  rw [List.getElem?_drop, rotated_get l k i hk hi, List.getElem?_eraseIdx, List.getElem?_drop, List.getElem?_drop]
  have h0 : k + 1 + j ≠ k := by omega
  rw [if_neg h0]
  by_cases h1 : j < i - k
  · have h2 : k < k + 1 + j ∧ k + 1 + j ≤ i := by omega
    rw [if_pos h1, if_pos h2]
    congr 1
    omega
  · have h2 : ¬ (k < k + 1 + j ∧ k + 1 + j ≤ i) := by omega
    rw [if_neg h1, if_neg h2]
    congr 1
    omega

/-- rotating back restores the list -/
theorem unrotate (l : List α) (k i : Nat) (hk : k ≤ i) (hi : i < l.length) :
    (shiftDown (rotated l k i l[i]) k (i - k)).set i l[i] = l := by
  apply List.ext_getElem?
  intro j
  have hlen := rotated_length l k i l[i]
  by_cases hji : j = i
  · subst hji
    rw [List.getElem?_set_self (by rw [shiftDown_length, hlen]; exact hi), List.getElem?_eq_getElem hi]
  · rw [List.getElem?_set_ne (fun h => hji h.symm), shiftDown_get (i - k) k _ (by rw [hlen]; omega) j]
    have e : k + (i - k) = i := by omega
    rw [e]
    by_cases h1 : k ≤ j ∧ j < i
    · rw [if_pos h1, rotated_get l k i hk hi]
      have h2 : j + 1 ≠ k := by omega
      have h3 : k < j + 1 ∧ j + 1 ≤ i := by omega
      rw [if_neg h2, if_pos h3]
      simp
    · rw [if_neg h1, rotated_get l k i hk hi]
      by_cases h2 : j = k
      · have : k = i := by omega
        omega
      · have h3 : ¬ (k < j ∧ j ≤ i) := by omega
        rw [if_neg h2, if_neg h3]

/-- the yields contributed by choosing position i as the next fixed element -/
def pick (l : List α) (k : Nat) (i : Nat) : List (List α) :=
  match l[i]? with
  | some x => (perms ((l.drop k).eraseIdx (i - k))).map (fun p => l.take k ++ [x] ++ p)
  | none => []

theorem step_eq (rec : List α → List (List α) × List α) (l : List α) (k i : Nat) (hk : k ≤ i) (hi : i < l.length)
    (hrec : ∀ l1 : List α, l1.length = l.length →
      rec l1 = ((perms (l1.drop (k + 1))).map (l1.take (k + 1) ++ ·), l1))
    (ys : List (List α)) :
    permutkStep rec k (ys, l) i = (ys ++ pick l k i, l) := by
  unfold permutkStep
  have hget : l[i]? = some l[i] := List.getElem?_eq_getElem hi
  simp only [hget]
  have hr := hrec (rotated l k i l[i]) (rotated_length l k i l[i])
  unfold rotated at hr
  rw [hr]
  simp only []
  have h1 := rotated_take l k i hk hi
  have h2 := rotated_drop l k i hk hi
  have h3 := unrotate l k i hk hi
  unfold rotated at h1 h2 h3
  rw [h1, h2, h3]
  unfold pick
  rw [hget]

theorem fold_eq (rec : List α → List (List α) × List α) (l : List α) (k : Nat)
    (hrec : ∀ l1 : List α, l1.length = l.length →
      rec l1 = ((perms (l1.drop (k + 1))).map (l1.take (k + 1) ++ ·), l1)) :
    ∀ (is : List Nat), (∀ i ∈ is, k ≤ i ∧ i < l.length) → ∀ ys,
      is.foldl (permutkStep rec k) (ys, l) = (ys ++ is.flatMap (pick l k), l) := by
  intro is
  induction is with
  | nil => intro _ ys; simp
  | cons i is ih =>
    intro h ys
    have hi := h i (by simp)
    rw [List.foldl_cons, step_eq rec l k i hi.1 hi.2 hrec, ih (fun j hj => h j (by simp [hj])), List.flatMap_cons,
      List.append_assoc]

theorem perms_nil : perms ([] : List α) = [[]] := rfl

theorem perms_unfold (t : List α) (ht : t ≠ []) :
    perms t = (List.range t.length).flatMap fun i =>
      match t[i]? with
      | some x => (perms (t.eraseIdx i)).map (x :: ·)
      | none => [] := by
  unfold perms
  cases hlen : t.length with
  | zero => exact absurd (List.length_eq_zero_iff.1 hlen) ht
  | succ n =>
    show (List.range t.length).flatMap (fun i =>
      match t[i]? with
      | some x => (permsAux n (t.eraseIdx i)).map (x :: ·)
      | none => []) = _
    rw [hlen]
    apply flatMap_congr'
    intro i hi
    have hi' : i < t.length := by rw [hlen]; exact List.mem_range.1 hi
    have : (t.eraseIdx i).length = n := by rw [List.length_eraseIdx, if_pos hi']; omega
    rw [this]

/-- **permutk in closed form**: yields = arrangements of the tail (selection order) behind the fixed head; list restored -/
theorem permutkAux_eq : ∀ (fuel : Nat) (l : List α) (k : Nat), k ≤ l.length → l.length - k + 1 ≤ fuel →
    permutkAux fuel l k = ((perms (l.drop k)).map (l.take k ++ ·), l) := by
  intro fuel
  induction fuel with
  | zero => intro l k _ h; omega
  | succ fuel ih =>
    intro l k hk hf
    unfold permutkAux
    by_cases hkn : k ≥ l.length
    · have hkeq : k = l.length := by omega
      subst hkeq
      simp [perms_nil]
    · simp only [hkn, if_false]
      have hrec : ∀ l1 : List α, l1.length = l.length →
          permutkAux fuel l1 (k + 1) = ((perms (l1.drop (k + 1))).map (l1.take (k + 1) ++ ·), l1) := by
        intro l1 h1
        exact ih l1 (k + 1) (by omega) (by omega)
      rw [fold_eq (fun l1 => permutkAux fuel l1 (k + 1)) l k hrec _
        (by intro i hi; rw [List.mem_range'_1] at hi; omega)]
      congr 1
      have hne : l.drop k ≠ [] := by
        intro h; have := congrArg List.length h; simp at this; omega
      rw [perms_unfold _ hne, List.nil_append, List.map_flatMap, List.range'_eq_map_range, List.flatMap_map]
      rw [List.length_drop]
      apply flatMap_congr'
      intro j hj
      have hj' : j < l.length - k := List.mem_range.1 hj
      unfold pick
      rw [List.getElem?_drop]
      have e : k + j - k = j := by omega
      rw [e]
      cases h : l[k + j]? with
      | none => rfl
      | some x => simp [List.map_map, Function.comp_def]

theorem permutk_eq (l : List α) (k : Nat) (hk : k ≤ l.length) :
    permutk l k = ((perms (l.drop k)).map (l.take k ++ ·), l) :=
  permutkAux_eq _ l k hk (Nat.le_refl _)

end Proofs.Lemmas.PermutkL
