/-
  Proofs.Lemmas.PermsSpecL — Spec.Perms.perms (arrangements in selection order) against Mathlib's `List.permutations`:
  membership = being a permutation, naturality in the elements, Nodup for Nodup input, and
  `perms t ~ t.permutations` as multisets for every list (repeated elements included).
-/
import Mathlib.Data.List.Permutation
import Spec.Perms
import Proofs.Lemmas.PermutkL
namespace Proofs.Lemmas.PermsSpecL
open Spec.Perms Proofs.Lemmas.PermutkL

variable {α β : Type}

theorem perm_cons_eraseIdx (t : List α) (i : Nat) (hi : i < t.length) : (t[i] :: t.eraseIdx i).Perm t := by
  rw [List.eraseIdx_eq_take_drop_succ]
  have h : t = t.take i ++ t[i] :: t.drop (i + 1) := by
    conv => lhs; rw [← List.take_append_drop i t, List.drop_eq_getElem_cons hi]
  conv => rhs; rw [h]
  exact List.perm_middle.symm

theorem mem_perms_unfold (t : List α) (ht : t ≠ []) (p : List α) :
    p ∈ perms t ↔ ∃ i, ∃ hi : i < t.length, ∃ q ∈ perms (t.eraseIdx i), p = t[i] :: q := by
  rw [perms_unfold t ht, List.mem_flatMap]
  constructor
  · rintro ⟨i, hi, hp⟩
    have hi' : i < t.length := List.mem_range.1 hi
    rw [List.getElem?_eq_getElem hi'] at hp
    simp only [List.mem_map] at hp
    obtain ⟨q, hq, rfl⟩ := hp
    exact ⟨i, hi', q, hq, rfl⟩
  · rintro ⟨i, hi, q, hq, rfl⟩
    refine ⟨i, List.mem_range.2 hi, ?_⟩
    rw [List.getElem?_eq_getElem hi]
    exact List.mem_map.2 ⟨q, hq, rfl⟩

theorem mem_perms : ∀ (n : Nat) (t : List α), t.length = n → ∀ p, p ∈ perms t ↔ p.Perm t := by
  intro n
  induction n with
  | zero =>
    intro t ht p
    have : t = [] := List.length_eq_zero_iff.1 ht
    subst this
    rw [perms_nil, List.perm_nil]; simp
  | succ n ih =>
    intro t ht p
    have hne : t ≠ [] := by intro h; subst h; simp at ht
    rw [mem_perms_unfold t hne]
    constructor
    · rintro ⟨i, hi, q, hq, rfl⟩
      have hlen : (t.eraseIdx i).length = n := by rw [List.length_eraseIdx, if_pos hi]; omega
      have := (ih _ hlen q).1 hq
      exact (this.cons t[i]).trans (perm_cons_eraseIdx t i hi)
    · intro hp
      cases p with
      | nil => have := hp.length_eq; simp at this; omega
      | cons x q =>
        have hx : x ∈ t := hp.mem_iff.1 (by simp)
        obtain ⟨i, hi, hxi⟩ := List.getElem_of_mem hx
        subst hxi
        have hlen : (t.eraseIdx i).length = n := by rw [List.length_eraseIdx, if_pos hi]; omega
        have hq : q.Perm (t.eraseIdx i) := (hp.trans (perm_cons_eraseIdx t i hi).symm).cons_inv
        exact ⟨i, hi, q, (ih _ hlen q).2 hq, rfl⟩

theorem perms_map (f : α → β) : ∀ (n : Nat) (t : List α), t.length = n →
    perms (t.map f) = (perms t).map (List.map f) := by
  intro n
  induction n with
  | zero =>
    intro t ht
    have : t = [] := List.length_eq_zero_iff.1 ht
    subst this; rfl
  | succ n ih =>
    intro t ht
    have hne : t ≠ [] := by intro h; subst h; simp at ht
    have hne' : t.map f ≠ [] := by simpa using hne
    rw [perms_unfold _ hne', perms_unfold _ hne, List.map_flatMap, List.length_map]
    apply flatMap_congr'
    intro i hi
    have hi' : i < t.length := List.mem_range.1 hi
    have hlen : (t.eraseIdx i).length = n := by rw [List.length_eraseIdx, if_pos hi']; omega
    rw [List.getElem?_map, List.getElem?_eq_getElem hi']
    simp only [Option.map_some]
    rw [List.eraseIdx_map, ih _ hlen, List.map_map, List.map_map]
    rfl

theorem nodup_perms : ∀ (n : Nat) (t : List α), t.length = n → t.Nodup → (perms t).Nodup := by
  intro n
  induction n with
  | zero =>
    intro t ht _
    have : t = [] := List.length_eq_zero_iff.1 ht
    subst this
    rw [perms_nil]; simp
  | succ n ih =>
    intro t ht hnd
    have hne : t ≠ [] := by intro h; subst h; simp at ht
    rw [perms_unfold t hne, List.nodup_flatMap]
    refine ⟨?_, ?_⟩
    · intro i hi
      have hi' : i < t.length := List.mem_range.1 hi
      have hlen : (t.eraseIdx i).length = n := by rw [List.length_eraseIdx, if_pos hi']; omega
      rw [List.getElem?_eq_getElem hi']
      exact (ih _ hlen (hnd.eraseIdx i)).map List.cons_injective
    · apply List.nodup_range.pairwise_of_forall_ne
      intro i hi j hj hij
      have hi' : i < t.length := List.mem_range.1 hi
      have hj' : j < t.length := List.mem_range.1 hj
      show List.Disjoint _ _
      simp only []
      rw [List.getElem?_eq_getElem hi', List.getElem?_eq_getElem hj', List.disjoint_left]
      intro p hp1 hp2
      obtain ⟨q1, _, rfl⟩ := List.mem_map.1 hp1
      obtain ⟨q2, _, h2⟩ := List.mem_map.1 hp2
      have : t[j] = t[i] := (List.cons.inj h2).1
      exact hij ((hnd.getElem_inj_iff).1 this).symm

/-- **as multisets, `perms t` is Mathlib's `permutations t`** (every arrangement, each as often as it arises) -/
theorem perms_perm_permutations (t : List α) : (perms t).Perm t.permutations := by
  have hu : (t.zipIdx).Nodup := by
    apply List.Nodup.of_map Prod.snd
    have : (t.zipIdx).map Prod.snd = List.range' 0 t.length := by
      have := List.unzip_zipIdx_eq_prod (l := t) (i := 0)
      rw [List.unzip_eq_map] at this
      exact (Prod.mk.inj this).2
    rw [this]
    exact List.nodup_range' 1
  have h1 : (perms t.zipIdx).Perm t.zipIdx.permutations := by
    rw [List.perm_ext_iff_of_nodup (nodup_perms _ _ rfl hu) (List.nodup_permutations _ hu)]
    intro p
    rw [mem_perms _ _ rfl, List.mem_permutations]
  have h2 := h1.map (List.map Prod.fst)
  rw [← perms_map Prod.fst _ _ rfl, List.map_permutations, List.zipIdx_map_fst] at h2
  exact h2

theorem length_perms (t : List α) : (perms t).length = t.length.factorial := by
  rw [(perms_perm_permutations t).length_eq, List.length_permutations]

end Proofs.Lemmas.PermsSpecL
