/-
  Helper lemmas for C05: CTR mode and the default counter.
-/
import Proofs.Lemmas.ModeEcbCbc
namespace Proofs.Lemmas.ModeL
open Model Model.Mode
variable {c : BlockCipher} {k : Spec.Mode.Cipher}

/-- the counter object's `count` after i calls: `(count0 + i) mod 2^size`, size = 8·|count0| -/
def cntAt (d : DefaultCounter) (i : Nat) : Bits :=
  ⟨((Bits.unpack d.count0 true).1 + i) % 2 ^ (8 * d.count0.length), 8 * d.count0.length⟩

theorem unpack_size (s : List Nat) (be : Bool) : (Bits.unpack s be).2 = 8 * s.length := by
  unfold Bits.unpack
  simp only

theorem reset_eq (d : DefaultCounter) : d.reset = cntAt d 0 := by
  unfold DefaultCounter.reset cntAt
  have := unpack_size d.count0 true
  generalize Bits.unpack d.count0 true = r at *
  obtain ⟨v, sz⟩ := r
  simp only at this
  subst this
  simp [Bits.ofNatSz]

theorem bitLength_one : Py.bitLength 1 = 1 := by
  decide

theorem call_snd (d : DefaultCounter) (hd : d.count0 ≠ []) (i : Nat) : (d.call (cntAt d i)).2 = cntAt d (i + 1) := by
  have hlen : 0 < d.count0.length := List.length_pos_iff.2 hd
  unfold DefaultCounter.call cntAt Bits.add Bits.wsize Bits.ofNat
  simp only [bitLength_one]
  rw [if_pos (by omega), Nat.mod_add_mod, Nat.add_assoc]

theorem pack_length (b : Bits) (be : Bool) : (b.pack be).length = (b.size + 7) / 8 := by
  unfold Bits.pack
  cases be <;> simp

theorem pack_bytes (b : Bits) (be : Bool) : Bytes (b.pack be) := by
  intro x hx
  unfold Bits.pack at hx
  have : x ∈ (List.range ((b.size + 7) / 8)).map
      (fun j => (b.sliceFast (j * 8) (min (j * 8 + 8) b.size)).ival &&& 0xff) := by
    cases be <;> simpa using hx
  obtain ⟨j, _, rfl⟩ := List.mem_map.1 this
  exact Nat.lt_succ_of_le Nat.and_le_right

/-- the counter blocks the model hands to the cipher -/
def modelT (d : DefaultCounter) (i : Nat) : List Nat := d.nonce ++ (cntAt d i).pack true

theorem modelT_isBlock (d : DefaultCounter) (l : Nat) (hn : Bytes d.nonce) (hl : d.nonce.length + d.count0.length = l) (i : Nat) :
    IsBlock l (modelT d i) := by
  constructor
  · unfold modelT
    rw [List.length_append, pack_length]
    simp only [cntAt]; omega
  · exact hn.append (pack_bytes _ _)

theorem ctrBlocks_eq (h : Implements c k) (d : DefaultCounter) (hd : d.count0 ≠ [])
    (hT : ∀ i, IsBlock c.len (modelT d i)) : ∀ (bs : List (List Nat)) (j : Nat),
    ctrBlocks c d (cntAt d j) bs = .ok (Spec.Mode.ctrFrom k (modelT d) j bs)
  | [], _ => rfl
  | b :: bs, j => by
    have e1 : (d.call (cntAt d j)).1 = modelT d j := rfl
    simp only [ctrBlocks, e1, h.enc_ok _ (hT j), call_snd d hd j, ctrBlocks_eq h d hd hT bs (j + 1), Spec.Mode.ctrFrom,
      xorstr_eq_spec]

/-- O_j ‖ O_{j+1} ‖ … (n blocks) -/
def keystream (k : Spec.Mode.Cipher) (T : Nat → List Nat) : Nat → Nat → List Nat
  | _, 0 => []
  | j, n+1 => k.E (T j) ++ keystream k T (j + 1) n

theorem keystream_length (k : Spec.Mode.Cipher) (T : Nat → List Nat) (l : Nat) (hE : ∀ i, (k.E (T i)).length = l) :
    ∀ (n j : Nat), (keystream k T j n).length = n * l
  | 0, _ => by simp [keystream]
  | n+1, j => by simp [keystream, hE, keystream_length k T l hE n, Nat.succ_mul]; omega

theorem xorstr_append_right : ∀ (K M R : List Nat),
    xorstr M (K ++ R) = xorstr (M.take K.length) K ++ xorstr (M.drop K.length) R
  | [], M, R => by simp [xorstr]
  | x :: K, [], R => by simp [xorstr]
  | x :: K, a :: M, R => by
    have := xorstr_append_right K M R
    simp only [xorstr] at this ⊢
    simp [this]

/-- CTR over the blocks of M is M xor the key stream -/
theorem ctr_keystream (k : Spec.Mode.Cipher) (T : Nat → List Nat) (l : Nat) (hE : ∀ i, (k.E (T i)).length = l) :
    ∀ (n j : Nat) (M : List Nat), M.length ≤ n * l →
      join (Spec.Mode.ctrFrom k T j (readBlocks l n M)) = xorstr M (keystream k T j n)
  | 0, j, M, h => by
    have : M = [] := List.length_eq_zero_iff.1 (by omega)
    subst this; rfl
  | n+1, j, M, h => by
    have ih := ctr_keystream k T l hE n (j + 1) (M.drop l) (by rw [List.length_drop, Nat.succ_mul] at *; omega)
    simp only [join] at ih
    simp only [readBlocks, Spec.Mode.ctrFrom, join, List.flatten_cons, keystream, ih]
    rw [xorstr_append_right, hE j]; rfl

theorem counter_new (l : Nat) (hl : 0 < l) (iv : Option (List Nat))
    (hiv : match iv with | some v => IsBlock l v | none => l % 2 = 0) :
    ∃ d, DefaultCounter.new l iv = .ok d ∧ d.count0 ≠ [] ∧ Bytes d.nonce ∧ d.nonce.length + d.count0.length = l ∧
      d.nonce = (iv.getD (List.replicate l 0)).take (l / 2) ∧ d.count0 = (iv.getD (List.replicate l 0)).drop (l / 2) := by
  cases iv with
  | none =>
    simp only at hiv
    refine ⟨⟨l, List.replicate (l / 2) 0, List.replicate (l / 2) 0⟩, rfl, ?_, Bytes.replicate (by omega), ?_, ?_, ?_⟩
    · intro h0; have := congrArg List.length h0; simp at this; omega
    · simp; omega
    · simp [List.take_replicate]; omega
    · simp [List.drop_replicate]; omega
  | some v =>
    simp only at hiv
    refine ⟨⟨l, v.take (l / 2), v.drop (l / 2)⟩, ?_, ?_, hiv.2.take _, ?_, rfl, rfl⟩
    · simp [DefaultCounter.new, hiv.1]
    · intro h0; have := congrArg List.length h0; simp [hiv.1] at this; omega
    · simp [hiv.1]; omega

/-- the initial counter block is admissible: an l-byte string, or absent for an even block length -/
def CtrDom (l : Nat) (iv : Option (List Nat)) : Prop :=
  match iv with | some v => IsBlock l v | none => l % 2 = 0

/-- CTR.enc is M xor the key stream of the model's counter blocks -/
theorem ctr_enc_keystream (h : Implements c k) (iv : Option (List Nat)) (hiv : CtrDom c.len iv) (M : List Nat) :
    ∃ d, DefaultCounter.new c.len iv = .ok d ∧ d.count0 ≠ [] ∧ (∀ i, IsBlock c.len (modelT d i)) ∧
      CTR.enc c iv M = .ok (xorstr M (keystream k (modelT d) 0 ((M.length - 1) / c.len + 1))) := by
  obtain ⟨d, hd, hne, hnb, hlen, _, _⟩ := counter_new c.len h.len_pos iv hiv
  have hT : ∀ i, IsBlock c.len (modelT d i) := modelT_isBlock d c.len hnb hlen
  refine ⟨d, hd, hne, hT, ?_⟩
  unfold CTR.enc
  rw [mkPad_ok c _ h.len_pos]
  simp only [hd, iter_no c.len h.len_pos M, reset_eq]
  rw [forBlocks_ok _ _ _ (ctrBlocks_eq h d hne hT _ 0)]
  simp only
  rw [ctr_keystream k (modelT d) c.len (fun i => (h.E_block _ (hT i)).1)]
  obtain ⟨h1, h2, _, _, _⟩ := last_piece M.length c.len h.len_pos
  rw [Nat.succ_mul]; omega

end Proofs.Lemmas.ModeL
