/-
  Bridge between 64-bit `Model.Bits` words and `BitVec 64` (used by the Threefish / Skein proofs).
-/
import Model.Threefish
import Spec.Threefish
namespace Proofs.Lemmas.TfBridge
open Model

/-- the Bits object denoting a 64-bit word -/
def ofBV (x : BitVec 64) : Bits := ⟨x.toNat, 64⟩

theorem z64_eq : Threefish.z64 = ofBV 0 := rfl

theorem ofBV_inj {x y : BitVec 64} (h : ofBV x = ofBV y) : x = y := by
  apply BitVec.eq_of_toNat_eq
  simpa [ofBV] using congrArg Bits.ival h

theorem add_ofBV (x y : BitVec 64) : (ofBV x).add (ofBV y) = ofBV (x + y) := by
  simp [ofBV, Bits.add, Bits.wsize, BitVec.toNat_add]

theorem xor_ofBV (x y : BitVec 64) : (ofBV x).xor (ofBV y) = ofBV (x ^^^ y) := by
  simp [ofBV, Bits.xor, Bits.wsize, BitVec.toNat_xor]

theorem sub_ofBV (x y : BitVec 64) : (ofBV x).sub (ofBV y) = ofBV (x - y) := by
  simp only [ofBV, Bits.sub, Bits.wsize, BitVec.toNat_sub, Nat.lt_irrefl, ite_false]
  have := y.isLt
  rw [Nat.mod_eq_of_lt this, Nat.add_comm]

theorem bitLength_le {s : Nat} (h : s < 2 ^ 64) : Py.bitLength s ≤ 64 := by
  unfold Py.bitLength
  split
  · omega
  · rename_i h0
    have := (Nat.log2_lt h0).2 h
    omega

theorem wsize_ofNat (x : BitVec 64) {s : Nat} (h : s < 2 ^ 64) : Bits.wsize (ofBV x) (Bits.ofNat s) = 64 := by
  have hb := bitLength_le h
  unfold Bits.wsize
  show (if 64 > Py.bitLength s then 64 else Py.bitLength s) = 64
  split <;> omega

theorem add_ofNat (x : BitVec 64) {s : Nat} (h : s < 2 ^ 64) :
    (ofBV x).add (Bits.ofNat s) = ofBV (x + BitVec.ofNat 64 s) := by
  unfold Bits.add
  rw [wsize_ofNat x h]
  simp [ofBV, Bits.ofNat, BitVec.toNat_add, Nat.mod_eq_of_lt h]

theorem rol_ofBV (x : BitVec 64) {r : Nat} (h : r < 64) : (ofBV x).rol! r = ofBV (x.rotateLeft r) := by
  have hx := x.isLt
  simp only [ofBV, Bits.rol!, Bits.shl, Bits.shr, Bits.or, Bits.wsize, Bits.mask, Nat.lt_irrefl, ite_false]
  congr 1
  rw [BitVec.rotateLeft_def, BitVec.toNat_or, BitVec.toNat_shiftLeft, BitVec.toNat_ushiftRight,
      Nat.and_two_pow_sub_one_eq_mod, Nat.and_two_pow_sub_one_eq_mod, Nat.mod_eq_of_lt h]
  congr 1
  apply Nat.mod_eq_of_lt
  exact Nat.lt_of_le_of_lt (Nat.shiftRight_le _ _) hx

theorem ror_ofBV (x : BitVec 64) {r : Nat} (h : r < 64) : (ofBV x).ror! r = ofBV (x.rotateRight r) := by
  have hx := x.isLt
  simp only [ofBV, Bits.ror!, Bits.shl, Bits.shr, Bits.or, Bits.wsize, Bits.mask, Nat.lt_irrefl, ite_false]
  congr 1
  rw [BitVec.rotateRight_def, BitVec.toNat_or, BitVec.toNat_shiftLeft, BitVec.toNat_ushiftRight,
      Nat.and_two_pow_sub_one_eq_mod, Nat.and_two_pow_sub_one_eq_mod, Nat.mod_eq_of_lt h]
  congr 1
  apply Nat.mod_eq_of_lt
  exact Nat.lt_of_le_of_lt (Nat.shiftRight_le _ _) hx

end Proofs.Lemmas.TfBridge
