/-
  Proofs.Lemmas.CrcBack — the backward CRC step for every reflected polynomial whose top bit (the x^0 coefficient) is
  set, every width ≥ 8: `crc_back_table(P)` is the table of 8-step preimages, and the table-driven backward loop of
  `crc_back_pos` is the two-sided inverse of the forward loop.  Core Lean only.
-/
import Model.Crc
import Spec.Crc
import Proofs.Lemmas.CrcLin
import Proofs.Lemmas.CrcModel
namespace Proofs.Lemmas.CrcBack
open Model Model.Crc Spec.Crc Proofs.Lemmas.CrcLin Proofs.Lemmas.CrcModel

/-- the backward bit step on register values: undo `r := r>>1 xor (P if r&1)` -/
def bstepN (P w c : Nat) : Nat :=
  if c.testBit (w - 1) then (((c ^^^ P) <<< 1) % 2 ^ w) ||| 1 else (c <<< 1) % 2 ^ w

def bsteps (P w n c : Nat) : Nat := Nat.repeat (bstepN P w) n c

theorem bsteps_succ (P w n c : Nat) : bsteps P w (n + 1) c = bstepN P w (bsteps P w n c) := rfl

theorem bstepN_lt (P w c : Nat) (hw : 1 ≤ w) : bstepN P w c < 2 ^ w := by
  unfold bstepN
  split
  · exact Nat.or_lt_two_pow (Nat.mod_lt _ (Nat.two_pow_pos w)) (Nat.one_lt_two_pow (by omega))
  · exact Nat.mod_lt _ (Nat.two_pow_pos w)

theorem bsteps_lt (P w n c : Nat) (hw : 1 ≤ w) (hc : c < 2 ^ w) : bsteps P w n c < 2 ^ w := by
  cases n with
  | zero => exact hc
  | succ n => rw [bsteps_succ]; exact bstepN_lt P w _ hw

theorem testBit_ge (x w i : Nat) (hx : x < 2 ^ w) (hi : w ≤ i) : x.testBit i = false :=
  Nat.testBit_lt_two_pow (Nat.lt_of_lt_of_le hx (Nat.pow_le_pow_right (by decide) hi))

theorem testBit_one (i : Nat) : Nat.testBit 1 i = decide (i = 0) := by
  cases i with
  | zero => rfl
  | succ i =>
    have : ¬ (Nat.testBit 1 (i + 1) = true) := fun h => by
      have := Nat.testBit_one_eq_true_iff_self_eq_zero.1 h; omega
    simp at this ⊢; exact this

/-- forward after backward -/
theorem step_bstepN (P w c : Nat) (hw : 1 ≤ w) (hP : P < 2 ^ w) (htop : P.testBit (w - 1) = true) (hc : c < 2 ^ w) :
    step P (bstepN P w c) = c := by
  unfold bstepN
  by_cases ht : c.testBit (w - 1) = true
  · rw [if_pos ht]
    have h0 : ((((c ^^^ P) <<< 1) % 2 ^ w) ||| 1).testBit 0 = true := by
      rw [Nat.testBit_or]; simp
    have hsh : ((((c ^^^ P) <<< 1) % 2 ^ w) ||| 1) >>> 1 = c ^^^ P := by
      apply Nat.eq_of_testBit_eq; intro i
      rw [Nat.testBit_shiftRight, Nat.testBit_or, Nat.testBit_mod_two_pow, Nat.testBit_shiftLeft, testBit_one]
      have e : 1 + i - 1 = i := by omega
      rw [e]
      by_cases hi : 1 + i < w
      · simp [hi]
      · have hfalse : (c ^^^ P).testBit i = false := by
          rw [Nat.testBit_xor]
          by_cases hiw : i = w - 1
          · rw [hiw, ht, htop]; rfl
          · rw [testBit_ge c w i hc (by omega), testBit_ge P w i hP (by omega)]; rfl
        simp [hi, hfalse]
    unfold step
    rw [h0, if_pos rfl, hsh, Nat.xor_assoc, Nat.xor_self, Nat.xor_zero]
  · rw [if_neg ht]
    have ht' : c.testBit (w - 1) = false := by simpa using ht
    have h0 : ((c <<< 1) % 2 ^ w).testBit 0 = false := by
      rw [Nat.testBit_mod_two_pow, Nat.testBit_shiftLeft]; simp
    have hsh : ((c <<< 1) % 2 ^ w) >>> 1 = c := by
      apply Nat.eq_of_testBit_eq; intro i
      rw [Nat.testBit_shiftRight, Nat.testBit_mod_two_pow, Nat.testBit_shiftLeft]
      have e : 1 + i - 1 = i := by omega
      rw [e]
      by_cases hi : 1 + i < w
      · simp [hi]
      · have hfalse : c.testBit i = false := by
          by_cases hiw : i = w - 1
          · rw [hiw, ht']
          · exact testBit_ge c w i hc (by omega)
        simp [hi, hfalse]
    unfold step
    rw [h0]
    simp only [Bool.false_eq_true, if_false]
    exact hsh

/-- backward after forward -/
theorem bstepN_step (P w y : Nat) (hw : 1 ≤ w) (hP : P < 2 ^ w) (htop : P.testBit (w - 1) = true) (hy : y < 2 ^ w) :
    bstepN P w (step P y) = y := by
  have hshr : (y >>> 1).testBit (w - 1) = false := by
    rw [Nat.testBit_shiftRight]; exact testBit_ge y w _ hy (by omega)
  unfold step
  by_cases h0 : y.testBit 0 = true
  · rw [if_pos h0]
    unfold bstepN
    have ht : ((y >>> 1) ^^^ P).testBit (w - 1) = true := by
      rw [Nat.testBit_xor, hshr, htop]; rfl
    rw [if_pos ht, Nat.xor_assoc, Nat.xor_self, Nat.xor_zero]
    apply Nat.eq_of_testBit_eq; intro i
    rw [Nat.testBit_or, Nat.testBit_mod_two_pow, Nat.testBit_shiftLeft, Nat.testBit_shiftRight, testBit_one]
    by_cases hi : i = 0
    · subst hi; simp [h0]
    · have e : 1 + (i - 1) = i := by omega
      have hge : i ≥ 1 := by omega
      rw [e]
      by_cases hiw : i < w
      · simp [hi, hiw, hge]
      · simp [hi, hiw, testBit_ge y w i hy (by omega)]
  · rw [if_neg h0]
    have h0' : y.testBit 0 = false := by simpa using h0
    unfold bstepN
    rw [hshr]
    simp only [Bool.false_eq_true, if_false]
    apply Nat.eq_of_testBit_eq; intro i
    rw [Nat.testBit_mod_two_pow, Nat.testBit_shiftLeft, Nat.testBit_shiftRight]
    by_cases hi : i = 0
    · subst hi; simp [h0']
    · have e : 1 + (i - 1) = i := by omega
      have hge : i ≥ 1 := by omega
      rw [e]
      by_cases hiw : i < w
      · simp [hiw, hge]
      · simp [hiw, testBit_ge y w i hy (by omega)]

theorem steps_bsteps (P w : Nat) (hw : 1 ≤ w) (hP : P < 2 ^ w) (htop : P.testBit (w - 1) = true) :
    ∀ (n c : Nat), c < 2 ^ w → steps P n (bsteps P w n c) = c := by
  intro n
  induction n with
  | zero => intro c _; rfl
  | succ n ih =>
    intro c hc
    rw [bsteps_succ, steps, step_bstepN P w _ hw hP htop (bsteps_lt P w n c hw hc), ih c hc]

theorem bsteps_steps (P w : Nat) (hw : 1 ≤ w) (hP : P < 2 ^ w) (htop : P.testBit (w - 1) = true) :
    ∀ (n y : Nat), y < 2 ^ w → bsteps P w n (steps P n y) = y := by
  intro n
  induction n with
  | zero => intro y _; rfl
  | succ n ih =>
    intro y hy
    rw [bsteps_succ, steps, ih _ (step_lt P w y hP hy), bstepN_step P w y hw hP htop hy]

/-! ### the model's backward table -/

theorem msb_ne_zero (c : Bits) : (msb c ≠ 0) ↔ c.ival.testBit (c.size - 1) = true := by
  unfold msb Nat.testBit
  rw [Nat.and_comm]
  simp

theorem backStep_eq (P c : Bits) (hw : 2 ≤ P.size) (hc : c.WF) (hs : c.size = P.size) :
    backStep P c = ⟨bstepN P.ival P.size c.ival, P.size⟩ := by
  unfold backStep bstepN
  by_cases h : c.ival.testBit (c.size - 1) = true
  · have h' : msb c ≠ 0 := (msb_ne_zero c).2 h
    rw [if_pos h', ← hs, if_pos h]
    have hb1 : Py.bitLength 1 = 1 := by decide
    simp only [Bits.or, Bits.shl, Bits.xor, Bits.wsize, Bits.ofNat, Bits.mask, hb1, hs]
    have h1 : ¬ (P.size > P.size) := by omega
    have h2 : P.size > 1 := by omega
    simp only [h1, if_false, h2, if_true, Nat.and_two_pow_sub_one_eq_mod]
  · have h' : ¬ msb c ≠ 0 := fun hh => h ((msb_ne_zero c).1 hh)
    rw [if_neg h', ← hs, if_neg h]
    simp only [Bits.shl, Bits.mask, Nat.and_two_pow_sub_one_eq_mod]

theorem repeat_backStep (P : Bits) (hw : 2 ≤ P.size) : ∀ (n : Nat) (c : Nat), c < 2 ^ P.size →
    Nat.repeat (backStep P) n ⟨c, P.size⟩ = ⟨bsteps P.ival P.size n c, P.size⟩ := by
  intro n
  induction n with
  | zero => intro c _; rfl
  | succ n ih =>
    intro c hc
    have hwf : Bits.WF ⟨bsteps P.ival P.size n c, P.size⟩ := bsteps_lt _ _ n c (by omega) hc
    rw [Nat.repeat, ih c hc, backStep_eq P ⟨bsteps P.ival P.size n c, P.size⟩ hw hwf rfl, bsteps_succ]

theorem shl_top_lt (n w : Nat) (hn : n < 256) (hw : 8 ≤ w) : n <<< (w - 8) < 2 ^ w := by
  rw [Nat.shiftLeft_eq]
  have : (2:Nat) ^ w = 2 ^ 8 * 2 ^ (w - 8) := by rw [← Nat.pow_add]; congr 1; omega
  rw [this]
  exact Nat.mul_lt_mul_of_lt_of_le hn (Nat.le_refl _) (Nat.two_pow_pos _)

theorem backEntry_eq (P : Bits) (hw : 8 ≤ P.size) (n : Nat) (hn : n < 256) :
    backEntry P n = ⟨bsteps P.ival P.size 8 (n <<< (P.size - 8)), P.size⟩ := by
  have hlt := shl_top_lt n P.size hn hw
  unfold backEntry
  have : Bits.ofNatSz (n <<< (P.size - 8)) P.size = ⟨n <<< (P.size - 8), P.size⟩ := by
    unfold Bits.ofNatSz; rw [Nat.mod_eq_of_lt hlt]
  rw [this]
  exact repeat_backStep P (by omega) 8 _ hlt

theorem crcBackTable_eq (P : Bits) (hw : 8 ≤ P.size) :
    crcBackTable P = .ok ((List.range 256).map (backEntry P)) := by
  unfold crcBackTable
  rw [if_neg (by omega)]

theorem lookup_back (P : Bits) (n : Nat) (hn : n < 256) :
    lookup ((List.range 256).map (backEntry P)) n = .ok (backEntry P n) := by
  unfold lookup
  rw [List.getElem?_map, List.getElem?_range hn]; rfl

/-! ### one byte backwards -/

theorem shl8_mod (r w : Nat) (hw : 8 ≤ w) : (r <<< 8) % 2 ^ w = (r % 2 ^ (w - 8)) <<< 8 := by
  apply Nat.eq_of_testBit_eq; intro i
  simp only [Nat.testBit_mod_two_pow, Nat.testBit_shiftLeft]
  by_cases h8 : i ≥ 8
  · by_cases hw' : i < w
    · have : i - 8 < w - 8 := by omega
      simp [h8, hw', this]
    · have : ¬ i - 8 < w - 8 := by omega
      simp [h8, hw', this]
  · simp [h8]

/-- table-driven backward byte step = eight backward bit steps, then xor the byte -/
theorem back_byte (P w r : Nat) (hw : 8 ≤ w) (hP : P < 2 ^ w) (htop : P.testBit (w - 1) = true) (hr : r < 2 ^ w) :
    ((r <<< 8) % 2 ^ w) ^^^ bsteps P w 8 ((r >>> (w - 8)) <<< (w - 8)) = bsteps P w 8 r := by
  have hh : (r >>> (w - 8)) < 256 := by
    rw [Nat.shiftRight_eq_div_pow]
    apply Nat.div_lt_of_lt_mul
    have : (2:Nat) ^ w = 2 ^ (w - 8) * 256 := by
      have : (256:Nat) = 2 ^ 8 := rfl
      rw [this, ← Nat.pow_add]; congr 1; omega
    omega
  have htoplt := shl_top_lt _ w hh hw
  have hB := bsteps_lt P w 8 _ (by omega) htoplt
  have hlow : (r % 2 ^ (w - 8)) <<< 8 < 2 ^ w := by
    rw [Nat.shiftLeft_eq]
    have : (2:Nat) ^ w = 2 ^ (w - 8) * 2 ^ 8 := by rw [← Nat.pow_add]; congr 1; omega
    rw [this]
    exact Nat.mul_lt_mul_of_lt_of_le (Nat.mod_lt _ (Nat.two_pow_pos _)) (Nat.le_refl _) (Nat.two_pow_pos _)
  have hX : ((r <<< 8) % 2 ^ w) ^^^ bsteps P w 8 ((r >>> (w - 8)) <<< (w - 8)) < 2 ^ w := by
    rw [shl8_mod r w hw]; exact Nat.xor_lt_two_pow hlow hB
  have hst : steps P 8 (((r <<< 8) % 2 ^ w) ^^^ bsteps P w 8 ((r >>> (w - 8)) <<< (w - 8))) = r := by
    rw [steps_xor, shl8_mod r w hw, steps_shl, steps_bsteps P w (by omega) hP htop 8 _ htoplt]
    exact (split_low r (w - 8)).symm
  have := bsteps_steps P w (by omega) hP htop 8 _ hX
  rw [hst] at this
  exact this.symm

/-- the model's backward iteration with the generated table -/
theorem backLoop_cons (P : Bits) (hPwf : P.WF) (hw : 8 ≤ P.size) (htop : P.ival.testBit (P.size - 1) = true)
    (r b : Nat) (bs : List Nat) (hr : r < 2 ^ P.size) (hb : b < 256) :
    backLoop ((List.range 256).map (backEntry P)) P.size ⟨r, P.size⟩ (b :: bs)
      = backLoop ((List.range 256).map (backEntry P)) P.size ⟨bsteps P.ival P.size 8 r ^^^ b, P.size⟩ bs
    ∧ bsteps P.ival P.size 8 r ^^^ b < 2 ^ P.size := by
  have h256 := two_pow_ge_256 _ hw
  have hidx : r >>> (P.size - 8) < 256 := by
    rw [Nat.shiftRight_eq_div_pow]
    apply Nat.div_lt_of_lt_mul
    have : (2:Nat) ^ P.size = 2 ^ (P.size - 8) * 256 := by
      have : (256:Nat) = 2 ^ 8 := rfl
      rw [this, ← Nat.pow_add]; congr 1; omega
    omega
  have hlt : bsteps P.ival P.size 8 r ^^^ b < 2 ^ P.size :=
    Nat.xor_lt_two_pow (bsteps_lt _ _ 8 r (by omega) hr) (by omega)
  refine ⟨?_, hlt⟩
  have hbl : Py.bitLength b ≤ 8 := by
    unfold Py.bitLength
    split
    · omega
    · rename_i hn
      have := (Nat.log2_lt hn).2 (show b < 2 ^ 8 by omega)
      omega
  have hstep : ((⟨r, P.size⟩ : Bits).shl 8).xor ((backEntry P (r >>> (P.size - 8))).xor (Bits.ofNat b))
      = ⟨bsteps P.ival P.size 8 r ^^^ b, P.size⟩ := by
    rw [backEntry_eq P hw _ hidx]
    simp only [Bits.shl, Bits.xor, Bits.wsize, Bits.ofNat, Bits.mask]
    have hval := back_byte P.ival P.size r hw hPwf htop hr
    by_cases h2 : P.size > Py.bitLength b
    · simp only [h2, if_true, Nat.lt_irrefl, if_false, gt_iff_lt, Nat.and_two_pow_sub_one_eq_mod]
      rw [← Nat.xor_assoc, hval]
    · have h3 : Py.bitLength b = P.size := by omega
      simp only [h3, Nat.lt_irrefl, if_false, gt_iff_lt, Nat.and_two_pow_sub_one_eq_mod]
      rw [← Nat.xor_assoc, hval]
  simp only [backLoop]
  have h8 : ¬ (P.size < 8) := by omega
  simp only [h8, if_false, lookup_back P _ hidx, bind, Except.bind]
  rw [hstep]

/-- backward then forward: the register returned by the backward loop leads forward to the start value -/
theorem backLoop_preimage (P : Bits) (hPwf : P.WF) (hw : 8 ≤ P.size) (htop : P.ival.testBit (P.size - 1) = true) :
    ∀ (l : List Nat) (r : Nat), (∀ b ∈ l, b < 256) → r < 2 ^ P.size →
    ∃ R, backLoop ((List.range 256).map (backEntry P)) P.size ⟨r, P.size⟩ l = .ok ⟨R, P.size⟩ ∧ R < 2 ^ P.size
      ∧ register P.ival R l.reverse = r := by
  intro l
  induction l with
  | nil => intro r _ hr; exact ⟨r, rfl, hr, rfl⟩
  | cons b bs ih =>
    intro r hl hr
    have hb : b < 256 := hl b (by simp)
    obtain ⟨h1, h2⟩ := backLoop_cons P hPwf hw htop r b bs hr hb
    obtain ⟨R, hR, hRlt, hRreg⟩ := ih _ (fun x hx => hl x (by simp [hx])) h2
    refine ⟨R, by rw [h1, hR], hRlt, ?_⟩
    rw [List.reverse_cons, register_append, hRreg, register_cons _ _ _ _ hb, register_nil,
      Nat.xor_assoc, Nat.xor_self, Nat.xor_zero]
    exact steps_bsteps P.ival P.size (by omega) hPwf htop 8 r hr

/-- forward then backward: from the forward register over `l.reverse` the backward loop over `l` recovers the start -/
theorem backLoop_reg_rev (P : Bits) (hPwf : P.WF) (hw : 8 ≤ P.size) (htop : P.ival.testBit (P.size - 1) = true) :
    ∀ (l : List Nat) (r0 : Nat), (∀ b ∈ l, b < 256) → r0 < 2 ^ P.size →
    backLoop ((List.range 256).map (backEntry P)) P.size ⟨register P.ival r0 l.reverse, P.size⟩ l = .ok ⟨r0, P.size⟩ := by
  intro l
  induction l with
  | nil => intro r0 _ _; rfl
  | cons b bs ih =>
    intro r0 hd hr
    have hb : b < 256 := hd b (by simp)
    have hbs : ∀ x ∈ bs.reverse, x < 256 := fun x hx => hd x (by simp [List.mem_reverse.1 hx])
    have hreg : register P.ival r0 bs.reverse < 2 ^ P.size := (fwdLoop_eq P hPwf hw bs.reverse r0 hbs hr).2
    have h256 := two_pow_ge_256 _ hw
    rw [List.reverse_cons, register_append, register_cons _ _ _ _ hb, register_nil]
    have hx : register P.ival r0 bs.reverse ^^^ b < 2 ^ P.size := Nat.xor_lt_two_pow hreg (by omega)
    have hlt : steps P.ival 8 (register P.ival r0 bs.reverse ^^^ b) < 2 ^ P.size := steps_lt _ _ _ _ hPwf hx
    rw [(backLoop_cons P hPwf hw htop _ b bs hlt hb).1, bsteps_steps P.ival P.size (by omega) hPwf htop 8 _ hx,
      Nat.xor_assoc, Nat.xor_self, Nat.xor_zero]
    exact ih r0 (fun x hx => hd x (by simp [hx])) hr

theorem bitLength_le (n k : Nat) (h : n < 2 ^ k) : Py.bitLength n ≤ k := by
  unfold Py.bitLength
  split
  · omega
  · rename_i hn
    have := (Nat.log2_lt hn).2 h
    omega

/-- `crc_back_pos` with the generated backward table, unfolded to the backward loop -/
theorem crcBackPos_eq (P : Bits) (hw : 8 ≤ P.size) (data : List Nat) (pos xfinal c : Nat)
    (hpos : pos < data.length) (hc : c < 2 ^ P.size) :
    crcBackPos data (pos : Int) ((List.range 256).map (backEntry P)) (xfinal : Int) (c : Int)
      = (backLoop ((List.range 256).map (backEntry P)) P.size ⟨(xfinal % 2 ^ P.size) ^^^ c, P.size⟩ (data.drop pos).reverse
          >>= fun r => pure (some r.ival)) := by
  unfold crcBackPos
  have hp : (0 ≤ (pos : Int) ∧ (pos : Int) < (data.length : Int)) := ⟨by omega, by omega⟩
  simp only [hp, not_true_eq_false, if_false, lookup_back P 0 (by decide), bind, Except.bind, and_self]
  rw [backEntry_eq P hw 0 (by decide)]
  have hbl := bitLength_le c P.size hc
  have hr : (Bits.ofInt (xfinal : Int) (some P.size)).xor (Bits.ofInt (c : Int) none)
      = ⟨(xfinal % 2 ^ P.size) ^^^ c, P.size⟩ := by
    simp only [Bits.ofInt, Bits.ofNatSz, Bits.ofNat, Bits.xor, Bits.wsize, Int.natAbs_natCast]
    by_cases h : P.size > Py.bitLength c
    · simp [h]
    · have : Py.bitLength c = P.size := by omega
      simp [this]
  simp only [Int.toNat_natCast]
  rw [hr]

end Proofs.Lemmas.CrcBack
