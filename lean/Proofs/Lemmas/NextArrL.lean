/-
  Proofs.Lemmas.NextArrL — the brute-force successor `Spec.Perms.nextArr`: `lexMin c cs` is a least element of
  c :: cs for the lexicographic order on `List Int`.
-/
import Spec.Perms
namespace Proofs.Lemmas.NextArrL
open Spec.Perms

theorem lexMin_spec : ∀ (cs : List (List Int)) (c : List Int),
    lexMin c cs ∈ c :: cs ∧ ∀ p ∈ c :: cs, lexMin c cs ≤ p := by
  intro cs
  induction cs with
  | nil =>
    intro c
    simp only [lexMin, List.foldl_nil, List.mem_singleton, forall_eq, true_and]
    exact List.le_refl c
  | cons d ds ih =>
    intro c
    have hstep : lexMin c (d :: ds) = lexMin (if d < c then d else c) ds := by
      simp only [lexMin, List.foldl_cons]
    rw [hstep]
    obtain ⟨hmem, hle⟩ := ih (if d < c then d else c)
    have hc' : (if d < c then d else c) ≤ c ∧ (if d < c then d else c) ≤ d := by
      by_cases h : d < c
      · simp only [h, if_true]; exact ⟨List.le_of_lt h, List.le_refl d⟩
      · simp only [h, if_false]; exact ⟨List.le_refl c, List.not_lt.1 h⟩
    have hm := hle _ List.mem_cons_self
    refine ⟨?_, ?_⟩
    · rcases List.mem_cons.1 hmem with h | h
      · rw [h]
        by_cases h' : d < c
        · simp [h']
        · simp [h']
      · exact List.mem_cons_of_mem _ (List.mem_cons_of_mem _ h)
    · intro p hp
      rcases List.mem_cons.1 hp with h | h
      · rw [h]; exact List.le_trans hm hc'.1
      · rcases List.mem_cons.1 h with h | h
        · rw [h]; exact List.le_trans hm hc'.2
        · exact hle p (List.mem_cons_of_mem _ h)

end Proofs.Lemmas.NextArrL
