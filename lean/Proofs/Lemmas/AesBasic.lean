/-
  Helper lemmas for the AES proofs (C02/C03, AES parts): byte-list predicates, the 16-element destructuring,
  kernel-enumerated facts about the regenerated tables, preservation of "16 bytes" by every transformation,
  and the link between the exposed operations (with the code's failure behaviour) and their pure cores.
-/
import Model.Aes
import Spec.Aes
namespace Proofs.Aes
open Model Model.Aes Model.Gen.Aes

/-- every entry is a byte -/
def IsBytes (l : List Nat) : Prop := ∀ b ∈ l, b < 256

/-- a state: 16 bytes -/
def St (s : List Nat) : Prop := s.length = 16 ∧ IsBytes s

/-- a word: 4 bytes -/
def Wd (w : List Nat) : Prop := w.length = 4 ∧ IsBytes w

theorem isBytes_nil : IsBytes [] := by intro b hb; cases hb
theorem isBytes_cons {a : Nat} {l : List Nat} : IsBytes (a :: l) ↔ a < 256 ∧ IsBytes l := by
  simp [IsBytes]
theorem isBytes_append {a b : List Nat} : IsBytes (a ++ b) ↔ IsBytes a ∧ IsBytes b := by
  simp only [IsBytes, List.mem_append]
  constructor
  · intro h; exact ⟨fun x hx => h x (Or.inl hx), fun x hx => h x (Or.inr hx)⟩
  · rintro ⟨h1, h2⟩ x (hx | hx); exact h1 x hx; exact h2 x hx

theorem isBytes_map {f : Nat → Nat} {l : List Nat} (hf : ∀ b < 256, f b < 256) (hl : IsBytes l) : IsBytes (l.map f) := by
  intro b hb
  rw [List.mem_map] at hb
  obtain ⟨a, ha, rfl⟩ := hb
  exact hf a (hl a ha)

theorem xor_lt_256 {a b : Nat} (ha : a < 256) (hb : b < 256) : a ^^^ b < 256 :=
  Nat.xor_lt_two_pow (n := 8) ha hb

theorem isBytes_zipWith_xor {a b : List Nat} (ha : IsBytes a) (hb : IsBytes b) :
    IsBytes (List.zipWith (· ^^^ ·) a b) := by
  induction a generalizing b with
  | nil => simpa using isBytes_nil
  | cons x xs ih =>
    cases b with
    | nil => simpa using isBytes_nil
    | cons y ys =>
      rw [isBytes_cons] at ha hb
      simp only [List.zipWith_cons_cons, isBytes_cons]
      exact ⟨xor_lt_256 ha.1 hb.1, ih ha.2 hb.2⟩

theorem isBytes_take {l : List Nat} (n : Nat) (h : IsBytes l) : IsBytes (l.take n) :=
  fun b hb => h b (List.mem_of_mem_take hb)
theorem isBytes_drop {l : List Nat} (n : Nat) (h : IsBytes l) : IsBytes (l.drop n) :=
  fun b hb => h b (List.mem_of_mem_drop hb)

/-! ### destructuring lists of known length -/

theorem len_succ {α} {l : List α} {n : Nat} (h : l.length = n + 1) : ∃ a t, l = a :: t ∧ t.length = n := by
  cases l with
  | nil => simp at h
  | cons a t => exact ⟨a, t, rfl, by simpa using h⟩

theorem len4 {α} {l : List α} (h : l.length = 4) : ∃ a b c d, l = [a, b, c, d] := by
  obtain ⟨a, l, rfl, h1⟩ := len_succ h
  obtain ⟨b, l, rfl, h2⟩ := len_succ h1
  obtain ⟨c, l, rfl, h3⟩ := len_succ h2
  obtain ⟨d, l, rfl, h4⟩ := len_succ h3
  cases l with
  | nil => exact ⟨a, b, c, d, rfl⟩
  | cons _ _ => simp at h4

theorem len16 {α} {l : List α} (h : l.length = 16) :
    ∃ a0 a1 a2 a3 a4 a5 a6 a7 a8 a9 a10 a11 a12 a13 a14 a15,
      l = [a0, a1, a2, a3, a4, a5, a6, a7, a8, a9, a10, a11, a12, a13, a14, a15] := by
  obtain ⟨a0, l, rfl, h1⟩ := len_succ h
  obtain ⟨a1, l, rfl, h2⟩ := len_succ h1
  obtain ⟨a2, l, rfl, h3⟩ := len_succ h2
  obtain ⟨a3, l, rfl, h4⟩ := len_succ h3
  obtain ⟨a4, l, rfl, h5⟩ := len_succ h4
  obtain ⟨a5, l, rfl, h6⟩ := len_succ h5
  obtain ⟨a6, l, rfl, h7⟩ := len_succ h6
  obtain ⟨a7, l, rfl, h8⟩ := len_succ h7
  obtain ⟨a8, l, rfl, h9⟩ := len_succ h8
  obtain ⟨a9, l, rfl, h10⟩ := len_succ h9
  obtain ⟨a10, l, rfl, h11⟩ := len_succ h10
  obtain ⟨a11, l, rfl, h12⟩ := len_succ h11
  obtain ⟨a12, l, rfl, h13⟩ := len_succ h12
  obtain ⟨a13, l, rfl, h14⟩ := len_succ h13
  obtain ⟨a14, l, rfl, h15⟩ := len_succ h14
  obtain ⟨a15, l, rfl, h16⟩ := len_succ h15
  cases l with
  | nil => exact ⟨a0, a1, a2, a3, a4, a5, a6, a7, a8, a9, a10, a11, a12, a13, a14, a15, rfl⟩
  | cons _ _ => simp at h16

/-! ### facts about the regenerated tables, decided by the kernel on their complete domains -/

theorem sbox_lt : ∀ b < 256, sbox b < 256 := by decide +kernel
theorem sboxInv_lt : ∀ b < 256, sboxInv b < 256 := by decide +kernel
theorem sboxInv_sbox : ∀ b < 256, sboxInv (sbox b) = b := by decide +kernel
theorem sbox_sboxInv : ∀ b < 256, sbox (sboxInv b) = b := by decide +kernel
theorem sboxtable_length : sboxtable.length = 256 := by decide +kernel
theorem sboxinvtable_length : sboxinvtable.length = 256 := by decide +kernel
theorem expTable_lt : ∀ i < 255, expTable.getD i 0 < 256 := by decide +kernel
theorem expTable_length : expTable.length = 255 := by decide +kernel
theorem logTable_length : logTable.length = 256 := by decide +kernel
theorem logTable_some : ∀ a < 256, 0 < a → logTable[a]? = some (some (logD a)) := by decide +kernel
theorem shiftRowsIdx_eq : shiftRowsIdx = [0, 5, 10, 15, 4, 9, 14, 3, 8, 13, 2, 7, 12, 1, 6, 11] := by decide +kernel
theorem invShiftRowsIdx_eq : invShiftRowsIdx = [0, 13, 10, 7, 4, 1, 14, 11, 8, 5, 2, 15, 12, 9, 6, 3] := by decide +kernel

theorem gmulB_lt (a n : Nat) : gmulB a n < 256 := by
  unfold gmulB
  split
  · exact expTable_lt _ (Nat.mod_lt _ (by decide))
  · decide

/-- the exposed `gmul` never fails on bytes and computes the pure core -/
theorem gmul_ok {a n : Nat} (ha : a < 256) (hn : n < 256) : gmul a n = .ok (gmulB a n) := by
  unfold gmul gmulB
  by_cases h : a > 0 ∧ n > 0
  · have e1 : logAt a = .ok (logD a) := by unfold logAt; rw [logTable_some a ha h.1]
    have e2 : logAt n = .ok (logD n) := by unfold logAt; rw [logTable_some n hn h.2]
    have hlt : (logD a + logD n) % 0xff < expTable.length := by
      rw [expTable_length]; exact Nat.mod_lt _ (by decide)
    have e3 : expAt ((logD a + logD n) % 0xff) = .ok (expTable.getD ((logD a + logD n) % 0xff) 0) := by
      unfold expAt
      rw [List.getD_eq_getElem?_getD, List.getElem?_eq_getElem hlt]; rfl
    rw [if_pos h, if_pos h, e1, e2]
    exact e3
  · rw [if_neg h, if_neg h]

end Proofs.Aes
