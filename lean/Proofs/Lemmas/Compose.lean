/-
  The generic Merkle–Damgård composition: a model hash object (Model.HashCore: padding iterator + compression loop
  + serialisation) computes the standard's hash (Spec.MDHash: pad, cut, iterate, serialise) as soon as
    * its IV, compression function and serialisation refine the standard's (`Refines`), and
    * the blocks its padding iterator yields for the call are the blocks of the standard's padded message (`PadOk`).
-/
import Model.HashObj
import Spec.MerkleDamgard
import Proofs.Lemmas.Parse
namespace Proofs.Lemmas.Compose
open Model Proofs.Lemmas.Parse

variable {σ : Type}

/-- IV, compression and serialisation of the model refine those of the standard through the embedding `emb` -/
structure Refines (c : HashCore) (h : Spec.MDHash σ) (emb : σ → List Bits) : Prop where
  iv : c.iv = emb h.init
  compress : ∀ s blk, blk.length = h.blockLen →
    c.compress (emb s) (toNatBytes blk) = .ok (emb (h.compress s blk))
  digest : ∀ s, c.digest (emb s) = toNatBytes (h.out s)
  blockLen : c.padder.blocklen = h.blockLen

/-- the padding obligation of one `update(M,bitlen,padding=True)` call on an object whose padding state is `st`:
    no exception, and the yielded blocks are the blocks of the standard's padded tail for `bits`
    (`done` bits already absorbed) -/
def PadOk (c : HashCore) (h : Spec.MDHash σ) (st : PadState) (done : Nat) (M : List Spec.Byte) (L : Option Nat)
    (bits : List Bool) : Prop :=
  (c.padder.iterblocks st (toNatBytes M) L true).err = none ∧
  (c.padder.iterblocks st (toNatBytes M) L true).yields.map (·.1)
    = (Spec.groups h.blockLen (h.padFrom done bits)).map toNatBytes

theorem groups_length {α} (n : Nat) (l : List α) : ∀ g ∈ Spec.groups n l, g.length = n := by
  intro g hg
  simp only [Spec.groups, List.mem_map, List.mem_range] at hg
  obtain ⟨i, hi, rfl⟩ := hg
  rw [List.length_take, List.length_drop]
  by_cases hn : n = 0
  · subst hn; simp
  · have : (i + 1) * n ≤ l.length := by
      have h1 : i + 1 ≤ l.length / n := hi
      calc (i + 1) * n ≤ (l.length / n) * n := Nat.mul_le_mul_right n h1
        _ ≤ l.length := Nat.div_mul_le_self _ _
    rw [Nat.add_mul] at this
    omega

/-- the compression loop over yielded blocks that are standard blocks -/
theorem absorb_ok {c : HashCore} {h : Spec.MDHash σ} {emb : σ → List Bits} (R : Refines c h emb)
    (ys : List (List Nat × PadState)) (blocks : List (List Spec.Byte)) (s : σ)
    (hy : ys.map (·.1) = blocks.map toNatBytes) (hl : ∀ b ∈ blocks, b.length = h.blockLen) :
    c.absorb (emb s) ys = (emb (h.absorb s blocks), none) := by
  induction ys generalizing blocks s with
  | nil =>
    cases blocks with
    | nil => rfl
    | cons _ _ => simp at hy
  | cons y ys ih =>
    cases blocks with
    | nil => simp at hy
    | cons b bs =>
      obtain ⟨B, st⟩ := y
      simp only [List.map_cons, List.cons.injEq] at hy
      obtain ⟨h1, h2⟩ := hy
      subst h1
      simp only [HashCore.absorb, R.compress s b (hl b (by simp))]
      exact ih bs (h.compress s b) h2 (fun x hx => hl x (by simp [hx]))

/-- an `update(M,bitlen,padding=True)` call on an object holding the embedding of a standard chaining value -/
theorem update_final {c : HashCore} {h : Spec.MDHash σ} {emb : σ → List Bits} (R : Refines c h emb)
    (s : σ) (st : PadState) (done : Nat) (M : List Spec.Byte) (L : Option Nat) (bits : List Bool)
    (hp : PadOk c h st done M L bits) :
    (c.update ⟨emb s, st⟩ (toNatBytes M) L true).2 = .ok (toNatBytes (h.hashFrom s done bits)) := by
  obtain ⟨he, hy⟩ := hp
  simp only [HashCore.update]
  rw [absorb_ok R _ _ s hy (groups_length _ _)]
  simp only [he, R.digest, Spec.MDHash.hashFrom]

/-- **the composition lemma**: a one-shot call computes the standard's hash of `bits` -/
theorem hash_of_refines {c : HashCore} {h : Spec.MDHash σ} {emb : σ → List Bits} (R : Refines c h emb)
    (M : List Spec.Byte) (L : Option Nat) (bits : List Bool) (hp : PadOk c h {} 0 M L bits) :
    c.hash (toNatBytes M) L = .ok (toNatBytes (h.hash bits)) := by
  have := update_final R h.init {} 0 M L bits hp
  simp only [HashCore.hash, HashCore.call, HashCore.initstate, R.iv]
  exact this

end Proofs.Lemmas.Compose
