/-
  Helper lemmas for C05: one CTR object through a history of calls (Model.Mode.CTR.Obj).
-/
import Proofs.Lemmas.ModeCounter
namespace Proofs.Lemmas.ModeL
open Model Model.Mode
variable {c : BlockCipher} {k : Spec.Mode.Cipher}

/-- the loop with the running count is the loop of the stateless model -/
theorem ctrRun_fst (c : BlockCipher) (d : DefaultCounter) : ∀ (bs : List (List Nat)) (cnt : Bits),
    (ctrRun c d cnt bs).1 = ctrBlocks c d cnt bs
  | [], _ => rfl
  | b :: bs, cnt => by
    have ih := ctrRun_fst c d bs (d.call cnt).2
    simp only [ctrRun, ctrBlocks]
    cases c.enc (d.call cnt).1 with
    | error e => rfl
    | ok k =>
      simp only
      rw [← ih]
      rcases ctrRun c d (d.call cnt).2 bs with ⟨r, cnt'⟩
      cases r <;> rfl

/-- CTR encryption as a function of the cipher, the counter object's attributes and the message -/
def encWith (c : BlockCipher) (d : DefaultCounter) (M : List Nat) : Except Err (List Nat) :=
  match mkPad c .no with
  | .error e => .error e
  | .ok p =>
    match forBlocks (iter p M) (ctrBlocks c d d.reset) with
    | .error e => .error e
    | .ok C => .ok (join C)

theorem obj_enc_fst (c : BlockCipher) (o : CTR.Obj) (M : List Nat) : (o.enc c M).1 = encWith c o.counter M := by
  unfold CTR.Obj.enc encWith forBlocks
  cases mkPad c .no with
  | error e => rfl
  | ok p =>
    simp only [ctrRun_fst]
    cases ctrBlocks c o.counter o.counter.reset (iter p M).1 with
    | error e => rfl
    | ok C => cases (iter p M).2 <;> rfl

theorem obj_dec_fst (c : BlockCipher) (o : CTR.Obj) (C : List Nat) :
    (o.dec c C).1 = match encWith c o.counter C with
      | .error e => .error e
      | .ok P => if P.length ≠ C.length then .error "AssertionError" else .ok P := by
  unfold CTR.Obj.dec
  simp only [obj_enc_fst]
  cases encWith c o.counter C with
  | error e => rfl
  | ok P => by_cases hp : P.length ≠ C.length <;> simp [hp]

/-- the loop reads the nonce only -/
theorem ctrBlocks_congr (c : BlockCipher) (d d' : DefaultCounter) (hn : d.nonce = d'.nonce) :
    ∀ (bs : List (List Nat)) (cnt : Bits), ctrBlocks c d cnt bs = ctrBlocks c d' cnt bs
  | [], _ => rfl
  | b :: bs, cnt => by
    have e : d.call cnt = d'.call cnt := by simp [DefaultCounter.call, hn]
    simp only [ctrBlocks, e, ctrBlocks_congr c d d' hn bs]

theorem encWith_congr (c : BlockCipher) (d d' : DefaultCounter) (hn : d.nonce = d'.nonce) (hc : d.count0 = d'.count0) (M : List Nat) :
    encWith c d M = encWith c d' M := by
  have hr : d.reset = d'.reset := by simp [DefaultCounter.reset, hc]
  unfold encWith
  rw [hr, funext (fun bs => ctrBlocks_congr c d d' hn bs d'.reset)]

/-- the first call on a new object is the stateless model -/
theorem encWith_new (c : BlockCipher) (iv : Option (List Nat)) (d : DefaultCounter) (hd : DefaultCounter.new c.len iv = .ok d)
    (M : List Nat) : encWith c d M = CTR.enc c iv M := by
  unfold encWith CTR.enc
  rw [hd]
  cases mkPad c .no <;> rfl

/-- the counter blocks of the model are nonce ‖ BE((count0 + i) mod 2^(8·|count0|)) -/
theorem modelT_eq_of (d : DefaultCounter) (hc : Bytes d.count0) (i : Nat) :
    modelT d i = Spec.Mode.counterBlockOf d.nonce d.count0 i := by
  unfold modelT cntAt Spec.Mode.counterBlockOf
  rw [pack_be, unpack_be _ hc, specBeVal_eq]

/-- with a counter object whose nonce ‖ count0 is a block (count0 not empty): SP 800-38A CTR with that initial counter block -/
theorem encWith_spec (h : Implements c k) (d : DefaultCounter) (hne : d.count0 ≠ []) (hnb : Bytes d.nonce) (hcb : Bytes d.count0)
    (hlen : d.nonce.length + d.count0.length = c.len) (M : List Nat) :
    encWith c d M = .ok (Spec.Mode.ctrOf k d.nonce d.count0 M) := by
  have hT : ∀ i, IsBlock c.len (modelT d i) := modelT_isBlock d c.len hnb hlen
  have hTe : modelT d = Spec.Mode.counterBlockOf d.nonce d.count0 := funext (modelT_eq_of d hcb)
  have hpos := h.len_pos
  have hE : ∀ i, (k.E (modelT d i)).length = c.len := fun i => (h.E_block _ (hT i)).1
  unfold encWith
  rw [mkPad_ok c _ hpos]
  simp only [iter_no c.len hpos M, reset_eq]
  rw [forBlocks_ok _ _ _ (ctrBlocks_eq h d hne hT _ 0)]
  simp only
  congr 1
  unfold Spec.Mode.ctrOf Spec.Mode.ctrEncrypt Spec.Mode.concat
  rw [h.len_eq, spec_blocks_eq, ← hTe]
  by_cases hM : M.length = 0
  · have : M = [] := List.length_eq_zero_iff.1 hM
    subst this
    simp [Spec.Mode.xor, Spec.Mode.ctrFrom, readBlocks, Nat.div_eq_of_lt (show c.len - 1 < c.len by omega)]
  · have hn' : (M.length + c.len - 1) / c.len = (M.length - 1) / c.len + 1 := by
      have : M.length + c.len - 1 = (M.length - 1) + c.len := by omega
      rw [this, Nat.add_div_right _ hpos]
    rw [hn']

/-- CTR over the blocks of M with counter blocks T is M xor the key stream O_0 ‖ O_1 ‖ … -/
theorem ctrSpec_keystream (k : Spec.Mode.Cipher) (T : Nat → List Nat) (hpos : 0 < k.len) (hE : ∀ i, (k.E (T i)).length = k.len)
    (M : List Nat) :
    Spec.Mode.concat (Spec.Mode.ctrEncrypt k T (Spec.Mode.blocks k.len M))
      = xorstr M (keystream k T 0 ((M.length - 1) / k.len + 1)) := by
  unfold Spec.Mode.ctrEncrypt Spec.Mode.concat
  rw [spec_blocks_eq]
  by_cases hM : M.length = 0
  · have : M = [] := List.length_eq_zero_iff.1 hM
    subst this
    simp [xorstr, Spec.Mode.ctrFrom, readBlocks, Nat.div_eq_of_lt (show k.len - 1 < k.len by omega)]
  · have hn' : (M.length + k.len - 1) / k.len = (M.length - 1) / k.len + 1 := by
      have : M.length + k.len - 1 = (M.length - 1) + k.len := by omega
      rw [this, Nat.add_div_right _ hpos]
    have hj := ctr_keystream k T k.len hE ((M.length - 1) / k.len + 1) 0 M (by
        obtain ⟨h1, h2, _, _, _⟩ := last_piece M.length k.len hpos
        rw [Nat.succ_mul]; omega)
    rw [hn']; exact hj

/-- |CTR(M)| = |M| and CTR(CTR(M)) = M, for counter blocks the cipher maps to blocks -/
theorem ctrSpec_length_invol (k : Spec.Mode.Cipher) (T : Nat → List Nat) (hpos : 0 < k.len) (hE : ∀ i, (k.E (T i)).length = k.len)
    (M : List Nat) :
    (Spec.Mode.concat (Spec.Mode.ctrEncrypt k T (Spec.Mode.blocks k.len M))).length = M.length ∧
    Spec.Mode.concat (Spec.Mode.ctrEncrypt k T (Spec.Mode.blocks k.len
      (Spec.Mode.concat (Spec.Mode.ctrEncrypt k T (Spec.Mode.blocks k.len M))))) = M := by
  have hle : M.length ≤ (keystream k T 0 ((M.length - 1) / k.len + 1)).length := by
    rw [keystream_length k T k.len hE]
    obtain ⟨h1, h2, _, _, _⟩ := last_piece M.length k.len hpos
    rw [Nat.succ_mul]; omega
  have hlen : (xorstr M (keystream k T 0 ((M.length - 1) / k.len + 1))).length = M.length := by
    rw [xor_length]; exact Nat.min_eq_left hle
  rw [ctrSpec_keystream k T hpos hE M]
  refine ⟨hlen, ?_⟩
  rw [ctrSpec_keystream k T hpos hE, hlen, xor_cancel_right _ _ hle]

/-- reading results in examples: the bytes a step / a call returned (none: an exception, or not a bytes result) -/
def okBytes : Except Err (List Nat) → Option (List Nat)
  | .ok r => some r
  | .error _ => none
def outBytes : CTR.Out → Option (List Nat)
  | .bytes r => okBytes r
  | .block r => r
  | .unit _ => none

/-- `run` over a concatenated history -/
theorem run_append (c : BlockCipher) : ∀ (h₁ h₂ : List CTR.Step) (o : CTR.Obj),
    CTR.Obj.run c o (h₁ ++ h₂) =
      ((CTR.Obj.run c o h₁).1 ++ (CTR.Obj.run c (CTR.Obj.run c o h₁).2 h₂).1, (CTR.Obj.run c (CTR.Obj.run c o h₁).2 h₂).2)
  | [], _, _ => rfl
  | s :: ss, h₂, o => by
    simp only [List.cons_append, CTR.Obj.run, run_append c ss h₂]

end Proofs.Lemmas.ModeL
