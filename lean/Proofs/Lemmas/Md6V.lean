/-
  Lemmas for C17: the control word V and the node id U — the model's `Bits` concatenation / slice assignment
  against the specification's `BitVec` field layout.
-/
import Model.Md6
import Spec.Md6
namespace Proofs.Lemmas.Md6V
open Model Model.Md6

theorem specV_toNat (r L z p keylen d : Nat) (hr : r < 2^12) (hL : L < 2^8) (hz : z < 2^4) (hp : p < 2^16)
    (hk : keylen < 2^8) (hd : d < 2^12) :
    (Spec.Md6.V r L z p keylen d).toNat = d + keylen * 2^12 + p * 2^20 + z * 2^36 + L * 2^40 + r * 2^48 := by
  simp only [Spec.Md6.V, BitVec.toNat_append, BitVec.toNat_ofNat, Nat.mod_eq_of_lt hr, Nat.mod_eq_of_lt hL,
    Nat.mod_eq_of_lt hz, Nat.mod_eq_of_lt hp, Nat.mod_eq_of_lt hk, Nat.mod_eq_of_lt hd]
  rw [← Nat.shiftLeft_add_eq_or_of_lt hd, ← Nat.shiftLeft_add_eq_or_of_lt hk, ← Nat.shiftLeft_add_eq_or_of_lt hp,
    ← Nat.shiftLeft_add_eq_or_of_lt hz, ← Nat.shiftLeft_add_eq_or_of_lt hL, ← Nat.shiftLeft_add_eq_or_of_lt hr]
  simp only [Nat.shiftLeft_eq]
  omega

theorem concat_arith (a o : Bits) (ha : a.ival < 2 ^ a.size) (ho : o.ival < 2 ^ o.size) :
    a.concat o = ⟨a.ival + o.ival * 2 ^ a.size, a.size + o.size⟩ := by
  unfold Bits.concat Bits.ofNatSz
  rw [Nat.or_comm, ← Nat.shiftLeft_add_eq_or_of_lt ha, Nat.shiftLeft_eq, Nat.add_comm]
  congr 1
  apply Nat.mod_eq_of_lt
  rw [Nat.pow_add]
  calc a.ival + o.ival * 2 ^ a.size < 2 ^ a.size + o.ival * 2 ^ a.size := by omega
    _ = (1 + o.ival) * 2 ^ a.size := by rw [Nat.add_mul, Nat.one_mul]
    _ ≤ 2 ^ o.size * 2 ^ a.size := Nat.mul_le_mul_right _ (by omega)
    _ = 2 ^ a.size * 2 ^ o.size := Nat.mul_comm _ _

theorem V0_arith (d keylen z L r : Nat) (hr : r < 2^12) (hL : L < 2^8) (hz : z < 2^4)
    (hk : keylen < 2^8) (hd : d < 2^12) :
    V0 d keylen z L r = ⟨d + keylen * 2^12 + z * 2^36 + L * 2^40 + r * 2^48, 64⟩ := by
  unfold V0
  have e1 : ∀ v s, v < 2 ^ s → Bits.ofNatSz v s = ⟨v, s⟩ := fun v s h => by simp [Bits.ofNatSz, Nat.mod_eq_of_lt h]
  rw [e1 d 12 hd, e1 keylen 8 hk, e1 0 16 (by omega), e1 z 4 hz, e1 L 8 hL, e1 r 12 hr, e1 0 4 (by omega)]
  rw [concat_arith ⟨d, 12⟩ ⟨keylen, 8⟩ hd hk]
  dsimp only; simp only [Nat.reduceAdd, Nat.reducePow]
  rw [concat_arith ⟨_, 20⟩ ⟨0, 16⟩ (by dsimp only; omega) (by dsimp only; omega)]
  dsimp only; simp only [Nat.reduceAdd, Nat.reducePow, Nat.zero_mul, Nat.add_zero]
  rw [concat_arith ⟨_, 36⟩ ⟨z, 4⟩ (by dsimp only; omega) hz]
  dsimp only; simp only [Nat.reduceAdd, Nat.reducePow]
  rw [concat_arith ⟨_, 40⟩ ⟨L, 8⟩ (by dsimp only; omega) hL]
  dsimp only; simp only [Nat.reduceAdd, Nat.reducePow]
  rw [concat_arith ⟨_, 48⟩ ⟨r, 12⟩ (by dsimp only; omega) hr]
  dsimp only; simp only [Nat.reduceAdd, Nat.reducePow]
  rw [concat_arith ⟨_, 60⟩ ⟨0, 4⟩ (by dsimp only; omega) (by dsimp only; omega)]
  dsimp only
  refine congrArg (fun v => Bits.mk v 64) ?_
  omega

theorem insert_field (lo hi v s w : Nat) (hlo : lo < 2 ^ s) (hv : v < 2 ^ w) (hhi : hi < 2 ^ (64 - (s + w)))
    (hsw : s + w ≤ 64) (hw : 0 < w) :
    ((lo + hi * 2 ^ (s + w)) &&& ((2 ^ 64 - 1) ^^^ (2 ^ (s + w) - 1) ^^^ (2 ^ s - 1))) ||| (v <<< s)
      = lo + v * 2 ^ s + hi * 2 ^ (s + w) := by
  have hlo' : lo < 2 ^ (s + w) := Nat.lt_of_lt_of_le hlo (Nat.pow_le_pow_right (by omega) (by omega))
  have e1 : lo + hi * 2 ^ (s + w) = hi <<< (s + w) ||| lo := by
    rw [← Nat.shiftLeft_add_eq_or_of_lt hlo', Nat.shiftLeft_eq]; omega
  have e2 : lo + v * 2 ^ s + hi * 2 ^ (s + w) = ((hi <<< w ||| v) <<< s) ||| lo := by
    rw [← Nat.shiftLeft_add_eq_or_of_lt hlo, ← Nat.shiftLeft_add_eq_or_of_lt hv, Nat.shiftLeft_eq, Nat.shiftLeft_eq,
      Nat.pow_add, Nat.add_mul, Nat.mul_assoc, Nat.mul_comm (2 ^ w) (2 ^ s)]; omega
  rw [e1, e2]
  apply Nat.eq_of_testBit_eq
  intro i
  simp only [Nat.testBit_or, Nat.testBit_and, Nat.testBit_xor, Nat.testBit_shiftLeft, Nat.testBit_two_pow_sub_one]
  by_cases h1 : i < s
  · have : ¬ (s ≤ i) := by omega
    have : ¬ (s + w ≤ i) := by omega
    have : i < s + w := by omega
    have : i < 64 := by omega
    simp [*]
  · have hl : lo.testBit i = false := Nat.testBit_lt_two_pow (Nat.lt_of_lt_of_le hlo (Nat.pow_le_pow_right (by omega) (by omega)))
    by_cases h2 : i < s + w
    · have : ¬ (s + w ≤ i) := by omega
      have : s ≤ i := by omega
      have : ¬ (w ≤ i - s) := by omega
      simp [*]
    · have hvv : v.testBit (i - s) = false := Nat.testBit_lt_two_pow (Nat.lt_of_lt_of_le hv (Nat.pow_le_pow_right (by omega) (by omega)))
      have : s + w ≤ i := by omega
      have : s ≤ i := by omega
      have : w ≤ i - s := by omega
      have e : i - s - w = i - (s + w) := by omega
      by_cases h3 : i < 64
      · simp [*]
      · have : hi.testBit (i - (s + w)) = false :=
          Nat.testBit_lt_two_pow (Nat.lt_of_lt_of_le hhi (Nat.pow_le_pow_right (by omega) (by omega)))
        simp [*]


theorem sliceIdx (a b len : Nat) (h : b ≤ len) (hab : a ≤ b) :
    Py.sliceIndices (some (a : Int)) (some (b : Int)) none len = .ok ((a : Int), (b : Int), 1) := by
  simp only [Py.sliceIndices, Option.getD_none]
  have : ((len : Int)) ≥ b := by omega
  simp
  omega

theorem setP_raw (x p : Nat) :
    setP ⟨x, 64⟩ p = .ok ⟨(x &&& ((2 ^ 64 - 1) ^^^ (2 ^ (20 + 16) - 1) ^^^ (2 ^ 20 - 1))) ||| (p <<< 20), 64⟩ := by
  unfold setP Bits.setSlice
  rw [show ((20 : Int)) = ((20 : Nat) : Int) from rfl, show ((36 : Int)) = ((36 : Nat) : Int) from rfl,
    sliceIdx 20 36 64 (by omega) (by omega)]
  rfl

theorem setZ1_raw (x : Nat) :
    setZ1 ⟨x, 64⟩ = .ok ⟨(x &&& ((2 ^ 64 - 1) ^^^ (2 ^ (36 + 4) - 1) ^^^ (2 ^ 36 - 1))) ||| (1 <<< 36), 64⟩ := by
  unfold setZ1 Bits.setSlice
  rw [show ((36 : Int)) = ((36 : Nat) : Int) from rfl, show ((40 : Int)) = ((40 : Nat) : Int) from rfl,
    sliceIdx 36 40 64 (by omega) (by omega)]
  rfl

/-- `V[20:36] = p` on the freshly built control word -/
theorem setP_V0 (d keylen z L r p : Nat) (hr : r < 2^12) (hL : L < 2^8) (hz : z < 2^4) (hp : p < 2^16)
    (hk : keylen < 2^8) (hd : d < 2^12) :
    setP (V0 d keylen z L r) p = .ok ⟨(Spec.Md6.V r L z p keylen d).toNat, 64⟩ := by
  rw [V0_arith d keylen z L r hr hL hz hk hd, specV_toNat r L z p keylen d hr hL hz hp hk hd]
  have e : d + keylen * 2^12 + z * 2^36 + L * 2^40 + r * 2^48
      = (d + keylen * 2^12) + (z + L * 2^4 + r * 2^12) * 2^(20 + 16) := by omega
  rw [e, setP_raw, insert_field (d + keylen * 2^12) (z + L * 2^4 + r * 2^12) p 20 16 (by omega) hp (by omega) (by omega) (by omega)]
  congr 2
  omega

/-- `V[20:36] = p; V[36:40] = Bits(1,4)` on the control word built with z = 0 (SEQ, last block) -/
theorem setZ1_setP_V0 (d keylen L r p : Nat) (hr : r < 2^12) (hL : L < 2^8) (hp : p < 2^16)
    (hk : keylen < 2^8) (hd : d < 2^12) :
    (setP (V0 d keylen 0 L r) p >>= setZ1) = .ok ⟨(Spec.Md6.V r L 1 p keylen d).toNat, 64⟩ := by
  rw [setP_V0 d keylen 0 L r p hr hL (by omega) hp hk hd]
  rw [specV_toNat r L 0 p keylen d hr hL (by omega) hp hk hd, specV_toNat r L 1 p keylen d hr hL (by omega) hp hk hd]
  simp only [bind, Except.bind]
  have e : d + keylen * 2^12 + p * 2^20 + 0 * 2^36 + L * 2^40 + r * 2^48
      = (d + keylen * 2^12 + p * 2^20) + (L + r * 2^8) * 2^(36 + 4) := by omega
  rw [e, setZ1_raw]
  have h1 : d + keylen * 2^12 + p * 2^20 < 2 ^ 36 := by omega
  have h2 : L + r * 2^8 < 2 ^ 24 := by omega
  have h3 : 1 < 2 ^ 4 := by omega
  rw [insert_field (d + keylen * 2^12 + p * 2^20) (L + r * 2^8) 1 36 4 h1 h3 h2 (by omega) (by omega)]
  refine congrArg (fun v => Except.ok (Bits.mk v 64)) ?_
  simp only [Nat.reduceAdd, Nat.reducePow]
  clear e
  omega

/-- the control word before `p` is filled in is the specification's with p = 0 -/
theorem V0_eq (d keylen z L r : Nat) (hr : r < 2^12) (hL : L < 2^8) (hz : z < 2^4)
    (hk : keylen < 2^8) (hd : d < 2^12) :
    V0 d keylen z L r = ⟨(Spec.Md6.V r L z 0 keylen d).toNat, 64⟩ := by
  rw [V0_arith d keylen z L r hr hL hz hk hd, specV_toNat r L z 0 keylen d hr hL hz (by omega) hk hd]
  congr 1

/-- the node id `(level<<56)+index`, as stored by `W[23] = U` -/
theorem U_eq (level index : Nat) (hl : level < 2^8) (hi : index < 2^56) :
    ((level <<< 56) + index) % 2 ^ 64 = (Spec.Md6.U level index).toNat := by
  simp only [Spec.Md6.U, BitVec.toNat_append, BitVec.toNat_ofNat, Nat.mod_eq_of_lt hl, Nat.mod_eq_of_lt hi]
  rw [← Nat.shiftLeft_add_eq_or_of_lt hi, Nat.shiftLeft_eq]
  apply Nat.mod_eq_of_lt
  omega

end Proofs.Lemmas.Md6V
