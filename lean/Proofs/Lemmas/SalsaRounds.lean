/-
  Word-level behaviour of the round functions of Model.Salsa / Model.Chacha on `ofBV` vectors.
-/
import Proofs.Lemmas.StreamPoly
import Model.Chacha
import Spec.Salsa20
import Spec.Chacha
namespace Proofs.Lemmas.SalsaRounds
open Model Model.Poly Proofs.Lemmas.StreamPoly

abbrev Word := BitVec 32

theorem rol_ofBV (a : Word) (n : Nat) (hn : n < 32) :
    Salsa.rol (ofBV [a]) n = .ok (ofBV [a.rotateLeft n]) := by
  unfold Salsa.rol
  have h1 : ¬ (n > 32) := by omega
  simp only [ofBV_size, h1, ↓reduceIte]
  rw [shl_ofBV (by decide), shr_ofBV, or_ofBV (by decide) _ _ (by simp)]
  simp only [List.map_cons, List.map_nil, List.zipWith_cons_cons, List.zipWith_nil_right]
  rw [BitVec.rotateLeft_eq_rotateLeftAux_of_lt hn]
  rfl

theorem getInt_ofBV {w} (ws : List (BitVec w)) (i : Nat) (h : i < ws.length) :
    (ofBV ws).getInt (Int.ofNat i) = .ok (ofBV [ws[i]]) := by
  unfold getInt pyGet Py.normIndex
  have h0 : (0 : Int) ≤ Int.ofNat i ∧ Int.ofNat i < ((ofBV ws).ival.length : Int) := by
    constructor
    · exact Int.natCast_nonneg _
    · simp only [ofBV_ival, List.length_map]; exact Int.ofNat_lt.mpr h
  simp only [h0, and_self, ↓reduceIte]
  simp only [ofBV_ival, Int.toNat_natCast, Int.ofNat_eq_natCast, List.getD_eq_getElem?_getD, List.getElem?_map, ofBV_size]
  simp only [List.getElem?_eq_getElem h, Option.map_some, Option.getD_some]
  show Except.ok (ofList [_] w) = _
  unfold ofList
  simp only [List.map_cons, List.map_nil, ↓reduceIte]
  have := red_ofNat_toNat ws[i]
  simp only [Int.ofNat_eq_natCast] at this
  rw [this]
  rfl

/-- `y[list]` -/
theorem getList_ofBV {w} (ws : List (BitVec w)) (idx : List Nat) (h : ∀ i ∈ idx, i < ws.length) :
    (ofBV ws).getList (Salsa.ints idx) = .ok (ofBV (idx.map fun i => ws.getD i 0)) := by
  have key : (Salsa.ints idx).mapM (pyGet (ofBV ws).ival) = .ok (idx.map fun i => Int.ofNat (ws.getD i 0).toNat) := by
    induction idx with
    | nil => rfl
    | cons i rest ih =>
      have hi : i < ws.length := h i (by simp)
      have hr : ∀ j ∈ rest, j < ws.length := fun j hj => h j (by simp [hj])
      simp only [Salsa.ints, List.map_cons, List.mapM_cons]
      have h1 : pyGet (ofBV ws).ival (Int.ofNat i) = .ok (Int.ofNat (ws.getD i 0).toNat) := by
        unfold pyGet Py.normIndex
        have h0 : (0 : Int) ≤ Int.ofNat i ∧ Int.ofNat i < ((ofBV ws).ival.length : Int) := by
          constructor
          · exact Int.natCast_nonneg _
          · simp only [ofBV_ival, List.length_map]; exact Int.ofNat_lt.mpr hi
        simp only [h0, and_self, ↓reduceIte]
        simp [List.getD_eq_getElem?_getD, hi]
      rw [h1]
      have ih' := ih hr
      simp only [Salsa.ints] at ih'
      simp only [bind, Except.bind, ih', pure, Except.pure]
  unfold getList
  rw [key]
  simp only [bind, Except.bind, pure, Except.pure, ofBV_size]
  congr 1
  unfold ofList ofBV
  simp only [↓reduceIte, List.map_map, Poly.mk.injEq, and_true]
  apply List.map_congr_left
  intro a _
  exact red_ofNat_toNat _

theorem concatP4 {w} (a b c d : BitVec w) :
    Salsa.concatP [ofBV [a], ofBV [b], ofBV [c], ofBV [d]] = .ok (ofBV [a, b, c, d]) := by
  simp [Salsa.concatP, Poly.concat, ofBV]


theorem add1 (a b : Word) : binop .add (ofBV [a]) (ofBV [b]) = .ok (ofBV [a + b]) := by
  rw [add_ofBV (by decide) _ _ (by simp)]; rfl
theorem xor1 (a b : Word) : binop .xor (ofBV [a]) (ofBV [b]) = .ok (ofBV [a ^^^ b]) := by
  rw [xor_ofBV (by decide) _ _ (by simp)]; rfl

theorem bind_ok {α β} (a : α) (f : α → Except Err β) : (Except.ok a >>= f) = f a := rfl

/-- `Salsa20.quarterround` on four words -/
theorem salsa_qr (y0 y1 y2 y3 : Word) :
    Salsa.quarterround (ofBV [y0, y1, y2, y3]) =
      .ok (ofBV [(Spec.Salsa20.quarterround y0 y1 y2 y3).1, (Spec.Salsa20.quarterround y0 y1 y2 y3).2.1,
                 (Spec.Salsa20.quarterround y0 y1 y2 y3).2.2.1, (Spec.Salsa20.quarterround y0 y1 y2 y3).2.2.2]) := by
  unfold Salsa.quarterround
  have g0 : (ofBV [y0, y1, y2, y3]).getInt 0 = .ok (ofBV [y0]) := getInt_ofBV [y0, y1, y2, y3] 0 (by simp)
  have g1 : (ofBV [y0, y1, y2, y3]).getInt 1 = .ok (ofBV [y1]) := getInt_ofBV [y0, y1, y2, y3] 1 (by simp)
  have g2 : (ofBV [y0, y1, y2, y3]).getInt 2 = .ok (ofBV [y2]) := getInt_ofBV [y0, y1, y2, y3] 2 (by simp)
  have g3 : (ofBV [y0, y1, y2, y3]).getInt 3 = .ok (ofBV [y3]) := getInt_ofBV [y0, y1, y2, y3] 3 (by simp)
  have r0 : Salsa.rot 0 = 7 := by decide
  have r1 : Salsa.rot 1 = 9 := by decide
  have r2 : Salsa.rot 2 = 13 := by decide
  have r3 : Salsa.rot 3 = 18 := by decide
  simp only [g0, g1, g2, g3, bind_ok, add1, xor1, r0, r1, r2, r3, rol_ofBV _ _ (by decide : 7 < 32),
    rol_ofBV _ _ (by decide : 9 < 32), rol_ofBV _ _ (by decide : 13 < 32), rol_ofBV _ _ (by decide : 18 < 32), concatP4]
  rfl


/-- `Chacha.quarterround` on four words -/
theorem chacha_qr (a b c d : Word) :
    Chacha.quarterround (ofBV [a, b, c, d]) =
      .ok (ofBV [(Spec.Chacha.quarterround a b c d).1, (Spec.Chacha.quarterround a b c d).2.1,
                 (Spec.Chacha.quarterround a b c d).2.2.1, (Spec.Chacha.quarterround a b c d).2.2.2]) := by
  unfold Chacha.quarterround
  have g0 : (ofBV [a, b, c, d]).getInt 0 = .ok (ofBV [a]) := getInt_ofBV [a, b, c, d] 0 (by simp)
  have g1 : (ofBV [a, b, c, d]).getInt 1 = .ok (ofBV [b]) := getInt_ofBV [a, b, c, d] 1 (by simp)
  have g2 : (ofBV [a, b, c, d]).getInt 2 = .ok (ofBV [c]) := getInt_ofBV [a, b, c, d] 2 (by simp)
  have g3 : (ofBV [a, b, c, d]).getInt 3 = .ok (ofBV [d]) := getInt_ofBV [a, b, c, d] 3 (by simp)
  have r0 : Chacha.rot 0 = 16 := by decide
  have r1 : Chacha.rot 1 = 12 := by decide
  have r2 : Chacha.rot 2 = 8 := by decide
  have r3 : Chacha.rot 3 = 7 := by decide
  simp only [g0, g1, g2, g3, bind_ok, add1, xor1, r0, r1, r2, r3, rol_ofBV _ _ (by decide : 16 < 32),
    rol_ofBV _ _ (by decide : 12 < 32), rol_ofBV _ _ (by decide : 8 < 32), rol_ofBV _ _ (by decide : 7 < 32), concatP4]
  rfl

/-- the slice `yM[i:i+4]` of a 16-vector -/
theorem indices16 (p : Poly) (h : p.ival.length = 16) (i : Nat) (hi : i = 0 ∨ i = 4 ∨ i = 8 ∨ i = 12) :
    p.indices (some (i : Int)) (some ((i : Int) + 4)) none = .ok [(i : Int), (i : Int) + 1, (i : Int) + 2, (i : Int) + 3] := by
  unfold Poly.indices
  rw [h]
  rcases hi with rfl | rfl | rfl | rfl <;> rfl

theorem getSlice16 (ws : List Word) (h : ws.length = 16) (i : Nat) (hi : i = 0 ∨ i = 4 ∨ i = 8 ∨ i = 12) :
    (ofBV ws).getSlice (some (i : Int)) (some ((i : Int) + 4)) none
      = .ok (ofBV [ws.getD i 0, ws.getD (i + 1) 0, ws.getD (i + 2) 0, ws.getD (i + 3) 0]) := by
  unfold getSlice
  rw [indices16 _ (by simp [h]) i hi]
  simp only [bind_ok, pure, Except.pure]
  congr 1
  unfold ofList
  simp only [↓reduceIte, ofBV_size, List.map_cons, List.map_nil]
  have he : ∀ k : Nat, k < 16 → red 32 ((ofBV ws).e k) = Int.ofNat (ws.getD k 0).toNat := by
    intro k hk
    rw [e_ofBV ws k (by omega)]
    rw [red_ofNat_toNat]
    simp [List.getD_eq_getElem?_getD, h, hk]
  have t0 : ((i : Int)).toNat = i := by simp
  have t1 : ((i : Int) + 1).toNat = i + 1 := by omega
  have t2 : ((i : Int) + 2).toNat = i + 2 := by omega
  have t3 : ((i : Int) + 3).toNat = i + 3 := by omega
  rw [t0, t1, t2, t3, he i (by omega), he (i + 1) (by omega), he (i + 2) (by omega), he (i + 3) (by omega)]
  rfl


theorem range_0_16_4 : Py.range 0 16 4 = [0, 4, 8, 12] := by decide

theorem concatP4x4 (a b c d : List Word) :
    Salsa.concatP [ofBV a, ofBV b, ofBV c, ofBV d] = .ok (ofBV (a ++ b ++ c ++ d)) := by
  simp [Salsa.concatP, Poly.concat, ofBV]

/-- the generic shape of `rowround` on a 16-vector for a variant whose quarterround acts on words as `q` -/
theorem rowround_words (V : Salsa.Variant) (q : Word → Word → Word → Word → Word × Word × Word × Word)
    (hq : ∀ a b c d, V.qr (ofBV [a, b, c, d]) = .ok (ofBV [(q a b c d).1, (q a b c d).2.1, (q a b c d).2.2.1, (q a b c d).2.2.2]))
    (ws : List Word) (h : ws.length = 16) (hM : V.rM.length = 16 ∧ ∀ i ∈ V.rM, i < 16) (hI : ∀ i ∈ V.rMinv, i < 16) :
    Salsa.rowround V (ofBV ws) =
      .ok (ofBV (V.rMinv.map fun i =>
        (let g := V.rM.map fun i => ws.getD i 0
         let r0 := q (g.getD 0 0) (g.getD 1 0) (g.getD 2 0) (g.getD 3 0)
         let r1 := q (g.getD 4 0) (g.getD 5 0) (g.getD 6 0) (g.getD 7 0)
         let r2 := q (g.getD 8 0) (g.getD 9 0) (g.getD 10 0) (g.getD 11 0)
         let r3 := q (g.getD 12 0) (g.getD 13 0) (g.getD 14 0) (g.getD 15 0)
         [r0.1, r0.2.1, r0.2.2.1, r0.2.2.2] ++ [r1.1, r1.2.1, r1.2.2.1, r1.2.2.2] ++ [r2.1, r2.2.1, r2.2.2.1, r2.2.2.2]
           ++ [r3.1, r3.2.1, r3.2.2.1, r3.2.2.2]).getD i 0)) := by
  unfold Salsa.rowround
  rw [getList_ofBV ws V.rM (by intro i hi; rw [h]; exact hM.2 i hi)]
  rw [range_0_16_4]
  have hg : (V.rM.map fun i => ws.getD i 0).length = 16 := by simp [hM.1]
  have s0 : (ofBV (V.rM.map fun i => ws.getD i 0)).getSlice (some 0) (some (0 + 4)) none
      = .ok (ofBV [(V.rM.map fun i => ws.getD i 0).getD 0 0, (V.rM.map fun i => ws.getD i 0).getD 1 0,
                   (V.rM.map fun i => ws.getD i 0).getD 2 0, (V.rM.map fun i => ws.getD i 0).getD 3 0]) :=
    getSlice16 _ hg 0 (by simp)
  have s1 : (ofBV (V.rM.map fun i => ws.getD i 0)).getSlice (some 4) (some (4 + 4)) none
      = .ok (ofBV [(V.rM.map fun i => ws.getD i 0).getD 4 0, (V.rM.map fun i => ws.getD i 0).getD 5 0,
                   (V.rM.map fun i => ws.getD i 0).getD 6 0, (V.rM.map fun i => ws.getD i 0).getD 7 0]) :=
    getSlice16 _ hg 4 (by simp)
  have s2 : (ofBV (V.rM.map fun i => ws.getD i 0)).getSlice (some 8) (some (8 + 4)) none
      = .ok (ofBV [(V.rM.map fun i => ws.getD i 0).getD 8 0, (V.rM.map fun i => ws.getD i 0).getD 9 0,
                   (V.rM.map fun i => ws.getD i 0).getD 10 0, (V.rM.map fun i => ws.getD i 0).getD 11 0]) :=
    getSlice16 _ hg 8 (by simp)
  have s3 : (ofBV (V.rM.map fun i => ws.getD i 0)).getSlice (some 12) (some (12 + 4)) none
      = .ok (ofBV [(V.rM.map fun i => ws.getD i 0).getD 12 0, (V.rM.map fun i => ws.getD i 0).getD 13 0,
                   (V.rM.map fun i => ws.getD i 0).getD 14 0, (V.rM.map fun i => ws.getD i 0).getD 15 0]) :=
    getSlice16 _ hg 12 (by simp)
  simp only [List.mapM_cons, List.mapM_nil, s0, s1, s2, s3, bind_ok, hq, pure, Except.pure, concatP4x4]
  rw [getList_ofBV _ V.rMinv (by intro i hi; simpa using hI i hi)]


theorem salsa_rowround16 (y0 y1 y2 y3 y4 y5 y6 y7 y8 y9 y10 y11 y12 y13 y14 y15 : Word) :
    Salsa.rowround Salsa.salsa (ofBV [y0, y1, y2, y3, y4, y5, y6, y7, y8, y9, y10, y11, y12, y13, y14, y15]) = .ok (ofBV (Spec.Salsa20.rowround [y0, y1, y2, y3, y4, y5, y6, y7, y8, y9, y10, y11, y12, y13, y14, y15])) := by
  rw [rowround_words Salsa.salsa Spec.Salsa20.quarterround salsa_qr _ rfl (by decide) (by decide)]
  rfl

theorem chacha_rowround16 (y0 y1 y2 y3 y4 y5 y6 y7 y8 y9 y10 y11 y12 y13 y14 y15 : Word) :
    Salsa.rowround Chacha.chacha (ofBV [y0, y1, y2, y3, y4, y5, y6, y7, y8, y9, y10, y11, y12, y13, y14, y15]) = .ok (ofBV (Spec.Chacha.diagonalround [y0, y1, y2, y3, y4, y5, y6, y7, y8, y9, y10, y11, y12, y13, y14, y15])) := by
  rw [rowround_words Chacha.chacha Spec.Chacha.quarterround chacha_qr _ rfl (by decide) (by decide)]
  rfl


theorem salsa_columnround16 (y0 y1 y2 y3 y4 y5 y6 y7 y8 y9 y10 y11 y12 y13 y14 y15 : Word) :
    Salsa.columnround Salsa.salsa (ofBV [y0, y1, y2, y3, y4, y5, y6, y7, y8, y9, y10, y11, y12, y13, y14, y15]) = .ok (ofBV (Spec.Salsa20.columnround [y0, y1, y2, y3, y4, y5, y6, y7, y8, y9, y10, y11, y12, y13, y14, y15])) := by
  unfold Salsa.columnround
  rw [getList_ofBV _ Salsa.salsa.cM (by show ∀ i ∈ _, i < 16; decide)]
  have hg : (Salsa.salsa.cM.map fun i => [y0, y1, y2, y3, y4, y5, y6, y7, y8, y9, y10, y11, y12, y13, y14, y15].getD i 0) = [y0, y4, y8, y12, y1, y5, y9, y13, y2, y6, y10, y14, y3, y7, y11, y15] := rfl
  rw [hg, bind_ok, salsa_rowround16, bind_ok]
  have hl : (Spec.Salsa20.rowround [y0, y4, y8, y12, y1, y5, y9, y13, y2, y6, y10, y14, y3, y7, y11, y15]).length = 16 := rfl
  rw [getList_ofBV _ Salsa.salsa.cMinv (by rw [hl]; decide)]
  rfl

theorem chacha_columnround16 (y0 y1 y2 y3 y4 y5 y6 y7 y8 y9 y10 y11 y12 y13 y14 y15 : Word) :
    Salsa.columnround Chacha.chacha (ofBV [y0, y1, y2, y3, y4, y5, y6, y7, y8, y9, y10, y11, y12, y13, y14, y15]) = .ok (ofBV (Spec.Chacha.columnround [y0, y1, y2, y3, y4, y5, y6, y7, y8, y9, y10, y11, y12, y13, y14, y15])) := by
  unfold Salsa.columnround
  rw [getList_ofBV _ Chacha.chacha.cM (by show ∀ i ∈ _, i < 16; decide)]
  have hg : (Chacha.chacha.cM.map fun i => [y0, y1, y2, y3, y4, y5, y6, y7, y8, y9, y10, y11, y12, y13, y14, y15].getD i 0) = [y0, y1, y2, y3, y7, y4, y5, y6, y10, y11, y8, y9, y13, y14, y15, y12] := rfl
  rw [hg, bind_ok, chacha_rowround16, bind_ok]
  have hl : (Spec.Chacha.diagonalround [y0, y1, y2, y3, y7, y4, y5, y6, y10, y11, y8, y9, y13, y14, y15, y12]).length = 16 := rfl
  rw [getList_ofBV _ Chacha.chacha.cMinv (by rw [hl]; decide)]
  rfl


theorem cons_of_len {α} {n : Nat} (l : List α) (h : l.length = n + 1) : ∃ a t, l = a :: t ∧ t.length = n := by
  cases l with
  | nil => simp at h
  | cons a t => exact ⟨a, t, rfl, by simpa using h⟩

theorem exists16 {α} (l0 : List α) (h0 : l0.length = 16) :
    ∃ y0 y1 y2 y3 y4 y5 y6 y7 y8 y9 y10 y11 y12 y13 y14 y15, l0 = [y0, y1, y2, y3, y4, y5, y6, y7, y8, y9, y10, y11, y12, y13, y14, y15] := by
  obtain ⟨y0, l1, rfl, h1⟩ := cons_of_len l0 h0
  obtain ⟨y1, l2, rfl, h2⟩ := cons_of_len l1 h1
  obtain ⟨y2, l3, rfl, h3⟩ := cons_of_len l2 h2
  obtain ⟨y3, l4, rfl, h4⟩ := cons_of_len l3 h3
  obtain ⟨y4, l5, rfl, h5⟩ := cons_of_len l4 h4
  obtain ⟨y5, l6, rfl, h6⟩ := cons_of_len l5 h5
  obtain ⟨y6, l7, rfl, h7⟩ := cons_of_len l6 h6
  obtain ⟨y7, l8, rfl, h8⟩ := cons_of_len l7 h7
  obtain ⟨y8, l9, rfl, h9⟩ := cons_of_len l8 h8
  obtain ⟨y9, l10, rfl, h10⟩ := cons_of_len l9 h9
  obtain ⟨y10, l11, rfl, h11⟩ := cons_of_len l10 h10
  obtain ⟨y11, l12, rfl, h12⟩ := cons_of_len l11 h11
  obtain ⟨y12, l13, rfl, h13⟩ := cons_of_len l12 h12
  obtain ⟨y13, l14, rfl, h14⟩ := cons_of_len l13 h13
  obtain ⟨y14, l15, rfl, h15⟩ := cons_of_len l14 h14
  obtain ⟨y15, l16, rfl, h16⟩ := cons_of_len l15 h15
  have := List.eq_nil_of_length_eq_zero h16
  subst this
  exact ⟨y0, y1, y2, y3, y4, y5, y6, y7, y8, y9, y10, y11, y12, y13, y14, y15, rfl⟩

theorem salsa_rowround (ws : List Word) (h : ws.length = 16) :
    Salsa.rowround Salsa.salsa (ofBV ws) = .ok (ofBV (Spec.Salsa20.rowround ws)) := by
  obtain ⟨y0, y1, y2, y3, y4, y5, y6, y7, y8, y9, y10, y11, y12, y13, y14, y15, rfl⟩ := exists16 ws h
  exact salsa_rowround16 ..

theorem salsa_columnround (ws : List Word) (h : ws.length = 16) :
    Salsa.columnround Salsa.salsa (ofBV ws) = .ok (ofBV (Spec.Salsa20.columnround ws)) := by
  obtain ⟨y0, y1, y2, y3, y4, y5, y6, y7, y8, y9, y10, y11, y12, y13, y14, y15, rfl⟩ := exists16 ws h
  exact salsa_columnround16 ..

theorem salsa_rowround_length (ws : List Word) (h : ws.length = 16) : (Spec.Salsa20.rowround ws).length = 16 := by
  obtain ⟨y0, y1, y2, y3, y4, y5, y6, y7, y8, y9, y10, y11, y12, y13, y14, y15, rfl⟩ := exists16 ws h
  rfl

theorem salsa_columnround_length (ws : List Word) (h : ws.length = 16) : (Spec.Salsa20.columnround ws).length = 16 := by
  obtain ⟨y0, y1, y2, y3, y4, y5, y6, y7, y8, y9, y10, y11, y12, y13, y14, y15, rfl⟩ := exists16 ws h
  rfl

theorem salsa_doubleround_length (ws : List Word) (h : ws.length = 16) : (Spec.Salsa20.doubleround ws).length = 16 :=
  salsa_rowround_length _ (salsa_columnround_length ws h)

theorem salsa_doubleround (ws : List Word) (h : ws.length = 16) :
    Salsa.doubleround Salsa.salsa (ofBV ws) = .ok (ofBV (Spec.Salsa20.doubleround ws)) := by
  unfold Salsa.doubleround
  rw [salsa_columnround ws h, bind_ok, salsa_rowround _ (salsa_columnround_length ws h)]
  rfl

theorem salsa_iter_length (n : Nat) (ws : List Word) (h : ws.length = 16) :
    (Spec.Salsa20.iterate Spec.Salsa20.doubleround n ws).length = 16 := by
  induction n generalizing ws with
  | zero => exact h
  | succ n ih => exact ih _ (salsa_doubleround_length ws h)

theorem salsa_iter (n : Nat) (ws : List Word) (h : ws.length = 16) :
    Salsa.iter (Salsa.doubleround Salsa.salsa) n (ofBV ws) = .ok (ofBV (Spec.Salsa20.iterate Spec.Salsa20.doubleround n ws)) := by
  induction n generalizing ws with
  | zero => rfl
  | succ n ih =>
    unfold Salsa.iter
    rw [salsa_doubleround ws h, bind_ok, ih _ (salsa_doubleround_length ws h)]
    rfl

/-- `core(X,dround)` on a 16-vector: `dround` doublerounds and the feed-forward addition -/
theorem salsa_core (n : Nat) (ws : List Word) (h : ws.length = 16) :
    Salsa.core Salsa.salsa (ofBV ws) n = .ok (ofBV (Spec.Salsa20.coreWords n ws)) := by
  unfold Salsa.core
  rw [salsa_iter n ws h, bind_ok, add_ofBV (by decide) _ _ (by rw [salsa_iter_length n ws h, h])]
  rfl

theorem chacha_rowround (ws : List Word) (h : ws.length = 16) :
    Salsa.rowround Chacha.chacha (ofBV ws) = .ok (ofBV (Spec.Chacha.diagonalround ws)) := by
  obtain ⟨y0, y1, y2, y3, y4, y5, y6, y7, y8, y9, y10, y11, y12, y13, y14, y15, rfl⟩ := exists16 ws h
  exact chacha_rowround16 ..

theorem chacha_columnround (ws : List Word) (h : ws.length = 16) :
    Salsa.columnround Chacha.chacha (ofBV ws) = .ok (ofBV (Spec.Chacha.columnround ws)) := by
  obtain ⟨y0, y1, y2, y3, y4, y5, y6, y7, y8, y9, y10, y11, y12, y13, y14, y15, rfl⟩ := exists16 ws h
  exact chacha_columnround16 ..

theorem chacha_rowround_length (ws : List Word) (h : ws.length = 16) : (Spec.Chacha.diagonalround ws).length = 16 := by
  obtain ⟨y0, y1, y2, y3, y4, y5, y6, y7, y8, y9, y10, y11, y12, y13, y14, y15, rfl⟩ := exists16 ws h
  rfl

theorem chacha_columnround_length (ws : List Word) (h : ws.length = 16) : (Spec.Chacha.columnround ws).length = 16 := by
  obtain ⟨y0, y1, y2, y3, y4, y5, y6, y7, y8, y9, y10, y11, y12, y13, y14, y15, rfl⟩ := exists16 ws h
  rfl

theorem chacha_doubleround_length (ws : List Word) (h : ws.length = 16) : (Spec.Chacha.doubleround ws).length = 16 :=
  chacha_rowround_length _ (chacha_columnround_length ws h)

theorem chacha_doubleround (ws : List Word) (h : ws.length = 16) :
    Salsa.doubleround Chacha.chacha (ofBV ws) = .ok (ofBV (Spec.Chacha.doubleround ws)) := by
  unfold Salsa.doubleround
  rw [chacha_columnround ws h, bind_ok, chacha_rowround _ (chacha_columnround_length ws h)]
  rfl

theorem chacha_iter_length (n : Nat) (ws : List Word) (h : ws.length = 16) :
    (Spec.Salsa20.iterate Spec.Chacha.doubleround n ws).length = 16 := by
  induction n generalizing ws with
  | zero => exact h
  | succ n ih => exact ih _ (chacha_doubleround_length ws h)

theorem chacha_iter (n : Nat) (ws : List Word) (h : ws.length = 16) :
    Salsa.iter (Salsa.doubleround Chacha.chacha) n (ofBV ws) = .ok (ofBV (Spec.Salsa20.iterate Spec.Chacha.doubleround n ws)) := by
  induction n generalizing ws with
  | zero => rfl
  | succ n ih =>
    unfold Salsa.iter
    rw [chacha_doubleround ws h, bind_ok, ih _ (chacha_doubleround_length ws h)]
    rfl

/-- `core(X,dround)` on a 16-vector: `dround` doublerounds and the feed-forward addition -/
theorem chacha_core (n : Nat) (ws : List Word) (h : ws.length = 16) :
    Salsa.core Chacha.chacha (ofBV ws) n = .ok (ofBV (Spec.Chacha.coreWords n ws)) := by
  unfold Salsa.core
  rw [chacha_iter n ws h, bind_ok, add_ofBV (by decide) _ _ (by rw [chacha_iter_length n ws h, h])]
  rfl

end Proofs.Lemmas.SalsaRounds
